import GuppyVerif.Spec.C24
/-! Helper lemmas for C24. -/
namespace GuppyVerif.Unitary

theorem Flags.inn_iff (F g : Flags) : F.inn g = true ↔ g.Includes F := by
  rcases F with ⟨a, b, c⟩; rcases g with ⟨x, y, z⟩
  unfold Flags.inn Flags.and Flags.Includes
  constructor
  · intro h k
    simp only [decide_eq_true_eq, Flags.mk.injEq] at h
    cases k <;> simp only [Flags.has] <;> intro hk <;> simp_all
  · intro h
    have h1 := h .control; have h2 := h .dagger; have h3 := h .power
    simp only [Flags.has] at h1 h2 h3
    simp only [decide_eq_true_eq, Flags.mk.injEq]
    refine ⟨?_, ?_, ?_⟩
    · cases a <;> simp_all
    · cases b <;> simp_all
    · cases c <;> simp_all

theorem Args.anyQubit_iff : (as : Args) → (as.anyQubit = true ↔ as.PassesQubit)
  | .nil => by simp only [Args.anyQubit, Bool.false_eq_true, false_iff]; rintro ⟨a, h, _⟩; cases h
  | .cons e r => by
    simp only [Args.anyQubit, Bool.or_eq_true, Args.anyQubit_iff r]
    constructor
    · rintro (h | ⟨a, ha, hq⟩)
      · exact ⟨e, .head, h⟩
      · exact ⟨a, .tail ha, hq⟩
    · rintro ⟨a, ha, hq⟩
      cases ha with
      | head => exact .inl hq
      | tail h => exact .inr ⟨a, h, hq⟩

theorem Args.mem_cons_iff {x e : Expr} {r : Args} : Args.Mem x (.cons e r) ↔ x = e ∨ Args.Mem x r := by
  constructor
  · intro h; cases h with
    | head => exact .inl rfl
    | tail h => exact .inr h
  · rintro (rfl | h)
    · exact .head
    · exact .tail h

theorem Args.not_mem_nil {x : Expr} : ¬ Args.Mem x .nil := by intro h; cases h

theorem sub_call_iff {x : Expr} {g args r} :
    Sub x (.call g args r) ↔ x = .call g args r ∨ ∃ a, Args.Mem a args ∧ Sub x a := by
  constructor
  · intro h; cases h with
    | refl => exact .inl rfl
    | call hm hs => exact .inr ⟨_, hm, hs⟩
  · rintro (rfl | ⟨a, hm, hs⟩)
    · exact .refl
    · exact .call hm hs

theorem sub_node_iff {x : Expr} {cs q} :
    Sub x (.node cs q) ↔ x = .node cs q ∨ ∃ a, Args.Mem a cs ∧ Sub x a := by
  constructor
  · intro h; cases h with
    | refl => exact .inl rfl
    | node hm hs => exact .inr ⟨_, hm, hs⟩
  · rintro (rfl | ⟨a, hm, hs⟩)
    · exact .refl
    · exact .node hm hs

theorem sub_leaf_iff {x : Expr} : Sub x .leaf ↔ x = .leaf := by
  constructor
  · intro h; cases h; rfl
  · rintro rfl; exact .refl

theorem sub_place_iff {x : Expr} {q is} :
    Sub x (.place q is) ↔ x = .place q is ∨ ∃ a, Args.Mem a is ∧ Sub x a := by
  constructor
  · intro h; cases h with
    | refl => exact .inl rfl
    | idx hm hs => exact .inr ⟨_, hm, hs⟩
  · rintro (rfl | ⟨a, hm, hs⟩)
    · exact .refl
    · exact .idx hm hs

theorem sub_exempt_iff {x : Expr} {as} : Sub x (.exempt as) ↔ x = .exempt as := by
  constructor
  · intro h; cases h; rfl
  · rintro rfl; exact .refl

theorem badE_leaf (F) : ¬ BadE F .leaf := by
  rintro (⟨g, a, r, h, _⟩ | ⟨_, q, is, _, h⟩) <;> · rw [sub_leaf_iff] at h; cases h

theorem badE_exempt (F as) : ¬ BadE F (.exempt as) := by
  rintro (⟨g, a, r, h, _⟩ | ⟨_, q, is, _, h⟩) <;> · rw [sub_exempt_iff] at h; cases h

theorem badE_place (F q is) :
    BadE F (.place q is) ↔ (F.dagger = true ∧ is.isNil = false) ∨ ∃ a, Args.Mem a is ∧ BadE F a := by
  constructor
  · rintro (⟨g, a, r, h, hq, hi⟩ | ⟨hd, q', is', hn, h⟩)
    · rw [sub_place_iff] at h
      rcases h with h | ⟨b, hm, hs⟩
      · cases h
      · exact .inr ⟨b, hm, .inl ⟨g, a, r, hs, hq, hi⟩⟩
    · rw [sub_place_iff] at h
      rcases h with h | ⟨b, hm, hs⟩
      · cases h; exact .inl ⟨hd, hn⟩
      · exact .inr ⟨b, hm, .inr ⟨hd, q', is', hn, hs⟩⟩
  · rintro (⟨hd, hn⟩ | ⟨b, hm, (⟨g, a, r, hs, hq, hi⟩ | ⟨hd, q', is', hn, hs⟩)⟩)
    · exact .inr ⟨hd, q, is, hn, .refl⟩
    · exact .inl ⟨g, a, r, .idx hm hs, hq, hi⟩
    · exact .inr ⟨hd, q', is', hn, .idx hm hs⟩

theorem badE_call (F g args r) :
    BadE F (.call g args r) ↔
      (∃ a, Args.Mem a args ∧ BadE F a) ∨ (args.PassesQubit ∧ ¬ g.Includes F) := by
  constructor
  · rintro (⟨g', a', r', h, hq, hi⟩ | ⟨hd, q, is, hn, h⟩)
    · rw [sub_call_iff] at h
      rcases h with h | ⟨a, hm, hs⟩
      · cases h; exact .inr ⟨hq, hi⟩
      · exact .inl ⟨a, hm, .inl ⟨g', a', r', hs, hq, hi⟩⟩
    · rw [sub_call_iff] at h
      rcases h with h | ⟨a, hm, hs⟩
      · cases h
      · exact .inl ⟨a, hm, .inr ⟨hd, q, is, hn, hs⟩⟩
  · rintro (⟨a, hm, (⟨g', a', r', hs, hq, hi⟩ | ⟨hd, q, is, hn, hs⟩)⟩ | ⟨hq, hi⟩)
    · exact .inl ⟨g', a', r', .call hm hs, hq, hi⟩
    · exact .inr ⟨hd, q, is, hn, .call hm hs⟩
    · exact .inl ⟨g, args, r, .refl, hq, hi⟩

theorem badE_node (F cs q) :
    BadE F (.node cs q) ↔ ∃ a, Args.Mem a cs ∧ BadE F a := by
  constructor
  · rintro (⟨g', a', r', h, hq, hi⟩ | ⟨hd, q', is, hn, h⟩)
    · rw [sub_node_iff] at h
      rcases h with h | ⟨a, hm, hs⟩
      · cases h
      · exact ⟨a, hm, .inl ⟨g', a', r', hs, hq, hi⟩⟩
    · rw [sub_node_iff] at h
      rcases h with h | ⟨a, hm, hs⟩
      · cases h
      · exact ⟨a, hm, .inr ⟨hd, q', is, hn, hs⟩⟩
  · rintro ⟨a, hm, (⟨g', a', r', hs, hq, hi⟩ | ⟨hd, q', is, hn, hs⟩)⟩
    · exact .inl ⟨g', a', r', .node hm hs, hq, hi⟩
    · exact .inr ⟨hd, q', is, hn, .node hm hs⟩

theorem append_ne_nil_iff {α} (a b : List α) : a ++ b ≠ [] ↔ a ≠ [] ∨ b ≠ [] := by
  cases a <;> simp

mutual
theorem errsExpr_ne_nil (F : Flags) : (e : Expr) → (errsExpr F e ≠ [] ↔ BadE F e)
  | .leaf => by simp only [errsExpr, ne_eq, not_true_eq_false, false_iff]; exact badE_leaf F
  | .place q is => by
    rw [badE_place, errsExpr, append_ne_nil_iff, errsArgs_ne_nil F is]
    cases hd : F.dagger <;> cases hn : is.isNil <;> simp
  | .call g args r => by
    rw [badE_call, errsExpr, append_ne_nil_iff, errsArgs_ne_nil F args, ← Args.anyQubit_iff,
      ← Flags.inn_iff]
    cases args.anyQubit <;> cases F.inn g <;> simp
  | .exempt as => by
    simp only [errsExpr, ne_eq, not_true_eq_false, false_iff]; exact badE_exempt F as
  | .node cs q => by rw [badE_node, errsExpr, errsArgs_ne_nil F cs]
theorem errsArgs_ne_nil (F : Flags) : (as : Args) → (errsArgs F as ≠ [] ↔ ∃ a, Args.Mem a as ∧ BadE F a)
  | .nil => by
    simp only [errsArgs, ne_eq, not_true_eq_false, false_iff]
    rintro ⟨a, h, _⟩; exact Args.not_mem_nil h
  | .cons e r => by
    rw [errsArgs, append_ne_nil_iff, errsExpr_ne_nil F e, errsArgs_ne_nil F r]
    constructor
    · rintro (h | ⟨a, hm, hb⟩)
      · exact ⟨e, .head, h⟩
      · exact ⟨a, .tail hm, hb⟩
    · rintro ⟨a, hm, hb⟩
      rcases Args.mem_cons_iff.mp hm with rfl | hm
      · exact .inl hb
      · exact .inr ⟨a, hm, hb⟩
end

/-! ### statements and blocks -/

/-- the specification predicate for one statement -/
def VS (F : Flags) (s : Stmt) : Prop :=
  (∃ F' e, SiteS F s F' e ∧ BadE F' e) ∨
    (∃ F', F'.dagger = true ∧ (LoopAtS F s F' ∨ AssignAtS F s F'))

theorem or_dagger (F G : Flags) : (F.or G).dagger = true ↔ (F.dagger = true ∨ G.dagger = true) := by
  simp [Flags.or]

mutual
theorem shallow_deepS : (s : Stmt) → s.hasAssignShallow = true → s.hasAssign = true
  | .expr _ => by simp [Stmt.hasAssignShallow]
  | .assign _ _ => by simp [Stmt.hasAssign]
  | .ite _ t f => by
    simp only [Stmt.hasAssignShallow, Stmt.hasAssign, Bool.or_eq_true]
    rintro (h | h)
    · exact .inl (shallow_deepB t h)
    · exact .inr (shallow_deepB f h)
  | .while _ b => by
    simp only [Stmt.hasAssignShallow, Stmt.hasAssign]
    exact shallow_deepB b
  | .withBlock _ _ _ => by simp [Stmt.hasAssignShallow]
theorem shallow_deepB : (b : Block) → b.hasAssignShallow = true → b.hasAssign = true
  | .nil => by simp [Block.hasAssignShallow]
  | .cons s r => by
    simp only [Block.hasAssignShallow, Block.hasAssign, Bool.or_eq_true]
    rintro (h | h)
    · exact .inl (shallow_deepS s h)
    · exact .inr (shallow_deepB r h)
end

mutual
/-- under dagger every assignment, however deeply nested, is reported by the block visit -/
theorem assign_errsS (F : Flags) (hd : F.dagger = true) :
    (s : Stmt) → s.hasAssign = true → errsStmt F s ≠ []
  | .expr _ => by simp [Stmt.hasAssign]
  | .assign _ _ => by simp [errsStmt, hd]
  | .ite c t f => by
    simp only [Stmt.hasAssign, Bool.or_eq_true, errsStmt]
    rintro (h | h)
    · rw [append_ne_nil_iff, append_ne_nil_iff]; exact .inl (.inr (assign_errsB F hd t h))
    · rw [append_ne_nil_iff]; exact .inr (assign_errsB F hd f h)
  | .while c b => by
    simp only [Stmt.hasAssign, errsStmt]
    intro h; rw [append_ne_nil_iff]; exact .inr (assign_errsB F hd b h)
  | .withBlock cargs G b => by
    simp only [Stmt.hasAssign, errsStmt]
    intro h; rw [append_ne_nil_iff]
    exact .inr (assign_errsB (F.or G) ((or_dagger F G).mpr (.inl hd)) b h)
theorem assign_errsB (F : Flags) (hd : F.dagger = true) :
    (b : Block) → b.hasAssign = true → errsBlock F b ≠ []
  | .nil => by simp [Block.hasAssign]
  | .cons s r => by
    simp only [Block.hasAssign, Bool.or_eq_true, errsBlock]
    rintro (h | h)
    · rw [append_ne_nil_iff]; exact .inl (assign_errsS F hd s h)
    · rw [append_ne_nil_iff]; exact .inr (assign_errsB F hd r h)
end

theorem prepassWith_ne_none (G : Flags) (b : Block) :
    (prepassWith G b).toList ≠ [] ↔
      (G.dagger = true ∧ (b.hasLoop = true ∨ b.hasAssignShallow = true)) := by
  unfold prepassWith
  cases G.dagger <;> cases b.hasLoop <;> cases b.hasAssignShallow <;> simp

/-- `Violates` of a `with` body, seen from the enclosing statement -/
theorem vs_with_iff (F G : Flags) (cargs : Args) (b : Block) :
    VS F (.withBlock cargs G b) ↔ (∃ a, Args.Mem a cargs ∧ BadE F a) ∨ Violates (F.or G) b := by
  unfold VS Violates
  constructor
  · rintro (⟨F', e, hs, hb⟩ | ⟨F', hd, (hl | ha)⟩)
    · cases hs with
      | withArg hm => exact .inl ⟨e, hm, hb⟩
      | withBody h => exact .inr (.inl ⟨F', e, h, hb⟩)
    · cases hl with
      | withBody h => exact .inr (.inr ⟨F', hd, .inl h⟩)
    · cases ha with
      | withBody h => exact .inr (.inr ⟨F', hd, .inr h⟩)
  · rintro (⟨a, hm, hb⟩ | (⟨F', e, hs, hb⟩ | ⟨F', hd, (hl | ha)⟩))
    · exact .inl ⟨F, a, .withArg hm, hb⟩
    · exact .inl ⟨F', e, .withBody hs, hb⟩
    · exact .inr ⟨F', hd, .inl (.withBody hl)⟩
    · exact .inr ⟨F', hd, .inr (.withBody ha)⟩

theorem vs_ite_iff (F : Flags) (c : Expr) (t f : Block) :
    VS F (.ite c t f) ↔ BadE F c ∨ Violates F t ∨ Violates F f := by
  unfold VS Violates
  constructor
  · rintro (⟨F', e, hs, hb⟩ | ⟨F', hd, (hl | ha)⟩)
    · cases hs with
      | iteC => exact .inl hb
      | iteT h => exact .inr (.inl (.inl ⟨F', e, h, hb⟩))
      | iteF h => exact .inr (.inr (.inl ⟨F', e, h, hb⟩))
    · cases hl with
      | iteT h => exact .inr (.inl (.inr ⟨F', hd, .inl h⟩))
      | iteF h => exact .inr (.inr (.inr ⟨F', hd, .inl h⟩))
    · cases ha with
      | iteT h => exact .inr (.inl (.inr ⟨F', hd, .inr h⟩))
      | iteF h => exact .inr (.inr (.inr ⟨F', hd, .inr h⟩))
  · rintro (hb | (⟨F', e, hs, hb⟩ | ⟨F', hd, (hl | ha)⟩) | (⟨F', e, hs, hb⟩ | ⟨F', hd, (hl | ha)⟩))
    · exact .inl ⟨F, c, .iteC, hb⟩
    · exact .inl ⟨F', e, .iteT hs, hb⟩
    · exact .inr ⟨F', hd, .inl (.iteT hl)⟩
    · exact .inr ⟨F', hd, .inr (.iteT ha)⟩
    · exact .inl ⟨F', e, .iteF hs, hb⟩
    · exact .inr ⟨F', hd, .inl (.iteF hl)⟩
    · exact .inr ⟨F', hd, .inr (.iteF ha)⟩

theorem vs_while_iff (F : Flags) (c : Expr) (b : Block) :
    VS F (.while c b) ↔ F.dagger = true ∨ BadE F c ∨ Violates F b := by
  unfold VS Violates
  constructor
  · rintro (⟨F', e, hs, hb⟩ | ⟨F', hd, (hl | ha)⟩)
    · cases hs with
      | whileC => exact .inr (.inl hb)
      | whileB h => exact .inr (.inr (.inl ⟨F', e, h, hb⟩))
    · cases hl with
      | here => exact .inl hd
      | whileB h => exact .inr (.inr (.inr ⟨F', hd, .inl h⟩))
    · cases ha with
      | whileB h => exact .inr (.inr (.inr ⟨F', hd, .inr h⟩))
  · rintro (hd | hb | (⟨F', e, hs, hb⟩ | ⟨F', hd, (hl | ha)⟩))
    · exact .inr ⟨F, hd, .inl .here⟩
    · exact .inl ⟨F, c, .whileC, hb⟩
    · exact .inl ⟨F', e, .whileB hs, hb⟩
    · exact .inr ⟨F', hd, .inl (.whileB hl)⟩
    · exact .inr ⟨F', hd, .inr (.whileB ha)⟩

theorem vs_expr_iff (F : Flags) (e : Expr) : VS F (.expr e) ↔ BadE F e := by
  unfold VS
  constructor
  · rintro (⟨F', e', hs, hb⟩ | ⟨F', hd, (hl | ha)⟩)
    · cases hs; exact hb
    · cases hl
    · cases ha
  · intro h; exact .inl ⟨F, e, .expr, h⟩

theorem vs_assign_iff (F : Flags) (t : Expr) (v : Option Expr) :
    VS F (.assign t v) ↔ F.dagger = true ∨ (∃ e, v = some e ∧ BadE F e) ∨ BadE F t := by
  unfold VS
  constructor
  · rintro (⟨F', e', hs, hb⟩ | ⟨F', hd, (hl | ha)⟩)
    · cases hs with
      | assign => exact .inr (.inl ⟨e', rfl, hb⟩)
      | assignT => exact .inr (.inr hb)
    · cases hl
    · cases ha; exact .inl hd
  · rintro (hd | ⟨e, rfl, hb⟩ | hb)
    · exact .inr ⟨F, hd, .inr .here⟩
    · exact .inl ⟨F, e, .assign, hb⟩
    · exact .inl ⟨F, t, .assignT, hb⟩

theorem violates_nil (F : Flags) : ¬ Violates F .nil := by
  rintro (⟨F', e, hs, _⟩ | ⟨F', _, (h | h)⟩)
  · cases hs
  · cases h
  · cases h

theorem violates_cons_iff (F : Flags) (s : Stmt) (r : Block) :
    Violates F (.cons s r) ↔ VS F s ∨ Violates F r := by
  unfold VS Violates
  constructor
  · rintro (⟨F', e, hs, hb⟩ | ⟨F', hd, (hl | ha)⟩)
    · cases hs with
      | head h => exact .inl (.inl ⟨F', e, h, hb⟩)
      | tail h => exact .inr (.inl ⟨F', e, h, hb⟩)
    · cases hl with
      | head h => exact .inl (.inr ⟨F', hd, .inl h⟩)
      | tail h => exact .inr (.inr ⟨F', hd, .inl h⟩)
    · cases ha with
      | head h => exact .inl (.inr ⟨F', hd, .inr h⟩)
      | tail h => exact .inr (.inr ⟨F', hd, .inr h⟩)
  · rintro ((⟨F', e, hs, hb⟩ | ⟨F', hd, (hl | ha)⟩) | (⟨F', e, hs, hb⟩ | ⟨F', hd, (hl | ha)⟩))
    · exact .inl ⟨F', e, .head hs, hb⟩
    · exact .inr ⟨F', hd, .inl (.head hl)⟩
    · exact .inr ⟨F', hd, .inr (.head ha)⟩
    · exact .inl ⟨F', e, .tail hs, hb⟩
    · exact .inr ⟨F', hd, .inl (.tail hl)⟩
    · exact .inr ⟨F', hd, .inr (.tail ha)⟩

mutual
/-- the block visit, together with "a loop somewhere below while dagger is required here",
    is exactly the specification predicate -/
theorem mainS : (F : Flags) → (s : Stmt) →
    (((F.dagger = true ∧ s.hasLoop = true) ∨ errsStmt F s ≠ []) ↔ VS F s)
  | F, .expr e => by
    rw [vs_expr_iff, errsStmt, errsExpr_ne_nil]
    simp [Stmt.hasLoop]
  | F, .assign t v => by
    rw [vs_assign_iff]
    simp only [Stmt.hasLoop, Bool.false_eq_true, and_false, false_or, errsStmt]
    cases hd : F.dagger
    · cases v with
      | none => simp [errsExpr_ne_nil]
      | some e =>
        simp only [Bool.false_eq_true, ↓reduceIte, false_or, Option.some.injEq, exists_eq_left']
        rw [append_ne_nil_iff, errsExpr_ne_nil, errsExpr_ne_nil]
    · simp
  | F, .ite c t f => by
    rw [vs_ite_iff, ← mainB F t, ← mainB F f, errsStmt, append_ne_nil_iff, append_ne_nil_iff,
      errsExpr_ne_nil]
    simp only [Stmt.hasLoop, Bool.or_eq_true]
    constructor
    · rintro (⟨hd, (h | h)⟩ | ((h | h) | h))
      · exact .inr (.inl (.inl ⟨hd, h⟩))
      · exact .inr (.inr (.inl ⟨hd, h⟩))
      · exact .inl h
      · exact .inr (.inl (.inr h))
      · exact .inr (.inr (.inr h))
    · rintro (h | (⟨hd, h⟩ | h) | (⟨hd, h⟩ | h))
      · exact .inr (.inl (.inl h))
      · exact .inl ⟨hd, .inl h⟩
      · exact .inr (.inl (.inr h))
      · exact .inl ⟨hd, .inr h⟩
      · exact .inr (.inr h)
  | F, .while c b => by
    rw [vs_while_iff, ← mainB F b, errsStmt, append_ne_nil_iff, errsExpr_ne_nil]
    simp only [Stmt.hasLoop, and_true]
    constructor
    · rintro (hd | (h | h))
      · exact .inl hd
      · exact .inr (.inl h)
      · exact .inr (.inr (.inr h))
    · rintro (hd | h | (⟨hd, _⟩ | h))
      · exact .inl hd
      · exact .inr (.inl h)
      · exact .inl hd
      · exact .inr (.inr h)
  | F, .withBlock cargs G b => by
    rw [vs_with_iff, ← mainB (F.or G) b, errsStmt, append_ne_nil_iff, append_ne_nil_iff,
      errsArgs_ne_nil, prepassWith_ne_none, or_dagger]
    simp only [Stmt.hasLoop]
    constructor
    · rintro (⟨hd, h⟩ | ((h | ⟨hg, (h | h)⟩) | h))
      · exact .inr (.inl ⟨.inl hd, h⟩)
      · exact .inl h
      · exact .inr (.inl ⟨.inr hg, h⟩)
      · exact .inr (.inr (assign_errsB (F.or G) ((or_dagger F G).mpr (.inr hg)) b (shallow_deepB b h)))
      · exact .inr (.inr h)
    · rintro (h | (⟨(hd | hg), h⟩ | h))
      · exact .inr (.inl (.inl h))
      · exact .inl ⟨hd, h⟩
      · exact .inr (.inl (.inr ⟨hg, .inl h⟩))
      · exact .inr (.inr h)
theorem mainB : (F : Flags) → (b : Block) →
    (((F.dagger = true ∧ b.hasLoop = true) ∨ errsBlock F b ≠ []) ↔ Violates F b)
  | F, .nil => by
    simp only [Block.hasLoop, Bool.false_eq_true, and_false, errsBlock, ne_eq, not_true_eq_false,
      or_self, false_iff]
    exact violates_nil F
  | F, .cons s r => by
    rw [violates_cons_iff, ← mainS F s, ← mainB F r, errsBlock, append_ne_nil_iff]
    simp only [Block.hasLoop, Bool.or_eq_true]
    constructor
    · rintro (⟨hd, (h | h)⟩ | (h | h))
      · exact .inl (.inl ⟨hd, h⟩)
      · exact .inr (.inl ⟨hd, h⟩)
      · exact .inl (.inr h)
      · exact .inr (.inr h)
    · rintro ((⟨hd, h⟩ | h) | (⟨hd, h⟩ | h))
      · exact .inl ⟨hd, .inl h⟩
      · exact .inr (.inl h)
      · exact .inl ⟨hd, .inr h⟩
      · exact .inr (.inr h)
end

mutual
theorem loopAt_of_hasLoopS : (F : Flags) → (s : Stmt) → s.hasLoop = true → ∃ F', LoopAtS F s F'
  | F, .expr _, h => by simp [Stmt.hasLoop] at h
  | F, .assign _ _, h => by simp [Stmt.hasLoop] at h
  | F, .ite c t f, h => by
    simp only [Stmt.hasLoop, Bool.or_eq_true] at h
    rcases h with h | h
    · obtain ⟨F', h'⟩ := loopAt_of_hasLoopB F t h; exact ⟨F', .iteT h'⟩
    · obtain ⟨F', h'⟩ := loopAt_of_hasLoopB F f h; exact ⟨F', .iteF h'⟩
  | F, .while c b, _ => ⟨F, .here⟩
  | F, .withBlock cargs G b, h => by
    simp only [Stmt.hasLoop] at h
    obtain ⟨F', h'⟩ := loopAt_of_hasLoopB (F.or G) b h; exact ⟨F', .withBody h'⟩
theorem loopAt_of_hasLoopB : (F : Flags) → (b : Block) → b.hasLoop = true → ∃ F', LoopAtB F b F'
  | F, .nil, h => by simp [Block.hasLoop] at h
  | F, .cons s r, h => by
    simp only [Block.hasLoop, Bool.or_eq_true] at h
    rcases h with h | h
    · obtain ⟨F', h'⟩ := loopAt_of_hasLoopS F s h; exact ⟨F', .head h'⟩
    · obtain ⟨F', h'⟩ := loopAt_of_hasLoopB F r h; exact ⟨F', .tail h'⟩
end

mutual
theorem assignAt_of_hasAssignS : (F : Flags) → (s : Stmt) → s.hasAssign = true → ∃ F', AssignAtS F s F'
  | F, .expr _, h => by simp [Stmt.hasAssign] at h
  | F, .assign _ _, _ => ⟨F, .here⟩
  | F, .ite c t f, h => by
    simp only [Stmt.hasAssign, Bool.or_eq_true] at h
    rcases h with h | h
    · obtain ⟨F', h'⟩ := assignAt_of_hasAssignB F t h; exact ⟨F', .iteT h'⟩
    · obtain ⟨F', h'⟩ := assignAt_of_hasAssignB F f h; exact ⟨F', .iteF h'⟩
  | F, .while c b, h => by
    simp only [Stmt.hasAssign] at h
    obtain ⟨F', h'⟩ := assignAt_of_hasAssignB F b h; exact ⟨F', .whileB h'⟩
  | F, .withBlock cargs G b, h => by
    simp only [Stmt.hasAssign] at h
    obtain ⟨F', h'⟩ := assignAt_of_hasAssignB (F.or G) b h; exact ⟨F', .withBody h'⟩
theorem assignAt_of_hasAssignB : (F : Flags) → (b : Block) → b.hasAssign = true → ∃ F', AssignAtB F b F'
  | F, .nil, h => by simp [Block.hasAssign] at h
  | F, .cons s r, h => by
    simp only [Block.hasAssign, Bool.or_eq_true] at h
    rcases h with h | h
    · obtain ⟨F', h'⟩ := assignAt_of_hasAssignS F s h; exact ⟨F', .head h'⟩
    · obtain ⟨F', h'⟩ := assignAt_of_hasAssignB F r h; exact ⟨F', .tail h'⟩
end

theorem prepassFn_go_ne_none :
    (b : Block) → (prepassFn.go b ≠ none ↔ (b.hasLoop = true ∨ b.hasAssign = true))
  | .nil => by simp [prepassFn.go, Block.hasLoop, Block.hasAssign]
  | .cons s r => by
    have ih := prepassFn_go_ne_none r
    unfold prepassFn.go
    simp only [Block.hasLoop, Block.hasAssign, Bool.or_eq_true]
    cases s.hasLoop <;> cases s.hasAssign <;> simp [ih]

theorem prepass_ne_none (k : Kind) (F : Flags) (b : Block) :
    prepass k F b ≠ none ↔
      (F.dagger = true ∧ (b.hasLoop = true ∨
        (match k with | .fn => b.hasAssign | .withBlock => b.hasAssignShallow) = true)) := by
  cases k
  · simp only [prepass, prepassFn]
    cases hd : F.dagger
    · simp
    · simp only [Bool.not_true, Bool.false_eq_true, ↓reduceIte, prepassFn_go_ne_none, true_and]
  · have := prepassWith_ne_none F b
    simp only [prepass]
    rw [← this]
    cases prepassWith F b <;> simp

theorem check_ne_ok_iff (k : Kind) (F : Flags) (b : Block) :
    check k F b ≠ .ok ↔ (prepass k F b ≠ none ∨ errsBlock F b ≠ []) := by
  unfold check
  cases prepass k F b with
  | some e => simp
  | none => cases errsBlock F b <;> simp

/-- (helper, moved out of Props after audit F4: a Boolean identity): the flags named in a `UnitaryCallError` are exactly the
    required flags the callee lacks. -/
theorem missing_has (F g : Flags) (k : FlagKind) :
    (F.and g.compl).has k = (F.has k && !g.has k) := by
  cases k <;> rfl

end GuppyVerif.Unitary
