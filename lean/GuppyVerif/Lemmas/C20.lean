import Mathlib.Analysis.SpecialFunctions.Trigonometric.Basic
import Mathlib.Data.Matrix.Block
import Mathlib.LinearAlgebra.Matrix.Notation
/-! Documented gate matrices needed for the `ch` decomposition (from the docstrings of `ry`, `cz`,
    `ch` in `std/quantum/__init__.py`; all real) and two helper identities.  A two-qubit operator
    with qubit ordering `[control, target]` is written in block form over `control ⊕ target`. -/
namespace GuppyVerif.Gate.Mat
open Matrix Real

/-- docstring of `ry`: `Ry(θ) = [[cos θ/2, -sin θ/2], [sin θ/2, cos θ/2]]` -/
noncomputable def Ry (θ : ℝ) : Matrix (Fin 2) (Fin 2) ℝ :=
  !![cos (θ / 2), -sin (θ / 2); sin (θ / 2), cos (θ / 2)]

/-- Pauli Z -/
def Zm : Matrix (Fin 2) (Fin 2) ℝ := !![1, 0; 0, -1]

/-- docstring of `h`: `H = 1/√2 [[1, 1], [1, -1]]` -/
noncomputable def Hm : Matrix (Fin 2) (Fin 2) ℝ := (1 / √2) • !![1, 1; 1, -1]

/-- `I ⊗ U`: `U` on the target whatever the control -/
def onTarget (U : Matrix (Fin 2) (Fin 2) ℝ) : Matrix (Fin 2 ⊕ Fin 2) (Fin 2 ⊕ Fin 2) ℝ :=
  fromBlocks U 0 0 U

/-- controlled-`U`: identity on the control-0 block, `U` on the control-1 block
    (`controlled Zm` is the documented `CZ = diag(1,1,1,-1)`, `controlled Hm` is CH) -/
def controlled (U : Matrix (Fin 2) (Fin 2) ℝ) : Matrix (Fin 2 ⊕ Fin 2) (Fin 2 ⊕ Fin 2) ℝ :=
  fromBlocks 1 0 0 U

theorem ry_inv (θ : ℝ) : Ry θ * Ry (-θ) = 1 := by
  ext i j
  fin_cases i <;> fin_cases j <;>
    simp [Ry, Matrix.mul_apply, Fin.sum_univ_two, neg_div, Real.cos_neg, Real.sin_neg] <;>
    nlinarith [Real.sin_sq_add_cos_sq (θ / 2)]

theorem ry_z_ry (θ : ℝ) : Ry θ * Zm * Ry (-θ) = !![cos θ, sin θ; sin θ, -cos θ] := by
  have hc : cos θ = cos (θ / 2) ^ 2 - sin (θ / 2) ^ 2 := by
    have h := Real.cos_two_mul (θ / 2)
    have e : 2 * (θ / 2) = θ := by ring
    rw [e] at h
    linarith [Real.sin_sq_add_cos_sq (θ / 2)]
  have hs : sin θ = 2 * sin (θ / 2) * cos (θ / 2) := by
    have h := Real.sin_two_mul (θ / 2)
    have e : 2 * (θ / 2) = θ := by ring
    rw [e] at h
    exact h
  ext i j
  fin_cases i <;> fin_cases j <;>
    simp [Ry, Zm, Matrix.mul_apply, Fin.sum_univ_two, neg_div, Real.cos_neg, Real.sin_neg, hc, hs] <;>
    ring

theorem rot_quarter_eq_H :
    (!![cos (π / 4), sin (π / 4); sin (π / 4), -cos (π / 4)] : Matrix (Fin 2) (Fin 2) ℝ) = Hm := by
  rw [Real.cos_pi_div_four, Real.sin_pi_div_four]
  ext i j
  fin_cases i <;> fin_cases j <;> simp [Hm] <;> field_simp <;> norm_num

end GuppyVerif.Gate.Mat
