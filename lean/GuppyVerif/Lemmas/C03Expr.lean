import GuppyVerif.Lemmas.C03Bld
/-! # C03 helper lemmas, part 4: `bld` is correct on hoist-safe expressions

`SemE env e`: for every mode, start block and builder state, in every CFG extending the result:
* value mode — running from the start position reaches the end position of the result block in a state
  where the residual expression evaluates to Python's value of `e`, producing Python's trace; user
  variables agree with Python's final store; older temporaries are untouched;
* branch mode — running from the start position reaches the true/false target according to Python's
  truth value of `e`, with Python's trace and store (on user variables). -/
namespace GuppyVerif.Builder
open GuppyVerif.Surface

def ValPost (env : Env) (bl : List Block) (e : Expr) (b n nt : Nat) (e' : Expr) (b' n' : Nat) (s : S)
    (rv : Option Val) : Prop :=
  ∃ s2 : S, Steps env bl ⟨b, n, s, rv⟩ ⟨b', n', s2, rv⟩ ∧
    eval env e' s2 = ((eval env e s).1, (s2.1, (eval env e s).2.2)) ∧
    agreeU s2.1 (eval env e s).2.1 ∧ ∀ k, k < nt → s2.1 (.tmp k) = s.1 (.tmp k)

def BrPost (env : Env) (bl : List Block) (e : Expr) (b n nt t f : Nat) (s : S) (rv : Option Val) : Prop :=
  ∃ s2 : S, Steps env bl ⟨b, n, s, rv⟩ ⟨if (eval env e s).1.truthy then t else f, 0, s2, rv⟩ ∧
    s2.2 = (eval env e s).2.2 ∧ agreeU s2.1 (eval env e s).2.1 ∧ ∀ k, k < nt → s2.1 (.tmp k) = s.1 (.tmp k)

def SemE (env : Env) (e : Expr) : Prop :=
  ∀ (m : Mode) (b : Nat) (σ : BState) (bl : List Block), userE e = true → hsE e = true → b < σ.len →
    (σ.blk b).succs = [] → Ext (bld e m b σ).2.2 bl → ∀ (s : S) (rv : Option Val),
    match m with
    | .val => ValPost env bl e b (σ.blk b).stmts.length σ.nextTmp (bld e .val b σ).1 (bld e .val b σ).2.1
        ((bld e .val b σ).2.2.blk (bld e .val b σ).2.1).stmts.length s rv
    | .br t f => BrPost env bl e b (σ.blk b).stmts.length σ.nextTmp t f s rv

/-- `BranchBuilder.generic_visit`: branch on the residual of a value-mode build -/
theorem finish_sem {env : Env} {bl : List Block} {e e' : Expr} {b n nt b' : Nat} {σv : BState} {s : S}
    {rv : Option Val} (hb' : b' < σv.len) (ho : (σv.blk b').succs = []) (t f : Nat)
    (hx : Ext (branchOn b' e' t f σv) bl)
    (h : ValPost env bl e b n nt e' b' (σv.blk b').stmts.length s rv) : BrPost env bl e b n nt t f s rv := by
  obtain ⟨s2, hst, hev, hag, htm⟩ := h
  have hblk := blk_branchOn_same b' e' t f σv hb'
  have hsu : ((branchOn b' e' t f σv).blk b').succs = [f, t] := by rw [hblk, ho]; rfl
  have hpr : ((branchOn b' e' t f σv).blk b').pred = some e' := by rw [hblk]
  have hln : ((branchOn b' e' t f σv).blk b').stmts.length = (σv.blk b').stmts.length := by rw [hblk]
  have := step_branch (env := env) hx (by simpa using hb') hsu hpr s2 rv
  rw [hln, hev] at this
  exact ⟨(s2.1, (eval env e s).2.2), hst.trans (Steps.single this), rfl, hag, htm⟩

/-- expressions without lifted constructs: nothing is emitted, the residual means the same -/
theorem nolift_val {env : Env} {bl : List Block} {e : Expr} (hl : lifts e = false) (b nt : Nat) (σ : BState)
    (s : S) (rv : Option Val) :
    ValPost env bl e b (σ.blk b).stmts.length nt (bld e .val b σ).1 (bld e .val b σ).2.1
      ((bld e .val b σ).2.2.blk (bld e .val b σ).2.1).stmts.length s rv := by
  obtain ⟨h1, h2⟩ := bld_nolift e hl b σ
  have e1 : (bld e .val b σ).2.1 = b := congrArg Prod.fst h1
  have e2 : (bld e .val b σ).2.2 = σ := congrArg Prod.snd h1
  rw [e1, e2]
  refine ⟨s, .refl _, ?_, ?_, fun _ _ => rfl⟩
  · rw [h2 env s, ← eval_store_of_not_lifts env e hl s]
  · rw [eval_store_of_not_lifts env e hl s]; exact agreeU.refl _

theorem resReads_user (e : Expr) (h : userE e = true) : ∀ x ∈ resReads e, ∃ u, x = .user u := by
  induction e with
  | var y => cases y <;> simp_all [resReads, userE]
  | un o e ih => exact ih h
  | bi o l r ihl ihr =>
    simp only [userE, Bool.and_eq_true] at h
    intro x hx; simp only [resReads, List.mem_append] at hx
    rcases hx with hx | hx
    · exact ihl h.1 x hx
    · exact ihr h.2 x hx
  | walrus y e ih => cases y <;> simp_all [resReads, userE]
  | _ => simp [resReads]

theorem resReads_eq_vars (e : Expr) (h : lifts e = false) : resReads e = vars e := by
  induction e with
  | un o e ih => exact ih h
  | bi o l r ihl ihr => simp only [lifts, Bool.or_eq_false_iff] at h; simp [resReads, vars, ihl h.1, ihr h.2]
  | _ => first | rfl | simp [lifts] at h

theorem disjoint_spec {a b : List Var} (h : disjoint a b = true) : ∀ x ∈ a, x ∉ b := by
  intro x hx; simp only [disjoint, List.all_eq_true] at h; simpa using h x hx

theorem sib_spec {l r : Expr} (h : sib l r = true) (hl : lifts r = true) :
    resCalls l = false ∧ ∀ x ∈ resReads l, x ∉ writes r := by
  simp only [sib, hl, Bool.not_true, Bool.false_or, Bool.and_eq_true, Bool.not_eq_eq_eq_not] at h
  exact ⟨by simpa using h.1, disjoint_spec h.2⟩

theorem sib_reads {l r : Expr} (h : sib l r = true) : ∀ x ∈ resReads l, x ∉ writes r := by
  cases hl : lifts r with
  | true => exact (sib_spec h hl).2
  | false => intro x _; simp [writes_nil_of_not_lifts r hl]

theorem Ext.step {σ σ' : BState} {b : Nat} {bl : List Block} (h : Touch σ b σ') (ho : (σ.blk b).succs = [])
    (hx : Ext σ' bl) : Ext σ bl := (h.ext ho).trans hx

/-- the state after `tmp = ep` in `p`, `tmp = eq` in `q` and the merge block (value mode of
    short-circuit expressions and of conditional expressions) -/
def mergeSt (p q : Nat) (ep eq : Expr) (σ2 : BState) : BState :=
  link q σ2.len (link p σ2.len (newBB (addStmt q (.assign (.tmp σ2.nextTmp) eq)
    (addStmt p (.assign (.tmp σ2.nextTmp) ep) (freshTmp σ2).2))).2)

theorem scPost_val_eq (t f b : Nat) (σ2 : BState) :
    scPost .val t f b σ2 = (.var (.tmp σ2.nextTmp), σ2.len, mergeSt t f (.bool true) (.bool false) σ2) := by
  simp [scPost, mergeSt, newBB2]

theorem iteMerge_eq (u v : R) :
    iteMerge u v = (.var (.tmp v.2.2.nextTmp), v.2.2.len, mergeSt u.2.1 v.2.1 u.1 v.1 v.2.2) := by
  simp [iteMerge, mergeSt, newBB2]

theorem merge_sem {env : Env} {bl : List Block} {σ2 : BState} {p q : Nat} (ep eq : Expr)
    (hp : p < σ2.len) (hq : q < σ2.len) (hpq : p ≠ q) (hpo : (σ2.blk p).succs = []) (hqo : (σ2.blk q).succs = [])
    (hx : Ext (mergeSt p q ep eq σ2) bl) :
    Ext σ2 bl ∧ ((mergeSt p q ep eq σ2).blk σ2.len).stmts.length = 0 ∧
    (∀ (s : S) (rv : Option Val), Steps env bl ⟨p, (σ2.blk p).stmts.length, s, rv⟩
      ⟨σ2.len, 0, ((eval env ep s).2.1.set (.tmp σ2.nextTmp) (eval env ep s).1, (eval env ep s).2.2), rv⟩) ∧
    (∀ (s : S) (rv : Option Val), Steps env bl ⟨q, (σ2.blk q).stmts.length, s, rv⟩
      ⟨σ2.len, 0, ((eval env eq s).2.1.set (.tmp σ2.nextTmp) (eval env eq s).1, (eval env eq s).2.2), rv⟩) := by
  -- name the intermediate states
  let σa := (freshTmp σ2).2
  let σb := addStmt p (.assign (.tmp σ2.nextTmp) ep) σa
  let σc := addStmt q (.assign (.tmp σ2.nextTmp) eq) σb
  let σd := (newBB σc).2
  let σe := link p σ2.len σd
  have hσf : mergeSt p q ep eq σ2 = link q σ2.len σe := rfl
  have lb : σb.len = σ2.len := by simp [σb, σa]
  have lc : σc.len = σ2.len := by simp [σc, lb]
  have ld : σd.len = σ2.len + 1 := by simp [σd, lc]
  have le : σe.len = σ2.len + 1 := by simp [σe, ld]
  -- blocks p and q along the way
  have bp : σb.blk p = { σ2.blk p with stmts := (σ2.blk p).stmts ++ [.assign (.tmp σ2.nextTmp) ep] } :=
    blk_addStmt_same p _ σa hp
  have bq : σb.blk q = σ2.blk q := blk_addStmt_other p q _ σa (Ne.symm hpq)
  have cp : σc.blk p = σb.blk p := blk_addStmt_other q p _ σb hpq
  have cq : σc.blk q = { σ2.blk q with stmts := (σ2.blk q).stmts ++ [.assign (.tmp σ2.nextTmp) eq] } := by
    rw [show σc.blk q = _ from blk_addStmt_same q _ σb (by omega), bq]
  have dp : σd.blk p = σc.blk p := blk_newBB_old σc p (by omega)
  have dq : σd.blk q = σc.blk q := blk_newBB_old σc q (by omega)
  have ep' : σe.blk p = { σd.blk p with succs := (σd.blk p).succs ++ [σ2.len] } := blk_link_same p _ σd (by omega)
  have eq' : σe.blk q = σd.blk q := blk_link_other p _ q σd (Ne.symm hpq)
  have fp : (link q σ2.len σe).blk p = σe.blk p := blk_link_other q _ p σe hpq
  have fq : (link q σ2.len σe).blk q = { σe.blk q with succs := (σe.blk q).succs ++ [σ2.len] } :=
    blk_link_same q _ σe (by omega)
  have fm : (link q σ2.len σe).blk σ2.len = {} := by
    rw [blk_link_other q _ _ σe (by omega), show σe.blk σ2.len = _ from blk_link_other p _ _ σd (by omega)]
    have := blk_newBB_new σc; rw [lc] at this; exact this
  rw [hσf] at hx
  -- extension chain
  have hxe : Ext σe bl := Ext.step (touch_link q _ σe) (by rw [eq', dq, cq]; exact hqo) hx
  have hxd : Ext σd bl := Ext.step (touch_link p _ σd) (by rw [dp, cp, bp]; exact hpo) hxe
  have hxc : Ext σc bl := Ext.step (touch_newBB σc p) (by rw [cp, bp]; exact hpo) hxd
  have hxb : Ext σb bl := Ext.step (touch_addStmt q _ σb) (by rw [bq]; exact hqo) hxc
  have hxa : Ext σa bl := Ext.step (touch_addStmt p _ σa) hpo hxb
  have hx2 : Ext σ2 bl := ⟨hxa.len, hxa.pre, hxa.closed⟩
  refine ⟨hx2, by rw [hσf, fm]; rfl, ?_, ?_⟩
  · intro s rv
    have h1 := step_stmt (env := env) hxb (b := p) (k := (σ2.blk p).stmts.length) (by omega)
      (st := .assign (.tmp σ2.nextTmp) ep) (by rw [bp]; simp) s rv
    have hsu : ((link q σ2.len σe).blk p).succs = [σ2.len] := by rw [fp, ep', dp, cp, bp]; simp [hpo]
    have hln : ((link q σ2.len σe).blk p).stmts.length = (σ2.blk p).stmts.length + 1 := by
      rw [fp, ep', dp, cp, bp]; simp
    have h2 := step_goto (env := env) hx (b := p) (by simp; omega) hsu
      ((eval env ep s).2.1.set (.tmp σ2.nextTmp) (eval env ep s).1, (eval env ep s).2.2) rv
    rw [hln] at h2
    exact .head h1 (.head (by simpa [execB] using h2) (.refl _))
  · intro s rv
    have h1 := step_stmt (env := env) hxc (b := q) (k := (σ2.blk q).stmts.length) (by omega)
      (st := .assign (.tmp σ2.nextTmp) eq) (by rw [cq]; simp) s rv
    have hsu : ((link q σ2.len σe).blk q).succs = [σ2.len] := by rw [fq, eq', dq, cq]; simp [hqo]
    have hln : ((link q σ2.len σe).blk q).stmts.length = (σ2.blk q).stmts.length + 1 := by
      rw [fq, eq', dq, cq]; simp
    have h2 := step_goto (env := env) hx (b := q) (by simp; omega) hsu
      ((eval env eq s).2.1.set (.tmp σ2.nextTmp) (eval env eq s).1, (eval env eq s).2.2) rv
    rw [hln] at h2
    exact .head h1 (.head (by simpa [execB] using h2) (.refl _))

theorem eval_tmpvar (env : Env) (k : Nat) (s : S) : eval env (.var (.tmp k)) s = (s.1 (.tmp k), s) := rfl

/-- value mode of a short-circuit expression, given its branch-mode behaviour on the two fresh targets -/
theorem sc_wrap_sem {env : Env} {bl : List Block} {e : Expr} {b n nt b0 : Nat} {σ2 : BState} {t' f' : Nat}
    {s : S} {rv : Option Val} (ht : t' < σ2.len) (hf : f' < σ2.len) (hne : t' ≠ f')
    (hte : σ2.blk t' = {}) (hfe : σ2.blk f' = {}) (hnt : nt ≤ σ2.nextTmp)
    (hx : Ext (scPost .val t' f' b0 σ2).2.2 bl)
    (hbool : (eval env e s).1 = .bool (eval env e s).1.truthy)
    (hbr : Ext σ2 bl → BrPost env bl e b n nt t' f' s rv) :
    ValPost env bl e b n nt (scPost .val t' f' b0 σ2).1 (scPost .val t' f' b0 σ2).2.1
      ((scPost .val t' f' b0 σ2).2.2.blk (scPost .val t' f' b0 σ2).2.1).stmts.length s rv := by
  rw [scPost_val_eq] at hx ⊢
  obtain ⟨hx2, hl0, hP, hQ⟩ := merge_sem (env := env) (.bool true) (.bool false) ht hf hne
    (by rw [hte]) (by rw [hfe]) hx
  obtain ⟨sA, hst, htr, hag, htm⟩ := hbr hx2
  simp only [hl0]
  have hte0 : (σ2.blk t').stmts.length = 0 := by rw [hte]; rfl
  have hfe0 : (σ2.blk f').stmts.length = 0 := by rw [hfe]; rfl
  cases hv : (eval env e s).1.truthy with
  | true =>
    rw [hv] at hst hbool
    have h2 := hP sA rv
    rw [hte0] at h2
    refine ⟨_, hst.trans h2, ?_, ?_, ?_⟩
    · simp only [eval, eval_tmpvar, set_same, hbool, htr]
    · exact (set_tmp_agreeU _ _ _).trans hag
    · intro k hk; simp only [eval]; rw [set_other _ _ (by intro h; injection h with h; omega)]; exact htm k hk
  | false =>
    rw [hv] at hst hbool
    have h2 := hQ sA rv
    rw [hfe0] at h2
    refine ⟨_, hst.trans h2, ?_, ?_, ?_⟩
    · simp only [eval, eval_tmpvar, set_same, hbool, htr]
    · exact (set_tmp_agreeU _ _ _).trans hag
    · intro k hk; simp only [eval]; rw [set_other _ _ (by intro h; injection h with h; omega)]; exact htm k hk

@[simp] theorem truthy_bool (b : Bool) : (Val.bool b).truthy = b := rfl

theorem applyUn_swap (env : Env) (o : UnOp) (v : Val) (a b : Store) (tr : Trace) :
    applyUn env o v (a, tr) = ((applyUn env o v (b, tr)).1, (a, (applyUn env o v (b, tr)).2.2)) := by
  cases o <;> simp [applyUn, callExt]
theorem applyBi_swap (env : Env) (o : BiOp) (v w : Val) (a b : Store) (tr : Trace) :
    applyBi env o v w (a, tr) = ((applyBi env o v w (b, tr)).1, (a, (applyBi env o v w (b, tr)).2.2)) := by
  cases o <;> simp [applyBi, callExt]

/-- a node that `BranchBuilder` handles by `generic_visit` -/
theorem sem_generic {env : Env} {e : Expr}
    (hgen : ∀ t f b σ, (bld e (.br t f) b σ).2.2 =
      branchOn (bld e .val b σ).2.1 (bld e .val b σ).1 t f (bld e .val b σ).2.2)
    (hval : ∀ (b : Nat) (σ : BState) (bl : List Block), userE e = true → hsE e = true → b < σ.len →
      (σ.blk b).succs = [] → Ext (bld e .val b σ).2.2 bl → ∀ (s : S) (rv : Option Val),
      ValPost env bl e b (σ.blk b).stmts.length σ.nextTmp (bld e .val b σ).1 (bld e .val b σ).2.1
        ((bld e .val b σ).2.2.blk (bld e .val b σ).2.1).stmts.length s rv) : SemE env e := by
  intro m b σ bl hu hs hb ho hx s rv
  cases m with
  | val => exact hval b σ bl hu hs hb ho hx s rv
  | br t f =>
    rw [hgen] at hx
    have gv := bld_good e .val b σ hb ho
    exact finish_sem gv.lt gv.opn t f hx
      (hval b σ bl hu hs hb ho (Ext.step (touch_branchOn _ _ _ _ _) gv.opn hx) s rv)

theorem sem_var (env : Env) (x : Var) : SemE env (.var x) :=
  sem_generic (fun _ _ _ _ => rfl) (fun b σ _ _ _ _ _ _ s rv => nolift_val rfl b σ.nextTmp σ s rv)
theorem sem_num (env : Env) (n : Int) : SemE env (.num n) :=
  sem_generic (fun _ _ _ _ => rfl) (fun b σ _ _ _ _ _ _ s rv => nolift_val rfl b σ.nextTmp σ s rv)
theorem sem_call0 (env : Env) (g : String) : SemE env (.call0 g) :=
  sem_generic (fun _ _ _ _ => rfl) (fun b σ _ _ _ _ _ _ s rv => nolift_val rfl b σ.nextTmp σ s rv)

theorem sem_bool (env : Env) (v : Bool) : SemE env (.bool v) := by
  intro m b σ bl _ _ hb ho hx s rv
  cases m with
  | val => exact nolift_val rfl b σ.nextTmp σ s rv
  | br t f =>
    simp only [bld] at hx
    have hblk : ((dummyLink b (if v then f else t) (link b (if v then t else f) σ)).blk b) =
        { σ.blk b with succs := (σ.blk b).succs ++ [if v then t else f],
                        dsuccs := (σ.blk b).dsuccs ++ [if v then f else t] } := by
      rw [blk_dummyLink_same _ _ _ (by simpa using hb), blk_link_same _ _ _ hb]
    have hsu : ((dummyLink b (if v then f else t) (link b (if v then t else f) σ)).blk b).succs =
        [if v then t else f] := by rw [hblk, ho]; rfl
    have hln : ((dummyLink b (if v then f else t) (link b (if v then t else f) σ)).blk b).stmts.length =
        (σ.blk b).stmts.length := by rw [hblk]
    have := step_goto (env := env) hx (by simpa using hb) hsu s rv
    rw [hln] at this
    refine ⟨s, Steps.single ?_, rfl, agreeU.refl _, fun _ _ => rfl⟩
    cases v <;> simpa [eval, truthy_bool] using this

theorem sem_un {env : Env} (o : UnOp) {e : Expr} (ih : SemE env e) : SemE env (.un o e) := by
  have hval : ∀ (b : Nat) (σ : BState) (bl : List Block), userE (.un o e) = true → hsE (.un o e) = true →
      b < σ.len → (σ.blk b).succs = [] → Ext (bld (.un o e) .val b σ).2.2 bl → ∀ (s : S) (rv : Option Val),
      ValPost env bl (.un o e) b (σ.blk b).stmts.length σ.nextTmp (bld (.un o e) .val b σ).1
        (bld (.un o e) .val b σ).2.1
        ((bld (.un o e) .val b σ).2.2.blk (bld (.un o e) .val b σ).2.1).stmts.length s rv := by
    intro b σ bl hu hs hb ho hx s rv
    cases hf : foldNeg o e with
    | some n =>
      obtain ⟨rfl, rfl⟩ := foldNeg_some hf
      exact nolift_val rfl b σ.nextTmp σ s rv
    | none =>
      have hb' : bld (.un o e) .val b σ = (.un o (bld e .val b σ).1, (bld e .val b σ).2.1, (bld e .val b σ).2.2) := by
        cases o <;> simp only [bld, hf, finish]
      rw [hb'] at hx ⊢
      obtain ⟨s2, hst, hev, hag, htm⟩ := ih .val b σ bl hu hs hb ho hx s rv
      refine ⟨s2, hst, ?_, ?_, htm⟩
      · simp only [eval, hev]
        exact applyUn_swap env o _ _ _ _
      · simp only [eval, applyUn_store]; exact hag
  cases o with
  | not =>
    intro m b σ bl hu hs hb ho hx s rv
    cases m with
    | val => exact hval b σ bl hu hs hb ho hx s rv
    | br t f =>
      simp only [bld] at hx
      obtain ⟨s2, hst, htr, hag, htm⟩ := ih (.br f t) b σ bl hu hs hb ho hx s rv
      have h1 : (eval env (.un .not e) s).1.truthy = !(eval env e s).1.truthy := by simp [eval, applyUn]
      have h2 : (eval env (.un .not e) s).2 = (eval env e s).2 := by simp [eval, applyUn]
      show BrPost env bl (.un .not e) b _ _ t f s rv
      unfold BrPost
      rw [h1, h2]
      generalize (eval env e s).1.truthy = x at hst ⊢
      cases x
      · exact ⟨s2, by simpa using hst, htr, hag, htm⟩
      · exact ⟨s2, by simpa using hst, htr, hag, htm⟩
  | neg =>
    refine sem_generic ?_ hval
    intro t f b σ
    cases hf : foldNeg .neg e <;> simp only [bld, hf, finish]
  | prim p =>
    refine sem_generic ?_ hval
    intro t f b σ; simp only [bld, foldNeg, finish]
  | call1 g =>
    refine sem_generic ?_ hval
    intro t f b σ; simp only [bld, foldNeg, finish]

end GuppyVerif.Builder
