import GuppyVerif.Lemmas.C03Bld
/-! # C03 helper lemmas, part 4: `bld` is correct on hoist-safe expressions

`SemE env e`: for every mode, start block and builder state, in every CFG extending the result:
* value mode — running from the start position reaches the end position of the result block in a state
  where the residual expression evaluates to Python's value of `e`, producing Python's trace; user
  variables agree with Python's final store; older temporaries are untouched;
* branch mode — running from the start position reaches the true/false target according to Python's
  truth value of `e`, with Python's trace and store (on user variables). -/
namespace GuppyVerif.Builder
open GuppyVerif.Surface

def ValPost (env : Env) (bl : List Block) (e : Expr) (b n nt : Nat) (e' : Expr) (b' n' : Nat) (s : S)
    (rv : Option Val) : Prop :=
  ∃ s2 : S, Steps env bl ⟨b, n, s, rv⟩ ⟨b', n', s2, rv⟩ ∧
    eval env e' s2 = ((eval env e s).1, (s2.1, (eval env e s).2.2)) ∧
    agreeU s2.1 (eval env e s).2.1 ∧ ∀ k, k < nt → s2.1 (.tmp k) = s.1 (.tmp k)

def BrPost (env : Env) (bl : List Block) (e : Expr) (b n nt t f : Nat) (s : S) (rv : Option Val) : Prop :=
  ∃ s2 : S, Steps env bl ⟨b, n, s, rv⟩ ⟨if (eval env e s).1.truthy then t else f, 0, s2, rv⟩ ∧
    s2.2 = (eval env e s).2.2 ∧ agreeU s2.1 (eval env e s).2.1 ∧ ∀ k, k < nt → s2.1 (.tmp k) = s.1 (.tmp k)

def SemE (env : Env) (e : Expr) : Prop :=
  ∀ (m : Mode) (b : Nat) (σ : BState) (bl : List Block), userE e = true → b < σ.len →
    (σ.blk b).succs = [] → Ext (bld e m b σ).2.2 bl → ∀ (s : S) (rv : Option Val),
    match m with
    | .val => ValPost env bl e b (σ.blk b).stmts.length σ.nextTmp (bld e .val b σ).1 (bld e .val b σ).2.1
        ((bld e .val b σ).2.2.blk (bld e .val b σ).2.1).stmts.length s rv
    | .br t f => BrPost env bl e b (σ.blk b).stmts.length σ.nextTmp t f s rv

/-- `BranchBuilder.generic_visit`: branch on the residual of a value-mode build -/
theorem finish_sem {env : Env} {bl : List Block} {e e' : Expr} {b n nt b' : Nat} {σv : BState} {s : S}
    {rv : Option Val} (hb' : b' < σv.len) (ho : (σv.blk b').succs = []) (t f : Nat)
    (hx : Ext (branchOn b' e' t f σv) bl)
    (h : ValPost env bl e b n nt e' b' (σv.blk b').stmts.length s rv) : BrPost env bl e b n nt t f s rv := by
  obtain ⟨s2, hst, hev, hag, htm⟩ := h
  have hblk := blk_branchOn_same b' e' t f σv hb'
  have hsu : ((branchOn b' e' t f σv).blk b').succs = [f, t] := by rw [hblk, ho]; rfl
  have hpr : ((branchOn b' e' t f σv).blk b').pred = some e' := by rw [hblk]
  have hln : ((branchOn b' e' t f σv).blk b').stmts.length = (σv.blk b').stmts.length := by rw [hblk]
  have := step_branch (env := env) hx (by simpa using hb') hsu hpr s2 rv
  rw [hln, hev] at this
  exact ⟨(s2.1, (eval env e s).2.2), hst.trans (Steps.single this), rfl, hag, htm⟩

/-- expressions without lifted constructs: nothing is emitted, the residual means the same -/
theorem nolift_val {env : Env} {bl : List Block} {e : Expr} (hl : lifts e = false) (b nt : Nat) (σ : BState)
    (s : S) (rv : Option Val) :
    ValPost env bl e b (σ.blk b).stmts.length nt (bld e .val b σ).1 (bld e .val b σ).2.1
      ((bld e .val b σ).2.2.blk (bld e .val b σ).2.1).stmts.length s rv := by
  obtain ⟨h1, h2⟩ := bld_nolift e hl b σ
  have e1 : (bld e .val b σ).2.1 = b := congrArg Prod.fst h1
  have e2 : (bld e .val b σ).2.2 = σ := congrArg Prod.snd h1
  rw [e1, e2]
  refine ⟨s, .refl _, ?_, ?_, fun _ _ => rfl⟩
  · rw [h2 env s, ← eval_store_of_not_lifts env e hl s]
  · rw [eval_store_of_not_lifts env e hl s]; exact agreeU.refl _

theorem mayEff_nocall : ∀ (e : Expr), mayEff e = false → anyCall e = false
  | .var _, _ | .num _, _ | .bool _, _ => rfl
  | .call0 _, h => by simp [mayEff] at h
  | .un o e, h => by
    simp only [mayEff, Bool.or_eq_false_iff] at h
    have := mayEff_nocall e h.2
    cases o <;> simp_all [anyCall]
  | .bi _ _ _, h => by simp [mayEff] at h
  | .cmp2 .., h => by simp [mayEff] at h
  | .and l r, h => by
    simp only [mayEff, Bool.or_eq_false_iff] at h
    simp [anyCall, mayEff_nocall l h.1, mayEff_nocall r h.2]
  | .or l r, h => by
    simp only [mayEff, Bool.or_eq_false_iff] at h
    simp [anyCall, mayEff_nocall l h.1, mayEff_nocall r h.2]
  | .ite t b o, h => by
    simp only [mayEff, Bool.or_eq_false_iff] at h
    simp [anyCall, mayEff_nocall t h.1.1, mayEff_nocall b h.1.2, mayEff_nocall o h.2]
  | .walrus _ e, h => by
    simp only [mayEff] at h
    simp [anyCall, mayEff_nocall e h]

theorem disjoint_spec {a b : List Var} (h : disjoint a b = true) : ∀ x ∈ a, x ∉ b := by
  intro x hx; simp only [disjoint, List.all_eq_true] at h; simpa using h x hx

theorem Ext.step {σ σ' : BState} {b : Nat} {bl : List Block} (h : Touch σ b σ') (ho : (σ.blk b).succs = [])
    (hx : Ext σ' bl) : Ext σ bl := (h.ext ho).trans hx

/-- the state after `tmp = ep` in `p`, `tmp = eq` in `q` and the merge block (value mode of
    short-circuit expressions and of conditional expressions) -/
def mergeSt (p q : Nat) (ep eq : Expr) (σ2 : BState) : BState :=
  link q σ2.len (link p σ2.len (newBB (addStmt q (.assign (.tmp σ2.nextTmp) eq)
    (addStmt p (.assign (.tmp σ2.nextTmp) ep) (freshTmp σ2).2))).2)

theorem scPost_val_eq (t f b : Nat) (σ2 : BState) :
    scPost .val t f b σ2 = (.var (.tmp σ2.nextTmp), σ2.len, mergeSt t f (.bool true) (.bool false) σ2) := by
  simp [scPost, mergeSt, newBB2]

theorem iteMerge_eq (u v : R) :
    iteMerge u v = (.var (.tmp v.2.2.nextTmp), v.2.2.len, mergeSt u.2.1 v.2.1 u.1 v.1 v.2.2) := by
  simp [iteMerge, mergeSt, newBB2]

theorem merge_sem {env : Env} {bl : List Block} {σ2 : BState} {p q : Nat} (ep eq : Expr)
    (hp : p < σ2.len) (hq : q < σ2.len) (hpq : p ≠ q) (hpo : (σ2.blk p).succs = []) (hqo : (σ2.blk q).succs = [])
    (hx : Ext (mergeSt p q ep eq σ2) bl) :
    Ext σ2 bl ∧ ((mergeSt p q ep eq σ2).blk σ2.len).stmts.length = 0 ∧
    (∀ (s : S) (rv : Option Val), Steps env bl ⟨p, (σ2.blk p).stmts.length, s, rv⟩
      ⟨σ2.len, 0, ((eval env ep s).2.1.set (.tmp σ2.nextTmp) (eval env ep s).1, (eval env ep s).2.2), rv⟩) ∧
    (∀ (s : S) (rv : Option Val), Steps env bl ⟨q, (σ2.blk q).stmts.length, s, rv⟩
      ⟨σ2.len, 0, ((eval env eq s).2.1.set (.tmp σ2.nextTmp) (eval env eq s).1, (eval env eq s).2.2), rv⟩) := by
  -- name the intermediate states
  let σa := (freshTmp σ2).2
  let σb := addStmt p (.assign (.tmp σ2.nextTmp) ep) σa
  let σc := addStmt q (.assign (.tmp σ2.nextTmp) eq) σb
  let σd := (newBB σc).2
  let σe := link p σ2.len σd
  have hσf : mergeSt p q ep eq σ2 = link q σ2.len σe := rfl
  have lb : σb.len = σ2.len := by simp [σb, σa]
  have lc : σc.len = σ2.len := by simp [σc, lb]
  have ld : σd.len = σ2.len + 1 := by simp [σd, lc]
  have le : σe.len = σ2.len + 1 := by simp [σe, ld]
  -- blocks p and q along the way
  have bp : σb.blk p = { σ2.blk p with stmts := (σ2.blk p).stmts ++ [.assign (.tmp σ2.nextTmp) ep] } :=
    blk_addStmt_same p _ σa hp
  have bq : σb.blk q = σ2.blk q := blk_addStmt_other p q _ σa (Ne.symm hpq)
  have cp : σc.blk p = σb.blk p := blk_addStmt_other q p _ σb hpq
  have cq : σc.blk q = { σ2.blk q with stmts := (σ2.blk q).stmts ++ [.assign (.tmp σ2.nextTmp) eq] } := by
    rw [show σc.blk q = _ from blk_addStmt_same q _ σb (by omega), bq]
  have dp : σd.blk p = σc.blk p := blk_newBB_old σc p (by omega)
  have dq : σd.blk q = σc.blk q := blk_newBB_old σc q (by omega)
  have ep' : σe.blk p = { σd.blk p with succs := (σd.blk p).succs ++ [σ2.len] } := blk_link_same p _ σd (by omega)
  have eq' : σe.blk q = σd.blk q := blk_link_other p _ q σd (Ne.symm hpq)
  have fp : (link q σ2.len σe).blk p = σe.blk p := blk_link_other q _ p σe hpq
  have fq : (link q σ2.len σe).blk q = { σe.blk q with succs := (σe.blk q).succs ++ [σ2.len] } :=
    blk_link_same q _ σe (by omega)
  have fm : (link q σ2.len σe).blk σ2.len = {} := by
    rw [blk_link_other q _ _ σe (by omega), show σe.blk σ2.len = _ from blk_link_other p _ _ σd (by omega)]
    have := blk_newBB_new σc; rw [lc] at this; exact this
  rw [hσf] at hx
  -- extension chain
  have hxe : Ext σe bl := Ext.step (touch_link q _ σe) (by rw [eq', dq, cq]; exact hqo) hx
  have hxd : Ext σd bl := Ext.step (touch_link p _ σd) (by rw [dp, cp, bp]; exact hpo) hxe
  have hxc : Ext σc bl := Ext.step (touch_newBB σc p) (by rw [cp, bp]; exact hpo) hxd
  have hxb : Ext σb bl := Ext.step (touch_addStmt q _ σb) (by rw [bq]; exact hqo) hxc
  have hxa : Ext σa bl := Ext.step (touch_addStmt p _ σa) hpo hxb
  have hx2 : Ext σ2 bl := ⟨hxa.len, hxa.pre, hxa.closed⟩
  refine ⟨hx2, by rw [hσf, fm]; rfl, ?_, ?_⟩
  · intro s rv
    have h1 := step_stmt (env := env) hxb (b := p) (k := (σ2.blk p).stmts.length) (by omega)
      (st := .assign (.tmp σ2.nextTmp) ep) (by rw [bp]; simp) s rv
    have hsu : ((link q σ2.len σe).blk p).succs = [σ2.len] := by rw [fp, ep', dp, cp, bp]; simp [hpo]
    have hln : ((link q σ2.len σe).blk p).stmts.length = (σ2.blk p).stmts.length + 1 := by
      rw [fp, ep', dp, cp, bp]; simp
    have h2 := step_goto (env := env) hx (b := p) (by simp; omega) hsu
      ((eval env ep s).2.1.set (.tmp σ2.nextTmp) (eval env ep s).1, (eval env ep s).2.2) rv
    rw [hln] at h2
    exact .head h1 (.head (by simpa [execB] using h2) (.refl _))
  · intro s rv
    have h1 := step_stmt (env := env) hxc (b := q) (k := (σ2.blk q).stmts.length) (by omega)
      (st := .assign (.tmp σ2.nextTmp) eq) (by rw [cq]; simp) s rv
    have hsu : ((link q σ2.len σe).blk q).succs = [σ2.len] := by rw [fq, eq', dq, cq]; simp [hqo]
    have hln : ((link q σ2.len σe).blk q).stmts.length = (σ2.blk q).stmts.length + 1 := by
      rw [fq, eq', dq, cq]; simp
    have h2 := step_goto (env := env) hx (b := q) (by simp; omega) hsu
      ((eval env eq s).2.1.set (.tmp σ2.nextTmp) (eval env eq s).1, (eval env eq s).2.2) rv
    rw [hln] at h2
    exact .head h1 (.head (by simpa [execB] using h2) (.refl _))

theorem eval_tmpvar (env : Env) (k : Nat) (s : S) : eval env (.var (.tmp k)) s = (s.1 (.tmp k), s) := rfl

/-- value mode of a short-circuit expression, given its branch-mode behaviour on the two fresh targets -/
theorem sc_wrap_sem {env : Env} {bl : List Block} {e : Expr} {b n nt b0 : Nat} {σ2 : BState} {t' f' : Nat}
    {s : S} {rv : Option Val} (ht : t' < σ2.len) (hf : f' < σ2.len) (hne : t' ≠ f')
    (hte : σ2.blk t' = {}) (hfe : σ2.blk f' = {}) (hnt : nt ≤ σ2.nextTmp)
    (hx : Ext (scPost .val t' f' b0 σ2).2.2 bl)
    (hbool : (eval env e s).1 = .bool (eval env e s).1.truthy)
    (hbr : Ext σ2 bl → BrPost env bl e b n nt t' f' s rv) :
    ValPost env bl e b n nt (scPost .val t' f' b0 σ2).1 (scPost .val t' f' b0 σ2).2.1
      ((scPost .val t' f' b0 σ2).2.2.blk (scPost .val t' f' b0 σ2).2.1).stmts.length s rv := by
  rw [scPost_val_eq] at hx ⊢
  obtain ⟨hx2, hl0, hP, hQ⟩ := merge_sem (env := env) (.bool true) (.bool false) ht hf hne
    (by rw [hte]) (by rw [hfe]) hx
  obtain ⟨sA, hst, htr, hag, htm⟩ := hbr hx2
  simp only [hl0]
  have hte0 : (σ2.blk t').stmts.length = 0 := by rw [hte]; rfl
  have hfe0 : (σ2.blk f').stmts.length = 0 := by rw [hfe]; rfl
  cases hv : (eval env e s).1.truthy with
  | true =>
    rw [hv] at hst hbool
    have h2 := hP sA rv
    rw [hte0] at h2
    refine ⟨_, hst.trans h2, ?_, ?_, ?_⟩
    · simp only [eval, eval_tmpvar, set_same, hbool, htr]
    · exact (set_tmp_agreeU _ _ _).trans hag
    · intro k hk; simp only [eval]; rw [set_other _ _ (by intro h; injection h with h; omega)]; exact htm k hk
  | false =>
    rw [hv] at hst hbool
    have h2 := hQ sA rv
    rw [hfe0] at h2
    refine ⟨_, hst.trans h2, ?_, ?_, ?_⟩
    · simp only [eval, eval_tmpvar, set_same, hbool, htr]
    · exact (set_tmp_agreeU _ _ _).trans hag
    · intro k hk; simp only [eval]; rw [set_other _ _ (by intro h; injection h with h; omega)]; exact htm k hk

@[simp] theorem truthy_bool (b : Bool) : (Val.bool b).truthy = b := rfl

theorem applyUn_swap (env : Env) (o : UnOp) (v : Val) (a b : Store) (tr : Trace) :
    applyUn env o v (a, tr) = ((applyUn env o v (b, tr)).1, (a, (applyUn env o v (b, tr)).2.2)) := by
  cases o <;> simp [applyUn, callExt]
theorem applyBi_swap (env : Env) (o : BiOp) (v w : Val) (a b : Store) (tr : Trace) :
    applyBi env o v w (a, tr) = ((applyBi env o v w (b, tr)).1, (a, (applyBi env o v w (b, tr)).2.2)) := by
  cases o <;> simp [applyBi, callExt]

/-- a node that `BranchBuilder` handles by `generic_visit` -/
theorem sem_generic {env : Env} {e : Expr}
    (hgen : ∀ t f b σ, (bld e (.br t f) b σ).2.2 =
      branchOn (bld e .val b σ).2.1 (bld e .val b σ).1 t f (bld e .val b σ).2.2)
    (hval : ∀ (b : Nat) (σ : BState) (bl : List Block), userE e = true → b < σ.len →
      (σ.blk b).succs = [] → Ext (bld e .val b σ).2.2 bl → ∀ (s : S) (rv : Option Val),
      ValPost env bl e b (σ.blk b).stmts.length σ.nextTmp (bld e .val b σ).1 (bld e .val b σ).2.1
        ((bld e .val b σ).2.2.blk (bld e .val b σ).2.1).stmts.length s rv) : SemE env e := by
  intro m b σ bl hu hb ho hx s rv
  cases m with
  | val => exact hval b σ bl hu hb ho hx s rv
  | br t f =>
    rw [hgen] at hx
    have gv := bld_good e .val b σ hb ho
    exact finish_sem gv.lt gv.opn t f hx
      (hval b σ bl hu hb ho (Ext.step (touch_branchOn _ _ _ _ _) gv.opn hx) s rv)

theorem sem_var (env : Env) (x : Var) : SemE env (.var x) :=
  sem_generic (fun _ _ _ _ => rfl) (fun b σ _ _ _ _ _ s rv => nolift_val rfl b σ.nextTmp σ s rv)
theorem sem_num (env : Env) (n : Int) : SemE env (.num n) :=
  sem_generic (fun _ _ _ _ => rfl) (fun b σ _ _ _ _ _ s rv => nolift_val rfl b σ.nextTmp σ s rv)
theorem sem_call0 (env : Env) (g : String) : SemE env (.call0 g) :=
  sem_generic (fun _ _ _ _ => rfl) (fun b σ _ _ _ _ _ s rv => nolift_val rfl b σ.nextTmp σ s rv)

theorem sem_bool (env : Env) (v : Bool) : SemE env (.bool v) := by
  intro m b σ bl _ hb ho hx s rv
  cases m with
  | val => exact nolift_val rfl b σ.nextTmp σ s rv
  | br t f =>
    simp only [bld] at hx
    have hblk : ((dummyLink b (if v then f else t) (link b (if v then t else f) σ)).blk b) =
        { σ.blk b with succs := (σ.blk b).succs ++ [if v then t else f],
                        dsuccs := (σ.blk b).dsuccs ++ [if v then f else t] } := by
      rw [blk_dummyLink_same _ _ _ (by simpa using hb), blk_link_same _ _ _ hb]
    have hsu : ((dummyLink b (if v then f else t) (link b (if v then t else f) σ)).blk b).succs =
        [if v then t else f] := by rw [hblk, ho]; rfl
    have hln : ((dummyLink b (if v then f else t) (link b (if v then t else f) σ)).blk b).stmts.length =
        (σ.blk b).stmts.length := by rw [hblk]
    have := step_goto (env := env) hx (by simpa using hb) hsu s rv
    rw [hln] at this
    refine ⟨s, Steps.single ?_, rfl, agreeU.refl _, fun _ _ => rfl⟩
    cases v <;> simpa [eval, truthy_bool] using this

theorem sem_un {env : Env} (o : UnOp) {e : Expr} (ih : SemE env e) : SemE env (.un o e) := by
  have hval : ∀ (b : Nat) (σ : BState) (bl : List Block), userE (.un o e) = true →
      b < σ.len → (σ.blk b).succs = [] → Ext (bld (.un o e) .val b σ).2.2 bl → ∀ (s : S) (rv : Option Val),
      ValPost env bl (.un o e) b (σ.blk b).stmts.length σ.nextTmp (bld (.un o e) .val b σ).1
        (bld (.un o e) .val b σ).2.1
        ((bld (.un o e) .val b σ).2.2.blk (bld (.un o e) .val b σ).2.1).stmts.length s rv := by
    intro b σ bl hu hb ho hx s rv
    cases hf : foldNeg o e with
    | some n =>
      obtain ⟨rfl, rfl⟩ := foldNeg_some hf
      exact nolift_val rfl b σ.nextTmp σ s rv
    | none =>
      have hb' : bld (.un o e) .val b σ = (.un o (bld e .val b σ).1, (bld e .val b σ).2.1, (bld e .val b σ).2.2) := by
        cases o <;> simp only [bld, hf, finish]
      rw [hb'] at hx ⊢
      obtain ⟨s2, hst, hev, hag, htm⟩ := ih .val b σ bl hu hb ho hx s rv
      refine ⟨s2, hst, ?_, ?_, htm⟩
      · simp only [eval, hev]
        exact applyUn_swap env o _ _ _ _
      · simp only [eval, applyUn_store]; exact hag
  cases o with
  | not =>
    intro m b σ bl hu hb ho hx s rv
    cases m with
    | val => exact hval b σ bl hu hb ho hx s rv
    | br t f =>
      simp only [bld] at hx
      obtain ⟨s2, hst, htr, hag, htm⟩ := ih (.br f t) b σ bl hu hb ho hx s rv
      have h1 : (eval env (.un .not e) s).1.truthy = !(eval env e s).1.truthy := by simp [eval, applyUn]
      have h2 : (eval env (.un .not e) s).2 = (eval env e s).2 := by simp [eval, applyUn]
      show BrPost env bl (.un .not e) b _ _ t f s rv
      unfold BrPost
      rw [h1, h2]
      generalize (eval env e s).1.truthy = x at hst ⊢
      cases x
      · exact ⟨s2, by simpa using hst, htr, hag, htm⟩
      · exact ⟨s2, by simpa using hst, htr, hag, htm⟩
  | neg =>
    refine sem_generic ?_ hval
    intro t f b σ
    cases hf : foldNeg .neg e <;> simp only [bld, hf, finish]
  | prim p =>
    refine sem_generic ?_ hval
    intro t f b σ; simp only [bld, foldNeg, finish]
  | call1 g =>
    refine sem_generic ?_ hval
    intro t f b σ; simp only [bld, foldNeg, finish]

theorem vars_user (e : Expr) (h : userE e = true) : ∀ x ∈ vars e, ∃ u, x = .user u := by
  induction e with
  | var y => cases y <;> simp_all [vars, userE]
  | un o e ih => exact ih h
  | bi o l r ihl ihr =>
    simp only [userE, Bool.and_eq_true] at h
    intro x hx; simp only [vars, List.mem_append] at hx
    rcases hx with hx | hx
    · exact ihl h.1 x hx
    · exact ihr h.2 x hx
  | cmp2 o1 o2 l m r ihl ihm ihr =>
    simp only [userE, Bool.and_eq_true] at h
    intro x hx; simp only [vars, List.mem_append] at hx
    rcases hx with (hx | hx) | hx
    · exact ihl h.1.1 x hx
    · exact ihm h.1.2 x hx
    · exact ihr h.2 x hx
  | and l r ihl ihr =>
    simp only [userE, Bool.and_eq_true] at h
    intro x hx; simp only [vars, List.mem_append] at hx
    rcases hx with hx | hx
    · exact ihl h.1 x hx
    · exact ihr h.2 x hx
  | or l r ihl ihr =>
    simp only [userE, Bool.and_eq_true] at h
    intro x hx; simp only [vars, List.mem_append] at hx
    rcases hx with hx | hx
    · exact ihl h.1 x hx
    · exact ihr h.2 x hx
  | ite t b o iht ihb iho =>
    simp only [userE, Bool.and_eq_true] at h
    intro x hx; simp only [vars, List.mem_append] at hx
    rcases hx with (hx | hx) | hx
    · exact iht h.1.1 x hx
    · exact ihb h.1.2 x hx
    · exact iho h.2 x hx
  | walrus y e ih =>
    cases y with
    | tmp n => simp [userE] at h
    | user u =>
      simp only [userE] at h
      intro x hx; simp only [vars, List.mem_cons] at hx
      rcases hx with rfl | hx
      · exact ⟨u, rfl⟩
      · exact ih h x hx
  | _ => simp [vars]

/-- `ExprBuilder.bind` when it is needed: the operand is evaluated now, its value lives in a fresh temporary -/
theorem preBind_sem {env : Env} {bl : List Block} (c : Bool) {e : Expr} {b : Nat} {σ : BState} (hb : b < σ.len)
    (hx : Ext (preBind c e b σ).2 bl) (s : S) (rv : Option Val) (v : Val) (T : Trace)
    (hev : eval env e s = (v, (s.1, T))) :
    ∃ s' : S, Steps env bl ⟨b, (σ.blk b).stmts.length, s, rv⟩ ⟨b, ((preBind c e b σ).2.blk b).stmts.length, s', rv⟩ ∧
      eval env (preBind c e b σ).1 s' = (v, (s'.1, T)) ∧ agreeU s'.1 s.1 ∧
      (∀ k, k < σ.nextTmp → s'.1 (.tmp k) = s.1 (.tmp k)) ∧
      (c = true → s' = (s.1.set (.tmp σ.nextTmp) v, T) ∧ (preBind c e b σ).1 = .var (.tmp σ.nextTmp) ∧
        (preBind c e b σ).2.nextTmp = σ.nextTmp + 1) ∧
      (c = false → s' = s ∧ (preBind c e b σ) = (e, σ)) := by
  cases c with
  | false =>
    exact ⟨s, .refl _, hev, agreeU.refl _, fun _ _ => rfl, (fun h => by cases h), fun _ => ⟨rfl, rfl⟩⟩
  | true =>
    simp only [preBind, if_true, bindTmp, fst_freshTmp] at hx ⊢
    have hk : ((addStmt b (.assign (.tmp σ.nextTmp) e) (freshTmp σ).2).blk b).stmts[(σ.blk b).stmts.length]? =
        some (.assign (.tmp σ.nextTmp) e) := by
      rw [blk_addStmt_same _ _ _ (by simpa using hb)]; simp
    have h1 := step_stmt (env := env) hx (by simpa using hb) hk s rv
    simp only [execB, hev] at h1
    have hln : ((addStmt b (.assign (.tmp σ.nextTmp) e) (freshTmp σ).2).blk b).stmts.length =
        (σ.blk b).stmts.length + 1 := by
      rw [blk_addStmt_same _ _ _ (by simpa using hb)]; simp
    rw [hln]
    refine ⟨_, Steps.single h1, ?_, set_tmp_agreeU _ _ _, ?_, fun _ => ⟨rfl, by simp, by simp⟩, (fun h => by cases h)⟩
    · simp only [eval, set_same]
    · intro k hk'
      simp only []
      rw [set_other _ _ (by intro h; injection h with h; omega)]

/-- two operands built one after the other (`build_operands`): `lS` is the residual of the first (already
    built, possibly stored in a temporary), `r` is built from block `ab`.  If building `r` emits code, that code
    must not be observable from `lS` and vice versa (`hcond`: what `needBind` guarantees). -/
theorem pair_sem {env : Env} {bl : List Block} {lS r : Expr} (ihr : SemE env r) (hur : userE r = true)
    {ab : Nat} {σp : BState} (hab : ab < σp.len) (hao : (σp.blk ab).succs = [])
    (hx : Ext (bld r .val ab σp).2.2 bl) (hlS : lifts lS = false)
    (hvS : ∀ x ∈ vars lS, (∃ u, x = .user u) ∨ ∃ k, x = .tmp k ∧ k < σp.nextTmp)
    (hcond : lifts r = true → (anyCall r = false ∨ anyCall lS = false) ∧ ∀ x ∈ vars lS, x ∉ writes r)
    (sA : S) (rv : Option Val) (st1 : Store) (tr1 : Trace) (vl : Val) (hag : agreeU sA.1 st1)
    (hevl : eval env lS sA = (vl, (sA.1, tr1))) :
    ∃ (sC X : S), Steps env bl ⟨ab, (σp.blk ab).stmts.length, sA, rv⟩
        ⟨(bld r .val ab σp).2.1, ((bld r .val ab σp).2.2.blk (bld r .val ab σp).2.1).stmts.length, sC, rv⟩ ∧
      eval env lS sC = (vl, X) ∧ X.1 = sC.1 ∧
      eval env (bld r .val ab σp).1 X = ((eval env r (st1, tr1)).1, (sC.1, (eval env r (st1, tr1)).2.2)) ∧
      agreeU sC.1 (eval env r (st1, tr1)).2.1 ∧ (∀ k, k < σp.nextTmp → sC.1 (.tmp k) = sA.1 (.tmp k)) ∧
      -- evaluating the second operand first (it is about to be stored in a temporary) gives the same
      ((anyCall r = false ∨ anyCall lS = false) → (∀ x ∈ vars lS, x ∉ writes r) →
        ∃ T, eval env (bld r .val ab σp).1 sC = ((eval env r (st1, tr1)).1, (sC.1, T)) ∧
          ∀ (j : Nat) (w : Val), Var.tmp j ∉ vars lS →
            eval env lS (sC.1.set (.tmp j) w, T) = (vl, (sC.1.set (.tmp j) w, (eval env r (st1, tr1)).2.2))) := by
  have hcg := eval_congr env r hur sA.1 st1 tr1 hag
  have gr : GoodV σp ab (bld r .val ab σp).2.1 (bld r .val ab σp).2.2 := bld_good r .val ab σp hab hao
  have resr := bld_residual r ab σp hab hao
  -- variables of `lS` are untouched by the hoisted part of `r`
  have hvars : ∀ (sC : S), agreeU sC.1 (eval env r sA).2.1 → (∀ k, k < σp.nextTmp → sC.1 (.tmp k) = sA.1 (.tmp k)) →
      (∀ x ∈ vars lS, x ∉ writes r) → ∀ x ∈ vars lS, sC.1 x = sA.1 x := by
    intro sC hagC htmC hdis x hx
    rcases hvS x hx with ⟨u, rfl⟩ | ⟨k, rfl, hk⟩
    · rw [hagC u]; exact eval_writes env r sA _ (hdis _ hx)
    · exact htmC k hk
  cases hlr : lifts r with
  | false =>
    obtain ⟨h1, h2⟩ := bld_nolift r hlr ab σp
    have e1 : (bld r .val ab σp).2.1 = ab := congrArg Prod.fst h1
    have e2 : (bld r .val ab σp).2.2 = σp := congrArg Prod.snd h1
    rw [e1, e2]
    have hst := eval_store_of_not_lifts env r hlr (sA.1, tr1)
    have hr1 : eval env r (sA.1, tr1) = ((eval env r (st1, tr1)).1, (sA.1, (eval env r (st1, tr1)).2.2)) :=
      Prod.ext hcg.1 (Prod.ext hst hcg.2.1)
    refine ⟨sA, (sA.1, tr1), .refl _, hevl, rfl, by rw [h2]; exact hr1, ?_, fun _ _ => rfl, ?_⟩
    · have := hcg.2.2; rw [hst] at this; exact this
    · intro hsw hdis
      rcases hsw with hrc | hlc
      · -- `r` makes no call
        have hi := eval_nocall_indep env r hrc sA.1 sA.2 tr1
        have hrT : (eval env r (st1, tr1)).2.2 = tr1 := eval_trace_of_no_call env r hrc _
        have hrs : eval env r sA = ((eval env r (st1, tr1)).1, (sA.1, sA.2)) := by
          apply Prod.ext
          · show (eval env r (sA.1, sA.2)).1 = _; rw [hi.1, hcg.1]
          · exact Prod.ext (eval_store_of_not_lifts env r hlr sA) (eval_trace_of_no_call env r hrc sA)
        refine ⟨sA.2, by rw [h2]; exact hrs, ?_⟩
        intro j w hj
        rw [eval_resid_congr env lS hlS (sA.1.set (.tmp j) w, sA.2) sA
          (fun x hx => set_other _ _ (fun h => hj (by rw [← h]; exact hx))) rfl, hevl, hrT]
      · -- `lS` makes no call
        have htr : tr1 = sA.2 := by
          have := eval_trace_of_no_call env lS hlc sA
          rw [hevl] at this; exact this
        refine ⟨(eval env r (st1, tr1)).2.2, by rw [h2, ← hr1, htr], ?_⟩
        intro j w hj
        have := eval_pure env lS hlS hlc (sA.1.set (.tmp j) w, (eval env r (st1, tr1)).2.2) sA
          (fun x hx => set_other _ _ (fun h => hj (by rw [← h]; exact hx)))
        rw [this, hevl]
  | true =>
    obtain ⟨hsw, hdis⟩ := hcond hlr
    obtain ⟨sC, hstC, hevC, hagC, htmC⟩ := ihr .val ab σp bl hur hab hao hx sA rv
    have hv := hvars sC hagC htmC hdis
    have hswap_l : ∀ (j : Nat) (w : Val), Var.tmp j ∉ vars lS → ∀ x ∈ vars lS, (sC.1.set (.tmp j) w) x = sA.1 x :=
      fun j w hj x hx => by rw [set_other _ _ (fun h => hj (by rw [← h]; exact hx))]; exact hv x hx
    rcases hsw with hrc | hlc
    · -- `r` makes no call at all: hoisting it is unobservable
      have hrr : anyCall (bld r .val ab σp).1 = false := resr.2.1 hrc
      have htC : sC.2 = sA.2 := by
        have h1 := eval_trace_of_no_call env _ hrr sC
        rw [hevC] at h1
        have h2 := eval_trace_of_no_call env r hrc sA
        simp only at h1
        rw [← h1, h2]
      have hl' : eval env lS sC = (vl, (sC.1, tr1)) := by
        rw [eval_resid_congr env lS hlS sC sA hv htC, hevl]
      have hi := eval_nocall_indep env r hrc sA.1 sA.2 tr1
      have hrA : (eval env r sA).1 = (eval env r (st1, tr1)).1 := by
        show (eval env r (sA.1, sA.2)).1 = _; rw [hi.1, hcg.1]
      have hrS : agreeU (eval env r sA).2.1 (eval env r (st1, tr1)).2.1 := by
        show agreeU (eval env r (sA.1, sA.2)).2.1 _; rw [hi.2]; exact hcg.2.2
      have hrT : (eval env r (st1, tr1)).2.2 = tr1 := eval_trace_of_no_call env r hrc _
      have hr' : ∀ T, eval env (bld r .val ab σp).1 (sC.1, T) = ((eval env r (st1, tr1)).1, (sC.1, T)) := by
        intro T
        have := eval_pure env _ resr.1 hrr (sC.1, T) sC (fun _ _ => rfl)
        rw [this, hevC, hrA]
      refine ⟨sC, (sC.1, tr1), hstC, hl', rfl, by rw [hr' tr1, hrT], hagC.trans hrS, htmC, ?_⟩
      intro _ _
      refine ⟨sC.2, hr' sC.2, ?_⟩
      intro j w hj
      rw [eval_resid_congr env lS hlS (sC.1.set (.tmp j) w, sC.2) sA (hswap_l j w hj) htC, hevl, hrT]
    · -- `lS` is pure
      have htr : tr1 = sA.2 := by
        have := eval_trace_of_no_call env lS hlc sA
        rw [hevl] at this; exact this
      have hsA : sA = (sA.1, tr1) := by rw [htr]
      rw [← hsA] at hcg
      have hpure : eval env lS sC = (vl, sC) := by
        have := eval_pure env lS hlS hlc sC sA hv
        rw [this, hevl]
      have hC : eval env (bld r .val ab σp).1 sC = ((eval env r (st1, tr1)).1, (sC.1, (eval env r (st1, tr1)).2.2)) := by
        rw [hevC, hcg.1, hcg.2.1]
      refine ⟨sC, sC, hstC, hpure, rfl, hC, hagC.trans hcg.2.2, htmC, ?_⟩
      intro _ _
      refine ⟨_, hC, ?_⟩
      intro j w hj
      have := eval_pure env lS hlS hlc (sC.1.set (.tmp j) w, (eval env r (st1, tr1)).2.2) sA (hswap_l j w hj)
      rw [this, hevl]

theorem user_writes' (e : Expr) (h : userE e = true) (k : Nat) : Var.tmp k ∉ writes e := user_writes e h k

theorem sem_bi {env : Env} (o : BiOp) {l r : Expr} (ihl : SemE env l) (ihr : SemE env r) :
    SemE env (.bi o l r) := by
  refine sem_generic (fun t f b σ => by simp only [bld, finish]) ?_
  intro b σ bl hu hb ho hx s rv
  simp only [userE, Bool.and_eq_true] at hu
  have ga : GoodV σ b (bld l .val b σ).2.1 (bld l .val b σ).2.2 := bld_good l .val b σ hb ho
  have resl := bld_residual l b σ hb ho
  simp only [bld, finish] at hx ⊢
  have gp := preBind_good hb ga (lifts r && needBind (bld l .val b σ).1 r) (bld l .val b σ).1
  have gc : GoodV _ _ _ _ := bld_good r .val _ _ gp.lt gp.opn
  have hxp : Ext (preBind (lifts r && needBind (bld l .val b σ).1 r) (bld l .val b σ).1 (bld l .val b σ).2.1
      (bld l .val b σ).2.2).2 bl := Ext.step gc.touch gp.opn hx
  have hxa : Ext (bld l .val b σ).2.2 bl := by
    cases hc : (lifts r && needBind (bld l .val b σ).1 r) with
    | false => rw [hc] at hxp; exact hxp
    | true =>
      rw [hc] at hxp
      simp only [preBind, if_true, bindTmp] at hxp
      exact Ext.step (touch_freshTmp _ (bld l .val b σ).2.1) ga.opn
        (Ext.step (touch_addStmt _ _ _) ga.opn hxp)
  obtain ⟨sA, hstA, hevA, hagA, htmA⟩ := ihl .val b σ bl hu.1 hb ho hxa s rv
  obtain ⟨sA', hstP, hevP, hagP, htmP, hPt, hPf⟩ := preBind_sem (env := env)
    (lifts r && needBind (bld l .val b σ).1 r) ga.lt hxp sA rv _ _ hevA
  -- properties of the (possibly stored) residual of the left operand
  have hprops : lifts (preBind (lifts r && needBind (bld l .val b σ).1 r) (bld l .val b σ).1 (bld l .val b σ).2.1
        (bld l .val b σ).2.2).1 = false ∧
      (∀ x ∈ vars (preBind (lifts r && needBind (bld l .val b σ).1 r) (bld l .val b σ).1 (bld l .val b σ).2.1
        (bld l .val b σ).2.2).1, (∃ u, x = .user u) ∨ ∃ k, x = .tmp k ∧
          k < (preBind (lifts r && needBind (bld l .val b σ).1 r) (bld l .val b σ).1 (bld l .val b σ).2.1
            (bld l .val b σ).2.2).2.nextTmp) ∧
      (lifts r = true → (anyCall r = false ∨ anyCall (preBind (lifts r && needBind (bld l .val b σ).1 r)
          (bld l .val b σ).1 (bld l .val b σ).2.1 (bld l .val b σ).2.2).1 = false) ∧
        ∀ x ∈ vars (preBind (lifts r && needBind (bld l .val b σ).1 r) (bld l .val b σ).1 (bld l .val b σ).2.1
          (bld l .val b σ).2.2).1, x ∉ writes r) := by
    cases hc : (lifts r && needBind (bld l .val b σ).1 r) with
    | true =>
      obtain ⟨_, h2, h3⟩ := hPt hc
      rw [hc] at h2 h3
      rw [h2]
      refine ⟨rfl, ?_, ?_⟩
      · intro x hx
        simp only [vars, List.mem_singleton] at hx
        exact Or.inr ⟨_, hx, by rw [h3]; exact Nat.lt_succ_self _⟩
      · intro _
        refine ⟨Or.inr rfl, ?_⟩
        intro x hx
        simp only [vars, List.mem_singleton] at hx
        subst hx
        exact user_writes r hu.2 _
    | false =>
      simp only [preBind, Bool.false_eq_true, if_false]
      refine ⟨resl.1, ?_, ?_⟩
      · intro x hx
        rcases resl.2.2 x hx with h | ⟨k, rfl, hk⟩
        · exact Or.inl (vars_user l hu.1 x h)
        · exact Or.inr ⟨k, rfl, hk⟩
      · intro hlr
        rw [hlr, Bool.true_and] at hc
        simp only [needBind, Bool.or_eq_false_iff, Bool.and_eq_false_iff, Bool.not_eq_eq_eq_not, Bool.not_false] at hc
        exact ⟨hc.1.imp (mayEff_nocall _) (mayEff_nocall _), disjoint_spec hc.2⟩
  generalize preBind (lifts r && needBind (bld l .val b σ).1 r) (bld l .val b σ).1 (bld l .val b σ).2.1
    (bld l .val b σ).2.2 = p at *
  obtain ⟨hp1, hp2, hp3⟩ := hprops
  obtain ⟨sC, X, hstC, hE1, hX, hE2, hagC, htmC, _⟩ := pair_sem ihr hu.2 gp.lt gp.opn hx hp1 hp2 hp3 sA' rv
    (eval env l s).2.1 (eval env l s).2.2 (eval env l s).1 (hagP.trans hagA) hevP
  refine ⟨sC, hstA.trans (hstP.trans hstC), ?_, ?_, ?_⟩
  · simp only [eval, hE1]
    have hX' : X = (sC.1, X.2) := by rw [← hX]
    rw [hX'] at hE2 ⊢
    rw [hE2]
    exact applyBi_swap env o _ _ _ _ _
  · simp only [eval, applyBi_store]; exact hagC
  · intro k hk
    have h1 := ga.touch.tmp
    have h2 := gp.touch.tmp
    rw [htmC k (by omega), htmP k (by omega)]; exact htmA k hk


theorem sem_walrus {env : Env} (x : Var) {e : Expr} (ih : SemE env e) : SemE env (.walrus x e) := by
  refine sem_generic (fun t f b σ => by simp only [bld, finish]) ?_
  intro b σ bl hu hb ho hx s rv
  cases x with
  | tmp n => simp [userE] at hu
  | user u =>
    simp only [userE] at hu
    have ga := bld_good e .val b σ hb ho
    simp only [bld, finish] at hx ⊢
    have hxa : Ext (bld e .val b σ).2.2 bl := Ext.step (touch_addStmt _ _ _) ga.opn hx
    obtain ⟨sA, hstA, hevA, hagA, htmA⟩ := ih .val b σ bl hu hb ho hxa s rv
    have h1 := step_stmt (env := env) hx (b := (bld e .val b σ).2.1)
      (k := ((bld e .val b σ).2.2.blk (bld e .val b σ).2.1).stmts.length) (by simpa using ga.lt)
      (st := .assign (.user u) (bld e .val b σ).1) (by rw [blk_addStmt_same _ _ _ ga.lt]; simp) sA rv
    simp only [execB, hevA] at h1
    have hln : ((addStmt (bld e .val b σ).2.1 (.assign (.user u) (bld e .val b σ).1) (bld e .val b σ).2.2).blk
        (bld e .val b σ).2.1).stmts.length = ((bld e .val b σ).2.2.blk (bld e .val b σ).2.1).stmts.length + 1 := by
      rw [blk_addStmt_same _ _ _ ga.lt]; simp
    rw [hln]
    refine ⟨_, hstA.trans (Steps.single h1), ?_, ?_, ?_⟩
    · simp only [eval, set_same]
    · simp only [eval]; exact agreeU_set hagA _ _
    · intro k hk; simp only []; rw [set_other _ _ (by simp)]; exact htmA k hk

/-- short-circuit expressions (`and`, `or`, chained comparison): branch mode is the body itself, value
    mode wraps it between two fresh targets and the merge block -/
theorem sem_sc {env : Env} {e : Expr} (body : Nat → Nat → Nat → BState → BState)
    (hbld : ∀ m b σ, bld e m b σ =
      scPost m (scPre m σ).1 (scPre m σ).2.1 b (body (scPre m σ).1 (scPre m σ).2.1 b (scPre m σ).2.2))
    (hbool : ∀ s, (eval env e s).1 = .bool (eval env e s).1.truthy)
    (htouch : ∀ t' f' b σp, b < σp.len → (σp.blk b).succs = [] → Touch σp b (body t' f' b σp))
    (hbr : ∀ t' f' b σp bl, userE e = true → b < σp.len → (σp.blk b).succs = [] →
      Ext (body t' f' b σp) bl → ∀ s rv, BrPost env bl e b (σp.blk b).stmts.length σp.nextTmp t' f' s rv) :
    SemE env e := by
  intro m b σ bl hu hb ho hx s rv
  rw [hbld] at hx
  cases m with
  | br t f => exact hbr t f b σ bl hu hb ho hx s rv
  | val =>
    simp only [hbld, scPre_val] at hx ⊢
    have hb' : b < (newBB (newBB σ).2).2.len := by simp; omega
    have ho' : ((newBB (newBB σ).2).2.blk b).succs = [] := by
      rw [blk_newBB_old _ b (by simp; omega), blk_newBB_old σ b hb]; exact ho
    have hT := htouch σ.len (σ.len + 1) b _ hb' ho'
    have hlen := hT.len
    simp only [len_newBB] at hlen
    have hte : (body σ.len (σ.len + 1) b (newBB (newBB σ).2).2).blk σ.len = {} := by
      rw [hT.frame σ.len (by simp; omega) (by omega), blk_newBB_old _ _ (by simp), blk_newBB_new]
    have hfe : (body σ.len (σ.len + 1) b (newBB (newBB σ).2).2).blk (σ.len + 1) = {} := by
      rw [hT.frame (σ.len + 1) (by simp) (by omega)]
      have := blk_newBB_new (newBB σ).2
      simp only [len_newBB] at this
      exact this
    have hnt : σ.nextTmp ≤ (body σ.len (σ.len + 1) b (newBB (newBB σ).2).2).nextTmp := hT.tmp
    have hbl : ((newBB (newBB σ).2).2.blk b).stmts.length = (σ.blk b).stmts.length := by
      rw [blk_newBB_old _ b (by simp; omega), blk_newBB_old σ b hb]
    refine sc_wrap_sem (by omega) (by omega) (by omega) hte hfe hnt hx (hbool s) ?_
    intro hx2
    have := hbr σ.len (σ.len + 1) b _ bl hu hb' ho' hx2 s rv
    rw [hbl] at this
    exact this

theorem eval_and (env : Env) (l r : Expr) (s : S) : eval env (.and l r) s =
    if (eval env l s).1.truthy then (.bool (eval env r (eval env l s).2).1.truthy, (eval env r (eval env l s).2).2)
    else (.bool false, (eval env l s).2) := rfl
theorem eval_or (env : Env) (l r : Expr) (s : S) : eval env (.or l r) s =
    if (eval env l s).1.truthy then (.bool true, (eval env l s).2)
    else (.bool (eval env r (eval env l s).2).1.truthy, (eval env r (eval env l s).2).2) := rfl

/-- `eval` from a state that agrees with Python's state on user variables and has the same trace -/
theorem eval_from_agree (env : Env) (e : Expr) (hu : userE e = true) (sA s1 : S) (htr : sA.2 = s1.2)
    (hag : agreeU sA.1 s1.1) :
    (eval env e sA).1 = (eval env e s1).1 ∧ (eval env e sA).2.2 = (eval env e s1).2.2 ∧
    agreeU (eval env e sA).2.1 (eval env e s1).2.1 := by
  have := eval_congr env e hu sA.1 s1.1 s1.2 hag
  have h1 : sA = (sA.1, s1.2) := by rw [← htr]
  rw [← h1] at this
  exact this

theorem sem_and {env : Env} {l r : Expr} (ihl : SemE env l) (ihr : SemE env r) : SemE env (.and l r) := by
  refine sem_sc (fun t' f' b σp => (bld r (.br t' f') σp.len (bld l (.br σp.len f') b (newBB σp).2).2.2).2.2)
    (fun m b σ => rfl) ?_ ?_ ?_
  · intro s; rw [eval_and]; split <;> simp
  · intro t' f' b σp hb ho
    exact (sc_body hb ho σp.len rfl (fun s => (bld l (.br σp.len f') b s).2.2)
      (fun s => (bld r (.br t' f') σp.len s).2.2)
      (fun s h1 h2 => bld_good l (.br σp.len f') b s h1 h2)
      (fun s h1 h2 => bld_good r (.br t' f') σp.len s h1 h2)).1
  · intro t' f' b σp bl hu hb ho hx s rv
    simp only [userE, Bool.and_eq_true] at hu
    have hb' : b < (newBB σp).2.len := by simp; omega
    have ho' : ((newBB σp).2.blk b).succs = [] := by rw [blk_newBB_old σp b hb]; exact ho
    have t1 := bld_good l (.br σp.len f') b _ hb' ho'
    have hl1 := t1.len
    simp only [len_newBB] at hl1
    have hxe : (bld l (.br σp.len f') b (newBB σp).2).2.2.blk σp.len = {} := by
      rw [t1.frame σp.len (by simp) (by omega), blk_newBB_new]
    have hxo : ((bld l (.br σp.len f') b (newBB σp).2).2.2.blk σp.len).succs = [] := by rw [hxe]
    have t2 := bld_good r (.br t' f') σp.len _ (by omega) hxo
    have hx1 : Ext (bld l (.br σp.len f') b (newBB σp).2).2.2 bl := Ext.step t2 hxo hx
    obtain ⟨sA, hstA, htrA, hagA, htmA⟩ := ihl (.br σp.len f') b _ bl hu.1 hb' ho' hx1 s rv
    rw [blk_newBB_old σp b hb] at hstA
    unfold BrPost
    rw [eval_and]
    cases hv : (eval env l s).1.truthy with
    | false =>
      rw [hv] at hstA
      exact ⟨sA, by simpa using hstA, by simpa using htrA, by simpa using hagA, htmA⟩
    | true =>
      rw [hv] at hstA
      obtain ⟨sB, hstB, htrB, hagB, htmB⟩ := ihr (.br t' f') σp.len _ bl hu.2 (by omega) hxo hx sA rv
      rw [hxe] at hstB
      obtain ⟨c1, c2, c3⟩ := eval_from_agree env r hu.2 sA (eval env l s).2 htrA hagA
      rw [c1] at hstB
      refine ⟨sB, ?_, ?_, ?_, ?_⟩
      · simp only [if_true, truthy_bool]
        exact hstA.trans (by simpa using hstB)
      · simp only [if_true]; rw [htrB, c2]
      · simp only [if_true]; exact hagB.trans c3
      · intro k hk
        rw [htmB k (Nat.lt_of_lt_of_le (by simpa using hk) t1.tmp)]; exact htmA k hk

theorem sem_or {env : Env} {l r : Expr} (ihl : SemE env l) (ihr : SemE env r) : SemE env (.or l r) := by
  refine sem_sc (fun t' f' b σp => (bld r (.br t' f') σp.len (bld l (.br t' σp.len) b (newBB σp).2).2.2).2.2)
    (fun m b σ => rfl) ?_ ?_ ?_
  · intro s; rw [eval_or]; split <;> simp
  · intro t' f' b σp hb ho
    exact (sc_body hb ho σp.len rfl (fun s => (bld l (.br t' σp.len) b s).2.2)
      (fun s => (bld r (.br t' f') σp.len s).2.2)
      (fun s h1 h2 => bld_good l (.br t' σp.len) b s h1 h2)
      (fun s h1 h2 => bld_good r (.br t' f') σp.len s h1 h2)).1
  · intro t' f' b σp bl hu hb ho hx s rv
    simp only [userE, Bool.and_eq_true] at hu
    have hb' : b < (newBB σp).2.len := by simp; omega
    have ho' : ((newBB σp).2.blk b).succs = [] := by rw [blk_newBB_old σp b hb]; exact ho
    have t1 := bld_good l (.br t' σp.len) b _ hb' ho'
    have hl1 := t1.len
    simp only [len_newBB] at hl1
    have hxe : (bld l (.br t' σp.len) b (newBB σp).2).2.2.blk σp.len = {} := by
      rw [t1.frame σp.len (by simp) (by omega), blk_newBB_new]
    have hxo : ((bld l (.br t' σp.len) b (newBB σp).2).2.2.blk σp.len).succs = [] := by rw [hxe]
    have t2 := bld_good r (.br t' f') σp.len _ (by omega) hxo
    have hx1 : Ext (bld l (.br t' σp.len) b (newBB σp).2).2.2 bl := Ext.step t2 hxo hx
    obtain ⟨sA, hstA, htrA, hagA, htmA⟩ := ihl (.br t' σp.len) b _ bl hu.1 hb' ho' hx1 s rv
    rw [blk_newBB_old σp b hb] at hstA
    unfold BrPost
    rw [eval_or]
    cases hv : (eval env l s).1.truthy with
    | true =>
      rw [hv] at hstA
      exact ⟨sA, by simpa using hstA, by simpa using htrA, by simpa using hagA, htmA⟩
    | false =>
      rw [hv] at hstA
      obtain ⟨sB, hstB, htrB, hagB, htmB⟩ := ihr (.br t' f') σp.len _ bl hu.2 (by omega) hxo hx sA rv
      rw [hxe] at hstB
      obtain ⟨c1, c2, c3⟩ := eval_from_agree env r hu.2 sA (eval env l s).2 htrA hagA
      rw [c1] at hstB
      refine ⟨sB, ?_, ?_, ?_, ?_⟩
      · simp only [Bool.false_eq_true, if_false, truthy_bool]
        exact hstA.trans (by simpa using hstB)
      · simp only [Bool.false_eq_true, if_false]; rw [htrB, c2]
      · simp only [Bool.false_eq_true, if_false]; exact hagB.trans c3
      · intro k hk
        rw [htmB k (Nat.lt_of_lt_of_le (by simpa using hk) t1.tmp)]; exact htmA k hk

theorem eval_cmp2 (env : Env) (o1 o2 : CmpOp) (l m r : Expr) (s : S) : eval env (.cmp2 o1 o2 l m r) s =
    if compare o1 (eval env l s).1 (eval env m (eval env l s).2).1 then
      (.bool (compare o2 (eval env m (eval env l s).2).1 (eval env r (eval env m (eval env l s).2).2).1),
        (eval env r (eval env m (eval env l s).2).2).2)
    else (.bool false, (eval env m (eval env l s).2).2) := rfl

theorem eval_pure_state (env : Env) (e : Expr) (hl : lifts e = false) (hc : anyCall e = false) (s : S) :
    (eval env e s).2 = s :=
  Prod.ext (eval_store_of_not_lifts env e hl s) (eval_trace_of_no_call env e hc s)

theorem eval_cmp (env : Env) (o : CmpOp) (l r : Expr) (s : S) : eval env (.bi (.cmp o) l r) s =
    (.bool (compare o (eval env l s).1 (eval env r (eval env l s).2).1), (eval env r (eval env l s).2).2) := rfl

theorem ext_preBind {c : Bool} {e : Expr} {b : Nat} {σ : BState} {bl : List Block} (ho : (σ.blk b).succs = [])
    (hx : Ext (preBind c e b σ).2 bl) : Ext σ bl := by
  cases c with
  | false => exact hx
  | true =>
    simp only [preBind, if_true, bindTmp] at hx
    exact Ext.step (touch_freshTmp _ b) ho (Ext.step (touch_addStmt _ _ _) ho hx)

/-- what storing (or not storing) the first operand guarantees for building the operand `r` after it -/
theorem preBind_props {c : Bool} {lA r : Expr} (b : Nat) {σa : BState} (hur : userE r = true) (hlA : lifts lA = false)
    (hvA : ∀ x ∈ vars lA, (∃ u, x = .user u) ∨ ∃ k, x = .tmp k ∧ k < σa.nextTmp)
    (hc : c = false → lifts r = true → needBind lA r = false) :
    lifts (preBind c lA b σa).1 = false ∧
    (∀ x ∈ vars (preBind c lA b σa).1, (∃ u, x = .user u) ∨ ∃ k, x = .tmp k ∧ k < (preBind c lA b σa).2.nextTmp) ∧
    (lifts r = true → (anyCall r = false ∨ anyCall (preBind c lA b σa).1 = false) ∧
      ∀ x ∈ vars (preBind c lA b σa).1, x ∉ writes r) := by
  cases c with
  | true =>
    simp only [preBind, if_true, bindTmp, fst_freshTmp]
    refine ⟨rfl, ?_, ?_⟩
    · intro x hx
      simp only [vars, List.mem_singleton] at hx
      exact Or.inr ⟨_, hx, by simp⟩
    · intro _
      refine ⟨Or.inr rfl, ?_⟩
      intro x hx
      simp only [vars, List.mem_singleton] at hx
      subst hx
      exact user_writes r hur _
  | false =>
    simp only [preBind, Bool.false_eq_true, if_false]
    refine ⟨hlA, hvA, ?_⟩
    intro hlr
    have hn := hc rfl hlr
    simp only [needBind, Bool.or_eq_false_iff, Bool.and_eq_false_iff, Bool.not_eq_eq_eq_not, Bool.not_false] at hn
    exact ⟨hn.1.imp (mayEff_nocall _) (mayEff_nocall _), disjoint_spec hn.2⟩

theorem atomic_nocall {e : Expr} (h : atomicSyn e = true) : anyCall e = false ∧ writes e = [] ∧ lifts e = false := by
  cases e <;> simp_all [atomicSyn, anyCall, writes, lifts]

theorem stable_atomic {e r : Expr} (h : stable e r = true) : atomicSyn e = true := by
  cases e <;> simp_all [stable, atomicSyn]

/-- an atomic expression (variable or constant) only looks at the store -/
theorem eval_atomic (env : Env) {e : Expr} (h : atomicSyn e = true) (s s' : S) (hs : s.1 = s'.1) :
    eval env e s = ((eval env e s').1, s) := by
  cases e <;> simp_all [atomicSyn, eval]

theorem sem_cmp2 {env : Env} (o1 o2 : CmpOp) {l mid r : Expr} (ihl : SemE env l) (ihm : SemE env mid)
    (ihr : SemE env r) : SemE env (.cmp2 o1 o2 l mid r) := by
  refine sem_sc (fun t' f' b σp => cmp2Body o1 o2 l mid r t' f' b σp) (fun m b σ => rfl) ?_ ?_ ?_
  · intro s; rw [eval_cmp2]; split <;> simp
  · intro t' f' b σp hb ho; exact (cmp2_body (bld_good l) (bld_good mid) (bld_good r) hb ho t' f').1
  · intro t' f' b σp bl hu hb ho hx s rv
    simp only [userE, Bool.and_eq_true] at hu
    obtain ⟨⟨hul, hum⟩, hur⟩ := hu
    simp only [cmp2Body, fst_newBB] at hx
    have hb' : b < (newBB σp).2.len := by simp; omega
    have ho' : ((newBB σp).2.blk b).succs = [] := by rw [blk_newBB_old σp b hb]; exact ho
    -- structure
    have ga : GoodV (newBB σp).2 b (bld l .val b (newBB σp).2).2.1 (bld l .val b (newBB σp).2).2.2 :=
      bld_good l .val b _ hb' ho'
    have resl := bld_residual l b _ hb' ho'
    generalize ha : bld l .val b (newBB σp).2 = a at *
    have gp := preBind_good hb' ga ((lifts mid || !atomicSyn mid) && needBind a.1 mid) a.1
    have hpp := preBind_props (c := (lifts mid || !atomicSyn mid) && needBind a.1 mid) (lA := a.1) (r := mid) a.2.1
      (σa := a.2.2) hum resl.1
      (fun x hx => by
        rcases resl.2.2 x hx with h | ⟨k, rfl, hk⟩
        · exact Or.inl (vars_user l hul x h)
        · exact Or.inr ⟨k, rfl, hk⟩)
      (fun hc hlm => by
        rw [hlm, Bool.true_or, Bool.true_and] at hc; exact hc)
    -- evaluating `mid` before the first operand is unobservable (needed when `mid` is stored)
    have hsw : (anyCall mid = false ∨ anyCall (preBind ((lifts mid || !atomicSyn mid) && needBind a.1 mid) a.1 a.2.1 a.2.2).1 = false) ∧
        ∀ x ∈ vars (preBind ((lifts mid || !atomicSyn mid) && needBind a.1 mid) a.1 a.2.1 a.2.2).1, x ∉ writes mid := by
      cases hc : ((lifts mid || !atomicSyn mid) && needBind a.1 mid) with
      | true =>
        simp only [preBind, if_true, bindTmp, fst_freshTmp]
        refine ⟨Or.inr rfl, ?_⟩
        intro x hx
        simp only [vars, List.mem_singleton] at hx
        subst hx
        exact user_writes mid hum _
      | false =>
        simp only [preBind, Bool.false_eq_true, if_false]
        cases ht : (lifts mid || !atomicSyn mid) with
        | true =>
          rw [ht, Bool.true_and] at hc
          simp only [needBind, Bool.or_eq_false_iff, Bool.and_eq_false_iff, Bool.not_eq_eq_eq_not, Bool.not_false] at hc
          exact ⟨hc.1.imp (mayEff_nocall _) (mayEff_nocall _), disjoint_spec hc.2⟩
        | false =>
          simp only [Bool.or_eq_false_iff, Bool.not_eq_eq_eq_not, Bool.not_false] at ht
          obtain ⟨h1, h2, _⟩ := atomic_nocall ht.2
          exact ⟨Or.inl h1, by intro x _; rw [h2]; simp⟩
    have hptmp := preBind_tmp ((lifts mid || !atomicSyn mid) && needBind a.1 mid) a.1 a.2.1 a.2.2
    generalize hp : preBind ((lifts mid || !atomicSyn mid) && needBind a.1 mid) a.1 a.2.1 a.2.2 = p at *
    obtain ⟨hp1, hp2, hp3⟩ := hpp
    have gc : GoodV p.2 a.2.1 (bld mid .val a.2.1 p.2).2.1 (bld mid .val a.2.1 p.2).2.2 :=
      bld_good mid .val _ _ gp.lt gp.opn
    have resm := bld_residual mid a.2.1 p.2 gp.lt gp.opn
    have gpc := GoodV.trans hb' gp gc
    generalize hc : bld mid .val a.2.1 p.2 = c at *
    have gm := preBind_good hb' gpc (!stable c.1 r) c.1
    have hmtmp := preBind_tmp (!stable c.1 r) c.1 c.2.1 c.2.2
    generalize hpm : preBind (!stable c.1 r) c.1 c.2.1 c.2.2 = pm at *
    have t1 : Touch (newBB σp).2 b (branchOn c.2.1 (.bi (.cmp o1) p.1 pm.1) σp.len f' pm.2) :=
      gm.touch.trans (touch_branchOn _ _ _ _ _) hb' gm.cur
    have hblk1 := blk_branchOn_same c.2.1 (.bi (.cmp o1) p.1 pm.1) σp.len f' pm.2 gm.lt
    generalize hσ1 : branchOn c.2.1 (.bi (.cmp o1) p.1 pm.1) σp.len f' pm.2 = σ1 at *
    have hl1 := t1.len
    simp only [len_newBB] at hl1
    have hxe : σ1.blk σp.len = {} := by
      rw [t1.frame _ (by simp) (by rcases gm.cur with h | h <;> simp at h ⊢ <;> omega), blk_newBB_new]
    have hxo : (σ1.blk σp.len).succs = [] := by rw [hxe]
    have g0 : GoodV σ1 σp.len σp.len σ1 := GoodV.refl (by omega) hxo
    have gp2 := preBind_good (σ := σ1) (by omega) g0 (lifts r && needBind pm.1 r) pm.1
    have gd : GoodV _ σp.len (bld r .val σp.len (preBind (lifts r && needBind pm.1 r) pm.1 σp.len σ1).2).2.1
        (bld r .val σp.len (preBind (lifts r && needBind pm.1 r) pm.1 σp.len σ1).2).2.2 :=
      bld_good r .val _ _ gp2.lt gp2.opn
    -- extension chain
    have hxd := Ext.step (touch_branchOn _ (.bi (.cmp o2) (preBind (lifts r && needBind pm.1 r) pm.1 σp.len σ1).1
      (bld r .val σp.len (preBind (lifts r && needBind pm.1 r) pm.1 σp.len σ1).2).1) t' f' _) gd.opn hx
    have hxp2 := Ext.step gd.touch gp2.opn hxd
    have hx1 : Ext σ1 bl := ext_preBind hxo hxp2
    have hxpm : Ext pm.2 bl := by
      rw [← hσ1] at hx1
      exact Ext.step (touch_branchOn _ _ _ _ _) gm.opn hx1
    have hxc : Ext c.2.2 bl := by rw [← hpm] at hxpm; exact ext_preBind gpc.opn hxpm
    have hxp : Ext p.2 bl := Ext.step gc.touch gp.opn hxc
    have hxa : Ext a.2.2 bl := by rw [← hp] at hxp; exact ext_preBind ga.opn hxp
    -- semantics: first operand
    have ihl' := ihl .val b (newBB σp).2 bl hul hb' ho' (by rw [ha]; exact hxa) s rv
    rw [ha, blk_newBB_old σp b hb] at ihl'
    obtain ⟨sA, hstA, hevA, hagA, htmA⟩ := ihl'
    have hps := preBind_sem (env := env) ((lifts mid || !atomicSyn mid) && needBind a.1 mid) ga.lt
      (by rw [hp]; exact hxp) sA rv _ _ hevA
    rw [hp] at hps
    obtain ⟨sA', hstP, hevP, hagP, htmP, _, _⟩ := hps
    -- middle operand
    have hpair := pair_sem ihm hum gp.lt gp.opn (by rw [hc]; exact hxc) hp1 hp2 hp3 sA' rv
      (eval env l s).2.1 (eval env l s).2.2 (eval env l s).1 (hagP.trans hagA) hevP
    rw [hc] at hpair
    obtain ⟨sC, X, hstC, hE1, hX, hE2, hagC, htmC, hswap⟩ := hpair
    obtain ⟨T, hT1, hT2⟩ := hswap hsw.1 hsw.2
    -- Python's state after the middle operand
    have hPyM : eval env mid ((eval env l s).2.1, (eval env l s).2.2) = eval env mid (eval env l s).2 := rfl
    rw [hPyM] at hE2 hagC hT1 hT2
    -- properties of the (possibly stored) middle operand
    have hpmP : lifts pm.1 = false ∧
        (∀ x ∈ vars pm.1, (∃ u, x = .user u) ∨ ∃ k, x = .tmp k ∧ k < σ1.nextTmp) ∧ atomicSyn pm.1 = true := by
      rw [← hσ1, ← hpm]
      cases hcm : (!stable c.1 r) with
      | true =>
        simp only [preBind, if_true, bindTmp, fst_freshTmp, tmp_branchOn, tmp_addStmt, tmp_freshTmp]
        refine ⟨rfl, ?_, rfl⟩
        intro x hx
        simp only [vars, List.mem_singleton] at hx
        exact Or.inr ⟨_, hx, Nat.lt_succ_self _⟩
      | false =>
        simp only [preBind, Bool.false_eq_true, if_false, tmp_branchOn]
        refine ⟨resm.1, ?_, stable_atomic (by simpa using hcm)⟩
        intro x hx
        rcases resm.2.2 x hx with h | ⟨k, rfl, hk⟩
        · exact Or.inl (vars_user mid hum x h)
        · exact Or.inr ⟨k, rfl, hk⟩
    -- store the middle operand (if needed) and evaluate the first comparison
    have hsu : (σ1.blk c.2.1).succs = [f', σp.len] := by rw [hblk1, gm.opn]; rfl
    have hpr : (σ1.blk c.2.1).pred = some (.bi (.cmp o1) p.1 pm.1) := by rw [hblk1]
    have hln : (σ1.blk c.2.1).stmts.length = (pm.2.blk c.2.1).stmts.length := by rw [hblk1]
    have hlt1 : c.2.1 < σ1.len := by rw [← hσ1]; simpa using gm.lt
    have hps2 := preBind_sem (env := env) (!stable c.1 r) gpc.lt (by rw [hpm]; exact hxpm) sC rv _ _ hT1
    rw [hpm] at hps2
    obtain ⟨sD, hstD, hevD, hagD, htmD, hbt, hbf⟩ := hps2
    have hP1 : eval env (.bi (.cmp o1) p.1 pm.1) sD =
        (.bool (compare o1 (eval env l s).1 (eval env mid (eval env l s).2).1),
          (sD.1, (eval env mid (eval env l s).2).2.2)) ∧
        eval env pm.1 (sD.1, (eval env mid (eval env l s).2).2.2) =
          ((eval env mid (eval env l s).2).1, (sD.1, (eval env mid (eval env l s).2).2.2)) := by
      cases hcm : (!stable c.1 r) with
      | true =>
        obtain ⟨hD, hD1, _⟩ := hbt hcm
        rw [hcm] at hpm
        have hpm1 : pm.1 = .var (.tmp c.2.2.nextTmp) := by rw [← hpm]; rfl
        have hjfresh : Var.tmp c.2.2.nextTmp ∉ vars p.1 := by
          intro hmem
          rcases hp2 _ hmem with ⟨u, hu'⟩ | ⟨k, hk1, hk2⟩
          · cases hu'
          · injection hk1 with hk1
            have := gc.touch.tmp
            omega
        have h2 := hT2 c.2.2.nextTmp (eval env mid (eval env l s).2).1 hjfresh
        rw [hD, eval_cmp, h2, hpm1]
        simp only [eval_tmpvar, set_same]
        exact ⟨trivial, trivial⟩
      | false =>
        obtain ⟨hD, hDp⟩ := hbf hcm
        have hpm1 : pm.1 = c.1 := by rw [← hpm, hcm]; rfl
        have hX' : X = (sC.1, X.2) := by rw [← hX]
        rw [hD, eval_cmp, hE1, hpm1]
        rw [hX'] at hE2 ⊢
        rw [hE2]
        refine ⟨rfl, ?_⟩
        have hat : atomicSyn c.1 = true := stable_atomic (by simpa using hcm)
        rw [eval_atomic env hat (sC.1, (eval env mid (eval env l s).2).2.2) (sC.1, X.2) rfl, hE2]
    have hb1 := step_branch (env := env) hx1 (b := c.2.1) (t := σp.len) (f := f')
      (p := .bi (.cmp o1) p.1 pm.1) hlt1 hsu hpr sD rv
    rw [hln, hP1.1] at hb1
    simp only [truthy_bool] at hb1
    have hagE : agreeU sD.1 (eval env mid (eval env l s).2).2.1 := (hagD.trans hagC)
    have htmE : ∀ k, k < σp.nextTmp → sD.1 (.tmp k) = s.1 (.tmp k) := by
      intro k hk
      have h1 := ga.touch.tmp
      simp only [tmp_newBB] at h1
      have h2 := gc.touch.tmp
      rw [htmD k (by omega), htmC k (by omega), htmP k (by omega)]
      exact htmA k (by simpa using hk)
    unfold BrPost
    rw [eval_cmp2]
    cases hcmp : compare o1 (eval env l s).1 (eval env mid (eval env l s).2).1 with
    | false =>
      rw [hcmp] at hb1
      refine ⟨(sD.1, (eval env mid (eval env l s).2).2.2), ?_, ?_, ?_, htmE⟩
      · simp only [Bool.false_eq_true, if_false, truthy_bool]
        exact hstA.trans (hstP.trans (hstC.trans (hstD.trans (Steps.single (by simpa using hb1)))))
      · simp only [Bool.false_eq_true, if_false]
      · simp only [Bool.false_eq_true, if_false]; exact hagE
    | true =>
      rw [hcmp] at hb1
      -- second comparison, from the next block
      have hpp2 := preBind_props (c := lifts r && needBind pm.1 r) (lA := pm.1) (r := r) σp.len (σa := σ1) hur
        hpmP.1 hpmP.2.1 (fun hc hlr => by rw [hlr, Bool.true_and] at hc; exact hc)
      have hps3 := preBind_sem (env := env) (lifts r && needBind pm.1 r) (b := σp.len) (σ := σ1) (by omega) hxp2
        (sD.1, (eval env mid (eval env l s).2).2.2) rv _ _ hP1.2
      obtain ⟨sE', hstE, hevE, hagE', htmE', _, _⟩ := hps3
      rw [hxe] at hstE
      have hpair2 := pair_sem ihr hur gp2.lt gp2.opn hxd hpp2.1 hpp2.2.1 hpp2.2.2 sE' rv
        (eval env mid (eval env l s).2).2.1 (eval env mid (eval env l s).2).2.2
        (eval env mid (eval env l s).2).1 (hagE'.trans hagE) hevE
      have hPyR : eval env r ((eval env mid (eval env l s).2).2.1, (eval env mid (eval env l s).2).2.2) =
          eval env r (eval env mid (eval env l s).2).2 := rfl
      rw [hPyR] at hpair2
      obtain ⟨sF, X2, hstF, hF1, hX2, hF2, hagF, htmF, _⟩ := hpair2
      have hblk2 := blk_branchOn_same
        (bld r .val σp.len (preBind (lifts r && needBind pm.1 r) pm.1 σp.len σ1).2).2.1
        (.bi (.cmp o2) (preBind (lifts r && needBind pm.1 r) pm.1 σp.len σ1).1
          (bld r .val σp.len (preBind (lifts r && needBind pm.1 r) pm.1 σp.len σ1).2).1) t' f' _ gd.lt
      have hb2 := step_branch (env := env) hx
        (b := (bld r .val σp.len (preBind (lifts r && needBind pm.1 r) pm.1 σp.len σ1).2).2.1) (t := t') (f := f')
        (p := .bi (.cmp o2) (preBind (lifts r && needBind pm.1 r) pm.1 σp.len σ1).1
          (bld r .val σp.len (preBind (lifts r && needBind pm.1 r) pm.1 σp.len σ1).2).1)
        (by simpa using gd.lt) (by rw [hblk2, gd.opn]; rfl) (by rw [hblk2]) sF rv
      have hP2 : eval env (.bi (.cmp o2) (preBind (lifts r && needBind pm.1 r) pm.1 σp.len σ1).1
          (bld r .val σp.len (preBind (lifts r && needBind pm.1 r) pm.1 σp.len σ1).2).1) sF =
          (.bool (compare o2 (eval env mid (eval env l s).2).1 (eval env r (eval env mid (eval env l s).2).2).1),
            (sF.1, (eval env r (eval env mid (eval env l s).2).2).2.2)) := by
        have hX2' : X2 = (sF.1, X2.2) := by rw [← hX2]
        rw [eval_cmp, hF1]
        rw [hX2'] at hF2 ⊢
        rw [hF2]
      have hln2 : ((branchOn (bld r .val σp.len (preBind (lifts r && needBind pm.1 r) pm.1 σp.len σ1).2).2.1
          (.bi (.cmp o2) (preBind (lifts r && needBind pm.1 r) pm.1 σp.len σ1).1
            (bld r .val σp.len (preBind (lifts r && needBind pm.1 r) pm.1 σp.len σ1).2).1) t' f'
          (bld r .val σp.len (preBind (lifts r && needBind pm.1 r) pm.1 σp.len σ1).2).2.2).blk
          (bld r .val σp.len (preBind (lifts r && needBind pm.1 r) pm.1 σp.len σ1).2).2.1).stmts.length =
          ((bld r .val σp.len (preBind (lifts r && needBind pm.1 r) pm.1 σp.len σ1).2).2.2.blk
            (bld r .val σp.len (preBind (lifts r && needBind pm.1 r) pm.1 σp.len σ1).2).2.1).stmts.length := by
        rw [hblk2]
      rw [hln2, hP2] at hb2
      simp only [truthy_bool] at hb2
      refine ⟨(sF.1, (eval env r (eval env mid (eval env l s).2).2).2.2), ?_, ?_, ?_, ?_⟩
      · simp only [if_true, truthy_bool]
        exact hstA.trans (hstP.trans (hstC.trans (hstD.trans ((Steps.single (by simpa using hb1)).trans
          (hstE.trans (hstF.trans (Steps.single hb2)))))))
      · simp only [if_true]
      · simp only [if_true]; exact hagF
      · intro k hk
        have h1 := t1.tmp
        simp only [tmp_newBB] at h1
        have h2 := preBind_tmp (lifts r && needBind pm.1 r) pm.1 σp.len σ1
        rw [htmF k (by omega), htmE' k (by omega)]
        exact htmE k hk

theorem eval_ite (env : Env) (c x y : Expr) (s : S) : eval env (.ite c x y) s =
    if (eval env c s).1.truthy then eval env x (eval env c s).2 else eval env y (eval env c s).2 := rfl

def itS1 (c : Expr) (b : Nat) (σ : BState) : BState :=
  (bld c (.br σ.len (σ.len + 1)) b (newBB (newBB σ).2).2).2.2
def itU (c x : Expr) (b : Nat) (σ : BState) : R := bld x .val σ.len (itS1 c b σ)
def itV (c x y : Expr) (b : Nat) (σ : BState) : R := bld y .val (σ.len + 1) (itU c x b σ).2.2

theorem bld_ite_val (c x y : Expr) (b : Nat) (σ : BState) :
    bld (.ite c x y) .val b σ = iteMerge (itU c x b σ) (itV c x y b σ) := by
  simp only [bld, fst_newBB, len_newBB]; rfl
theorem bld_ite_br (c x y : Expr) (t f b : Nat) (σ : BState) :
    (bld (.ite c x y) (.br t f) b σ).2.2 =
      (bld y (.br t f) (σ.len + 1) (bld x (.br t f) σ.len (itS1 c b σ)).2.2).2.2 := by
  simp only [bld, fst_newBB, len_newBB]; rfl

theorem itS1_facts (c : Expr) {b : Nat} {σ : BState} (hb : b < σ.len) (ho : (σ.blk b).succs = []) :
    Touch (newBB (newBB σ).2).2 b (itS1 c b σ) ∧ σ.len + 2 ≤ (itS1 c b σ).len ∧
    (itS1 c b σ).blk σ.len = {} ∧ (itS1 c b σ).blk (σ.len + 1) = {} ∧
    b < (newBB (newBB σ).2).2.len ∧ ((newBB (newBB σ).2).2.blk b).succs = [] ∧
    ((newBB (newBB σ).2).2.blk b).stmts.length = (σ.blk b).stmts.length := by
  have hb' : b < (newBB (newBB σ).2).2.len := by simp; omega
  have hbk : (newBB (newBB σ).2).2.blk b = σ.blk b := by
    rw [blk_newBB_old _ b (by simp; omega), blk_newBB_old σ b hb]
  have ho' : ((newBB (newBB σ).2).2.blk b).succs = [] := by rw [hbk]; exact ho
  have t1 : Touch _ b (itS1 c b σ) := bld_good c (.br σ.len (σ.len + 1)) b _ hb' ho'
  have hl1 := t1.len
  simp only [len_newBB] at hl1
  refine ⟨t1, by omega, ?_, ?_, hb', ho', by rw [hbk]⟩
  · rw [t1.frame σ.len (by simp; omega) (by omega), blk_newBB_old _ _ (by simp), blk_newBB_new]
  · rw [t1.frame (σ.len + 1) (by simp) (by omega)]
    have := blk_newBB_new (newBB σ).2
    simp only [len_newBB] at this
    exact this

theorem sem_ite {env : Env} {c x y : Expr} (ihc : SemE env c) (ihx : SemE env x) (ihy : SemE env y) :
    SemE env (.ite c x y) := by
  intro m b σ bl hu hb ho hx s rv
  simp only [userE, Bool.and_eq_true] at hu
  obtain ⟨t1, hl1, htb, heb, hb', ho', hbl⟩ := itS1_facts c hb ho
  have htbo : ((itS1 c b σ).blk σ.len).succs = [] := by rw [htb]
  cases m with
  | br t f =>
    rw [bld_ite_br] at hx
    have t2 := bld_good x (.br t f) σ.len (itS1 c b σ) (by omega) htbo
    have hl2 := t2.len
    have heb2 : (bld x (.br t f) σ.len (itS1 c b σ)).2.2.blk (σ.len + 1) = {} := by
      rw [t2.frame (σ.len + 1) (by omega) (by omega)]; exact heb
    have t3 := bld_good y (.br t f) (σ.len + 1) (bld x (.br t f) σ.len (itS1 c b σ)).2.2 (by omega) (by rw [heb2])
    have hx2 : Ext (bld x (.br t f) σ.len (itS1 c b σ)).2.2 bl := Ext.step t3 (by rw [heb2]) hx
    have hx1 : Ext (itS1 c b σ) bl := Ext.step t2 htbo hx2
    obtain ⟨sA, hstA, htrA, hagA, htmA⟩ := ihc (.br σ.len (σ.len + 1)) b _ bl hu.1.1 hb' ho' hx1 s rv
    rw [hbl] at hstA
    unfold BrPost
    rw [eval_ite]
    cases hv : (eval env c s).1.truthy with
    | true =>
      rw [hv] at hstA
      obtain ⟨sB, hstB, htrB, hagB, htmB⟩ := ihx (.br t f) σ.len (itS1 c b σ) bl hu.1.2 (by omega) htbo hx2 sA rv
      rw [htb] at hstB
      obtain ⟨c1, c2, c3⟩ := eval_from_agree env x hu.1.2 sA (eval env c s).2 htrA hagA
      rw [c1] at hstB
      refine ⟨sB, ?_, ?_, ?_, ?_⟩
      · simp only [if_true]; exact hstA.trans (by simpa using hstB)
      · simp only [if_true]; rw [htrB, c2]
      · simp only [if_true]; exact hagB.trans c3
      · intro k hk
        rw [htmB k (Nat.lt_of_lt_of_le (by simpa using hk) (by simpa using t1.tmp))]
        exact htmA k (by simpa using hk)
    | false =>
      rw [hv] at hstA
      obtain ⟨sB, hstB, htrB, hagB, htmB⟩ := ihy (.br t f) (σ.len + 1) (bld x (.br t f) σ.len (itS1 c b σ)).2.2 bl hu.2 (by omega) (by rw [heb2]) hx sA rv
      rw [heb2] at hstB
      obtain ⟨c1, c2, c3⟩ := eval_from_agree env y hu.2 sA (eval env c s).2 htrA hagA
      rw [c1] at hstB
      refine ⟨sB, ?_, ?_, ?_, ?_⟩
      · simp only [Bool.false_eq_true, if_false]; exact hstA.trans (by simpa using hstB)
      · simp only [Bool.false_eq_true, if_false]; rw [htrB, c2]
      · simp only [Bool.false_eq_true, if_false]; exact hagB.trans c3
      · intro k hk
        have h1 := t1.tmp
        have h2 := t2.tmp
        simp only [tmp_newBB] at h1
        rw [htmB k (by omega)]
        exact htmA k (by simpa using hk)
  | val =>
    simp only [bld_ite_val, iteMerge_eq] at hx ⊢
    have gu : GoodV (itS1 c b σ) σ.len (itU c x b σ).2.1 (itU c x b σ).2.2 :=
      bld_good x .val σ.len (itS1 c b σ) (by omega) htbo
    have hlu := gu.touch.len
    have heb2 : (itU c x b σ).2.2.blk (σ.len + 1) = {} := by
      rw [gu.touch.frame (σ.len + 1) (by omega) (by omega)]; exact heb
    have gv : GoodV (itU c x b σ).2.2 (σ.len + 1) (itV c x y b σ).2.1 (itV c x y b σ).2.2 :=
      bld_good y .val (σ.len + 1) _ (by omega) (by rw [heb2])
    have hlv := gv.touch.len
    have hune : (itU c x b σ).2.1 ≠ σ.len + 1 := by rcases gu.cur with h | h <;> omega
    have hult := gu.lt
    have huv : (itU c x b σ).2.1 ≠ (itV c x y b σ).2.1 := by rcases gv.cur with h | h <;> omega
    have hvu : (itV c x y b σ).2.2.blk (itU c x b σ).2.1 = (itU c x b σ).2.2.blk (itU c x b σ).2.1 :=
      gv.touch.frame _ hult hune
    obtain ⟨hxv, hl0, hP, hQ⟩ := merge_sem (env := env) (itU c x b σ).1 (itV c x y b σ).1
      (by omega) gv.lt huv (by rw [hvu]; exact gu.opn) gv.opn hx
    have hxu : Ext (itU c x b σ).2.2 bl := Ext.step gv.touch (by rw [heb2]) hxv
    have hx1 : Ext (itS1 c b σ) bl := Ext.step gu.touch htbo hxu
    obtain ⟨sA, hstA, htrA, hagA, htmA⟩ := ihc (.br σ.len (σ.len + 1)) b _ bl hu.1.1 hb' ho' hx1 s rv
    rw [hbl] at hstA
    have hnt : σ.nextTmp ≤ (itV c x y b σ).2.2.nextTmp := by
      have h1 := t1.tmp
      have h2 := gu.touch.tmp
      have h3 := gv.touch.tmp
      simp only [tmp_newBB] at h1
      omega
    have hnt1 : σ.nextTmp ≤ (itS1 c b σ).nextTmp := by
      have h1 := t1.tmp
      simp only [tmp_newBB] at h1
      exact h1
    unfold ValPost
    rw [hl0, eval_ite]
    cases hv : (eval env c s).1.truthy with
    | true =>
      rw [hv] at hstA
      obtain ⟨sB, hstB, hevB, hagB, htmB⟩ := ihx .val σ.len (itS1 c b σ) bl hu.1.2 (by omega) htbo hxu sA rv
      rw [htb] at hstB
      obtain ⟨c1, c2, c3⟩ := eval_from_agree env x hu.1.2 sA (eval env c s).2 htrA hagA
      have h2 := hP sB rv
      rw [hvu] at h2
      have hevB' : eval env (itU c x b σ).1 sB = ((eval env x sA).1, (sB.1, (eval env x sA).2.2)) := hevB
      rw [hevB'] at h2
      refine ⟨_, (hstA.trans (by simpa [itU] using hstB)).trans h2, ?_, ?_, ?_⟩
      · simp only [if_true, eval_tmpvar, set_same, c1, c2]
      · simp only [if_true]; exact (set_tmp_agreeU _ _ _).trans (hagB.trans c3)
      · intro k hk
        simp only []
        rw [set_other _ _ (by intro h; injection h with h; omega)]
        rw [htmB k (by omega)]; exact htmA k (by simpa using hk)
    | false =>
      rw [hv] at hstA
      obtain ⟨sB, hstB, hevB, hagB, htmB⟩ := ihy .val (σ.len + 1) (itU c x b σ).2.2 bl hu.2 (by omega) (by rw [heb2]) hxv sA rv
      rw [heb2] at hstB
      obtain ⟨c1, c2, c3⟩ := eval_from_agree env y hu.2 sA (eval env c s).2 htrA hagA
      have h2 := hQ sB rv
      have hevB' : eval env (itV c x y b σ).1 sB = ((eval env y sA).1, (sB.1, (eval env y sA).2.2)) := hevB
      rw [hevB'] at h2
      refine ⟨_, (hstA.trans (by simpa [itV] using hstB)).trans h2, ?_, ?_, ?_⟩
      · simp only [Bool.false_eq_true, if_false, eval_tmpvar, set_same, c1, c2]
      · simp only [Bool.false_eq_true, if_false]; exact (set_tmp_agreeU _ _ _).trans (hagB.trans c3)
      · intro k hk
        simp only []
        rw [set_other _ _ (by intro h; injection h with h; omega)]
        have h4 := gu.touch.tmp
        rw [htmB k (by omega)]; exact htmA k (by simpa using hk)

/-- **the expression builder is correct on hoist-safe expressions** -/
theorem sem_all (env : Env) (e : Expr) : SemE env e := by
  induction e with
  | var x => exact sem_var env x
  | num n => exact sem_num env n
  | bool v => exact sem_bool env v
  | call0 g => exact sem_call0 env g
  | un o e ih => exact sem_un o ih
  | bi o l r ihl ihr => exact sem_bi o ihl ihr
  | cmp2 o1 o2 l m r ihl ihm ihr => exact sem_cmp2 o1 o2 ihl ihm ihr
  | and l r ihl ihr => exact sem_and ihl ihr
  | or l r ihl ihr => exact sem_or ihl ihr
  | ite c x y ihc ihx ihy => exact sem_ite ihc ihx ihy
  | walrus x e ih => exact sem_walrus x ih

end GuppyVerif.Builder
