import GuppyVerif.Lemmas.C06Local
/-! C06 helper lemmas, part 4 (completeness): when pass 1 of the checker raises an error that is
    not an internal one (`crash`), then either a path-independent ownership rule is broken at
    that statement, or the bookkeeping of some leaf fails at one of its events (`Fails`) — and
    such a failure is a failure of the ownership semantics too (`fails_sem`). -/
namespace GuppyVerif.Linearity

/-- the bookkeeping raises a user error at this event -/
def CFail (inPar : Bool) (c : LSt) (e : Ev) : Prop :=
  match e.op with
  | .use => e.lin = true ∧ ((c.inVars = true ∧ c.usedLocal = true) ∨
      (c.inVars = false ∧ inPar = true ∧ c.usedParent = true))
  | .give => False
  | .asg => c.inVars = true ∧ c.usedLocal = false ∧ c.kLoc = true

/-- the bookkeeping of leaf `l`, started in scope `s`, runs into a user error within `evs` -/
def Fails (l : Leaf) (s : Scope) (evs : List Ev) : Prop :=
  ∃ pre e post c, evs = pre ++ e :: post ∧ crun (s.parent.contains l) (s.proj l) pre = some c ∧
    CFail (s.parent.contains l) c e

theorem Fails.append_right {l : Leaf} {s : Scope} {evs : List Ev} (more : List Ev) (h : Fails l s evs) :
    Fails l s (evs ++ more) := by
  obtain ⟨pre, e, post, c, h1, h2, h3⟩ := h
  exact ⟨pre, e, post ++ more, c, by simp [h1], h2, h3⟩

theorem Fails.prepend {l : Leaf} {s s1 : Scope} {evs0 evs : List Ev} (hp : s1.parent = s.parent)
    (h0 : crun (s.parent.contains l) (s.proj l) evs0 = some (s1.proj l)) (h : Fails l s1 evs) :
    Fails l s (evs0 ++ evs) := by
  obtain ⟨pre, e, post, c, h1, h2, h3⟩ := h
  refine ⟨evs0 ++ pre, e, post, c, by simp [h1], ?_, by rw [← hp]; exact h3⟩
  rw [crun_append, h0]
  simp only [Option.bind]
  rw [← hp]; exact h2

/-- outcome of a failing piece of pass 1: an internal error, a broken path-independent rule
    (`S`), or a bookkeeping failure of a leaf -/
def Out (s : Scope) (S : Prop) (evs : Leaf → List Ev) (e : Err) : Prop :=
  e = .crash ∨ S ∨ ∃ l, Fails l s (evs l)

theorem Out.mono {s : Scope} {S S' : Prop} {evs evs' : Leaf → List Ev} {e : Err}
    (hS : S → S') (hE : ∀ l, Fails l s (evs l) → Fails l s (evs' l))
    (h : Out s S evs e) : Out s S' evs' e := by
  rcases h with h | h | ⟨l, h⟩
  · exact Or.inl h
  · exact Or.inr (Or.inl (hS h))
  · exact Or.inr (Or.inr ⟨l, hE l h⟩)

theorem Out.prepend {s s1 : Scope} {S : Prop} {evs0 evs : Leaf → List Ev} {e : Err}
    (hp : s1.parent = s.parent)
    (h0 : ∀ l, crun (s.parent.contains l) (s.proj l) (evs0 l) = some (s1.proj l))
    (h : Out s1 S evs e) : Out s S (fun l => evs0 l ++ evs l) e := by
  rcases h with h | h | ⟨l, hf⟩
  · exact Or.inl h
  · exact Or.inr (Or.inl h)
  · exact Or.inr (Or.inr ⟨l, hf.prepend hp (h0 l)⟩)

theorem Out.append_right {s : Scope} {S : Prop} {evs : Leaf → List Ev} {e : Err}
    (more : Leaf → List Ev) (h : Out s S evs e) : Out s S (fun l => evs l ++ more l) e :=
  h.mono id fun _ hf => hf.append_right _

/-- a failing monadic fold fails in one of its steps, after a successful prefix -/
theorem foldlM_fail {α : Type} (f : Scope → α → R Scope) (ev : Leaf → α → List Ev) (S : α → Prop)
    (hok : ∀ s s' a, f s a = .ok s' → s'.parent = s.parent ∧
      ∀ l, crun (s.parent.contains l) (s.proj l) (ev l a) = some (s'.proj l))
    (herr : ∀ s a e, f s a = .error e → Out s (S a) (fun l => ev l a) e) :
    ∀ (as : List α) (s : Scope) (e : Err), as.foldlM f s = .error e →
      Out s (∃ a ∈ as, S a) (fun l => as.flatMap (ev l)) e := by
  intro as
  induction as with
  | nil => intro s e h; simp [pure, Except.pure] at h
  | cons a as ih =>
    intro s e h
    rw [List.foldlM_cons] at h
    cases h1 : f s a with
    | error e1 =>
      rw [h1] at h
      simp only [bind, Except.bind] at h
      cases h
      refine (herr s a _ h1).mono (fun hs => ⟨a, List.mem_cons_self, hs⟩) ?_
      intro l hf
      simp only [List.flatMap_cons]
      exact hf.append_right _
    | ok s1 =>
      rw [h1] at h
      obtain ⟨hp, hc⟩ := hok s s1 a h1
      refine (ih s1 e h).elim (fun h' => Or.inl h') fun h' => Or.inr ?_
      rcases h' with ⟨b, hb, hs⟩ | ⟨l, hf⟩
      · exact Or.inl ⟨b, List.mem_cons_of_mem _ hb, hs⟩
      · refine Or.inr ⟨l, ?_⟩
        simp only [List.flatMap_cons]
        exact hf.prepend hp (hc l)

/-! ### the failing steps of pass 1 -/

theorem useLeaf_err {s : Scope} {xk : Leaf × Bool} {e : Err} (h : useLeaf s xk = .error e) :
    Out s False (fun l => if xk.1 = l then [⟨Op.use, xk.2⟩] else []) e := by
  obtain ⟨x, k⟩ := xk
  unfold useLeaf Scope.used Scope.use at h
  simp only at h ⊢
  by_cases hv : x ∈ s.vars
  · by_cases hu : x ∈ s.usedLocal
    · by_cases hl : k = true
      · refine Or.inr (Or.inr ⟨x, [], ⟨.use, k⟩, [], s.proj x, by simp, by simp [crun], ?_⟩)
        simp [CFail, Scope.proj, hv, hu, hl]
      · simp [hv, hu, hl] at h
    · simp [hv, hu] at h
  · by_cases hp : x ∈ s.parent
    · by_cases hu : x ∈ s.usedParent
      · by_cases hl : k = true
        · refine Or.inr (Or.inr ⟨x, [], ⟨.use, k⟩, [], s.proj x, by simp, by simp [crun], ?_⟩)
          simp [CFail, Scope.proj, hv, hu, hp, hl]
        · simp [hv, hp, hu, hl] at h
      · simp [hv, hp, hu] at h
    · simp [hv, hp] at h
      exact Or.inl h.symm

theorem assignLeaf_err {s : Scope} {xk : Leaf × Bool} {e : Err} (h : assignLeaf s xk = .error e) :
    Out s False (fun l => if xk.1 = l then [⟨Op.asg, xk.2⟩] else []) e := by
  obtain ⟨x, k⟩ := xk
  unfold assignLeaf at h
  split at h
  · rename_i hc
    simp only [Bool.and_eq_true, Bool.not_eq_true', List.contains_iff_mem] at hc
    obtain ⟨⟨hv, hu⟩, hl⟩ := hc
    refine Or.inr (Or.inr ⟨x, [], ⟨.asg, k⟩, [], s.proj x, by simp, by simp [crun], ?_⟩)
    have hu' : x ∉ s.usedLocal := by simpa using hu
    simp [CFail, Scope.proj, hv, hu', hl]
  · cases h

theorem visitPlace_parent {P : Prog} {borrow : Bool} {s s' : Scope} {p : Place}
    (h : visitPlace P borrow s p = .ok s') : s'.parent = s.parent :=
  (visitPlace_proj (l := 0) h).1.1

theorem visitPlace_err {P : Prog} {borrow : Bool} {s : Scope} {p : Place} {e : Err}
    (h : visitPlace P borrow s p = .error e) :
    Out s (borrow = false ∧ isInoutVar P p = true) (fun l => leafEvs .use l p.leaves) e := by
  unfold visitPlace at h
  split at h
  · rename_i hc
    simp only [Bool.and_eq_true, Bool.not_eq_true'] at hc
    exact Or.inr (Or.inl ⟨hc.2, hc.1⟩)
  · have := foldlM_fail useLeaf (fun l xk => if xk.1 = l then [⟨Op.use, xk.2⟩] else []) (fun _ => False)
      (fun s s' x hx => ⟨(useLeaf_parent hx).1, fun l => crun_ite _ _ _ _ _ _ (useLeaf_proj hx)⟩)
      (fun s x e hx => useLeaf_err hx) p.leaves s e h
    exact this.mono (fun ⟨_, _, hf⟩ => hf.elim) (fun l hf => hf)

theorem doAct_err {P : Prog} {s : Scope} {a : Act} {e : Err} (h : doAct P s a = .error e) :
    Out s (¬ a.StaticOK P) (fun l => a.evs l) e := by
  cases a with
  | use p borrow =>
    simp only [doAct] at h
    refine (visitPlace_err h).mono ?_ (fun l hf => hf)
    rintro ⟨hb, hi⟩ hs
    rw [hs hb] at hi; cases hi
  | give p => simp [doAct] at h
  | dropAfter => exact Or.inr (Or.inl (fun h' => h'))
  | moveOut => exact Or.inr (Or.inl (fun h' => h'))

theorem assignTarget_parent {P : Prog} {s s' : Scope} {t : Place} (h : assignTarget P s t = .ok s') :
    s'.parent = s.parent := (assignTarget_proj (l := 0) h).1.1

theorem assignTarget_err {P : Prog} {s : Scope} {t : Place} {e : Err} (h : assignTarget P s t = .error e) :
    Out s (isInoutVar P t = true) (fun l => leafEvs .asg l t.leaves) e := by
  unfold assignTarget at h
  split at h
  · rename_i hc
    simp only [Bool.and_eq_true] at hc
    exact Or.inr (Or.inl hc.1.2)
  · have := foldlM_fail assignLeaf (fun l xk => if xk.1 = l then [⟨Op.asg, xk.2⟩] else []) (fun _ => False)
      (fun s s' x hx => ⟨(assignLeaf_parent hx).1, fun l => crun_ite _ _ _ _ _ _ (assignLeaf_proj hx)⟩)
      (fun s x e hx => assignLeaf_err hx) t.leaves s e h
    exact this.mono (fun ⟨_, _, hf⟩ => hf.elim) (fun l hf => hf)

theorem assignTargets_err {P : Prog} {s : Scope} {tgts : List Place} {e : Err}
    (h : assignTargets P s tgts = .error e) :
    Out s (∃ t ∈ tgts, isInoutVar P t = true) (fun l => tgts.flatMap fun t => leafEvs .asg l t.leaves) e := by
  unfold assignTargets at h
  cases h1 : tgts.foldlM (assignTarget P) s with
  | error e1 =>
    simp only [h1, bind, Except.bind] at h
    cases h
    exact foldlM_fail (assignTarget P) (fun l t => leafEvs .asg l t.leaves) (fun t => isInoutVar P t = true)
      (fun s s' t ht => ⟨assignTarget_parent ht, fun l => (assignTarget_proj ht).2⟩)
      (fun s t e ht => assignTarget_err ht) tgts s _ h1
  | ok s1 =>
    simp only [h1, bind, Except.bind] at h
    split at h
    · rename_i hc
      simp only [List.any_eq_true] at hc
      exact Or.inr (Or.inl hc)
    · cases h

theorem checkStmt_err {P : Prog} {s : Scope} {st : Stmt} {e : Err} (h : checkStmt P s st = .error e) :
    Out s (¬ st.StaticOK P) (fun l => st.evs l) e := by
  unfold checkStmt at h
  cases h1 : st.acts.foldlM (doAct P) s with
  | error e1 =>
    simp only [h1, bind, Except.bind] at h
    cases h
    have := foldlM_fail (doAct P) (fun l a => a.evs l) (fun a => ¬ a.StaticOK P)
      (fun s s' a ha => ⟨(doAct_proj (l := 0) ha).1.1, fun l => (doAct_proj ha).2.1⟩)
      (fun s a e ha => doAct_err ha) st.acts s _ h1
    refine (this.append_right fun l => st.tgts.flatMap fun t => leafEvs .asg l t.leaves).mono ?_ (fun l hf => hf)
    rintro ⟨a, ha, hn⟩ ⟨hs, _⟩
    exact hn (hs a ha)
  | ok s1 =>
    simp only [h1, bind, Except.bind] at h
    have a := fun l => foldlM_proj l (doAct P) (Act.evs l) (fun _ => True)
      (fun s s' a ha => ⟨(doAct_proj (l := l) ha).1, (doAct_proj (l := l) ha).2.1, trivial⟩) st.acts s s1 h1
    split at h
    · rename_i hd
      refine Or.inr (Or.inl ?_)
      rintro ⟨_, _, hd'⟩
      rw [hd'] at hd; cases hd
    · refine ((assignTargets_err h).prepend (s := s) (evs0 := fun l => st.acts.flatMap (Act.evs l))
        (a 0).1.1 (fun l => (a l).2.1)).mono ?_ (fun l hf => hf)
      rintro ⟨t, ht, hi⟩ ⟨_, hs, _⟩
      rw [hs t ht] at hi; cases hi

/-- a block on which pass 1 raises an error: internal error, broken path-independent rule, or a
    bookkeeping failure of a leaf among the block's events -/
theorem checkBlock_err {P : Prog} {b : Blk} {e : Err} (h : checkBlock P b = .error e) :
    Out (initScope P b) (∃ st ∈ P.stmts b, ¬ st.StaticOK P) (fun l => (P.stmts b).flatMap (Stmt.evs l)) e := by
  unfold checkBlock at h
  exact foldlM_fail (checkStmt P) (fun l st => st.evs l) (fun st => ¬ st.StaticOK P)
    (fun s s' st hs => ⟨(checkStmt_proj (l := 0) hs).1.1, fun l => (checkStmt_proj hs).2.1⟩)
    (fun s st e hs => checkStmt_err hs) (P.stmts b) _ e h

/-! ### a bookkeeping failure is a failure of the ownership semantics -/

theorem rel_step {inPar : Bool} {c c' : LSt} {e : Ev} {o o' o0 : Bool} {k k' k0 : Option Bool}
    (h : cstep inPar c e = some c') (hs : Ev.step o e = some o') (hk : Ev.kstep k e = some k')
    (hi : KInv k0 c k) (hr : Rel o0 k0 c o) (hK : k0 ≠ some true → o0 = false) :
    KInv k0 c' k' ∧ Rel o0 k0 c' o' := by
  rcases c with ⟨a, kl, b, d⟩
  rcases e with ⟨op, el⟩
  cases a
  · simp only [KInv, Bool.false_eq_true, if_false] at hi
    subst hi
    cases op <;> cases b <;> cases d <;> cases inPar <;> cases el <;> simp [cstep] at h <;> subst h <;>
      cases o <;> cases o0 <;> rcases k with _ | _ | _ <;>
      simp_all [Rel, KInv, Ev.step, Ev.kstep]
  · simp only [KInv, if_true] at hi
    subst hi
    cases op <;> cases b <;> cases d <;> cases inPar <;> cases el <;> cases kl <;> simp [cstep] at h <;>
      subst h <;> cases o <;> simp_all [Rel, KInv, Ev.step, Ev.kstep]

theorem rel_run {inPar : Bool} {o0 : Bool} {k0 : Option Bool} (hK : k0 ≠ some true → o0 = false) :
    ∀ (es : List Ev) (c c1 : LSt) (o o1 : Bool) (k k1 : Option Bool),
    crun inPar c es = some c1 → runEvs o es = some o1 → krun k es = some k1 → KInv k0 c k → Rel o0 k0 c o →
    KInv k0 c1 k1 ∧ Rel o0 k0 c1 o1 := by
  intro es
  induction es with
  | nil =>
    intro c c1 o o1 k k1 h hs hk hi hr
    simp [crun] at h; simp [runEvs] at hs; simp [krun] at hk
    subst h; subst hs; subst hk; exact ⟨hi, hr⟩
  | cons e es ih =>
    intro c c1 o o1 k k1 h hs hk hi hr
    simp only [crun] at h
    simp only [runEvs] at hs
    simp only [krun] at hk
    cases h1 : cstep inPar c e with
    | none => simp [h1] at h
    | some c' =>
      cases h2 : Ev.step o e with
      | none => simp [h2] at hs
      | some o' =>
        cases h3 : Ev.kstep k e with
        | none => simp [h3] at hk
        | some k' =>
          simp only [h1] at h
          simp only [h2] at hs
          simp only [h3] at hk
          obtain ⟨hi', hr'⟩ := rel_step h1 h2 h3 hi hr hK
          exact ih c' c1 o' o1 k' k1 h hs hk hi' hr'

theorem cfail_sem {inPar : Bool} {c : LSt} {e : Ev} {o o0 : Bool} {k k' k0 : Option Bool}
    (hf : CFail inPar c e) (hk : Ev.kstep k e = some k') (hi : KInv k0 c k) (hr : Rel o0 k0 c o) :
    Ev.step o e = none := by
  rcases c with ⟨a, kl, b, d⟩
  rcases e with ⟨op, el⟩
  cases a
  · simp only [KInv, Bool.false_eq_true, if_false] at hi
    subst hi
    cases op <;> cases b <;> cases d <;> cases el <;> cases o <;> cases o0 <;> rcases k with _ | _ | _ <;>
      simp_all [CFail, Rel, Ev.step, Ev.kstep]
  · simp only [KInv, if_true] at hi
    subst hi
    cases op <;> cases b <;> cases d <;> cases el <;> cases kl <;> cases o <;>
      simp_all [CFail, Rel, Ev.step, Ev.kstep]

/-- if the bookkeeping of `l` fails within `evs` but the (well-kinded) events `evs ++ more` run
    through in the ownership semantics, then the two were not related at the start -/
theorem fails_sem {l : Leaf} {s : Scope} {evs more : List Ev} {o : Bool} {k0 k1 : Option Bool}
    (hf : Fails l s evs) (hK : k0 ≠ some true → o = false) (hi : KInv k0 (s.proj l) k0)
    (hr : Rel o k0 (s.proj l) o) (hk : krun k0 (evs ++ more) = some k1) : runEvs o (evs ++ more) = none := by
  obtain ⟨pre, e, post, c, h1, h2, h3⟩ := hf
  subst h1
  rw [List.append_assoc, krun_append] at hk
  rw [List.append_assoc, runEvs_append]
  cases hp : runEvs o pre with
  | none => rfl
  | some o' =>
    cases hkp : krun k0 pre with
    | none => simp [hkp] at hk
    | some k' =>
      simp only [hkp, Option.bind, List.cons_append, krun] at hk
      cases hke : Ev.kstep k' e with
      | none => simp [hke] at hk
      | some k'' =>
        obtain ⟨hi', hr'⟩ := rel_run hK pre _ _ _ _ _ _ h2 hp hkp hi hr
        simp only [Option.bind, List.cons_append, runEvs, cfail_sem h3 hke hi' hr']

end GuppyVerif.Linearity
