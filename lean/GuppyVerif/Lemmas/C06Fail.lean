import GuppyVerif.Lemmas.C06Local
/-! C06 helper lemmas, part 4 (completeness): when pass 1 of the checker raises an error that is
    not an internal one (`crash`), then either a path-independent ownership rule is broken at
    that statement, or the bookkeeping of some linear leaf fails at one of its events
    (`Fails`) — and such a failure is a failure of the ownership semantics too (`fails_sem`). -/
namespace GuppyVerif.Linearity

/-- the bookkeeping raises a user error at this event -/
def CFail (inPar : Bool) (c : LSt) : Ev → Prop
  | .use => (c.inVars = true ∧ c.usedLocal = true) ∨ (c.inVars = false ∧ inPar = true ∧ c.usedParent = true)
  | .give => False
  | .asg => c.inVars = true ∧ c.usedLocal = false

/-- the bookkeeping of leaf `l`, started in scope `s`, runs into a user error within `evs` -/
def Fails (l : Leaf) (s : Scope) (evs : List Ev) : Prop :=
  ∃ pre e post c, evs = pre ++ e :: post ∧ crun (s.parent.contains l) (s.proj l) pre = some c ∧
    CFail (s.parent.contains l) c e

theorem Fails.append_right {l : Leaf} {s : Scope} {evs : List Ev} (more : List Ev) (h : Fails l s evs) :
    Fails l s (evs ++ more) := by
  obtain ⟨pre, e, post, c, h1, h2, h3⟩ := h
  exact ⟨pre, e, post ++ more, c, by simp [h1], h2, h3⟩

theorem Fails.prepend {l : Leaf} {s s1 : Scope} {evs0 evs : List Ev} (hp : s1.parent = s.parent)
    (h0 : crun (s.parent.contains l) (s.proj l) evs0 = some (s1.proj l)) (h : Fails l s1 evs) :
    Fails l s (evs0 ++ evs) := by
  obtain ⟨pre, e, post, c, h1, h2, h3⟩ := h
  refine ⟨evs0 ++ pre, e, post, c, by simp [h1], ?_, by rw [← hp]; exact h3⟩
  rw [crun_append, h0]
  simp only [Option.bind]
  rw [← hp]; exact h2

/-- outcome of a failing piece of pass 1: an internal error, a broken path-independent rule
    (`S`), or a bookkeeping failure of a linear leaf -/
def Out (P : Prog) (s : Scope) (S : Prop) (evs : Leaf → List Ev) (e : Err) : Prop :=
  e = .crash ∨ S ∨ ∃ l, P.lin l = true ∧ Fails l s (evs l)

theorem Out.mono {P : Prog} {s : Scope} {S S' : Prop} {evs evs' : Leaf → List Ev} {e : Err}
    (hS : S → S') (hE : ∀ l, P.lin l = true → Fails l s (evs l) → Fails l s (evs' l))
    (h : Out P s S evs e) : Out P s S' evs' e := by
  rcases h with h | h | ⟨l, hl, h⟩
  · exact Or.inl h
  · exact Or.inr (Or.inl (hS h))
  · exact Or.inr (Or.inr ⟨l, hl, hE l hl h⟩)

/-- a failing monadic fold fails in one of its steps, after a successful prefix -/
theorem foldlM_fail {α : Type} {P : Prog} (f : Scope → α → R Scope) (ev : Leaf → α → List Ev) (S : α → Prop)
    (hok : ∀ s s' a, f s a = .ok s' → s'.parent = s.parent ∧
      ∀ l, P.lin l = true → crun (s.parent.contains l) (s.proj l) (ev l a) = some (s'.proj l))
    (herr : ∀ s a e, f s a = .error e → Out P s (S a) (fun l => ev l a) e) :
    ∀ (as : List α) (s : Scope) (e : Err), as.foldlM f s = .error e →
      Out P s (∃ a ∈ as, S a) (fun l => as.flatMap (ev l)) e := by
  intro as
  induction as with
  | nil => intro s e h; simp [pure, Except.pure] at h
  | cons a as ih =>
    intro s e h
    rw [List.foldlM_cons] at h
    cases h1 : f s a with
    | error e1 =>
      rw [h1] at h
      simp only [bind, Except.bind] at h
      cases h
      refine (herr s a _ h1).mono (fun hs => ⟨a, List.mem_cons_self, hs⟩) ?_
      intro l _ hf
      simp only [List.flatMap_cons]
      exact hf.append_right _
    | ok s1 =>
      rw [h1] at h
      obtain ⟨hp, hc⟩ := hok s s1 a h1
      refine (ih s1 e h).elim (fun h' => Or.inl h') fun h' => Or.inr ?_
      rcases h' with ⟨b, hb, hs⟩ | ⟨l, hl, hf⟩
      · exact Or.inl ⟨b, List.mem_cons_of_mem _ hb, hs⟩
      · refine Or.inr ⟨l, hl, ?_⟩
        simp only [List.flatMap_cons]
        exact hf.prepend hp (hc l hl)

/-! ### the failing steps of pass 1 -/

theorem useLeaf_parent {P : Prog} {s s' : Scope} {x : Leaf} (h : useLeaf P s x = .ok s') : s'.parent = s.parent := by
  rcases useLeaf_ok h with ⟨_, _, rfl⟩ | ⟨_, _, _, rfl⟩ <;> rfl

theorem assignLeaf_parent {P : Prog} {s s' : Scope} {x : Leaf} (h : assignLeaf P s x = .ok s') :
    s'.parent = s.parent := by
  unfold assignLeaf at h
  split at h
  · cases h
  · cases h; rfl

theorem useLeaf_err {P : Prog} {s : Scope} {x : Leaf} {e : Err} (h : useLeaf P s x = .error e) :
    Out P s False (fun l => if x = l then [Ev.use] else []) e := by
  unfold useLeaf Scope.used Scope.use at h
  by_cases hv : x ∈ s.vars
  · by_cases hu : x ∈ s.usedLocal
    · by_cases hl : P.lin x = true
      · refine Or.inr (Or.inr ⟨x, hl, [], .use, [], s.proj x, by simp, by simp [crun], ?_⟩)
        left
        simp [Scope.proj, hv, hu]
      · simp [hv, hu, hl] at h
    · simp [hv, hu] at h
  · by_cases hp : x ∈ s.parent
    · by_cases hu : x ∈ s.usedParent
      · by_cases hl : P.lin x = true
        · refine Or.inr (Or.inr ⟨x, hl, [], .use, [], s.proj x, by simp, by simp [crun], ?_⟩)
          right
          simp [Scope.proj, hv, hu, hp]
        · simp [hv, hp, hu, hl] at h
      · simp [hv, hp, hu] at h
    · simp [hv, hp] at h
      exact Or.inl h.symm

theorem assignLeaf_err {P : Prog} {s : Scope} {x : Leaf} {e : Err} (h : assignLeaf P s x = .error e) :
    Out P s False (fun l => if x = l then [Ev.asg] else []) e := by
  unfold assignLeaf at h
  split at h
  · rename_i hc
    simp only [Bool.and_eq_true, Bool.not_eq_true', List.contains_iff_mem] at hc
    obtain ⟨⟨hv, hu⟩, hl⟩ := hc
    refine Or.inr (Or.inr ⟨x, hl, [], .asg, [], s.proj x, by simp, by simp [crun], ?_⟩)
    have hu' : x ∉ s.usedLocal := by simpa using hu
    simp [CFail, Scope.proj, hv, hu']
  · cases h

theorem visitPlace_err {P : Prog} {borrow : Bool} {s : Scope} {p : Place} {e : Err}
    (h : visitPlace P borrow s p = .error e) :
    Out P s (borrow = false ∧ isInoutVar P p = true) (fun l => leafEvs .use l p.leaves) e := by
  unfold visitPlace at h
  split at h
  · rename_i hc
    simp only [Bool.and_eq_true, Bool.not_eq_true'] at hc
    exact Or.inr (Or.inl ⟨hc.2, hc.1⟩)
  · have := foldlM_fail (P := P) (useLeaf P) (fun l x => if x = l then [Ev.use] else []) (fun _ => False)
      (fun s s' x hx => ⟨useLeaf_parent hx, fun l hl => crun_ite _ _ _ _ _ _ (useLeaf_proj hl hx).2⟩)
      (fun s x e hx => useLeaf_err hx) p.leaves s e h
    exact this.mono (fun ⟨_, _, hf⟩ => hf.elim) (fun l _ hf => hf)

theorem foldlM_parent {α : Type} (f : Scope → α → R Scope)
    (hf : ∀ s s' a, f s a = .ok s' → s'.parent = s.parent) :
    ∀ (as : List α) (s s' : Scope), as.foldlM f s = .ok s' → s'.parent = s.parent := by
  intro as
  induction as with
  | nil => intro s s' h; simp [pure, Except.pure] at h; rw [h]
  | cons a as ih =>
    intro s s' h
    rw [List.foldlM_cons] at h
    cases h1 : f s a with
    | error e => rw [h1] at h; cases h
    | ok s1 => rw [h1] at h; exact (ih s1 s' h).trans (hf s s1 a h1)

theorem visitPlace_parent {P : Prog} {borrow : Bool} {s s' : Scope} {p : Place}
    (h : visitPlace P borrow s p = .ok s') : s'.parent = s.parent := by
  unfold visitPlace at h
  split at h
  · cases h
  · exact foldlM_parent _ (fun _ _ _ hx => useLeaf_parent hx) _ _ _ h

theorem assignTarget_parent {P : Prog} {s s' : Scope} {t : Place} (h : assignTarget P s t = .ok s') :
    s'.parent = s.parent := by
  unfold assignTarget at h
  split at h
  · cases h
  · exact foldlM_parent _ (fun _ _ _ hx => assignLeaf_parent hx) _ _ _ h

theorem Out.prepend {P : Prog} {s s1 : Scope} {S : Prop} {evs0 evs : Leaf → List Ev} {e : Err}
    (hp : s1.parent = s.parent)
    (h0 : ∀ l, P.lin l = true → crun (s.parent.contains l) (s.proj l) (evs0 l) = some (s1.proj l))
    (h : Out P s1 S evs e) : Out P s S (fun l => evs0 l ++ evs l) e := by
  rcases h with h | h | ⟨l, hl, hf⟩
  · exact Or.inl h
  · exact Or.inr (Or.inl h)
  · exact Or.inr (Or.inr ⟨l, hl, hf.prepend hp (h0 l hl)⟩)

theorem Out.append_right {P : Prog} {s : Scope} {S : Prop} {evs : Leaf → List Ev} {e : Err}
    (more : Leaf → List Ev) (h : Out P s S evs e) : Out P s S (fun l => evs l ++ more l) e :=
  h.mono id fun l _ hf => hf.append_right _

theorem assignTarget_err {P : Prog} {s : Scope} {t : Place} {e : Err} (h : assignTarget P s t = .error e) :
    Out P s (isInoutVar P t = true) (fun l => leafEvs .asg l t.leaves) e := by
  unfold assignTarget at h
  split at h
  · rename_i hc
    simp only [Bool.and_eq_true] at hc
    exact Or.inr (Or.inl hc.1.2)
  · have := foldlM_fail (P := P) (assignLeaf P) (fun l x => if x = l then [Ev.asg] else []) (fun _ => False)
      (fun s s' x hx => ⟨assignLeaf_parent hx, fun l hl => crun_ite _ _ _ _ _ _ (assignLeaf_proj hl hx).2⟩)
      (fun s x e hx => assignLeaf_err hx) t.leaves s e h
    exact this.mono (fun ⟨_, _, hf⟩ => hf.elim) (fun l _ hf => hf)

theorem assignTargets_err {P : Prog} {s : Scope} {tgts : List Place} {e : Err}
    (h : assignTargets P s tgts = .error e) :
    Out P s (∃ t ∈ tgts, isInoutVar P t = true) (fun l => placesEvs .asg l tgts) e := by
  unfold assignTargets at h
  cases h1 : tgts.foldlM (assignTarget P) s with
  | error e1 =>
    simp only [h1, bind, Except.bind] at h
    cases h
    exact foldlM_fail (P := P) (assignTarget P) (fun l t => leafEvs .asg l t.leaves) (fun t => isInoutVar P t = true)
      (fun s s' t ht => ⟨assignTarget_parent ht, fun l hl => (assignTarget_proj hl ht).2⟩)
      (fun s t e ht => assignTarget_err ht) tgts s _ h1
  | ok s1 =>
    simp only [h1, bind, Except.bind] at h
    split at h
    · rename_i hc
      simp only [List.any_eq_true] at hc
      exact Or.inr (Or.inl hc)
    · cases h

theorem visitSrcs_err {P : Prog} {s : Scope} {srcs : List Place} {e : Err}
    (h : srcs.foldlM (visitPlace P false) s = .error e) :
    Out P s (∃ p ∈ srcs, isInoutVar P p = true) (fun l => placesEvs .use l srcs) e :=
  (foldlM_fail (P := P) (visitPlace P false) (fun l p => leafEvs .use l p.leaves)
    (fun p => false = false ∧ isInoutVar P p = true)
    (fun s s' p hp => ⟨visitPlace_parent hp, fun l hl => (visitPlace_proj hl hp).2.1⟩)
    (fun s p e hp => visitPlace_err hp) srcs s e h).mono
    (fun ⟨p, hp, _, h⟩ => ⟨p, hp, h⟩) (fun l _ hf => hf)

theorem visitArgs_err {P : Prog} {s : Scope} {args : List Arg} {e : Err}
    (h : visitArgs P s args = .error e) :
    Out P s (∃ a ∈ args, a.isInout = false ∧ isInoutVar P a.place = true)
      (fun l => placesEvs .use l (args.map Arg.place)) e := by
  have := foldlM_fail (P := P) (fun s (a : Arg) => visitPlace P a.isInout s a.place)
    (fun l a => leafEvs .use l a.place.leaves) (fun a => a.isInout = false ∧ isInoutVar P a.place = true)
    (fun s s' a hp => ⟨visitPlace_parent hp, fun l hl => (visitPlace_proj hl hp).2.1⟩)
    (fun s a e hp => visitPlace_err hp) args s e h
  refine this.mono id ?_
  intro l _ hf
  have he : placesEvs .use l (args.map Arg.place) = args.flatMap fun a => leafEvs .use l a.place.leaves := by
    unfold placesEvs; simp [List.flatMap_map]
  rw [he]; exact hf

theorem checkStmt_err {P : Prog} {s : Scope} {st : Stmt} {e : Err} (h : checkStmt P s st = .error e) :
    Out P s (¬ st.StaticOK P) (fun l => st.evs l) e := by
  cases st with
  | move tgts srcs =>
    simp only [checkStmt] at h
    cases h1 : srcs.foldlM (visitPlace P false) s with
    | error e1 =>
      simp only [h1, bind, Except.bind] at h
      cases h
      refine ((visitSrcs_err h1).append_right fun l => placesEvs .asg l tgts).mono ?_ (fun l _ hf => hf)
      rintro ⟨p, hp, hi⟩ ⟨hs, _⟩
      rw [hs p hp] at hi; cases hi
    | ok s1 =>
      simp only [h1, bind, Except.bind] at h
      refine ((assignTargets_err h).prepend (s := s) (evs0 := fun l => placesEvs .use l srcs)
        (foldlM_parent _ (fun _ _ _ hx => visitPlace_parent hx) _ _ _ h1) ?_).mono ?_ (fun l _ hf => hf)
      · intro l hl
        exact (foldlM_proj l (visitPlace P false) (fun p => leafEvs .use l p.leaves) (fun _ => True)
          (fun s s' p hp => ⟨(visitPlace_proj hl hp).1, (visitPlace_proj hl hp).2.1, trivial⟩) srcs s s1 h1).2.1
      · rintro ⟨t, ht, hi⟩ ⟨_, hs⟩
        rw [hs t ht] at hi; cases hi
  | call tgts args d =>
    simp only [checkStmt] at h
    cases h1 : visitArgs P s args with
    | error e1 =>
      simp only [h1, bind, Except.bind] at h
      cases h
      have := (visitArgs_err h1).append_right fun l =>
        placesEvs .give l ((args.filter Arg.isInout).map Arg.place) ++ placesEvs .asg l tgts
      refine this.mono ?_ (fun l _ hf => by simpa [Stmt.evs, List.append_assoc] using hf)
      rintro ⟨a, ha, hi1, hi2⟩ ⟨hs, _⟩
      rw [hs a ha hi1] at hi2; cases hi2
    | ok s1 =>
      simp only [h1, bind, Except.bind] at h
      have hp1 : s1.parent = s.parent := foldlM_parent _ (fun _ _ _ hx => visitPlace_parent hx) _ _ _ h1
      have hc1 : ∀ l, P.lin l = true →
          crun (s.parent.contains l) (s.proj l) (placesEvs .use l (args.map Arg.place)) = some (s1.proj l) := by
        intro l hl
        have := (foldlM_proj l (fun s (a : Arg) => visitPlace P a.isInout s a.place)
          (fun a => leafEvs .use l a.place.leaves) (fun _ => True)
          (fun s s' a hp => ⟨(visitPlace_proj hl hp).1, (visitPlace_proj hl hp).2.1, trivial⟩) args s s1 h1).2.1
        have he : placesEvs .use l (args.map Arg.place) = args.flatMap fun a => leafEvs .use l a.place.leaves := by
          unfold placesEvs; simp [List.flatMap_map]
        rw [he]; exact this
      split at h
      · rename_i hd
        refine Or.inr (Or.inl ?_)
        rintro ⟨_, _, hd'⟩
        rw [hd'] at hd; cases hd
      · have hr := fun l => reassignInout_proj l s1 args
        have := ((assignTargets_err h).prepend (s := s1)
          (evs0 := fun l => placesEvs .give l ((args.filter Arg.isInout).map Arg.place)) (hr 0).1
          (fun l _ => (hr l).2)).prepend (s := s) (evs0 := fun l => placesEvs .use l (args.map Arg.place)) hp1 hc1
        refine this.mono ?_ (fun l _ hf => by simpa [Stmt.evs, List.append_assoc] using hf)
        rintro ⟨t, ht, hi⟩ ⟨_, hs, _⟩
        rw [hs t ht] at hi; cases hi
  | ret srcs =>
    simp only [checkStmt] at h
    refine (visitSrcs_err h).mono ?_ (fun l _ hf => hf)
    rintro ⟨p, hp, hi⟩ hs
    rw [hs p hp] at hi; cases hi

theorem checkStmt_parent {P : Prog} {s s' : Scope} {st : Stmt} (h : checkStmt P s st = .ok s') :
    s'.parent = s.parent := by
  cases st with
  | move tgts srcs =>
    simp only [checkStmt] at h
    cases h1 : srcs.foldlM (visitPlace P false) s with
    | error e => simp [h1, bind, Except.bind] at h
    | ok s1 =>
      simp only [h1, bind, Except.bind] at h
      unfold assignTargets at h
      cases h2 : tgts.foldlM (assignTarget P) s1 with
      | error e => simp [h2, bind, Except.bind] at h
      | ok s2 =>
        simp only [h2, bind, Except.bind] at h
        split at h
        · cases h
        · cases h
          exact (foldlM_parent _ (fun _ _ _ hx => assignTarget_parent hx) _ _ _ h2).trans
            (foldlM_parent _ (fun _ _ _ hx => visitPlace_parent hx) _ _ _ h1)
  | call tgts args d =>
    simp only [checkStmt] at h
    cases h1 : visitArgs P s args with
    | error e => simp [h1, bind, Except.bind] at h
    | ok s1 =>
      simp only [h1, bind, Except.bind] at h
      split at h
      · cases h
      · unfold assignTargets at h
        cases h2 : tgts.foldlM (assignTarget P) (reassignInout s1 args) with
        | error e => simp [h2, bind, Except.bind] at h
        | ok s2 =>
          simp only [h2, bind, Except.bind] at h
          split at h
          · cases h
          · cases h
            exact ((foldlM_parent _ (fun _ _ _ hx => assignTarget_parent hx) _ _ _ h2).trans
              (reassignInout_proj 0 s1 args).1).trans
              (foldlM_parent _ (fun _ _ _ hx => visitPlace_parent hx) _ _ _ h1)
  | ret srcs =>
    simp only [checkStmt] at h
    exact foldlM_parent _ (fun _ _ _ hx => visitPlace_parent hx) _ _ _ h

/-- a block on which pass 1 raises an error: internal error, broken path-independent rule, or a
    bookkeeping failure of a linear leaf among the block's events -/
theorem checkBlock_err {P : Prog} {b : Blk} {e : Err} (h : checkBlock P b = .error e) :
    Out P (initScope P b) (∃ st ∈ P.stmts b, ¬ st.StaticOK P) (fun l => (P.stmts b).flatMap (Stmt.evs l)) e := by
  unfold checkBlock at h
  exact foldlM_fail (P := P) (checkStmt P) (fun l st => st.evs l) (fun st => ¬ st.StaticOK P)
    (fun s s' st hs => ⟨checkStmt_parent hs, fun l hl => (checkStmt_proj hl hs).2.1⟩)
    (fun s st e hs => checkStmt_err hs) (P.stmts b) _ e h

/-! ### a bookkeeping failure is a failure of the ownership semantics -/

theorem rel_step {inPar : Bool} {c c' : LSt} {e : Ev} {o o' o0 : Bool} (h : cstep inPar c e = some c')
    (hs : Ev.step o e = some o') (hr : Rel o0 c o) : Rel o0 c' o' := by
  rcases c with ⟨a, b, d⟩
  cases e <;> cases a <;> cases b <;> cases d <;> cases inPar <;> simp [cstep] at h <;> subst h <;>
    cases o <;> cases o0 <;> simp_all [Rel, Ev.step]

theorem rel_run {inPar : Bool} {o0 : Bool} : ∀ (es : List Ev) (c c1 : LSt) (o o1 : Bool),
    crun inPar c es = some c1 → runEvs o es = some o1 → Rel o0 c o → Rel o0 c1 o1 := by
  intro es
  induction es with
  | nil =>
    intro c c1 o o1 h hs hr
    simp [crun] at h; simp [runEvs] at hs
    subst h; subst hs; exact hr
  | cons e es ih =>
    intro c c1 o o1 h hs hr
    simp only [crun] at h
    simp only [runEvs] at hs
    cases h1 : cstep inPar c e with
    | none => simp [h1] at h
    | some c' =>
      cases h2 : Ev.step o e with
      | none => simp [h2] at hs
      | some o' =>
        simp only [h1] at h
        simp only [h2] at hs
        exact ih c' c1 o' o1 h hs (rel_step h1 h2 hr)

theorem cfail_sem {inPar : Bool} {c : LSt} {e : Ev} {o o0 : Bool} (hf : CFail inPar c e) (hr : Rel o0 c o) :
    Ev.step o e = none := by
  rcases c with ⟨a, b, d⟩
  cases e <;> cases a <;> cases b <;> cases d <;> cases o <;> cases o0 <;> simp_all [CFail, Rel, Ev.step]

/-- if the bookkeeping of `l` fails within `evs` but the ownership semantics runs through
    `evs ++ more`, then the two were not related at the start -/
theorem fails_sem {l : Leaf} {s : Scope} {evs more : List Ev} {o : Bool} (hf : Fails l s evs)
    (hr : Rel o (s.proj l) o) : runEvs o (evs ++ more) = none := by
  obtain ⟨pre, e, post, c, h1, h2, h3⟩ := hf
  subst h1
  rw [List.append_assoc, runEvs_append]
  cases hp : runEvs o pre with
  | none => rfl
  | some o' =>
    have := rel_run pre _ _ _ _ h2 hp hr
    simp only [Option.bind, List.cons_append, runEvs, cfail_sem h3 this]

end GuppyVerif.Linearity
