import GuppyVerif.Lemmas.C13b
/-! Helper lemmas for C13, part 4: `bound_vars` vs occurrence, the loop of `partially_monomorphize_args`,
    `require_monomorphization`. -/
namespace GuppyVerif.Instantiate
open GuppyVerif

/-! ## `tyBV` collects exactly the occurring variables -/
mutual
theorem occ_ty (j : Nat) : ∀ (t : Ty), j ∈ tyBV t ↔ OccTy j t
  | .num _ => by simp only [tyBV, List.not_mem_nil, false_iff]; intro h; cases h
  | .none _ => by simp only [tyBV, List.not_mem_nil, false_iff]; intro h; cases h
  | .evar _ _ _ _ => by simp only [tyBV, List.not_mem_nil, false_iff]; intro h; cases h
  | .bvar n i c d => by
    simp only [tyBV, List.mem_singleton]
    constructor
    · intro h; subst h; exact .bvar n j c d
    · intro h; cases h; rfl
  | .tuple ts p => by
    simp only [tyBV, occ_tyL j ts]
    constructor
    · rintro ⟨t, ht, h⟩; exact .tuple ht h
    · intro h; cases h with | tuple ht h => exact ⟨_, ht, h⟩
  | .func ins o ps cs => by
    cases ps with
    | cons p ps =>
      simp only [tyBV, List.isEmpty_cons, Bool.false_eq_true, ↓reduceIte, List.not_mem_nil, false_iff]
      intro h; cases h
    | nil =>
      simp only [tyBV, List.isEmpty_nil, ↓reduceIte, List.mem_append, occ_inL j ins, occ_ty j o,
        occ_constL j cs]
      constructor
      · rintro ((⟨t, f, ht, h⟩ | h) | ⟨c, hc, h⟩)
        · exact .funcIn ht h
        · exact .funcOut h
        · exact .funcC hc h
      · intro h
        cases h with
        | funcIn ht h => exact Or.inl (Or.inl ⟨_, _, ht, h⟩)
        | funcOut h => exact Or.inl (Or.inr h)
        | funcC hc h => exact Or.inr ⟨_, hc, h⟩
  | .opaque n as => by
    simp only [tyBV, occ_argL j as]
    constructor
    · rintro (⟨t, ht, h⟩ | ⟨c, hc, h⟩)
      · exact .opaqueT ht h
      · exact .opaqueC hc h
    · intro h
      cases h with
      | opaqueT ht h => exact Or.inl ⟨_, ht, h⟩
      | opaqueC hc h => exact Or.inr ⟨_, hc, h⟩
  | .struct n as fs => by
    simp only [tyBV, occ_argL j as]
    constructor
    · rintro (⟨t, ht, h⟩ | ⟨c, hc, h⟩)
      · exact .structT ht h
      · exact .structC hc h
    · intro h
      cases h with
      | structT ht h => exact Or.inl ⟨_, ht, h⟩
      | structC hc h => exact Or.inr ⟨_, hc, h⟩
theorem occ_tyL (j : Nat) : ∀ (ts : List Ty), j ∈ tyBVL ts ↔ ∃ t, t ∈ ts ∧ OccTy j t
  | [] => by simp [tyBVL]
  | t :: ts => by
    simp only [tyBVL, List.mem_append, occ_ty j t, occ_tyL j ts, List.mem_cons]
    constructor
    · rintro (h | ⟨t', ht, h⟩)
      · exact ⟨t, Or.inl rfl, h⟩
      · exact ⟨t', Or.inr ht, h⟩
    · rintro ⟨t', rfl | ht, h⟩
      · exact Or.inl h
      · exact Or.inr ⟨t', ht, h⟩
theorem occ_inL (j : Nat) : ∀ (ts : List FuncIn), j ∈ inBVL ts ↔ ∃ t f, FuncIn.mk t f ∈ ts ∧ OccTy j t
  | [] => by simp [inBVL]
  | .mk t f :: ts => by
    simp only [inBVL, inBV, List.mem_append, occ_ty j t, occ_inL j ts, List.mem_cons]
    constructor
    · rintro (h | ⟨t', f', ht, h⟩)
      · exact ⟨t, f, Or.inl rfl, h⟩
      · exact ⟨t', f', Or.inr ht, h⟩
    · rintro ⟨t', f', h1 | ht, h⟩
      · cases h1; exact Or.inl h
      · exact Or.inr ⟨t', f', ht, h⟩
theorem occ_argL (j : Nat) : ∀ (ts : List Arg), j ∈ argBVL ts ↔
    (∃ t, Arg.ty t ∈ ts ∧ OccTy j t) ∨ (∃ c, Arg.const c ∈ ts ∧ OccConst j c)
  | [] => by simp [argBVL]
  | .ty t :: ts => by
    simp only [argBVL, argBV, List.mem_append, occ_ty j t, occ_argL j ts, List.mem_cons]
    constructor
    · rintro (h | ⟨t', ht, h⟩ | ⟨c, hc, h⟩)
      · exact Or.inl ⟨t, Or.inl rfl, h⟩
      · exact Or.inl ⟨t', Or.inr ht, h⟩
      · exact Or.inr ⟨c, Or.inr hc, h⟩
    · rintro (⟨t', h1 | ht, h⟩ | ⟨c, h1 | hc, h⟩)
      · cases h1; exact Or.inl h
      · exact Or.inr (Or.inl ⟨t', ht, h⟩)
      · cases h1
      · exact Or.inr (Or.inr ⟨c, hc, h⟩)
  | .const c :: ts => by
    simp only [argBVL, argBV, List.mem_append, occ_const j c, occ_argL j ts, List.mem_cons]
    constructor
    · rintro (h | ⟨t', ht, h⟩ | ⟨c', hc, h⟩)
      · exact Or.inr ⟨c, Or.inl rfl, h⟩
      · exact Or.inl ⟨t', Or.inr ht, h⟩
      · exact Or.inr ⟨c', Or.inr hc, h⟩
    · rintro (⟨t', h1 | ht, h⟩ | ⟨c', h1 | hc, h⟩)
      · cases h1
      · exact Or.inr (Or.inl ⟨t', ht, h⟩)
      · cases h1; exact Or.inl h
      · exact Or.inr (Or.inr ⟨c', hc, h⟩)
theorem occ_const (j : Nat) : ∀ (c : Const), j ∈ constBV c ↔ OccConst j c
  | .val t v => by
    simp only [constBV, occ_ty j t]
    constructor
    · intro h; exact .valTy h
    · intro h; cases h with | valTy h => exact h
  | .bvar t n i => by
    simp only [constBV, List.mem_cons, occ_ty j t]
    constructor
    · rintro (h | h)
      · subst h; exact .self t n j
      · exact .bvarTy h
    · intro h
      cases h with
      | self => exact Or.inl rfl
      | bvarTy h => exact Or.inr h
  | .evar t n i => by
    simp only [constBV, occ_ty j t]
    constructor
    · intro h; exact .evarTy h
    · intro h; cases h with | evarTy h => exact h
theorem occ_constL (j : Nat) : ∀ (ts : List Const), j ∈ constBVL ts ↔ ∃ c, c ∈ ts ∧ OccConst j c
  | [] => by simp [constBVL]
  | c :: ts => by
    simp only [constBVL, List.mem_append, occ_const j c, occ_constL j ts, List.mem_cons]
    constructor
    · rintro (h | ⟨c', hc, h⟩)
      · exact ⟨c, Or.inl rfl, h⟩
      · exact ⟨c', Or.inr hc, h⟩
    · rintro ⟨c', rfl | hc, h⟩
      · exact Or.inl h
      · exact Or.inr ⟨c', hc, h⟩
end

/-! ## list assignment -/

theorem setAt?_spec {α : Type} : ∀ (l : List α) (i : Nat) (v : α) (l' : List α), setAt? l i v = some l' →
    l'.length = l.length ∧ i < l.length ∧ ∀ j, l'[j]? = if j = i then some v else l[j]?
  | [], _, _, _, h => by simp [setAt?] at h
  | x :: xs, 0, v, l', h => by
    simp only [setAt?, Option.some.injEq] at h
    subst h
    refine ⟨rfl, by simp, fun j => ?_⟩
    cases j <;> simp
  | x :: xs, i + 1, v, l', h => by
    simp only [setAt?] at h
    obtain ⟨r, h1, h2⟩ := bind_some_eq h
    subst h2
    obtain ⟨hl, hi, hg⟩ := setAt?_spec xs i v r h1
    refine ⟨by simp [hl], by simp; omega, fun j => ?_⟩
    cases j with
    | zero => simp
    | succ j => simp [hg j]

theorem markVars_spec (args : List Arg) : ∀ (js : List Nat) (m m' : PInst), markVars args js m = some m' →
    m'.length = m.length ∧
    (∀ j, j ∈ js → ∃ x, args[j]? = some x ∧ m'[j]? = some (some x)) ∧
    (∀ j, j ∉ js → m'[j]? = m[j]?)
  | [], m, m', h => by
    simp only [markVars, Option.some.injEq] at h
    subst h
    exact ⟨rfl, by simp, fun _ _ => rfl⟩
  | j0 :: js, m, m', h => by
    simp only [markVars] at h
    cases h1 : args[j0]? with
    | none => simp [h1] at h
    | some a =>
      cases h2 : setAt? m j0 (some a) with
      | none => simp [h1, h2] at h
      | some m1 =>
        simp only [h1, h2, Option.bind_eq_bind, Option.bind_some] at h
        obtain ⟨l1, _, g1⟩ := setAt?_spec m j0 (some a) m1 h2
        obtain ⟨l2, c2, o2⟩ := markVars_spec args js m1 m' h
        refine ⟨l2.trans l1, fun j hj => ?_, fun j hj => ?_⟩
        · by_cases hjs : j ∈ js
          · exact c2 j hjs
          · have : j = j0 := by simpa [hjs] using hj
            subst this
            exact ⟨a, h1, by rw [o2 j hjs, g1 j]; simp⟩
        · simp only [List.mem_cons, not_or] at hj
          rw [o2 j hj.2, g1 j]
          simp [hj.1]

/-! ## one iteration and the whole loop of `partially_monomorphize_args` -/

/-- what the iteration for parameter `p` asks to monomorphize -/
def StepNeed (args : List Arg) : Param → Nat → Prop
  | .const idx _ ty _, j =>
      (isNat ty = false ∧ j ∈ tyBV ty) ∨
      (j = idx ∧ ∃ ty', instTy (full args) false ty = some ty' ∧ isNat ty' = false)
  | .ty _ _ _ _, _ => False

structure StepSpec (args : List Arg) (need : Nat → Prop) (m m' : PInst) : Prop where
  len : m'.length = m.length
  mono : ∀ (j : Nat) (x : Arg), m[j]? = some (some x) → args[j]? = some x → m'[j]? = some (some x)
  only : ∀ (j : Nat) (x : Arg), m'[j]? = some (some x) → m[j]? = some (some x) ∨ (args[j]? = some x ∧ need j)
  covers : ∀ (j : Nat), need j → ∃ x, args[j]? = some x ∧ m'[j]? = some (some x)

theorem StepSpec.refl (args : List Arg) (m : PInst) : StepSpec args (fun _ => False) m m :=
  ⟨rfl, fun _ _ h _ => h, fun _ _ h => Or.inl h, fun _ h => h.elim⟩

theorem StepSpec.trans {args : List Arg} {n1 n2 : Nat → Prop} {m m1 m2 : PInst}
    (S1 : StepSpec args n1 m m1) (S2 : StepSpec args n2 m1 m2) :
    StepSpec args (fun j => n1 j ∨ n2 j) m m2 := by
  refine ⟨S2.len.trans S1.len, fun j x hm hx => S2.mono j x (S1.mono j x hm hx) hx, fun j x hm => ?_,
    fun j hn => ?_⟩
  · rcases S2.only j x hm with h | ⟨hx, hn⟩
    · rcases S1.only j x h with h | ⟨hx, hn⟩
      · exact Or.inl h
      · exact Or.inr ⟨hx, Or.inl hn⟩
    · exact Or.inr ⟨hx, Or.inr hn⟩
  · rcases hn with hn | hn
    · obtain ⟨x, hx, hm⟩ := S1.covers j hn
      exact ⟨x, hx, S2.mono j x hm hx⟩
    · exact S2.covers j hn

theorem StepSpec.congr {args : List Arg} {n n' : Nat → Prop} {m m' : PInst}
    (h : ∀ j, n j ↔ n' j) (S : StepSpec args n m m') : StepSpec args n' m m' :=
  ⟨S.len, S.mono, fun j x hm => (S.only j x hm).imp id (fun ⟨a, b⟩ => ⟨a, (h j).mp b⟩),
    fun j hn => S.covers j ((h j).mpr hn)⟩

theorem markVars_StepSpec (args : List Arg) (js : List Nat) (m m' : PInst)
    (h : markVars args js m = some m') : StepSpec args (· ∈ js) m m' := by
  obtain ⟨l, c, o⟩ := markVars_spec args js m m' h
  refine ⟨l, fun j x hm hx => ?_, fun j x hm => ?_, fun j hj => c j hj⟩
  · by_cases hj : j ∈ js
    · obtain ⟨y, hy, hm'⟩ := c j hj
      rw [hm']; simp_all
    · rw [o j hj]; exact hm
  · by_cases hj : j ∈ js
    · obtain ⟨y, hy, hm'⟩ := c j hj
      rw [hm'] at hm
      simp only [Option.some.injEq] at hm
      subst hm
      exact Or.inr ⟨hy, hj⟩
    · exact Or.inl (o j hj ▸ hm)

theorem setAt_StepSpec (args : List Arg) (idx : Nat) (a : Arg) (m m' : PInst)
    (ha : args[idx]? = some a) (h : setAt? m idx (some a) = some m') : StepSpec args (· = idx) m m' := by
  obtain ⟨l, _, g⟩ := setAt?_spec m idx (some a) m' h
  refine ⟨l, fun j x hm hx => ?_, fun j x hm => ?_, fun j hj => ?_⟩
  · rw [g j]
    by_cases hji : j = idx
    · subst hji; simp_all
    · simp only [hji, ↓reduceIte]; exact hm
  · rw [g j] at hm
    by_cases hji : j = idx
    · subst hji
      simp only [↓reduceIte, Option.some.injEq] at hm
      subst hm
      exact Or.inr ⟨ha, rfl⟩
    · simp only [hji, ↓reduceIte] at hm
      exact Or.inl hm
  · subst hj
    exact ⟨a, ha, by rw [g j]; simp⟩

theorem monoStep_spec (args : List Arg) (m m' : PInst) (p : Param) (a : Arg)
    (ha : args[paramIdx p]? = some a) (h : monoStep args m p a = some m') :
    StepSpec args (StepNeed args p) m m' := by
  cases p with
  | ty i n c d =>
    simp only [monoStep, Option.some.injEq] at h
    subst h
    exact (StepSpec.refl args m).congr (fun j => by simp [StepNeed])
  | const idx n ty f =>
    simp only [paramIdx] at ha
    simp only [monoStep] at h
    cases h1 : instTy (full args) false ty with
    | none => simp [h1] at h
    | some ty' =>
      simp only [h1, Option.bind_eq_bind, Option.bind_some] at h
      have need_iff : ∀ j, StepNeed args (.const idx n ty f) j ↔
          ((isNat ty = false ∧ j ∈ tyBV ty) ∨ (j = idx ∧ isNat ty' = false)) := by
        intro j
        simp only [StepNeed, h1, Option.some.injEq, exists_eq_left']
      cases hn : isNat ty with
      | true =>
        cases hn' : isNat ty' with
        | true =>
          simp only [hn, hn', Bool.not_true, Bool.false_eq_true, ↓reduceIte,
            Option.some.injEq] at h
          subst h
          exact (StepSpec.refl args m).congr (fun j => by simp [need_iff, hn, hn'])
        | false =>
          simp only [hn, hn', Bool.not_true, Bool.not_false, Bool.false_eq_true, ↓reduceIte] at h
          exact (setAt_StepSpec args idx a m m' ha h).congr (fun j => by simp [need_iff, hn, hn'])
      | false =>
        simp only [hn, Bool.not_false, ↓reduceIte] at h
        cases h2 : markVars args (tyBV ty) m with
        | none => simp [h2] at h
        | some m1 =>
          simp only [h2, Option.bind_some] at h
          have S1 := markVars_StepSpec args _ m m1 h2
          cases hn' : isNat ty' with
          | true =>
            simp only [hn', Bool.not_true, Bool.false_eq_true, ↓reduceIte, Option.some.injEq] at h
            subst h
            exact S1.congr (fun j => by simp [need_iff, hn, hn'])
          | false =>
            simp only [hn', Bool.not_false, ↓reduceIte] at h
            exact (S1.trans (setAt_StepSpec args idx a m1 m' ha h)).congr
              (fun j => by simp [need_iff, hn, hn'])

/-- parameters and (positional) arguments are aligned with the indices the parameters carry -/
def Aligned (args : List Arg) : List Param → List Arg → Prop
  | p :: ps, a :: as => args[paramIdx p]? = some a ∧ Aligned args ps as
  | _, _ => True

theorem monoLoop_spec (args : List Arg) : ∀ (ps : List Param) (as : List Arg) (m m' : PInst),
    Aligned args ps as → monoLoop args ps as m = some m' →
    StepSpec args (fun j => ∃ p, p ∈ ps ∧ StepNeed args p j) m m'
  | [], [], m, m', _, h => by
    simp only [monoLoop, Option.some.injEq] at h
    subst h
    exact (StepSpec.refl args m).congr (fun j => by simp)
  | [], _ :: _, _, _, _, h => by simp [monoLoop] at h
  | _ :: _, [], _, _, _, h => by simp [monoLoop] at h
  | p :: ps, a :: as, m, m', hal, h => by
    simp only [monoLoop] at h
    cases h1 : monoStep args m p a with
    | none => simp [h1] at h
    | some m1 =>
      simp only [h1, Option.bind_eq_bind, Option.bind_some] at h
      have S1 := monoStep_spec args m m1 p a hal.1 h1
      have S2 := monoLoop_spec args ps as m1 m' hal.2 h
      refine (S1.trans S2).congr (fun j => ?_)
      constructor
      · rintro (h | ⟨q, hq, h⟩)
        · exact ⟨p, by simp, h⟩
        · exact ⟨q, by simp [hq], h⟩
      · rintro ⟨q, hq, h⟩
        simp only [List.mem_cons] at hq
        rcases hq with rfl | hq
        · exact Or.inl h
        · exact Or.inr ⟨q, hq, h⟩

theorem aligned_of_idxOk (args : List Arg) : ∀ (ps : List Param) (k : Nat), paramIdxOk k ps = true →
    Aligned args ps (args.drop k)
  | [], _, _ => by cases h : args.drop _ <;> simp [Aligned]
  | p :: ps, k, h => by
    cases hd : args.drop k with
    | nil => simp [Aligned]
    | cons a as =>
      have hk : paramIdx p = k ∧ paramIdxOk (k + 1) ps = true := by
        cases p <;> simpa [paramIdxOk, paramIdx] using h
      have ha : args[k]? = some a := by
        have := congrArg (·[0]?) hd
        simpa [List.getElem?_drop] using this
      have has : args.drop (k + 1) = as := by
        have := congrArg List.tail hd
        simpa [List.tail_drop] using this
      refine ⟨by rw [hk.1]; exact ha, ?_⟩
      rw [← has]
      exact aligned_of_idxOk args ps (k + 1) hk.2

theorem monoStep_len (args : List Arg) (m m' : PInst) (p : Param) (a : Arg)
    (h : monoStep args m p a = some m') : m'.length = m.length := by
  cases p with
  | ty i n c d => simp only [monoStep, Option.some.injEq] at h; subst h; rfl
  | const idx n ty f =>
    simp only [monoStep] at h
    cases h1 : instTy (full args) false ty with
    | none => simp [h1] at h
    | some ty' =>
      simp only [h1, Option.bind_eq_bind, Option.bind_some] at h
      cases hn : isNat ty with
      | true =>
        cases hn' : isNat ty' with
        | true =>
          simp only [hn, hn', Bool.not_true, Bool.false_eq_true, ↓reduceIte, Option.some.injEq] at h
          subst h; rfl
        | false =>
          simp only [hn, hn', Bool.not_true, Bool.not_false, Bool.false_eq_true, ↓reduceIte] at h
          exact (setAt?_spec m idx (some a) m' h).1
      | false =>
        simp only [hn, Bool.not_false, ↓reduceIte] at h
        cases h2 : markVars args (tyBV ty) m with
        | none => simp [h2] at h
        | some m1 =>
          simp only [h2, Option.bind_some] at h
          have l1 := (markVars_spec args _ m m1 h2).1
          cases hn' : isNat ty' with
          | true =>
            simp only [hn', Bool.not_true, Bool.false_eq_true, ↓reduceIte, Option.some.injEq] at h
            subst h; exact l1
          | false =>
            simp only [hn', Bool.not_false, ↓reduceIte] at h
            exact ((setAt?_spec m1 idx (some a) m' h).1).trans l1

theorem monoLoop_len (args : List Arg) : ∀ (ps : List Param) (as : List Arg) (m m' : PInst),
    monoLoop args ps as m = some m' → m'.length = m.length
  | [], [], m, m', h => by simp only [monoLoop, Option.some.injEq] at h; subst h; rfl
  | [], _ :: _, _, _, h => by simp [monoLoop] at h
  | _ :: _, [], _, _, h => by simp [monoLoop] at h
  | p :: ps, a :: as, m, m', h => by
    simp only [monoLoop] at h
    cases h1 : monoStep args m p a with
    | none => simp [h1] at h
    | some m1 =>
      simp only [h1, Option.bind_eq_bind, Option.bind_some] at h
      exact (monoLoop_len args ps as m1 m' h).trans (monoStep_len args m m1 p a h1)

theorem isNat_iff (t : Ty) : isNat t = true ↔ t = natTy := by
  cases t with
  | num k => cases k <;> simp [isNat, natTy]
  | _ => simp [isNat, natTy]

theorem isNat_false_iff (t : Ty) : isNat t = false ↔ t ≠ natTy := by
  constructor
  · intro h he
    rw [(isNat_iff t).mpr he] at h
    cases h
  · intro h
    cases hh : isNat t with
    | false => rfl
    | true => exact absurd ((isNat_iff t).mp hh) h

/-! ## `require_monomorphization` -/

theorem lookupAll_spec (params : List Param) : ∀ (js : List Nat) (r : List Param),
    lookupAll params js = some r → ∀ p, p ∈ r ↔ ∃ j, j ∈ js ∧ params[j]? = some p
  | [], r, h => by simp only [lookupAll, Option.some.injEq] at h; subst h; simp
  | j :: js, r, h => by
    simp only [lookupAll] at h
    cases h1 : params[j]? with
    | none => simp [h1] at h
    | some q =>
      cases h2 : lookupAll params js with
      | none => simp [h1, h2] at h
      | some r' =>
        simp only [h1, h2, Option.bind_eq_bind, Option.bind_some, Option.some.injEq] at h
        subst h
        intro p
        simp only [List.mem_cons, lookupAll_spec params js r' h2 p]
        constructor
        · rintro (rfl | ⟨j', hj, hp⟩)
          · exact ⟨j, Or.inl rfl, h1⟩
          · exact ⟨j', Or.inr hj, hp⟩
        · rintro ⟨j', rfl | hj, hp⟩
          · rw [h1] at hp; cases hp; exact Or.inl rfl
          · exact Or.inr ⟨j', hj, hp⟩

/-- what `require_monomorphization` selects because of the const parameter `q` -/
def Selects (params : List Param) : Param → Param → Prop
  | .const i n ty f, p =>
      ty ≠ natTy ∧ (p = .const i n ty f ∨ ∃ j, OccTy j ty ∧ params[j]? = some p)
  | .ty _ _ _ _, _ => False

theorem requireStep_spec (params : List Param) (q : Param) (r : List Param)
    (h : requireStep params q = some r) : ∀ p, p ∈ r ↔ Selects params q p := by
  cases q with
  | ty i n c d => simp only [requireStep, Option.some.injEq] at h; subst h; simp [Selects]
  | const i n ty f =>
    simp only [requireStep] at h
    cases hn : isNat ty with
    | true =>
      simp only [hn, ↓reduceIte, Option.some.injEq] at h
      subst h
      intro p
      simp [Selects, (isNat_iff ty).mp hn]
    | false =>
      simp only [hn, Bool.false_eq_true, ↓reduceIte] at h
      obtain ⟨deps, h1, h2⟩ := bind_some_eq h
      subst h2
      intro p
      simp only [List.mem_cons, lookupAll_spec params _ deps h1 p, Selects, ne_eq,
        (isNat_false_iff ty).mp hn, not_false_eq_true, true_and, occ_ty]

theorem requireLoop_spec (params : List Param) : ∀ (qs : List Param) (r : List Param),
    requireLoop params qs = some r → ∀ p, p ∈ r ↔ ∃ q, q ∈ qs ∧ Selects params q p
  | [], r, h => by simp only [requireLoop, Option.some.injEq] at h; subst h; simp
  | q :: qs, r, h => by
    simp only [requireLoop] at h
    cases h1 : requireStep params q with
    | none => simp [h1] at h
    | some a =>
      cases h2 : requireLoop params qs with
      | none => simp [h1, h2] at h
      | some r' =>
        simp only [h1, h2, Option.bind_eq_bind, Option.bind_some, Option.some.injEq] at h
        subst h
        intro p
        simp only [List.mem_append, requireStep_spec params q a h1 p, requireLoop_spec params qs r' h2 p,
          List.mem_cons]
        constructor
        · rintro (h | ⟨q', hq, h⟩)
          · exact ⟨q, Or.inl rfl, h⟩
          · exact ⟨q', Or.inr hq, h⟩
        · rintro ⟨q', rfl | hq, h⟩
          · exact Or.inl h
          · exact Or.inr ⟨q', hq, h⟩

end GuppyVerif.Instantiate
