import GuppyVerif.Lemmas.C14Misc
/-! Substitution lemma for `toHugrE`: lowering the definition's field types under the environment of the
    arguments equals lowering the instantiated field types (what Python does with `StructType.fields`). -/
namespace GuppyVerif.CopyDrop
open GuppyVerif

/-- what `toHugrE` needs to know about one argument of an opaque type -/
inductive ArgData where
  | ty (h : Option HTy) (row : Option (List HTy)) (lin : Bool)
  | const (a : Option HArg)

def argData (D : List OpaqueDef) (ρ : List EnvE) : Arg → ArgData
  | .ty t => .ty (toHugrE D ρ t) (rowOf ρ t (toHugrE D ρ t))
      (!flagE D .copy (flagEnv .copy ρ) t && !flagE D .drop (flagEnv .drop ρ) t)
  | .const c => .const (constArgE ρ c)

def opaqueEval (D : List OpaqueDef) (n : String) (xs : List ArgData) : Option HTy :=
  match lookup D n with
  | none => none
  | some d =>
    match d.shape, xs with
    | .static h, [] => some h
    | .listOpt e r, [.ty ht _ lin] => do
        let h ← ht
        some (.ext e r [.ty (if lin then optionOf h else h)])
    | .array e r, [.ty ht _ _, .const c] => do
        let h ← ht
        let a ← c
        some (.ext e r [a, .ty h])
    | .staticArray e r, [.ty ht _ _, .const _] => do
        let h ← ht
        if typeBound h = .copyable then some (.ext e r [.ty h]) else none
    | .underlying, [.ty ht _ _, .const _] => ht
    | .option, [.ty ht _ _] => do some (optionOf (← ht))
    | .either, [.ty _ lr _, .ty _ rr _] => do
        let ls ← lr
        let rs ← rr
        some (.sum [.mk ls, .mk rs])
    | .ext1 e r, [.ty ht _ _] => do some (.ext e r [.ty (← ht)])
    | _, _ => none

theorem toHugrE_opaque_eq (D : List OpaqueDef) (ρ : List EnvE) (n : String) (as : List Arg) :
    toHugrE D ρ (.opaque n as) = opaqueEval D n (as.map (argData D ρ)) := by
  unfold opaqueEval
  cases hl : lookup D n with
  | none => simp [toHugrE, hl]
  | some d =>
    simp only [toHugrE, hl]
    cases hs : d.shape <;>
    rcases as with _ | ⟨a, _ | ⟨b, _ | ⟨c, r⟩⟩⟩ <;>
    (try cases a) <;> (try cases b) <;> simp [argData]

theorem envArgs_length (D : List OpaqueDef) (ρ : List EnvE) :
    ∀ as : List Arg, (envArgs D ρ as).length = as.length
  | [] => by simp [envArgs]
  | .ty t :: r => by simp [envArgs, envArgs_length D ρ r]
  | .const c :: r => by simp [envArgs, envArgs_length D ρ r]

theorem envArgs_get_ty (D : List OpaqueDef) (ρ : List EnvE) :
    ∀ (as : List Arg) (i : Nat) (t : Ty), as[i]? = some (.ty t) →
      (envArgs D ρ as)[i]? = some (.ty (flagE D .copy (flagEnv .copy ρ) t)
        (flagE D .drop (flagEnv .drop ρ) t) (toHugrE D ρ t) (rowOf ρ t (toHugrE D ρ t)))
  | [], i, t, h => by simp at h
  | .ty t0 :: r, 0, t, h => by simp at h; subst h; simp [envArgs]
  | .ty t0 :: r, i + 1, t, h => by simp at h; simp [envArgs, envArgs_get_ty D ρ r i t h]
  | .const c :: r, 0, t, h => by simp at h
  | .const c :: r, i + 1, t, h => by simp at h; simp [envArgs, envArgs_get_ty D ρ r i t h]

theorem envArgs_get_const (D : List OpaqueDef) (ρ : List EnvE) :
    ∀ (as : List Arg) (i : Nat) (c : Const), as[i]? = some (.const c) →
      (envArgs D ρ as)[i]? = some (.const (constArgE ρ c))
  | [], i, c, h => by simp at h
  | .const c0 :: r, 0, c, h => by simp at h; subst h; simp [envArgs]
  | .const c0 :: r, i + 1, c, h => by simp at h; simp [envArgs, envArgs_get_const D ρ r i c h]
  | .ty t :: r, 0, c, h => by simp at h
  | .ty t :: r, i + 1, c, h => by simp at h; simp [envArgs, envArgs_get_const D ρ r i c h]

/-- the flag environment of the extended environment is the extended flag environment -/
theorem flagEnv_envArgs (D : List OpaqueDef) (s : Sel) (ρ : List EnvE) :
    ∀ σ : List Arg, flagEnv s (envArgs D ρ σ) = flagEnvArgs D true s (flagEnv s ρ) σ
  | [] => by simp [flagEnv, envArgs, flagEnvArgs]
  | .ty t :: r => by
      have ih := flagEnv_envArgs D s ρ r
      simp only [flagEnv] at ih ⊢
      cases s <;> simp [envArgs, flagEnvArgs, EnvE.flag, selFlag, ih, flagEnv]
  | .const c :: r => by
      have ih := flagEnv_envArgs D s ρ r
      simp only [flagEnv] at ih ⊢
      simp [envArgs, flagEnvArgs, EnvE.flag, ih]

theorem flagEnv_append (D : List OpaqueDef) (s : Sel) (ρ : List EnvE) (σ : List Arg) :
    flagEnv s (envArgs D ρ σ ++ ρ) = flagEnvArgs D true s (flagEnv s ρ) σ ++ flagEnv s ρ := by
  have := flagEnv_envArgs D s ρ σ
  simp only [flagEnv, List.map_append] at this ⊢
  rw [this]

/-- the linearity test of `_list_to_hugr` commutes with instantiation -/
theorem lin_subst (D : List OpaqueDef) (ρ : List EnvE) (σ : List Arg) (t t' : Ty)
    (h : Ty.inst σ t = some t') (s : Sel) :
    flagE D s (flagEnv s ρ) t' = flagE D s (flagEnv s (envArgs D ρ σ ++ ρ)) t := by
  rw [flagEnv_append]
  exact flagG_subst D true s t σ (flagEnv s ρ) t' h

theorem instConst_cases {σ : List Arg} {c c' : Const} (h : Const.inst σ c = some c') :
    (∃ t v, c = .val t v ∧ c' = .val t v) ∨
    (∃ t n i, c = .bvar t n i ∧ i < σ.length ∧ σ[i]? = some (.const c')) ∨
    (∃ t n i, c = .bvar t n i ∧ ¬ i < σ.length ∧ c' = .bvar t n (i - σ.length)) ∨
    (∃ t t' n i, c = .evar t n i ∧ c' = .evar t' n i) := by
  cases c with
  | val t v => simp [Const.inst] at h; exact Or.inl ⟨t, v, rfl, h.symm⟩
  | bvar t n i =>
    simp only [Const.inst] at h
    split at h
    · rename_i hlt
      split at h
      · rename_i c0 heq; simp at h; subst h; exact Or.inr (Or.inl ⟨t, n, i, rfl, hlt, heq⟩)
      · simp at h
    · rename_i hge
      simp at h
      exact Or.inr (Or.inr (Or.inl ⟨t, n, i, rfl, hge, h.symm⟩))
  | evar t n i =>
    simp only [Const.inst, Option.bind_eq_bind, Option.bind_eq_some_iff, Option.some.injEq] at h
    obtain ⟨t', _, rfl⟩ := h
    exact Or.inr (Or.inr (Or.inr ⟨t, t', n, i, rfl, rfl⟩))

theorem constArgE_subst (D : List OpaqueDef) (ρ : List EnvE) (σ : List Arg) (c c' : Const)
    (h : Const.inst σ c = some c') : constArgE ρ c' = constArgE (envArgs D ρ σ ++ ρ) c := by
  rcases instConst_cases h with ⟨t, v, rfl, rfl⟩ | ⟨t, n, i, rfl, hlt, hs⟩ | ⟨t, n, i, rfl, hge, rfl⟩ |
    ⟨t, t', n, i, rfl, rfl⟩
  · cases t <;> simp [constArgE]
    rename_i k; cases k <;> cases v <;> rfl
  · have hl : i < (envArgs D ρ σ).length := by rw [envArgs_length]; exact hlt
    simp only [constArgE, lookup_append_lt _ _ _ hl, envArgs_get_const D ρ σ i c' hs]
  · have hl : ¬ i < (envArgs D ρ σ).length := by rw [envArgs_length]; exact hge
    simp only [constArgE, lookup_append_ge _ _ _ hl, envArgs_length, List.length_append, Nat.sub_sub]
  · simp [constArgE]

mutual
theorem toHugrE_subst (D : List OpaqueDef) :
    ∀ (t : Ty) (σ : List Arg) (ρ : List EnvE) (t' : Ty), Ty.inst σ t = some t' →
      toHugrE D ρ t' = toHugrE D (envArgs D ρ σ ++ ρ) t ∧
      toRowE D ρ t' = toRowE D (envArgs D ρ σ ++ ρ) t
  | .num k, σ, ρ, t', h => by simp [Ty.inst] at h; subst h; simp [toHugrE, toRowE, rowOf]
  | .none p, σ, ρ, t', h => by simp [Ty.inst] at h; subst h; cases p <;> simp [toHugrE, toRowE, rowOf]
  | .evar n i c d, σ, ρ, t', h => by simp [Ty.inst] at h; subst h; simp [toHugrE, toRowE, rowOf]
  | .bvar n i c d, σ, ρ, t', h => by
      simp only [Ty.inst] at h
      rcases instVar_some h with ⟨hlt, hs⟩ | ⟨hge, rfl⟩
      · have hl : i < (envArgs D ρ σ).length := by rw [envArgs_length]; exact hlt
        simp only [toHugrE, toRowE, rowOf, varH, varRow, lookup_append_lt _ _ _ hl,
          envArgs_get_ty D ρ σ i t' hs]
        exact ⟨trivial, trivial⟩
      · have hl : ¬ i < (envArgs D ρ σ).length := by rw [envArgs_length]; exact hge
        simp only [toHugrE, toRowE, rowOf, varH, varRow, lookup_append_ge _ _ _ hl, envArgs_length,
          List.length_append, Nat.sub_sub]
        exact ⟨trivial, trivial⟩
  | .tuple ts p, σ, ρ, t', h => by
      simp only [Ty.inst, Option.bind_eq_bind] at h
      cases hts : Ty.instList σ ts with
      | none => simp [hts] at h
      | some ts' =>
        simp [hts] at h; subst h
        have e := toHugrEList_subst D ts σ ρ ts' hts
        have e1 : toHugrE D ρ (.tuple ts' p) = toHugrE D (envArgs D ρ σ ++ ρ) (.tuple ts p) := by
          simp only [toHugrE, e]
        refine ⟨e1, ?_⟩
        simp only [toRowE, e1]
        cases p <;> rfl
  | .func ins o ps cs, σ, ρ, t', h => by
      simp only [Ty.inst] at h
      split at h
      · rename_i hps
        cases h1 : FuncIn.instList σ ins <;> cases h2 : Ty.inst σ o <;> cases h3 : Const.instList σ cs <;>
          simp [h1, h2, h3] at h
        subst h
        rename_i ins' o' cs'
        have ei := funcIns_subst D ins σ ρ ins' h1
        have eo := (toHugrE_subst D o σ ρ o' h2).2
        simp only [toRowE] at eo
        have e1 : toHugrE D ρ (.func ins' o' [] cs') =
            toHugrE D (envArgs D ρ σ ++ ρ) (.func ins o ps cs) := by
          simp only [toHugrE, hps, ei.1, ei.2, eo, List.isEmpty_nil, if_true]
        refine ⟨e1, ?_⟩
        simp only [toRowE, e1]
        rfl
      · simp at h
  | .struct n as fs, σ, ρ, t', h => by
      simp only [Ty.inst, Option.bind_eq_bind] at h
      cases has : Arg.instList σ as with
      | none => simp [has] at h
      | some as' =>
        simp [has] at h; subst h
        have e := envArgs_subst D as σ ρ as' has
        have e1 : toHugrE D ρ (.struct n as' fs) = toHugrE D (envArgs D ρ σ ++ ρ) (.struct n as fs) := by
          simp only [toHugrE, e]
        refine ⟨e1, ?_⟩
        simp only [toRowE, e1]
        rfl
  | .opaque n as, σ, ρ, t', h => by
      simp only [Ty.inst, Option.bind_eq_bind] at h
      cases has : Arg.instList σ as with
      | none => simp [has] at h
      | some as' =>
        simp [has] at h; subst h
        have e := argData_subst D as σ ρ as' has
        have e1 : toHugrE D ρ (.opaque n as') = toHugrE D (envArgs D ρ σ ++ ρ) (.opaque n as) := by
          rw [toHugrE_opaque_eq, toHugrE_opaque_eq, e]
        refine ⟨e1, ?_⟩
        simp only [toRowE, e1]
        rfl
theorem toHugrEList_subst (D : List OpaqueDef) :
    ∀ (ts : List Ty) (σ : List Arg) (ρ : List EnvE) (ts' : List Ty), Ty.instList σ ts = some ts' →
      toHugrEList D ρ ts' = toHugrEList D (envArgs D ρ σ ++ ρ) ts
  | [], σ, ρ, ts', h => by simp [Ty.instList] at h; subst h; simp [toHugrEList]
  | t :: r, σ, ρ, ts', h => by
      simp only [Ty.instList, Option.bind_eq_bind] at h
      cases h1 : Ty.inst σ t <;> cases h2 : Ty.instList σ r <;> simp [h1, h2] at h
      subst h
      simp only [toHugrEList, (toHugrE_subst D t σ ρ _ h1).1, toHugrEList_subst D r σ ρ _ h2]
theorem funcIns_subst (D : List OpaqueDef) :
    ∀ (ins : List FuncIn) (σ : List Arg) (ρ : List EnvE) (ins' : List FuncIn),
      FuncIn.instList σ ins = some ins' →
      funcInsE D ρ ins' = funcInsE D (envArgs D ρ σ ++ ρ) ins ∧
      funcInoutsE D ρ ins' = funcInoutsE D (envArgs D ρ σ ++ ρ) ins
  | [], σ, ρ, ins', h => by simp [FuncIn.instList] at h; subst h; simp [funcInsE, funcInoutsE]
  | .mk t f :: r, σ, ρ, ins', h => by
      simp only [FuncIn.instList, FuncIn.inst, Option.bind_eq_bind] at h
      cases h1 : Ty.inst σ t <;> cases h2 : FuncIn.instList σ r <;> simp [h1, h2] at h
      subst h
      have e1 := (toHugrE_subst D t σ ρ _ h1).1
      have e2 := funcIns_subst D r σ ρ _ h2
      simp only [funcInsE, funcInoutsE, e1, e2.1, e2.2]
      exact ⟨trivial, trivial⟩
theorem envArgs_subst (D : List OpaqueDef) :
    ∀ (as : List Arg) (σ : List Arg) (ρ : List EnvE) (as' : List Arg), Arg.instList σ as = some as' →
      envArgs D ρ as' = envArgs D (envArgs D ρ σ ++ ρ) as
  | [], σ, ρ, as', h => by simp [Arg.instList] at h; subst h; simp [envArgs]
  | .ty t :: r, σ, ρ, as', h => by
      simp only [Arg.instList, Arg.inst, Option.bind_eq_bind] at h
      cases h1 : Ty.inst σ t <;> cases h2 : Arg.instList σ r <;> simp [h1, h2] at h
      subst h
      have e := toHugrE_subst D t σ ρ _ h1
      have e2 := e.2
      simp only [toRowE] at e2
      simp only [envArgs]
      rw [e2, e.1, lin_subst D ρ σ t _ h1 .copy, lin_subst D ρ σ t _ h1 .drop,
        envArgs_subst D r σ ρ _ h2]
  | .const c :: r, σ, ρ, as', h => by
      simp only [Arg.instList, Arg.inst, Option.bind_eq_bind] at h
      cases h1 : Const.inst σ c <;> cases h2 : Arg.instList σ r <;> simp [h1, h2] at h
      subst h
      simp only [envArgs, constArgE_subst D ρ σ c _ h1, envArgs_subst D r σ ρ _ h2]
theorem argData_subst (D : List OpaqueDef) :
    ∀ (as : List Arg) (σ : List Arg) (ρ : List EnvE) (as' : List Arg), Arg.instList σ as = some as' →
      as'.map (argData D ρ) = as.map (argData D (envArgs D ρ σ ++ ρ))
  | [], σ, ρ, as', h => by simp [Arg.instList] at h; subst h; simp
  | .ty t :: r, σ, ρ, as', h => by
      simp only [Arg.instList, Arg.inst, Option.bind_eq_bind] at h
      cases h1 : Ty.inst σ t <;> cases h2 : Arg.instList σ r <;> simp [h1, h2] at h
      subst h
      have e := toHugrE_subst D t σ ρ _ h1
      have e2 := e.2
      simp only [toRowE] at e2
      simp only [List.map_cons, argData]
      rw [e2, e.1, lin_subst D ρ σ t _ h1 .copy, lin_subst D ρ σ t _ h1 .drop,
        argData_subst D r σ ρ _ h2]
  | .const c :: r, σ, ρ, as', h => by
      simp only [Arg.instList, Arg.inst, Option.bind_eq_bind] at h
      cases h1 : Const.inst σ c <;> cases h2 : Arg.instList σ r <;> simp [h1, h2] at h
      subst h
      simp only [List.map_cons, argData, constArgE_subst D ρ σ c _ h1, argData_subst D r σ ρ _ h2]
end

end GuppyVerif.CopyDrop
