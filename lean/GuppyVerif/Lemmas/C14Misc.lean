import GuppyVerif.Lemmas.C14Closed
import GuppyVerif.Lemmas.C14Subst
/-! Flag-only lemmas: list forms, the no-phantom lemma, and `Type.hugr_bound`. -/
namespace GuppyVerif.CopyDrop
open GuppyVerif

theorem mem_typeArgs {as : List Arg} {t : Ty} : t ∈ typeArgs as ↔ Arg.ty t ∈ as := by
  induction as with
  | nil => simp [typeArgs]
  | cons a r ih => cases a <;> simp [typeArgs, ih]

theorem flagGList_eq_all (D : List OpaqueDef) (u : Bool) (s : Sel) (ρ : List Bool) (ts : List Ty) :
    flagGList D u s ρ ts = ts.all (flagG D u s ρ) := by
  induction ts with
  | nil => simp [flagGList]
  | cons t r ih => simp [flagGList, ih]

theorem flagGArgs_eq_all (D : List OpaqueDef) (u : Bool) (s : Sel) (ρ : List Bool) (as : List Arg) :
    flagGArgs D u s ρ as = (typeArgs as).all (flagG D u s ρ) := by
  induction as with
  | nil => simp [flagGArgs, typeArgs]
  | cons a r ih => cases a <;> simp [flagGArgs, typeArgs, ih]

/-! ### no phantom parameters ⇒ counting struct type arguments makes no difference -/
mutual
theorem np_flag (D : List OpaqueDef) (s : Sel) :
    ∀ (t : Ty) (ρ : List Bool), npE D s ρ t = true → flagG D true s ρ t = flagG D false s ρ t
  | .num _, _, _ => by simp [flagG]
  | .none _, _, _ => by simp [flagG]
  | .bvar _ _ _ _, _, _ => by simp [flagG]
  | .evar _ _ _ _, _, _ => by simp [flagG]
  | .func _ _ _ _, _, _ => by simp [flagG]
  | .tuple ts p, ρ, h => by
      simp only [npE] at h
      simp only [flagG]
      exact np_flagList D s ts ρ h
  | .opaque n as, ρ, h => by
      simp only [npE] at h
      simp only [flagG]
      rw [(np_flagArgs D s as ρ h).1]
  | .struct n as fs, ρ, h => by
      simp only [npE, Bool.and_eq_true, Bool.or_eq_true, Bool.not_eq_true'] at h
      obtain ⟨⟨h1, h2⟩, h3⟩ := h
      have ea := np_flagArgs D s as ρ h3
      have ef := np_flagList D s fs (flagEnvArgs D true s ρ as) h2
      simp only [flagG]
      rw [← ea.2, ← ef]
      rcases h1 with h1 | h1
      · simp [h1]
      · simp [h1]
theorem np_flagList (D : List OpaqueDef) (s : Sel) :
    ∀ (ts : List Ty) (ρ : List Bool), npEList D s ρ ts = true →
      flagGList D true s ρ ts = flagGList D false s ρ ts
  | [], _, _ => by simp [flagGList]
  | t :: r, ρ, h => by
      simp only [npEList, Bool.and_eq_true] at h
      simp only [flagGList]
      rw [np_flag D s t ρ h.1, np_flagList D s r ρ h.2]
theorem np_flagArgs (D : List OpaqueDef) (s : Sel) :
    ∀ (as : List Arg) (ρ : List Bool), npEArgs D s ρ as = true →
      flagGArgs D true s ρ as = flagGArgs D false s ρ as ∧
      flagEnvArgs D true s ρ as = flagEnvArgs D false s ρ as
  | [], _, _ => by simp [flagGArgs, flagEnvArgs]
  | .ty t :: r, ρ, h => by
      simp only [npEArgs, Bool.and_eq_true] at h
      simp only [flagGArgs, flagEnvArgs]
      rw [np_flag D s t ρ h.1, (np_flagArgs D s r ρ h.2).1, (np_flagArgs D s r ρ h.2).2]
      exact ⟨rfl, rfl⟩
  | .const c :: r, ρ, h => by
      simp only [npEArgs] at h
      simp only [flagGArgs, flagEnvArgs]
      rw [(np_flagArgs D s r ρ h).1, (np_flagArgs D s r ρ h).2]
      exact ⟨rfl, rfl⟩
end

/-! ### `Type.hugr_bound` -/
theorem joinAll_eq_copyable (x : HBound) (bs : List HBound) :
    joinAll x bs = .copyable ↔ x = .copyable ∧ ∀ b ∈ bs, b = .copyable := by
  unfold joinAll
  induction bs generalizing x with
  | nil => simp
  | cons b r ih =>
    simp only [List.foldl_cons, ih, join_eq_copyable, List.mem_cons, forall_eq_or_imp]
    constructor
    · rintro ⟨⟨h1, h2⟩, h3⟩; exact ⟨h1, h2, h3⟩
    · rintro ⟨h1, h2, h3⟩; exact ⟨⟨h1, h2⟩, h3⟩

theorem flagB_eq_copyable (c : Bool) : flagB c = .copyable ↔ c = true := by
  cases c <;> simp [flagB]

mutual
theorem hb_ty (D : List OpaqueDef) (aff : List String) (hT : TableOk aff D) :
    ∀ (t : Ty) (b : HBound), known D t = true → hugrBound D t = some b →
      (b = .copyable ↔ copyable D t = true)
  | .num _, b, _, h => by simp [hugrBound] at h; subst h; simp [copyable, flagG]
  | .none _, b, _, h => by simp [hugrBound] at h; subst h; simp [copyable, flagG]
  | .func _ _ _ _, b, _, h => by simp [hugrBound] at h; subst h; simp [copyable, flagG]
  | .bvar _ _ c _, b, _, h => by
      simp [hugrBound] at h; subst h
      simp [copyable, flagG, selFlag, flagB_eq_copyable]
  | .evar _ _ _ _, b, _, h => by simp [hugrBound] at h
  | .tuple ts p, b, hk, h => by
      simp only [hugrBound, Option.bind_eq_bind, Option.bind_eq_some_iff, Option.some.injEq] at h
      obtain ⟨bs, hbs, rfl⟩ := h
      simp only [known] at hk
      rw [joinAll_eq_copyable, flagB_eq_copyable]
      constructor
      · exact fun h => h.1
      · intro hc
        refine ⟨hc, hb_list D aff hT ts bs hk hbs ?_⟩
        simpa [copyable, flagG] using hc
  | .struct n as fs, b, hk, h => by
      simp only [hugrBound, Option.bind_eq_bind, Option.bind_eq_some_iff, Option.some.injEq] at h
      obtain ⟨bs, hbs, rfl⟩ := h
      simp only [known, Bool.and_eq_true] at hk
      rw [joinAll_eq_copyable, flagB_eq_copyable]
      constructor
      · exact fun h => h.1
      · intro hc
        refine ⟨hc, hb_args D aff hT as bs hk.1 hbs ?_⟩
        have : copyable D (.struct n as fs) = true := hc
        simp only [copyable, flagG, Bool.and_eq_true, Bool.not_true, Bool.false_or] at this
        exact this.2
  | .opaque n as, b, hk, h => by
      simp only [known, Bool.and_eq_true] at hk
      obtain ⟨hk1, hk2⟩ := hk
      cases hl : lookup D n with
      | none => simp [hl] at hk1
      | some d =>
        have hrow := hT d (lookup_mem hl)
        simp only [hl, beq_iff_eq] at hk1
        cases hdb : d.bound with
        | some b0 =>
          simp only [hugrBound, hl, Option.bind_some, hdb] at h
          simp at h; subst h
          simp only [rowOk, hdb, Bool.and_eq_true, List.isEmpty_iff, beq_iff_eq] at hrow
          obtain ⟨⟨hp, hbc⟩, _⟩ := hrow
          rw [hp] at hk1
          simp at hk1; subst hk1
          simp only [copyable, flagG, intrinsic, hl, OpaqueDef.never, flagGArgs, Bool.and_true]
          rw [← hbc, isCopyable_iff]
        | none =>
          simp only [hugrBound, hl, Option.bind_some, hdb, Option.bind_eq_bind,
            Option.bind_eq_some_iff, Option.some.injEq] at h
          obtain ⟨bs, hbs, rfl⟩ := h
          rw [joinAll_eq_copyable, flagB_eq_copyable]
          constructor
          · exact fun h => h.1
          · intro hc
            refine ⟨hc, hb_args D aff hT as bs hk2 hbs ?_⟩
            have : copyable D (.opaque n as) = true := hc
            simp only [copyable, flagG, Bool.and_eq_true] at this
            exact this.2
theorem hb_list (D : List OpaqueDef) (aff : List String) (hT : TableOk aff D) :
    ∀ (ts : List Ty) (bs : List HBound), knownList D ts = true → hugrBoundList D ts = some bs →
      flagGList D true .copy [] ts = true → ∀ b ∈ bs, b = .copyable
  | [], bs, _, h, _ => by simp [hugrBoundList] at h; subst h; simp
  | t :: r, bs, hk, h, hc => by
      simp only [hugrBoundList, Option.bind_eq_bind, Option.bind_eq_some_iff, Option.some.injEq] at h
      obtain ⟨b, hb, bs', hbs, rfl⟩ := h
      simp only [knownList, Bool.and_eq_true] at hk
      simp only [flagGList, Bool.and_eq_true] at hc
      intro x hx
      simp only [List.mem_cons] at hx
      rcases hx with rfl | hx
      · exact (hb_ty D aff hT t x hk.1 hb).mpr hc.1
      · exact hb_list D aff hT r bs' hk.2 hbs hc.2 x hx
theorem hb_args (D : List OpaqueDef) (aff : List String) (hT : TableOk aff D) :
    ∀ (as : List Arg) (bs : List HBound), knownArgs D as = true → hugrBoundArgs D as = some bs →
      flagGArgs D true .copy [] as = true → ∀ b ∈ bs, b = .copyable
  | [], bs, _, h, _ => by simp [hugrBoundArgs] at h; subst h; simp
  | .ty t :: r, bs, hk, h, hc => by
      simp only [hugrBoundArgs, Option.bind_eq_bind, Option.bind_eq_some_iff, Option.some.injEq] at h
      obtain ⟨b, hb, bs', hbs, rfl⟩ := h
      simp only [knownArgs, Bool.and_eq_true] at hk
      simp only [flagGArgs, Bool.and_eq_true] at hc
      intro x hx
      simp only [List.mem_cons] at hx
      rcases hx with rfl | hx
      · exact (hb_ty D aff hT t x hk.1 hb).mpr hc.1
      · exact hb_args D aff hT r bs' hk.2 hbs hc.2 x hx
  | .const c :: r, bs, hk, h, hc => by
      simp only [hugrBoundArgs] at h
      simp only [knownArgs] at hk
      simp only [flagGArgs] at hc
      exact hb_args D aff hT r bs hk h hc
end

end GuppyVerif.CopyDrop
