import GuppyVerif.Lemmas.C01StoreGet
/-! Zooming: `setitem` / `getitem` on a *sub-place* of a place in a `Good` state. -/
namespace GuppyVerif.DFWiring

theorem GoodList.get {n : Nat} {L : Locals} {env : Env} {p : PlaceId} :
    ∀ (ts : List Ty) (i : Nat) (ps : List PVal) (j : Nat) (tj : Ty),
      GoodList n L env p i ts ps → i ≤ j → ts[j - i]? = some tj →
      ∃ pj, ps[j - i]? = some pj ∧ Good n L env (j :: p) tj pj
  | [], _, [], _, _, _, _, h => by simp at h
  | t :: ts, i, q :: qs, j, tj, hh, hj, h => by
    simp only [GoodList] at hh
    by_cases hji : j = i
    · subst hji
      simp only [Nat.sub_self, List.getElem?_cons_zero, Option.some.injEq] at h
      subst h
      exact ⟨q, by simp, hh.1⟩
    · obtain ⟨pj, h1, h2⟩ := GoodList.get ts (i + 1) qs j tj hh.2 (by omega)
        (by rw [← getElem?_shift t ts (by omega)]; exact h)
      exact ⟨pj, by rw [getElem?_shift q qs (by omega)]; exact h1, h2⟩
  | [], _, _ :: _, _, _, h, _, _ => by simp [GoodList] at h
  | _ :: _, _, [], _, _, h, _, _ => by simp [GoodList] at h

/-- replace the reference value of child `j`, transport the others -/
theorem GoodList.update {n n' : Nat} {L L' : Locals} {env env' : Env} {p : PlaceId} (g : PVal → PVal)
    (j : Nat) : ∀ (ts : List Ty) (i : Nat) (ps : List PVal), i ≤ j →
      (∀ k tk pk, i ≤ k → k ≠ j → ts[k - i]? = some tk → ps[k - i]? = some pk →
        Good n L env (k :: p) tk pk → Good n' L' env' (k :: p) tk pk) →
      (∀ tj pj, ts[j - i]? = some tj → ps[j - i]? = some pj →
        Good n L env (j :: p) tj pj → Good n' L' env' (j :: p) tj (g pj)) →
      GoodList n L env p i ts ps → GoodList n' L' env' p i ts (ps.modify (j - i) g)
  | [], _, [], _, _, _, _ => by simp [GoodList]
  | t :: ts, i, q :: qs, hij, ho, hj, h => by
    simp only [GoodList] at h
    by_cases hji : j = i
    · subst hji
      simp only [Nat.sub_self, List.modify_zero_cons, GoodList]
      refine ⟨hj t q (by simp) (by simp) h.1, ?_⟩
      exact GoodList.map ts (j + 1) qs (fun k tk pk hk h1 h2 =>
        ho k tk pk (by omega) (by omega) (by rw [getElem?_shift t ts hk]; exact h1)
          (by rw [getElem?_shift q qs hk]; exact h2)) h.2
    · have hj' : i + 1 ≤ j := by omega
      rw [show j - i = (j - (i + 1)) + 1 by omega, List.modify_succ_cons]
      simp only [GoodList]
      refine ⟨ho i t q (Nat.le_refl i) (by omega) (by simp) (by simp) h.1, ?_⟩
      exact GoodList.update g j ts (i + 1) qs hj'
        (fun k tk pk hk hne h1 h2 => ho k tk pk (by omega) hne
          (by rw [getElem?_shift t ts hk]; exact h1) (by rw [getElem?_shift q qs hk]; exact h2))
        (fun tj pj h1 h2 => hj tj pj (by rw [getElem?_shift t ts hj']; exact h1)
          (by rw [getElem?_shift q qs hj']; exact h2)) h.2
  | [], _, _ :: _, _, _, _, h => by simp [GoodList] at h
  | _ :: _, _, [], _, _, _, h => by simp [GoodList] at h

theorem mem_enclosing_append : ∀ (a : List Nat) (r : PlaceId), a ≠ [] → r ≠ [] →
    r ∈ enclosing (a ++ r)
  | [], _, h, _ => absurd rfl h
  | [x], r0 :: rest, _, _ => by simp [enclosing]
  | x :: y :: a, r, _, hr => by
    have ih := mem_enclosing_append (y :: a) r (by simp) hr
    simp only [List.cons_append, enclosing, List.mem_cons] at ih ⊢
    exact Or.inr ih
  | [_], [], _, hr => absurd rfl hr

theorem mem_enclosing_sub {r : PlaceId} {s : List Nat} (hr : r ≠ []) (hs : s ≠ []) :
    r ∈ enclosing (sub r s) :=
  mem_enclosing_append s.reverse r (by simpa using hs) hr

/-- a place under a sibling `i ≠ j` is neither under nor enclosing any sub-place of child `j` -/
theorem sibling_disjoint {i j : Nat} {r q : PlaceId} {s : List Nat} (hij : i ≠ j)
    (hq : (i :: r) <:+ q) : ¬ sub (j :: r) s <:+ q ∧ q ∉ enclosing (sub (j :: r) s) := by
  constructor
  · intro h
    exact hij (under_child_inj hq ((under_sub (j :: r) s).trans h))
  · intro h
    have hsuf := (mem_enclosing h).1
    have hlen := hq.length_le
    have : (j :: r) <:+ q :=
      List.suffix_of_suffix_length_le (under_sub (j :: r) s) hsuf (by simpa using hlen)
    exact hij (under_child_inj hq this)

/-- `dfg[sub-place] = w` in a `Good` state: `Good` for the updated reference value -/
theorem setitem_good_sub : ∀ (s : List Nat) (T : Ty) (r : PlaceId) (pv : PVal) (L : Locals)
    (n : Nat) (env : Env) (t' : Ty) (w : Wire) (v : Val), r ≠ [] →
    Good n L env r T pv → T.at s = some t' → env w = some v → w.node < n → v.HasShape t' →
    n ≤ (setitem L n (sub r s) false w t').2.1 ∧
    ∃ env1, evalOps env (setitem L n (sub r s) false w t').2.2 = some env1 ∧
      (∀ x : Wire, x.node < n → env1 x = env x) ∧
      Good (setitem L n (sub r s) false w t').2.1 (setitem L n (sub r s) false w t').1 env1 r T
        (pv.modify (fun _ => embed t' v) s)
  | [], T, r, pv, L, n, env, t', w, v, _, _, hat, hw, hlt, hs => by
    have := at_nil hat; subst this
    obtain ⟨a1, _, env1, a3, a4, a5⟩ := setitem_post t' L n r w env v hw hlt hs
    simp only [sub, List.reverse_nil, List.nil_append, PVal.modify]
    exact ⟨a1, env1, a3, a5, Holds.good t' r v a4⟩
  | j :: s, .leaf _ _, _, _, _, _, _, _, _, _, _, _, hat, _, _, _ => by simp [Ty.at] at hat
  | j :: s, .node k cs, r, .tup ps, L, n, env, t', w, v, hr, hg, hat, hw, hlt, hs => by
    obtain ⟨tj, hj, hat'⟩ := at_node_cons hat
    simp only [Good] at hg
    obtain ⟨pj, hpj, hgj⟩ := GoodList.get cs 0 ps j tj hg.2 (Nat.zero_le j) (by simpa using hj)
    have ih := setitem_good_sub s tj (j :: r) pj L n env t' w v (by simp) hgj hat' hw hlt hs
    obtain ⟨f1, f2, _⟩ := setitem_post t' L n (sub (j :: r) s) w env v hw hlt hs
    rw [sub_cons]
    obtain ⟨i1, env1, i2, i3, i4⟩ := ih
    refine ⟨i1, env1, i2, i3, ?_⟩
    simp only [PVal.modify, Good]
    constructor
    · intro w' v' hw' _
      have := setitem_enclosing_none t' L n (sub (j :: r) s) w false r
        (by rw [← sub_cons]; exact mem_enclosing_sub hr (by simp))
      rw [this] at hw'; cases hw'
    · have := GoodList.update (fun q => PVal.modify (fun _ => embed t' v) q s) j cs 0 ps (Nat.zero_le j)
        (n' := (setitem L n (sub (j :: r) s) false w t').2.1)
        (L' := (setitem L n (sub (j :: r) s) false w t').1) (env' := env1)
        (fun k tk pk _ hne _ _ hgood =>
          Good.transport i1 i3 tk (k :: r) pk
            (fun q hq _ => f2 q (sibling_disjoint hne hq).1 (sibling_disjoint hne hq).2)
            (Or.inl (f2 _ (sibling_disjoint hne (List.suffix_refl _)).1
              (sibling_disjoint hne (List.suffix_refl _)).2)) hgood)
        (fun tj' pj' h1 h2 _ => by
          simp only [Nat.sub_zero] at h1 h2 hpj
          rw [hj] at h1; rw [hpj] at h2
          simp only [Option.some.injEq] at h1 h2
          subst h1; subst h2
          exact i4) hg.2
      simpa using this
  | _ :: _, .node _ _, _, .hole, _, _, _, _, _, _, _, hg, _, _, _, _ => by simp [Good] at hg
  | _ :: _, .node _ _, _, .val _, _, _, _, _, _, _, _, hg, _, _, _, _ => by simp [Good] at hg

theorem totals_modify : ∀ (ps : List PVal) (j : Nat) (g : PVal → PVal) (vs : List Val),
    (∀ q v, ps[j]? = some q → (g q).total = some v → q.total = some v) →
    PVal.totals (ps.modify j g) = some vs → PVal.totals ps = some vs
  | [], _, _, _, _, h => by simpa using h
  | q :: qs, 0, g, vs, hg, h => by
    simp only [List.modify_zero_cons] at h
    obtain ⟨v, vs', e, h1, h2⟩ := totals_cons h
    subst e
    simp only [PVal.totals, hg q v (by simp) h1, h2]
  | q :: qs, j + 1, g, vs, hg, h => by
    simp only [List.modify_succ_cons] at h
    obtain ⟨v, vs', e, h1, h2⟩ := totals_cons h
    subst e
    have := totals_modify qs j g vs' (fun q' v' hq' => hg q' v' (by simpa using hq')) h2
    simp only [PVal.totals, h1, this]

/-- a fully defined value after moving a sub-place out was the same before -/
theorem total_modify_moved : ∀ (s : List Nat) (T : Ty) (pv : PVal) (t' : Ty) (v : Val),
    T.at s = some t' → (pv.modify (moved t') s).total = some v → pv.total = some v
  | [], T, pv, t', v, hat, h => by
    have := at_nil hat; subst this
    exact total_moved t' pv v (by simpa [PVal.modify] using h)
  | _ :: _, .leaf _ _, _, _, _, hat, _ => by simp [Ty.at] at hat
  | j :: s, .node k cs, .tup ps, t', v, hat, h => by
    obtain ⟨tj, _, hat'⟩ := at_node_cons hat
    simp only [PVal.modify, PVal.total] at h ⊢
    cases hm : PVal.totals (ps.modify j fun q => PVal.modify (moved t') q s) with
    | none => simp [hm] at h
    | some vs =>
      rw [totals_modify ps j _ vs (fun q v' _ hq => total_modify_moved s tj q t' v' hat' hq) hm]
      simpa [hm] using h
  | _ :: _, .node _ _, .hole, _, _, _, h => by simpa [PVal.modify] using h
  | _ :: _, .node _ _, .val _, _, _, _, h => by simpa [PVal.modify] using h

/-- `dfg[sub-place]` in a `Good` state returns the reference value of the sub-place and leaves a
    `Good` state for the reference value with that sub-place moved out -/
theorem getitem_good_sub : ∀ (s : List Nat) (T : Ty) (r : PlaceId) (pv : PVal) (L : Locals)
    (n : Nat) (env : Env) (t' : Ty) (pv' : PVal) (v : Val),
    Good n L env r T pv → T.at s = some t' → pv.at s = some pv' → pv'.total = some v →
    ∃ w' L2 n2 ops, getitem L n (sub r s) t' = .ok (w', L2, n2, ops) ∧ n ≤ n2 ∧ w'.node < n2 ∧
      (∀ q, ¬ sub r s <:+ q → L2 q = L q) ∧
      ∃ env2, evalOps env ops = some env2 ∧ env2 w' = some v ∧
        (∀ x : Wire, x.node < n → env2 x = env x) ∧ Good n2 L2 env2 r T (pv.modify (moved t') s)
  | [], T, r, pv, L, n, env, t', pv', v, hg, hat, hpv, hv => by
    have := at_nil hat; subst this
    simp only [PVal.at, Option.some.injEq] at hpv
    subst hpv
    obtain ⟨w', L2, n2, ops, e, a1, a2, _, a4, env2, a5, a6, a7, a8⟩ :=
      getitem_good t' L n r env pv v hg hv
    simp only [sub, List.reverse_nil, List.nil_append, PVal.modify]
    exact ⟨w', L2, n2, ops, e, a1, a2, a4, env2, a5, a6, a7, a8⟩
  | _ :: _, .leaf _ _, _, _, _, _, _, _, _, _, _, hat, _, _ => by simp [Ty.at] at hat
  | j :: s, .node k cs, r, .tup ps, L, n, env, t', pv', v, hg, hat, hpv, hv => by
    obtain ⟨tj, hj, hat'⟩ := at_node_cons hat
    simp only [Good] at hg
    obtain ⟨pj, hpj, hgj⟩ := GoodList.get cs 0 ps j tj hg.2 (Nat.zero_le j) (by simpa using hj)
    simp only [Nat.sub_zero] at hpj
    have hpv'' : pj.at s = some pv' := by simpa [PVal.at, hpj] using hpv
    obtain ⟨w', L2, n2, ops, e, a1, a2, a4, env2, a5, a6, a7, a8⟩ :=
      getitem_good_sub s tj (j :: r) pj L n env t' pv' v hgj hat' hpv'' hv
    rw [sub_cons]
    refine ⟨w', L2, n2, ops, e, a1, a2, a4, env2, a5, a6, a7, ?_⟩
    simp only [PVal.modify, Good]
    constructor
    · intro w v'' hw hv''
      have hr : ¬ sub (j :: r) s <:+ r := fun h => by
        have := h.length_le
        simp [sub_length] at this
        omega
      rw [a4 r hr] at hw
      have htot : (PVal.tup ps).total = some v'' :=
        total_modify_moved (j :: s) (.node k cs) (.tup ps) t' v'' hat (by simpa [PVal.modify] using hv'')
      have := hg.1 w v'' hw htot
      exact ⟨by omega, by rw [a7 w this.1]; exact this.2⟩
    · have := GoodList.update (fun q => PVal.modify (moved t') q s) j cs 0 ps (Nat.zero_le j)
        (n' := n2) (L' := L2) (env' := env2)
        (fun k tk pk _ hne _ _ hgood =>
          Good.transport a1 a7 tk (k :: r) pk
            (fun q hq _ => a4 q (sibling_disjoint hne hq).1)
            (Or.inl (a4 _ (sibling_disjoint hne (List.suffix_refl _)).1)) hgood)
        (fun tj' pj' h1 h2 _ => by
          simp only [Nat.sub_zero] at h1 h2
          rw [hj] at h1; rw [hpj] at h2
          simp only [Option.some.injEq] at h1 h2
          subst h1; subst h2
          exact a8) hg.2
      simpa using this
  | _ :: _, .node _ _, _, .hole, _, _, _, _, _, _, hg, _, _, _ => by simp [Good] at hg
  | _ :: _, .node _ _, _, .val _, _, _, _, _, _, _, hg, _, _, _ => by simp [Good] at hg

mutual
theorem blank_good (n : Nat) (env : Env) : ∀ (t : Ty) (p : PlaceId),
    Good n Locals.empty env p t (blank t)
  | .leaf _ _, _ => by simp [Good, blank]
  | .node _ cs, p => by
    simp only [Good, blank]
    exact ⟨fun w v hw _ => by simp [Locals.empty] at hw, blanks_good n env cs p 0⟩
theorem blanks_good (n : Nat) (env : Env) : ∀ (ts : List Ty) (p : PlaceId) (i : Nat),
    GoodList n Locals.empty env p i ts (blanks ts)
  | [], _, _ => by simp [GoodList, blanks]
  | t :: ts, p, i => by
    simp only [GoodList, blanks]
    exact ⟨blank_good n env t (i :: p), blanks_good n env ts p (i + 1)⟩
end

/-- the script theorem, generalised to any `Good` state -/
theorem runScript_good (T : Ty) (r : PlaceId) (hr : r ≠ []) (env0 : Env) (n0 : Nat) :
    ∀ (script : List SOp) (pv : PVal) (vs : List Val) (L : Locals) (n : Nat) (env : Env),
      RefRun T env0 n0 script pv vs → Good n L env r T pv → n0 ≤ n →
      (∀ x : Wire, x.node < n0 → env x = env0 x) →
      ∃ ws L2 n2 ops, runScript T r script L n = .ok (ws, L2, n2, ops) ∧
        ∃ env2, evalOps env ops = some env2 ∧ env2.all ws = some vs ∧
          (∀ x : Wire, x.node < n → env2 x = env x)
  | [], pv, vs, L, n, env, href, _, _, _ => by
    cases href
    exact ⟨[], L, n, [], rfl, env, rfl, rfl, fun _ _ => rfl⟩
  | .set s w :: rest, pv, vs, L, n, env, href, hg, hn, henv => by
    cases href with
    | @set _ _ t' v _ _ _ hat hw hlt hs hrest =>
      have hw' : env w = some v := by rw [henv w hlt]; exact hw
      obtain ⟨a1, env1, a2, a3, a4⟩ :=
        setitem_good_sub s T r pv L n env _ w _ hr hg hat hw' (by omega) hs
      obtain ⟨ws, L2, n2, o2, e, env2, b1, b2, b3⟩ :=
        runScript_good T r hr env0 n0 rest _ vs _ _ env1 hrest a4 (by omega)
          (fun x hx => by rw [a3 x (by omega)]; exact henv x hx)
      refine ⟨ws, L2, n2, (setitem L n (sub r s) false w t').2.2 ++ o2, by simp only [runScript, hat, e], env2, ?_, b2, ?_⟩
      · simp only [evalOps_append, a2]; exact b1
      · intro x hx; rw [b3 x (by omega), a3 x hx]
  | .get s :: rest, pv, vs, L, n, env, href, hg, hn, henv => by
    cases href with
    | get hat hpv hv hrest =>
      obtain ⟨w', L1, n1, o1, e1, a1, a2, _, env1, a5, a6, a7, a8⟩ :=
        getitem_good_sub s T r pv L n env _ _ _ hg hat hpv hv
      obtain ⟨ws, L2, n2, o2, e, env2, b1, b2, b3⟩ :=
        runScript_good T r hr env0 n0 rest _ _ L1 n1 env1 hrest a8 (by omega)
          (fun x hx => by rw [a7 x (by omega)]; exact henv x hx)
      refine ⟨w' :: ws, L2, n2, o1 ++ o2, by simp only [runScript, hat, e1, e], env2, ?_, ?_, ?_⟩
      · simp only [evalOps_append, a5]; exact b1
      · simp only [Env.all, b3 w' a2, a6, b2]
      · intro x hx; rw [b3 x (by omega), a7 x hx]

end GuppyVerif.DFWiring
