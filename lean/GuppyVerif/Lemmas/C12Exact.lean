import GuppyVerif.Lemmas.C12Compl
/-! Lemmas for C12, part 7: completeness and most-generality for *exact* unifiers (flags included), for
    every environment: when an assignment makes both sides literally identical, the flag rule cannot fire. -/
namespace GuppyVerif.Unify

theorem SolvesX.solves {θ : V → Tm} {σ : Subst} (h : SolvesX θ σ) : Solves θ σ :=
  fun v u hv => by unfold FlagEq; rw [h v u hv]

theorem UnifiesX.unifies {θ : V → Tm} {s t : Tm} (h : UnifiesX θ s t) : Unifies θ s t := by
  unfold Unifies FlagEq; unfold UnifiesX at h; rw [h]

theorem flagsClash_same (E : Env) : ∀ (f : List Nat) (as bs : List Tm), flagsClash E f f as bs = false := by
  intro f
  induction f with
  | nil => intro as bs; simp [flagsClash]
  | cons a f ih =>
    intro as bs
    cases as with
    | nil => simp [flagsClash]
    | cons x as =>
      cases bs with
      | nil => simp [flagsClash]
      | cons y bs => simp [flagsClash, ih]

theorem unifiesX_node {θ : V → Tm} {h₁ h₂ : Head} {as bs : List Tm} (h : UnifiesX θ (.node h₁ as) (.node h₂ bs)) :
    h₁ = h₂ ∧ as.map (inst θ) = bs.map (inst θ) := by
  unfold UnifiesX at h
  simp only [inst, instList_eq, Tm.node.injEq] at h
  exact h

theorem shape_failX {E : Env} {s t : Tm} (h : shape E s t = .fail)
    (hs : s.wf = true) (ht : t.wf = true) (θ : V → Tm) : ¬ UnifiesX θ s t := by
  intro hu
  cases s with
  | var a => cases t <;> simp only [shape] at h <;> (try split at h) <;> cases h
  | targ x => simp [Tm.wf] at hs
  | carg x => simp [Tm.wf] at hs
  | atom a =>
    cases t with
    | var b => simp only [shape] at h; cases h
    | atom b =>
      simp only [shape] at h
      split at h
      · cases h
      · rename_i hne
        unfold UnifiesX at hu
        simp only [inst, Tm.atom.injEq] at hu
        subst hu
        exact hne (atomEq_refl a)
    | node h₂ bs => unfold UnifiesX at hu; simp [inst] at hu
    | targ y => simp [Tm.wf] at ht
    | carg y => simp [Tm.wf] at ht
  | node h₁ as =>
    cases t with
    | var b => simp only [shape] at h; cases h
    | atom b => unfold UnifiesX at hu; simp [inst] at hu
    | targ y => simp [Tm.wf] at ht
    | carg y => simp [Tm.wf] at ht
    | node h₂ bs =>
      simp only [shape] at h
      obtain ⟨hh, hl⟩ := unifiesX_node hu
      subst hh
      cases h₁ <;> simp only [] at h
      · simp [flagsClash_same] at h
      · cases h
      · simp at h
      · simp at h

def ComplFnX (θ : V → Tm) (u : Tm → Tm → Subst → Res) : Prop :=
  ∀ x y σ, x.wf = true → y.wf = true → WfSubst σ → SolvesX θ σ → UnifiesX θ x y →
    u x y σ ≠ .fail ∧ ∀ σ', u x y σ = .ok σ' → SolvesX θ σ' ∧ WfSubst σ'

theorem loop_complX {θ : V → Tm} {u : Tm → Tm → Subst → Res} (hu : ComplFnX θ u) :
    ∀ (as bs : List Tm) (σ : Subst), wfArgs as = true → wfArgs bs = true → WfSubst σ → SolvesX θ σ →
      as.map (inst θ) = bs.map (inst θ) →
      unifyArgsLoop u as bs σ ≠ .fail ∧ ∀ σ', unifyArgsLoop u as bs σ = .ok σ' → SolvesX θ σ' ∧ WfSubst σ' := by
  intro as
  induction as with
  | nil =>
    intro bs σ _ _ hw hθ he
    cases bs with
    | nil => simp only [unifyArgsLoop]; exact ⟨by simp, fun σ' h => by cases h; exact ⟨hθ, hw⟩⟩
    | cons b bs => simp at he
  | cons a as ih =>
    intro bs σ hwa hwb hw hθ he
    cases bs with
    | nil => simp at he
    | cons b bs =>
      simp only [List.map_cons, List.cons.injEq] at he
      obtain ⟨he1, he2⟩ := he
      have key : ∀ x y, x.wf = true → y.wf = true → wfArgs as = true → wfArgs bs = true → UnifiesX θ x y →
          (unifyArgsLoop u (a :: as) (b :: bs) σ =
            match u x y σ with
            | .ok σ' => unifyArgsLoop u as bs σ'
            | r => r) →
          unifyArgsLoop u (a :: as) (b :: bs) σ ≠ .fail ∧
            ∀ σ', unifyArgsLoop u (a :: as) (b :: bs) σ = .ok σ' → SolvesX θ σ' ∧ WfSubst σ' := by
        intro x y hx hy hwa' hwb' hxy heq
        obtain ⟨h1, h2⟩ := hu x y σ hx hy hw hθ hxy
        rw [heq]
        cases hres : u x y σ with
        | oof => simp
        | fail => exact absurd hres h1
        | ok σ₁ =>
          obtain ⟨hθ₁, hw₁⟩ := h2 σ₁ hres
          exact ih bs σ₁ hwa' hwb' hw₁ hθ₁ he2
      cases a <;> cases b <;> simp only [wfArgs, Bool.and_eq_true] at hwa hwb <;>
        (try (exact Bool.noConfusion hwa)) <;> (try (exact Bool.noConfusion hwb)) <;>
        simp only [inst] at he1 <;> (try (cases he1; done))
      · rename_i x y
        exact key x y hwa.1 hwb.1 hwa.2 hwb.2 (by simpa [UnifiesX] using he1) (by simp only [unifyArgsLoop]; rfl)
      · rename_i x y
        exact key x y hwa.1 hwb.1 hwa.2 hwb.2 (by simpa [UnifiesX] using he1) (by simp only [unifyArgsLoop]; rfl)

theorem var_complX {θ : V → Tm} {u : Tm → Tm → Subst → Res} (hu : ComplFnX θ u) (n : Nat)
    {v : V} {t : Tm} {σ : Subst} (hne : t ≠ .var v) (ht : t.wf = true) (hw : WfSubst σ) (hθ : SolvesX θ σ)
    (hvt : UnifiesX θ (.var v) t) :
    unifyVarWith u (occurs n) v t σ ≠ .fail ∧
      ∀ σ', unifyVarWith u (occurs n) v t σ = .ok σ' → SolvesX θ σ' ∧ WfSubst σ' := by
  have hvt' : θ v = inst θ t := by simpa [UnifiesX, inst] using hvt
  have bindOk : lookup σ v = none → SolvesX θ ((v, t) :: σ) ∧ WfSubst ((v, t) :: σ) := by
    intro _
    constructor
    · intro x w hx
      rw [lookup_cons] at hx
      by_cases e : v = x
      · simp only [e, if_true, Option.some.injEq] at hx; subst hx; subst e; exact hvt'
      · simp only [e, if_false] at hx; exact hθ x w hx
    · intro x w hx
      rw [lookup_cons] at hx
      by_cases e : v = x
      · simp only [e, if_true, Option.some.injEq] at hx; subst hx; exact ht
      · simp only [e, if_false] at hx; exact hw x w hx
  have bindCase : lookup σ v = none → (∀ w, t = .var w → lookup σ w = none) →
      (match occurs n σ v t with
        | none => Res.oof
        | some true => Res.fail
        | some false => Res.ok ((v, t) :: σ)) ≠ .fail ∧
      ∀ σ', (match occurs n σ v t with
        | none => Res.oof
        | some true => Res.fail
        | some false => Res.ok ((v, t) :: σ)) = .ok σ' → SolvesX θ σ' ∧ WfSubst σ' := by
    intro hl hvar
    cases ho : occurs n σ v t with
    | none => simp
    | some b =>
      cases b with
      | false => simp only []; exact ⟨by simp, fun σ' h => by cases h; exact bindOk hl⟩
      | true =>
        exfalso
        obtain ⟨y, hy, hle⟩ := occurs_true hθ.solves n t ho
        by_cases hv : ∀ w, t ≠ .var w
        · have := (esize_inst_var (θ := θ) t hy).2 hv
          rw [hvt'] at hle
          omega
        · have : ∃ w, t = .var w := by
            cases t with
            | var w => exact ⟨w, rfl⟩
            | _ => exact absurd (fun w => by simp) hv
          obtain ⟨w, rfl⟩ := this
          have hwn := hvar w rfl
          cases n with
          | zero => simp [occurs] at ho
          | succ n =>
            have hwv : w ≠ v := fun e => hne (by rw [e])
            simp [occurs, Tm.vars, firstM, hwv, hwn] at ho
  unfold unifyVarWith
  cases hl : lookup σ v with
  | some sv =>
    simp only []
    apply hu sv t σ (hw v sv hl) ht hw hθ
    unfold UnifiesX
    rw [← hθ v sv hl]; exact hvt'
  | none =>
    simp only []
    cases t with
    | var w =>
      simp only
      cases hwl : lookup σ w with
      | some tw =>
        simp only []
        apply hu (.var v) tw σ (by simp [Tm.wf]) (hw w tw hwl) hw hθ
        unfold UnifiesX
        rw [← hθ w tw hwl]; simpa [inst] using hvt'
      | none => simp only []; exact bindCase hl (fun w' e => by cases e; exact hwl)
    | atom a => exact bindCase hl (fun w e => by cases e)
    | node hd as => exact bindCase hl (fun w e => by cases e)
    | targ x => exact bindCase hl (fun w e => by cases e)
    | carg x => exact bindCase hl (fun w e => by cases e)

theorem unify_complX (E : Env) (θ : V → Tm) : ∀ n, ComplFnX θ (unify E n) := by
  intro n
  induction n with
  | zero => intro x y σ _ _ _ _ _; simp [unify]
  | succ n ih =>
    intro s t σ hs ht hw hθ hst
    rw [unify_succ]
    cases hsh : shape E s t with
    | same => simp only [runShape]; exact ⟨by simp, fun σ' h => by cases h; exact ⟨hθ, hw⟩⟩
    | fail => exact absurd hst (shape_failX hsh hs ht θ)
    | viaVar v t' =>
      simp only [runShape]
      obtain ⟨hne, hc⟩ := shape_viaVar hsh
      have h' : t'.wf = true ∧ UnifiesX θ (.var v) t' := by
        cases hc with
        | inl e => obtain ⟨rfl, rfl⟩ := e; exact ⟨ht, hst⟩
        | inr e => obtain ⟨rfl, rfl⟩ := e; exact ⟨hs, hst.symm⟩
      exact var_complX ih n hne h'.1 hw hθ h'.2
    | viaArgs as bs =>
      simp only [runShape]
      obtain ⟨h₁, h₂, rfl, rfl, _⟩ := shape_viaArgs hsh
      obtain ⟨_, hl⟩ := unifiesX_node hst
      have hlen : as.length = bs.length := by simpa using congrArg List.length hl
      unfold unifyArgsWith
      simp only [hlen, ne_eq, not_true_eq_false, if_false]
      exact loop_complX ih as bs σ (by simpa [Tm.wf] using hs) (by simpa [Tm.wf] using ht) hw hθ hl

/-- an exact solution of `σ` is unchanged by pre-composing passes of `σ` -/
theorem solvesX_applyN {θ : V → Tm} {σ : Subst} (hθ : SolvesX θ σ) : ∀ (n : Nat) (x : Tm),
    inst θ (applyN σ n x) = inst θ x := by
  have one : ∀ x, inst θ (apply σ x) = inst θ x := by
    intro x
    unfold apply
    rw [inst_inst]
    apply inst_congr
    intro y _
    unfold asFun
    cases hl : lookup σ y with
    | none => simp [inst]
    | some u => simp only []; exact (hθ y u hl).symm
  intro n
  induction n with
  | zero => intro x; rfl
  | succ n ih => intro x; simp only [applyN]; rw [ih, one]

end GuppyVerif.Unify
