import GuppyVerif.Lemmas.C09Assign
/-! The executable runs (`liveRun`/`assRun` with an arbitrary scheduler, `liveReplay`/`assReplay`
    of a concrete pop sequence) are instances of the "any order" relations. -/
namespace GuppyVerif.Dataflow

theorem LReach.trans {g : Cfg} {s t u : LSt} (h₁ : LReach g s t) (h₂ : LReach g t u) : LReach g s u := by
  induction h₁ with
  | refl => exact h₂
  | step b hb _ ih => exact .step b hb (ih h₂)

theorem liveRun_reach (g : Cfg) (sched : List Blk → Blk) :
    ∀ (fuel : Nat) (s t : LSt), liveRun g sched fuel s = some t → LReach g s t ∧ t.queue = [] := by
  intro fuel
  induction fuel with
  | zero =>
    intro s t h
    unfold liveRun at h
    split at h
    · cases h; exact ⟨.refl _, by simpa using ‹s.queue.isEmpty = true›⟩
    · cases h
  | succ n ih =>
    intro s t h
    unfold liveRun at h
    split at h
    · cases h; exact ⟨.refl _, ‹s.queue = []›⟩
    · rename_i hd tl hq
      simp only at h
      obtain ⟨hr, he⟩ := ih _ _ h
      refine ⟨.step _ ?_ hr, he⟩
      split
      · rename_i hc; simpa using hc
      · rw [hq]; exact List.mem_cons_self

theorem liveReplay_reach (g : Cfg) :
    ∀ (seq : List Blk) (s t : LSt), liveReplay g s seq = some t → LReach g s t := by
  intro seq
  induction seq with
  | nil => intro s t h; cases h; exact .refl _
  | cons b rest ih =>
    intro s t h
    unfold liveReplay at h
    split at h
    · rename_i hc; exact .step b (by simpa using hc) (ih _ _ h)
    · cases h

theorem assRun_reach (g : Cfg) (P : AParams) (sched : List Blk → Blk) :
    ∀ (fuel : Nat) (s t : ASt), assRun g P sched fuel s = some t → AReach g P s t ∧ t.queue = [] := by
  intro fuel
  induction fuel with
  | zero =>
    intro s t h
    unfold assRun at h
    split at h
    · cases h; exact ⟨.refl _, by simpa using ‹s.queue.isEmpty = true›⟩
    · cases h
  | succ n ih =>
    intro s t h
    unfold assRun at h
    split at h
    · cases h; exact ⟨.refl _, ‹s.queue = []›⟩
    · rename_i hd tl hq
      simp only at h
      obtain ⟨hr, he⟩ := ih _ _ h
      refine ⟨.step _ ?_ hr, he⟩
      split
      · rename_i hc; simpa using hc
      · rw [hq]; exact List.mem_cons_self

theorem assReplay_reach (g : Cfg) (P : AParams) :
    ∀ (seq : List Blk) (s t : ASt), assReplay g P s seq = some t → AReach g P s t := by
  intro seq
  induction seq with
  | nil => intro s t h; cases h; exact .refl _
  | cons b rest ih =>
    intro s t h
    unfold assReplay at h
    split at h
    · rename_i hc; exact .step b (by simpa using hc) (ih _ _ h)
    · cases h

/-- blocks reachable from a root see every never-assigned variable as not definitely assigned -/
theorem notDef_of_fromRoot {g : Cfg} (hg : g.WF) {P : AParams} {x : Var} {b : Blk}
    (hb : b ∈ g.blocks) (h : FromRoot g b) (hx : x ∉ allVars g P) : NotDef g P x b := by
  induction h with
  | root hr => exact .root hr (fun h => hx (List.mem_append_right _ h))
  | step he _ ih =>
    have hp := hg.pclosed _ hb _ he
    exact .step he (fun ha => hx (assigned_sub_allVars hp ha)) (ih hp)

theorem maybePath_of_fromRoot {g : Cfg} {P : AParams} {x : Var} {b : Blk}
    (h : FromRoot g b) (hx : x ∈ P.entryMaybe) : MaybePath g P x b := by
  induction h with
  | root hr => exact .root hr hx
  | step he _ ih => exact .step he ih

end GuppyVerif.Dataflow
