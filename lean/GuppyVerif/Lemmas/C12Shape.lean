import GuppyVerif.Lemmas.C12
/-! Lemmas for C12, part 4: the case analysis of `unify` factored out once (`shape`), and monotonicity of
    all results in the fuel. -/
namespace GuppyVerif.Unify

/-- which branch `unify(s, t, ·)` takes; depends on `s`, `t` (and `E` for the flag rule) only -/
inductive Shape where
  | same                                  -- returns `subst` unchanged
  | fail                                  -- returns `None`
  | viaVar (v : V) (t : Tm)               -- `_unify_var(v, t, subst)`
  | viaArgs (as bs : List Tm)             -- `_unify_args`

def shape (E : Env) (s t : Tm) : Shape :=
  match s, t with
  | .var a, .var b => if a = b then .same else .viaVar a (.var b)
  | .var a, t => .viaVar a t
  | s, .var b => .viaVar b s
  | .atom a, .atom b => if atomEq a b then .same else .fail
  | .node h₁ as, .node h₂ bs =>
    match h₁, h₂ with
    | .func fl₁ p₁, .func fl₂ p₂ =>
      if p₁ = p₂ then
        if fl₁.length ≠ fl₂.length then .fail
        else if flagsClash E fl₁ fl₂ as bs then .fail
        else .viaArgs as bs
      else .fail
    | .tuple, .tuple => .viaArgs as bs
    | .opaque d₁, .opaque d₂ => if d₁ = d₂ then .viaArgs as bs else .fail
    | .struct d₁, .struct d₂ => if d₁ = d₂ then .viaArgs as bs else .fail
    | _, _ => .fail
  | _, _ => .fail

def runShape (u : Tm → Tm → Subst → Res) (occ : Subst → V → Tm → Option Bool) (σ : Subst) : Shape → Res
  | .same => .ok σ
  | .fail => .fail
  | .viaVar v t => unifyVarWith u occ v t σ
  | .viaArgs as bs => unifyArgsWith u as bs σ

theorem unifyStep_eq (E : Env) (u : Tm → Tm → Subst → Res) (occ : Subst → V → Tm → Option Bool)
    (s t : Tm) (σ : Subst) : unifyStep E u occ s t σ = runShape u occ σ (shape E s t) := by
  have e1 : runShape u occ σ .same = .ok σ := rfl
  have e2 : runShape u occ σ .fail = .fail := rfl
  have e3 : ∀ v t, runShape u occ σ (.viaVar v t) = unifyVarWith u occ v t σ := fun _ _ => rfl
  have e4 : ∀ as bs, runShape u occ σ (.viaArgs as bs) = unifyArgsWith u as bs σ := fun _ _ => rfl
  cases s <;> cases t <;> simp only [unifyStep, shape] <;>
    (try simp only [apply_ite (runShape u occ σ), e1, e2, e3, e4])
  rename_i h₁ as h₂ bs
  cases h₁ <;> cases h₂ <;> simp only [apply_ite (runShape u occ σ), e1, e2, e3, e4]

theorem unify_succ (E : Env) (n : Nat) (s t : Tm) (σ : Subst) :
    unify E (n + 1) s t σ = runShape (unify E n) (occurs n) σ (shape E s t) := by
  simp only [unify]; exact unifyStep_eq ..

theorem atomEq_eq' {a b : Atom} (h : atomEq a b = true) : a = b := by
  cases a <;> cases b <;> simp_all [atomEq]

theorem atomEq_refl (a : Atom) : atomEq a a = true := by cases a <;> simp [atomEq]

theorem shape_same {E : Env} {s t : Tm} (h : shape E s t = .same) : s = t := by
  cases s <;> cases t <;> simp only [shape] at h <;> try (cases h; done)
  · split at h
    · rename_i e; rw [e]
    · cases h
  · split at h
    · rename_i e; rw [atomEq_eq' e]
    · cases h
  · rename_i h₁ as h₂ bs
    cases h₁ <;> cases h₂ <;> simp only [] at h <;> (repeat' split at h) <;> cases h

theorem shape_viaVar {E : Env} {s t : Tm} {v : V} {t' : Tm} (h : shape E s t = .viaVar v t') :
    t' ≠ .var v ∧ ((s = .var v ∧ t = t') ∨ (t = .var v ∧ s = t')) := by
  cases s <;> cases t <;> simp only [shape] at h
  case node.node h₁ as h₂ bs =>
    cases h₁ <;> cases h₂ <;> simp only [] at h <;> (repeat' split at h) <;> cases h
  all_goals (try split at h)
  all_goals (try (cases h; done))
  all_goals (cases h; simp_all [eq_comm])

theorem shape_viaArgs {E : Env} {s t : Tm} {as bs : List Tm} (h : shape E s t = .viaArgs as bs) :
    ∃ h₁ h₂, s = .node h₁ as ∧ t = .node h₂ bs ∧ eraseH h₁ = eraseH h₂ := by
  cases s <;> cases t <;> simp only [shape] at h <;> try (cases h; done)
  · split at h <;> cases h
  · split at h <;> cases h
  · rename_i h₁ as' h₂ bs'
    cases h₁ <;> cases h₂ <;> simp only [] at h
    all_goals first
      | (cases h; done)
      | (cases h; exact ⟨_, _, rfl, rfl, rfl⟩)
      | (split at h
         · rename_i e; subst e; cases h; exact ⟨_, _, rfl, rfl, rfl⟩
         · cases h)
      | (split at h
         · rename_i e
           split at h
           · cases h
           · rename_i hl
             split at h
             · cases h
             · cases h
               refine ⟨_, _, rfl, rfl, ?_⟩
               simp only [eraseH]; simp at hl; rw [hl, e]
         · cases h)

/-! ### monotonicity in the fuel -/

def MonoStep (u u' : Tm → Tm → Subst → Res) : Prop := ∀ x y σ, u x y σ ≠ .oof → u' x y σ = u x y σ
def OccMono (o o' : Subst → V → Tm → Option Bool) : Prop := ∀ σ v t, o σ v t ≠ none → o' σ v t = o σ v t

theorem firstM_mono {f f' : V → Option Bool} (h : ∀ y, f y ≠ none → f' y = f y) :
    ∀ ys, firstM f ys ≠ none → firstM f' ys = firstM f ys := by
  intro ys
  induction ys with
  | nil => intro _; rfl
  | cons a as ih =>
    intro hn
    simp only [firstM] at hn ⊢
    cases hfa : f a with
    | none => simp [hfa] at hn
    | some b =>
      rw [h a (by simp [hfa]), hfa]
      cases b with
      | true => rfl
      | false => simp only [hfa] at hn; exact ih hn

theorem occurs_mono_step : ∀ n, OccMono (occurs n) (occurs (n + 1)) := by
  intro n
  induction n with
  | zero => intro σ v t h; simp [occurs] at h
  | succ n ih =>
    intro σ v t h
    simp only [occurs] at h ⊢
    apply firstM_mono _ _ h
    intro y hy
    by_cases e : y = v
    · simp [e]
    · simp only [e, if_false] at hy ⊢
      cases hl : lookup σ y with
      | none => rfl
      | some u => simp only [hl] at hy ⊢; exact ih σ v u hy

theorem loop_mono {u u' : Tm → Tm → Subst → Res} (h : MonoStep u u') :
    ∀ as bs σ, unifyArgsLoop u as bs σ ≠ .oof → unifyArgsLoop u' as bs σ = unifyArgsLoop u as bs σ := by
  intro as
  induction as with
  | nil => intro bs σ _; cases bs <;> rfl
  | cons a as ih =>
    intro bs σ hn
    cases bs with
    | nil => rfl
    | cons b bs =>
      cases a <;> cases b <;> simp only [unifyArgsLoop] at hn ⊢
      · rename_i x y
        cases hr : u x y σ with
        | oof => simp [hr] at hn
        | fail => rw [h x y σ (by simp [hr]), hr]
        | ok σ₁ => rw [h x y σ (by simp [hr]), hr]; simp only [hr] at hn; exact ih bs σ₁ hn
      · rename_i x y
        cases hr : u x y σ with
        | oof => simp [hr] at hn
        | fail => rw [h x y σ (by simp [hr]), hr]
        | ok σ₁ => rw [h x y σ (by simp [hr]), hr]; simp only [hr] at hn; exact ih bs σ₁ hn

theorem args_mono {u u' : Tm → Tm → Subst → Res} (h : MonoStep u u') (as bs : List Tm) (σ : Subst)
    (hn : unifyArgsWith u as bs σ ≠ .oof) : unifyArgsWith u' as bs σ = unifyArgsWith u as bs σ := by
  unfold unifyArgsWith at *
  split
  · rfl
  · rename_i e; simp only [e, if_false] at hn; exact loop_mono h as bs σ hn

theorem var_mono {u u' : Tm → Tm → Subst → Res} {o o' : Subst → V → Tm → Option Bool}
    (h : MonoStep u u') (ho : OccMono o o') (v : V) (t : Tm) (σ : Subst)
    (hn : unifyVarWith u o v t σ ≠ .oof) : unifyVarWith u' o' v t σ = unifyVarWith u o v t σ := by
  have bindCase : (match o σ v t with
        | none => Res.oof
        | some true => Res.fail
        | some false => Res.ok ((v, t) :: σ)) ≠ .oof →
      (match o' σ v t with
        | none => Res.oof
        | some true => Res.fail
        | some false => Res.ok ((v, t) :: σ)) =
      (match o σ v t with
        | none => Res.oof
        | some true => Res.fail
        | some false => Res.ok ((v, t) :: σ)) := by
    intro hb
    cases hc : o σ v t with
    | none => simp [hc] at hb
    | some b => rw [ho σ v t (by simp [hc]), hc]
  unfold unifyVarWith at *
  cases hv : lookup σ v with
  | some sv => simp only [hv] at hn ⊢; exact h _ _ _ hn
  | none =>
    simp only [hv] at hn ⊢
    cases t with
    | var w =>
      simp only at hn ⊢
      cases hw : lookup σ w with
      | some tw => simp only [hw] at hn ⊢; exact h _ _ _ hn
      | none => simp only [hw] at hn ⊢; exact bindCase hn
    | atom a => exact bindCase hn
    | node hd as => exact bindCase hn
    | targ x => exact bindCase hn
    | carg x => exact bindCase hn

theorem runShape_mono {u u' : Tm → Tm → Subst → Res} {o o' : Subst → V → Tm → Option Bool}
    (h : MonoStep u u') (ho : OccMono o o') (σ : Subst) (sh : Shape)
    (hn : runShape u o σ sh ≠ .oof) : runShape u' o' σ sh = runShape u o σ sh := by
  cases sh with
  | same => rfl
  | fail => rfl
  | viaVar v t => exact var_mono h ho v t σ hn
  | viaArgs as bs => exact args_mono h as bs σ hn

theorem unify_mono_step (E : Env) : ∀ n, MonoStep (unify E n) (unify E (n + 1)) := by
  intro n
  induction n with
  | zero => intro x y σ h; simp [unify] at h
  | succ n ih =>
    intro x y σ h
    rw [unify_succ] at h ⊢
    rw [unify_succ]
    exact runShape_mono ih (occurs_mono_step n) σ _ h

theorem unify_mono (E : Env) {n m : Nat} (hnm : n ≤ m) : MonoStep (unify E n) (unify E m) := by
  induction hnm with
  | refl => intro _ _ _ _; rfl
  | step _ ih =>
    intro x y σ h
    rw [unify_mono_step E _ x y σ (by rw [ih x y σ h]; exact h), ih x y σ h]

theorem occurs_mono {n m : Nat} (hnm : n ≤ m) : OccMono (occurs n) (occurs m) := by
  induction hnm with
  | refl => intro _ _ _ _; rfl
  | step _ ih =>
    intro σ v t h
    rw [occurs_mono_step _ σ v t (by rw [ih σ v t h]; exact h), ih σ v t h]

end GuppyVerif.Unify
