import GuppyVerif.Lemmas.C12GenCall
import GuppyVerif.Lemmas.C12Lin
/-! Lemmas for C12, part 15: completeness of `synthCall` for arguments with synthesised types (`Ex.val`). -/
namespace GuppyVerif.Unify

theorem wf_inst_aux (θ : V → Tm) (hθ : ∀ v, (θ v).wf = true) : ∀ t : Tm,
    (t.wf = true → (inst θ t).wf = true) ∧
    (∀ x, (t = .targ x ∨ t = .carg x) → x.wf = true → (inst θ x).wf = true) := by
  intro t
  induction t using Tm.induct with
  | var v => exact ⟨fun _ => hθ v, fun x h => by cases h with | inl e => cases e | inr e => cases e⟩
  | atom a => exact ⟨fun _ => rfl, fun x h => by cases h with | inl e => cases e | inr e => cases e⟩
  | node h as ih =>
    refine ⟨fun hw => ?_, fun x h => by cases h with | inl e => cases e | inr e => cases e⟩
    simp only [Tm.wf] at hw
    simp only [inst, Tm.wf, instList_eq]
    rw [wfArgs_iff] at hw ⊢
    intro b hb
    obtain ⟨a, ha, rfl⟩ := List.mem_map.mp hb
    obtain ⟨x, hx, hxw⟩ := hw a ha
    have hx' := (ih a ha).2 x hx hxw
    cases hx with
    | inl e => subst e; exact ⟨inst θ x, Or.inl (by simp [inst]), hx'⟩
    | inr e => subst e; exact ⟨inst θ x, Or.inr (by simp [inst]), hx'⟩
  | targ t ih =>
    refine ⟨fun h => by simp [Tm.wf] at h, fun x h hw => ?_⟩
    cases h with
    | inl e => cases e; exact ih.1 hw
    | inr e => cases e
  | carg t ih =>
    refine ⟨fun h => by simp [Tm.wf] at h, fun x h hw => ?_⟩
    cases h with
    | inl e => cases e
    | inr e => cases e; exact ih.1 hw

theorem wf_apply {σ : Subst} (hσ : WfSubst σ) {t : Tm} (ht : t.wf = true) : (apply σ t).wf = true := by
  apply (wf_inst_aux (asFun σ) ?_ t).1 ht
  intro v
  unfold asFun
  cases hl : lookup σ v with
  | none => rfl
  | some u => exact hσ v u hl

theorem copyable_erase (E : Env) : ∀ t : Tm, copyable E (erase t) = copyable E t := by
  intro t
  induction t using Tm.induct with
  | var v => rfl
  | atom a => rfl
  | node h as ih =>
    cases h <;> simp only [erase, eraseH, copyable, eraseList_eq] <;> rw [copyableArgs_congr E _ as ih]
  | targ t ih => simpa [erase, copyable] using ih
  | carg t _ => simp [erase, copyable]

theorem droppable_erase (E : Env) : ∀ t : Tm, droppable E (erase t) = droppable E t := by
  intro t
  induction t using Tm.induct with
  | var v => rfl
  | atom a => rfl
  | node h as ih =>
    cases h <;> simp only [erase, eraseH, droppable, eraseList_eq] <;> rw [droppableArgs_congr E _ as ih]
  | targ t ih => simpa [erase, droppable] using ih
  | carg t _ => simp [erase, droppable]

theorem boundsOk_congr (E : Env) : ∀ (bs : List (Bool × Bool)) (xs ys : List Tm),
    All2 FlagEq xs ys → boundsOk E bs xs = boundsOk E bs ys := by
  intro bs
  induction bs with
  | nil => intro xs ys _; cases xs <;> cases ys <;> rfl
  | cons b bs ih =>
    intro xs ys h
    obtain ⟨c, d⟩ := b
    cases h with
    | nil => rfl
    | cons h1 h2 =>
      simp only [boundsOk]
      unfold FlagEq at h1
      rw [← copyable_erase E, ← droppable_erase E, h1, copyable_erase, droppable_erase, ih _ _ h2]

/-- the solutions found so far are closed, well-sorted and agree with the assignment `θ` -/
structure Agree (θ : V → Tm) (σ : Subst) : Prop where
  closed : ClosedImgs σ
  wf : WfSubst σ
  agr : ∀ v u, lookup σ v = some u → FlagEq (θ v) u

theorem Agree.solves {θ : V → Tm} {σ : Subst} (h : Agree θ σ) : Solves θ σ := by
  intro v u hv
  have : inst θ u = u := inst_id_of u _ (fun y hy => by rw [h.closed v u hv] at hy; cases hy)
  rw [this]; exact h.agr v u hv

theorem Agree.nil (θ : V → Tm) : Agree θ [] :=
  ⟨fun _ _ h => by simp [lookup] at h, fun _ _ h => by simp [lookup] at h, fun _ _ h => by simp [lookup] at h⟩

theorem Agree.append {θ : V → Tm} {s σ : Subst} (h1 : Agree θ s) (h2 : Agree θ σ) : Agree θ (s ++ σ) := by
  refine ⟨?_, ?_, ?_⟩ <;> intro v u hv <;> rw [lookup_append] at hv <;> cases hs : lookup s v <;> rw [hs] at hv
  · exact h2.closed v u hv
  · simp only [Option.some.injEq] at hv; subst hv; exact h1.closed v _ hs
  · exact h2.wf v u hv
  · simp only [Option.some.injEq] at hv; subst hv; exact h1.wf v _ hs
  · exact h2.agr v u hv
  · simp only [Option.some.injEq] at hv; subst hv; exact h1.agr v _ hs

theorem unifyT_complete (E : Env) (hE : NoLinear E) (θ : V → Tm) {ty a : Tm} (hty : ty.wf = true) (ha : a.wf = true)
    (hac : a.vars = []) (hu : FlagEq (inst θ ty) a) : ∃ s, unifyT E ty a [] = .ok s ∧ Agree θ s := by
  unfold unifyT
  have hnil : WfSubst [] := fun _ _ h => by simp [lookup] at h
  have hsol : Solves θ [] := fun _ _ h => by simp [lookup] at h
  have hun : Unifies θ ty a := by
    unfold Unifies
    rw [inst_id_of a θ (fun y hy => by rw [hac] at hy; cases hy)]
    exact hu
  have hne := unify_fuelBound E ty a [] acyclic_nil _ (Nat.le_refl _)
  obtain ⟨hnf, hok⟩ := unify_compl E hE θ (fuelBound ty a []) ty a [] hty ha hnil hsol hun
  cases hres : unify E (fuelBound ty a []) ty a [] with
  | oof => exact absurd hres hne
  | fail => exact absurd hres hnf
  | ok s =>
    obtain ⟨hs, hw⟩ := hok s hres
    have hc : ClosedImgs s := unify_closed E _ ty a [] s hres hac (fun _ _ h' => by simp [lookup] at h')
    refine ⟨s, rfl, hc, hw, ?_⟩
    intro v u hv
    have := hs v u hv
    rw [inst_id_of u θ (fun y hy => by rw [hc v u hv] at hy; cases hy)] at this
    exact this

theorem checkList_complete (E : Env) (hE : NoLinear E) (θ : V → Tm) : ∀ (as ps : List Tm) (σ : Subst),
    Agree θ σ → (∀ a ∈ as, a.wf = true ∧ a.vars = []) → (∀ p ∈ ps, p.wf = true) →
    All2 (fun a p => FlagEq (inst θ p) a) as ps →
    ∃ σ', checkList E (as.map Ex.val) ps σ = .ok σ' ∧ Agree θ σ' := by
  intro as
  induction as with
  | nil => intro ps σ hσ _ _ h; cases h; exact ⟨σ, by simp [checkList], hσ⟩
  | cons a as ih =>
    intro ps σ hσ ha hp h
    cases h with
    | cons h1 h2 =>
      rename_i p ps
      have hpa : FlagEq (inst θ (apply σ p)) a := (solves_apply hσ.solves p).trans h1
      obtain ⟨s, hs, hag⟩ := unifyT_complete E hE θ (wf_apply hσ.wf (hp p (by simp))) (ha a (by simp)).1
        (ha a (by simp)).2 hpa
      obtain ⟨σ', h', hag'⟩ := ih ps (s ++ σ) (hag.append hσ) (fun b hb => ha b (by simp [hb]))
        (fun q hq => hp q (by simp [hq])) h2
      refine ⟨σ', ?_, hag'⟩
      simp only [List.map_cons, checkList, checkEx, hs]
      exact h'

theorem vars_instB_fresh (fresh : List V) : ∀ t : Tm, t.vars = [] →
    ∀ z ∈ (instB (fresh.map Tm.var) t).vars, z ∈ fresh := by
  intro t
  induction t using Tm.induct with
  | var v => intro h; simp [Tm.vars] at h
  | atom a =>
    intro _ z hz
    cases a with
    | bvar i =>
      simp only [instB, List.length_map] at hz
      split at hz
      · rename_i h; simp [Tm.vars, List.getElem_map] at hz; subst hz; exact List.getElem_mem _
      · simp [Tm.vars] at hz
    | cbvar i =>
      simp only [instB, List.length_map] at hz
      split at hz
      · rename_i h; simp [Tm.vars, List.getElem_map] at hz; subst hz; exact List.getElem_mem _
      · simp [Tm.vars] at hz
    | num k => simp [instB, Tm.vars] at hz
    | none => simp [instB, Tm.vars] at hz
    | cval a b => simp [instB, Tm.vars] at hz
  | node h as ih =>
    intro hv z hz
    simp only [Tm.vars] at hv
    have hn := varsList_nil hv
    simp only [instB, Tm.vars, instBList_eq] at hz
    obtain ⟨b, hb, hzb⟩ := mem_varsList.mp hz
    obtain ⟨a, ha, rfl⟩ := List.mem_map.mp hb
    exact ih a ha (hn a ha) z hzb
  | targ t ih => intro hv z hz; exact ih (by simpa [Tm.vars] using hv) z (by simpa [instB, Tm.vars] using hz)
  | carg t ih => intro hv z hz; exact ih (by simpa [Tm.vars] using hv) z (by simpa [instB, Tm.vars] using hz)

theorem all2_of_map {α β : Type} {R : α → β → Prop} : ∀ {as : List α} {bs : List β},
    as.length = bs.length → (∀ i (h1 : i < as.length) (h2 : i < bs.length), R as[i] bs[i]) → All2 R as bs := by
  intro as
  induction as with
  | nil => intro bs hl _; cases bs with | nil => exact .nil | cons _ _ => simp at hl
  | cons a as ih =>
    intro bs hl h
    cases bs with
    | nil => simp at hl
    | cons b bs =>
      refine .cons (h 0 (by simp) (by simp)) (ih (by simpa using hl) ?_)
      intro i h1 h2
      exact h (i + 1) (by simp; omega) (by simp; omega)

/-- completeness of `synthesize_call` for arguments with synthesised types -/
theorem synthCall_complete (E : Env) (hE : NoLinear E) (sg : Sig) (fresh : List V) (as : List Tm) (ρ : List Tm)
    (hin : ∀ p ∈ sg.inputs, p.vars = [] ∧ p.wf = true) (hout : sg.out.vars = [])
    (has : ∀ a ∈ as, a.wf = true ∧ a.vars = [])
    (hfresh : fresh.Nodup) (hρl : ρ.length = fresh.length)
    (hocc : ∀ f ∈ fresh, ∃ p ∈ sg.inputs, f ∈ (instB (fresh.map Tm.var) p).vars)
    (hfit : All2 (fun a p => FlagEq (instB ρ p) a) as sg.inputs)
    (hb : boundsOk E sg.bounds ρ = true) :
    ∃ ins, synthCall E sg fresh (as.map Ex.val) = .accept ins (instB ins sg.out) ∧ All2 FlagEq ins ρ := by
  let θ : V → Tm := asFun (fresh.zip ρ)
  have hθρ : fresh.map θ = ρ := map_asFun_zip fresh ρ hfresh hρl
  have hlen : as.length = sg.inputs.length := all2_length hfit
  -- the arguments fit under θ
  have hfit' : All2 (fun a p => FlagEq (inst θ p) a) as (sg.inputs.map (instB (fresh.map Tm.var))) := by
    have : ∀ {as : List Tm} {ps : List Tm}, (∀ p ∈ ps, p.vars = []) → All2 (fun a p => FlagEq (instB ρ p) a) as ps →
        All2 (fun a p => FlagEq (inst θ p) a) as (ps.map (instB (fresh.map Tm.var))) := by
      intro as ps hps h
      induction h with
      | nil => exact .nil
      | @cons a p as' ps' h1 _ ih =>
        refine .cons ?_ (ih (fun q hq => hps q (by simp [hq])))
        rw [inst_instB θ fresh p (hps p (by simp)), hθρ]; exact h1
    exact this (fun p hp => (hin p hp).1) hfit
  have hwfp : ∀ p ∈ sg.inputs.map (instB (fresh.map Tm.var)), p.wf = true := by
    intro p hp
    obtain ⟨q, hq, rfl⟩ := List.mem_map.mp hp
    exact (wf_instB_aux _ (fun r hr => by obtain ⟨v, _, rfl⟩ := List.mem_map.mp hr; rfl) q).1 (hin q hq).2
  obtain ⟨σ, hck, hag⟩ := checkList_complete E hE θ as _ [] (Agree.nil θ) has hwfp hfit'
  -- soundness of the same run: every input is closed under σ, so every fresh variable is solved
  have hcl : ∀ e ∈ as.map Ex.val, e.Closed := by
    intro e he; obtain ⟨a, ha, rfl⟩ := List.mem_map.mp he; exact (has a ha).2
  have r := checkList_sound_of E (as.map Ex.val) (fun e _ ty s => checkEx_sound E e ty s) _ [] σ hcl (Agree.nil θ).closed hck
  have hbound : ∀ f ∈ fresh, ∃ u, lookup σ f = some u := by
    intro f hf
    obtain ⟨p, hp, hfp⟩ := hocc f hf
    -- position of p in the list
    have : ∀ {es : List Ex} {ps : List Tm}, All2 (fun e p => FlagEq (apply σ p) e.synth) es ps →
        (∀ e ∈ es, e.Closed) → ∀ q ∈ ps, (apply σ q).vars = [] := by
      intro es ps h
      induction h with
      | nil => intro _ q hq; cases hq
      | cons h1 _ ih =>
        intro hc q hq
        cases hq with
        | head => exact closed_of_flagEq h1 (hc _ (by simp))
        | tail _ hq => exact ih (fun e he => hc e (by simp [he])) q hq
    have hclosed := this r.eq hcl (instB (fresh.map Tm.var) p) (List.mem_map.mpr ⟨p, hp, rfl⟩)
    cases hl : lookup σ f with
    | some u => exact ⟨u, rfl⟩
    | none =>
      have : f ∈ (apply σ (instB (fresh.map Tm.var) p)).vars :=
        mem_vars_inst' (θ := asFun σ) _ hfp (by simp [asFun, hl, Tm.vars])
      rw [hclosed] at this; cases this
  have hins : All2 FlagEq (fresh.map (asFun σ)) ρ := by
    rw [← hθρ]
    apply all2_of_map (by simp)
    intro i h1 h2
    simp only [List.getElem_map]
    have hi : i < fresh.length := by simpa using h1
    obtain ⟨u, hu⟩ := hbound (fresh[i]'hi) (List.getElem_mem _)
    have := hag.agr _ u hu
    simp only [asFun, hu]
    exact this.symm
  refine ⟨fresh.map (asFun σ), ?_, hins⟩
  unfold synthCall
  simp only [List.length_map, hlen, ne_eq, not_true_eq_false, if_false, finishCall, hck]
  have h1 : ((instB (fresh.map Tm.var) sg.out).vars.all fun v => (lookup σ v).isSome) = true := by
    rw [List.all_eq_true]
    intro z hz
    obtain ⟨u, hu⟩ := hbound z (vars_instB_fresh fresh sg.out hout z hz)
    simp [hu]
  have h2 : (fresh.all fun v => (lookup σ v).isSome) = true := by
    rw [List.all_eq_true]
    intro z hz
    obtain ⟨u, hu⟩ := hbound z hz
    simp [hu]
  have h3 : boundsOk E sg.bounds (fresh.map (asFun σ)) = true := by
    rw [boundsOk_congr E sg.bounds _ _ hins]; exact hb
  simp only [h1, h2, h3, Bool.not_true, if_true]
  simp only [Bool.false_eq_true, if_false]
  congr 1
  unfold apply
  rw [inst_instB (asFun σ) fresh sg.out hout]

end GuppyVerif.Unify
