import GuppyVerif.Spec.C02
import GuppyVerif.Props.C03
import GuppyVerif.Props.C08
/-! Existence of the guard theorems of other properties named in `Spec/C02.lean` (`Guard.theorem`).  Built by
    `harness/props/c02.py` on every run, separately from `Props/C02.lean`: if one of these names no longer
    resolves, the C02 tie is reported broken; if `Props/C03` / `Props/C08` themselves do not build (another builder's
    work in progress), that is recorded in the evidence and is not a C02 failure. -/
namespace GuppyVerif.C02.Guards

example := @GuppyVerif.UseDef.no_internal_error
example := @GuppyVerif.Builder.two_successors_have_pred

/-- the names checked above are exactly the external theorems of `Guard.theorem` -/
example : [Guard.useDefNoInternalError, .twoSuccessorsHavePred].map Guard.theorem =
    ["GuppyVerif.UseDef.no_internal_error", "GuppyVerif.Builder.two_successors_have_pred"] := rfl

end GuppyVerif.C02.Guards
