import GuppyVerif.Lemmas.C03Shape
/-! # C03 helper lemmas: every non-entry block of a built CFG has a predecessor (real or dummy edge)

`HP σ i`: block `i` is the target of a real or a dummy edge of state `σ`.
`EMono σ σ'`: edges are only ever added (and the `internal` flag is sticky).
`NP σ σ'`: `EMono σ σ'` and every block created between `σ` and `σ'` has a predecessor in `σ'`.
`PE` / `PS`: what `bld` / `build` establish (`NP`, plus predecessors for the jump targets).
The invariant is pushed through `bld`, `build`, and the reachability / pruning passes of `buildCfg`. -/
namespace GuppyVerif.Builder
open GuppyVerif.Surface

/-- block `i` has a predecessor over a real or a dummy edge -/
def HP (σ : BState) (i : Nat) : Prop := ∃ j, i ∈ (σ.blk j).succs ∨ i ∈ (σ.blk j).dsuccs

/-- edges are append-only, the internal flag is sticky -/
structure EMono (σ σ' : BState) : Prop where
  s : ∀ j i, i ∈ (σ.blk j).succs → i ∈ (σ'.blk j).succs
  d : ∀ j i, i ∈ (σ.blk j).dsuccs → i ∈ (σ'.blk j).dsuccs
  int : σ.internal = true → σ'.internal = true

theorem EMono.refl (σ : BState) : EMono σ σ := ⟨fun _ _ h => h, fun _ _ h => h, fun h => h⟩

theorem EMono.trans {σ σ1 σ2 : BState} (h1 : EMono σ σ1) (h2 : EMono σ1 σ2) : EMono σ σ2 :=
  ⟨fun j i h => h2.s j i (h1.s j i h), fun j i h => h2.d j i (h1.d j i h), fun h => h2.int (h1.int h)⟩

theorem HP.mono {σ σ' : BState} {i : Nat} (h : EMono σ σ') : HP σ i → HP σ' i := by
  rintro ⟨j, hj | hj⟩
  · exact ⟨j, Or.inl (h.s j i hj)⟩
  · exact ⟨j, Or.inr (h.d j i hj)⟩

/-! ### primitives -/

theorem emono_upd (σ : BState) (k : Nat) (f : Block → Block)
    (hs : ∀ (B : Block) i, i ∈ B.succs → i ∈ (f B).succs)
    (hd : ∀ (B : Block) i, i ∈ B.dsuccs → i ∈ (f B).dsuccs) : EMono σ (σ.upd k f) := by
  refine ⟨?_, ?_, fun h => h⟩
  · intro j i h
    by_cases hjk : j = k
    · subst hjk
      by_cases hl : j < σ.len
      · rw [blk_upd_same _ _ _ hl]; exact hs _ _ h
      · rw [empty_of_ge σ (Nat.le_of_not_lt hl)] at h; cases h
    · rw [blk_upd_other _ _ _ _ hjk]; exact h
  · intro j i h
    by_cases hjk : j = k
    · subst hjk
      by_cases hl : j < σ.len
      · rw [blk_upd_same _ _ _ hl]; exact hd _ _ h
      · rw [empty_of_ge σ (Nat.le_of_not_lt hl)] at h; cases h
    · rw [blk_upd_other _ _ _ _ hjk]; exact h

theorem emono_link (a b : Nat) (σ : BState) : EMono σ (link a b σ) :=
  emono_upd σ a _ (fun _ _ h => List.mem_append.mpr (Or.inl h)) (fun _ _ h => h)
theorem emono_dummyLink (a b : Nat) (σ : BState) : EMono σ (dummyLink a b σ) :=
  emono_upd σ a _ (fun _ _ h => h) (fun _ _ h => List.mem_append.mpr (Or.inl h))
theorem emono_addStmt (b : Nat) (s : BStmt) (σ : BState) : EMono σ (addStmt b s σ) :=
  emono_upd σ b _ (fun _ _ h => h) (fun _ _ h => h)
theorem emono_branchOn (b : Nat) (p : Expr) (t f : Nat) (σ : BState) : EMono σ (branchOn b p t f σ) := by
  unfold branchOn
  exact ((emono_upd σ b (fun B => { B with pred := some p }) (fun _ _ h => h) (fun _ _ h => h)).trans
    (emono_link _ _ _)).trans (emono_link _ _ _)
theorem emono_freshTmp (σ : BState) : EMono σ (freshTmp σ).2 := ⟨fun _ _ h => h, fun _ _ h => h, fun h => h⟩
theorem emono_bad (σ : BState) (v : Bool) : EMono σ { σ with bad := v } := ⟨fun _ _ h => h, fun _ _ h => h, fun h => h⟩
theorem emono_internal (σ : BState) : EMono σ { σ with internal := true } :=
  ⟨fun _ _ h => h, fun _ _ h => h, fun _ => rfl⟩

theorem emono_newBB (σ : BState) : EMono σ (newBB σ).2 := by
  refine ⟨?_, ?_, fun h => h⟩
  · intro j i h
    by_cases hl : j < σ.len
    · rw [blk_newBB_old _ _ hl]; exact h
    · rw [empty_of_ge σ (Nat.le_of_not_lt hl)] at h; cases h
  · intro j i h
    by_cases hl : j < σ.len
    · rw [blk_newBB_old _ _ hl]; exact h
    · rw [empty_of_ge σ (Nat.le_of_not_lt hl)] at h; cases h

theorem hp_link (a b : Nat) (σ : BState) (h : a < σ.len) : HP (link a b σ) b :=
  ⟨a, Or.inl (by rw [blk_link_same _ _ _ h]; simp)⟩
theorem hp_dummyLink (a b : Nat) (σ : BState) (h : a < σ.len) : HP (dummyLink a b σ) b :=
  ⟨a, Or.inr (by rw [blk_dummyLink_same _ _ _ h]; simp)⟩
theorem hp_branchOn (b : Nat) (p : Expr) (t f : Nat) (σ : BState) (h : b < σ.len) :
    HP (branchOn b p t f σ) t ∧ HP (branchOn b p t f σ) f :=
  ⟨⟨b, Or.inl (by rw [blk_branchOn_same _ _ _ _ _ h]; simp)⟩, ⟨b, Or.inl (by rw [blk_branchOn_same _ _ _ _ _ h]; simp)⟩⟩

/-! ### `NP`: edges grow, and every new block has a predecessor -/

structure NP (σ σ' : BState) : Prop where
  mono : EMono σ σ'
  new : ∀ i, σ.len ≤ i → i < σ'.len → HP σ' i

theorem NP.refl (σ : BState) : NP σ σ := ⟨EMono.refl σ, fun i h1 h2 => absurd h2 (by omega)⟩

theorem NP.trans {σ σ1 σ2 : BState} (h1 : NP σ σ1) (h2 : NP σ1 σ2) : NP σ σ2 := by
  refine ⟨h1.mono.trans h2.mono, ?_⟩
  intro i hi hi2
  by_cases h : i < σ1.len
  · exact (h1.new i hi h).mono h2.mono
  · exact h2.new i (Nat.le_of_not_lt h) hi2

theorem NP.of_mono {σ σ' : BState} (h : EMono σ σ') (hl : σ'.len = σ.len) : NP σ σ' :=
  ⟨h, fun i h1 h2 => absurd h2 (by omega)⟩

/-- a block created with `newBB` that receives a predecessor later -/
theorem NP.after_newBB {σ σ' : BState} {n : Nat} (hn : σ.len = n) (h : NP (newBB σ).2 σ') (hx : HP σ' n) : NP σ σ' := by
  subst hn
  refine ⟨(emono_newBB σ).trans h.mono, ?_⟩
  intro i hi hi2
  by_cases hi' : i = σ.len
  · subst hi'; exact hx
  · exact h.new i (by simp only [len_newBB]; omega) hi2

theorem np_newBB2 {σ : BState} {p : Nat} (q : Nat) (hp : p < σ.len) : NP σ (newBB2 p q σ).2 := by
  simp only [newBB2, fst_newBB]
  refine NP.after_newBB rfl (NP.of_mono ((emono_link _ _ _).trans (emono_link _ _ _)) (by simp)) ?_
  exact (hp_link p σ.len (newBB σ).2 (by simp only [len_newBB]; omega)).mono (emono_link _ _ _)

theorem np_mergeSt {σ2 : BState} {p : Nat} (q : Nat) (ep eq : Expr) (hp : p < σ2.len) : NP σ2 (mergeSt p q ep eq σ2) := by
  unfold mergeSt
  have n1 : NP σ2 (addStmt q (.assign (.tmp σ2.nextTmp) eq) (addStmt p (.assign (.tmp σ2.nextTmp) ep) (freshTmp σ2).2)) :=
    NP.of_mono (((emono_freshTmp σ2).trans (emono_addStmt _ _ _)).trans (emono_addStmt _ _ _)) (by simp)
  refine n1.trans (NP.after_newBB (n := σ2.len) (by simp)
    (NP.of_mono ((emono_link _ _ _).trans (emono_link _ _ _)) (by simp)) ?_)
  exact (hp_link p σ2.len _ (by simp only [len_newBB, len_addStmt, len_freshTmp]; omega)).mono (emono_link _ _ _)

theorem np_preBind (c : Bool) (e : Expr) (b : Nat) (σ : BState) : NP σ (preBind c e b σ).2 := by
  cases c with
  | false => exact NP.refl σ
  | true =>
    simp only [preBind, if_true, bindTmp]
    exact NP.of_mono ((emono_freshTmp σ).trans (emono_addStmt _ _ _)) (by simp)

/-! ### expressions -/

/-- what building an expression establishes: `NP`, and in branch mode both targets have a predecessor -/
def PE (σ : BState) (m : Mode) (σ' : BState) : Prop :=
  NP σ σ' ∧ ∀ t f, m = .br t f → HP σ' t ∧ HP σ' f

theorem NP.pe_val {σ σ' : BState} (h : NP σ σ') : PE σ .val σ' := ⟨h, fun _ _ h => by cases h⟩

theorem PE.trans {σ σ1 σ2 : BState} {m1 m : Mode} (h1 : PE σ m1 σ1) (h2 : PE σ1 m σ2) : PE σ m σ2 :=
  ⟨h1.1.trans h2.1, h2.2⟩
theorem PE.transN {σ σ1 σ2 : BState} {m : Mode} (h1 : NP σ σ1) (h2 : PE σ1 m σ2) : PE σ m σ2 :=
  ⟨h1.trans h2.1, h2.2⟩
theorem PE.swap {σ σ' : BState} {t f : Nat} (h : PE σ (.br f t) σ') : PE σ (.br t f) σ' :=
  ⟨h.1, fun t' f' he => by cases he; exact (h.2 f t rfl).symm⟩

theorem pe_finish (m : Mode) (e : Expr) {b : Nat} {σ : BState} (hb : b < σ.len) : PE σ m (finish m e b σ).2.2 := by
  cases m with
  | val => exact (NP.refl σ).pe_val
  | br t f =>
    exact ⟨NP.of_mono (emono_branchOn _ _ _ _ _) (by simp [finish]),
      fun t' f' he => by cases he; exact hp_branchOn b e t f σ hb⟩

/-- two blocks created up front (`scPre`, `visit_IfExp`) that are the targets of a branch built later -/
theorem NP.after_newBB2 {σ σ' : BState} (h : PE (newBB (newBB σ).2).2 (.br σ.len (σ.len + 1)) σ') : NP σ σ' := by
  obtain ⟨h1, h2⟩ := h.2 _ _ rfl
  exact NP.after_newBB rfl (NP.after_newBB (by simp) h.1 h2) h1

def PEE (e : Expr) : Prop := ∀ (m : Mode) (b : Nat) (σ : BState), b < σ.len → (σ.blk b).succs = [] →
  PE σ m (bld e m b σ).2.2

/-- `new x; F1 from b (branching to x); F2 from x` -/
theorem pe_sc_body {σp : BState} {b : Nat} (hb : b < σp.len) (ho : (σp.blk b).succs = []) (m1 m2 : Mode)
    (F1 F2 : BState → BState)
    (tF1 : ∀ σ, b < σ.len → (σ.blk b).succs = [] → Touch σ b (F1 σ))
    (hF1 : ∀ σ, b < σ.len → (σ.blk b).succs = [] → PE σ m1 (F1 σ))
    (hF2 : ∀ σ, σp.len < σ.len → (σ.blk σp.len).succs = [] → PE σ m2 (F2 σ))
    (hx : ∃ t f, m1 = .br t f ∧ (t = σp.len ∨ f = σp.len)) :
    PE σp m2 (F2 (F1 (newBB σp).2)) := by
  have hb' : b < (newBB σp).2.len := by simp; omega
  have ho' : ((newBB σp).2.blk b).succs = [] := by rw [blk_newBB_old σp b hb]; exact ho
  have t1 := tF1 _ hb' ho'
  have hl1 := t1.len
  simp only [len_newBB] at hl1
  have hxo : ((F1 (newBB σp).2).blk σp.len).succs = [] := by
    rw [t1.frame _ (by simp) (by omega), blk_newBB_new]
  have p1 := hF1 _ hb' ho'
  have p2 := hF2 _ (by omega) hxo
  have hpx : HP (F1 (newBB σp).2) σp.len := by
    obtain ⟨t, f, hm, htf⟩ := hx
    obtain ⟨a1, a2⟩ := p1.2 t f hm
    rcases htf with rfl | rfl
    · exact a1
    · exact a2
  exact ⟨NP.after_newBB rfl (p1.1.trans p2.1) (hpx.mono p2.1.mono), p2.2⟩

theorem pe_scPost_val {σ σ2 : BState} {b : Nat} (hT : Touch (newBB (newBB σ).2).2 b σ2)
    (h : PE (newBB (newBB σ).2).2 (.br σ.len (σ.len + 1)) σ2) :
    PE σ .val (scPost .val σ.len (σ.len + 1) b σ2).2.2 := by
  rw [scPost_val_eq]
  have hlen := hT.len
  simp only [len_newBB] at hlen
  exact ((NP.after_newBB2 h).trans (np_mergeSt _ _ _ (by omega))).pe_val

theorem pe_cmp2_body {o1 o2 : CmpOp} {l mid r : Expr} (hl : PEE l) (hm : PEE mid) (hr : PEE r)
    {σp : BState} {b : Nat} (hb : b < σp.len) (ho : (σp.blk b).succs = []) (t' f' : Nat) :
    PE σp (.br t' f') (cmp2Body o1 o2 l mid r t' f' b σp) := by
  simp only [cmp2Body, fst_newBB]
  have hb' : b < (newBB σp).2.len := by simp; omega
  have ho' : ((newBB σp).2.blk b).succs = [] := by rw [blk_newBB_old σp b hb]; exact ho
  have ga : GoodV _ b (bld l .val b (newBB σp).2).2.1 (bld l .val b (newBB σp).2).2.2 := bld_good l .val b _ hb' ho'
  have ka := (hl .val b _ hb' ho').1
  generalize bld l .val b (newBB σp).2 = a at *
  have gp := preBind_good hb' ga ((lifts mid || !atomicSyn mid) && needBind a.1 mid) a.1
  have kp := ka.trans (np_preBind ((lifts mid || !atomicSyn mid) && needBind a.1 mid) a.1 a.2.1 a.2.2)
  generalize preBind ((lifts mid || !atomicSyn mid) && needBind a.1 mid) a.1 a.2.1 a.2.2 = p at *
  have gc : GoodV _ _ (bld mid .val a.2.1 p.2).2.1 (bld mid .val a.2.1 p.2).2.2 := bld_good mid .val _ _ gp.lt gp.opn
  have kc := kp.trans (hm .val _ _ gp.lt gp.opn).1
  have gac := GoodV.trans hb' gp gc
  generalize bld mid .val a.2.1 p.2 = c at *
  have gm := preBind_good hb' gac (!stable c.1 r) c.1
  have km := kc.trans (np_preBind (!stable c.1 r) c.1 c.2.1 c.2.2)
  generalize preBind (!stable c.1 r) c.1 c.2.1 c.2.2 = pm at *
  have t1 : Touch (newBB σp).2 b (branchOn c.2.1 (.bi (.cmp o1) p.1 pm.1) σp.len f' pm.2) :=
    gm.touch.trans (touch_branchOn _ _ _ _ _) hb' gm.cur
  have k1 := km.trans (NP.of_mono (emono_branchOn c.2.1 (.bi (.cmp o1) p.1 pm.1) σp.len f' pm.2) (by simp))
  have hx1 := (hp_branchOn c.2.1 (.bi (.cmp o1) p.1 pm.1) σp.len f' pm.2 gm.lt).1
  generalize hσ1 : branchOn c.2.1 (.bi (.cmp o1) p.1 pm.1) σp.len f' pm.2 = σ1 at *
  have hl1 := t1.len
  simp only [len_newBB] at hl1
  have hxo : (σ1.blk σp.len).succs = [] := by
    rw [t1.frame _ (by simp) (by omega), blk_newBB_new]
  have g0 : GoodV σ1 σp.len σp.len σ1 := GoodV.refl (by omega) hxo
  have gp2 := preBind_good (σ := σ1) (by omega) g0 (lifts r && needBind pm.1 r) pm.1
  have kp2 := np_preBind (lifts r && needBind pm.1 r) pm.1 σp.len σ1
  generalize preBind (lifts r && needBind pm.1 r) pm.1 σp.len σ1 = p2 at *
  have gd : GoodV _ _ (bld r .val σp.len p2.2).2.1 (bld r .val σp.len p2.2).2.2 := bld_good r .val _ _ gp2.lt gp2.opn
  have kd := kp2.trans (hr .val _ _ gp2.lt gp2.opn).1
  generalize bld r .val σp.len p2.2 = d at *
  have kf : NP σ1 (branchOn d.2.1 (.bi (.cmp o2) p2.1 d.1) t' f' d.2.2) :=
    kd.trans (NP.of_mono (emono_branchOn _ _ _ _ _) (by simp))
  refine ⟨NP.after_newBB rfl (k1.trans kf) (hx1.mono kf.mono), ?_⟩
  intro t f he
  cases he
  exact hp_branchOn _ _ _ _ _ gd.lt

theorem pe_bld (e : Expr) : PEE e := by
  induction e with
  | var x => intro m b σ hb _; exact pe_finish m _ hb
  | num n => intro m b σ hb _; exact pe_finish m _ hb
  | call0 g => intro m b σ hb _; exact pe_finish m _ hb
  | bool v =>
    intro m b σ hb _
    cases m with
    | val => exact (NP.refl σ).pe_val
    | br t f =>
      simp only [bld]
      refine ⟨NP.of_mono ((emono_link _ _ _).trans (emono_dummyLink _ _ _)) (by simp), ?_⟩
      intro t' f' he
      cases he
      cases v with
      | true =>
        exact ⟨(hp_link b t σ hb).mono (emono_dummyLink _ _ _), hp_dummyLink b f _ (by simpa using hb)⟩
      | false =>
        exact ⟨hp_dummyLink b t _ (by simpa using hb), (hp_link b f σ hb).mono (emono_dummyLink _ _ _)⟩
  | un o e ih =>
    intro m b σ hb ho
    have g : GoodV σ b (bld e .val b σ).2.1 (bld e .val b σ).2.2 := bld_good e .val b σ hb ho
    have hv := ih .val b σ hb ho
    cases hf : foldNeg o e with
    | some n =>
      have : bld (.un o e) m b σ = finish m (.num n) b σ ∨ (∃ t f, m = .br t f ∧ o = .not) := by
        cases o <;> cases m <;> simp [bld, hf]
      rcases this with h1 | ⟨t, f, rfl, rfl⟩
      · rw [h1]; exact pe_finish m _ hb
      · simp only [bld]; exact (ih (.br f t) b σ hb ho).swap
    | none =>
      have : bld (.un o e) m b σ = finish m (.un o (bld e .val b σ).1) (bld e .val b σ).2.1 (bld e .val b σ).2.2 ∨
          (∃ t f, m = .br t f ∧ o = .not) := by
        cases o <;> cases m <;> simp [bld, hf]
      rcases this with h1 | ⟨t, f, rfl, rfl⟩
      · rw [h1]; exact hv.trans (pe_finish m _ g.lt)
      · simp only [bld]; exact (ih (.br f t) b σ hb ho).swap
  | bi o l r ihl ihr =>
    intro m b σ hb ho
    have ga : GoodV σ b (bld l .val b σ).2.1 (bld l .val b σ).2.2 := bld_good l .val b σ hb ho
    have ka := (ihl .val b σ hb ho).1
    simp only [bld]
    generalize bld l .val b σ = a at *
    have gp := preBind_good hb ga (lifts r && needBind a.1 r) a.1
    have kp := ka.trans (np_preBind (lifts r && needBind a.1 r) a.1 a.2.1 a.2.2)
    generalize preBind (lifts r && needBind a.1 r) a.1 a.2.1 a.2.2 = p at *
    have gc : GoodV _ _ (bld r .val a.2.1 p.2).2.1 (bld r .val a.2.1 p.2).2.2 := bld_good r .val _ _ gp.lt gp.opn
    exact PE.transN (kp.trans (ihr .val _ _ gp.lt gp.opn).1) (pe_finish m _ gc.lt)
  | walrus x e ih =>
    intro m b σ hb ho
    have g : GoodV σ b (bld e .val b σ).2.1 (bld e .val b σ).2.2 := bld_good e .val b σ hb ho
    simp only [bld]
    exact PE.transN ((ih .val b σ hb ho).1.trans (NP.of_mono (emono_addStmt _ _ _) (by simp)))
      (pe_finish m _ (by simpa using g.lt))
  | and l r ihl ihr =>
    intro m b σ hb ho
    cases m with
    | br t f =>
      simp only [bld, scPre, scPost, fst_newBB]
      exact pe_sc_body hb ho (.br σ.len f) (.br t f)
        (fun s => (bld l (.br σ.len f) b s).2.2) (fun s => (bld r (.br t f) σ.len s).2.2)
        (fun s h1 h2 => bld_good l (.br σ.len f) b s h1 h2)
        (fun s h1 h2 => ihl (.br σ.len f) b s h1 h2) (fun s h1 h2 => ihr (.br t f) σ.len s h1 h2)
        ⟨_, _, rfl, Or.inl rfl⟩
    | val =>
      simp only [bld, scPre_val, fst_newBB, len_newBB]
      have hb' : b < (newBB (newBB σ).2).2.len := by simp; omega
      have ho' : ((newBB (newBB σ).2).2.blk b).succs = [] := by
        rw [blk_newBB_old _ b (by simp; omega), blk_newBB_old σ b hb]; exact ho
      have hT := (sc_body hb' ho' (σ.len + 1 + 1) (by simp)
        (fun s => (bld l (.br (σ.len + 1 + 1) (σ.len + 1)) b s).2.2)
        (fun s => (bld r (.br σ.len (σ.len + 1)) (σ.len + 1 + 1) s).2.2)
        (fun s h1 h2 => bld_good l (.br _ _) b s h1 h2) (fun s h1 h2 => bld_good r (.br _ _) _ s h1 h2)).1
      have hpe := pe_sc_body hb' ho' (.br (σ.len + 1 + 1) (σ.len + 1)) (.br σ.len (σ.len + 1))
        (fun s => (bld l (.br (σ.len + 1 + 1) (σ.len + 1)) b s).2.2)
        (fun s => (bld r (.br σ.len (σ.len + 1)) (σ.len + 1 + 1) s).2.2)
        (fun s h1 h2 => bld_good l (.br _ _) b s h1 h2)
        (fun s h1 h2 => ihl (.br _ _) b s h1 h2)
        (fun s h1 h2 => ihr (.br _ _) _ s (by simpa using h1) (by simpa using h2))
        ⟨_, _, rfl, Or.inl (by simp)⟩
      exact pe_scPost_val hT hpe
  | or l r ihl ihr =>
    intro m b σ hb ho
    cases m with
    | br t f =>
      simp only [bld, scPre, scPost, fst_newBB]
      exact pe_sc_body hb ho (.br t σ.len) (.br t f)
        (fun s => (bld l (.br t σ.len) b s).2.2) (fun s => (bld r (.br t f) σ.len s).2.2)
        (fun s h1 h2 => bld_good l (.br t σ.len) b s h1 h2)
        (fun s h1 h2 => ihl (.br t σ.len) b s h1 h2) (fun s h1 h2 => ihr (.br t f) σ.len s h1 h2)
        ⟨_, _, rfl, Or.inr rfl⟩
    | val =>
      simp only [bld, scPre_val, fst_newBB, len_newBB]
      have hb' : b < (newBB (newBB σ).2).2.len := by simp; omega
      have ho' : ((newBB (newBB σ).2).2.blk b).succs = [] := by
        rw [blk_newBB_old _ b (by simp; omega), blk_newBB_old σ b hb]; exact ho
      have hT := (sc_body hb' ho' (σ.len + 1 + 1) (by simp)
        (fun s => (bld l (.br σ.len (σ.len + 1 + 1)) b s).2.2)
        (fun s => (bld r (.br σ.len (σ.len + 1)) (σ.len + 1 + 1) s).2.2)
        (fun s h1 h2 => bld_good l (.br _ _) b s h1 h2) (fun s h1 h2 => bld_good r (.br _ _) _ s h1 h2)).1
      have hpe := pe_sc_body hb' ho' (.br σ.len (σ.len + 1 + 1)) (.br σ.len (σ.len + 1))
        (fun s => (bld l (.br σ.len (σ.len + 1 + 1)) b s).2.2)
        (fun s => (bld r (.br σ.len (σ.len + 1)) (σ.len + 1 + 1) s).2.2)
        (fun s h1 h2 => bld_good l (.br _ _) b s h1 h2)
        (fun s h1 h2 => ihl (.br _ _) b s h1 h2)
        (fun s h1 h2 => ihr (.br _ _) _ s (by simpa using h1) (by simpa using h2))
        ⟨_, _, rfl, Or.inr (by simp)⟩
      exact pe_scPost_val hT hpe
  | cmp2 o1 o2 l mid r ihl ihm ihr =>
    intro m b σ hb ho
    cases m with
    | br t f =>
      simp only [bld, scPre, scPost]
      exact pe_cmp2_body ihl ihm ihr hb ho t f
    | val =>
      simp only [bld, scPre_val]
      have hb' : b < (newBB (newBB σ).2).2.len := by simp; omega
      have ho' : ((newBB (newBB σ).2).2.blk b).succs = [] := by
        rw [blk_newBB_old _ b (by simp; omega), blk_newBB_old σ b hb]; exact ho
      have hT := (cmp2_body (o1 := o1) (o2 := o2) (bld_good l) (bld_good mid) (bld_good r) hb' ho' σ.len (σ.len + 1)).1
      have hpe := pe_cmp2_body (o1 := o1) (o2 := o2) ihl ihm ihr hb' ho' σ.len (σ.len + 1)
      exact pe_scPost_val hT hpe
  | ite c x y ihc ihx ihy =>
    intro m b σ hb ho
    obtain ⟨t1, hl1, htb, heb, hb', ho', _⟩ := itS1_facts c hb ho
    have k1 : PE _ (.br σ.len (σ.len + 1)) (itS1 c b σ) := ihc (.br σ.len (σ.len + 1)) b _ hb' ho'
    have n1 : NP σ (itS1 c b σ) := NP.after_newBB2 k1
    cases m with
    | br t f =>
      rw [bld_ite_br]
      have t2 := bld_good x (.br t f) σ.len (itS1 c b σ) (by omega) (by rw [htb])
      have hl2 := t2.len
      have heb2 : (bld x (.br t f) σ.len (itS1 c b σ)).2.2.blk (σ.len + 1) = {} := by
        rw [t2.frame (σ.len + 1) (by omega) (by omega)]; exact heb
      exact PE.transN n1 ((ihx (.br t f) σ.len (itS1 c b σ) (by omega) (by rw [htb])).trans
        (ihy (.br t f) (σ.len + 1) (bld x (.br t f) σ.len (itS1 c b σ)).2.2 (by omega) (by rw [heb2])))
    | val =>
      rw [bld_ite_val, iteMerge_eq]
      have gu : GoodV (itS1 c b σ) σ.len (itU c x b σ).2.1 (itU c x b σ).2.2 :=
        bld_good x .val σ.len (itS1 c b σ) (by omega) (by rw [htb])
      have hlu := gu.touch.len
      have heb2 : (itU c x b σ).2.2.blk (σ.len + 1) = {} := by
        rw [gu.touch.frame (σ.len + 1) (by omega) (by omega)]; exact heb
      have gv : GoodV (itU c x b σ).2.2 (σ.len + 1) (itV c x y b σ).2.1 (itV c x y b σ).2.2 :=
        bld_good y .val (σ.len + 1) _ (by omega) (by rw [heb2])
      have hlv := gv.touch.len
      have hult := gu.lt
      have ku : PE (itS1 c b σ) .val (itU c x b σ).2.2 := ihx .val σ.len (itS1 c b σ) (by omega) (by rw [htb])
      have kv : PE (itU c x b σ).2.2 .val (itV c x y b σ).2.2 :=
        ihy .val (σ.len + 1) (itU c x b σ).2.2 (by omega) (by rw [heb2])
      exact ((n1.trans (ku.1.trans kv.1)).trans (np_mergeSt _ _ _ (by omega))).pe_val

/-! ### statements -/

/-- one of the jump targets has a predecessor (or `break` / `continue` occurred outside a loop) -/
def JHP (σ : BState) (J : Jumps) : Prop :=
  HP σ J.ret ∨ (∃ t, J.brk = some t ∧ HP σ t) ∨ (∃ t, J.cont = some t ∧ HP σ t) ∨ σ.internal = true

theorem JHP.mono {σ σ' : BState} {J : Jumps} (h : EMono σ σ') : JHP σ J → JHP σ' J := by
  rintro (h1 | ⟨t, h1, h2⟩ | ⟨t, h1, h2⟩ | h1)
  · exact Or.inl (h1.mono h)
  · exact Or.inr (Or.inl ⟨t, h1, h2.mono h⟩)
  · exact Or.inr (Or.inr (Or.inl ⟨t, h1, h2.mono h⟩))
  · exact Or.inr (Or.inr (Or.inr (h.int h1)))

/-- what building a statement establishes: `NP`, and if the statement jumped, some jump target has a predecessor -/
def PS (σ : BState) (J : Jumps) (r : BState × Option Nat) : Prop :=
  NP σ r.1 ∧ (r.2 = none → JHP r.1 J)

theorem PS.of_some {σ σ' : BState} {J : Jumps} {b : Nat} (h : NP σ σ') : PS σ J (σ', some b) :=
  ⟨h, fun h => by cases h⟩

theorem np_forTpl (x : Var) (it rs : Nat) {a : Nat} {s1 : BState} (ha : a < s1.len) (hao : (s1.blk a).succs = []) :
    NP s1 (forTpl x it rs a s1) := by
  obtain ⟨f1, _, f3, f4, f5, f6, f7, f8, f9⟩ := forTpl_facts x it rs ha hao
  refine ⟨⟨?_, ?_, fun h => h⟩, ?_⟩
  · intro j i h
    by_cases hja : j = a
    · subst hja; rw [hao] at h; cases h
    · by_cases hl : j < s1.len
      · rw [f9 j hl hja]; exact h
      · rw [empty_of_ge s1 (Nat.le_of_not_lt hl)] at h; cases h
  · intro j i h
    by_cases hja : j = a
    · subst hja; rw [f3]; exact h
    · by_cases hl : j < s1.len
      · rw [f9 j hl hja]; exact h
      · rw [empty_of_ge s1 (Nat.le_of_not_lt hl)] at h; cases h
  · intro i h1 h2
    rw [f1] at h2
    have : i = s1.len ∨ i = s1.len + 1 ∨ i = s1.len + 2 ∨ i = s1.len + 3 ∨ i = s1.len + 4 := by omega
    rcases this with rfl | rfl | rfl | rfl | rfl
    · exact ⟨a, Or.inl (by rw [f3]; simp)⟩
    · exact ⟨s1.len, Or.inl (by rw [f4]; simp)⟩
    · exact ⟨s1.len, Or.inr (by rw [f4]; simp)⟩
    · exact ⟨s1.len + 1, Or.inl (by rw [f5]; simp)⟩
    · exact ⟨s1.len + 1, Or.inl (by rw [f5]; simp)⟩

theorem ps_build (s : Stmt) : ∀ (prev b : Nat) (J : Jumps) (σ : BState), b < σ.len →
    (σ.blk b).succs = [] → PS σ J (build s prev (some b) J σ) := by
  induction s with
  | nil => intro prev b J σ _ _; exact PS.of_some (NP.refl σ)
  | pass => intro prev b J σ _ _; exact PS.of_some (NP.refl σ)
  | cons s rest ihs ihr =>
    intro prev b J σ hb ho
    simp only [build, ensure_some]
    have g1 := build_good s b b J σ hb ho
    have k1 := ihs b b J σ hb ho
    cases hr : (build s b (some b) J σ).2 with
    | some b1 =>
      obtain ⟨_, c2, c3⟩ := g1.cur b1 hr
      have k2 := ihr b b1 J _ c2 c3
      exact ⟨k1.1.trans k2.1, k2.2⟩
    | none =>
      by_cases hnil : rest = .nil
      · subst hnil; simp only [build]; exact ⟨k1.1, fun _ => k1.2 hr⟩
      · rw [build_ensure rest hnil, ensure_none]
        have hl1 := g1.touch.len
        have k2 := ihr b (build s b (some b) J σ).1.len J
          (dummyLink b (build s b (some b) J σ).1.len (newBB (build s b (some b) J σ).1).2)
          (by simp) (by rw [blk_dummyLink_other _ _ _ _ (by omega), blk_newBB_new])
        have n01 : NP (build s b (some b) J σ).1
            (dummyLink b (build s b (some b) J σ).1.len (newBB (build s b (some b) J σ).1).2) :=
          NP.after_newBB rfl (NP.of_mono (emono_dummyLink _ _ _) (by simp))
            (hp_dummyLink b _ _ (by simp only [len_newBB]; omega))
        exact ⟨k1.1.trans (n01.trans k2.1), k2.2⟩
  | assign x e =>
    intro prev b J σ hb ho
    simp only [build, ensure_some, buildE]
    exact PS.of_some ((pe_bld e .val b σ hb ho).1.trans (NP.of_mono (emono_addStmt _ _ _) (by simp)))
  | aug x op e =>
    intro prev b J σ hb ho
    simp only [build, ensure_some, buildE]
    split
    · have g0 : GoodV σ b b (preBind true (.var x) b σ).2 := preBind_good hb (GoodV.refl hb ho) true (.var x)
      have k0 := np_preBind true (.var x) b σ
      simp only [preBind, if_true] at g0 k0
      exact PS.of_some ((k0.trans (pe_bld e .val b _ g0.lt g0.opn).1).trans
        (NP.of_mono (emono_addStmt _ _ _) (by simp)))
    · exact PS.of_some ((pe_bld e .val b σ hb ho).1.trans (NP.of_mono (emono_addStmt _ _ _) (by simp)))
  | expr e =>
    intro prev b J σ hb ho
    simp only [build, ensure_some, buildE]
    cases isTmpVar (bld e .val b σ).1
    · exact PS.of_some ((pe_bld e .val b σ hb ho).1.trans (NP.of_mono (emono_addStmt _ _ _) (by simp)))
    · exact PS.of_some (pe_bld e .val b σ hb ho).1
  | brk =>
    intro prev b J σ hb ho
    simp only [build, ensure_some]
    split
    · rename_i t ht
      exact ⟨NP.of_mono (emono_link _ _ _) (by simp), fun _ => Or.inr (Or.inl ⟨t, ht, hp_link b t σ hb⟩)⟩
    · exact ⟨NP.of_mono (emono_internal σ) rfl, fun _ => Or.inr (Or.inr (Or.inr rfl))⟩
  | cont =>
    intro prev b J σ hb ho
    simp only [build, ensure_some]
    split
    · rename_i t ht
      exact ⟨NP.of_mono (emono_link _ _ _) (by simp), fun _ => Or.inr (Or.inr (Or.inl ⟨t, ht, hp_link b t σ hb⟩))⟩
    · exact ⟨NP.of_mono (emono_internal σ) rfl, fun _ => Or.inr (Or.inr (Or.inr rfl))⟩
  | ret e =>
    intro prev b J σ hb ho
    simp only [build, ensure_some, buildE]
    have g : GoodV σ b (bld e .val b σ).2.1 (bld e .val b σ).2.2 := bld_good e .val b σ hb ho
    exact ⟨(pe_bld e .val b σ hb ho).1.trans
        (NP.of_mono ((emono_addStmt _ _ _).trans (emono_link _ _ _)) (by simp)),
      fun _ => Or.inl (hp_link _ _ _ (by simpa using g.lt))⟩
  | ret0 =>
    intro prev b J σ hb ho
    simp only [build, ensure_some]
    exact ⟨NP.of_mono ((emono_addStmt _ _ _).trans (emono_link _ _ _)) (by simp),
      fun _ => Or.inl (hp_link _ _ _ (by simpa using hb))⟩
  | ite c t e iht ihe =>
    intro prev b J σ hb ho
    obtain ⟨t1, hl1, htb, heb, hb', ho', _⟩ := itS1_facts c hb ho
    have n1 : NP σ (itS1 c b σ) := NP.after_newBB2 (pe_bld c (.br σ.len (σ.len + 1)) b _ hb' ho')
    have gt := build_good t σ.len σ.len J (itS1 c b σ) (by omega) (by rw [htb])
    have kt := iht σ.len σ.len J (itS1 c b σ) (by omega) (by rw [htb])
    have hlt := gt.touch.len
    have hebc := gt.touch.frame (σ.len + 1) (by omega) (by omega)
    have heb2 : ((build t σ.len (some σ.len) J (itS1 c b σ)).1.blk (σ.len + 1)).succs = [] := by
      rw [core_succs hebc, heb]
    have ge := build_good e (σ.len + 1) (σ.len + 1) J _ (by omega) heb2
    have ke := ihe (σ.len + 1) (σ.len + 1) J _ (by omega) heb2
    have hle := ge.touch.len
    have nT := n1.trans (kt.1.trans ke.1)
    rw [build_ite_eq]
    cases hrt : (build t σ.len (some σ.len) J (itS1 c b σ)).2 with
    | none => simp only [iteFin, hrt]; exact ⟨nT, fun h => ke.2 h⟩
    | some a =>
      obtain ⟨a1, a2, a3⟩ := gt.cur a hrt
      cases hre : (build e (σ.len + 1) (some (σ.len + 1)) J (build t σ.len (some σ.len) J (itS1 c b σ)).1).2 with
      | none => simp only [iteFin, hrt, hre]; exact PS.of_some nT
      | some b2 =>
        simp only [iteFin, hrt, hre]
        exact PS.of_some (nT.trans (np_newBB2 b2 (by omega)))
  | «while» c body ih =>
    intro prev b J σ hb ho
    obtain ⟨l0, _, _, fh, _, _, _⟩ := whS0_facts hb ho
    obtain ⟨t1, hl1, fb, fbb, ftl, t01⟩ := whS1_facts c hb ho
    have kc : PE (whS0 b σ) (.br (σ.len + 1) (σ.len + 2)) (whS1 c b σ) :=
      pe_bld c (.br (σ.len + 1) (σ.len + 2)) σ.len (whS0 b σ) (by omega) (by rw [fh])
    obtain ⟨hbb, htl⟩ := kc.2 _ _ rfl
    have nb : NP (link b σ.len (newBB σ).2) (whS1 c b σ) :=
      NP.after_newBB (n := σ.len + 1) (by simp) (NP.after_newBB (n := σ.len + 2) (by simp) kc.1 htl) hbb
    have na : NP σ (whS1 c b σ) :=
      NP.after_newBB rfl ((NP.of_mono (emono_link b σ.len _) (by simp)).trans nb)
        ((hp_link b σ.len (newBB σ).2 (by simp only [len_newBB]; omega)).mono nb.mono)
    have kb : PS (whS1 c b σ) (whJ J σ) (whRB c body b J σ) :=
      ih (σ.len + 1) (σ.len + 1) (whJ J σ) (whS1 c b σ) (by omega) (by rw [fbb])
    rw [build_while_eq]
    cases hrb : (whRB c body b J σ).2 with
    | none => simp only [loopFin, hrb]; exact PS.of_some (na.trans kb.1)
    | some e =>
      simp only [loopFin, hrb]
      exact PS.of_some ((na.trans kb.1).trans (NP.of_mono (emono_link _ _ _) (by simp)))
  | «for» x e body ih =>
    intro prev b J σ hb ho
    have gA : GoodV (freshTmp (freshTmp σ).2).2 b (forA e b σ).2.1 (forA e b σ).2.2 :=
      bld_good e .val b (freshTmp (freshTmp σ).2).2 hb ho
    have kA : NP σ (forA e b σ).2.2 :=
      (NP.of_mono ((emono_freshTmp σ).trans (emono_freshTmp _)) rfl).trans
        (pe_bld e .val b (freshTmp (freshTmp σ).2).2 hb ho).1
    have k1 : NP σ (forS1 e b σ) := kA.trans (NP.of_mono (emono_addStmt _ _ _) (len_addStmt _ _ _))
    have g1lt : (forA e b σ).2.1 < (forS1 e b σ).len := by
      show _ < (addStmt _ _ (forA e b σ).2.2).len
      simpa using gA.lt
    have g1o : ((forS1 e b σ).blk (forA e b σ).2.1).succs = [] := by
      show ((addStmt _ _ (forA e b σ).2.2).blk _).succs = []
      rw [blk_addStmt_same _ _ _ gA.lt]; exact gA.opn
    have k7 : NP σ (forS7 x e b σ) := k1.trans (np_forTpl x σ.nextTmp (σ.nextTmp + 1) g1lt g1o)
    obtain ⟨_, _, hl7, _, _, _, _, _, _, feb⟩ := forS7_facts x e hb ho
    have kb : PS (forS7 x e b σ) (forJ J e b σ) (forRB x e body b J σ) :=
      ih _ _ (forJ J e b σ) (forS7 x e b σ) (by omega) (by rw [feb])
    rw [build_for_eq]
    cases hrb : (forRB x e body b J σ).2 with
    | none => simp only [loopFin, hrb]; exact PS.of_some (k7.trans kb.1)
    | some e' =>
      simp only [loopFin, hrb]
      exact PS.of_some ((k7.trans kb.1).trans (NP.of_mono (emono_link _ _ _) (by simp)))
  | forFrom x n m body ih =>
    intro prev b J σ hb ho
    simp only [build, ensure_some]
    exact PS.of_some (NP.of_mono (emono_bad σ true) rfl)

/-! ### reachability flags and pruning -/

theorem path_last {bl : List Block} {a i : Nat} (h : Path bl a i) (hne : i ≠ a) :
    ∃ j, Path bl a j ∧ i ∈ (blkL bl j).succs := by
  cases h with
  | refl => exact absurd rfl hne
  | step hp hc => exact ⟨_, hp, hc⟩

theorem dsuccs_setReach (σ : BState) (rs : List Nat) (i : Nat) :
    (({ σ with blocks := setReach rs σ.blocks } : BState).blk i).dsuccs = (σ.blk i).dsuccs := by
  by_cases hi : i < σ.len
  · show (blkL (setReach rs σ.blocks) i).dsuccs = _
    rw [blkL_setReach rs σ.blocks i hi]
  · have h1 : σ.blk i = {} := empty_of_ge σ (Nat.le_of_not_lt hi)
    have h2 : blkL (setReach rs σ.blocks) i = {} := by
      simp [blkL, List.getElem?_eq_none (show (setReach rs σ.blocks).length ≤ i by rw [length_setReach]; exact Nat.le_of_not_lt hi)]
    show (blkL (setReach rs σ.blocks) i).dsuccs = _
    rw [h1, h2]

theorem dsuccs_link_setReach (σ : BState) (rs : List Nat) (fin t i : Nat) :
    ((link fin t ({ σ with blocks := setReach rs σ.blocks } : BState)).blk i).dsuccs = ((link fin t σ).blk i).dsuccs := by
  have hlen : ({ σ with blocks := setReach rs σ.blocks } : BState).len = σ.len := length_setReach rs σ.blocks
  have c1 := dsuccs_setReach σ rs i
  by_cases hi : i = fin
  · subst hi
    by_cases hl : i < σ.len
    · rw [blk_link_same _ _ _ (by rw [hlen]; exact hl), blk_link_same _ _ _ hl]
      exact c1
    · rw [empty_of_ge _ (by simp only [len_link]; omega), empty_of_ge _ (by simp only [len_link]; omega)]
  · rw [blk_link_other _ _ _ _ hi, blk_link_other _ _ _ _ hi]
    exact c1

theorem upd_reach_facts (σ : BState) (i k : Nat) :
    ((σ.upd k fun B => { B with reach := true }).blk i).succs = (σ.blk i).succs ∧
    ((σ.upd k fun B => { B with reach := true }).blk i).dsuccs = (σ.blk i).dsuccs ∧
    (i < σ.len → (((σ.upd k fun B => { B with reach := true }).blk i).reach = true ↔
      ((σ.blk i).reach = true ∨ i = k))) := by
  by_cases hik : i = k
  · subst hik
    by_cases hl : i < σ.len
    · rw [blk_upd_same _ _ _ hl]; exact ⟨rfl, rfl, fun _ => ⟨fun _ => Or.inr rfl, fun _ => rfl⟩⟩
    · have e1 := empty_of_ge σ (Nat.le_of_not_lt hl)
      have e2 := empty_of_ge (σ.upd i fun B => { B with reach := true }) (i := i) (by simp only [len_upd]; omega)
      rw [e1, e2]; exact ⟨rfl, rfl, fun h => absurd h hl⟩
  · rw [blk_upd_other _ _ _ _ hik]
    exact ⟨rfl, rfl, fun _ => ⟨fun h => Or.inl h, fun h => h.resolve_right hik⟩⟩

/-- pruning keeps a predecessor for every block, provided the flags are closed under real edges into the
    block and a flagged block has a flagged real predecessor -/
theorem prune_has_pred {σ' : BState} {bl : List Block} (hlen : bl.length = σ'.len)
    (hs : ∀ j, (blkL bl j).succs = (σ'.blk j).succs) (hd : ∀ j, (blkL bl j).dsuccs = (σ'.blk j).dsuccs)
    (F : Nat → Prop) (hflag : ∀ j, j < σ'.len → ((blkL bl j).reach = true ↔ F j))
    {i : Nat} (hi : i < σ'.len)
    (hcl : ∀ j, j < σ'.len → F j → i ∈ (σ'.blk j).succs → F i)
    (hrp : F i → ∃ j, F j ∧ i ∈ (σ'.blk j).succs)
    (hp : HP σ' i) :
    ∃ j, j < (prune bl).length ∧ (i ∈ (blkL (prune bl) j).succs ∨ i ∈ (blkL (prune bl) j).dsuccs) := by
  have hlt : ∀ j, (i ∈ (σ'.blk j).succs ∨ i ∈ (σ'.blk j).dsuccs) → j < σ'.len := by
    intro j h
    by_cases hj : j < σ'.len
    · exact hj
    · rw [empty_of_ge σ' (Nat.le_of_not_lt hj)] at h; rcases h with h | h <;> cases h
  by_cases hri : (blkL bl i).reach = true
  · obtain ⟨j, hFj, hij⟩ := hrp ((hflag i hi).mp hri)
    have hj := hlt j (Or.inl hij)
    refine ⟨j, by rw [length_prune, hlen]; exact hj, Or.inl ?_⟩
    rw [blkL_prune bl j (by rw [hlen]; exact hj)]
    simp only [(hflag j hj).mpr hFj, if_true]
    rw [hs j]; exact hij
  · obtain ⟨j, hj⟩ := hp
    have hjl := hlt j hj
    have hni : (!(blkL bl i).reach) = true := by simpa using hri
    refine ⟨j, by rw [length_prune, hlen]; exact hjl, ?_⟩
    rw [blkL_prune bl j (by rw [hlen]; exact hjl)]
    rcases hj with hj | hj
    · left
      simp only
      split
      · rename_i hrj
        exact absurd ((hflag i hi).mpr (hcl j hjl ((hflag j hjl).mp hrj) hj)) hri
      · rw [hs j]; exact List.mem_filter.mpr ⟨hj, hni⟩
    · right
      simp only
      rw [hd j]; exact List.mem_filter.mpr ⟨hj, hni⟩

/-- every non-entry block of a CFG returned by `buildCfg` has a predecessor over a real or a dummy edge -/
theorem buildCfg_has_pred {p : Stmt} {rn : Bool} {g : Cfg} (hb : buildCfg rn p = .ok g)
    (i : Nat) (h0 : 0 < i) (hi : i < g.blocks.length) :
    ∃ j, j < g.blocks.length ∧ (i ∈ (blkL g.blocks j).succs ∨ i ∈ (blkL g.blocks j).dsuccs) := by
  have h02 : (0 : Nat) < initState.len := by decide
  have ho0 : (initState.blk 0).succs = [] := by decide
  have gr := build_good p 0 0 ⟨1, none, none⟩ initState h02 ho0
  have kr := ps_build p 0 0 ⟨1, none, none⟩ initState h02 ho0
  simp only [buildCfg] at hb
  generalize build p 0 (some 0) ⟨1, none, none⟩ initState = r at *
  split at hb
  · cases hb
  split at hb
  · cases hb
  rename_i hbad hint
  have hi2 : initState.len = 2 := rfl
  have hlen2 : 2 ≤ r.1.len := gr.touch.len
  have hnew : ∀ i, 2 ≤ i → i < r.1.len → HP r.1 i := fun i h1 h2 => kr.1.new i h1 h2
  have hexit : (r.1.blk 1).succs = [] := by
    rw [core_succs (gr.touch.frame 1 (by decide) (by decide))]; rfl
  cases hreach : reachable r.1.blocks with
  | none => rw [hreach] at hb; cases hb
  | some rs =>
    rw [hreach] at hb
    simp only at hb
    obtain ⟨hr0, hcl⟩ := reachable_spec hreach
    have hpath : ∀ i, i ∈ rs → i ≠ 0 → ∃ j, j ∈ rs ∧ i ∈ (r.1.blk j).succs := by
      intro i hir hne
      obtain ⟨j, hj1, hj2⟩ := path_last ((reachable_iff_path hreach i).mp hir) hne
      exact ⟨j, (reachable_iff_path hreach j).mpr hj1, hj2⟩
    have hlenR : ({ r.1 with blocks := setReach rs r.1.blocks } : BState).len = r.1.len := length_setReach rs r.1.blocks
    cases hr2 : r.2 with
    | none =>
      rw [hr2] at hb
      simp only [Except.ok.injEq] at hb
      subst hb
      have hi' : i < r.1.len := by
        have := hi; simp only [length_prune, length_setReach] at this; exact this
      have hp : HP r.1 i := by
        by_cases h1 : i = 1
        · subst h1
          rcases kr.2 hr2 with h | ⟨t, h, _⟩ | ⟨t, h, _⟩ | h
          · exact h
          · cases h
          · cases h
          · exact absurd h hint
        · exact hnew i (by omega) hi'
      exact prune_has_pred (σ' := r.1) (length_setReach rs r.1.blocks)
        (fun j => core_succs (blk_setReach_state r.1 rs j).1) (fun j => dsuccs_setReach r.1 rs j)
        (fun j => j ∈ rs)
        (fun j hj => by
          have := (blk_setReach_state r.1 rs j).2 hj
          show (blkL (setReach rs r.1.blocks) j).reach = true ↔ _
          rw [this]; exact List.contains_iff_mem)
        hi' (fun j _ hj hij => hcl j hj i hij) (fun hir => hpath i hir (by omega)) hp
    | some fin =>
      rw [hr2] at hb
      simp only at hb
      obtain ⟨f1, f2, f3⟩ := gr.cur fin hr2
      have hfin1 : fin ≠ 1 := by rcases f1 with h | h <;> omega
      have hsfin : ((link fin 1 r.1).blk fin).succs = [1] := by rw [blk_link_same _ _ _ f2, f3]; rfl
      have hsoth : ∀ b, b ≠ fin → ((link fin 1 r.1).blk b).succs = (r.1.blk b).succs :=
        fun b hb => by rw [blk_link_other _ _ _ _ hb]
      have hmono : EMono r.1 (link fin 1 r.1) := emono_link fin 1 r.1
      have hlenM : (link fin 1 ({ r.1 with blocks := setReach rs r.1.blocks } : BState)).len = r.1.len := by
        simp only [len_link]; exact hlenR
      have hpL : ∀ i, 0 < i → i < r.1.len → HP (link fin 1 r.1) i := by
        intro i h0 hi'
        by_cases h1 : i = 1
        · subst h1; exact hp_link fin 1 r.1 f2
        · exact (hnew i (by omega) hi').mono hmono
      have hpathL : ∀ i, i ∈ rs → i ≠ 0 → ∃ j, j ∈ rs ∧ i ∈ ((link fin 1 r.1).blk j).succs := by
        intro i hir hne
        obtain ⟨j, hj1, hj2⟩ := hpath i hir hne
        exact ⟨j, hj1, hmono.s j i hj2⟩
      split at hb
      · rename_i hc
        split at hb
        · simp only [Except.ok.injEq] at hb
          subst hb
          have hfr : fin ∈ rs := List.contains_iff_mem.mp hc
          have hi' : i < r.1.len := by
            have := hi
            simp only [length_prune, List.length_modify] at this
            exact hlenM ▸ this
          refine prune_has_pred (σ' := link fin 1 r.1)
            (bl := ((link fin 1 ({ r.1 with blocks := setReach rs r.1.blocks } : BState)).upd 1
              fun B => { B with reach := true }).blocks)
            (by show (BState.upd _ _ _).len = (link fin 1 r.1).len; rw [len_upd, hlenM, len_link])
            (fun j => (upd_reach_facts _ j 1).1.trans (core_succs (core_link_setReach r.1 rs fin 1 j).1))
            (fun j => (upd_reach_facts _ j 1).2.1.trans (dsuccs_link_setReach r.1 rs fin 1 j))
            (fun j => j ∈ rs ∨ j = 1)
            (fun j hj => by
              have hj' : j < r.1.len := by simpa using hj
              rw [(upd_reach_facts _ j 1).2.2 (by rw [hlenM]; exact hj'), (core_link_setReach r.1 rs fin 1 j).2 hj']
              rw [List.contains_iff_mem])
            (by simpa using hi') ?_ ?_ (hpL i h0 hi')
          · intro j _ hFj hij
            by_cases hjf : j = fin
            · subst hjf; rw [hsfin] at hij; right; simpa using hij
            · rw [hsoth j hjf] at hij
              rcases hFj with hj | rfl
              · exact Or.inl (hcl j hj i hij)
              · rw [hexit] at hij; cases hij
          · rintro (hir | rfl)
            · obtain ⟨j, hj1, hj2⟩ := hpathL i hir (by omega)
              exact ⟨j, Or.inl hj1, hj2⟩
            · exact ⟨fin, Or.inl hfr, by rw [hsfin]; simp⟩
        · cases hb
      · rename_i hc
        simp only [Except.ok.injEq] at hb
        subst hb
        have hfr : fin ∉ rs := fun h => hc (List.contains_iff_mem.mpr h)
        have hi' : i < r.1.len := by
          have := hi
          simp only [length_prune] at this
          exact hlenM ▸ this
        refine prune_has_pred (σ' := link fin 1 r.1)
          (bl := (link fin 1 ({ r.1 with blocks := setReach rs r.1.blocks } : BState)).blocks)
          (by show (link fin 1 _).len = (link fin 1 r.1).len; rw [hlenM, len_link])
          (fun j => core_succs (core_link_setReach r.1 rs fin 1 j).1)
          (fun j => dsuccs_link_setReach r.1 rs fin 1 j)
          (fun j => j ∈ rs)
          (fun j hj => by
            have hj' : j < r.1.len := by simpa using hj
            show ((link fin 1 ({ r.1 with blocks := setReach rs r.1.blocks } : BState)).blk j).reach = true ↔ _
            rw [(core_link_setReach r.1 rs fin 1 j).2 hj']
            exact List.contains_iff_mem)
          (by simpa using hi') ?_ ?_ (hpL i h0 hi')
        · intro j _ hFj hij
          have hjf : j ≠ fin := fun h => hfr (h ▸ hFj)
          rw [hsoth j hjf] at hij
          exact hcl j hFj i hij
        · intro hir
          exact hpathL i hir (by omega)

end GuppyVerif.Builder
