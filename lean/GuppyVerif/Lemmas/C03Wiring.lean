import GuppyVerif.Model.Wiring
/-! # C03 helper lemmas: `sort_vars` sorts, sorting is canonical on rows with distinct names, and what a
    block delivers along a branch is what the successor expects -/
namespace GuppyVerif.Wiring

/-! ### the order `compare_var` -/

theorem keyLt_irrefl (p : Place) : keyLt p p = false := by
  cases h : p.droppable <;> simp [keyLt, h, String.lt_irrefl]

theorem keyLt_trans {p q r : Place} (h1 : keyLt p q = true) (h2 : keyLt q r = true) : keyLt p r = true := by
  unfold keyLt at *
  cases hp : p.droppable <;> cases hq : q.droppable <;> cases hr : r.droppable <;>
    simp_all
  all_goals exact String.lt_trans h1 h2

theorem keyLt_asymm {p q : Place} (h1 : keyLt p q = true) : keyLt q p = false := by
  cases h2 : keyLt q p with
  | false => rfl
  | true => have := keyLt_trans h1 h2; rw [keyLt_irrefl] at this; cases this

/-- places with different names are strictly comparable -/
theorem keyLt_total {p q : Place} (hne : p.name ≠ q.name) : keyLt p q = true ∨ keyLt q p = true := by
  unfold keyLt
  have hs : p.name < q.name ∨ q.name < p.name := by
    rcases String.le_total p.name q.name with h | h
    · by_cases hlt : p.name < q.name
      · exact Or.inl hlt
      · exact absurd (String.le_antisymm h (String.not_lt.mp hlt)) hne
    · by_cases hlt : q.name < p.name
      · exact Or.inr hlt
      · exact absurd (String.le_antisymm (String.not_lt.mp hlt) h) hne
  cases hp : p.droppable <;> cases hq : q.droppable <;> simp [hs]
  all_goals exact hs

/-- strictly sorted by `compare_var` -/
def Sorted (l : List Place) : Prop := l.Pairwise fun a b => keyLt a b = true

/-- names pairwise distinct -/
def NamesNodup (l : List Place) : Prop := l.Pairwise fun a b => a.name ≠ b.name

/-! ### insertion sort -/

theorem insertVar_perm (p : Place) (l : List Place) : (insertVar p l).Perm (p :: l) := by
  induction l with
  | nil => exact List.Perm.refl _
  | cons q qs ih =>
    simp only [insertVar]
    split
    · exact List.Perm.refl _
    · exact (List.Perm.cons q ih).trans (List.Perm.swap p q qs)

theorem sortVars_perm (l : List Place) : (sortVars l).Perm l := by
  induction l with
  | nil => exact List.Perm.refl _
  | cons p ps ih =>
    show (insertVar p (sortVars ps)).Perm (p :: ps)
    exact (insertVar_perm p _).trans (List.Perm.cons p ih)

theorem insertVar_sorted (p : Place) (l : List Place) (hs : Sorted l) (hn : ∀ q ∈ l, p.name ≠ q.name) :
    Sorted (insertVar p l) := by
  induction l with
  | nil => exact List.pairwise_singleton _ _
  | cons q qs ih =>
    simp only [insertVar]
    have hq := List.pairwise_cons.mp hs
    split
    · rename_i hlt
      refine List.pairwise_cons.mpr ⟨?_, hs⟩
      intro r hr
      rcases List.mem_cons.mp hr with rfl | hr
      · exact hlt
      · exact keyLt_trans hlt (hq.1 r hr)
    · rename_i hlt
      have hqp : keyLt q p = true := by
        rcases keyLt_total (hn q (List.mem_cons_self ..)) with h | h
        · exact absurd h hlt
        · exact h
      refine List.pairwise_cons.mpr ⟨?_, ih hq.2 (fun r hr => hn r (List.mem_cons_of_mem _ hr))⟩
      intro r hr
      rcases List.mem_cons.mp ((insertVar_perm p qs).mem_iff.mp hr) with rfl | hr
      · exact hqp
      · exact hq.1 r hr

theorem namesNodup_perm {l1 l2 : List Place} (h : l1.Perm l2) (hn : NamesNodup l1) : NamesNodup l2 :=
  (h.pairwise_iff (fun hab => fun h' => hab h'.symm)).mp hn

theorem sortVars_sorted (l : List Place) (hn : NamesNodup l) : Sorted (sortVars l) := by
  induction l with
  | nil => exact List.Pairwise.nil
  | cons p ps ih =>
    have hp := List.pairwise_cons.mp hn
    show Sorted (insertVar p (sortVars ps))
    exact insertVar_sorted p _ (ih hp.2) (fun q hq => hp.1 q ((sortVars_perm ps).mem_iff.mp hq))

/-- a strictly sorted list is determined by its elements -/
theorem sorted_unique : ∀ {l1 l2 : List Place}, l1.Perm l2 → Sorted l1 → Sorted l2 → l1 = l2 := by
  intro l1
  induction l1 with
  | nil => intro l2 h _ _; exact (List.Perm.nil_eq h)
  | cons a as ih =>
    intro l2 h s1 s2
    cases l2 with
    | nil => exact absurd h.length_eq (by simp)
    | cons b bs =>
      have h1 := List.pairwise_cons.mp s1
      have h2 := List.pairwise_cons.mp s2
      have hab : a = b := by
        have ha : a ∈ b :: bs := h.mem_iff.mp (List.mem_cons_self ..)
        have hb : b ∈ a :: as := h.mem_iff.mpr (List.mem_cons_self ..)
        rcases List.mem_cons.mp ha with rfl | ha'
        · rfl
        · rcases List.mem_cons.mp hb with hb' | hb'
          · exact hb'.symm
          · have x1 := h1.1 b hb'
            have x2 := h2.1 a ha'
            rw [keyLt_asymm x1] at x2; cases x2
      subst hab
      rw [ih h.cons_inv h1.2 h2.2]

/-- **`sort_vars` is canonical**: two rows with the same places (names distinct) sort to the same list -/
theorem sortVars_canonical {l1 l2 : List Place} (h : l1.Perm l2) (hn : NamesNodup l1) : sortVars l1 = sortVars l2 :=
  sorted_unique (((sortVars_perm l1).trans h).trans (sortVars_perm l2).symm) (sortVars_sorted l1 hn)
    (sortVars_sorted l2 (namesNodup_perm h hn))

theorem sortVars_of_sorted {l : List Place} (hs : Sorted l) (hn : NamesNodup l) : sortVars l = l :=
  sorted_unique (sortVars_perm l) (sortVars_sorted l hn) hs

theorem namesNodup_filter (f : Place → Bool) {l : List Place} (hn : NamesNodup l) : NamesNodup (l.filter f) :=
  List.Pairwise.filter f hn

/-- a sorted row is its droppable places followed by its non-droppable ones -/
theorem sorted_split {l : List Place} (hs : Sorted l) :
    l = l.filter (·.droppable) ++ l.filter (fun p => !p.droppable) := by
  induction l with
  | nil => rfl
  | cons a as ih =>
    have h := List.pairwise_cons.mp hs
    cases ha : a.droppable with
    | true =>
      simp only [List.filter_cons, ha, if_true, Bool.not_true, Bool.false_eq_true, if_false, List.cons_append]
      rw [← ih h.2]
    | false =>
      -- everything after a non-droppable place is non-droppable
      have hall : ∀ b ∈ as, b.droppable = false := by
        intro b hb
        have := h.1 b hb
        unfold keyLt at this
        cases hbd : b.droppable <;> simp_all
      have e1 : as.filter (·.droppable) = [] := List.filter_eq_nil_iff.mpr (fun b hb => by simp [hall b hb])
      have e2 : as.filter (fun p => !p.droppable) = as :=
        List.filter_eq_self.mpr (fun b hb => by simp [hall b hb])
      simp only [List.filter_cons, ha, Bool.false_eq_true, if_false, Bool.not_false, if_true, e1, e2, List.nil_append]

theorem namesNodup_nodup {l : List Place} (h : NamesNodup l) : l.Nodup :=
  List.Pairwise.imp (fun hab => fun heq => hab (congrArg Place.name heq)) h

/-- rows with the same ids, in which a name denotes one place, have the same places -/
theorem sameIds_perm {a b : List Place} (hs : sameIds a b = true) (ha : NamesNodup a) (hb : NamesNodup b)
    (hc : ∀ p ∈ a, ∀ q ∈ b, p.name = q.name → p = q) : a.Perm b := by
  apply (List.perm_ext_iff_of_nodup (namesNodup_nodup ha) (namesNodup_nodup hb)).mpr
  simp only [sameIds, Bool.and_eq_true, List.all_eq_true, List.any_eq_true, beq_iff_eq] at hs
  intro p
  constructor
  · intro hp
    obtain ⟨q, hq, hqn⟩ := hs.1 p hp
    rw [hc p hp q hq hqn.symm]; exact hq
  · intro hp
    obtain ⟨q, hq, hqn⟩ := hs.2 p hp
    rw [← hc q hq p hp hqn]; exact hq

theorem filter_sortVars_droppable (f : Place → Bool) {l : List Place} (hn : NamesNodup l) :
    (sortVars l).filter f = sortVars (l.filter f) := by
  have hs := sortVars_sorted l hn
  have h1 : Sorted ((sortVars l).filter f) := List.Pairwise.filter f hs
  have h2 : ((sortVars l).filter f).Perm (l.filter f) := (sortVars_perm l).filter f
  exact (sorted_unique (h2.trans (sortVars_perm _).symm) h1 (sortVars_sorted _ (namesNodup_filter f hn)))

/-- **row agreement, unconditional jump**: a block with one successor hands over exactly the places the
    successor block expects, in the successor's order (`sort_vars` on both sides; on an edge into the exit
    neither side sorts and the row is passed as it is) -/
theorem deliver_single (inRow row succIn : List Place) (ex : Bool) (hp : row.Perm succIn) (hn : NamesNodup row) :
    deliver ⟨inRow, [row]⟩ [ex] =
      some [if ex then row else blockInputs false ⟨succIn, []⟩] := by
  cases ex with
  | true => rfl
  | false =>
    simp only [deliver, List.headD, blockInputs, Bool.false_eq_true, if_false]
    rw [sortVars_canonical hp hn]

/-- **row agreement, branching block**: along branch `i` the successor receives (the `TupleSum` variant row
    followed by) the block outputs, and that is exactly the list of places the successor block expects, in
    its order — no two same-typed places can be swapped.  Hypotheses = what the checker establishes:
    `row_i` has the places of the successor's input row; names in a row are distinct; a name denotes one
    place; non-droppable (linear) places are live on every branch. -/
theorem deliver_branch (inRow first : List Place) (rest : List (List Place)) (exits : List Bool) (hr : rest ≠ [])
    (ds : List (List Place)) (hd : deliver ⟨inRow, first :: rest⟩ exits = some ds)
    (hnf : NamesNodup first)
    (i : Nat) (row succIn d : List Place) (hrow : (first :: rest)[i]? = some row) (hdi : ds[i]? = some d)
    (hp : row.Perm succIn) (hn : NamesNodup row)
    (hc : ∀ p ∈ first, ∀ q ∈ row, p.name = q.name → p = q)
    (hlin : (row.filter fun p => !p.droppable).Perm (first.filter fun p => !p.droppable)) :
    d = blockInputs false ⟨succIn, []⟩ := by
  cases rest with
  | nil => exact absurd rfl hr
  | cons r2 rest' =>
    simp only [deliver] at hd
    split at hd
    · cases hd
    · split at hd
      · rename_i hall
        simp only [Option.some.injEq] at hd
        subst hd
        rw [List.getElem?_map, hrow] at hdi
        simp only [Option.map_some, Option.some.injEq] at hdi
        subst hdi
        have hfr : first.Perm row := by
          cases i with
          | zero => simp only [List.getElem?_cons_zero, Option.some.injEq] at hrow; subst hrow; exact List.Perm.refl _
          | succ j =>
            have hmem : row ∈ r2 :: rest' := List.mem_of_getElem? (by simpa using hrow)
            have := List.all_eq_true.mp hall row hmem
            exact sameIds_perm this hnf hn hc
        simp only [blockInputs, Bool.false_eq_true, if_false]
        exact sortVars_canonical (hfr.trans hp) hnf
      · simp only [Option.some.injEq] at hd
        subst hd
        rw [List.getElem?_map, hrow] at hdi
        simp only [Option.map_some, Option.some.injEq] at hdi
        subst hdi
        simp only [blockInputs, Bool.false_eq_true, if_false]
        rw [← sortVars_canonical hp hn]
        have hs := sortVars_sorted row hn
        have h1 := sorted_split hs
        have h2 : (sortVars row).filter (fun p => !p.droppable) = sortVars (first.filter fun p => !p.droppable) := by
          rw [filter_sortVars_droppable _ hn]
          exact sortVars_canonical hlin (namesNodup_filter _ hn)
        rw [← h2]
        exact h1.symm

/-- **return variables**: `insert_return_vars` prepends `%ret0, %ret1, …` (in index order) to the exit's input
    row and to the output row of every predecessor of the exit; an edge into the exit passes its row
    unsorted, so the function outputs are the return values in order, followed by the remaining exit
    places, provided the predecessor's row was the exit's row -/
theorem return_vars_order (tys : List Bool) (exitIn predOut inRow : List Place) (h : predOut = exitIn) :
    deliver ⟨inRow, [(insertReturnVars tys exitIn predOut).2]⟩ [true] = some [(insertReturnVars tys exitIn predOut).1] ∧
    (insertReturnVars tys exitIn predOut).1.take tys.length = tys.zipIdx.map (fun (d, i) => retVar i d) ∧
    (insertReturnVars tys exitIn predOut).1.drop tys.length = exitIn := by
  subst h
  refine ⟨rfl, ?_, ?_⟩
  · simp [insertReturnVars]
  · simp [insertReturnVars]

end GuppyVerif.Wiring
