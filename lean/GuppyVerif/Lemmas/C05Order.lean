import GuppyVerif.Model.OrderEdges
/-! # C05 helper lemmas: the order edges inserted by `track_hugr_side_effects` form one chain per region -/
namespace GuppyVerif.OrderEdges

/-- edges of consecutive elements -/
def pathEdges : List Nat → List (Nat × Nat)
  | a :: b :: t => (a, b) :: pathEdges (b :: t)
  | _ => []

theorem pathEdges_snoc (l : List Nat) (a x : Nat) : pathEdges (l ++ [a] ++ [x]) = pathEdges (l ++ [a]) ++ [(a, x)] := by
  induction l with
  | nil => rfl
  | cons b t ih =>
    cases t with
    | nil => rfl
    | cons c t' =>
      simp only [List.cons_append, pathEdges] at ih ⊢
      rw [ih]

/-- order edges whose target lies in region `p` -/
def region (s : St) (p : Nat) : List (Nat × Nat) := s.edges.filter fun e => parentOf s.nodes e.2 == some p

/-- parents are created before their children (`Hugr.add_node` needs an existing parent) -/
def WFN (nodes : List Node) : Prop := ∀ i p, parentOf nodes i = some p → p < i

/-- `inp`: the region's first child -/
def firstChild (nodes : List Node) (p : Nat) : Option Nat := (children nodes p).head?

structure Inv (s : St) : Prop where
  keys : (s.prev.map (·.1)).Nodup
  bound : ∀ e ∈ s.edges, e.2 < s.nodes.length
  chainsN : ∀ p, lookup s.prev p = none → region s p = []
  chainsS : ∀ p last, lookup s.prev p = some last →
    ∃ inp mids, firstChild s.nodes p = some inp ∧ region s p = pathEdges (inp :: mids ++ [last]) ∧
      (s.dup = false → (inp :: mids ++ [last]).Nodup)

/-! ### the dictionary -/

theorem lookup_nil (q : Nat) : lookup [] q = none := rfl
theorem lookup_cons (e : Nat × Nat) (es : List (Nat × Nat)) (q : Nat) :
    lookup (e :: es) q = if e.1 == q then some e.2 else lookup es q := by
  simp only [lookup, List.find?_cons]
  cases h : e.1 == q <;> simp

theorem lookup_none_iff (prev : List (Nat × Nat)) (q : Nat) : lookup prev q = none ↔ prev.any (·.1 == q) = false := by
  induction prev with
  | nil => simp [lookup_nil]
  | cons e es ih =>
    rw [lookup_cons]
    cases h : e.1 == q <;> simp [h, ih]

theorem lookup_upd_other (prev : List (Nat × Nat)) (p n q : Nat) (h : q ≠ p) :
    lookup (prev.map fun e => if e.1 == p then (p, n) else e) q = lookup prev q := by
  induction prev with
  | nil => rfl
  | cons e es ih =>
    rw [List.map_cons, lookup_cons, lookup_cons, ih]
    by_cases he : e.1 == p
    · have e1 : e.1 = p := by simpa using he
      have hpq : (p == q) = false := by simp [Ne.symm h]
      simp [he, e1, hpq]
    · simp [he]

theorem lookup_upd_same (prev : List (Nat × Nat)) (p n : Nat) (h : prev.any (·.1 == p) = true) :
    lookup (prev.map fun e => if e.1 == p then (p, n) else e) p = some n := by
  induction prev with
  | nil => simp at h
  | cons e es ih =>
    rw [List.map_cons, lookup_cons]
    by_cases he : e.1 == p
    · simp [he]
    · simp only [he, Bool.false_eq_true, if_false]
      exact ih (by simpa [he] using h)

theorem lookup_append_new (prev : List (Nat × Nat)) (p n q : Nat) (h : prev.any (·.1 == p) = false) :
    lookup (prev ++ [(p, n)]) q = if q = p then some n else lookup prev q := by
  induction prev with
  | nil =>
    simp only [List.nil_append, lookup_cons, lookup_nil]
    by_cases hq : q = p
    · simp [hq]
    · have : (p == q) = false := by simp [Ne.symm hq]
      simp [hq, this]
  | cons e es ih =>
    have he : (e.1 == p) = false := by
      cases h' : e.1 == p
      · rfl
      · simp [h'] at h
    have hes : es.any (·.1 == p) = false := by simpa [he] using h
    rw [List.cons_append, lookup_cons, lookup_cons, ih hes]
    by_cases heq : e.1 == q
    · have e1 : e.1 = q := by simpa using heq
      have : q ≠ p := by intro hqp; rw [← e1] at hqp; simp [hqp] at he
      simp [heq, this]
    · simp [heq]

theorem lookup_setPrev_same (prev : List (Nat × Nat)) (p n : Nat) : lookup (setPrev prev p n) p = some n := by
  unfold setPrev
  by_cases h : prev.any (·.1 == p) = true
  · rw [if_pos h]; exact lookup_upd_same prev p n h
  · rw [if_neg h, lookup_append_new prev p n p (Bool.eq_false_iff.mpr h)]; simp

theorem lookup_setPrev_other (prev : List (Nat × Nat)) (p n q : Nat) (h : q ≠ p) :
    lookup (setPrev prev p n) q = lookup prev q := by
  unfold setPrev
  by_cases h' : prev.any (·.1 == p) = true
  · rw [if_pos h']; exact lookup_upd_other prev p n q h
  · rw [if_neg h', lookup_append_new prev p n q (Bool.eq_false_iff.mpr h')]; simp [h]

theorem keys_setPrev (prev : List (Nat × Nat)) (p n : Nat) (h : (prev.map (·.1)).Nodup) :
    ((setPrev prev p n).map (·.1)).Nodup := by
  unfold setPrev
  by_cases h' : prev.any (·.1 == p) = true
  · rw [if_pos h']
    have : (prev.map fun e => if e.1 == p then (p, n) else e).map (·.1) = prev.map (·.1) := by
      rw [List.map_map]
      apply List.map_congr_left
      intro e _
      by_cases he : e.1 == p
      · have e1 : e.1 = p := by simpa using he
        simp [e1]
      · have e1 : ¬ e.1 = p := by simpa using he
        simp [e1]
    rw [this]; exact h
  · rw [if_neg h', List.map_append]
    apply List.nodup_append.mpr
    refine ⟨h, by simp, ?_⟩
    intro a ha b hb
    simp only [List.map_cons, List.map_nil, List.mem_singleton] at hb
    subst hb
    intro heq; subst heq
    apply h'
    obtain ⟨e, he, rfl⟩ := List.mem_map.mp ha
    exact List.any_eq_true.mpr ⟨e, he, by simp⟩

/-! ### one link -/

theorem mem_path_target : ∀ (l : List Nat) (a y : Nat), y ∈ l → ∃ e ∈ pathEdges (a :: l), e.2 = y := by
  intro l
  induction l with
  | nil => intro a y h; cases h
  | cons b t ih =>
    intro a y h
    rcases List.mem_cons.mp h with rfl | h
    · exact ⟨(a, y), by simp [pathEdges], rfl⟩
    · obtain ⟨e, he, hey⟩ := ih b y h
      exact ⟨e, by simp [pathEdges, he], hey⟩

theorem region_append (s : St) (e : Nat × Nat) (p : Nat) (prev' : List (Nat × Nat)) (d : Bool) :
    region { s with edges := s.edges ++ [e], prev := prev', dup := d } p =
      region s p ++ (if parentOf s.nodes e.2 == some p then [e] else []) := by
  simp only [region, List.filter_append, List.filter_cons, List.filter_nil]

structure LinkPost (s s' : St) (x p : Nat) : Prop where
  nodes : s'.nodes = s.nodes
  inv : Inv s'
  other : ∀ q, q ≠ p → lookup s'.prev q = lookup s.prev q
  dupMono : s'.dup = false → s.dup = false

theorem linkAfter_spec {s : St} (hI : Inv s) {x p v : Nat} (hx : x < s.nodes.length)
    (hp : parentOf s.nodes x = some p)
    (hv : lookup s.prev p = some v ∨ (lookup s.prev p = none ∧ firstChild s.nodes p = some v)) :
    LinkPost s (linkAfter v x p s) x p ∧ (v ≠ x → lookup (linkAfter v x p s).prev p = some x) := by
  unfold linkAfter
  by_cases hvx : v = x
  · subst hvx
    simp only [beq_self_eq_true, if_true]
    exact ⟨⟨rfl, hI, fun _ _ => rfl, fun h => h⟩, fun h => absurd rfl h⟩
  · have hb : (v == x) = false := by simp [hvx]
    simp only [hb, Bool.false_eq_true, if_false]
    refine ⟨⟨rfl, ?_, fun q hq => lookup_setPrev_other _ _ _ _ hq, ?_⟩, fun _ => lookup_setPrev_same _ _ _⟩
    · refine ⟨keys_setPrev _ _ _ hI.keys, ?_, ?_, ?_⟩
      · intro e he
        rcases List.mem_append.mp he with he | he
        · exact hI.bound e he
        · simp only [List.mem_singleton] at he; subst he; exact hx
      · intro q hq
        have hqp : q ≠ p := by
          intro h; subst h; rw [lookup_setPrev_same] at hq; cases hq
        rw [lookup_setPrev_other _ _ _ _ hqp] at hq
        rw [region_append]
        have : (parentOf s.nodes x == some q) = false := by
          rw [hp]; simp [Ne.symm hqp]
        simp only [this, Bool.false_eq_true, if_false, List.append_nil]
        exact hI.chainsN q hq
      · intro q last hq
        simp only [Bool.or_eq_false_iff]
        by_cases hqp : q = p
        · subst hqp
          rw [lookup_setPrev_same] at hq
          cases hq
          rw [region_append]
          simp only [hp, beq_self_eq_true, if_true]
          rcases hv with hv | ⟨hv, hf⟩
          · obtain ⟨inp, mids, h1, h2, h3⟩ := hI.chainsS q v hv
            refine ⟨inp, mids ++ [v], h1, ?_, ?_⟩
            · rw [h2]
              have := pathEdges_snoc (inp :: mids) v x
              simp only [List.cons_append, List.append_assoc] at this ⊢
              exact this.symm
            · rintro ⟨⟨hd, hany⟩, hfc⟩
              have hn := h3 hd
              have hxinp : x ≠ inp := by
                intro h; subst h
                have h1' : (children s.nodes q).head? = some x := h1
                rw [h1'] at hfc; simp at hfc
              have hxm : x ∉ mids ++ [v] := by
                intro hm
                obtain ⟨e, he, hey⟩ := mem_path_target (mids ++ [v]) inp x hm
                have he' : e ∈ s.edges := by
                  have : e ∈ region s q := by rw [h2]; exact he
                  exact (List.mem_filter.mp this).1
                have : s.edges.any (·.2 == x) = true := List.any_eq_true.mpr ⟨e, he', by simp [hey]⟩
                rw [this] at hany; cases hany
              have : (inp :: (mids ++ [v]) ++ [x]) = (inp :: mids ++ [v]) ++ [x] := by simp
              rw [this]
              apply List.nodup_append.mpr
              refine ⟨hn, by simp, ?_⟩
              intro a ha b hb'
              simp only [List.mem_singleton] at hb'
              subst hb'
              intro hab; subst hab
              rcases List.mem_cons.mp ha with h | h
              · exact hxinp h
              · exact hxm (by simpa using h)
          · refine ⟨v, [], hf, ?_, ?_⟩
            · rw [hI.chainsN q hv]; rfl
            · intro _
              simp only [List.nil_append, List.cons_append]
              exact List.nodup_cons.mpr ⟨by simp [hvx], by simp⟩
        · rw [lookup_setPrev_other _ _ _ _ hqp] at hq
          rw [region_append]
          have : (parentOf s.nodes x == some q) = false := by
            rw [hp]; simp [Ne.symm hqp]
          simp only [this, Bool.false_eq_true, if_false, List.append_nil]
          obtain ⟨inp, mids, h1, h2, h3⟩ := hI.chainsS q last hq
          exact ⟨inp, mids, h1, h2, fun hd => h3 hd.1.1⟩
    · intro h
      simp only [Bool.or_eq_false_iff] at h
      exact h.1.1

/-! ### `handle_side_effect` -/

structure HandlePost (s s' : St) (x : Nat) : Prop where
  nodes : s'.nodes = s.nodes
  inv : Inv s'
  above : ∀ q, x ≤ q → lookup s'.prev q = lookup s.prev q
  dupMono : s'.dup = false → s.dup = false

theorem HandlePost.refl {s : St} (h : Inv s) (x : Nat) : HandlePost s s x := ⟨rfl, h, fun _ _ => rfl, fun h => h⟩

theorem handle_spec (f : Nat) : ∀ (s : St) (x : Nat), WFN s.nodes → Inv s → x < s.nodes.length →
    HandlePost s (handle f s x) x := by
  induction f with
  | zero => intro s x _ hI _; exact HandlePost.refl hI x
  | succ f ih =>
    intro s x hW hI hx
    simp only [handle]
    cases hp : parentOf s.nodes x with
    | none => exact HandlePost.refl hI x
    | some p =>
      have hpx : p < x := hW x p hp
      simp only []
      cases hl : lookup s.prev p with
      | some v =>
        simp only []
        obtain ⟨h1, _⟩ := linkAfter_spec hI hx hp (Or.inl hl)
        exact ⟨h1.nodes, h1.inv, fun q hq => h1.other q (by omega), h1.dupMono⟩
      | none =>
        simp only []
        -- the state after (possibly) marking the parent
        have hs1 : HandlePost s (if (kindOf s.nodes p == Kind.funcDefn) = true then s else handle f s p) p := by
          split
          · exact HandlePost.refl hI p
          · exact ih s p hW hI (by omega)
        generalize (if (kindOf s.nodes p == Kind.funcDefn) = true then s else handle f s p) = s1 at hs1
        have hl1 : lookup s1.prev p = none := by rw [hs1.above p (Nat.le_refl _)]; exact hl
        have base : HandlePost s s1 x :=
          ⟨hs1.nodes, hs1.inv, fun q hq => hs1.above q (by omega), hs1.dupMono⟩
        split
        · exact base
        · cases hc : (children s1.nodes p).head? with
          | none => exact base
          | some inp =>
            simp only []
            have hp1 : parentOf s1.nodes x = some p := by rw [hs1.nodes]; exact hp
            have hx1 : x < s1.nodes.length := by rw [hs1.nodes]; exact hx
            obtain ⟨h2, _⟩ := linkAfter_spec hs1.inv hx1 hp1 (Or.inr ⟨hl1, hc⟩)
            exact ⟨h2.nodes.trans hs1.nodes, h2.inv,
              fun q hq => (h2.other q (by omega)).trans (hs1.above q (by omega)),
              fun h => hs1.dupMono (h2.dupMono h)⟩

/-! ### adding a node -/

theorem parentOf_append_old (nodes : List Node) (nd : Node) (i : Nat) (h : i < nodes.length) :
    parentOf (nodes ++ [nd]) i = parentOf nodes i := by
  simp [parentOf, List.getElem?_append_left h]

theorem parentOf_ge (nodes : List Node) (i : Nat) (h : nodes.length ≤ i) : parentOf nodes i = none := by
  simp [parentOf, List.getElem?_eq_none h]

theorem children_append (nodes : List Node) (nd : Node) (p : Nat) :
    children (nodes ++ [nd]) p = children nodes p ++ (if nd.parent == some p then [nodes.length] else []) := by
  simp only [children, List.length_append, List.length_singleton, List.range_succ, List.filter_append]
  congr 1
  · apply List.filter_congr
    intro i hi
    rw [parentOf_append_old nodes nd i (List.mem_range.mp hi)]
  · have : parentOf (nodes ++ [nd]) nodes.length = nd.parent := by simp [parentOf]
    simp only [List.filter_cons, List.filter_nil, this]

theorem firstChild_append (nodes : List Node) (nd : Node) (p inp : Nat) (h : firstChild nodes p = some inp) :
    firstChild (nodes ++ [nd]) p = some inp := by
  simp only [firstChild, children_append] at h ⊢
  cases hc : children nodes p with
  | nil => rw [hc] at h; cases h
  | cons a t => rw [hc] at h; simpa using h

theorem inv_append {s : St} (hI : Inv s) (nd : Node) : Inv { s with nodes := s.nodes ++ [nd] } := by
  have hreg : ∀ p, region { s with nodes := s.nodes ++ [nd] } p = region s p := by
    intro p
    simp only [region]
    apply List.filter_congr
    intro e he
    rw [parentOf_append_old s.nodes nd e.2 (hI.bound e he)]
  refine ⟨hI.keys, fun e he => by have := hI.bound e he; simp; omega, ?_, ?_⟩
  · intro p hp; rw [hreg]; exact hI.chainsN p hp
  · intro p last hp
    obtain ⟨inp, mids, h1, h2, h3⟩ := hI.chainsS p last hp
    exact ⟨inp, mids, firstChild_append _ _ _ _ h1, by rw [hreg]; exact h2, h3⟩

theorem wfn_append {nodes : List Node} (hW : WFN nodes) (nd : Node) (hnd : ∀ p, nd.parent = some p → p < nodes.length) :
    WFN (nodes ++ [nd]) := by
  intro i p hip
  by_cases hi : i < nodes.length
  · rw [parentOf_append_old nodes nd i hi] at hip; exact hW i p hip
  · by_cases hi' : i = nodes.length
    · subst hi'
      have : parentOf (nodes ++ [nd]) nodes.length = nd.parent := by simp [parentOf]
      rw [this] at hip
      exact hnd p hip
    · rw [parentOf_ge _ _ (by simp; omega)] at hip; cases hip

/-- the node sequence is well formed: every node's parent was inserted before it -/
def WFSeq : Nat → List Node → Prop
  | _, [] => True
  | n, nd :: rest => (∀ p, nd.parent = some p → p < n) ∧ WFSeq (n + 1) rest

structure AddPost (s s' : St) (nd : Node) : Prop where
  nodes : s'.nodes = s.nodes ++ [nd]
  inv : Inv s'
  wfn : WFN s'.nodes
  dupMono : s'.dup = false → s.dup = false

theorem addNode_spec {s : St} (hW : WFN s.nodes) (hI : Inv s) (nd : Node)
    (hnd : ∀ p, nd.parent = some p → p < s.nodes.length) : AddPost s (addNode nd s) nd := by
  unfold addNode
  have hW1 := wfn_append hW nd hnd
  have hI1 := inv_append hI nd
  cases nd.eff with
  | false => exact ⟨rfl, hI1, hW1, fun h => h⟩
  | true =>
    simp only [if_true]
    have h := handle_spec ({ s with nodes := s.nodes ++ [nd] } : St).nodes.length
      { s with nodes := s.nodes ++ [nd] } s.nodes.length hW1 hI1 (by simp)
    exact ⟨h.nodes, h.inv, by rw [h.nodes]; exact hW1, h.dupMono⟩

theorem foldl_spec : ∀ (nds : List Node) (s : St), WFN s.nodes → Inv s → WFSeq s.nodes.length nds →
    Inv (nds.foldl (fun s nd => addNode nd s) s) ∧ WFN (nds.foldl (fun s nd => addNode nd s) s).nodes ∧
    (nds.foldl (fun s nd => addNode nd s) s).nodes = s.nodes ++ nds ∧
    ((nds.foldl (fun s nd => addNode nd s) s).dup = false → s.dup = false) := by
  intro nds
  induction nds with
  | nil => intro s hW hI _; exact ⟨hI, hW, by simp, fun h => h⟩
  | cons nd rest ih =>
    intro s hW hI hS
    have h1 := addNode_spec hW hI nd hS.1
    have hlen : (addNode nd s).nodes.length = s.nodes.length + 1 := by rw [h1.nodes]; simp
    obtain ⟨a, b, c, d⟩ := ih (addNode nd s) h1.wfn h1.inv (by rw [hlen]; exact hS.2)
    exact ⟨a, b, by rw [List.foldl_cons, c, h1.nodes]; simp, fun h => h1.dupMono (d h)⟩

/-! ### leaving the context: the edge to `Output` -/

theorem mem_children {nodes : List Node} {p c : Nat} (h : c ∈ children nodes p) : parentOf nodes c = some p := by
  simp only [children, List.mem_filter, List.mem_range] at h
  simpa using h.2

def outEdge (nodes : List Node) (e : Nat × Nat) : Option (Nat × Nat) :=
  ((children nodes e.1)[1]?).map fun out => (e.2, out)

theorem outEdge_parent {nodes : List Node} {e r : Nat × Nat} (h : outEdge nodes e = some r) :
    parentOf nodes r.2 = some e.1 ∧ r.1 = e.2 := by
  simp only [outEdge, Option.map_eq_some_iff] at h
  obtain ⟨out, h1, rfl⟩ := h
  exact ⟨mem_children (List.mem_of_getElem? h1), rfl⟩

theorem finish_region_aux (nodes : List Node) (p : Nat) : ∀ (prev : List (Nat × Nat)), (prev.map (·.1)).Nodup →
    (prev.filterMap (outEdge nodes)).filter (fun r => parentOf nodes r.2 == some p) =
      match lookup prev p with
      | some last => (outEdge nodes (p, last)).toList
      | none => [] := by
  intro prev
  induction prev with
  | nil => intro _; rfl
  | cons e es ih =>
    intro hk
    simp only [List.map_cons, List.nodup_cons] at hk
    rw [lookup_cons, List.filterMap_cons]
    by_cases hep : e.1 == p
    · have e1 : e.1 = p := by simpa using hep
      have hnone : lookup es p = none := by
        apply (lookup_none_iff es p).mpr
        apply Bool.eq_false_iff.mpr
        intro h
        obtain ⟨e', he', hp'⟩ := List.any_eq_true.mp h
        apply hk.1
        rw [e1]
        exact List.mem_map.mpr ⟨e', he', by simpa using hp'⟩
      have ihe := ih hk.2
      rw [hnone] at ihe
      simp only [hep, if_true]
      have hpe : (p, e.2) = e := by rw [← e1]
      rw [hpe]
      cases ho : outEdge nodes e with
      | none => simp only [ho, Option.toList]; exact ihe
      | some r =>
        have := (outEdge_parent ho).1
        simp only [List.filter_cons, this, e1, beq_self_eq_true, if_true, ihe, Option.toList]
    · have e1 : ¬ e.1 = p := by simpa using hep
      simp only [hep, Bool.false_eq_true, if_false]
      cases ho : outEdge nodes e with
      | none => simp only []; exact ih hk.2
      | some r =>
        have := (outEdge_parent ho).1
        have hne : (parentOf nodes r.2 == some p) = false := by rw [this]; simp [e1]
        simp only [List.filter_cons, hne, Bool.false_eq_true, if_false]
        exact ih hk.2

theorem finish_edges (s : St) : (finish s).edges = s.edges ++ s.prev.filterMap (outEdge s.nodes) := by
  simp only [finish, outEdge]
  congr 1

theorem finish_region {s : St} (hI : Inv s) (p : Nat) :
    region (finish s) p = region s p ++
      match lookup s.prev p with
      | some last => (outEdge s.nodes (p, last)).toList
      | none => [] := by
  have : region (finish s) p = (finish s).edges.filter fun e => parentOf s.nodes e.2 == some p := rfl
  rw [this, finish_edges, List.filter_append, finish_region_aux s.nodes p s.prev hI.keys]
  rfl

/-- **order edges form one chain per region**: after the whole definition has been lowered, the order edges
    whose target lies in region `p` are either none (no side effect below `p`) or exactly the edges of a path
    `Input → … → last → Output` without repeated nodes -/
theorem chain_final {nds : List Node} (hS : WFSeq 0 nds) (hd : (runAll nds).dup = false) (p : Nat) :
    region (runAll nds) p = [] ∨
    ∃ inp mids last, firstChild (runAll nds).nodes p = some inp ∧ (inp :: mids ++ [last]).Nodup ∧
      ((∃ out, (children (runAll nds).nodes p)[1]? = some out ∧
          region (runAll nds) p = pathEdges (inp :: mids ++ [last] ++ [out])) ∨
       ((children (runAll nds).nodes p)[1]? = none ∧ region (runAll nds) p = pathEdges (inp :: mids ++ [last]))) := by
  have h0 : Inv ({} : St) :=
    { keys := List.nodup_nil
      bound := fun e he => by cases he
      chainsN := fun _ _ => rfl
      chainsS := fun p last h => by simp [lookup] at h }
  have hW0 : WFN ({} : St).nodes := fun i p h => by simp [parentOf] at h
  obtain ⟨hI, _, _, hdm⟩ := foldl_spec nds {} hW0 h0 hS
  unfold runAll at hd ⊢
  generalize nds.foldl (fun s nd => addNode nd s) {} = s at *
  have hds : s.dup = false := hd
  rw [finish_region hI]
  cases hl : lookup s.prev p with
  | none => left; simp only [hI.chainsN p hl, List.append_nil]
  | some last =>
    right
    obtain ⟨inp, mids, h1, h2, h3⟩ := hI.chainsS p last hl
    refine ⟨inp, mids, last, h1, h3 hds, ?_⟩
    simp only [outEdge]
    cases ho : (children s.nodes p)[1]? with
    | none => right; exact ⟨ho, by simp [h2, ho]⟩
    | some out =>
      left
      refine ⟨out, ho, ?_⟩
      have hfin : (children (finish s).nodes p)[1]? = some out := ho
      simp only [Option.map_some, Option.toList, h2]
      have := pathEdges_snoc (inp :: mids) last out
      simp only [List.cons_append, List.append_assoc] at this ⊢
      exact this.symm

/-! ### coverage: every side-effecting node is linked, behind everything linked earlier in its region -/

theorem linkAfter_edges_prefix (v x p : Nat) (s : St) : s.edges <+: (linkAfter v x p s).edges := by
  unfold linkAfter
  split
  · exact List.prefix_refl _
  · exact List.prefix_append _ _

theorem handle_edges_prefix (f : Nat) : ∀ (s : St) (x : Nat), s.edges <+: (handle f s x).edges := by
  induction f with
  | zero => intro s x; exact List.prefix_refl _
  | succ f ih =>
    intro s x
    simp only [handle]
    cases parentOf s.nodes x with
    | none => exact List.prefix_refl _
    | some p =>
      simp only []
      cases lookup s.prev p with
      | some v => exact linkAfter_edges_prefix v x p s
      | none =>
        simp only []
        have h1 : s.edges <+: (if (kindOf s.nodes p == Kind.funcDefn) = true then s else handle f s p).edges := by
          split
          · exact List.prefix_refl _
          · exact ih s p
        generalize (if (kindOf s.nodes p == Kind.funcDefn) = true then s else handle f s p) = s1 at h1
        split
        · exact h1
        · cases (children s1.nodes p).head? with
          | none => exact h1
          | some inp => exact h1.trans (linkAfter_edges_prefix inp x p s1)

/-- order edges are only ever appended: the relative order inside every chain is the order of linking -/
theorem addNode_edges_prefix (nd : Node) (s : St) : s.edges <+: (addNode nd s).edges := by
  unfold addNode
  cases nd.eff with
  | false => exact List.prefix_refl _
  | true =>
    simp only [if_true]
    exact handle_edges_prefix _ ({ s with nodes := s.nodes ++ [nd] } : St) _

theorem chain_last_lt {s : St} (hI : Inv s) {p v : Nat} (h : lookup s.prev p = some v) : v < s.nodes.length := by
  obtain ⟨inp, mids, _, h2, _⟩ := hI.chainsS p v h
  obtain ⟨e, he, hev⟩ := mem_path_target (mids ++ [v]) inp v (by simp)
  have : e ∈ region s p := by rw [h2]; exact he
  have := hI.bound e (List.mem_filter.mp this).1
  rw [hev] at this; exact this

/-- a side-effecting node inserted into a dataflow region (its parent is not a Conditional / CFG and already
    has its `Input` child) becomes the last node of the region's chain at once -/
theorem addNode_links {s : St} (hW : WFN s.nodes) (hI : Inv s) (nd : Node) {p inp : Nat}
    (hnd : ∀ q, nd.parent = some q → q < s.nodes.length) (heff : nd.eff = true) (hpar : nd.parent = some p)
    (hk : kindOf s.nodes p ≠ .cond ∧ kindOf s.nodes p ≠ .cfg) (hinp : firstChild s.nodes p = some inp) :
    lookup (addNode nd s).prev p = some s.nodes.length := by
  have hW1 := wfn_append hW nd hnd
  have hI1 := inv_append hI nd
  have hplt : p < s.nodes.length := hnd p hpar
  have hinplt : inp < s.nodes.length := by
    have : inp ∈ children s.nodes p := List.mem_of_mem_head? hinp
    simp only [children, List.mem_filter, List.mem_range] at this
    exact this.1
  unfold addNode
  simp only [heff, if_true, List.length_append, List.length_singleton]
  simp only [handle]
  have hpx : parentOf (s.nodes ++ [nd]) s.nodes.length = some p := by simp [parentOf, hpar]
  have hkind : kindOf (s.nodes ++ [nd]) p = kindOf s.nodes p := by
    simp [kindOf, List.getElem?_append_left hplt]
  simp only [hpx]
  cases hl : lookup s.prev p with
  | some v =>
    simp only []
    have hv : v ≠ s.nodes.length := Nat.ne_of_lt (chain_last_lt hI hl)
    exact (linkAfter_spec hI1 (by simp) hpx (Or.inl hl)).2 hv
  | none =>
    simp only [hkind]
    have hs1 : HandlePost { s with nodes := s.nodes ++ [nd] }
        (if (kindOf s.nodes p == Kind.funcDefn) = true then { s with nodes := s.nodes ++ [nd] }
          else handle s.nodes.length { s with nodes := s.nodes ++ [nd] } p) p := by
      split
      · exact HandlePost.refl hI1 p
      · exact handle_spec _ _ p hW1 hI1 (by simp; omega)
    generalize (if (kindOf s.nodes p == Kind.funcDefn) = true then ({ s with nodes := s.nodes ++ [nd] } : St)
      else handle s.nodes.length { s with nodes := s.nodes ++ [nd] } p) = s1 at hs1
    have hl1 : lookup s1.prev p = none := by rw [hs1.above p (Nat.le_refl _)]; exact hl
    have hnc : (!(kindOf s.nodes p == Kind.funcDefn) &&
        (kindOf s.nodes p == Kind.cond || kindOf s.nodes p == Kind.cfg)) = false := by
      have h1 : (kindOf s.nodes p == Kind.cond) = false := by simp [hk.1]
      have h2 : (kindOf s.nodes p == Kind.cfg) = false := by simp [hk.2]
      simp [h1, h2]
    simp only [hnc, Bool.false_eq_true, if_false]
    have hfc : (children s1.nodes p).head? = some inp := by
      rw [hs1.nodes]; exact firstChild_append _ _ _ _ hinp
    simp only [hfc]
    exact (linkAfter_spec hs1.inv (by rw [hs1.nodes]; simp) (by rw [hs1.nodes]; exact hpx)
      (Or.inr ⟨hl1, hfc⟩)).2 (Nat.ne_of_lt hinplt)

end GuppyVerif.OrderEdges
