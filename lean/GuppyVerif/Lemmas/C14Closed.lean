import GuppyVerif.Lemmas.C14Rel
import GuppyVerif.Spec.C14
/-! The three concrete relations between a type's flags and its HUGR type, and their closure proofs. -/
namespace GuppyVerif.CopyDrop
open GuppyVerif

/-! ### HUGR-side helper lemmas -/
theorem join_copyable_right (x : HBound) : x.join .copyable = x := by cases x <;> rfl
theorem join_copyable_left (x : HBound) : HBound.join .copyable x = x := by cases x <;> rfl
theorem join_eq_copyable {x y : HBound} : x.join y = .copyable ↔ x = .copyable ∧ y = .copyable := by
  cases x <;> cases y <;> simp [HBound.join]
theorem join_eq_linear {x y : HBound} : x.join y = .linear ↔ x = .linear ∨ y = .linear := by
  cases x <;> cases y <;> simp [HBound.join]
theorem bound_ne_copyable {x : HBound} : x ≠ .copyable ↔ x = .linear := by cases x <;> simp
theorem isCopyable_iff {x : HBound} : x.isCopyable = true ↔ x = .copyable := by
  cases x <;> simp [HBound.isCopyable]

theorem typeBound_tupleOf (hs : List HTy) : typeBound (tupleOf hs) = typeBoundList hs := by
  simp [tupleOf, typeBound, typeBoundRows, join_copyable_right]
theorem requiresDrop_tupleOf (aff : List String) (hs : List HTy) :
    requiresDrop aff (tupleOf hs) = requiresDropList aff hs := by
  simp [tupleOf, requiresDrop, requiresDropRows]
theorem typeBound_optionOf (h : HTy) : typeBound (optionOf h) = typeBound h := by
  simp [optionOf, typeBound, typeBoundRows, typeBoundList, join_copyable_right, join_copyable_left]
theorem requiresDrop_optionOf (aff : List String) (h : HTy) :
    requiresDrop aff (optionOf h) = requiresDrop aff h := by
  simp [optionOf, requiresDrop, requiresDropRows, requiresDropList]
theorem typeBound_ext_join1 (e : String) (x : HTy) : typeBound (.ext e .joinArgs [.ty x]) = typeBound x := by
  simp [typeBound, typeBoundArgs, join_copyable_right]
theorem requiresDrop_ext1 (aff : List String) (e : String) (r : ExtRule) (x : HTy) :
    requiresDrop aff (.ext e r [.ty x]) = (aff.contains e || requiresDrop aff x) := by
  simp [requiresDrop, requiresDropArgs]
theorem typeBound_either (ls rs : List HTy) :
    typeBound (.sum [.mk ls, .mk rs]) = (typeBoundList ls).join (typeBoundList rs) := by
  simp [typeBound, typeBoundRows, join_copyable_right]
theorem requiresDrop_either (aff : List String) (ls rs : List HTy) :
    requiresDrop aff (.sum [.mk ls, .mk rs]) = (requiresDropList aff ls || requiresDropList aff rs) := by
  simp [requiresDrop, requiresDropRows]
theorem typeBound_if (lin : Bool) (h : HTy) : typeBound (if lin then optionOf h else h) = typeBound h := by
  cases lin <;> simp [typeBound_optionOf]
theorem requiresDrop_if (aff : List String) (lin : Bool) (h : HTy) :
    requiresDrop aff (if lin then optionOf h else h) = requiresDrop aff h := by
  cases lin <;> simp [requiresDrop_optionOf]
theorem isJoin_eq {r : ExtRule} (h : r.isJoin = true) : r = .joinArgs := by
  cases r <;> simp_all [ExtRule.isJoin]
theorem isExplicitLinear_eq {r : ExtRule} (h : r.isExplicitLinear = true) : r = .explicit .linear := by
  cases r with
  | explicit b => cases b <;> simp_all [ExtRule.isExplicitLinear]
  | joinArgs => simp [ExtRule.isExplicitLinear] at h

theorem tableOk_iff {aff : List String} {D : List OpaqueDef} : tableOk aff D = true ↔ TableOk aff D := by
  simp [tableOk, TableOk, List.all_eq_true]

/-! ### (a)+(c): a copyable type lowers to a Copyable HUGR type that needs no drop -/
def Ra (aff : List String) (c _d : Bool) (h : HTy) : Prop :=
  c = true → typeBound h = .copyable ∧ requiresDrop aff h = false

theorem closed_Ra {aff : List String} {D : List OpaqueDef} (u : Bool) (hT : TableOk aff D)
    (hA : affOk aff = true) : Closed D u (Ra aff) where
  num := by
    intro k _
    simp [affOk] at hA
    cases k <;> simp [numT, typeBound, requiresDrop, requiresDropArgs, hA.1, hA.2]
  var := by
    intro i c d hc; subst hc
    simp [typeBound, requiresDrop, flagB]
  func := by intro is os _; simp [typeBound, requiresDrop]
  nil := by intro _; simp [typeBound_tupleOf, requiresDrop_tupleOf, typeBoundList, requiresDropList]
  cons := by
    intro c d h cs ds hs h1 h2 hc
    simp only [Bool.and_eq_true] at hc
    obtain ⟨a1, a2⟩ := h1 hc.1
    obtain ⟨b1, b2⟩ := h2 hc.2
    rw [typeBound_tupleOf] at b1 ⊢
    rw [requiresDrop_tupleOf] at b2 ⊢
    simp [typeBoundList, requiresDropList, a1, a2, b1, b2, HBound.join]
  structArgs := by
    intro c d hs ca da h1 hc
    simp only [Bool.and_eq_true] at hc
    exact h1 hc.1
  static := by
    intro d h hd hs hc
    have := hT d hd
    simp only [rowOk, hs, Bool.and_eq_true] at this
    obtain ⟨_, ⟨⟨⟨_, h2⟩, _⟩, h4⟩⟩ := this
    simp only [Bool.not_eq_true'] at hc
    rw [hc] at h2
    have hb : (typeBound h).isCopyable = true := by simpa using h2
    rw [hb] at h4
    exact ⟨isCopyable_iff.mp hb, by simpa using h4⟩
  listOpt := by
    intro d e r c dd h lin hd hs h1 hc
    have := hT d hd
    simp only [rowOk, hs, Bool.and_eq_true, Bool.not_eq_true'] at this
    obtain ⟨_, ⟨⟨⟨⟨hj, _⟩, _⟩, he⟩, _⟩⟩ := this
    have hr := isJoin_eq hj; subst hr
    simp only [Bool.and_eq_true] at hc
    obtain ⟨a1, a2⟩ := h1 hc.2
    have he' : e ∉ aff := by simpa using he
    rw [typeBound_ext_join1, requiresDrop_ext1, typeBound_if, requiresDrop_if]
    simp [a1, a2, he']
  array := by
    intro d e r c dd h a hd hs _ hc
    have := hT d hd
    simp only [rowOk, hs, Bool.and_eq_true] at this
    obtain ⟨_, ⟨⟨⟨⟨_, hn⟩, _⟩, _⟩, _⟩⟩ := this
    simp [hn] at hc
  staticArray := by
    intro d e r c dd h hd hs h1 hb hc
    have := hT d hd
    simp only [rowOk, hs, Bool.and_eq_true, Bool.not_eq_true'] at this
    obtain ⟨_, ⟨⟨⟨⟨⟨hj, _⟩, _⟩, he⟩, _⟩, _⟩⟩ := this
    have hr := isJoin_eq hj; subst hr
    simp only [Bool.and_eq_true] at hc
    obtain ⟨a1, a2⟩ := h1 hc.2
    have he' : e ∉ aff := by simpa using he
    rw [typeBound_ext_join1, requiresDrop_ext1]
    simp [a1, a2, he']
  underlying := by
    intro d c dd h _ _ h1 hc
    simp only [Bool.and_eq_true] at hc
    exact h1 hc.2
  option := by
    intro d c dd h _ _ h1 hc
    simp only [Bool.and_eq_true] at hc
    rw [typeBound_optionOf, requiresDrop_optionOf]
    exact h1 hc.2
  either := by
    intro d cl dl ls cr dr rs _ _ h1 h2 hc
    simp only [Bool.and_eq_true] at hc
    obtain ⟨a1, a2⟩ := h1 hc.2.1
    obtain ⟨b1, b2⟩ := h2 hc.2.2
    rw [typeBound_tupleOf] at a1 b1
    rw [requiresDrop_tupleOf] at a2 b2
    rw [typeBound_either, requiresDrop_either]
    simp [a1, a2, b1, b2, HBound.join]
  ext1 := by
    intro d e r c dd h hd hs _ hc
    have := hT d hd
    simp only [rowOk, hs, Bool.and_eq_true] at this
    obtain ⟨_, ⟨⟨⟨_, hn⟩, _⟩, _⟩⟩ := this
    simp [hn] at hc

/-! ### (b): a droppable type whose HUGR type is Linear requires a drop -/
def Rb (aff : List String) (_c d : Bool) (h : HTy) : Prop :=
  d = true → typeBound h = .linear → requiresDrop aff h = true

theorem closed_Rb {aff : List String} {D : List OpaqueDef} (u : Bool) (hT : TableOk aff D) :
    Closed D u (Rb aff) where
  num := by intro k _ hb; cases k <;> simp [numT, typeBound] at hb
  var := by
    intro i c d _ hb
    simp only [typeBound] at hb
    simp [requiresDrop, hb]
  func := by intro is os _ hb; simp [typeBound] at hb
  nil := by intro _ hb; simp [typeBound_tupleOf, typeBoundList] at hb
  cons := by
    intro c d h cs ds hs h1 h2 hd hb
    simp only [Bool.and_eq_true] at hd
    rw [typeBound_tupleOf] at hb
    rw [requiresDrop_tupleOf]
    simp only [typeBoundList, join_eq_linear] at hb
    simp only [requiresDropList, Bool.or_eq_true]
    rcases hb with hb | hb
    · exact Or.inl (h1 hd.1 hb)
    · right
      have := h2 hd.2 (by rw [typeBound_tupleOf]; exact hb)
      rwa [requiresDrop_tupleOf] at this
  structArgs := by
    intro c d hs ca da h1 hd hb
    simp only [Bool.and_eq_true] at hd
    exact h1 hd.1 hb
  static := by
    intro d h hd hs hdr hb
    have := hT d hd
    simp only [rowOk, hs, Bool.and_eq_true, Bool.or_eq_true] at this
    obtain ⟨_, ⟨⟨⟨_, _⟩, h3⟩, _⟩⟩ := this
    simp only [Bool.not_eq_true'] at hdr
    rcases h3 with (h3 | h3) | h3
    · rw [isCopyable_iff.mp h3] at hb; cases hb
    · rw [hdr] at h3; cases h3
    · exact h3
  listOpt := by
    intro d e r c dd h lin hd hs h1 hdr hb
    have := hT d hd
    simp only [rowOk, hs, Bool.and_eq_true, Bool.not_eq_true'] at this
    obtain ⟨_, ⟨⟨⟨⟨hj, _⟩, _⟩, _⟩, _⟩⟩ := this
    have hr := isJoin_eq hj; subst hr
    simp only [Bool.and_eq_true] at hdr
    rw [typeBound_ext_join1, typeBound_if] at hb
    rw [requiresDrop_ext1, requiresDrop_if]
    simp [h1 hdr.2 hb]
  array := by
    intro d e r c dd h a hd hs _ _ _
    have := hT d hd
    simp only [rowOk, hs, Bool.and_eq_true] at this
    obtain ⟨_, ⟨⟨_, he⟩, _⟩⟩ := this
    have he' : e ∈ aff := by simpa using he
    simp [requiresDrop, he']
  staticArray := by
    intro d e r c dd h hd hs _ hcp _ hb
    have := hT d hd
    simp only [rowOk, hs, Bool.and_eq_true, Bool.not_eq_true'] at this
    obtain ⟨_, ⟨⟨⟨⟨⟨hj, _⟩, _⟩, _⟩, _⟩, _⟩⟩ := this
    have hr := isJoin_eq hj; subst hr
    rw [typeBound_ext_join1, hcp] at hb
    cases hb
  underlying := by
    intro d c dd h _ _ h1 hdr hb
    simp only [Bool.and_eq_true] at hdr
    exact h1 hdr.2 hb
  option := by
    intro d c dd h _ _ h1 hdr hb
    simp only [Bool.and_eq_true] at hdr
    rw [typeBound_optionOf] at hb
    rw [requiresDrop_optionOf]
    exact h1 hdr.2 hb
  either := by
    intro d cl dl ls cr dr rs _ _ h1 h2 hdr hb
    simp only [Bool.and_eq_true] at hdr
    rw [typeBound_either, join_eq_linear] at hb
    rw [requiresDrop_either, Bool.or_eq_true]
    rcases hb with hb | hb
    · left
      have := h1 hdr.2.1 (by rw [typeBound_tupleOf]; exact hb)
      rwa [requiresDrop_tupleOf] at this
    · right
      have := h2 hdr.2.2 (by rw [typeBound_tupleOf]; exact hb)
      rwa [requiresDrop_tupleOf] at this
  ext1 := by
    intro d e r c dd h hd hs _ hdr _
    have := hT d hd
    simp only [rowOk, hs, Bool.and_eq_true] at this
    obtain ⟨_, ⟨⟨_, hn⟩, _⟩⟩ := this
    simp [hn] at hdr

/-! ### (d'): a Copyable HUGR type comes from a type that is copyable when struct type arguments are
    not counted (`u = false`) -/
def Rd (c _d : Bool) (h : HTy) : Prop := typeBound h = .copyable → c = true

theorem closed_Rd {aff : List String} {D : List OpaqueDef} (hT : TableOk aff D) :
    Closed D false Rd where
  num := by intro k _; rfl
  var := by
    intro i c d hb
    cases c <;> simp_all [typeBound, flagB]
  func := by intro is os _; rfl
  nil := by intro _; rfl
  cons := by
    intro c d h cs ds hs h1 h2 hb
    rw [typeBound_tupleOf] at hb
    simp only [typeBoundList, join_eq_copyable] at hb
    simp [h1 hb.1, h2 (by rw [typeBound_tupleOf]; exact hb.2)]
  structArgs := by
    intro c d hs ca da h1 hb
    simp [h1 hb]
  static := by
    intro d h hd hs hb
    have := hT d hd
    simp only [rowOk, hs, Bool.and_eq_true] at this
    obtain ⟨_, ⟨⟨⟨_, h2⟩, _⟩, _⟩⟩ := this
    rw [isCopyable_iff.mpr hb] at h2
    simpa using h2.symm
  listOpt := by
    intro d e r c dd h lin hd hs h1 hb
    have := hT d hd
    simp only [rowOk, hs, Bool.and_eq_true, Bool.not_eq_true'] at this
    obtain ⟨_, ⟨⟨⟨⟨hj, hn⟩, _⟩, _⟩, _⟩⟩ := this
    have hr := isJoin_eq hj; subst hr
    rw [typeBound_ext_join1, typeBound_if] at hb
    simp [hn, h1 hb]
  array := by
    intro d e r c dd h a hd hs _ hb
    have := hT d hd
    simp only [rowOk, hs, Bool.and_eq_true] at this
    obtain ⟨_, ⟨⟨⟨⟨hr, _⟩, _⟩, _⟩, _⟩⟩ := this
    have hr' := isExplicitLinear_eq hr; subst hr'
    simp [typeBound] at hb
  staticArray := by
    intro d e r c dd h hd hs h1 hcp _
    have := hT d hd
    simp only [rowOk, hs, Bool.and_eq_true, Bool.not_eq_true'] at this
    obtain ⟨_, ⟨⟨⟨⟨⟨_, hn⟩, _⟩, _⟩, _⟩, _⟩⟩ := this
    simp [hn, h1 hcp]
  underlying := by
    intro d c dd h hd hs h1 hb
    have := hT d hd
    simp only [rowOk, hs, Bool.and_eq_true, Bool.not_eq_true'] at this
    obtain ⟨_, ⟨⟨hn, _⟩, _⟩⟩ := this
    simp [hn, h1 hb]
  option := by
    intro d c dd h hd hs h1 hb
    have := hT d hd
    simp only [rowOk, hs, Bool.and_eq_true, Bool.not_eq_true'] at this
    obtain ⟨_, ⟨⟨hn, _⟩, _⟩⟩ := this
    rw [typeBound_optionOf] at hb
    simp [hn, h1 hb]
  either := by
    intro d cl dl ls cr dr rs hd hs h1 h2 hb
    have := hT d hd
    simp only [rowOk, hs, Bool.and_eq_true, Bool.not_eq_true'] at this
    obtain ⟨_, ⟨⟨hn, _⟩, _⟩⟩ := this
    rw [typeBound_either, join_eq_copyable] at hb
    simp [hn, h1 (by rw [typeBound_tupleOf]; exact hb.1), h2 (by rw [typeBound_tupleOf]; exact hb.2)]
  ext1 := by
    intro d e r c dd h hd hs _ hb
    have := hT d hd
    simp only [rowOk, hs, Bool.and_eq_true] at this
    obtain ⟨_, ⟨⟨⟨hr, _⟩, _⟩, _⟩⟩ := this
    have hr' := isExplicitLinear_eq hr; subst hr'
    simp [typeBound] at hb

end GuppyVerif.CopyDrop
