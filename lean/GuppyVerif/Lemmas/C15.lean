import GuppyVerif.Spec.C15
/-! Helper lemma for C15: characterisation of the resolution loop with an index offset. -/
namespace GuppyVerif.Overload

theorem go_some_iff (args : List Arg) (exp : Option Ty) :
    ∀ (vs : List Variant) (k i : Nat) (t : Outcome),
      resolve.go args exp vs k = some (i, t) ↔
        ∃ j v, i = k + j ∧ vs[j]? = some v ∧ (attempt v args exp).1 = some t ∧
          ∀ j', j' < j → ∀ w, vs[j']? = some w → (attempt w args exp).1 = none
  | [], k, i, t => by
    simp [resolve.go]
  | v :: rest, k, i, t => by
    unfold resolve.go
    have ih := go_some_iff args exp rest (k + 1) i t
    rcases hv : attempt v args exp with ⟨r, a⟩
    cases r with
    | some t0 =>
      simp only [Option.some.injEq, Prod.mk.injEq]
      constructor
      · rintro ⟨rfl, rfl⟩
        exact ⟨0, v, rfl, rfl, by rw [hv], fun j' h => absurd h (Nat.not_lt_zero _)⟩
      · rintro ⟨j, w, hi, hw, hat, hprev⟩
        cases j with
        | zero =>
          simp only [List.getElem?_cons_zero, Option.some.injEq] at hw
          subst hw
          rw [hv] at hat
          simp only [Option.some.injEq] at hat
          exact ⟨by omega, hat⟩
        | succ j =>
          have := hprev 0 (Nat.succ_pos _) v rfl
          rw [hv] at this
          cases this
    | none =>
      simp only
      rw [ih]
      constructor
      · rintro ⟨j, w, hi, hw, hat, hprev⟩
        refine ⟨j + 1, w, by omega, by simpa using hw, hat, ?_⟩
        intro j' hj' w' hw'
        cases j' with
        | zero =>
          simp only [List.getElem?_cons_zero, Option.some.injEq] at hw'
          subst hw'; rw [hv]
        | succ j' =>
          exact hprev j' (by omega) w' (by simpa using hw')
      · rintro ⟨j, w, hi, hw, hat, hprev⟩
        cases j with
        | zero =>
          simp only [List.getElem?_cons_zero, Option.some.injEq] at hw
          subst hw
          rw [hv] at hat
          cases hat
        | succ j =>
          refine ⟨j, w, by omega, by simpa using hw, hat, ?_⟩
          intro j' hj' w' hw'
          exact hprev (j' + 1) (by omega) w' (by simpa using hw')

theorem go_none_iff (args : List Arg) (exp : Option Ty) :
    ∀ (vs : List Variant) (k : Nat),
      resolve.go args exp vs k = none ↔ ∀ v, v ∈ vs → (attempt v args exp).1 = none
  | [], k => by simp [resolve.go]
  | v :: rest, k => by
    unfold resolve.go
    have ih := go_none_iff args exp rest (k + 1)
    rcases hv : attempt v args exp with ⟨r, a⟩
    cases r with
    | some t0 =>
      simp only [reduceCtorEq, List.mem_cons, forall_eq_or_imp, false_iff, not_and]
      intro h; rw [hv] at h; cases h
    | none =>
      simp only [ih, List.mem_cons, forall_eq_or_imp, hv, true_and]

theorem goR_valid (args : List Arg) (exp : Option Ty) :
    ∀ (vs : List Variant) (k : Nat), (∀ v, v ∈ vs → v.isInvalid = false) →
      resolveR.go args exp vs k =
        match resolve.go args exp vs k with
        | some (i, o) => .chosen i o
        | none => .noMatch
  | [], k, _ => rfl
  | v :: rest, k, h => by
    unfold resolveR.go resolve.go
    have hv : v.isInvalid = false := h v List.mem_cons_self
    simp only [hv, Bool.false_eq_true, ↓reduceIte]
    rcases ha : attempt v args exp with ⟨r, a⟩
    cases r with
    | some o => rfl
    | none => exact goR_valid args exp rest (k + 1) (fun w hw => h w (List.mem_cons_of_mem _ hw))

theorem goR_invalid_iff (args : List Arg) (exp : Option Ty) :
    ∀ (vs : List Variant) (k i : Nat),
      resolveR.go args exp vs k = .invalid i ↔
        ∃ j, i = k + j ∧ (∃ v, vs[j]? = some v ∧ v.isInvalid = true) ∧
          ∀ j', j' < j → ∀ w, vs[j']? = some w → w.isInvalid = false ∧ (attempt w args exp).1 = none
  | [], k, i => by simp [resolveR.go]
  | v :: rest, k, i => by
    unfold resolveR.go
    have ih := goR_invalid_iff args exp rest (k + 1) i
    cases hv : v.isInvalid
    · simp only [Bool.false_eq_true, ↓reduceIte]
      rcases ha : attempt v args exp with ⟨r, a⟩
      cases r with
      | some o =>
        simp only [reduceCtorEq, false_iff]
        rintro ⟨j, _, ⟨w, hw, hwi⟩, hprev⟩
        cases j with
        | zero =>
          simp only [List.getElem?_cons_zero, Option.some.injEq] at hw
          subst hw; rw [hv] at hwi; cases hwi
        | succ j =>
          have := (hprev 0 (Nat.succ_pos _) v rfl).2
          rw [ha] at this; cases this
      | none =>
        simp only
        rw [ih]
        constructor
        · rintro ⟨j, hi, ⟨w, hw, hwi⟩, hprev⟩
          refine ⟨j + 1, by omega, ⟨w, by simpa using hw, hwi⟩, ?_⟩
          intro j' hj' w' hw'
          cases j' with
          | zero =>
            simp only [List.getElem?_cons_zero, Option.some.injEq] at hw'
            subst hw'; exact ⟨hv, by rw [ha]⟩
          | succ j' => exact hprev j' (by omega) w' (by simpa using hw')
        · rintro ⟨j, hi, ⟨w, hw, hwi⟩, hprev⟩
          cases j with
          | zero =>
            simp only [List.getElem?_cons_zero, Option.some.injEq] at hw
            subst hw; rw [hv] at hwi; cases hwi
          | succ j =>
            refine ⟨j, by omega, ⟨w, by simpa using hw, hwi⟩, ?_⟩
            intro j' hj' w' hw'
            exact hprev (j' + 1) (by omega) w' (by simpa using hw')
    · simp only [↓reduceIte, Resolution.invalid.injEq]
      constructor
      · rintro rfl
        exact ⟨0, rfl, ⟨v, rfl, hv⟩, fun j' h => absurd h (Nat.not_lt_zero _)⟩
      · rintro ⟨j, hi, ⟨w, hw, hwi⟩, hprev⟩
        cases j with
        | zero => omega
        | succ j =>
          have := (hprev 0 (Nat.succ_pos _) v rfl).1
          rw [hv] at this; cases this

end GuppyVerif.Overload
