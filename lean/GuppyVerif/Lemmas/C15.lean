import GuppyVerif.Spec.C15
/-! Helper lemma for C15: characterisation of the resolution loop with an index offset. -/
namespace GuppyVerif.Overload

theorem go_some_iff (args : List Arg) (exp : Option Ty) :
    ∀ (vs : List Variant) (k i : Nat) (t : Outcome),
      resolve.go args exp vs k = some (i, t) ↔
        ∃ j v, i = k + j ∧ vs[j]? = some v ∧ (attempt v args exp).1 = some t ∧
          ∀ j', j' < j → ∀ w, vs[j']? = some w → (attempt w args exp).1 = none
  | [], k, i, t => by
    simp [resolve.go]
  | v :: rest, k, i, t => by
    unfold resolve.go
    have ih := go_some_iff args exp rest (k + 1) i t
    rcases hv : attempt v args exp with ⟨r, a⟩
    cases r with
    | some t0 =>
      simp only [Option.some.injEq, Prod.mk.injEq]
      constructor
      · rintro ⟨rfl, rfl⟩
        exact ⟨0, v, rfl, rfl, by rw [hv], fun j' h => absurd h (Nat.not_lt_zero _)⟩
      · rintro ⟨j, w, hi, hw, hat, hprev⟩
        cases j with
        | zero =>
          simp only [List.getElem?_cons_zero, Option.some.injEq] at hw
          subst hw
          rw [hv] at hat
          simp only [Option.some.injEq] at hat
          exact ⟨by omega, hat⟩
        | succ j =>
          have := hprev 0 (Nat.succ_pos _) v rfl
          rw [hv] at this
          cases this
    | none =>
      simp only
      rw [ih]
      constructor
      · rintro ⟨j, w, hi, hw, hat, hprev⟩
        refine ⟨j + 1, w, by omega, by simpa using hw, hat, ?_⟩
        intro j' hj' w' hw'
        cases j' with
        | zero =>
          simp only [List.getElem?_cons_zero, Option.some.injEq] at hw'
          subst hw'; rw [hv]
        | succ j' =>
          exact hprev j' (by omega) w' (by simpa using hw')
      · rintro ⟨j, w, hi, hw, hat, hprev⟩
        cases j with
        | zero =>
          simp only [List.getElem?_cons_zero, Option.some.injEq] at hw
          subst hw
          rw [hv] at hat
          cases hat
        | succ j =>
          refine ⟨j, w, by omega, by simpa using hw, hat, ?_⟩
          intro j' hj' w' hw'
          exact hprev (j' + 1) (by omega) w' (by simpa using hw')

theorem go_none_iff (args : List Arg) (exp : Option Ty) :
    ∀ (vs : List Variant) (k : Nat),
      resolve.go args exp vs k = none ↔ ∀ v, v ∈ vs → (attempt v args exp).1 = none
  | [], k => by simp [resolve.go]
  | v :: rest, k => by
    unfold resolve.go
    have ih := go_none_iff args exp rest (k + 1)
    rcases hv : attempt v args exp with ⟨r, a⟩
    cases r with
    | some t0 =>
      simp only [reduceCtorEq, List.mem_cons, forall_eq_or_imp, false_iff, not_and]
      intro h; rw [hv] at h; cases h
    | none =>
      simp only [ih, List.mem_cons, forall_eq_or_imp, hv, true_and]

theorem goR_valid (args : List Arg) (exp : Option Ty) :
    ∀ (vs : List Variant) (k : Nat), (∀ v, v ∈ vs → v.isInvalid = false) →
      resolveR.go args exp vs k =
        match resolve.go args exp vs k with
        | some (i, o) => .chosen i o
        | none => .noMatch
  | [], k, _ => rfl
  | v :: rest, k, h => by
    unfold resolveR.go resolve.go
    have hv : v.isInvalid = false := h v List.mem_cons_self
    simp only [hv, Bool.false_eq_true, ↓reduceIte]
    rcases ha : attempt v args exp with ⟨r, a⟩
    cases r with
    | some o => rfl
    | none => exact goR_valid args exp rest (k + 1) (fun w hw => h w (List.mem_cons_of_mem _ hw))

theorem goR_invalid_iff (args : List Arg) (exp : Option Ty) :
    ∀ (vs : List Variant) (k i : Nat),
      resolveR.go args exp vs k = .invalid i ↔
        ∃ j, i = k + j ∧ (∃ v, vs[j]? = some v ∧ v.isInvalid = true) ∧
          ∀ j', j' < j → ∀ w, vs[j']? = some w → w.isInvalid = false ∧ (attempt w args exp).1 = none
  | [], k, i => by simp [resolveR.go]
  | v :: rest, k, i => by
    unfold resolveR.go
    have ih := goR_invalid_iff args exp rest (k + 1) i
    cases hv : v.isInvalid
    · simp only [Bool.false_eq_true, ↓reduceIte]
      rcases ha : attempt v args exp with ⟨r, a⟩
      cases r with
      | some o =>
        simp only [reduceCtorEq, false_iff]
        rintro ⟨j, _, ⟨w, hw, hwi⟩, hprev⟩
        cases j with
        | zero =>
          simp only [List.getElem?_cons_zero, Option.some.injEq] at hw
          subst hw; rw [hv] at hwi; cases hwi
        | succ j =>
          have := (hprev 0 (Nat.succ_pos _) v rfl).2
          rw [ha] at this; cases this
      | none =>
        simp only
        rw [ih]
        constructor
        · rintro ⟨j, hi, ⟨w, hw, hwi⟩, hprev⟩
          refine ⟨j + 1, by omega, ⟨w, by simpa using hw, hwi⟩, ?_⟩
          intro j' hj' w' hw'
          cases j' with
          | zero =>
            simp only [List.getElem?_cons_zero, Option.some.injEq] at hw'
            subst hw'; exact ⟨hv, by rw [ha]⟩
          | succ j' => exact hprev j' (by omega) w' (by simpa using hw')
        · rintro ⟨j, hi, ⟨w, hw, hwi⟩, hprev⟩
          cases j with
          | zero =>
            simp only [List.getElem?_cons_zero, Option.some.injEq] at hw
            subst hw; rw [hv] at hwi; cases hwi
          | succ j =>
            refine ⟨j, by omega, ⟨w, by simpa using hw, hwi⟩, ?_⟩
            intro j' hj' w' hw'
            exact hprev (j' + 1) (by omega) w' (by simpa using hw')
    · simp only [↓reduceIte, Resolution.invalid.injEq]
      constructor
      · rintro rfl
        exact ⟨0, rfl, ⟨v, rfl, hv⟩, fun j' h => absurd h (Nat.not_lt_zero _)⟩
      · rintro ⟨j, hi, ⟨w, hw, hwi⟩, hprev⟩
        cases j with
        | zero => omega
        | succ j =>
          have := (hprev 0 (Nat.succ_pos _) v rfl).1
          rw [hv] at this; cases this

/-! ### the scalar fragment of the acceptance model against `Widens` -/

instance (a p : Scalar) : Decidable (Widens a p) := by
  cases a <;> cases p <;>
    first
      | exact isTrue (.refl _) | exact isTrue .natInt | exact isTrue .intFloat | exact isTrue .natFloat
      | exact isFalse (fun h => by cases h)

theorem checkTypeAgainst_scalar (a p : Scalar) :
    checkTypeAgainst [] a.toTy p.toTy = (if decide (Widens a p) then some [] else none) := by
  cases a <;> cases p <;> rfl

theorem subst_scalar (σ : Subst) (p : Scalar) : p.toTy.subst σ = p.toTy := by
  cases p <;> rfl

theorem checkArgs_scalar : ∀ (ps as : List Scalar), ps.length = as.length →
    ((checkArgs [] (ps.map Scalar.toTy) [] (as.map (fun a => Arg.typed a.toTy))).1 = some [] ↔
        AllWiden as ps) ∧
      ((checkArgs [] (ps.map Scalar.toTy) [] (as.map (fun a => Arg.typed a.toTy))).1 = some [] ∨
        (checkArgs [] (ps.map Scalar.toTy) [] (as.map (fun a => Arg.typed a.toTy))).1 = none)
  | [], [], _ => by simp [checkArgs, AllWiden.nil]
  | p :: ps, a :: as, h => by
    have ih := checkArgs_scalar ps as (by simpa using h)
    simp only [List.map_cons, checkArgs, checkArg, subst_scalar, checkTypeAgainst_scalar]
    by_cases hw : Widens a p
    · simp only [hw, decide_true, ↓reduceIte, List.headD_nil, Bool.false_and, Bool.false_eq_true,
        List.tail_nil]
      refine ⟨⟨fun h' => .cons hw (ih.1.mp h'), fun h' => ?_⟩, ih.2⟩
      cases h' with
      | cons _ h2 => exact ih.1.mpr h2
    · simp only [hw, decide_false, Bool.false_eq_true, ↓reduceIte, reduceCtorEq, or_true, and_true,
        false_iff]
      intro h'
      cases h' with
      | cons h1 _ => exact hw h1
  | [], _ :: _, h => by simp at h
  | _ :: _, [], h => by simp at h

theorem beq_scalar (a b : Scalar) : (a.toTy == b.toTy) = decide (a = b) := by
  cases a <;> cases b <;> rfl

theorem closed_scalar (a : Scalar) : a.toTy.closed = true := by cases a <;> rfl

end GuppyVerif.Overload
