import GuppyVerif.Lemmas.C03Stmt
/-! # C03 helper lemmas, part 6: `build` is correct on hoist-safe statements (simulation of the
    big-step semantics by CFG execution), by induction on the big-step derivation. -/
namespace GuppyVerif.Builder
open GuppyVerif.Surface

/-- `break` / `continue` occur only inside loops (`il`: already inside a loop) -/
def loopScoped : Stmt → Bool → Bool
  | .brk, il | .cont, il => il
  | .cons s r, il => loopScoped s il && loopScoped r il
  | .ite _ t e, il => loopScoped t il && loopScoped e il
  | .while _ b, _ => loopScoped b true
  | .for _ _ b, _ => loopScoped b true
  | .forFrom _ _ _ b, _ => loopScoped b true
  | _, _ => true

def JOk (J : Jumps) (il : Bool) : Prop := il = true → (∃ t, J.brk = some t) ∧ (∃ t, J.cont = some t)

/-- what a CFG run started in configuration `c0` achieves, for outcome `o` and Python's final state `st'` -/
def PostS (env : Env) (bl : List Block) (J : Jumps) (r : BState × Option Nat) (o : Outcome) (c0 : Config)
    (nt : Nat) (st' : S) : Prop :=
  ∃ stc : S, agreeU stc.1 st'.1 ∧ stc.2 = st'.2 ∧ (∀ k, k < nt → stc.1 (.tmp k) = c0.s.1 (.tmp k)) ∧
    match o with
    | .normal => ∃ b', r.2 = some b' ∧ Steps env bl c0 ⟨b', (r.1.blk b').stmts.length, stc, c0.ret⟩
    | .brk => ∃ t, J.brk = some t ∧ Steps env bl c0 ⟨t, 0, stc, c0.ret⟩
    | .cont => ∃ t, J.cont = some t ∧ Steps env bl c0 ⟨t, 0, stc, c0.ret⟩
    | .ret v => Steps env bl c0 ⟨J.ret, 0, stc, some v⟩

theorem PostS.prefix {env : Env} {bl : List Block} {J : Jumps} {r : BState × Option Nat} {o : Outcome}
    {c0 c1 : Config} {nt nt' : Nat} {st' : S} (h1 : Steps env bl c0 c1) (hr : c1.ret = c0.ret)
    (ht : ∀ k, k < nt → c1.s.1 (.tmp k) = c0.s.1 (.tmp k)) (hle : nt ≤ nt')
    (h : PostS env bl J r o c1 nt' st') : PostS env bl J r o c0 nt st' := by
  obtain ⟨stc, a1, a2, a4, a3⟩ := h
  refine ⟨stc, a1, a2, fun k hk => by rw [a4 k (Nat.lt_of_lt_of_le hk hle)]; exact ht k hk, ?_⟩
  cases o with
  | normal => obtain ⟨b', e1, e2⟩ := a3; exact ⟨b', e1, by rw [← hr]; exact h1.trans e2⟩
  | brk => obtain ⟨t, e1, e2⟩ := a3; exact ⟨t, e1, by rw [← hr]; exact h1.trans e2⟩
  | cont => obtain ⟨t, e1, e2⟩ := a3; exact ⟨t, e1, by rw [← hr]; exact h1.trans e2⟩
  | ret v => exact h1.trans a3

/-- for jumping outcomes the builder result does not matter -/
theorem PostS.jump {env : Env} {bl : List Block} {J : Jumps} {r r' : BState × Option Nat} {o : Outcome}
    {c0 : Config} {nt : Nat} {st' : S} (ho : o ≠ .normal) (h : PostS env bl J r o c0 nt st') :
    PostS env bl J r' o c0 nt st' := by
  cases o with
  | normal => exact absurd rfl ho
  | brk => exact h
  | cont => exact h
  | ret v => exact h

/-- building the rest of a statement list extends the state (whatever the current block is) -/
theorem build_rest_ext (rest : Stmt) (b : Nat) (cur : Option Nat) (J : Jumps) (σ1 : BState) (bl : List Block)
    (hc : ∀ b1, cur = some b1 → b1 < σ1.len ∧ (σ1.blk b1).succs = [])
    (hx : Ext (build rest b cur J σ1).1 bl) : Ext σ1 bl := by
  cases cur with
  | some b1 =>
    obtain ⟨c1, c2⟩ := hc b1 rfl
    exact Ext.stepS (build_good rest b b1 J σ1 c1 c2).touch c2 hx
  | none =>
    by_cases hnil : rest = .nil
    · subst hnil; exact hx
    · rw [build_ensure rest hnil, ensure_none] at hx
      have hno : ((dummyLink b σ1.len (newBB σ1).2).blk σ1.len).succs = [] := by
        by_cases hb : σ1.len = b
        · rw [← hb, blk_dummyLink_same _ _ _ (by simp), blk_newBB_new]
        · rw [blk_dummyLink_other _ _ _ _ hb, blk_newBB_new]
      have g2 := build_good rest b σ1.len J _ (by simp) hno
      have t0 : TouchS σ1 σ1.len (dummyLink b σ1.len (newBB σ1).2) :=
        (touch_newBB _ _).toS.trans_same (touchS_dummyLink _ _ _ _)
      exact Ext.stepS (t0.trans_same g2.touch) (by rw [empty_of_ge σ1 (Nat.le_refl _)]) hx

/-- value-mode expression build, related to Python's evaluation from an agreeing state -/
theorem expr_val {env : Env} {bl : List Block} {e : Expr} {b : Nat} {σ : BState} (hu : userE e = true)
    (hb : b < σ.len) (ho : (σ.blk b).succs = []) (hx : Ext (bld e .val b σ).2.2 bl)
    {stI st s1 : S} {v : Val} (hag : agreeU stI.1 st.1) (htr : stI.2 = st.2) (hev : eval env e st = (v, s1))
    (rv : Option Val) :
    ∃ s2 : S, Steps env bl ⟨b, (σ.blk b).stmts.length, stI, rv⟩
        ⟨(bld e .val b σ).2.1, ((bld e .val b σ).2.2.blk (bld e .val b σ).2.1).stmts.length, s2, rv⟩ ∧
      eval env (bld e .val b σ).1 s2 = (v, (s2.1, s1.2)) ∧ agreeU s2.1 s1.1 ∧
      (∀ k, k < σ.nextTmp → s2.1 (.tmp k) = stI.1 (.tmp k)) := by
  obtain ⟨s2, h1, h2, h3, h4⟩ := sem_all env e .val b σ bl hu hb ho hx stI rv
  obtain ⟨c1, c2, c3⟩ := eval_from_agree env e hu stI st htr hag
  rw [hev] at c1 c2 c3
  exact ⟨s2, h1, by rw [h2, c1, c2], h3.trans c3, h4⟩

/-- branch-mode expression build, related to Python's evaluation from an agreeing state -/
theorem expr_br {env : Env} {bl : List Block} {e : Expr} {b t f : Nat} {σ : BState} (hu : userE e = true)
    (hb : b < σ.len) (ho : (σ.blk b).succs = []) (hx : Ext (bld e (.br t f) b σ).2.2 bl)
    {stI st s1 : S} {v : Val} (hag : agreeU stI.1 st.1) (htr : stI.2 = st.2) (hev : eval env e st = (v, s1))
    (rv : Option Val) :
    ∃ s2 : S, Steps env bl ⟨b, (σ.blk b).stmts.length, stI, rv⟩ ⟨if v.truthy then t else f, 0, s2, rv⟩ ∧
      s2.2 = s1.2 ∧ agreeU s2.1 s1.1 ∧ (∀ k, k < σ.nextTmp → s2.1 (.tmp k) = stI.1 (.tmp k)) := by
  obtain ⟨s2, h1, h2, h3, h4⟩ := sem_all env e (.br t f) b σ bl hu hb ho hx stI rv
  obtain ⟨c1, c2, c3⟩ := eval_from_agree env e hu stI st htr hag
  rw [hev] at c1 c2 c3
  rw [c1] at h1
  exact ⟨s2, h1, by rw [h2, c2], h3.trans c3, h4⟩

/-- executing the statement that was just appended to block `b` -/
theorem step_added {env : Env} {bl : List Block} {σ0 : BState} {b : Nat} (st : BStmt) (hb : b < σ0.len)
    (hx : Ext (addStmt b st σ0) bl) (s : S) (rv : Option Val) :
    step env bl ⟨b, (σ0.blk b).stmts.length, s, rv⟩ = some (execB env st ⟨b, (σ0.blk b).stmts.length, s, rv⟩) ∧
    ((addStmt b st σ0).blk b).stmts.length = (σ0.blk b).stmts.length + 1 := by
  have hk : ((addStmt b st σ0).blk b).stmts[(σ0.blk b).stmts.length]? = some st := by
    rw [blk_addStmt_same _ _ _ hb]; simp
  exact ⟨step_stmt hx (by simpa using hb) hk s rv, by rw [blk_addStmt_same _ _ _ hb]; simp⟩

/-- the jump out of block `b` that was just linked to `t` -/
theorem step_linked {env : Env} {bl : List Block} {σ0 : BState} {b t : Nat} (hb : b < σ0.len)
    (ho : (σ0.blk b).succs = []) (hx : Ext (link b t σ0) bl) (s : S) (rv : Option Val) :
    step env bl ⟨b, (σ0.blk b).stmts.length, s, rv⟩ = some ⟨t, 0, s, rv⟩ := by
  have hblk := blk_link_same b t σ0 hb
  have := step_goto (env := env) hx (b := b) (t := t) (by simpa using hb) (by rw [hblk, ho]; rfl) s rv
  rw [hblk] at this
  exact this

/-- **statement builder correct** for the derivation `Exec env s st o st'`, from the current block (and, for a
    `while`, from its loop head) -/
def SemA (env : Env) (s : Stmt) (st : S) (o : Outcome) (st' : S) : Prop :=
  ∀ (prev b : Nat) (J : Jumps) (σ : BState) (bl : List Block) (il : Bool) (stI : S) (rv : Option Val),
    userS s = true → loopScoped s il = true → JOk J il →
    b < σ.len → (σ.blk b).succs = [] → Ext (build s prev (some b) J σ).1 bl →
    agreeU stI.1 st.1 → stI.2 = st.2 →
    PostS env bl J (build s prev (some b) J σ) o ⟨b, (σ.blk b).stmts.length, stI, rv⟩ σ.nextTmp st' ∧
    (∀ c body, s = .while c body →
      PostS env bl J (build s prev (some b) J σ) o ⟨σ.len, 0, stI, rv⟩ σ.nextTmp st')

/-- the remaining iterations `i, i+1, … < m` of a `for` loop, from its loop head, when the iterator temporary
    holds `iter i m` -/
def SemC (env : Env) (s : Stmt) (st : S) (o : Outcome) (st' : S) : Prop :=
  ∀ (x : Var) (i m : Int) (body : Stmt), s = .forFrom x i m body →
  ∀ (e : Expr) (prev b : Nat) (J : Jumps) (σ : BState) (bl : List Block) (il : Bool) (stI : S) (rv : Option Val),
    userS (.for x e body) = true → loopScoped (.for x e body) il = true →
    JOk J il → b < σ.len → (σ.blk b).succs = [] → Ext (build (.for x e body) prev (some b) J σ).1 bl →
    agreeU stI.1 st.1 → stI.2 = st.2 → stI.1 (.tmp σ.nextTmp) = .iter i m →
    PostS env bl J (build (.for x e body) prev (some b) J σ) o ⟨(forS1 e b σ).len, 0, stI, rv⟩ σ.nextTmp st'

def SemS (env : Env) (s : Stmt) (st : S) (o : Outcome) (st' : S) : Prop :=
  SemA env s st o st' ∧ SemC env s st o st'

theorem semC_vacuous {env : Env} {s : Stmt} {st st' : S} {o : Outcome}
    (h : ∀ x i m body, s ≠ .forFrom x i m body) : SemC env s st o st' :=
  fun x i m body hs => absurd hs (h x i m body)

theorem tmp_ne_user (k : Nat) (u : String) : Var.tmp k ≠ Var.user u := by intro h; cases h

theorem sem_nil (env : Env) (st : S) : SemS env .nil st .normal st := by
  refine ⟨?_, semC_vacuous (fun _ _ _ _ h => by cases h)⟩
  intro prev b J σ bl il stI rv _ _ _ _ _ _ hag htr
  exact ⟨⟨stI, hag, htr, fun _ _ => rfl, b, rfl, .refl _⟩, fun _ _ h => by cases h⟩

theorem sem_pass (env : Env) (st : S) : SemS env .pass st .normal st := by
  refine ⟨?_, semC_vacuous (fun _ _ _ _ h => by cases h)⟩
  intro prev b J σ bl il stI rv _ _ _ _ _ _ hag htr
  exact ⟨⟨stI, hag, htr, fun _ _ => rfl, b, rfl, .refl _⟩, fun _ _ h => by cases h⟩

theorem sem_brk (env : Env) (st : S) : SemS env .brk st .brk st := by
  refine ⟨?_, semC_vacuous (fun _ _ _ _ h => by cases h)⟩
  intro prev b J σ bl il stI rv _ hsc hJ hb ho hx hag htr
  simp only [loopScoped] at hsc
  obtain ⟨⟨t, ht⟩, _⟩ := hJ hsc
  simp only [build, ensure_some, ht] at hx
  exact ⟨⟨stI, hag, htr, fun _ _ => rfl, t, ht, Steps.single (step_linked hb ho hx stI rv)⟩, fun _ _ h => by cases h⟩

theorem sem_cont (env : Env) (st : S) : SemS env .cont st .cont st := by
  refine ⟨?_, semC_vacuous (fun _ _ _ _ h => by cases h)⟩
  intro prev b J σ bl il stI rv _ hsc hJ hb ho hx hag htr
  simp only [loopScoped] at hsc
  obtain ⟨_, ⟨t, ht⟩⟩ := hJ hsc
  simp only [build, ensure_some, ht] at hx
  exact ⟨⟨stI, hag, htr, fun _ _ => rfl, t, ht, Steps.single (step_linked hb ho hx stI rv)⟩, fun _ _ h => by cases h⟩

theorem sem_ret0 (env : Env) (st : S) : SemS env .ret0 st (.ret .none) st := by
  refine ⟨?_, semC_vacuous (fun _ _ _ _ h => by cases h)⟩
  intro prev b J σ bl il stI rv _ _ _ hb ho hx hag htr
  simp only [build, ensure_some] at hx
  have hx1 : Ext (addStmt b .ret0 σ) bl :=
    Ext.step (touch_link _ _ _) (by rw [blk_addStmt_same _ _ _ hb]; exact ho) hx
  obtain ⟨h1, hl⟩ := step_added (env := env) .ret0 hb hx1 stI rv
  have h2 := step_linked (env := env) (σ0 := addStmt b .ret0 σ) (t := J.ret) (by simpa using hb)
    (by rw [blk_addStmt_same _ _ _ hb]; exact ho) hx stI (some .none)
  rw [hl] at h2
  refine ⟨⟨stI, hag, htr, fun _ _ => rfl, ?_⟩, fun _ _ h => by cases h⟩
  exact .head h1 (.head (by simpa [execB] using h2) (.refl _))

theorem sem_ret {env : Env} {e : Expr} {st s1 : S} {v : Val} (hev : eval env e st = (v, s1)) :
    SemS env (.ret e) st (.ret v) s1 := by
  refine ⟨?_, semC_vacuous (fun _ _ _ _ h => by cases h)⟩
  intro prev b J σ bl il stI rv hu _ _ hb ho hx hag htr
  simp only [userS] at hu
  simp only [build, ensure_some, buildE] at hx
  have g : GoodV σ b (bld e .val b σ).2.1 (bld e .val b σ).2.2 := bld_good e .val b σ hb ho
  have hx1 : Ext (addStmt (bld e .val b σ).2.1 (.ret (bld e .val b σ).1) (bld e .val b σ).2.2) bl :=
    Ext.step (touch_link _ _ _) (by rw [blk_addStmt_same _ _ _ g.lt]; exact g.opn) hx
  have hx0 : Ext (bld e .val b σ).2.2 bl := Ext.step (touch_addStmt _ _ _) g.opn hx1
  obtain ⟨s2, hst, hev2, hag2, htm2⟩ := expr_val hu hb ho hx0 hag htr hev rv
  obtain ⟨h1, hl⟩ := step_added (env := env) (.ret (bld e .val b σ).1) g.lt hx1 s2 rv
  have h2 := step_linked (env := env) (σ0 := addStmt (bld e .val b σ).2.1 (.ret (bld e .val b σ).1) (bld e .val b σ).2.2)
    (t := J.ret) (by simpa using g.lt) (by rw [blk_addStmt_same _ _ _ g.lt]; exact g.opn) hx (s2.1, s1.2) (some v)
  rw [hl] at h2
  simp only [execB, hev2] at h1
  refine ⟨⟨(s2.1, s1.2), hag2, rfl, htm2, ?_⟩, fun _ _ h => by cases h⟩
  exact hst.trans (.head h1 (.head h2 (.refl _)))

theorem sem_assign {env : Env} {e : Expr} {x : Var} {st s1 : S} {v : Val} (hev : eval env e st = (v, s1)) :
    SemS env (.assign x e) st .normal (s1.1.set x v, s1.2) := by
  refine ⟨?_, semC_vacuous (fun _ _ _ _ h => by cases h)⟩
  intro prev b J σ bl il stI rv hu _ _ hb ho hx hag htr
  simp only [userS, Bool.and_eq_true] at hu
  simp only [build, ensure_some, buildE] at hx ⊢
  have g : GoodV σ b (bld e .val b σ).2.1 (bld e .val b σ).2.2 := bld_good e .val b σ hb ho
  have hx0 : Ext (bld e .val b σ).2.2 bl := Ext.step (touch_addStmt _ _ _) g.opn hx
  obtain ⟨s2, hst, hev2, hag2, htm2⟩ := expr_val hu.2 hb ho hx0 hag htr hev rv
  obtain ⟨h1, hl⟩ := step_added (env := env) (.assign x (bld e .val b σ).1) g.lt hx s2 rv
  simp only [execB, hev2] at h1
  have hxu : ∃ u, x = .user u := by cases x <;> simp_all [isUser]
  obtain ⟨u, rfl⟩ := hxu
  refine ⟨⟨(s2.1.set (.user u) v, s1.2), agreeU_set hag2 _ _, rfl,
    fun k hk => by simp only []; rw [set_other _ _ (tmp_ne_user k u)]; exact htm2 k hk, _, rfl, ?_⟩,
    fun _ _ h => by cases h⟩
  simp only [hl]
  exact hst.trans (Steps.single h1)

theorem eval_arith_tmp (env : Env) (op : BinOp) (k : Nat) (r : Expr) (s : S) :
    eval env (.bi (.arith op) (.var (.tmp k)) r) s = (arith op (s.1 (.tmp k)) (eval env r s).1, (eval env r s).2) := rfl

theorem sem_aug {env : Env} {e : Expr} {x : Var} {op : BinOp} {st s1 : S} {v : Val}
    (hev : eval env e st = (v, s1)) :
    SemS env (.aug x op e) st .normal (s1.1.set x (arith op (st.1 x) v), s1.2) := by
  refine ⟨?_, semC_vacuous (fun _ _ _ _ h => by cases h)⟩
  intro prev b J σ bl il stI rv hu _ _ hb ho hx hag htr
  simp only [userS, Bool.and_eq_true] at hu
  have hxu : ∃ u, x = .user u := by cases x <;> simp_all [isUser]
  obtain ⟨u, rfl⟩ := hxu
  simp only [build, ensure_some, buildE] at hx ⊢
  cases hw : (writes e).contains (Var.user u) with
  | false =>
    rw [hw] at hx
    simp only [Bool.false_eq_true, if_false] at hx ⊢
    have g : GoodV σ b (bld e .val b σ).2.1 (bld e .val b σ).2.2 := bld_good e .val b σ hb ho
    have hx0 : Ext (bld e .val b σ).2.2 bl := Ext.step (touch_addStmt _ _ _) g.opn hx
    obtain ⟨s2, hst, hev2, hag2, htm2⟩ := expr_val hu.2 hb ho hx0 hag htr hev rv
    obtain ⟨h1, hl⟩ := step_added (env := env) (.aug (.user u) op (bld e .val b σ).1) g.lt hx s2 rv
    simp only [execB, hev2] at h1
    have hxw : Var.user u ∉ writes e := by
      intro hm
      have := List.contains_iff_mem.mpr hm
      rw [hw] at this; cases this
    have hxv : s2.1 (.user u) = st.1 (.user u) := by
      rw [hag2 u]
      have := eval_writes env e st _ hxw
      rw [hev] at this; exact this
    rw [hxv] at h1
    refine ⟨⟨(s2.1.set (.user u) (arith op (st.1 (.user u)) v), s1.2), agreeU_set hag2 _ _, rfl,
      fun k hk => by simp only []; rw [set_other _ _ (tmp_ne_user k u)]; exact htm2 k hk, _, rfl, ?_⟩,
      fun _ _ h => by cases h⟩
    simp only [hl]
    exact hst.trans (Steps.single h1)
  | true =>
    rw [hw] at hx
    simp only [if_true] at hx ⊢
    have g0 : GoodV σ b b (preBind true (.var (.user u)) b σ).2 := preBind_good hb (GoodV.refl hb ho) true _
    have hpb : (preBind true (.var (.user u)) b σ) = bindTmp (.var (.user u)) b σ := rfl
    rw [← hpb] at hx ⊢
    have g1 := bld_good e .val b _ g0.lt g0.opn
    have hx0 : Ext (bld e .val b (preBind true (.var (.user u)) b σ).2).2.2 bl :=
      Ext.step (touch_addStmt _ _ _) g1.opn hx
    have hxp : Ext (preBind true (.var (.user u)) b σ).2 bl := Ext.step g1.touch g0.opn hx0
    obtain ⟨sD, hstD, _, hagD, htmD, hbt, _⟩ := preBind_sem (env := env) true hb hxp stI rv (stI.1 (.user u)) stI.2 rfl
    obtain ⟨hD, hD1, hD2⟩ := hbt rfl
    have htrD : sD.2 = st.2 := by rw [hD]; exact htr
    obtain ⟨s2, hst, hev2, hag2, htm2⟩ := expr_val hu.2 g0.lt g0.opn hx0 (hagD.trans hag) htrD hev rv
    obtain ⟨h1, hl⟩ := step_added (env := env)
      (.assign (.user u) (.bi (.arith op) (preBind true (.var (.user u)) b σ).1
        (bld e .val b (preBind true (.var (.user u)) b σ).2).1)) g1.lt hx s2 rv
    have hold : s2.1 (.tmp σ.nextTmp) = st.1 (.user u) := by
      rw [htm2 _ (by rw [hD2]; exact Nat.lt_succ_self _), hD]
      simp only [set_same]
      exact hag u
    rw [hD1] at h1
    simp only [execB, eval_arith_tmp, hev2, hold] at h1
    refine ⟨⟨(s2.1.set (.user u) (arith op (st.1 (.user u)) v), s1.2), agreeU_set hag2 _ _, rfl,
      fun k hk => by
        simp only []
        rw [set_other _ _ (tmp_ne_user k u), htm2 k (by rw [hD2]; omega)]
        exact htmD k hk, _, rfl, ?_⟩,
      fun _ _ h => by cases h⟩
    simp only [hl]
    exact hstD.trans (hst.trans (Steps.single h1))

theorem isTmpVar_spec {e : Expr} (h : isTmpVar e = true) : ∃ k, e = .var (.tmp k) := by
  cases e with
  | var x => cases x with
    | tmp k => exact ⟨k, rfl⟩
    | user u => simp [isTmpVar] at h
  | _ => simp [isTmpVar] at h

theorem sem_expr {env : Env} {e : Expr} {st s1 : S} {v : Val} (hev : eval env e st = (v, s1)) :
    SemS env (.expr e) st .normal s1 := by
  refine ⟨?_, semC_vacuous (fun _ _ _ _ h => by cases h)⟩
  intro prev b J σ bl il stI rv hu _ _ hb ho hx hag htr
  simp only [userS] at hu
  simp only [build, ensure_some, buildE] at hx ⊢
  have g : GoodV σ b (bld e .val b σ).2.1 (bld e .val b σ).2.2 := bld_good e .val b σ hb ho
  cases hT : isTmpVar (bld e .val b σ).1 with
  | true =>
    rw [hT] at hx
    simp only [] at hx ⊢
    obtain ⟨s2, hst, hev2, hag2, htm2⟩ := expr_val hu hb ho hx hag htr hev rv
    obtain ⟨k, hk⟩ := isTmpVar_spec hT
    rw [hk, eval_tmpvar] at hev2
    have htr2 : s2.2 = s1.2 := by
      have := congrArg (fun p => p.2.2) hev2
      simpa using this
    exact ⟨⟨s2, hag2, htr2, htm2, _, rfl, hst⟩, fun _ _ h => by cases h⟩
  | false =>
    rw [hT] at hx
    simp only [] at hx ⊢
    have hx0 : Ext (bld e .val b σ).2.2 bl := Ext.step (touch_addStmt _ _ _) g.opn hx
    obtain ⟨s2, hst, hev2, hag2, htm2⟩ := expr_val hu hb ho hx0 hag htr hev rv
    obtain ⟨h1, hl⟩ := step_added (env := env) (.expr (bld e .val b σ).1) g.lt hx s2 rv
    simp only [execB, hev2] at h1
    refine ⟨⟨(s2.1, s1.2), hag2, rfl, htm2, _, rfl, ?_⟩, fun _ _ h => by cases h⟩
    simp only [hl]
    exact hst.trans (Steps.single h1)

theorem sem_consN {env : Env} {a rest : Stmt} {st s1 s2 : S} {o : Outcome}
    (iha : SemS env a st .normal s1) (ihr : SemS env rest s1 o s2) : SemS env (.cons a rest) st o s2 := by
  refine ⟨?_, semC_vacuous (fun _ _ _ _ h => by cases h)⟩
  intro prev b J σ bl il stI rv hu hsc hJ hb ho hx hag htr
  simp only [userS, Bool.and_eq_true] at hu
  simp only [loopScoped, Bool.and_eq_true] at hsc
  simp only [build, ensure_some] at hx ⊢
  have ga := build_good a b b J σ hb ho
  have hx1 : Ext (build a b (some b) J σ).1 bl :=
    build_rest_ext rest b _ J _ bl (fun b1 h => (ga.cur b1 h).2) hx
  obtain ⟨⟨stc, a1, a2, a4, b1, e1, e2⟩, _⟩ := iha.1 b b J σ bl il stI rv hu.1 hsc.1 hJ hb ho hx1 hag htr
  obtain ⟨_, c2, c3⟩ := ga.cur b1 e1
  rw [e1] at hx ⊢
  have := (ihr.1 b b1 J _ bl il stc rv hu.2 hsc.2 hJ c2 c3 hx a1 a2).1
  exact ⟨PostS.prefix e2 rfl a4 ga.touch.tmp this, fun _ _ h => by cases h⟩

theorem sem_consJ {env : Env} {a rest : Stmt} {st s1 : S} {o : Outcome}
    (iha : SemS env a st o s1) (hne : o ≠ .normal) : SemS env (.cons a rest) st o s1 := by
  refine ⟨?_, semC_vacuous (fun _ _ _ _ h => by cases h)⟩
  intro prev b J σ bl il stI rv hu hsc hJ hb ho hx hag htr
  simp only [userS, Bool.and_eq_true] at hu
  simp only [loopScoped, Bool.and_eq_true] at hsc
  simp only [build, ensure_some] at hx ⊢
  have ga := build_good a b b J σ hb ho
  have hx1 : Ext (build a b (some b) J σ).1 bl :=
    build_rest_ext rest b _ J _ bl (fun b1 h => (ga.cur b1 h).2) hx
  have := (iha.1 b b J σ bl il stI rv hu.1 hsc.1 hJ hb ho hx1 hag htr).1
  exact ⟨PostS.jump hne this, fun _ _ h => by cases h⟩

/-- the three shapes in which `visit_If` ends -/
def iteFin (rt re : BState × Option Nat) : BState × Option Nat :=
  match rt.2, re.2 with
  | none, r => (re.1, r)
  | some a, none => (re.1, some a)
  | some a, some b2 => ((newBB2 a b2 re.1).2, some (newBB2 a b2 re.1).1)

theorem build_ite_eq (c : Expr) (t e : Stmt) (prev b : Nat) (J : Jumps) (σ : BState) :
    build (.ite c t e) prev (some b) J σ =
      iteFin (build t σ.len (some σ.len) J (itS1 c b σ))
        (build e (σ.len + 1) (some (σ.len + 1)) J (build t σ.len (some σ.len) J (itS1 c b σ)).1) := by
  simp only [build, ensure_some, fst_newBB, len_newBB, branchE, iteFin]; rfl

theorem ite_join {env : Env} {bl : List Block} {σ1 : BState} {tb eb : Nat} {rt re : BState × Option Nat}
    (gt : GoodS σ1 tb rt) (ge : GoodS rt.1 eb re) (htb : tb < σ1.len) (heb : eb < σ1.len) (hne : tb ≠ eb)
    (hx : Ext (iteFin rt re).1 bl) :
    Ext re.1 bl ∧
    (∀ a, rt.2 = some a → ∀ (stc : S) (rv : Option Val), ∃ b', (iteFin rt re).2 = some b' ∧
      Steps env bl ⟨a, (rt.1.blk a).stmts.length, stc, rv⟩ ⟨b', ((iteFin rt re).1.blk b').stmts.length, stc, rv⟩) ∧
    (∀ b2, re.2 = some b2 → ∀ (stc : S) (rv : Option Val), ∃ b', (iteFin rt re).2 = some b' ∧
      Steps env bl ⟨b2, (re.1.blk b2).stmts.length, stc, rv⟩ ⟨b', ((iteFin rt re).1.blk b').stmts.length, stc, rv⟩) := by
  have hlt := gt.touch.len
  have hle := ge.touch.len
  cases hrt : rt.2 with
  | none =>
    simp only [iteFin, hrt] at hx ⊢
    exact ⟨hx, (fun a h => by cases h), fun b2 h stc rv => ⟨b2, h, .refl _⟩⟩
  | some a =>
    obtain ⟨a1, a2, a3⟩ := gt.cur a hrt
    have hae : a ≠ eb := by rcases a1 with h | h <;> omega
    have hca := ge.touch.frame a a2 hae
    have a3' : (re.1.blk a).succs = [] := by rw [core_succs hca]; exact a3
    cases hre : re.2 with
    | none =>
      simp only [iteFin, hrt, hre] at hx ⊢
      refine ⟨hx, ?_, fun b2 h => by cases h⟩
      intro a' ha' stc rv; cases ha'
      exact ⟨a, rfl, by rw [core_stmts hca]; exact .refl _⟩
    | some b2 =>
      obtain ⟨d1, d2, d3⟩ := ge.cur b2 hre
      have hab : a ≠ b2 := by rcases d1 with h | h <;> omega
      simp only [iteFin, hrt, hre, newBB2, fst_newBB] at hx ⊢
      have la : a < (newBB re.1).2.len := by simp; omega
      have lb : b2 < (link a re.1.len (newBB re.1).2).len := by simp; omega
      have oa : ((newBB re.1).2.blk a).succs = [] := by rw [blk_newBB_old _ _ (by omega)]; exact a3'
      have ob : ((link a re.1.len (newBB re.1).2).blk b2).succs = [] := by
        rw [blk_link_other _ _ _ _ (Ne.symm hab), blk_newBB_old _ _ d2]; exact d3
      have hx2 : Ext (link a re.1.len (newBB re.1).2) bl := Ext.step (touch_link _ _ _) ob hx
      have hx3 : Ext (newBB re.1).2 bl := Ext.step (touch_link _ _ _) oa hx2
      have hx4 : Ext re.1 bl := Ext.step (touch_newBB re.1 a) a3' hx3
      have hm : ((link b2 re.1.len (link a re.1.len (newBB re.1).2)).blk re.1.len).stmts.length = 0 := by
        rw [blk_link_other _ _ _ _ (by omega), blk_link_other _ _ _ _ (by omega), blk_newBB_new]; rfl
      refine ⟨hx4, ?_, ?_⟩
      · intro a' ha' stc rv; cases ha'
        have h1 := step_linked (env := env) la oa hx2 stc rv
        rw [blk_newBB_old _ _ (by omega), core_stmts hca] at h1
        exact ⟨_, rfl, by rw [hm]; exact Steps.single h1⟩
      · intro b' hb' stc rv; cases hb'
        have h1 := step_linked (env := env) lb ob hx stc rv
        rw [blk_link_other _ _ _ _ (Ne.symm hab), blk_newBB_old _ _ d2] at h1
        exact ⟨_, rfl, by rw [hm]; exact Steps.single h1⟩

/-- common part of the two `if` rules: which branch is built from which block -/
theorem sem_ite_aux {env : Env} {c : Expr} {t e : Stmt} {st s1 s2 : S} {v : Val} {o : Outcome}
    (hev : eval env c st = (v, s1))
    (hbr : if v.truthy then SemS env t s1 o s2 else SemS env e s1 o s2) : SemS env (.ite c t e) st o s2 := by
  refine ⟨?_, semC_vacuous (fun _ _ _ _ h => by cases h)⟩
  intro prev b J σ bl il stI rv hu hsc hJ hb ho hx hag htr
  simp only [userS, Bool.and_eq_true] at hu
  simp only [loopScoped, Bool.and_eq_true] at hsc
  rw [build_ite_eq] at hx ⊢
  obtain ⟨t1, hl1, htb, heb, hb', ho', hbl⟩ := itS1_facts c hb ho
  have htm1 : σ.nextTmp ≤ (itS1 c b σ).nextTmp := by
    have := t1.tmp
    simp only [tmp_newBB] at this
    exact this
  have gt := build_good t σ.len σ.len J (itS1 c b σ) (by omega) (by rw [htb])
  have hlt := gt.touch.len
  have hebc := gt.touch.frame (σ.len + 1) (by omega) (by omega)
  have heb2 : ((build t σ.len (some σ.len) J (itS1 c b σ)).1.blk (σ.len + 1)).succs = [] := by
    rw [core_succs hebc, heb]
  have ge := build_good e (σ.len + 1) (σ.len + 1) J _ (by omega) heb2
  obtain ⟨hxe, j2, j3⟩ := ite_join (env := env) gt ge (by omega) (by omega) (by omega) hx
  have hxt : Ext (build t σ.len (some σ.len) J (itS1 c b σ)).1 bl := Ext.stepS ge.touch heb2 hxe
  have hx1 : Ext (itS1 c b σ) bl := Ext.stepS gt.touch (by rw [htb]) hxt
  obtain ⟨sA, hstA, htrA, hagA, htmA⟩ := expr_br (e := c) (t := σ.len) (f := σ.len + 1) hu.1.1 hb' ho' hx1 hag htr hev rv
  rw [hbl] at hstA
  have htmA' : ∀ k, k < σ.nextTmp → sA.1 (.tmp k) = stI.1 (.tmp k) := fun k hk => htmA k (by simpa using hk)
  refine ⟨?_, fun _ _ h => by cases h⟩
  cases hv : v.truthy with
  | true =>
    rw [hv] at hstA hbr
    simp only [if_true] at hstA hbr
    have h := (hbr.1 σ.len σ.len J (itS1 c b σ) bl il sA rv hu.1.2 hsc.1 hJ (by omega) (by rw [htb])
      hxt hagA htrA).1
    rw [htb] at h
    refine PostS.prefix hstA rfl htmA' htm1 ?_
    cases o with
    | normal =>
      obtain ⟨stc, q1, q2, q5, b', q3, q4⟩ := h
      obtain ⟨b'', r1, r2⟩ := j2 b' q3 stc rv
      exact ⟨stc, q1, q2, q5, b'', r1, q4.trans r2⟩
    | brk => exact h
    | cont => exact h
    | ret w => exact h
  | false =>
    rw [hv] at hstA hbr
    simp only [Bool.false_eq_true, if_false] at hstA hbr
    have h := (hbr.1 (σ.len + 1) (σ.len + 1) J _ bl il sA rv hu.2 hsc.2 hJ (by omega) heb2
      hxe hagA htrA).1
    rw [core_stmts hebc, heb] at h
    refine PostS.prefix hstA rfl htmA' (Nat.le_trans htm1 gt.touch.tmp) ?_
    cases o with
    | normal =>
      obtain ⟨stc, q1, q2, q5, b', q3, q4⟩ := h
      obtain ⟨b'', r1, r2⟩ := j3 b' q3 stc rv
      exact ⟨stc, q1, q2, q5, b'', r1, q4.trans r2⟩
    | brk => exact h
    | cont => exact h
    | ret w => exact h

/-! ### loops -/

def whJ (J : Jumps) (σ : BState) : Jumps := ⟨J.ret, some σ.len, some (σ.len + 2)⟩
def whRB (c : Expr) (body : Stmt) (b : Nat) (J : Jumps) (σ : BState) : BState × Option Nat :=
  build body (σ.len + 1) (some (σ.len + 1)) (whJ J σ) (whS1 c b σ)

theorem build_while_eq (c : Expr) (body : Stmt) (prev b : Nat) (J : Jumps) (σ : BState) :
    build (.while c body) prev (some b) J σ = loopFin σ.len (whRB c body b J σ) := by
  simp only [build, ensure_some, newBB1, fst_newBB, len_newBB, len_link, branchE, loopFin, whRB, whJ]; rfl

/-- what both loop templates need about their last part: the body was built from block `bb` of state `σ7`
    with the loop head `hd` and the (empty, open) tail `hd + 2`; then the body's end is linked to the head -/
theorem loop_setup {env : Env} {bl : List Block} {σ7 : BState} {hd bb : Nat} {rb : BState × Option Nat}
    (gb : GoodS σ7 bb rb) (hbb : bb < σ7.len) (hbo : (σ7.blk bb).succs = []) (htl : hd + 2 < σ7.len)
    (hne : hd + 2 ≠ bb) (ftl : σ7.blk (hd + 2) = {}) (hx : Ext (loopFin hd rb).1 bl) :
    Ext rb.1 bl ∧ Ext σ7 bl ∧ (loopFin hd rb).2 = some (hd + 2) ∧
    ((loopFin hd rb).1.blk (hd + 2)).stmts.length = 0 ∧
    (∀ e, rb.2 = some e → ∀ (stc : S) (rv : Option Val),
      step env bl ⟨e, (rb.1.blk e).stmts.length, stc, rv⟩ = some ⟨hd, 0, stc, rv⟩) := by
  have hlb := gb.touch.len
  have ctl := gb.touch.frame (hd + 2) htl hne
  have hxrb : Ext rb.1 bl ∧ ((loopFin hd rb).1.blk (hd + 2)).stmts.length = 0 ∧
      (∀ e, rb.2 = some e → ∀ (stc : S) (rv : Option Val),
        step env bl ⟨e, (rb.1.blk e).stmts.length, stc, rv⟩ = some ⟨hd, 0, stc, rv⟩) := by
    cases hrb : rb.2 with
    | none =>
      simp only [loopFin, hrb] at hx ⊢
      exact ⟨hx, by rw [core_stmts ctl, ftl]; rfl, fun e h => by cases h⟩
    | some e =>
      obtain ⟨e1, e2, e3⟩ := gb.cur e hrb
      have hetl : e ≠ hd + 2 := by rcases e1 with h | h <;> omega
      simp only [loopFin, hrb] at hx ⊢
      refine ⟨Ext.step (touch_link _ _ _) e3 hx, ?_, ?_⟩
      · rw [blk_link_other _ _ _ _ (Ne.symm hetl), core_stmts ctl, ftl]; rfl
      · intro e' he' stc rv; cases he'
        exact step_linked e2 e3 hx stc rv
  obtain ⟨hx1, hz, hstep⟩ := hxrb
  refine ⟨hx1, Ext.stepS gb.touch hbo hx1, ?_, hz, hstep⟩
  simp only [loopFin]; split <;> rfl

theorem while_setup {env : Env} {bl : List Block} (c : Expr) (body : Stmt) (b : Nat) (J : Jumps) (σ : BState)
    (hb : b < σ.len) (ho : (σ.blk b).succs = [])
    (hx : Ext (loopFin σ.len (whRB c body b J σ)).1 bl) :
    Ext (whRB c body b J σ).1 bl ∧ Ext (whS1 c b σ) bl ∧
    (loopFin σ.len (whRB c body b J σ)).2 = some (σ.len + 2) ∧
    ((loopFin σ.len (whRB c body b J σ)).1.blk (σ.len + 2)).stmts.length = 0 ∧
    (∀ (stI : S) (rv : Option Val), step env bl ⟨b, (σ.blk b).stmts.length, stI, rv⟩ = some ⟨σ.len, 0, stI, rv⟩) ∧
    (∀ e, (whRB c body b J σ).2 = some e → ∀ (stc : S) (rv : Option Val),
      step env bl ⟨e, ((whRB c body b J σ).1.blk e).stmts.length, stc, rv⟩ = some ⟨σ.len, 0, stc, rv⟩) := by
  obtain ⟨t1, hl1, fb, fbb, ftl, t01⟩ := whS1_facts c hb ho
  have gb : GoodS (whS1 c b σ) (σ.len + 1) (whRB c body b J σ) :=
    build_good body (σ.len + 1) (σ.len + 1) (whJ J σ) (whS1 c b σ) (by omega) (by rw [fbb])
  obtain ⟨hx1, hxs, hfin, hz, hstep⟩ := loop_setup (env := env) gb (by omega) (by rw [fbb]) (by omega) (by omega) ftl hx
  refine ⟨hx1, hxs, hfin, hz, ?_, hstep⟩
  intro stI rv
  have := step_goto (env := env) hxs (b := b) (t := σ.len) (by omega) (by rw [fb]) stI rv
  rw [fb] at this
  exact this

theorem JOk_wh (J : Jumps) (σ : BState) : JOk (whJ J σ) true := fun _ => ⟨⟨_, rfl⟩, ⟨_, rfl⟩⟩

/-- from the loop head to the end of the first evaluation of the condition -/
theorem while_cond {env : Env} {bl : List Block} {c : Expr} {b : Nat} {σ : BState} (hu : userE c = true)
    (hb : b < σ.len) (ho : (σ.blk b).succs = []) (hxs : Ext (whS1 c b σ) bl)
    {stI st s1 : S} {v : Val} (hag : agreeU stI.1 st.1) (htr : stI.2 = st.2) (hev : eval env c st = (v, s1))
    (rv : Option Val) :
    ∃ sA : S, Steps env bl ⟨σ.len, 0, stI, rv⟩ ⟨if v.truthy then σ.len + 1 else σ.len + 2, 0, sA, rv⟩ ∧
      sA.2 = s1.2 ∧ agreeU sA.1 s1.1 ∧ (∀ k, k < σ.nextTmp → sA.1 (.tmp k) = stI.1 (.tmp k)) := by
  obtain ⟨l0, n0, _, fh, _, _, _⟩ := whS0_facts hb ho
  have := expr_br (e := c) (t := σ.len + 1) (f := σ.len + 2) (b := σ.len) (σ := whS0 b σ) hu (by omega)
    (by rw [fh]) hxs hag htr hev rv
  rw [fh, n0] at this
  exact this

theorem whS1_tmp (c : Expr) {b : Nat} {σ : BState} (hb : b < σ.len) (ho : (σ.blk b).succs = []) :
    σ.nextTmp ≤ (whS1 c b σ).nextTmp := (whS1_facts c hb ho).2.2.2.2.2.tmp

/-- a `while` statement: the run from the current block is one jump plus the run from the loop head -/
theorem sem_while_of_head {env : Env} {c : Expr} {body : Stmt} {st st' : S} {o : Outcome}
    (hB : ∀ (prev b : Nat) (J : Jumps) (σ : BState) (bl : List Block) (il : Bool) (stI : S) (rv : Option Val),
      userS (.while c body) = true →
      loopScoped (.while c body) il = true → JOk J il → b < σ.len → (σ.blk b).succs = [] →
      Ext (build (.while c body) prev (some b) J σ).1 bl → agreeU stI.1 st.1 → stI.2 = st.2 →
      PostS env bl J (build (.while c body) prev (some b) J σ) o ⟨σ.len, 0, stI, rv⟩ σ.nextTmp st') :
    SemS env (.while c body) st o st' := by
  refine ⟨?_, semC_vacuous (fun _ _ _ _ h => by cases h)⟩
  intro prev b J σ bl il stI rv hu hsc hJ hb ho hx hag htr
  have B := hB prev b J σ bl il stI rv hu hsc hJ hb ho hx hag htr
  rw [build_while_eq] at hx
  obtain ⟨_, _, _, _, hgo, _⟩ := while_setup (env := env) c body b J σ hb ho hx
  refine ⟨PostS.prefix (Steps.single (hgo stI rv)) rfl (fun _ _ => rfl) (Nat.le_refl _) B, ?_⟩
  intro c' body' h; cases h; exact B

theorem sem_whileF {env : Env} {c : Expr} {body : Stmt} {st s1 : S} {v : Val}
    (hev : eval env c st = (v, s1)) (hv : v.truthy = false) : SemS env (.while c body) st .normal s1 := by
  refine sem_while_of_head ?_
  intro prev b J σ bl il stI rv hu hsc hJ hb ho hx hag htr
  simp only [userS, Bool.and_eq_true] at hu
  rw [build_while_eq] at hx ⊢
  obtain ⟨_, hxs, hfin, hz, _, _⟩ := while_setup (env := env) c body b J σ hb ho hx
  obtain ⟨sA, hstA, htrA, hagA, htmA⟩ := while_cond hu.1 hb ho hxs hag htr hev rv
  rw [hv] at hstA
  exact ⟨sA, hagA, htrA, htmA, σ.len + 2, hfin, by rw [hz]; simpa using hstA⟩

theorem sem_whileB {env : Env} {c : Expr} {body : Stmt} {st s1 s2 : S} {v : Val}
    (hev : eval env c st = (v, s1)) (hv : v.truthy = true) (ihb : SemS env body s1 .brk s2) :
    SemS env (.while c body) st .normal s2 := by
  refine sem_while_of_head ?_
  intro prev b J σ bl il stI rv hu hsc hJ hb ho hx hag htr
  simp only [userS, Bool.and_eq_true] at hu
  simp only [loopScoped] at hsc
  rw [build_while_eq] at hx ⊢
  obtain ⟨hxb, hxs, hfin, hz, _, _⟩ := while_setup (env := env) c body b J σ hb ho hx
  obtain ⟨_, hl1, _, fbb, _, _⟩ := whS1_facts c hb ho
  obtain ⟨sA, hstA, htrA, hagA, htmA⟩ := while_cond hu.1 hb ho hxs hag htr hev rv
  rw [hv] at hstA
  obtain ⟨stc, q1, q2, q5, t, q3, q4⟩ := (ihb.1 (σ.len + 1) (σ.len + 1) (whJ J σ) (whS1 c b σ) bl true sA rv hu.2 hsc
    (JOk_wh J σ) (by omega) (by rw [fbb]) hxb hagA htrA).1
  rw [fbb] at q4
  cases q3
  have htm := whS1_tmp c hb ho
  exact ⟨stc, q1, q2, fun k hk => by rw [q5 k (by omega)]; exact htmA k hk, σ.len + 2, hfin,
    by rw [hz]; exact (by simpa using hstA : Steps env bl _ _).trans q4⟩

theorem sem_whileR {env : Env} {c : Expr} {body : Stmt} {st s1 s2 : S} {v r : Val}
    (hev : eval env c st = (v, s1)) (hv : v.truthy = true) (ihb : SemS env body s1 (.ret r) s2) :
    SemS env (.while c body) st (.ret r) s2 := by
  refine sem_while_of_head ?_
  intro prev b J σ bl il stI rv hu hsc hJ hb ho hx hag htr
  simp only [userS, Bool.and_eq_true] at hu
  simp only [loopScoped] at hsc
  rw [build_while_eq] at hx ⊢
  obtain ⟨hxb, hxs, hfin, hz, _, _⟩ := while_setup (env := env) c body b J σ hb ho hx
  obtain ⟨_, hl1, _, fbb, _, _⟩ := whS1_facts c hb ho
  obtain ⟨sA, hstA, htrA, hagA, htmA⟩ := while_cond hu.1 hb ho hxs hag htr hev rv
  rw [hv] at hstA
  obtain ⟨stc, q1, q2, q5, q4⟩ := (ihb.1 (σ.len + 1) (σ.len + 1) (whJ J σ) (whS1 c b σ) bl true sA rv hu.2 hsc
    (JOk_wh J σ) (by omega) (by rw [fbb]) hxb hagA htrA).1
  rw [fbb] at q4
  have htm := whS1_tmp c hb ho
  exact ⟨stc, q1, q2, fun k hk => by rw [q5 k (by omega)]; exact htmA k hk,
    (by simpa using hstA : Steps env bl _ _).trans q4⟩

theorem sem_whileT {env : Env} {c : Expr} {body : Stmt} {st s1 s2 s3 : S} {v : Val} {o o' : Outcome}
    (hev : eval env c st = (v, s1)) (hv : v.truthy = true) (ihb : SemS env body s1 o s2)
    (ho' : o = .normal ∨ o = .cont) (ihw : SemS env (.while c body) s2 o' s3) :
    SemS env (.while c body) st o' s3 := by
  refine sem_while_of_head ?_
  intro prev b J σ bl il stI rv hu hsc hJ hb ho hx hag htr
  have hu0 := hu; have hsc0 := hsc; have hx0 := hx
  simp only [userS, Bool.and_eq_true] at hu
  simp only [loopScoped] at hsc
  rw [build_while_eq] at hx
  obtain ⟨hxb, hxs, hfin, hz, _, hback⟩ := while_setup (env := env) c body b J σ hb ho hx
  obtain ⟨_, hl1, _, fbb, _, _⟩ := whS1_facts c hb ho
  obtain ⟨sA, hstA, htrA, hagA, htmA⟩ := while_cond hu.1 hb ho hxs hag htr hev rv
  rw [hv] at hstA
  have htm := whS1_tmp c hb ho
  have hbody := (ihb.1 (σ.len + 1) (σ.len + 1) (whJ J σ) (whS1 c b σ) bl true sA rv hu.2 hsc
    (JOk_wh J σ) (by omega) (by rw [fbb]) hxb hagA htrA).1
  rw [fbb] at hbody
  have hhead : ∃ stc : S, agreeU stc.1 s2.1 ∧ stc.2 = s2.2 ∧
      (∀ k, k < σ.nextTmp → stc.1 (.tmp k) = sA.1 (.tmp k)) ∧
      Steps env bl ⟨σ.len + 1, 0, sA, rv⟩ ⟨σ.len, 0, stc, rv⟩ := by
    rcases ho' with rfl | rfl
    · obtain ⟨stc, q1, q2, q5, e, q3, q4⟩ := hbody
      exact ⟨stc, q1, q2, fun k hk => q5 k (by omega), q4.trans (Steps.single (hback e q3 stc rv))⟩
    · obtain ⟨stc, q1, q2, q5, t, q3, q4⟩ := hbody
      cases q3
      exact ⟨stc, q1, q2, fun k hk => q5 k (by omega), q4⟩
  obtain ⟨stc, q1, q2, q5, q4⟩ := hhead
  have hrest := (ihw.1 prev b J σ bl il stc rv hu0 hsc0 hJ hb ho hx0 q1 q2).2 c body rfl
  exact PostS.prefix ((by simpa using hstA : Steps env bl _ _).trans q4) rfl
    (fun k hk => by rw [q5 k hk]; exact htmA k hk) (Nat.le_refl _) hrest

/-! ### `for` loops -/

theorem JOk_for (J : Jumps) (e : Expr) (b : Nat) (σ : BState) : JOk (forJ J e b σ) true :=
  fun _ => ⟨⟨_, rfl⟩, ⟨_, rfl⟩⟩

theorem for_setup {env : Env} {bl : List Block} (x : Var) (e : Expr) (body : Stmt) (b : Nat) (J : Jumps) (σ : BState)
    (hb : b < σ.len) (ho : (σ.blk b).succs = [])
    (hx : Ext (loopFin (forS1 e b σ).len (forRB x e body b J σ)).1 bl) :
    Ext (forRB x e body b J σ).1 bl ∧ Ext (forS7 x e b σ) bl ∧
    (loopFin (forS1 e b σ).len (forRB x e body b J σ)).2 = some ((forS1 e b σ).len + 2) ∧
    ((loopFin (forS1 e b σ).len (forRB x e body b J σ)).1.blk ((forS1 e b σ).len + 2)).stmts.length = 0 ∧
    (∀ e', (forRB x e body b J σ).2 = some e' → ∀ (stc : S) (rv : Option Val),
      step env bl ⟨e', ((forRB x e body b J σ).1.blk e').stmts.length, stc, rv⟩ =
        some ⟨(forS1 e b σ).len, 0, stc, rv⟩) := by
  obtain ⟨_, _, hl7, _, _, _, _, ftl, _, feb⟩ := forS7_facts x e hb ho
  have gb : GoodS (forS7 x e b σ) ((forS1 e b σ).len + 4) (forRB x e body b J σ) :=
    build_good body _ _ (forJ J e b σ) (forS7 x e b σ) (by omega) (by rw [feb])
  exact loop_setup (env := env) gb (by omega) (by rw [feb]) (by omega) (by omega) ftl hx

/-- one trip from the loop head of a `for` loop: to the tail when the iterator is exhausted, otherwise into
    the body block, after `x, it = res.unwrap()` -/
theorem for_iter {env : Env} {bl : List Block} (x : Var) (e : Expr) {b : Nat} {σ : BState} (hb : b < σ.len)
    (ho : (σ.blk b).succs = []) (hx7 : Ext (forS7 x e b σ) bl) (stI : S) (rv : Option Val) (i m : Int)
    (hit : stI.1 (.tmp σ.nextTmp) = .iter i m) :
    (¬ i < m → Steps env bl ⟨(forS1 e b σ).len, 0, stI, rv⟩
      ⟨(forS1 e b σ).len + 2, 0, (stI.1.set (.tmp (σ.nextTmp + 1)) .none, stI.2), rv⟩) ∧
    (i < m → Steps env bl ⟨(forS1 e b σ).len, 0, stI, rv⟩
      ⟨(forS1 e b σ).len + 4, 1,
        (((stI.1.set (.tmp (σ.nextTmp + 1)) (.some i (i + 1) m)).set x (.int i)).set (.tmp σ.nextTmp) (.iter (i + 1) m),
          stI.2), rv⟩) := by
  obtain ⟨_, _, hl7, _, _, fhd, fbb, ftl, ftb, feb⟩ := forS7_facts x e hb ho
  -- head -> body block
  have s1 := step_goto (env := env) hx7 (b := (forS1 e b σ).len) (t := (forS1 e b σ).len + 1) (by omega)
    (by rw [fhd]) stI rv
  rw [fhd] at s1
  -- res = iter_next
  have s2 := step_stmt (env := env) hx7 (b := (forS1 e b σ).len + 1) (k := 0) (by omega)
    (st := .assign (.tmp (σ.nextTmp + 1)) (eIterNext σ.nextTmp)) (by rw [fbb]; rfl) stI rv
  have hnext : eval env (eIterNext σ.nextTmp) stI = (applyPrim .iternext (.iter i m), stI) := by
    simp only [eIterNext, eval, applyUn, hit]
  simp only [execB, hnext] at s2
  constructor
  · intro hlt
    have hv : applyPrim .iternext (.iter i m) = .none := by simp [applyPrim, hlt]
    rw [hv] at s2
    have s3 := step_branch (env := env) hx7 (b := (forS1 e b σ).len + 1) (t := (forS1 e b σ).len + 4)
      (f := (forS1 e b σ).len + 3) (p := eIsSome (σ.nextTmp + 1)) (by omega) (by rw [fbb]) (by rw [fbb])
      (stI.1.set (.tmp (σ.nextTmp + 1)) .none, stI.2) rv
    rw [fbb] at s3
    have hs : eval env (eIsSome (σ.nextTmp + 1)) (stI.1.set (.tmp (σ.nextTmp + 1)) .none, stI.2) =
        (.bool false, (stI.1.set (.tmp (σ.nextTmp + 1)) .none, stI.2)) := by
      simp [eIsSome, eval, applyUn, applyPrim]
    rw [hs] at s3
    have s4 := step_stmt (env := env) hx7 (b := (forS1 e b σ).len + 3) (k := 0) (by omega)
      (st := .expr (eUnwrapNothing (σ.nextTmp + 1))) (by rw [ftb]; rfl)
      (stI.1.set (.tmp (σ.nextTmp + 1)) .none, stI.2) rv
    have hu : (eval env (eUnwrapNothing (σ.nextTmp + 1)) (stI.1.set (.tmp (σ.nextTmp + 1)) .none, stI.2)).2 =
        (stI.1.set (.tmp (σ.nextTmp + 1)) .none, stI.2) := by
      simp [eUnwrapNothing, eval, applyUn]
    simp only [execB, hu] at s4
    have s5 := step_goto (env := env) hx7 (b := (forS1 e b σ).len + 3) (t := (forS1 e b σ).len + 2) (by omega)
      (by rw [ftb]) (stI.1.set (.tmp (σ.nextTmp + 1)) .none, stI.2) rv
    rw [ftb] at s5
    exact .head s1 (.head s2 (.head (by simpa using s3) (.head s4 (.head (by simpa using s5) (.refl _)))))
  · intro hlt
    have hv : applyPrim .iternext (.iter i m) = .some i (i + 1) m := by simp [applyPrim, hlt]
    rw [hv] at s2
    have s3 := step_branch (env := env) hx7 (b := (forS1 e b σ).len + 1) (t := (forS1 e b σ).len + 4)
      (f := (forS1 e b σ).len + 3) (p := eIsSome (σ.nextTmp + 1)) (by omega) (by rw [fbb]) (by rw [fbb])
      (stI.1.set (.tmp (σ.nextTmp + 1)) (.some i (i + 1) m), stI.2) rv
    rw [fbb] at s3
    have hs : eval env (eIsSome (σ.nextTmp + 1)) (stI.1.set (.tmp (σ.nextTmp + 1)) (.some i (i + 1) m), stI.2) =
        (.bool true, (stI.1.set (.tmp (σ.nextTmp + 1)) (.some i (i + 1) m), stI.2)) := by
      simp [eIsSome, eval, applyUn, applyPrim]
    rw [hs] at s3
    have s4 := step_stmt (env := env) hx7 (b := (forS1 e b σ).len + 4) (k := 0) (by omega)
      (st := .assign2 x (.tmp σ.nextTmp) (eUnwrap (σ.nextTmp + 1))) (by rw [feb]; rfl)
      (stI.1.set (.tmp (σ.nextTmp + 1)) (.some i (i + 1) m), stI.2) rv
    have hu : eval env (eUnwrap (σ.nextTmp + 1)) (stI.1.set (.tmp (σ.nextTmp + 1)) (.some i (i + 1) m), stI.2) =
        (.some i (i + 1) m, (stI.1.set (.tmp (σ.nextTmp + 1)) (.some i (i + 1) m), stI.2)) := by
      simp [eUnwrap, eval, applyUn, applyPrim]
    simp only [execB, hu] at s4
    exact .head s1 (.head s2 (.head (by simpa using s3) (.head s4 (.refl _))))

theorem forS7_tmp (x : Var) (e : Expr) {b : Nat} {σ : BState} (hb : b < σ.len) (ho : (σ.blk b).succs = []) :
    σ.nextTmp + 2 ≤ (forS7 x e b σ).nextTmp := by
  have gA : GoodV (freshTmp (freshTmp σ).2).2 b (forA e b σ).2.1 (forA e b σ).2.2 :=
    bld_good e .val b (freshTmp (freshTmp σ).2).2 hb ho
  have h1 := gA.touch.tmp
  simp only [tmp_freshTmp] at h1
  rw [(forS7_facts x e hb ho).2.2.2.1]
  show σ.nextTmp + 2 ≤ (addStmt _ _ (forA e b σ).2.2).nextTmp
  simp only [tmp_addStmt]; omega

theorem semA_forFrom {env : Env} {x : Var} {n m : Int} {body : Stmt} {st st' : S} {o : Outcome} :
    SemA env (.forFrom x n m body) st o st' := by
  intro prev b J σ bl il stI rv hu; simp [userS] at hu

/-- the part of a `for` rule proof shared by all four `forFrom` rules -/
theorem for_ctx {x : Var} {e : Expr} {body : Stmt} (hu : userS (.for x e body) = true)
    {il : Bool} (hsc : loopScoped (.for x e body) il = true) :
    (∃ u, x = .user u) ∧ userE e = true ∧ userS body = true ∧
    loopScoped body true = true := by
  simp only [userS, Bool.and_eq_true] at hu
  simp only [loopScoped] at hsc
  refine ⟨?_, hu.1.2, hu.2, hsc⟩
  cases x with
  | user u => exact ⟨u, rfl⟩
  | tmp k => simp [isUser] at hu

theorem sem_forDone {env : Env} {x : Var} {n m : Int} {body : Stmt} {st : S} (hlt : ¬ n < m) :
    SemS env (.forFrom x n m body) st .normal st := by
  refine ⟨semA_forFrom, ?_⟩
  intro x' i m' body' heq e prev b J σ bl il stI rv hu hsc hJ hb ho hx hag htr hit
  cases heq
  rw [build_for_eq] at hx ⊢
  obtain ⟨_, hx7, hfin, hz, _⟩ := for_setup (env := env) x e body b J σ hb ho hx
  have hst := (for_iter (env := env) x e hb ho hx7 stI rv n m hit).1 hlt
  refine ⟨(stI.1.set (.tmp (σ.nextTmp + 1)) .none, stI.2), (set_tmp_agreeU _ _ _).trans hag, htr, ?_, _, hfin,
    by rw [hz]; exact hst⟩
  intro k hk
  simp only []
  rw [set_other _ _ (by intro h; injection h with h; omega)]

theorem sem_for {env : Env} {x : Var} {e : Expr} {body : Stmt} {st s1 s2 : S} {n m : Int} {o : Outcome}
    (hev : eval env e st = (.iter n m, s1)) (ihf : SemS env (.forFrom x n m body) s1 o s2) :
    SemS env (.for x e body) st o s2 := by
  refine ⟨?_, semC_vacuous (fun _ _ _ _ h => by cases h)⟩
  intro prev b J σ bl il stI rv hu hsc hJ hb ho hx hag htr
  obtain ⟨⟨u, rfl⟩, hue, _, _⟩ := for_ctx hu hsc
  have hx0 := hx
  rw [build_for_eq] at hx ⊢
  obtain ⟨_, hx7, _, _, _⟩ := for_setup (env := env) (.user u) e body b J σ hb ho hx
  have gA : GoodV (freshTmp (freshTmp σ).2).2 b (forA e b σ).2.1 (forA e b σ).2.2 :=
    bld_good e .val b (freshTmp (freshTmp σ).2).2 hb ho
  have g1lt : (forA e b σ).2.1 < (forS1 e b σ).len := by
    show _ < (addStmt _ _ (forA e b σ).2.2).len
    simpa using gA.lt
  have g1o : ((forS1 e b σ).blk (forA e b σ).2.1).succs = [] := by
    show ((addStmt _ _ (forA e b σ).2.2).blk _).succs = []
    rw [blk_addStmt_same _ _ _ gA.lt]; exact gA.opn
  obtain ⟨f1, f2, f3, _, _, _, _, _, f9⟩ := forTpl_facts (.user u) σ.nextTmp (σ.nextTmp + 1) g1lt g1o
  have tS : TouchS (forS1 e b σ) (forA e b σ).2.1 (forS7 (.user u) e b σ) :=
    ⟨by show _ ≤ (forTpl _ _ _ _ _).len; rw [f1]; omega, by show _ ≤ (forTpl _ _ _ _ _).nextTmp; rw [f2]; exact Nat.le_refl _,
      fun i hi hne => by show ((forTpl _ _ _ _ _).blk i).core = _; rw [f9 i hi hne],
      by show _ <+: ((forTpl _ _ _ _ _).blk _).stmts; rw [f3]; exact List.prefix_refl _⟩
  have hx1 : Ext (forS1 e b σ) bl := Ext.stepS tS g1o hx7
  have hx1' : Ext (addStmt (forA e b σ).2.1 (.assign (.tmp σ.nextTmp) (.un (.prim .makeiter) (forA e b σ).1))
      (forA e b σ).2.2) bl := hx1
  have hxA : Ext (forA e b σ).2.2 bl := Ext.step (touch_addStmt _ _ _) gA.opn hx1'
  obtain ⟨s2c, hst, hev2, hag2, htm2⟩ := expr_val (σ := (freshTmp (freshTmp σ).2).2) hue hb ho hxA hag htr hev rv
  obtain ⟨h1, hl⟩ := step_added (env := env) (.assign (.tmp σ.nextTmp) (.un (.prim .makeiter) (forA e b σ).1))
    gA.lt hx1' s2c rv
  have hmk : eval env (.un (.prim .makeiter) (forA e b σ).1) s2c = (.iter n m, (s2c.1, s1.2)) := by
    have hev2' : eval env (forA e b σ).1 s2c = (.iter n m, (s2c.1, s1.2)) := hev2
    simp only [eval, hev2', applyUn, applyPrim]
  simp only [execB, hmk] at h1
  -- the jump to the loop head
  have f3' : (forS7 (.user u) e b σ).blk (forA e b σ).2.1 =
      { (forS1 e b σ).blk (forA e b σ).2.1 with succs := [(forS1 e b σ).len] } := f3
  have h2 := step_goto (env := env) hx7 (b := (forA e b σ).2.1) (t := (forS1 e b σ).len)
    (by show _ < (forTpl _ _ _ _ _).len; rw [f1]; omega) (by rw [f3']) (s2c.1.set (.tmp σ.nextTmp) (.iter n m), s1.2) rv
  rw [f3'] at h2
  have hl' : ((forS1 e b σ).blk (forA e b σ).2.1).stmts.length =
      ((forA e b σ).2.2.blk (forA e b σ).2.1).stmts.length + 1 := hl
  simp only [hl'] at h2
  have hC := ihf.2 (.user u) n m body rfl e prev b J σ bl il (s2c.1.set (.tmp σ.nextTmp) (.iter n m), s1.2) rv
    hu hsc hJ hb ho hx0 ((set_tmp_agreeU _ _ _).trans hag2) rfl (by simp)
  rw [build_for_eq] at hC
  refine ⟨PostS.prefix (hst.trans (.head h1 (.head h2 (.refl _)))) rfl ?_ (Nat.le_refl _) hC, fun _ _ h => by cases h⟩
  intro k hk
  simp only []
  rw [set_other _ _ (by intro h; injection h with h; omega)]
  exact htm2 k (by simp only [tmp_freshTmp]; omega)

/-- after `x, it = res.unwrap()` the CFG state agrees with Python's state at the start of the body -/
theorem for_body_agree {stI : Store} {s : Store} (hag : agreeU stI s) (u : String) (i m : Int) (it rs : Nat) :
    agreeU (((stI.set (.tmp rs) (.some i (i + 1) m)).set (.user u) (.int i)).set (.tmp it) (.iter (i + 1) m))
      (s.set (.user u) (.int i)) :=
  (set_tmp_agreeU _ _ _).trans (agreeU_set ((set_tmp_agreeU _ _ _).trans hag) _ _)

theorem for_body_tmps (stI : Store) (u : String) (i m : Int) (it : Nat) (k : Nat) (hk : k < it) :
    (((stI.set (.tmp (it + 1)) (.some i (i + 1) m)).set (.user u) (.int i)).set (.tmp it) (.iter (i + 1) m)) (.tmp k) =
      stI (.tmp k) := by
  rw [set_other _ _ (by intro h; injection h with h; omega), set_other _ _ (tmp_ne_user k u),
    set_other _ _ (by intro h; injection h with h; omega)]

theorem sem_forB {env : Env} {x : Var} {n m : Int} {body : Stmt} {st s1 : S} (hlt : n < m)
    (ihb : SemS env body (st.1.set x (.int n), st.2) .brk s1) : SemS env (.forFrom x n m body) st .normal s1 := by
  refine ⟨semA_forFrom, ?_⟩
  intro x' i m' body' heq e prev b J σ bl il stI rv hu hsc hJ hb ho hx hag htr hit
  cases heq
  obtain ⟨⟨u, rfl⟩, _, hub, hscb⟩ := for_ctx hu hsc
  rw [build_for_eq] at hx ⊢
  obtain ⟨hxb, hx7, hfin, hz, _⟩ := for_setup (env := env) (.user u) e body b J σ hb ho hx
  obtain ⟨_, _, hl7, _, _, _, _, _, _, feb⟩ := forS7_facts (.user u) e hb ho
  have hst := (for_iter (env := env) (.user u) e hb ho hx7 stI rv n m hit).2 hlt
  obtain ⟨stc, q1, q2, q5, t, q3, q4⟩ := (ihb.1 _ _ (forJ J e b σ) (forS7 (.user u) e b σ) bl true
    (((stI.1.set (.tmp (σ.nextTmp + 1)) (.some n (n + 1) m)).set (.user u) (.int n)).set (.tmp σ.nextTmp) (.iter (n + 1) m), stI.2) rv hub hscb
    (JOk_for J e b σ) (by omega) (by rw [feb]) hxb (for_body_agree hag u n m _ _) htr).1
  rw [feb] at q4
  cases q3
  have h7 := forS7_tmp (.user u) e hb ho
  refine ⟨stc, q1, q2, ?_, _, hfin, by rw [hz]; exact hst.trans q4⟩
  intro k hk
  rw [q5 k (by omega)]
  exact for_body_tmps stI.1 u n m σ.nextTmp k hk

theorem sem_forR {env : Env} {x : Var} {n m : Int} {body : Stmt} {st s1 : S} {r : Val} (hlt : n < m)
    (ihb : SemS env body (st.1.set x (.int n), st.2) (.ret r) s1) :
    SemS env (.forFrom x n m body) st (.ret r) s1 := by
  refine ⟨semA_forFrom, ?_⟩
  intro x' i m' body' heq e prev b J σ bl il stI rv hu hsc hJ hb ho hx hag htr hit
  cases heq
  obtain ⟨⟨u, rfl⟩, _, hub, hscb⟩ := for_ctx hu hsc
  rw [build_for_eq] at hx ⊢
  obtain ⟨hxb, hx7, hfin, hz, _⟩ := for_setup (env := env) (.user u) e body b J σ hb ho hx
  obtain ⟨_, _, hl7, _, _, _, _, _, _, feb⟩ := forS7_facts (.user u) e hb ho
  have hst := (for_iter (env := env) (.user u) e hb ho hx7 stI rv n m hit).2 hlt
  obtain ⟨stc, q1, q2, q5, q4⟩ := (ihb.1 _ _ (forJ J e b σ) (forS7 (.user u) e b σ) bl true
    (((stI.1.set (.tmp (σ.nextTmp + 1)) (.some n (n + 1) m)).set (.user u) (.int n)).set (.tmp σ.nextTmp) (.iter (n + 1) m), stI.2) rv hub hscb
    (JOk_for J e b σ) (by omega) (by rw [feb]) hxb (for_body_agree hag u n m _ _) htr).1
  rw [feb] at q4
  have h7 := forS7_tmp (.user u) e hb ho
  refine ⟨stc, q1, q2, ?_, hst.trans q4⟩
  intro k hk
  rw [q5 k (by omega)]
  exact for_body_tmps stI.1 u n m σ.nextTmp k hk

theorem sem_forStep {env : Env} {x : Var} {n m : Int} {body : Stmt} {st s1 s2 : S} {o o' : Outcome} (hlt : n < m)
    (ihb : SemS env body (st.1.set x (.int n), st.2) o s1) (ho' : o = .normal ∨ o = .cont)
    (ihf : SemS env (.forFrom x (n + 1) m body) s1 o' s2) : SemS env (.forFrom x n m body) st o' s2 := by
  refine ⟨semA_forFrom, ?_⟩
  intro x' i m' body' heq e prev b J σ bl il stI rv hu hsc hJ hb ho hx hag htr hit
  cases heq
  obtain ⟨⟨u, rfl⟩, _, hub, hscb⟩ := for_ctx hu hsc
  have hx0 := hx
  rw [build_for_eq] at hx
  obtain ⟨hxb, hx7, hfin, hz, hback⟩ := for_setup (env := env) (.user u) e body b J σ hb ho hx
  obtain ⟨_, _, hl7, _, _, _, _, _, _, feb⟩ := forS7_facts (.user u) e hb ho
  have hst := (for_iter (env := env) (.user u) e hb ho hx7 stI rv n m hit).2 hlt
  have h7 := forS7_tmp (.user u) e hb ho
  have hbody := (ihb.1 _ _ (forJ J e b σ) (forS7 (.user u) e b σ) bl true
    (((stI.1.set (.tmp (σ.nextTmp + 1)) (.some n (n + 1) m)).set (.user u) (.int n)).set (.tmp σ.nextTmp) (.iter (n + 1) m), stI.2) rv hub hscb
    (JOk_for J e b σ) (by omega) (by rw [feb]) hxb (for_body_agree hag u n m _ _) htr).1
  rw [feb] at hbody
  have hhead : ∃ stc : S, agreeU stc.1 s1.1 ∧ stc.2 = s1.2 ∧
      (∀ k, k < σ.nextTmp + 2 → stc.1 (.tmp k) =
        (((stI.1.set (.tmp (σ.nextTmp + 1)) (.some n (n + 1) m)).set (.user u) (.int n)).set (.tmp σ.nextTmp)
          (.iter (n + 1) m)) (.tmp k)) ∧
      Steps env bl ⟨(forS1 e b σ).len + 4, 1,
        (((stI.1.set (.tmp (σ.nextTmp + 1)) (.some n (n + 1) m)).set (.user u) (.int n)).set (.tmp σ.nextTmp)
          (.iter (n + 1) m), stI.2), rv⟩ ⟨(forS1 e b σ).len, 0, stc, rv⟩ := by
    rcases ho' with rfl | rfl
    · obtain ⟨stc, q1, q2, q5, e', q3, q4⟩ := hbody
      exact ⟨stc, q1, q2, fun k hk => q5 k (by omega), q4.trans (Steps.single (hback e' q3 stc rv))⟩
    · obtain ⟨stc, q1, q2, q5, t, q3, q4⟩ := hbody
      cases q3
      exact ⟨stc, q1, q2, fun k hk => q5 k (by omega), q4⟩
  obtain ⟨stc, q1, q2, q5, q4⟩ := hhead
  have hit' : stc.1 (.tmp σ.nextTmp) = .iter (n + 1) m := by rw [q5 σ.nextTmp (by omega)]; simp
  have hrest := ihf.2 (.user u) (n + 1) m body rfl e prev b J σ bl il stc rv hu hsc hJ hb ho hx0 q1 q2 hit'
  refine PostS.prefix (hst.trans q4) rfl ?_ (Nat.le_refl _) hrest
  intro k hk
  rw [q5 k (by omega)]
  exact for_body_tmps stI.1 u n m σ.nextTmp k hk

/-- **`build` simulates the big-step semantics** (hoist-safe programs) -/
theorem sem_stmt {env : Env} {s : Stmt} {st st' : S} {o : Outcome} (h : Exec env s st o st') :
    SemS env s st o st' := by
  induction h with
  | nil => exact sem_nil env _
  | consN _ _ ih1 ih2 => exact sem_consN ih1 ih2
  | consJ _ hne ih => exact sem_consJ ih hne
  | assign hev => exact sem_assign hev
  | aug hev => exact sem_aug hev
  | expr hev => exact sem_expr hev
  | pass => exact sem_pass env _
  | brk => exact sem_brk env _
  | cont => exact sem_cont env _
  | ret hev => exact sem_ret hev
  | ret0 => exact sem_ret0 env _
  | iteT hev hv _ ih => exact sem_ite_aux hev (by rw [hv]; exact ih)
  | iteF hev hv _ ih => exact sem_ite_aux hev (by rw [hv]; exact ih)
  | whileF hev hv => exact sem_whileF hev hv
  | whileT hev hv _ ho _ ihb ihw => exact sem_whileT hev hv ihb ho ihw
  | whileB hev hv _ ihb => exact sem_whileB hev hv ihb
  | whileR hev hv _ ihb => exact sem_whileR hev hv ihb
  | «for» hev _ ih => exact sem_for hev ih
  | forDone hlt => exact sem_forDone hlt
  | forStep hlt _ ho _ ihb ihf => exact sem_forStep hlt ihb ho ihf
  | forB hlt _ ihb => exact sem_forB hlt ihb
  | forR hlt _ ihb => exact sem_forR hlt ihb

end GuppyVerif.Builder
