import GuppyVerif.Lemmas.C01Bridge
/-! DFContainer as a store: invariant `Good` relating `locals` to a reference partial value
    (allowing cached struct/tuple wires and moved/stale leaves), preserved by `setitem` on any
    sub-place and by `getitem`, which returns the reference value. -/
namespace GuppyVerif.DFWiring

mutual
/-- `locals`/`env` agree with the reference partial value `pv` of place `p : t`: defined leaves
    are present with the right value; a cached struct/tuple wire is right whenever the reference
    value is fully defined (holes = moved or never assigned: nothing is promised) -/
def Good (n : Nat) (L : Locals) (env : Env) (p : PlaceId) : Ty → PVal → Prop
  | .leaf _ _, .hole => True
  | .leaf _ _, .val v => ∃ w, L p = some w ∧ w.node < n ∧ env w = some v
  | .leaf _ _, .tup _ => False
  | .node _ cs, .tup ps =>
    (∀ w v, L p = some w → (PVal.tup ps).total = some v → w.node < n ∧ env w = some v) ∧
      GoodList n L env p 0 cs ps
  | .node _ _, .hole => False
  | .node _ _, .val _ => False
def GoodList (n : Nat) (L : Locals) (env : Env) (p : PlaceId) (i : Nat) :
    List Ty → List PVal → Prop
  | [], [] => True
  | t :: ts, q :: qs => Good n L env (i :: p) t q ∧ GoodList n L env p (i + 1) ts qs
  | [], _ :: _ => False
  | _ :: _, [] => False
end

mutual
/-- transport of `Good`: `locals` unchanged strictly below `p`; at `p` itself either unchanged, or
    forgotten (allowed for struct/tuple places, and for leaves whose reference value is a hole) -/
theorem Good.transport {n n' : Nat} {L L' : Locals} {env env' : Env} (hn : n ≤ n')
    (henv : ∀ w : Wire, w.node < n → env' w = env w) :
    ∀ (t : Ty) (p : PlaceId) (pv : PVal), (∀ q, p <:+ q → q ≠ p → L' q = L q) →
      (L' p = L p ∨ (L' p = none ∧ (t.isLeaf = true → pv = .hole))) →
      Good n L env p t pv → Good n' L' env' p t pv
  | .leaf _ _, p, .hole, _, _, _ => by simp [Good]
  | .leaf _ _, p, .val v, _, hp, h => by
    simp only [Good] at h ⊢
    obtain ⟨w, h1, h2, h3⟩ := h
    rcases hp with hp | ⟨_, hp⟩
    · exact ⟨w, by rw [hp]; exact h1, by omega, by rw [henv w h2]; exact h3⟩
    · have := hp rfl; cases this
  | .leaf _ _, _, .tup _, _, _, h => by simp [Good] at h
  | .node _ cs, p, .tup ps, hL, hp, h => by
    simp only [Good] at h ⊢
    refine ⟨?_, GoodList.transport hn henv cs p 0 ps
      (fun j q _ hq => hL q (under_child_trans hq) (under_child_ne hq)) h.2⟩
    intro w v hw hv
    rcases hp with hp | ⟨hp, _⟩
    · rw [hp] at hw
      have := h.1 w v hw hv
      exact ⟨by omega, by rw [henv w this.1]; exact this.2⟩
    · rw [hp] at hw; cases hw
  | .node _ _, _, .hole, _, _, h => by simp [Good] at h
  | .node _ _, _, .val _, _, _, h => by simp [Good] at h
/-- list version: everything at or below the children `j ≥ i` is unchanged -/
theorem GoodList.transport {n n' : Nat} {L L' : Locals} {env env' : Env} (hn : n ≤ n')
    (henv : ∀ w : Wire, w.node < n → env' w = env w) :
    ∀ (ts : List Ty) (p : PlaceId) (i : Nat) (ps : List PVal),
      (∀ j q, i ≤ j → (j :: p) <:+ q → L' q = L q) →
      GoodList n L env p i ts ps → GoodList n' L' env' p i ts ps
  | [], _, _, [], _, _ => by simp [GoodList]
  | t :: ts, p, i, q :: qs, hL, h => by
    simp only [GoodList] at h ⊢
    exact ⟨Good.transport hn henv t (i :: p) q (fun x hx _ => hL i x (Nat.le_refl i) hx)
        (Or.inl (hL i _ (Nat.le_refl i) (List.suffix_refl _))) h.1,
      GoodList.transport hn henv ts p (i + 1) qs (fun j x hj hx => hL j x (by omega) hx) h.2⟩
  | [], _, _, _ :: _, _, h => by simp [GoodList] at h
  | _ :: _, _, _, [], _, h => by simp [GoodList] at h
end

/-- pointwise map over the children -/
theorem GoodList.map {n n' : Nat} {L L' : Locals} {env env' : Env} {p : PlaceId} :
    ∀ (ts : List Ty) (i : Nat) (ps : List PVal),
      (∀ j tj pj, i ≤ j → ts[j - i]? = some tj → ps[j - i]? = some pj →
        Good n L env (j :: p) tj pj → Good n' L' env' (j :: p) tj pj) →
      GoodList n L env p i ts ps → GoodList n' L' env' p i ts ps
  | [], _, [], _, _ => by simp [GoodList]
  | t :: ts, i, q :: qs, hf, h => by
    simp only [GoodList] at h ⊢
    exact ⟨hf i t q (Nat.le_refl i) (by simp) (by simp) h.1,
      GoodList.map ts (i + 1) qs (fun j tj pj hj h1 h2 =>
        hf j tj pj (by omega) (by rw [getElem?_shift t ts hj]; exact h1)
          (by rw [getElem?_shift q qs hj]; exact h2)) h.2⟩
  | [], _, _ :: _, _, h => by simp [GoodList] at h
  | _ :: _, _, [], _, h => by simp [GoodList] at h

mutual
/-- a fully defined value after the move was fully defined (and the same) before -/
theorem total_moved : ∀ (t : Ty) (pv : PVal) (v : Val), (moved t pv).total = some v → pv.total = some v
  | .leaf c _, pv, v, h => by
    cases c with
    | true => simpa [moved] using h
    | false => simp [moved, PVal.total] at h
  | .node _ cs, .tup ps, v, h => by
    simp only [moved, PVal.total] at h ⊢
    cases hm : PVal.totals (moveds cs ps) with
    | none => simp [hm] at h
    | some vs =>
      rw [totals_moveds cs ps vs hm]
      simpa [hm] using h
  | .node _ _, .hole, v, h => by simpa [moved] using h
  | .node _ _, .val _, v, h => by simpa [moved] using h
theorem totals_moveds : ∀ (ts : List Ty) (ps : List PVal) (vs : List Val),
    PVal.totals (moveds ts ps) = some vs → PVal.totals ps = some vs
  | [], ps, vs, h => by simpa [moveds] using h
  | _ :: _, [], vs, h => by simpa [moveds] using h
  | t :: ts, q :: qs, vs, h => by
    simp only [moveds, PVal.totals] at h ⊢
    cases h1 : (moved t q).total with
    | none => simp [h1] at h
    | some v =>
      cases h2 : PVal.totals (moveds ts qs) with
      | none => simp [h1, h2] at h
      | some vs' =>
        rw [total_moved t q v h1, totals_moveds ts qs vs' h2]
        simpa [h1, h2] using h
end

mutual
/-- moving out only weakens the obligations -/
theorem Good.moved {n : Nat} {L : Locals} {env : Env} : ∀ (t : Ty) (p : PlaceId) (pv : PVal),
    Good n L env p t pv → Good n L env p t (moved t pv)
  | .leaf c _, p, pv, h => by
    cases c with
    | true => simpa [DFWiring.moved] using h
    | false => simp [DFWiring.moved, Good]
  | .node k cs, p, .tup ps, h => by
    simp only [Good, DFWiring.moved] at h ⊢
    refine ⟨fun w v hw hv => h.1 w v hw (total_moved (.node k cs) (.tup ps) v (by simpa [DFWiring.moved] using hv)),
      GoodList.moved cs p 0 ps h.2⟩
  | .node _ _, _, .hole, h => by simp [Good] at h
  | .node _ _, _, .val _, h => by simp [Good] at h
theorem GoodList.moved {n : Nat} {L : Locals} {env : Env} :
    ∀ (ts : List Ty) (p : PlaceId) (i : Nat) (ps : List PVal),
      GoodList n L env p i ts ps → GoodList n L env p i ts (moveds ts ps)
  | [], _, _, [], _ => by simp [GoodList, moveds]
  | t :: ts, p, i, q :: qs, h => by
    simp only [GoodList, moveds] at h ⊢
    exact ⟨Good.moved t (i :: p) q h.1, GoodList.moved ts p (i + 1) qs h.2⟩
  | [], _, _, _ :: _, h => by simp [GoodList] at h
  | _ :: _, _, _, [], h => by simp [GoodList] at h
end

mutual
/-- the leaves-only state established by `setitem` is `Good` for the embedded value -/
theorem Holds.good {n : Nat} {L : Locals} {env : Env} : ∀ (t : Ty) (p : PlaceId) (v : Val),
    Holds n L env p t v → Good n L env p t (embed t v)
  | .leaf _ _, p, v, h => by simpa [Good, embed, Holds] using h
  | .node _ cs, p, .tup vs, h => by
    simp only [Holds] at h
    simp only [Good, embed]
    exact ⟨fun w v hw _ => (by rw [h.1] at hw; cases hw), HoldsList.good cs p 0 vs h.2⟩
  | .node _ _, _, .atom _, h => by simp [Holds] at h
theorem HoldsList.good {n : Nat} {L : Locals} {env : Env} :
    ∀ (ts : List Ty) (p : PlaceId) (i : Nat) (vs : List Val),
      HoldsList n L env p i ts vs → GoodList n L env p i ts (embeds ts vs)
  | [], _, _, [], _ => by simp [GoodList, embeds]
  | t :: ts, p, i, v :: vs, h => by
    simp only [HoldsList] at h
    simp only [GoodList, embeds]
    exact ⟨Holds.good t (i :: p) v h.1, HoldsList.good ts p (i + 1) vs h.2⟩
  | [], _, _, _ :: _, h => by simp [HoldsList] at h
  | _ :: _, _, _, [], h => by simp [HoldsList] at h
end

end GuppyVerif.DFWiring
