import GuppyVerif.Lemmas.C08
/-! The entry block decides definedness; the BFS over block signatures never fails for
    definedness reasons afterwards and `check_rows_match` never meets rows with different keys. -/
namespace GuppyVerif.UseDef
open GuppyVerif.Dataflow

theorem mem_enumFrom {p q : Blk} {k i : Nat} {s : Blk} {ss : List Blk}
    (h : (q, i, s) ∈ enumFrom p k ss) : q = p ∧ k ≤ i ∧ ss[i - k]? = some s := by
  induction ss generalizing k with
  | nil => simp [enumFrom] at h
  | cons a ss ih =>
    simp only [enumFrom, List.mem_cons, Prod.mk.injEq] at h
    rcases h with ⟨rfl, rfl, rfl⟩ | h
    · simp
    · obtain ⟨hq, hk, hs⟩ := ih h
      refine ⟨hq, by omega, ?_⟩
      have : i - k = (i - (k + 1)) + 1 := by omega
      rw [this, List.getElem?_cons_succ]; exact hs

theorem mem_revEnum {p q : Blk} {i : Nat} {s : Blk} {ss : List Blk}
    (h : (q, i, s) ∈ revEnum p ss) : q = p ∧ ss[i]? = some s := by
  unfold revEnum at h
  rw [List.mem_reverse] at h
  obtain ⟨hq, _, hs⟩ := mem_enumFrom h
  exact ⟨hq, by simpa using hs⟩

theorem args_lookup_isSome (U : UCfg) (x : Var) : (lookup x U.args).isSome ↔ x ∈ U.argNames :=
  lookup_isSome_iff_mem x U.args

/-- The entry block: `check_bb` fails exactly when some variable is `Undef`, and then every
    candidate error names such a variable. -/
theorem checkBB_entry {U : UCfg} (hU : U.WF) {A : Ana} (hA : AnaOK U A) :
    match checkBB U A U.entry U.args with
    | .ok outs => (∀ x, ¬ Undef U x) ∧ outs = outsOf U A U.entry U.args ∧
        RowOK U A U.entry U.args ∧
        ∀ s ∈ U.succ U.entry ++ U.dsucc U.entry,
          RowOK U A s (rowFor A (runEvents U.args (U.events U.entry)) s)
    | .error es => es ≠ [] ∧ ∀ e ∈ es, ∃ x, e = .notDefined x ∧ Undef U x := by
  have hb := hU.entry_mem
  unfold checkBB
  simp only [↓reduceIte]
  -- entry errors
  by_cases hE : ((U.cfg.used U.entry).filter fun x =>
      !(A.defass U.entry).contains x &&
        (U.assignedSomewhere.contains x || !U.globals.contains x)) = []
  · simp only [hE, List.map_nil, List.isEmpty_nil, Bool.not_true, Bool.false_eq_true, ↓reduceIte]
    rw [List.filter_eq_nil_iff] at hE
    by_cases hS : ((U.succ U.entry ++ U.dsucc U.entry).flatMap fun s =>
        (A.live s).filterMap (defCheck U (runEvents U.args (U.events U.entry)))) = []
    · simp only [hS, List.isEmpty_nil, Bool.not_true, Bool.false_eq_true, ↓reduceIte]
      rw [List.flatMap_eq_nil_iff] at hS
      have key : ∀ s ∈ U.succ U.entry ++ U.dsucc U.entry, ∀ x ∈ A.live s,
          defCheck U (runEvents U.args (U.events U.entry)) x = none := by
        intro s hs x hx
        have := hS s hs
        rw [List.filterMap_eq_nil_iff] at this
        exact this x hx
      have noUndef : ∀ x, ¬ Undef U x := by
        rintro x ⟨hna, hloc, hp⟩
        cases hp with
        | use hu =>
          have := hE x hu
          simp only [Bool.and_eq_true, Bool.not_eq_true', Bool.or_eq_true, List.contains_eq_mem,
            decide_eq_true_eq, decide_eq_false_iff_not, not_and, not_or] at this
          have hd : x ∉ A.defass U.entry := fun h => hna ((hA.defass x).mp h)
          have := this hd
          rcases hloc with h | h
          · exact this.1 h
          · exact this.2 h
        | step hn he hpc =>
          have hc := hU.cfg.closed _ hb _ he
          have hx : x ∈ A.live _ := (hA.live _ hc x).mpr hpc
          have := (defCheck_none_iff U _ x).mp (key _ he x hx)
          rcases hloc with h | h
          · have h2 := this.1 h
            rw [lookup_runEvents_isSome, args_lookup_isSome] at h2
            exact h2.elim hna hn
          · by_cases hAS : x ∈ U.assignedSomewhere
            · have h2 := this.1 hAS
              rw [lookup_runEvents_isSome, args_lookup_isSome] at h2
              exact h2.elim hna hn
            · exact h (this.2 hAS)
      have rowEntry : RowOK U A U.entry U.args := by
        refine ⟨?_, ?_, ?_⟩
        · intro x hx hAS
          rw [args_lookup_isSome]
          exact Classical.not_not.mp fun hna =>
            noUndef x ⟨hna, Or.inl hAS, (hA.live _ hb x).mp hx⟩
        · intro x hx hAS
          have hna : x ∉ U.argNames := fun h => hAS (args_sub_AS h)
          exact Classical.not_not.mp fun hg =>
            noUndef x ⟨hna, Or.inr hg, (hA.live _ hb x).mp hx⟩
        · intro x hx
          exact ⟨args_sub_AS ((args_lookup_isSome U x).mp hx), fun h => absurd rfl h⟩
      refine ⟨noUndef, rfl, rowEntry, ?_⟩
      intro s hs
      have hsne : s ≠ U.entry := by
        intro e
        have : U.entry ∈ U.pred s ++ U.dpred s := (hU.cfg.conv _ s).mp hs
        rw [e, hU.entry_root] at this
        exact absurd this List.not_mem_nil
      refine ⟨?_, ?_, ?_⟩
      · intro x hx hAS
        rw [lookup_rowFor]; simp only [hx, ↓reduceIte]
        exact ((defCheck_none_iff U _ x).mp (key s hs x hx)).1 hAS
      · intro x hx hAS
        exact ((defCheck_none_iff U _ x).mp (key s hs x hx)).2 hAS
      · intro x hx
        rw [lookup_rowFor] at hx
        by_cases hl : x ∈ A.live s
        · simp only [hl, ↓reduceIte] at hx
          exact ⟨env_sub_AS hb rowEntry hx, fun _ => hl⟩
        · simp [hl] at hx
    · have hne : (!((U.succ U.entry ++ U.dsucc U.entry).flatMap fun s =>
          (A.live s).filterMap (defCheck U (runEvents U.args (U.events U.entry)))).isEmpty) = true := by
        simpa using hS
      simp only [hne, ↓reduceIte]
      refine ⟨hS, ?_⟩
      intro e he
      rw [List.mem_flatMap] at he
      obtain ⟨s, hs, he⟩ := he
      rw [List.mem_filterMap] at he
      obtain ⟨x, hx, hdx⟩ := he
      have hex := defCheck_some U _ x e hdx
      refine ⟨x, hex, ?_⟩
      have hc := hU.cfg.closed _ hb _ hs
      have hlp : LivePath U.cfg x s := (hA.live _ hc x).mp hx
      have hnone : defCheck U (runEvents U.args (U.events U.entry)) x ≠ none := by
        rw [hdx]; exact Option.some_ne_none _
      rw [Ne, defCheck_none_iff] at hnone
      by_cases hAS : x ∈ U.assignedSomewhere
      · have : ¬ (lookup x (runEvents U.args (U.events U.entry))).isSome := by
          intro h; exact hnone ⟨fun _ => h, fun h' => absurd hAS h'⟩
        rw [lookup_runEvents_isSome, args_lookup_isSome, not_or] at this
        exact ⟨this.1, Or.inl hAS, .step this.2 hs hlp⟩
      · have hg : x ∉ U.globals := by
          intro h; exact hnone ⟨fun h' => absurd h' hAS, fun _ => h⟩
        have hna : x ∉ U.argNames := fun h => hAS (args_sub_AS h)
        have hn : x ∉ assignedOf (U.events U.entry) := fun h => hAS (assigned_sub_AS hb h)
        exact ⟨hna, Or.inr hg, .step hn hs hlp⟩
  · have hne : (!(((U.cfg.used U.entry).filter fun x =>
        !(A.defass U.entry).contains x &&
          (U.assignedSomewhere.contains x || !U.globals.contains x)).map Err.notDefined).isEmpty) = true := by
      simpa using hE
    simp only [hne, ↓reduceIte]
    refine ⟨by simpa using hE, ?_⟩
    intro e he
    rw [List.mem_map] at he
    obtain ⟨x, hx, rfl⟩ := he
    rw [List.mem_filter] at hx
    obtain ⟨hu, hc⟩ := hx
    simp only [Bool.and_eq_true, Bool.not_eq_true', Bool.or_eq_true, List.contains_eq_mem,
      decide_eq_true_eq, decide_eq_false_iff_not] at hc
    refine ⟨x, rfl, fun h => hc.1 ((hA.defass x).mpr h), ?_, .use hu⟩
    exact hc.2

end GuppyVerif.UseDef

namespace GuppyVerif.UseDef
open GuppyVerif.Dataflow

theorem mem_rowsMatch {r1 r2 : Row} {e : Err} (h : e ∈ rowsMatch r1 r2) :
    ∃ x, (x ∈ r1.map (·.1) ∨ x ∈ r2.map (·.1)) ∧
      ((∃ t1 t2, e = .branchType x ∧ lookup x r1 = some t1 ∧ lookup x r2 = some t2 ∧ t1 ≠ t2) ∨
       (e = .internal 1 ∧ (lookup x r1 = none ∨ lookup x r2 = none))) := by
  unfold rowsMatch at h
  simp only [List.mem_filterMap, List.mem_append, List.mem_filter] at h
  obtain ⟨x, hx, hm⟩ := h
  refine ⟨x, hx.imp id (·.1), ?_⟩
  cases h1 : lookup x r1 with
  | none => simp only [h1] at hm; exact Or.inr ⟨(Option.some.inj hm).symm, Or.inl rfl⟩
  | some t1 =>
    cases h2 : lookup x r2 with
    | none => simp only [h1, h2] at hm; exact Or.inr ⟨(Option.some.inj hm).symm, Or.inr rfl⟩
    | some t2 =>
      simp only [h1, h2] at hm
      split at hm
      · cases hm
      · exact Or.inl ⟨t1, t2, (Option.some.inj hm).symm, rfl, rfl, ‹¬ t1 = t2›⟩

theorem findC_cons (c b : Blk) (r : Row × List Row) (comp : Compiled) :
    findC c ((b, r) :: comp) = if c = b then some r else findC c comp := rfl

/-- what is known about every compiled block -/
def CompOK (U : UCfg) (A : Ana) (comp : Compiled) : Prop :=
  ∀ b row outs, findC b comp = some (row, outs) →
    b ∈ U.blocks ∧ RowOK U A b row ∧ outs = outsOf U A b row ∧
    (∀ s ∈ U.succ b ++ U.dsucc b, RowOK U A s (rowFor A (runEvents row (U.events b)) s)) ∧
    (∀ x, ∃ o, TyAt U x b o ∧ ∀ t, lookup x row = some t → o = some t)

/-- what is known about every queued edge -/
def QOK (U : UCfg) (q : List (Blk × Nat × Blk)) (comp : Compiled) : Prop :=
  ∀ p i b, (p, i, b) ∈ q → ∃ row outs, findC p comp = some (row, outs) ∧
    (U.succ p ++ U.dsucc p)[i]? = some b ∧ b ∈ U.succ p ++ U.dsucc p

theorem tyAt_step {U : UCfg} {x : Var} {p b : Blk} {rowp : Row} {o : Option Ty}
    (hty : TyAt U x p o) (ho : ∀ t, lookup x rowp = some t → o = some t)
    (he : b ∈ U.succ p ++ U.dsucc p) :
    ∃ o', TyAt U x b o' ∧ ∀ t, lookup x (runEvents rowp (U.events p)) = some t → o' = some t := by
  refine ⟨exitTy (U.events p) o x, .edge hty he, ?_⟩
  intro t ht
  rw [lookup_runEvents] at ht
  unfold exitTy at ht ⊢
  cases hl : lastAsg x (U.events p) with
  | some t' => simpa [hl] using ht
  | none => simp only [hl] at ht ⊢; exact ho t ht

theorem bfs_spec {U : UCfg} (hU : U.WF) {A : Ana} (hA : AnaOK U A) :
    ∀ (fuel : Nat) (q : List (Blk × Nat × Blk)) (comp : Compiled) (r : Except (List Err) Compiled),
      CompOK U A comp → QOK U q comp → bfs U A fuel q comp = some r →
      match r with
      | .ok _ => True
      | .error es => es ≠ [] ∧ ∀ e ∈ es, ∃ x, e = .branchType x ∧ TypeConflict U x := by
  intro fuel
  induction fuel with
  | zero =>
    intro q comp r _ _ h
    cases q with
    | nil => simp only [bfs] at h; cases h; trivial
    | cons a q => simp [bfs] at h
  | succ n ih =>
    intro q comp r hc hq h
    cases q with
    | nil => simp only [bfs] at h; cases h; trivial
    | cons a q =>
      obtain ⟨p, i, b⟩ := a
      obtain ⟨rowp, outsp, hfp, hidx, hedge⟩ := hq p i b List.mem_cons_self
      obtain ⟨hpb, hrp, houts, hsucc, htyp⟩ := hc p rowp outsp hfp
      have hbs : b ∈ U.succ p ++ U.dsucc p := List.mem_of_getElem? hidx
      have hbb : b ∈ U.blocks := hU.cfg.closed p hpb b hbs
      have hbne : b ≠ U.entry := by
        intro e
        have : p ∈ U.pred b ++ U.dpred b := (hU.cfg.conv p b).mp hbs
        rw [e, hU.entry_root] at this
        exact absurd this List.not_mem_nil
      let env := runEvents rowp (U.events p)
      have hin : ((findC p comp).bind fun r => r.2[i]?) = some (rowFor A env b) := by
        rw [hfp]; simp only [Option.bind_some, houts, outsOf, List.getElem?_map, hidx, Option.map_some]
        rfl
      have hrow : RowOK U A b (rowFor A env b) := hsucc b hbs
      have htyb : ∀ x, ∃ o, TyAt U x b o ∧ ∀ t, lookup x (rowFor A env b) = some t → o = some t := by
        intro x
        obtain ⟨o, hty, ho⟩ := htyp x
        obtain ⟨o', hty', ho'⟩ := tyAt_step hty ho hedge
        refine ⟨o', hty', fun t ht => ho' t ?_⟩
        rw [lookup_rowFor] at ht
        split at ht
        · exact ht
        · cases ht
      have hqtail : ∀ comp', (∀ c r, findC c comp = some r → findC c comp' = some r) →
          QOK U q comp' := by
        intro comp' hmono p' i' b' hm
        obtain ⟨row', outs', hf', rest⟩ := hq p' i' b' (List.mem_cons_of_mem _ hm)
        exact ⟨row', outs', hmono _ _ hf', rest⟩
      simp only [bfs, hin] at h
      cases hfb : findC b comp with
      | some rb =>
        obtain ⟨rowb, outsb⟩ := rb
        simp only [hfb] at h
        obtain ⟨_, hrb, _, _, htyb'⟩ := hc b rowb outsb hfb
        cases hrm : rowsMatch (rowFor A env b) rowb with
        | nil =>
          simp only [hrm] at h
          exact ih q comp r hc (hqtail comp fun _ _ h => h) h
        | cons e es =>
          simp only [hrm] at h
          cases h
          refine ⟨List.cons_ne_nil _ _, ?_⟩
          intro e' he'
          rw [← hrm] at he'
          obtain ⟨x, hxk, hcase⟩ := mem_rowsMatch he'
          -- both rows have exactly the keys `live b ∩ assignedSomewhere`
          have hsame : (lookup x (rowFor A env b)).isSome ∧ (lookup x rowb).isSome := by
            rcases hxk with hx | hx
            · have h1 := (lookup_isSome_iff_mem x _).mpr hx
              obtain ⟨hAS, hl⟩ := hrow.sub x h1
              exact ⟨h1, hrb.locals x (hl hbne) hAS⟩
            · have h2 := (lookup_isSome_iff_mem x _).mpr hx
              obtain ⟨hAS, hl⟩ := hrb.sub x h2
              exact ⟨hrow.locals x (hl hbne) hAS, h2⟩
          rcases hcase with ⟨t1, t2, he, h1, h2, hne⟩ | ⟨_, hnone⟩
          · refine ⟨x, he, b, t1, t2, hne, ?_, ?_, ?_⟩
            · obtain ⟨o, hty, ho⟩ := htyb x
              rw [← ho t1 h1]; exact hty
            · obtain ⟨o, hty, ho⟩ := htyb' x
              rw [← ho t2 h2]; exact hty
            · have hl := (hrow.sub x (by rw [h1]; rfl)).2 hbne
              exact (hA.live b hbb x).mp hl
          · rcases hnone with h0 | h0
            · rw [h0] at hsame; exact absurd hsame.1 (by simp)
            · rw [h0] at hsame; exact absurd hsame.2 (by simp)
      | none =>
        simp only [hfb] at h
        obtain ⟨hck, hnext⟩ := checkBB_ok hU hA hbb hbne hrow
        simp only [hck] at h
        refine ih _ _ r ?_ ?_ h
        · intro c row outs hf
          rw [findC_cons] at hf
          split at hf
          · rename_i hcb
            cases hf; subst hcb
            exact ⟨hbb, hrow, rfl, hnext, htyb⟩
          · exact hc c row outs hf
        · have hmono : ∀ c r, findC c comp = some r →
              findC c ((b, rowFor A env b, outsOf U A b (rowFor A env b)) :: comp) = some r := by
            intro c r hf
            rw [findC_cons]
            split
            · rename_i hcb; subst hcb; rw [hfb] at hf; cases hf
            · exact hf
          intro p' i' b' hm
          rw [List.mem_append] at hm
          rcases hm with hm | hm
          · exact hqtail _ hmono p' i' b' hm
          · obtain ⟨hp', hs'⟩ := mem_revEnum hm
            subst hp'
            refine ⟨rowFor A env p', outsOf U A p' (rowFor A env p'), by rw [findC_cons]; simp, ?_, ?_⟩
            · exact hs'
            · exact List.mem_of_getElem? hs'

end GuppyVerif.UseDef
