import GuppyVerif.Lemmas.C09Live
/-! C06 helper lemmas, part 6: the liveness worklist (`Dataflow.liveRun`, any scheduler) terminates
    within an explicit fuel bound.  Per variable the values move in one direction only: a variable
    outside `init` is only ever added to a block's live set, a variable of `init` only ever removed
    (`TInv`), so at most `|blocks|·|U|` changes happen, each re-queueing at most `K` blocks. -/
namespace GuppyVerif.Linearity

open GuppyVerif.Dataflow

/-- per variable, the current values are a pre-fixpoint (outside `init`) resp. a post-fixpoint
    (inside `init`) of `liveF`; all live variables come from the universe `U` -/
structure TInv (g : Cfg) (init U : List Var) (vals : Blk → List Var) : Prop where
  up : ∀ b x, x ∉ init → x ∈ vals b → x ∈ liveF g vals b
  down : ∀ b x, x ∈ init → x ∈ liveF g vals b → x ∈ vals b
  univ : ∀ b x, x ∈ vals b → x ∈ U

theorem tinv_init (g : Cfg) (init U : List Var) (hU : ∀ x ∈ init, x ∈ U) : TInv g init U (fun _ => init) :=
  ⟨fun _ _ hn hx => absurd hx hn, fun _ _ hx _ => hx, fun _ x hx => hU x hx⟩

theorem tinv_step {g : Cfg} {init U : List Var} {vals : Blk → List Var} (hU : ∀ b ∈ g.blocks, ∀ x ∈ g.used b, x ∈ U)
    (h : TInv g init U vals) {b0 : Blk} (hb0 : b0 ∈ g.blocks) : TInv g init U (upd vals b0 (liveF g vals b0)) := by
  have hmono : ∀ b x, x ∉ init → x ∈ liveF g vals b → x ∈ liveF g (upd vals b0 (liveF g vals b0)) b := by
    intro b x hn hx
    rw [mem_liveF] at hx ⊢
    rcases hx with hx | ⟨ha, c, hc, hx⟩
    · exact Or.inl hx
    · refine Or.inr ⟨ha, c, hc, ?_⟩
      unfold upd
      by_cases hcb : c = b0
      · simp only [hcb, if_true]; exact h.up b0 x hn (hcb ▸ hx)
      · simp only [hcb, if_false]; exact hx
  have hanti : ∀ b x, x ∈ init → x ∈ liveF g (upd vals b0 (liveF g vals b0)) b → x ∈ liveF g vals b := by
    intro b x hi hx
    rw [mem_liveF] at hx ⊢
    rcases hx with hx | ⟨ha, c, hc, hx⟩
    · exact Or.inl hx
    · refine Or.inr ⟨ha, c, hc, ?_⟩
      unfold upd at hx
      by_cases hcb : c = b0
      · simp only [hcb, if_true] at hx; exact hcb ▸ h.down b0 x hi hx
      · simp only [hcb, if_false] at hx; exact hx
  refine ⟨?_, ?_, ?_⟩
  · intro b x hn hx
    apply hmono b x hn
    unfold upd at hx
    by_cases hb : b = b0
    · simp only [hb, if_true] at hx; exact hb ▸ hx
    · simp only [hb, if_false] at hx; exact h.up b x hn hx
  · intro b x hi hx
    have := hanti b x hi hx
    unfold upd
    by_cases hb : b = b0
    · simp only [hb, if_true]; exact hb ▸ this
    · simp only [hb, if_false]; exact h.down b x hi this
  · intro b x hx
    unfold upd at hx
    by_cases hb : b = b0
    · simp only [hb, if_true] at hx
      rw [mem_liveF] at hx
      rcases hx with hx | ⟨_, c, _, hx⟩
      · exact hU b0 hb0 x hx
      · exact h.univ c x hx
    · simp only [hb, if_false] at hx; exact h.univ b x hx

/-! ### the measure -/

/-- 1 while the bit (b, x) has not yet moved to its final side -/
def bit (init : List Var) (vals : Blk → List Var) (b : Blk) (x : Var) : Nat :=
  if x ∈ init then (if x ∈ vals b then 1 else 0) else (if x ∈ vals b then 0 else 1)

def rowM (init U : List Var) (vals : Blk → List Var) (b : Blk) : Nat := (U.map (bit init vals b)).sum

def mu (g : Cfg) (init U : List Var) (vals : Blk → List Var) : Nat := (g.blocks.map (rowM init U vals)).sum

theorem sum_le_of_le {α : Type} (f f' : α → Nat) : ∀ l : List α, (∀ a ∈ l, f' a ≤ f a) →
    (l.map f').sum ≤ (l.map f).sum := by
  intro l
  induction l with
  | nil => intro _; simp
  | cons a l ih =>
    intro h
    simp only [List.map_cons, List.sum_cons]
    have := h a List.mem_cons_self
    have := ih fun b hb => h b (List.mem_cons_of_mem _ hb)
    omega

theorem sum_lt_of_lt {α : Type} (f f' : α → Nat) : ∀ l : List α, (∀ a ∈ l, f' a ≤ f a) →
    (∃ a ∈ l, f' a < f a) → (l.map f').sum < (l.map f).sum := by
  intro l
  induction l with
  | nil => intro _ ⟨_, h, _⟩; cases h
  | cons a l ih =>
    intro h ⟨x, hx, hlt⟩
    simp only [List.map_cons, List.sum_cons]
    have h1 := h a List.mem_cons_self
    have h2 := sum_le_of_le f f' l fun b hb => h b (List.mem_cons_of_mem _ hb)
    rcases List.mem_cons.mp hx with rfl | hx
    · omega
    · have := ih (fun b hb => h b (List.mem_cons_of_mem _ hb)) ⟨x, hx, hlt⟩
      omega

theorem sum_le_length {α : Type} (f : α → Nat) (l : List α) (h : ∀ a ∈ l, f a ≤ 1) : (l.map f).sum ≤ l.length := by
  induction l with
  | nil => simp
  | cons a l ih =>
    simp only [List.map_cons, List.sum_cons, List.length_cons]
    have := h a List.mem_cons_self
    have := ih fun b hb => h b (List.mem_cons_of_mem _ hb)
    omega

theorem bit_le_one (init : List Var) (vals : Blk → List Var) (b : Blk) (x : Var) : bit init vals b x ≤ 1 := by
  unfold bit; split <;> split <;> omega

theorem rows_le (f : Blk → Nat) (n : Nat) : ∀ l : List Blk, (∀ b ∈ l, f b ≤ n) → (l.map f).sum ≤ l.length * n := by
  intro l
  induction l with
  | nil => intro _; simp
  | cons a l ih =>
    intro h
    simp only [List.map_cons, List.sum_cons, List.length_cons]
    have h1 := h a List.mem_cons_self
    have h2 := ih fun b hb => h b (List.mem_cons_of_mem _ hb)
    rw [Nat.add_mul]
    omega

theorem mu_le (g : Cfg) (init U : List Var) (vals : Blk → List Var) : mu g init U vals ≤ g.blocks.length * U.length :=
  rows_le _ _ _ fun b _ => sum_le_length _ _ fun x _ => bit_le_one init vals b x

/-- a change of the value of a block strictly decreases the measure -/
theorem mu_step {g : Cfg} {init U : List Var} {vals : Blk → List Var} (hU : ∀ b ∈ g.blocks, ∀ x ∈ g.used b, x ∈ U)
    (h : TInv g init U vals) {b0 : Blk} (hb0 : b0 ∈ g.blocks)
    (hne : sameSet (vals b0) (liveF g vals b0) = false) :
    mu g init U (upd vals b0 (liveF g vals b0)) < mu g init U vals := by
  unfold mu
  have hrow : ∀ b, b ≠ b0 → rowM init U (upd vals b0 (liveF g vals b0)) b = rowM init U vals b := by
    intro b hb
    unfold rowM bit upd
    simp [hb]
  have hbit : ∀ x, bit init (upd vals b0 (liveF g vals b0)) b0 x ≤ bit init vals b0 x := by
    intro x
    unfold bit upd
    simp only [if_true]
    by_cases hi : x ∈ init
    · simp only [hi, if_true]
      by_cases hx : x ∈ liveF g vals b0
      · simp [hx, h.down b0 x hi hx]
      · simp [hx]
    · simp only [hi, if_false]
      by_cases hx : x ∈ vals b0
      · simp [hx, h.up b0 x hi hx]
      · simp [hx]; split <;> omega
  apply sum_lt_of_lt
  · intro b _
    by_cases hb : b = b0
    · subst hb
      exact sum_le_of_le _ _ _ fun x _ => hbit x
    · rw [hrow b hb]; exact Nat.le_refl _
  · refine ⟨b0, hb0, ?_⟩
    unfold rowM
    apply sum_lt_of_lt _ _ _ fun x _ => hbit x
    -- a variable on which the two sets differ
    have hns : ¬ SetEq (vals b0) (liveF g vals b0) := by
      rw [← sameSet_iff]; simp [hne]
    unfold SetEq at hns
    obtain ⟨x, hx⟩ := Classical.not_forall.mp hns
    by_cases h1 : x ∈ vals b0
    · have h2 : x ∉ liveF g vals b0 := fun h2 => hx ⟨fun _ => h2, fun _ => h1⟩
      have hi : x ∈ init := by
        apply Classical.byContradiction
        intro hi
        exact h2 (h.up b0 x hi h1)
      refine ⟨x, h.univ b0 x h1, ?_⟩
      unfold bit upd
      simp [hi, h1, h2]
    · have h2 : x ∈ liveF g vals b0 := by
        apply Classical.byContradiction
        intro h2
        exact hx ⟨fun h' => absurd h' h1, fun h' => absurd h' h2⟩
      have hi : x ∉ init := fun hi => h1 (h.down b0 x hi h2)
      have hu : x ∈ U := by
        rw [mem_liveF] at h2
        rcases h2 with h2 | ⟨_, c, _, h2⟩
        · exact hU b0 hb0 x h2
        · exact h.univ c x h2
      refine ⟨x, hu, ?_⟩
      unfold bit upd
      simp [hi, h1, h2]

/-! ### the run -/

theorem length_filter_ne_lt (b : Blk) : ∀ q : List Blk, b ∈ q → (q.filter (· != b)).length < q.length := by
  intro q
  induction q with
  | nil => intro h; cases h
  | cons a q ih =>
    intro h
    by_cases ha : a = b
    · subst ha
      simp only [List.filter_cons, bne_self_eq_false, Bool.false_eq_true, if_false, List.length_cons]
      have := List.length_filter_le (· != a) q
      omega
    · have hb : b ∈ q := by
        rcases List.mem_cons.mp h with h | h
        · exact absurd h.symm ha
        · exact h
      have := ih hb
      simp [List.filter_cons, ha]
      omega

/-- potential: changes still possible, each worth `K + 1` pops, plus the queued blocks -/
def phi (g : Cfg) (init U : List Var) (K : Nat) (s : LSt) : Nat :=
  mu g init U s.vals * (K + 1) + s.queue.length

theorem step_phi {g : Cfg} {init U : List Var} {K : Nat} (hU : ∀ b ∈ g.blocks, ∀ x ∈ g.used b, x ∈ U)
    (hp : ∀ b ∈ g.blocks, ∀ c ∈ g.pred b ++ g.dpred b, c ∈ g.blocks)
    (hK : ∀ b ∈ g.blocks, (g.pred b ++ g.dpred b).length ≤ K) {s : LSt}
    (hi : TInv g init U s.vals) (hq : ∀ b ∈ s.queue, b ∈ g.blocks) {b : Blk} (hb : b ∈ s.queue) :
    TInv g init U (liveStep g s b).vals ∧ (∀ c ∈ (liveStep g s b).queue, c ∈ g.blocks) ∧
      phi g init U K (liveStep g s b) < phi g init U K s := by
  have hbb := hq b hb
  have hlen := length_filter_ne_lt b s.queue hb
  unfold liveStep
  by_cases hs : sameSet (s.vals b) (liveF g s.vals b) = true
  · simp only [hs, if_true]
    refine ⟨hi, ?_, ?_⟩
    · intro c hc
      exact hq c (List.mem_filter.mp hc).1
    · unfold phi
      simp only
      omega
  · have hs' : sameSet (s.vals b) (liveF g s.vals b) = false := by simpa using hs
    simp only [hs', Bool.false_eq_true, if_false]
    refine ⟨tinv_step hU hi hbb, ?_, ?_⟩
    · intro c hc
      rcases List.mem_append.mp hc with hc | hc
      · exact hq c (List.mem_filter.mp hc).1
      · exact hp b hbb c hc
    · unfold phi
      simp only [List.length_append]
      have h1 := mu_step hU hi hbb hs'
      have h2 := hK b hbb
      have h3 : (g.pred b ++ g.dpred b).length = (g.pred b).length + (g.dpred b).length := List.length_append
      have : (mu g init U (upd s.vals b (liveF g s.vals b)) + 1) * (K + 1) ≤ mu g init U s.vals * (K + 1) :=
        Nat.mul_le_mul_right _ h1
      rw [Nat.add_mul] at this
      omega

/-- **Termination of the liveness worklist, any scheduler**: enough fuel is `phi` of the start state -/
theorem liveRun_isSome {g : Cfg} {init U : List Var} {K : Nat} (hU : ∀ b ∈ g.blocks, ∀ x ∈ g.used b, x ∈ U)
    (hp : ∀ b ∈ g.blocks, ∀ c ∈ g.pred b ++ g.dpred b, c ∈ g.blocks)
    (hK : ∀ b ∈ g.blocks, (g.pred b ++ g.dpred b).length ≤ K) (sched : List Blk → Blk) :
    ∀ (fuel : Nat) (s : LSt), TInv g init U s.vals → (∀ b ∈ s.queue, b ∈ g.blocks) →
      phi g init U K s ≤ fuel → (liveRun g sched fuel s).isSome = true := by
  intro fuel
  induction fuel with
  | zero =>
    intro s _ _ hphi
    unfold liveRun
    have : s.queue.length = 0 := by unfold phi at hphi; omega
    have : s.queue = [] := List.length_eq_zero_iff.mp this
    simp [this]
  | succ n ih =>
    intro s hi hq hphi
    unfold liveRun
    split
    · rfl
    · rename_i hd tl hqe
      simp only
      have hb : (if s.queue.contains (sched s.queue) = true then sched s.queue else hd) ∈ s.queue := by
        split
        · rename_i hc; simpa using hc
        · rw [hqe]; exact List.mem_cons_self
      obtain ⟨h1, h2, h3⟩ := step_phi (K := K) hU hp hK hi hq hb
      exact ih _ h1 h2 (by omega)

end GuppyVerif.Linearity
