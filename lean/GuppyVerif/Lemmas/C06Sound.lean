import GuppyVerif.Lemmas.C06Flow
/-! C06 helper lemmas, part 3: soundness.  An accepting run yields a certificate (`Cert`);
    along every walk from the entry, on entering a block a linear value is held under a leaf iff
    the leaf is live there and its row kind is linear (`walk_inv`); the clauses of `LeafGood`
    follow. -/
namespace GuppyVerif.Linearity

open GuppyVerif.Dataflow (LiveSpec LivePath InfPath Edge)

/-- the scope table of pass 1 together with the place-level liveness computed from it -/
structure PreCert (P : Prog) where
  sc : Blk → Scope
  live : Blk → List Leaf
  init : List Leaf
  scope : ∀ b ∈ P.blocks, IsScope P b (sc b)
  liveOK : LiveOK P sc init live
  initSub : ∀ x ∈ init, x ∈ P.borrowedLeaves

/-- what an accepting run of `checkCfg` leaves behind: additionally all pass-2 checks passed -/
structure Cert (P : Prog) extends PreCert P where
  edges : ∀ b ∈ P.blocks, checkEdges P live b (sc b) = .ok ()

theorem cert_of_accept {P : Prog} (hc : ∀ b ∈ P.blocks, ∀ c ∈ P.succ b, c ∈ P.blocks)
    (h : checkCfg P = .ok ()) : Nonempty (Cert P) := by
  unfold checkCfg at h
  cases h1 : scopes P with
  | error e => simp [h1, bind, Except.bind] at h
  | ok tbl =>
    simp only [h1, bind, Except.bind] at h
    obtain ⟨s1, s2, s3⟩ := scopes_ok h1
    cases h2 : Dataflow.liveRun (flowCfg P (lookup tbl)) headSched
        (liveFuel (flowCfg P (lookup tbl)) (liveDefault P))
        (Dataflow.liveInit (flowCfg P (lookup tbl)) (liveDefault P)) with
    | none => simp [h2] at h
    | some t =>
      simp only [h2] at h
      rw [forM_ok] at h
      refine ⟨⟨⟨lookup tbl, t.vals, liveDefault P, s1, liveOK_of_run hc _ _ _ _ _ h2, ?_⟩, ?_⟩⟩
      · intro x hx
        unfold liveDefault at hx
        split at hx
        · cases hx
        · exact hx
      · intro b hb
        obtain ⟨q, hq, rfl⟩ := s3 b hb
        have := h q hq
        rw [(s2 q hq).2] at this
        exact this

/-! ### a lent leaf is handed back only after it was taken: no block starts with `give` -/

theorem mem_leafEvs {op : Op} {x : Ev} {l : Leaf} {ls : List (Leaf × Bool)} (h : x ∈ leafEvs op l ls) :
    x.op = op := by
  unfold leafEvs at h
  simp only [List.mem_flatMap] at h
  obtain ⟨y, _, hy⟩ := h
  split at hy <;> simp at hy
  rw [hy]

theorem leafEvs_eq_nil {op : Op} {l : Leaf} {ls : List (Leaf × Bool)} :
    leafEvs op l ls = [] ↔ ∀ xk ∈ ls, xk.1 ≠ l := by
  unfold leafEvs
  simp only [List.flatMap_eq_nil_iff]
  constructor
  · intro h xk hm e
    have := h xk hm
    simp [e] at this
  · intro h xk hx
    simp [h xk hx]

def NotGive (es : List Ev) : Prop := ∀ e, es.head? = some e → e.op ≠ Op.give

theorem notGive_append {es fs : List Ev} (h1 : NotGive es) (h2 : es = [] → NotGive fs) : NotGive (es ++ fs) := by
  cases es with
  | nil => simpa using h2 rfl
  | cons x es => intro e he; exact h1 e (by simpa using he)

theorem notGive_of_all {es : List Ev} {op : Op} (hop : op ≠ Op.give) (h : ∀ x ∈ es, x.op = op) : NotGive es := by
  intro e he
  cases es with
  | nil => simp at he
  | cons x es =>
    simp at he
    subst he
    rw [h x List.mem_cons_self]; exact hop

theorem acts_notGive (l : Leaf) (rowIds : List Leaf) (hr : l ∈ rowIds) : ∀ (acts : List Act) (seen : List Leaf),
    actsWf rowIds seen acts = true → l ∉ seen → NotGive (acts.flatMap (Act.evs l)) := by
  intro acts
  induction acts with
  | nil => intro _ _ _ e he; simp at he
  | cons a acts ih =>
    intro seen hwf hl
    rw [List.flatMap_cons]
    cases a with
    | use p borrow =>
      simp only [actsWf] at hwf
      refine notGive_append (notGive_of_all (op := Op.use) (by decide) fun x hx => mem_leafEvs hx) fun hnil => ?_
      refine ih _ hwf ?_
      simp only [Act.evs] at hnil
      rw [leafEvs_eq_nil] at hnil
      simp only [List.mem_append, List.mem_map, not_or, not_exists, not_and]
      exact ⟨hl, fun xk hxk e => hnil xk hxk e⟩
    | give p =>
      simp only [actsWf, Bool.and_eq_true, List.all_eq_true] at hwf
      have hnil : Act.evs l (Act.give p) = [] := by
        simp only [Act.evs]
        rw [leafEvs_eq_nil]
        intro xk hxk e
        have := hwf.1 xk hxk
        rw [e] at this
        simp only [Bool.or_eq_true, List.contains_iff_mem, Bool.not_eq_true', decide_eq_false_iff_not] at this
        rcases this with h | h
        · exact hl h
        · have : rowIds.contains l = true := by simpa using hr
          rw [h] at this; cases this
      rw [hnil]
      simpa using ih seen hwf.2 hl
    | dropAfter =>
      simp only [actsWf] at hwf
      simpa [Act.evs] using ih seen hwf hl
    | moveOut =>
      simp only [actsWf] at hwf
      simpa [Act.evs] using ih seen hwf hl

theorem stmt_notGive {l : Leaf} {rowIds : List Leaf} (hr : l ∈ rowIds) {st : Stmt}
    (h : actsWf rowIds [] st.acts = true) : NotGive (st.evs l) := by
  unfold Stmt.evs
  refine notGive_append (acts_notGive l rowIds hr st.acts [] h (by simp)) fun _ => ?_
  refine notGive_of_all (op := Op.asg) (by decide) ?_
  intro x hx
  simp only [List.mem_flatMap] at hx
  obtain ⟨t, _, ht⟩ := hx
  exact mem_leafEvs ht

theorem flatMap_notGive {α : Type} (f : α → List Ev) : ∀ as : List α, (∀ a ∈ as, NotGive (f a)) →
    NotGive (as.flatMap f) := by
  intro as
  induction as with
  | nil => intro _ e he; simp at he
  | cons a as ih =>
    intro h
    rw [List.flatMap_cons]
    exact notGive_append (h a List.mem_cons_self) fun _ => ih fun b hb => h b (List.mem_cons_of_mem _ hb)

/-- for a leaf that occurs in a row or belongs to a borrowed parameter -/
theorem blockEvs_notGive {P : Prog} (hw : P.WF) (l : Leaf) (hr : l ∈ P.rowIds) {b : Blk} (hb : b ∈ P.blocks) :
    NotGive (P.blockEvs l b) := by
  unfold Prog.blockEvs
  refine notGive_append (flatMap_notGive _ _ fun st hst => stmt_notGive hr (hw.acts b hb st hst)) fun _ => ?_
  split
  · intro e he; simp at he; rw [← he]; intro h; cases h
  · intro e he; simp at he

theorem mem_rowIds_of_row {P : Prog} {b : Blk} (hb : b ∈ P.blocks) {l : Leaf} (h : l ∈ P.row b) : l ∈ P.rowIds := by
  unfold Prog.rowIds
  exact List.mem_append_right _ (List.mem_flatMap.mpr ⟨b, hb, h⟩)

theorem rowKind_true {P : Prog} {b : Blk} {l : Leaf} :
    P.rowKind b l = some true ↔ l ∈ P.row b ∧ l ∈ P.rowLin b := by
  unfold Prog.rowKind
  by_cases hr : l ∈ P.row b
  · by_cases hl : l ∈ P.rowLin b <;> simp [hr, hl]
  · simp [hr]

section
variable {P : Prog} (hw : P.WF) (hk : P.KindsOK) (C : PreCert P) {l : Leaf}
include hw

/-- the bookkeeping state a block starts from -/
theorem c0_entry : (initScope P P.entry).proj l =
      ⟨(P.row P.entry).contains l, (P.rowLin P.entry).contains l, false, false⟩ ∧
    (initScope P P.entry).parent = [] := by
  simp [initScope, Scope.proj]

theorem c0_other {b : Blk} (hb : b ≠ P.entry) :
    (initScope P b).proj l = ⟨false, false, false, false⟩ ∧ (initScope P b).parent = P.row b ∧
      (initScope P b).linParent = P.rowLin b := by
  simp [initScope, Scope.proj, hb]

theorem c0_usedParent (b : Blk) : ((initScope P b).proj l).usedParent = false := by
  by_cases hb : b = P.entry
  · subst hb; simp [initScope, Scope.proj]
  · simp [initScope, Scope.proj, hb]

theorem blk_run {b : Blk} (hb : b ∈ P.blocks) :
    ((C.sc b).parent = (initScope P b).parent ∧ (C.sc b).linParent = (initScope P b).linParent) ∧
    crun ((initScope P b).parent.contains l) ((initScope P b).proj l) (P.blockEvs l b) = some ((C.sc b).proj l) :=
  let h := block_proj hw (l := l) (C.scope b hb)
  ⟨h.1, h.2.1⟩

theorem entry_no_usedParent (hb : P.entry ∈ P.blocks) : l ∉ (C.sc P.entry).usedParent := by
  obtain ⟨_, h2⟩ := blk_run hw C (l := l) hb
  have h0 := c0_entry (P := P) hw (l := l)
  rw [h0.2] at h2
  have := (crun_mono h2).2.2.2 (by simp)
  rw [c0_usedParent hw] at this
  intro hm
  simp [Scope.proj, hm] at this

theorem blk_used_head {b : Blk} (hb : b ∈ P.blocks) (hu : l ∈ (C.sc b).usedParent) :
    (P.blockEvs l b).head?.map Ev.isUse = some true := by
  obtain ⟨_, h2⟩ := blk_run hw C (l := l) hb
  by_cases he : b = P.entry
  · subst he; exact absurd hu (entry_no_usedParent hw C hb)
  · refine crun_usedParent_head h2 ?_ (c0_usedParent hw b) (by simp [Scope.proj, hu])
    rw [(c0_other hw he).1]

theorem blk_untouched {b : Blk} (hb : b ∈ P.blocks) (hv : l ∉ (C.sc b).vars) (hu : l ∉ (C.sc b).usedParent) :
    P.blockEvs l b = [] := by
  obtain ⟨_, h2⟩ := blk_run hw C (l := l) hb
  refine crun_untouched h2 (by simp [Scope.proj, hv]) (by simp [Scope.proj, hu]) ?_
  cases hc : ((initScope P b).proj l).inVars with
  | false => rfl
  | true =>
    have := (crun_mono h2).1 hc
    simp [Scope.proj, hv] at this

/-- a leaf used from the parent scope is in the block's input row -/
theorem used_in_row {b : Blk} (hb : b ∈ P.blocks) (hu : l ∈ (C.sc b).usedParent) : l ∈ P.row b := by
  obtain ⟨_, h2⟩ := blk_run hw C (l := l) hb
  by_cases he : b = P.entry
  · subst he; exact absurd hu (entry_no_usedParent hw C hb)
  · cases hp : (initScope P b).parent.contains l with
    | true => simpa [initScope, he] using hp
    | false =>
      rw [hp] at h2
      have := (crun_mono h2).2.2.2 rfl
      rw [c0_usedParent hw] at this
      simp [Scope.proj, hu] at this

/-- `Scope.used` read off the projection -/
theorem used_proj (s : Scope) :
    s.used l = if (s.proj l).inVars then some (s.proj l).usedLocal
      else if l ∈ s.parent then some (s.proj l).usedParent else none := by
  unfold Scope.used Scope.proj
  simp

/-- state on entering a block, along any walk: a linear value is held iff the leaf is live and
    its kind in the block's row is linear -/
def Pre (b : Blk) (o : Bool) : Prop :=
  if b = P.entry then o = P.initOwned l else (o = true ↔ l ∈ C.live b ∧ P.rowKind b l = some true)

include hk

theorem kinv_init (b : Blk) : KInv (P.rowKind b l) ((initScope P b).proj l) (P.rowKind b l) := by
  unfold KInv
  by_cases he : b = P.entry
  · subst he
    rw [(c0_entry hw).1]
    unfold Prog.rowKind
    by_cases hr : (P.row P.entry).contains l = true <;> simp [hr]
  · rw [(c0_other hw he).1]; simp

theorem pre_kind {b : Blk} {o : Bool} (hp : Pre C (l := l) b o) : P.rowKind b l ≠ some true → o = false := by
  intro hne
  unfold Pre at hp
  by_cases he : b = P.entry
  · subst he
    simp only [if_true] at hp
    rw [hp]
    unfold Prog.initOwned
    cases hl : (P.rowLin P.entry).contains l with
    | false => rfl
    | true =>
      exfalso
      apply hne
      have hm : l ∈ P.rowLin P.entry := by simpa using hl
      have := hk.rows _ hw.entryIn _ hm
      unfold Prog.rowKind
      simp [this, hm]
  · simp only [he, if_false] at hp
    cases ho : o with
    | false => rfl
    | true => exact absurd (hp.mp ho).2 hne

/-- running a block from a state that satisfies `Pre` is fine, and the state afterwards is
    determined by the bookkeeping -/
theorem block_ok {b : Blk} (hb : b ∈ P.blocks) {o : Bool} (hp : Pre C (l := l) b o) :
    ∃ o1 k1, runEvs o (P.blockEvs l b) = some o1 ∧ krun (P.rowKind b l) (P.blockEvs l b) = some k1 ∧
      (∀ c ∈ P.succ b, l ∈ P.row c → P.rowKind c l = k1) ∧
      KInv (P.rowKind b l) ((C.sc b).proj l) k1 ∧ Rel o (P.rowKind b l) ((C.sc b).proj l) o1 := by
  obtain ⟨hpar, h2⟩ := blk_run hw C (l := l) hb
  obtain ⟨k1, hk1, hsucc⟩ := hk.blocks l b hb
  have hRel : Rel o (P.rowKind b l) ((initScope P b).proj l) o := by
    by_cases he : b = P.entry
    · subst he
      rw [(c0_entry hw).1]
      unfold Pre at hp
      simp only [if_true] at hp
      unfold Rel
      by_cases hr : (P.row P.entry).contains l = true
      · simp [hr, hp, Prog.initOwned]
      · simp only [hr]
        simp
    · rw [(c0_other hw he).1]
      simp [Rel]
  have hA : ((C.sc b).proj l).usedParent = true → ((initScope P b).proj l).usedParent = false →
      P.rowKind b l = some true → o = true := by
    intro h1 _ hk0
    by_cases he : b = P.entry
    · subst he
      exact absurd (by simpa [Scope.proj] using h1) (entry_no_usedParent hw C hb)
    · unfold Pre at hp
      simp only [he, if_false] at hp
      exact hp.mpr ⟨live_of_used C.liveOK hb (by simpa [Scope.proj] using h1), hk0⟩
  have hB : ((C.sc b).proj l).inVars = true → ((C.sc b).proj l).usedParent = false →
      ((initScope P b).proj l).inVars = false → o = false := by
    intro h1 h2' h3
    by_cases he : b = P.entry
    · subst he
      rw [(c0_entry hw).1] at h3
      unfold Pre at hp
      simp only [if_true] at hp
      rw [hp]
      unfold Prog.initOwned
      cases hl : (P.rowLin P.entry).contains l with
      | false => rfl
      | true =>
        have hm : l ∈ P.rowLin P.entry := by simpa using hl
        have := hk.rows _ hw.entryIn _ hm
        simp [this] at h3
    · unfold Pre at hp
      simp only [he, if_false] at hp
      cases ho : o with
      | false => rfl
      | true =>
        exfalso
        rcases live_inv C.liveOK hw.closed hb (hp.mp ho).1 with h | ⟨h, _⟩
        · simp [Scope.proj, h] at h2'
        · simp [Scope.proj, h] at h1
  obtain ⟨o1, ho1, hi1, hr1⟩ := sim (pre_kind hw hk C hp) _ _ _ o _ _ h2 hk1 (kinv_init hw hk b) hRel hA hB
  exact ⟨o1, k1, ho1, hk1, hsucc, hi1, hr1⟩

/-- a leaf live at the start of a block other than the entry is in the block's row -/
theorem live_in_row (hE : ∀ b ∈ P.blocks, checkEdges P C.live b (C.sc b) = .ok ()) {c : Blk}
    (hc : c ∈ P.blocks) (hce : c ≠ P.entry) (h : l ∈ C.live c) : l ∈ P.row c := by
  obtain ⟨hpar, _⟩ := blk_run hw C (l := l) hc
  by_cases hx : c = P.exit
  · rcases live_inv C.liveOK hw.closed hc h with hu | ⟨_, c', hc', _⟩
    · exact used_in_row hw C hc hu
    · rw [hx, hw.exitSucc] at hc'; cases hc'
  · have := (checkEdges_ok (hE c hc)).2.2.2 hce hx l h
    rw [hpar.1, (c0_other hw (l := l) hce).2.1] at this
    exact this

/-- the state after a block satisfies `Pre` at every successor -/
theorem edge_ok (hE : ∀ b ∈ P.blocks, checkEdges P C.live b (C.sc b) = .ok ()) {b c : Blk}
    (hb : b ∈ P.blocks) (hcb : c ∈ P.succ b) {o o1 : Bool} {k1 : Option Bool}
    (hp : Pre C (l := l) b o) (hs : l ∈ P.row c → P.rowKind c l = k1)
    (hi : KInv (P.rowKind b l) ((C.sc b).proj l) k1) (hr : Rel o (P.rowKind b l) ((C.sc b).proj l) o1) :
    Pre C (l := l) c o1 := by
  have hce : c ≠ P.entry := fun e => hw.entryNoPred b hb (e ▸ hcb)
  have hcB : c ∈ P.blocks := hw.closed b hb c hcb
  obtain ⟨ha, hb1, hb2, _⟩ := checkEdges_ok (hE b hb)
  obtain ⟨hpar, h2⟩ := blk_run hw C (l := l) hb
  unfold Pre
  simp only [hce, if_false]
  have hu := used_proj hw (l := l) (C.sc b)
  unfold Rel at hr
  unfold KInv at hi
  constructor
  · intro ho1
    subst ho1
    cases hv : ((C.sc b).proj l).inVars with
    | true =>
      simp only [hv, if_true] at hr hu hi
      have hkl : ((C.sc b).proj l).kLoc = true := by
        cases h : ((C.sc b).proj l).kLoc <;> simp [h] at hr ⊢
      have hul : ((C.sc b).proj l).usedLocal = false := by
        cases h : ((C.sc b).proj l).usedLocal <;> simp [h, hkl] at hr ⊢
      rw [hul] at hu
      have hlc := hb1 l (by simpa [Scope.proj] using hv) (by simpa [Scope.proj] using hkl) hu c hcb
      refine ⟨hlc, ?_⟩
      rw [hs (live_in_row hw hk C hE hcB hce hlc), hi, hkl]
    | false =>
      simp only [hv, Bool.false_eq_true, if_false] at hr hu hi
      -- held on entry, not taken since
      have hbe : b ≠ P.entry := by
        intro e
        subst e
        by_cases hc : (((C.sc P.entry).proj l).usedParent && (P.rowKind P.entry l == some true)) = true
        · simp [hc] at hr
        · simp only [hc, Bool.false_eq_true, if_false] at hr
          unfold Pre at hp
          simp only [if_true] at hp
          have hm : l ∈ P.rowLin P.entry := by
            rw [← hr] at hp
            simpa [Prog.initOwned] using hp.symm
          have hrow := hk.rows _ hw.entryIn _ hm
          have : ((initScope P P.entry).proj l).inVars = true := by
            rw [(c0_entry hw).1]; simpa using hrow
          have := (crun_mono h2).1 this
          rw [hv] at this; cases this
      unfold Pre at hp
      simp only [hbe, if_false] at hp
      by_cases hc : (((C.sc b).proj l).usedParent && (P.rowKind b l == some true)) = true
      · simp [hc] at hr
      · simp only [hc, Bool.false_eq_true, if_false] at hr
        obtain ⟨hlb, hkb⟩ := hp.mp hr.symm
        have hup : ((C.sc b).proj l).usedParent = false := by
          cases h : ((C.sc b).proj l).usedParent with
          | false => rfl
          | true => simp [h, hkb] at hc
        have hrowb : l ∈ P.row b ∧ l ∈ P.rowLin b := rowKind_true.mp hkb
        have hpm : l ∈ (C.sc b).parent := by rw [hpar.1, (c0_other hw (l := l) hbe).2.1]; exact hrowb.1
        have hlp : l ∈ (C.sc b).linParent := by rw [hpar.2, (c0_other hw (l := l) hbe).2.2]; exact hrowb.2
        simp only [hpm, if_true, hup] at hu
        have hlc := hb2 l hpm (by simpa [Scope.proj] using hv) hlp hlb hu c hcb
        refine ⟨hlc, ?_⟩
        rw [hs (live_in_row hw hk C hE hcB hce hlc), hi, hkb]
  · rintro ⟨hlc, hkc⟩
    have hrc : l ∈ P.row c ∧ l ∈ P.rowLin c := rowKind_true.mp hkc
    have hu' := ha c hcb l hlc hrc.2
    rw [hu] at hu'
    have hk1 : k1 = some true := by rw [← hs hrc.1]; exact hkc
    cases hv : ((C.sc b).proj l).inVars with
    | true =>
      simp only [hv, if_true] at hr hu' hi
      rw [hr]
      simp at hu'
      rw [hk1] at hi
      simp at hi
      simp [hu', ← hi]
    | false =>
      simp only [hv, Bool.false_eq_true, if_false] at hr hu' hi
      by_cases hpm : l ∈ (C.sc b).parent
      · simp only [hpm, if_true] at hu'
        simp at hu'
        simp only [hu', Bool.false_and, Bool.false_eq_true, if_false] at hr
        have hbe : b ≠ P.entry := by
          intro e
          subst e
          rw [hpar.1, (c0_entry hw (l := l)).2] at hpm
          cases hpm
        unfold Pre at hp
        simp only [hbe, if_false] at hp
        rw [hr]
        refine hp.mpr ⟨live_of_succ C.liveOK hw.closed hb hcb hlc (by simpa [Scope.proj] using hv), ?_⟩
        rw [← hi, hk1]
      · simp [hpm] at hu'

/-- **the invariant**: along every walk a linear value is held under the leaf on entering a
    block iff the leaf is live there at a linear kind -/
theorem walk_inv (hE : ∀ b ∈ P.blocks, checkEdges P C.live b (C.sc b) = .ok ()) {bs : List Blk} {b : Blk}
    (h : Walk P bs b) :
    b ∈ P.blocks ∧ ∃ o, runEvs (P.initOwned l) (P.trace l bs) = some o ∧ Pre C (l := l) b o := by
  induction h with
  | entry =>
    refine ⟨hw.entryIn, P.initOwned l, by simp [Prog.trace, runEvs], ?_⟩
    simp [Pre]
  | @step bs b c _ hcb ih =>
    obtain ⟨hb, o, ho, hp⟩ := ih
    obtain ⟨o1, k1, ho1, _, hs, hi, hr⟩ := block_ok hw hk C hb hp
    refine ⟨hw.closed b hb c hcb, o1, ?_, edge_ok hw hk C hE hb hcb hp (hs c hcb) hi hr⟩
    unfold Prog.trace at ho ⊢
    rw [List.flatMap_append, runEvs_append, ho]
    simpa using ho1

end

section
variable {P : Prog} (hw : P.WF) (C : PreCert P) {l : Leaf}
include hw C

/-! ### from the liveness result to continuations of the program -/

theorem willUse_of_livePath {b : Blk} (hb : b ∈ P.blocks) (h : LivePath (flowCfg P C.sc) l b) :
    WillUse P l b := by
  induction h with
  | use hu => exact .here (blk_used_head hw C hb hu)
  | @step b c hna he _ ih =>
    obtain ⟨_, hcb⟩ := flow_edge.mp he
    by_cases hu : l ∈ (C.sc b).usedParent
    · exact .here (blk_used_head hw C hb hu)
    · exact .later (blk_untouched hw C hb hna hu) hcb (ih (hw.closed b hb c hcb))

theorem inf_blocks {f : Nat → Blk} (h0 : f 0 ∈ P.blocks)
    (hf : ∀ i, l ∉ (flowCfg P C.sc).assigned (f i) ∧ Edge (flowCfg P C.sc) (f i) (f (i + 1))) :
    ∀ i, f i ∈ P.blocks := by
  intro i
  induction i with
  | zero => exact h0
  | succ i ih => exact hw.closed _ ih _ (flow_edge.mp (hf i).2).2

theorem willUse_of_inf_use : ∀ (i : Nat) (f : Nat → Blk), f 0 ∈ P.blocks →
    (∀ j, l ∉ (flowCfg P C.sc).assigned (f j) ∧ Edge (flowCfg P C.sc) (f j) (f (j + 1))) →
    l ∈ (C.sc (f i)).usedParent → WillUse P l (f 0) := by
  intro i
  induction i with
  | zero => intro f h0 _ hu; exact .here (blk_used_head hw C h0 hu)
  | succ i ih =>
    intro f h0 hf hu
    have h1 : f 1 ∈ P.blocks := hw.closed _ h0 _ (flow_edge.mp (hf 0).2).2
    have := ih (fun j => f (j + 1)) h1 (fun j => hf (j + 1)) hu
    by_cases hu0 : l ∈ (C.sc (f 0)).usedParent
    · exact .here (blk_used_head hw C h0 hu0)
    · exact .later (blk_untouched hw C h0 (hf 0).1 hu0) (flow_edge.mp (hf 0).2).2 this

/-- a live leaf is read on some continuation, or is a borrowed leaf on a path that never returns -/
theorem cont_of_live {b : Blk} (hb : b ∈ P.blocks) (h : l ∈ C.live b) :
    WillUse P l b ∨ (l ∈ P.borrowedLeaves ∧ MayIdle P l b) := by
  rcases (C.liveOK b hb l).mp h with h | ⟨hi, f, f0, hf⟩
  · exact Or.inl (willUse_of_livePath hw C hb h)
  · by_cases hex : ∃ i, l ∈ (C.sc (f i)).usedParent
    · obtain ⟨i, hu⟩ := hex
      left
      have := willUse_of_inf_use hw C i f (f0 ▸ hb) hf hu
      rwa [f0] at this
    · right
      refine ⟨C.initSub l hi, f, f0, fun i => ⟨?_, (flow_edge.mp (hf i).2).2⟩⟩
      have hbi := inf_blocks hw C (f0 ▸ hb) hf i
      exact blk_untouched hw C hbi (hf i).1 (fun hu => hex ⟨i, hu⟩)

end

theorem walk_blocks {P : Prog} (hw : P.WF) {bs : List Blk} {b : Blk} (h : Walk P bs b) : b ∈ P.blocks := by
  induction h with
  | entry => exact hw.entryIn
  | step _ hcb ih => exact hw.closed _ ih _ hcb

theorem walk_entry' {P : Prog} (hw : P.WF) {bs : List Blk} {b : Blk} (h : Walk P bs b) :
    b = P.entry → bs = [] := by
  cases h with
  | entry => exact fun _ => rfl
  | @step bs b c hwk hcb => exact fun e => absurd (e ▸ hcb) (hw.entryNoPred b (walk_blocks hw hwk))

theorem leafGood {P : Prog} (hw : P.WF) (hk : P.KindsOK) (C : PreCert P) {l : Leaf}
    (hE : ∀ b ∈ P.blocks, checkEdges P C.live b (C.sc b) = .ok ()) : LeafGood P l := by
  refine ⟨?_, ?_, ?_⟩
  · -- noBadUse
    intro bs b hwk
    obtain ⟨hb, o, ho, hp⟩ := walk_inv hw hk C hE hwk
    obtain ⟨o1, _, ho1, _⟩ := block_ok hw hk C hb hp
    unfold Prog.trace at ho ⊢
    rw [List.flatMap_append, runEvs_append, ho]
    simp [ho1]
  · -- exitClean
    intro bs hwk
    obtain ⟨hb, o, ho, hp⟩ := walk_inv hw hk C hE hwk
    obtain ⟨o1, _, ho1, _⟩ := block_ok hw hk C hb hp
    unfold Prog.trace at ho ⊢
    rw [List.flatMap_append, runEvs_append, ho]
    simp only [List.flatMap_cons, List.flatMap_nil, List.append_nil, Option.bind]
    rw [ho1]
    have hne : P.exit ≠ P.entry := fun e => hw.entryNeExit e.symm
    have hpk := pre_kind hw hk C hp
    unfold Pre at hp
    simp only [hne, if_false] at hp
    have hev : P.blockEvs l P.exit =
        if l ∈ P.borrowedLeaves then [⟨Op.use, (P.rowLin P.exit).contains l⟩] else [] := by
      unfold Prog.blockEvs; rw [hw.exitStmts]; simp
    rw [hev] at ho1
    by_cases hbl : l ∈ P.borrowedLeaves
    · simp only [hbl, if_true] at ho1
      cases hkl : (P.rowLin P.exit).contains l with
      | true =>
        rw [hkl] at ho1
        cases o <;> simp [runEvs, Ev.step] at ho1
        rw [← ho1]
      | false =>
        rw [hkl] at ho1
        simp [runEvs, Ev.step] at ho1
        rw [← ho1]
        congr 1
        apply hpk
        intro hc
        have := (rowKind_true.mp hc).2
        simp [this] at hkl
    · simp only [hbl, if_false, runEvs] at ho1
      cases ho1
      cases ho' : o with
      | false => rfl
      | true =>
        exfalso
        rcases live_inv C.liveOK hw.closed hb (hp.mp ho').1 with h | ⟨_, c, hc, _⟩
        · have := blk_used_head hw C hb h
          rw [hev] at this
          simp [hbl] at this
        · rw [hw.exitSucc] at hc; cases hc
  · -- noLeak
    intro bs b hwk hrun
    obtain ⟨hb, o, ho, hp⟩ := walk_inv hw hk C hE hwk
    rw [hrun] at ho
    cases ho
    by_cases hbe : b = P.entry
    · subst hbe
      obtain ⟨_, h2⟩ := blk_run hw C (l := l) hb
      rw [(c0_entry hw).1, (c0_entry hw (l := l)).2] at h2
      have hp0 := hp
      unfold Pre at hp
      simp only [if_true] at hp
      have hlin : (P.rowLin P.entry).contains l = true := hp.symm
      have hrow : (P.row P.entry).contains l = true := by
        have := hk.rows _ hw.entryIn _ (by simpa using hlin : l ∈ P.rowLin P.entry)
        simpa using this
      rw [hrow, hlin] at h2
      cases hev : P.blockEvs l P.entry with
      | nil =>
        obtain ⟨o1, k1, ho1, _, hs, hi, hr⟩ := block_ok hw hk C hb hp0
        rw [hev] at ho1
        simp [runEvs] at ho1
        cases hsu : P.succ P.entry with
        | nil => exact absurd hsu (hw.cont _ hb hw.entryNeExit)
        | cons c cs =>
          have hcb : c ∈ P.succ P.entry := by rw [hsu]; exact List.mem_cons_self
          have hpc := edge_ok hw hk C hE hb hcb hp0 (hs c hcb) hi hr
          have hce : c ≠ P.entry := fun e => hw.entryNoPred _ hb (e ▸ hcb)
          unfold Pre at hpc
          simp only [hce, if_false] at hpc
          have hlc := (hpc.mp ho1).1
          rcases cont_of_live hw C (hw.closed _ hb c hcb) hlc with h | ⟨h1, f, f0, hf⟩
          · exact Or.inl (.later hev hcb h)
          · right
            refine ⟨h1, fun i => match i with | 0 => P.entry | i + 1 => f i, rfl, ?_⟩
            intro i
            cases i with
            | zero => exact ⟨hev, by simp only; rw [f0]; exact hcb⟩
            | succ i => exact hf i
      | cons e es =>
        rw [hev] at h2
        rcases e with ⟨op, el⟩
        cases op with
        | use => exact Or.inl (.here (by rw [hev]; rfl))
        | give =>
          have hri : l ∈ P.rowIds := mem_rowIds_of_row hb (by simpa using hrow)
          exact absurd rfl (blockEvs_notGive hw l hri hb ⟨Op.give, el⟩ (by rw [hev]; rfl))
        | asg => simp [crun, cstep] at h2
    · unfold Pre at hp
      simp only [hbe, if_false] at hp
      exact cont_of_live hw C hb (by simpa using hp : l ∈ C.live b ∧ _).1

theorem wf_of_wfb {P : Prog} (h : P.wfb = true) : P.WF := by
  unfold Prog.wfb at h
  simp only [Bool.and_eq_true, List.all_eq_true, List.contains_iff_mem, Bool.not_eq_true',
    bne_iff_ne, ne_eq, List.isEmpty_iff, Bool.or_eq_true, beq_iff_eq] at h
  obtain ⟨⟨⟨⟨⟨⟨⟨h0, h1⟩, h2⟩, h3⟩, h4⟩, h5⟩, h6⟩, h7⟩ := h
  refine ⟨h0, h1, h2, ?_, h4, h5, h6, ?_⟩
  · intro b hb hm
    have := h3 b hb
    simp [hm] at this
  · intro b hb hne hs
    rcases h7 b hb with h | h
    · exact hne h
    · simp [hs] at h

theorem accepts_iff {P : Prog} : accepts P = true ↔ checkCfg P = .ok () := by
  unfold accepts
  cases checkCfg P with
  | error e => simp
  | ok u => cases u; simp

/-- the path-independent ownership rules hold in every block that was checked -/
theorem static_ok {P : Prog} (hw : P.WF) (C : PreCert P) {b : Blk} (hb : b ∈ P.blocks) :
    ∀ st ∈ P.stmts b, st.StaticOK P :=
  (block_proj hw (l := 0) (C.scope b hb)).2.2

end GuppyVerif.Linearity
