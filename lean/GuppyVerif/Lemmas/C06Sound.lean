import GuppyVerif.Lemmas.C06Flow
/-! C06 helper lemmas, part 3: soundness.  An accepting run yields a certificate (`Cert`);
    along every walk from the entry the ownership state of each linear leaf on entering a block
    is "owned iff live" (`walk_inv`), from which the clauses of `LeafGood` follow. -/
namespace GuppyVerif.Linearity

open GuppyVerif.Dataflow (LiveSpec LivePath InfPath Edge)

/-- the scope table of pass 1 together with the place-level liveness computed from it -/
structure PreCert (P : Prog) where
  sc : Blk → Scope
  live : Blk → List Leaf
  init : List Leaf
  scope : ∀ b ∈ P.blocks, IsScope P b (sc b)
  liveOK : LiveOK P sc init live
  initSub : ∀ x ∈ init, x ∈ P.borrowedLeaves

/-- what an accepting run of `checkCfg` leaves behind: additionally all pass-2 checks passed -/
structure Cert (P : Prog) extends PreCert P where
  edges : ∀ b ∈ P.blocks, checkEdges P live b (sc b) = .ok ()

theorem cert_of_accept {P : Prog} (hc : ∀ b ∈ P.blocks, ∀ c ∈ P.succ b, c ∈ P.blocks)
    (h : checkCfg P = .ok ()) : Nonempty (Cert P) := by
  unfold checkCfg at h
  cases h1 : scopes P with
  | error e => simp [h1, bind, Except.bind] at h
  | ok tbl =>
    simp only [h1, bind, Except.bind] at h
    obtain ⟨s1, s2, s3⟩ := scopes_ok h1
    cases h2 : Dataflow.liveRun (flowCfg P (lookup tbl)) headSched
        (liveFuel (flowCfg P (lookup tbl)) (liveDefault P))
        (Dataflow.liveInit (flowCfg P (lookup tbl)) (liveDefault P)) with
    | none => simp [h2] at h
    | some t =>
      simp only [h2] at h
      rw [forM_ok] at h
      refine ⟨⟨⟨lookup tbl, t.vals, liveDefault P, s1, liveOK_of_run hc _ _ _ _ _ h2, ?_⟩, ?_⟩⟩
      · intro x hx
        unfold liveDefault at hx
        split at hx
        · cases hx
        · exact hx
      · intro b hb
        obtain ⟨q, hq, rfl⟩ := s3 b hb
        have := h q hq
        rw [(s2 q hq).2] at this
        exact this

section
variable {P : Prog} (hw : P.WF) (C : PreCert P) {l : Leaf} (hl : P.lin l = true)
include hw hl

/-- the bookkeeping state a block starts from -/
theorem c0_entry : (initScope P P.entry).proj l = ⟨(P.row P.entry).contains l, false, false⟩ ∧
    (initScope P P.entry).parent = [] := by
  simp [initScope, Scope.proj]

theorem c0_other {b : Blk} (hb : b ≠ P.entry) :
    (initScope P b).proj l = ⟨false, false, false⟩ ∧ (initScope P b).parent = P.row b := by
  simp [initScope, Scope.proj, hb]

theorem c0_usedParent (b : Blk) : ((initScope P b).proj l).usedParent = false := by
  by_cases hb : b = P.entry
  · subst hb; simp [initScope, Scope.proj]
  · simp [initScope, Scope.proj, hb]

/-- in a block that has a parent scope the leaf is not in `vars` initially; in the entry block
    nothing is ever used from a parent -/
theorem blk_run {b : Blk} (hb : b ∈ P.blocks) :
    (C.sc b).parent = (initScope P b).parent ∧
    crun ((initScope P b).parent.contains l) ((initScope P b).proj l) (P.blockEvs l b) = some ((C.sc b).proj l) :=
  let h := block_proj hw hl (C.scope b hb)
  ⟨h.1, h.2.1⟩

theorem entry_no_usedParent (hb : P.entry ∈ P.blocks) : l ∉ (C.sc P.entry).usedParent := by
  obtain ⟨_, h2⟩ := blk_run hw C hl hb
  have h0 := c0_entry (P := P) hw (l := l) hl
  rw [h0.2] at h2
  have := (crun_mono h2).2.2.2 (by simp)
  rw [c0_usedParent hw hl] at this
  intro hm
  simp [Scope.proj, hm] at this

theorem blk_used_head {b : Blk} (hb : b ∈ P.blocks) (hu : l ∈ (C.sc b).usedParent) :
    (P.blockEvs l b).head? = some Ev.use := by
  obtain ⟨_, h2⟩ := blk_run hw C hl hb
  by_cases he : b = P.entry
  · subst he; exact absurd hu (entry_no_usedParent hw C hl hb)
  · refine crun_usedParent_head h2 ?_ (c0_usedParent hw hl b) (by simp [Scope.proj, hu])
    rw [(c0_other hw hl he).1]

theorem blk_untouched {b : Blk} (hb : b ∈ P.blocks) (hv : l ∉ (C.sc b).vars) (hu : l ∉ (C.sc b).usedParent) :
    P.blockEvs l b = [] := by
  obtain ⟨_, h2⟩ := blk_run hw C hl hb
  refine crun_untouched h2 (by simp [Scope.proj, hv]) (by simp [Scope.proj, hu]) ?_
  cases hc : ((initScope P b).proj l).inVars with
  | false => rfl
  | true =>
    have := (crun_mono h2).1 hc
    simp [Scope.proj, hv] at this

/-- ownership state on entering a block, along any walk -/
def Pre (b : Blk) (o : Bool) : Prop :=
  if b = P.entry then o = P.initOwned l else (o = true ↔ l ∈ C.live b)

/-- `Scope.used` read off the projection -/
theorem used_proj (s : Scope) :
    s.used l = if (s.proj l).inVars then some (s.proj l).usedLocal
      else if l ∈ s.parent then some (s.proj l).usedParent else none := by
  unfold Scope.used Scope.proj
  simp

/-- running a block from a state that satisfies `Pre` is fine, and the state afterwards is
    determined by the bookkeeping -/
theorem block_ok {b : Blk} (hb : b ∈ P.blocks) {o : Bool} (hp : Pre C (l := l) b o) :
    ∃ o1, runEvs o (P.blockEvs l b) = some o1 ∧ Rel o ((C.sc b).proj l) o1 := by
  obtain ⟨hpar, h2⟩ := blk_run hw C hl hb
  refine sim _ _ _ o h2 ?_ ?_ ?_
  · -- Rel o c0 o
    by_cases he : b = P.entry
    · subst he
      rw [(c0_entry hw hl).1]
      unfold Pre at hp
      simp only [if_true] at hp
      unfold Rel
      by_cases hr : (P.row P.entry).contains l = true
      · simp [hr, hp, Prog.initOwned]
      · simp only [hr]
        simp
    · rw [(c0_other hw hl he).1]
      simp [Rel]
  · intro h1 _
    by_cases he : b = P.entry
    · subst he
      exact absurd (by simpa [Scope.proj] using h1) (entry_no_usedParent hw C hl hb)
    · unfold Pre at hp
      simp only [he, if_false] at hp
      exact hp.mpr (live_of_used C.liveOK hb (by simpa [Scope.proj] using h1))
  · intro h1 h2' h3
    by_cases he : b = P.entry
    · subst he
      rw [(c0_entry hw hl).1] at h3
      unfold Pre at hp
      simp only [if_true] at hp
      rw [hp]; exact h3
    · unfold Pre at hp
      simp only [he, if_false] at hp
      cases ho : o with
      | false => rfl
      | true =>
        exfalso
        rcases live_inv C.liveOK hw.closed hb (hp.mp ho) with h | ⟨h, _⟩
        · simp [Scope.proj, h] at h2'
        · simp [Scope.proj, h] at h1

/-- the state after a block satisfies `Pre` at every successor: owned iff live -/
theorem edge_ok (hE : ∀ b ∈ P.blocks, checkEdges P C.live b (C.sc b) = .ok ()) {b c : Blk} (hb : b ∈ P.blocks) (hcb : c ∈ P.succ b) {o o1 : Bool}
    (hp : Pre C (l := l) b o) (hr : Rel o ((C.sc b).proj l) o1) : Pre C (l := l) c o1 := by
  have hce : c ≠ P.entry := fun e => hw.entryNoPred b hb (e ▸ hcb)
  obtain ⟨ha, hbk⟩ := checkEdges_ok (hE b hb)
  obtain ⟨hpar, h2⟩ := blk_run hw C hl hb
  unfold Pre
  simp only [hce, if_false]
  have hu := used_proj hw hl (C.sc b)
  unfold Rel at hr
  constructor
  · intro ho1
    subst ho1
    cases hv : ((C.sc b).proj l).inVars with
    | true =>
      simp only [hv, if_true] at hr hu
      have hul : ((C.sc b).proj l).usedLocal = false := by
        cases h : ((C.sc b).proj l).usedLocal <;> simp [h] at hr ⊢
      rw [hul] at hu
      exact hbk l (Or.inl (by simpa [Scope.proj] using hv)) hl (Or.inr (by simpa [Scope.proj] using hv)) hu c hcb
    | false =>
      simp only [hv, Bool.false_eq_true, if_false] at hr hu
      cases hup : ((C.sc b).proj l).usedParent with
      | true => simp [hup] at hr
      | false =>
        simp only [hup, Bool.false_eq_true, if_false] at hr
        -- o = true, so the leaf is live on entry to b
        have hbe : b ≠ P.entry := by
          intro e
          subst e
          unfold Pre at hp
          simp only [if_true] at hp
          have h0 := (c0_entry hw hl).1
          have : ((initScope P P.entry).proj l).inVars = true := by
            rw [h0]
            show (P.row P.entry).contains l = true
            rw [← hr] at hp
            exact hp.symm
          have := (crun_mono h2).1 this
          rw [hv] at this; cases this
        unfold Pre at hp
        simp only [hbe, if_false] at hp
        have hlb : l ∈ C.live b := hp.mp hr.symm
        rcases live_inv C.liveOK hw.closed hb hlb with h | ⟨_, c', hc', hlc'⟩
        · simp [Scope.proj, h] at hup
        · have hu' := ha c' hc' l hlc' hl
          rw [hu] at hu'
          by_cases hpm : l ∈ (C.sc b).parent
          · simp only [hpm, if_true, hup] at hu hu'
            exact hbk l (Or.inr hpm) hl (Or.inl hlb) (by rw [hu]) c hcb
          · simp [hpm] at hu'
  · intro hlc
    have hu' := ha c hcb l hlc hl
    rw [hu] at hu'
    cases hv : ((C.sc b).proj l).inVars with
    | true =>
      simp only [hv, if_true] at hr hu'
      rw [hr]
      simp at hu'
      simp [hu']
    | false =>
      simp only [hv, Bool.false_eq_true, if_false] at hr hu'
      by_cases hpm : l ∈ (C.sc b).parent
      · simp only [hpm, if_true] at hu'
        simp at hu'
        simp only [hu', Bool.false_eq_true, if_false] at hr
        have hbe : b ≠ P.entry := by
          intro e
          subst e
          rw [hpar, (c0_entry hw hl).2] at hpm
          cases hpm
        unfold Pre at hp
        simp only [hbe, if_false] at hp
        rw [hr]
        exact hp.mpr (live_of_succ C.liveOK hw.closed hb hcb hlc (by simpa [Scope.proj] using hv))
      · simp [hpm] at hu'

/-- **the invariant**: along every walk the leaf is owned on entering a block iff it is live there -/
theorem walk_inv (hE : ∀ b ∈ P.blocks, checkEdges P C.live b (C.sc b) = .ok ()) {bs : List Blk} {b : Blk} (h : Walk P bs b) :
    b ∈ P.blocks ∧ ∃ o, runEvs (P.initOwned l) (P.trace l bs) = some o ∧ Pre C (l := l) b o := by
  induction h with
  | entry =>
    refine ⟨hw.entryIn, P.initOwned l, by simp [Prog.trace, runEvs], ?_⟩
    simp [Pre]
  | @step bs b c _ hcb ih =>
    obtain ⟨hb, o, ho, hp⟩ := ih
    obtain ⟨o1, ho1, hr⟩ := block_ok hw C hl hb hp
    refine ⟨hw.closed b hb c hcb, o1, ?_, edge_ok hw C hl hE hb hcb hp hr⟩
    unfold Prog.trace at ho ⊢
    rw [List.flatMap_append, runEvs_append, ho]
    simpa using ho1

end

/-! ### a lent leaf is handed back only after it was taken: no block starts with `give` -/

theorem mem_leafEvs {e x : Ev} {l : Leaf} {ls : List Leaf} (h : x ∈ leafEvs e l ls) : x = e := by
  unfold leafEvs at h
  simp only [List.mem_flatMap] at h
  obtain ⟨y, _, hy⟩ := h
  split at hy <;> simp at hy
  exact hy

theorem mem_placesEvs {e x : Ev} {l : Leaf} {ps : List Place} (h : x ∈ placesEvs e l ps) : x = e := by
  unfold placesEvs at h
  simp only [List.mem_flatMap] at h
  obtain ⟨p, _, hp⟩ := h
  exact mem_leafEvs hp

theorem leafEvs_eq_nil {e : Ev} {l : Leaf} {ls : List Leaf} : leafEvs e l ls = [] ↔ l ∉ ls := by
  unfold leafEvs
  simp only [List.flatMap_eq_nil_iff]
  constructor
  · intro h hm
    have := h l hm
    simp at this
  · intro h x hx
    have : x ≠ l := fun e => h (e ▸ hx)
    simp [this]

theorem placesEvs_eq_nil {e : Ev} {l : Leaf} {ps : List Place} :
    placesEvs e l ps = [] ↔ ∀ p ∈ ps, l ∉ p.leaves := by
  unfold placesEvs
  simp only [List.flatMap_eq_nil_iff, leafEvs_eq_nil]

theorem head_ne_give_of_all {es : List Ev} {e : Ev} (he : e ≠ Ev.give) (h : ∀ x ∈ es, x = e) :
    es.head? ≠ some Ev.give := by
  cases es with
  | nil => simp
  | cons x es =>
    simp only [List.head?_cons, ne_eq, Option.some.injEq]
    rw [h x List.mem_cons_self]; exact he

theorem head_append_ne_give {es fs : List Ev} (h1 : es.head? ≠ some Ev.give)
    (h2 : es = [] → fs.head? ≠ some Ev.give) : (es ++ fs).head? ≠ some Ev.give := by
  cases es with
  | nil => simpa using h2 rfl
  | cons x es => simpa using h1

theorem stmt_head_ne_give (l : Leaf) (st : Stmt) : (st.evs l).head? ≠ some Ev.give := by
  cases st with
  | move tgts srcs =>
    exact head_append_ne_give (head_ne_give_of_all (by decide) fun x hx => mem_placesEvs hx)
      fun _ => head_ne_give_of_all (by decide) fun x hx => mem_placesEvs hx
  | call tgts args d =>
    simp only [Stmt.evs, List.append_assoc]
    refine head_append_ne_give (head_ne_give_of_all (by decide) fun x hx => mem_placesEvs hx) fun hnil => ?_
    have hg : placesEvs .give l ((args.filter Arg.isInout).map Arg.place) = [] := by
      rw [placesEvs_eq_nil] at hnil ⊢
      intro p hp
      simp only [List.mem_map, List.mem_filter] at hp
      obtain ⟨a, ⟨ha, _⟩, rfl⟩ := hp
      exact hnil a.place (List.mem_map.mpr ⟨a, ha, rfl⟩)
    rw [hg]
    simpa using head_ne_give_of_all (e := Ev.asg) (by decide) fun x hx => mem_placesEvs hx
  | ret srcs => exact head_ne_give_of_all (by decide) fun x hx => mem_placesEvs hx

theorem flatMap_head_ne_give {α : Type} (f : α → List Ev) (h : ∀ a, (f a).head? ≠ some Ev.give) :
    ∀ as : List α, (as.flatMap f).head? ≠ some Ev.give := by
  intro as
  induction as with
  | nil => simp
  | cons a as ih =>
    rw [List.flatMap_cons]
    exact head_append_ne_give (h a) fun _ => ih

theorem blockEvs_head_ne_give (P : Prog) (l : Leaf) (b : Blk) : (P.blockEvs l b).head? ≠ some Ev.give := by
  unfold Prog.blockEvs
  refine head_append_ne_give (flatMap_head_ne_give _ (stmt_head_ne_give l) _) fun _ => ?_
  split <;> simp

section
variable {P : Prog} (hw : P.WF) (C : PreCert P) {l : Leaf} (hl : P.lin l = true)
include hw C hl

/-! ### from the liveness result to continuations of the program -/

theorem willUse_of_livePath {b : Blk} (hb : b ∈ P.blocks) (h : LivePath (flowCfg P C.sc) l b) :
    WillUse P l b := by
  induction h with
  | use hu => exact .here (blk_used_head hw C hl hb hu)
  | @step b c hna he _ ih =>
    obtain ⟨_, hcb⟩ := flow_edge.mp he
    by_cases hu : l ∈ (C.sc b).usedParent
    · exact .here (blk_used_head hw C hl hb hu)
    · exact .later (blk_untouched hw C hl hb hna hu) hcb (ih (hw.closed b hb c hcb))

theorem inf_blocks {f : Nat → Blk} (h0 : f 0 ∈ P.blocks)
    (hf : ∀ i, l ∉ (flowCfg P C.sc).assigned (f i) ∧ Edge (flowCfg P C.sc) (f i) (f (i + 1))) :
    ∀ i, f i ∈ P.blocks := by
  intro i
  induction i with
  | zero => exact h0
  | succ i ih => exact hw.closed _ ih _ (flow_edge.mp (hf i).2).2

theorem willUse_of_inf_use : ∀ (i : Nat) (f : Nat → Blk), f 0 ∈ P.blocks →
    (∀ j, l ∉ (flowCfg P C.sc).assigned (f j) ∧ Edge (flowCfg P C.sc) (f j) (f (j + 1))) →
    l ∈ (C.sc (f i)).usedParent → WillUse P l (f 0) := by
  intro i
  induction i with
  | zero => intro f h0 _ hu; exact .here (blk_used_head hw C hl h0 hu)
  | succ i ih =>
    intro f h0 hf hu
    have h1 : f 1 ∈ P.blocks := hw.closed _ h0 _ (flow_edge.mp (hf 0).2).2
    have := ih (fun j => f (j + 1)) h1 (fun j => hf (j + 1)) hu
    by_cases hu0 : l ∈ (C.sc (f 0)).usedParent
    · exact .here (blk_used_head hw C hl h0 hu0)
    · exact .later (blk_untouched hw C hl h0 (hf 0).1 hu0) (flow_edge.mp (hf 0).2).2 this

/-- a live leaf is read on some continuation, or is a borrowed leaf on a path that never returns -/
theorem cont_of_live {b : Blk} (hb : b ∈ P.blocks) (h : l ∈ C.live b) :
    WillUse P l b ∨ (l ∈ P.borrowedLeaves ∧ MayIdle P l b) := by
  rcases (C.liveOK b hb l).mp h with h | ⟨hi, f, f0, hf⟩
  · exact Or.inl (willUse_of_livePath hw C hl hb h)
  · by_cases hex : ∃ i, l ∈ (C.sc (f i)).usedParent
    · obtain ⟨i, hu⟩ := hex
      left
      have := willUse_of_inf_use hw C hl i f (f0 ▸ hb) hf hu
      rwa [f0] at this
    · right
      refine ⟨C.initSub l hi, f, f0, fun i => ⟨?_, (flow_edge.mp (hf i).2).2⟩⟩
      have hbi := inf_blocks hw C hl (f0 ▸ hb) hf i
      exact blk_untouched hw C hl hbi (hf i).1 (fun hu => hex ⟨i, hu⟩)

/-- a walk that ends in the entry block has not left it -/
theorem walk_entry {bs : List Blk} {b : Blk} (h : Walk P bs b) : b ∈ P.blocks ∧ (b = P.entry → bs = []) := by
  induction h with
  | entry => exact ⟨hw.entryIn, fun _ => rfl⟩
  | @step bs b c _ hcb ih =>
    exact ⟨hw.closed b ih.1 c hcb, fun e => absurd (e ▸ hcb) (hw.entryNoPred b ih.1)⟩

theorem leafGood (hE : ∀ b ∈ P.blocks, checkEdges P C.live b (C.sc b) = .ok ()) : LeafGood P l := by
  refine ⟨?_, ?_, ?_⟩
  · -- noBadUse
    intro bs b hwk
    obtain ⟨hb, o, ho, hp⟩ := walk_inv hw C hl hE hwk
    obtain ⟨o1, ho1, _⟩ := block_ok hw C hl hb hp
    unfold Prog.trace at ho ⊢
    rw [List.flatMap_append, runEvs_append, ho]
    simp [ho1]
  · -- exitClean
    intro bs hwk
    obtain ⟨hb, o, ho, hp⟩ := walk_inv hw C hl hE hwk
    obtain ⟨o1, ho1, _⟩ := block_ok hw C hl hb hp
    unfold Prog.trace at ho ⊢
    rw [List.flatMap_append, runEvs_append, ho]
    simp only [List.flatMap_cons, List.flatMap_nil, List.append_nil, Option.bind]
    rw [ho1]
    have hne : P.exit ≠ P.entry := fun e => hw.entryNeExit e.symm
    unfold Pre at hp
    simp only [hne, if_false] at hp
    have hev : P.blockEvs l P.exit = if l ∈ P.borrowedLeaves then [Ev.use] else [] := by
      unfold Prog.blockEvs; rw [hw.exitStmts]; simp
    rw [hev] at ho1
    by_cases hbl : l ∈ P.borrowedLeaves
    · simp only [hbl, if_true] at ho1
      cases o <;> simp [runEvs, Ev.step] at ho1
      rw [← ho1]
    · simp only [hbl, if_false, runEvs] at ho1
      cases ho1
      cases ho' : o with
      | false => rfl
      | true =>
        exfalso
        rcases live_inv C.liveOK hw.closed hb (hp.mp ho') with h | ⟨_, c, hc, _⟩
        · have := blk_used_head hw C hl hb h
          rw [hev] at this
          simp [hbl] at this
        · rw [hw.exitSucc] at hc; cases hc
  · -- noLeak
    intro bs b hwk hrun
    obtain ⟨hb, o, ho, hp⟩ := walk_inv hw C hl hE hwk
    rw [hrun] at ho
    cases ho
    by_cases hbe : b = P.entry
    · subst hbe
      have hbs := (walk_entry hw C hl hwk).2 rfl
      obtain ⟨_, h2⟩ := blk_run hw C hl hb
      rw [(c0_entry hw hl).1, (c0_entry hw hl).2] at h2
      unfold Pre at hp
      simp only [if_true] at hp
      have hrow : (P.row P.entry).contains l = true := hp.symm
      rw [hrow] at h2
      cases hev : P.blockEvs l P.entry with
      | nil =>
        -- untouched in the entry block: still owned at its end, so live in every successor
        obtain ⟨o1, ho1, hr⟩ := block_ok hw C hl hb (by unfold Pre; simp only [if_true]; exact hp)
        rw [hev] at ho1 h2
        simp [runEvs] at ho1
        simp [crun] at h2
        cases hs : P.succ P.entry with
        | nil => exact absurd hs (hw.cont _ hb hw.entryNeExit)
        | cons c cs =>
          have hcb : c ∈ P.succ P.entry := by rw [hs]; exact List.mem_cons_self
          have hpc := edge_ok hw C hl hE hb hcb (by unfold Pre; simp only [if_true]; exact hp) hr
          have hce : c ≠ P.entry := fun e => hw.entryNoPred _ hb (e ▸ hcb)
          unfold Pre at hpc
          simp only [hce, if_false] at hpc
          have hlc := hpc.mp ho1
          rcases cont_of_live hw C hl (hw.closed _ hb c hcb) hlc with h | ⟨h1, f, f0, hf⟩
          · exact Or.inl (.later hev hcb h)
          · right
            refine ⟨h1, fun i => match i with | 0 => P.entry | i + 1 => f i, rfl, ?_⟩
            intro i
            cases i with
            | zero => exact ⟨hev, by simp only; rw [f0]; exact hcb⟩
            | succ i => exact hf i
      | cons e es =>
        rw [hev] at h2
        cases e with
        | use => exact Or.inl (.here (by rw [hev]; rfl))
        | give => exact absurd (by rw [hev]; rfl) (blockEvs_head_ne_give P l P.entry)
        | asg => simp [crun, cstep] at h2
    · unfold Pre at hp
      simp only [hbe, if_false] at hp
      exact cont_of_live hw C hl hb (by simpa using hp)

end

theorem walk_blocks {P : Prog} (hw : P.WF) {bs : List Blk} {b : Blk} (h : Walk P bs b) : b ∈ P.blocks := by
  induction h with
  | entry => exact hw.entryIn
  | step _ hcb ih => exact hw.closed _ ih _ hcb

theorem wf_of_wfb {P : Prog} (h : P.wfb = true) : P.WF := by
  unfold Prog.wfb at h
  simp only [Bool.and_eq_true, List.all_eq_true, List.contains_iff_mem, Bool.not_eq_true',
    bne_iff_ne, ne_eq, List.isEmpty_iff, Bool.or_eq_true, beq_iff_eq] at h
  obtain ⟨⟨⟨⟨⟨⟨h1, h2⟩, h3⟩, h4⟩, h5⟩, h6⟩, h7⟩ := h
  refine ⟨h1, h2, ?_, h4, h5, h6, ?_⟩
  · intro b hb hm
    have := h3 b hb
    simp [hm] at this
  · intro b hb hne hs
    rcases h7 b hb with h | h
    · exact hne h
    · simp [hs] at h

theorem accepts_iff {P : Prog} : accepts P = true ↔ checkCfg P = .ok () := by
  unfold accepts
  cases checkCfg P with
  | error e => simp
  | ok u => cases u; simp

/-- the path-independent ownership rules hold in every block that was checked -/
theorem static_ok {P : Prog} (C : PreCert P) {b : Blk} (hb : b ∈ P.blocks) :
    ∀ st ∈ P.stmts b, st.StaticOK P := by
  obtain ⟨s0, h0, _⟩ := C.scope b hb
  exact checkBlock_static h0

end GuppyVerif.Linearity
