import GuppyVerif.Spec.C27
/-! Helper lemmas for C27: cell operations, the prefix representation `Rep`, and the Stack
    refinement. -/
namespace GuppyVerif.Coll
variable {β : Type}

theorem swap_of_get {buf : List (Option β)} {i : Nat} {o new : Option β} (h : buf[i]? = some o) :
    swap buf i new = .ok (o, buf.set i new) := by
  obtain ⟨hi, rfl⟩ := List.getElem?_eq_some_iff.mp h
  simp [swap, hi, pure, Except.pure]

theorem takeUnwrap_of_get {buf : List (Option β)} {i : Nat} {x : β} (h : buf[i]? = some (some x)) :
    takeUnwrap buf i = .ok (x, buf.set i none) := by
  simp [takeUnwrap, take, swap_of_get h, unwrap, bind, Except.bind, pure, Except.pure]

theorem put_of_get {buf : List (Option β)} {i : Nat} {x : β} (h : buf[i]? = some none) :
    put buf i x = .ok (buf.set i (some x)) := by
  simp [put, swap_of_get h, unwrapNothing, bind, Except.bind, pure, Except.pure]

theorem read_of_get {buf : List (Option β)} {i : Nat} {o : Option β} (h : buf[i]? = some o) :
    read buf i = .ok o := by
  obtain ⟨hi, rfl⟩ := List.getElem?_eq_some_iff.mp h
  simp [read, hi, pure, Except.pure]

/-- representation: the first `a.length` cells hold the entries of `a` in order, all other cells
    are `nothing` (`a[j]?` is `none` beyond `a.length`). -/
def Rep (cap : Nat) (buf : List (Option β)) (a : List β) : Prop :=
  buf.length = cap ∧ a.length ≤ cap ∧ ∀ j, j < cap → buf[j]? = some a[j]?

theorem Rep.empty (cap : Nat) : Rep cap (List.replicate cap (none : Option β)) [] := by
  refine ⟨by simp, by simp, fun j hj => ?_⟩
  simp [hj]

theorem Rep.push {cap : Nat} {buf : List (Option β)} {a : List β} (h : Rep cap buf a)
    (hl : a.length < cap) (x : β) :
    put buf a.length x = .ok (buf.set a.length (some x)) ∧
      Rep cap (buf.set a.length (some x)) (a ++ [x]) := by
  obtain ⟨h1, h2, h3⟩ := h
  have := h3 a.length hl
  refine ⟨put_of_get (by simpa using this), by simpa using h1, by simp; omega, fun j hj => ?_⟩
  rw [List.getElem?_set]
  by_cases hj' : a.length = j
  · subst hj'; simp [h1, hl]
  · simp only [hj', if_false]
    rw [h3 j hj]
    by_cases hlt : j < a.length
    · simp [List.getElem?_append_left hlt]
    · have : a.length < j := by omega
      simp [List.getElem?_append_right (Nat.le_of_lt this), List.getElem?_eq_none (Nat.le_of_lt this)]
      omega

theorem Rep.popLast {cap : Nat} {buf : List (Option β)} {a : List β} {x : β}
    (h : Rep cap buf (a ++ [x])) :
    takeUnwrap buf a.length = .ok (x, buf.set a.length none) ∧ read buf a.length = .ok (some x) ∧
      Rep cap (buf.set a.length none) a := by
  obtain ⟨h1, h2, h3⟩ := h
  simp at h2
  have hg : buf[a.length]? = some (some x) := by rw [h3 _ (by omega)]; simp
  refine ⟨takeUnwrap_of_get hg, read_of_get hg, by simpa using h1, by omega, fun j hj => ?_⟩
  rw [List.getElem?_set]
  by_cases hj' : a.length = j
  · subst hj'; simp [h1]; omega
  · simp only [hj', if_false]
    rw [h3 j hj]
    by_cases hlt : j < a.length
    · simp [List.getElem?_append_left hlt]
    · have : a.length < j := by omega
      simp [List.getElem?_eq_none (Nat.le_of_lt this)]
      omega

theorem allNothing_replicate (n : Nat) : allNothing (List.replicate n (none : Option β)) = .ok () := by
  induction n with
  | zero => rfl
  | succ n ih =>
    simp [List.replicate_succ, allNothing, unwrapNothing, ih, bind, Except.bind, pure, Except.pure]

/-- a buffer representing `a` is literally `a` as `some`s followed by `nothing`s -/
theorem Rep.eq_append {cap : Nat} {buf : List (Option β)} {a : List β} (h : Rep cap buf a) :
    buf = a.map some ++ List.replicate (cap - a.length) none := by
  obtain ⟨h1, h2, h3⟩ := h
  apply List.ext_getElem?
  intro j
  by_cases hj : j < cap
  · rw [h3 j hj]
    by_cases hlt : j < a.length
    · rw [List.getElem?_append_left (by simpa using hlt)]; simp [hlt]
    · rw [List.getElem?_append_right (by simpa using Nat.le_of_not_lt hlt)]
      have hlt' : j - a.length < cap - a.length := by omega
      simp [List.getElem?_eq_none (Nat.le_of_not_lt hlt), hlt']
  · have : cap ≤ j := Nat.le_of_not_lt hj
    rw [List.getElem?_eq_none (by omega), List.getElem?_eq_none (by simp; omega)]

theorem Rep.nil_eq {cap : Nat} {buf : List (Option β)} (h : Rep cap buf []) :
    buf = List.replicate cap none := by
  simpa using h.eq_append

/-- the stored entries of a represented buffer are exactly `a` -/
theorem Rep.entries_eq {cap : Nat} {buf : List (Option β)} {a : List β} (h : Rep cap buf a) :
    entries buf = a := by
  rw [h.eq_append, entries, List.filterMap_append]
  have h1 : List.filterMap id (List.map some a) = a := by
    rw [List.filterMap_map]; simp
  have h2 : List.filterMap id (List.replicate (cap - a.length) (none : Option β)) = [] := by
    simp
  rw [h1, h2, List.append_nil]

theorem Rep.slots {cap : Nat} {buf : List (Option β)} {a : List β} (h : Rep cap buf a) :
    Slots cap buf a.length := by
  obtain ⟨h1, h2, h3⟩ := h
  refine ⟨h1, h2, fun j hj => ⟨a[j], ?_⟩, fun j hj hc => ?_⟩
  · rw [h3 j (by omega)]; simp [hj]
  · rw [h3 j hc]; simp [List.getElem?_eq_none hj]

/-! ## Stack -/
variable {α : Type}

/-- a stack state represents the bottom-first list `b` -/
def StackRep (cap : Nat) (s : Stack α) (b : List α) : Prop := s.end_ = b.length ∧ Rep cap s.buf b

theorem StackRep.empty (cap : Nat) : StackRep cap (Stack.empty cap : Stack α) [] :=
  ⟨rfl, Rep.empty cap⟩

theorem StackRep.push_full {cap : Nat} {s : Stack α} {b : List α} (h : StackRep cap s b)
    (hl : cap ≤ b.length) (x : α) : s.push cap x = .error .capacity := by
  have : s.end_ ≥ cap := by rw [h.1]; exact hl
  simp [Stack.push, this, bind, Except.bind, throw, throwThe, MonadExceptOf.throw]

theorem StackRep.push_ok {cap : Nat} {s : Stack α} {b : List α} (h : StackRep cap s b)
    (hl : b.length < cap) (x : α) :
    ∃ s', s.push cap x = .ok s' ∧ StackRep cap s' (b ++ [x]) := by
  obtain ⟨he, hr⟩ := h
  obtain ⟨hp, hr'⟩ := hr.push hl x
  have : ¬ s.end_ ≥ cap := by rw [he]; omega
  refine ⟨⟨s.buf.set b.length (some x), s.end_ + 1⟩, ?_, ?_, hr'⟩
  · simp [Stack.push, he, hp, bind, Except.bind, pure, Except.pure]
    omega
  · simp [he]

theorem StackRep.pop_empty {cap : Nat} {s : Stack α} (h : StackRep cap s []) :
    s.pop = .error .empty ∧ s.peek = .error .empty ∧ s.next = .ok none := by
  obtain ⟨he, hr⟩ := h
  simp at he
  refine ⟨?_, ?_, ?_⟩
  · simp [Stack.pop, he, bind, Except.bind, throw, throwThe, MonadExceptOf.throw]
  · simp [Stack.peek, he, bind, Except.bind, throw, throwThe, MonadExceptOf.throw]
  · simp [Stack.next, Stack.len, Stack.discardEmpty, he, hr.nil_eq, allNothing_replicate, bind,
      Except.bind, pure, Except.pure]

theorem StackRep.pop_ok {cap : Nat} {s : Stack α} {b : List α} {x : α}
    (h : StackRep cap s (b ++ [x])) :
    (∃ s', s.pop = .ok (x, s') ∧ s.next = .ok (some (x, s')) ∧ StackRep cap s' b) ∧
      s.peek = .ok (x, s) := by
  obtain ⟨he, hr⟩ := h
  simp at he
  obtain ⟨ht, hrd, hr'⟩ := hr.popLast
  have h0 : ¬ s.end_ ≤ 0 := by omega
  have h1 : s.end_ - 1 = b.length := by omega
  have hpop : s.pop = .ok (x, ⟨s.buf.set b.length none, b.length⟩) := by
    simp [Stack.pop, h0, h1, ht, bind, Except.bind, pure, Except.pure]
  refine ⟨⟨⟨s.buf.set b.length none, b.length⟩, hpop, ?_, rfl, hr'⟩, ?_⟩
  · have : (s.len == 0) = false := by simp [Stack.len]; omega
    simp [Stack.next, this, hpop, bind, Except.bind, pure, Except.pure]
  · simp [Stack.peek, h0, h1, hrd, unwrap, bind, Except.bind, pure, Except.pure]

theorem nil_or_snoc (b : List α) : b = [] ∨ ∃ b' x, b = b' ++ [x] := by
  rcases List.eq_nil_or_concat b with h | ⟨b', x, h⟩
  · exact Or.inl h
  · exact Or.inr ⟨b', x, by simpa using h⟩

/-- simulation: from related states the concrete run equals the list machine's run -/
theorem runStack_eq_spec (cap : Nat) (ops : List (Op α)) :
    ∀ (s : Stack α) (b : List α), StackRep cap s b → runStack cap s ops = specStack cap b.reverse ops := by
  induction ops with
  | nil => intro s b _; rfl
  | cons op ops ih =>
    intro s b h
    cases op with
    | push v p =>
      by_cases hl : cap ≤ b.length
      · simp [runStack, specStack, h.push_full hl v, hl]
      · obtain ⟨s', hp, hr'⟩ := h.push_ok (Nat.lt_of_not_le hl) v
        have := ih s' _ hr'
        simp [runStack, specStack, hp, hl, this]
    | pop =>
      rcases nil_or_snoc b with rfl | ⟨b', x, rfl⟩
      · simp [runStack, specStack, h.pop_empty.1]
      · obtain ⟨⟨s', hp, _, hr'⟩, _⟩ := h.pop_ok
        simp [runStack, specStack, hp, ih s' _ hr']
    | peek =>
      rcases nil_or_snoc b with rfl | ⟨b', x, rfl⟩
      · simp [runStack, specStack, h.pop_empty.2.1]
      · have := ih s _ h
        simp at this
        simp [runStack, specStack, h.pop_ok.2, this]
    | len =>
      have := ih s _ h
      simp [runStack, specStack, Stack.len, h.1, this]
    | next =>
      rcases nil_or_snoc b with rfl | ⟨b', x, rfl⟩
      · simp [runStack, specStack, h.pop_empty.2.2]
      · obtain ⟨⟨s', _, hn, hr'⟩, _⟩ := h.pop_ok
        simp [runStack, specStack, hn, ih s' _ hr']

end GuppyVerif.Coll
