import GuppyVerif.Lemmas.C12Sound
import GuppyVerif.Lemmas.C12Shape
/-! Lemmas for C12, part 9: the literal reading of the flag clause (`norm`, `LinEq`) — basic facts and
    soundness of `unify` for assignments that do not change linearity (`LinInv`). -/
namespace GuppyVerif.Unify

theorem normList_eq (E : Env) (as : List Tm) : normList E as = as.map (norm E) := by
  induction as with
  | nil => rfl
  | cons a as ih => simp [normList, ih]

theorem copyableArgs_congr (E : Env) (f : Tm → Tm) : ∀ as : List Tm,
    (∀ a ∈ as, copyable E (f a) = copyable E a) → copyableArgs E (as.map f) = copyableArgs E as := by
  intro as
  induction as with
  | nil => intro _; rfl
  | cons a as ih =>
    intro h
    simp only [List.map, copyableArgs]
    rw [h a (by simp), ih (fun b hb => h b (by simp [hb]))]

theorem droppableArgs_congr (E : Env) (f : Tm → Tm) : ∀ as : List Tm,
    (∀ a ∈ as, droppable E (f a) = droppable E a) → droppableArgs E (as.map f) = droppableArgs E as := by
  intro as
  induction as with
  | nil => intro _; rfl
  | cons a as ih =>
    intro h
    simp only [List.map, droppableArgs]
    rw [h a (by simp), ih (fun b hb => h b (by simp [hb]))]

theorem copyable_norm (E : Env) : ∀ t : Tm, copyable E (norm E t) = copyable E t := by
  intro t
  induction t using Tm.induct with
  | var v => rfl
  | atom a => rfl
  | node h as ih =>
    cases h <;> simp only [norm, normH, copyable, normList_eq] <;> rw [copyableArgs_congr E _ as ih]
  | targ t ih => simpa [norm, copyable] using ih
  | carg t _ => simp [norm, copyable]

theorem droppable_norm (E : Env) : ∀ t : Tm, droppable E (norm E t) = droppable E t := by
  intro t
  induction t using Tm.induct with
  | var v => rfl
  | atom a => rfl
  | node h as ih =>
    cases h <;> simp only [norm, normH, droppable, normList_eq] <;> rw [droppableArgs_congr E _ as ih]
  | targ t ih => simpa [norm, droppable] using ih
  | carg t _ => simp [norm, droppable]

theorem linear_norm (E : Env) (t : Tm) : linear E (norm E t) = linear E t := by
  simp [linear, copyable_norm, droppable_norm]

/-- `LinEq` terms are equally linear -/
theorem LinEq.linear {E : Env} {a b : Tm} (h : LinEq E a b) : linear E a = linear E b := by
  rw [← linear_norm E a, ← linear_norm E b, h]

theorem normFlags_length (E : Env) : ∀ (fl : List Nat) (as : List Tm), (normFlags E fl as).length = fl.length := by
  intro fl
  induction fl with
  | nil => intro as; cases as <;> rfl
  | cons f fl ih => intro as; cases as <;> simp [normFlags, ih]

theorem normFlags_map (E : Env) (f : Tm → Tm) : ∀ (fl : List Nat) (as : List Tm),
    (∀ a ∈ as, linear E (f a) = linear E a) → normFlags E fl (as.map f) = normFlags E fl as := by
  intro fl
  induction fl with
  | nil => intro as _; cases as <;> rfl
  | cons g fl ih =>
    intro as h
    cases as with
    | nil => rfl
    | cons a as =>
      simp only [List.map, normFlags]
      rw [h a (by simp), ih as (fun b hb => h b (by simp [hb]))]

/-- for argument lists that are pairwise equally linear: the kept flags coincide iff there is no flag clash -/
theorem normFlags_iff (E : Env) : ∀ (f₁ f₂ : List Nat) (as bs : List Tm), f₁.length = f₂.length →
    as.map (linear E) = bs.map (linear E) →
    (normFlags E f₁ as = normFlags E f₂ bs ↔ flagsClash E f₁ f₂ as bs = false) := by
  intro f₁
  induction f₁ with
  | nil =>
    intro f₂ as bs hl _
    cases f₂ with
    | nil => cases as <;> cases bs <;> simp [normFlags, flagsClash]
    | cons _ _ => simp at hl
  | cons a f₁ ih =>
    intro f₂ as bs hl hlin
    cases f₂ with
    | nil => simp at hl
    | cons b f₂ =>
      simp only [List.length_cons, Nat.add_right_cancel_iff] at hl
      cases as with
      | nil =>
        cases bs with
        | nil =>
          have := ih f₂ [] [] hl rfl
          simp only [normFlags, flagsClash, List.cons.injEq, true_and] at this ⊢
          cases f₁ <;> cases f₂ <;> simp_all [normFlags, flagsClash]
        | cons y bs => simp at hlin
      | cons x as =>
        cases bs with
        | nil => simp at hlin
        | cons y bs =>
          simp only [List.map_cons, List.cons.injEq] at hlin
          obtain ⟨hxy, hrest⟩ := hlin
          have := ih f₂ as bs hl hrest
          simp only [normFlags, flagsClash, List.cons.injEq, Bool.or_eq_false_iff, ← hxy]
          rw [this]
          cases linear E x <;> simp

theorem norm_inst {E : Env} {θ : V → Tm} (hθ : LinInv E θ) : ∀ t : Tm,
    norm E (inst θ t) = inst (fun v => norm E (θ v)) (norm E t) := by
  intro t
  induction t using Tm.induct with
  | var v => simp [inst, norm]
  | atom a => simp [inst, norm]
  | node h as ih =>
    simp only [inst, norm, instList_eq, normList_eq, List.map_map]
    congr 1
    · cases h <;> simp only [normH]
      rw [normFlags_map E (inst θ) _ as (fun a _ => hθ a)]
    · apply List.map_congr_left
      intro a ha
      exact ih a ha
  | targ t ih => simp only [inst, norm]; rw [ih]
  | carg t ih => simp only [inst, norm]; rw [ih]

theorem vars_norm (E : Env) : ∀ t : Tm, (norm E t).vars = t.vars := by
  intro t
  induction t using Tm.induct with
  | var v => simp [norm, Tm.vars]
  | atom a => simp [norm, Tm.vars]
  | node h as ih =>
    simp only [norm, Tm.vars, normList_eq]
    exact varsList_map_congr (norm E) as ih
  | targ t ih => simpa [norm, Tm.vars] using ih
  | carg t ih => simpa [norm, Tm.vars] using ih

theorem eraseH_normH (E : Env) (h : Head) (as : List Tm) : eraseH (normH E h as) = eraseH h := by
  cases h <;> simp [normH, eraseH, normFlags_length]

theorem erase_norm (E : Env) : ∀ t : Tm, erase (norm E t) = erase t := by
  intro t
  induction t using Tm.induct with
  | var v => rfl
  | atom a => rfl
  | node h as ih =>
    simp only [norm, erase, eraseList_eq, normList_eq, List.map_map, eraseH_normH]
    congr 1
    apply List.map_congr_left
    intro a ha
    exact ih a ha
  | targ t ih => simp only [norm, erase]; rw [ih]
  | carg t ih => simp only [norm, erase]; rw [ih]

/-- the literal reading is finer than identity up to flags -/
theorem LinEq.flagEq {E : Env} {a b : Tm} (h : LinEq E a b) : FlagEq a b := by
  unfold FlagEq; rw [← erase_norm E a, ← erase_norm E b, h]

theorem SolvesL.solves {E : Env} {θ : V → Tm} {σ : Subst} (h : SolvesL E θ σ) : Solves θ σ :=
  fun v u hv => (h v u hv).flagEq

theorem SolvesL.of_extends {E : Env} {θ : V → Tm} {σ σ' : Subst} (h : SolvesL E θ σ') (e : Extends σ σ') :
    SolvesL E θ σ := fun v u hv => h v u (e v u hv)

/-! ### inversion of `shape … = viaArgs` keeping the flag information -/

theorem shape_viaArgs' {E : Env} {s t : Tm} {as bs : List Tm} (h : shape E s t = .viaArgs as bs) :
    ∃ h₁ h₂, s = .node h₁ as ∧ t = .node h₂ bs ∧
      ((∃ f₁ f₂ p, h₁ = .func f₁ p ∧ h₂ = .func f₂ p ∧ f₁.length = f₂.length ∧ flagsClash E f₁ f₂ as bs = false) ∨
       (h₁ = h₂ ∧ ∀ f p, h₁ ≠ .func f p)) := by
  cases s <;> cases t <;> simp only [shape] at h <;> try (cases h; done)
  · split at h <;> cases h
  · split at h <;> cases h
  · rename_i h₁ as' h₂ bs'
    cases h₁ <;> cases h₂ <;> simp only [] at h
    all_goals first
      | (cases h; done)
      | (cases h; exact ⟨_, _, rfl, rfl, Or.inr ⟨rfl, fun _ _ e => by cases e⟩⟩)
      | (split at h
         · rename_i e; subst e; cases h; exact ⟨_, _, rfl, rfl, Or.inr ⟨rfl, fun _ _ e => by cases e⟩⟩
         · cases h)
      | (split at h
         · rename_i e
           split at h
           · cases h
           · rename_i hl
             split at h
             · cases h
             · rename_i hc
               cases h
               subst e
               exact ⟨_, _, rfl, rfl, Or.inl ⟨_, _, _, rfl, rfl, by simpa using hl, by simpa using hc⟩⟩
         · cases h)

/-! ### soundness for the literal reading -/

def SoundL (E : Env) (θ : V → Tm) (u : Tm → Tm → Subst → Res) : Prop :=
  ∀ x y σ σ', u x y σ = .ok σ' → Extends σ σ' ∧ (SolvesL E θ σ' → LinEq E (inst θ x) (inst θ y))

theorem loop_soundL {E : Env} {θ : V → Tm} {u : Tm → Tm → Subst → Res} (hu : SoundL E θ u) :
    ∀ (as bs : List Tm) (σ σ' : Subst), unifyArgsLoop u as bs σ = .ok σ' →
      Extends σ σ' ∧ (SolvesL E θ σ' → as.map (fun a => norm E (inst θ a)) = bs.map (fun a => norm E (inst θ a))) := by
  intro as
  induction as with
  | nil =>
    intro bs σ σ' h
    cases bs with
    | nil => simp only [unifyArgsLoop, Res.ok.injEq] at h; subst h; exact ⟨Extends.refl _, fun _ => rfl⟩
    | cons b bs => simp [unifyArgsLoop] at h
  | cons a as ih =>
    intro bs σ σ' h
    cases bs with
    | nil => simp [unifyArgsLoop] at h
    | cons b bs =>
      cases a <;> cases b <;> simp only [unifyArgsLoop] at h <;> try (exact absurd h (by simp))
      all_goals
        rename_i x y
        cases hr : u x y σ with
        | oof => simp [hr] at h
        | fail => simp [hr] at h
        | ok σ₁ =>
          simp only [hr] at h
          obtain ⟨e₁, s₁⟩ := hu x y σ σ₁ hr
          obtain ⟨e₂, s₂⟩ := ih bs σ₁ σ' h
          refine ⟨e₁.trans e₂, fun hs => ?_⟩
          simp only [List.map_cons, inst, norm]
          rw [s₂ hs]
          have := s₁ (hs.of_extends e₂)
          unfold LinEq at this
          rw [this]

theorem var_soundL {E : Env} {θ : V → Tm} {u : Tm → Tm → Subst → Res} {o : Subst → V → Tm → Option Bool}
    (hu : SoundL E θ u) {v : V} {t : Tm} {σ σ' : Subst} (h : unifyVarWith u o v t σ = .ok σ') :
    Extends σ σ' ∧ (SolvesL E θ σ' → LinEq E (inst θ (.var v)) (inst θ t)) := by
  have bindCase : lookup σ v = none →
      (match o σ v t with
        | none => Res.oof
        | some true => Res.fail
        | some false => Res.ok ((v, t) :: σ)) = .ok σ' →
      Extends σ σ' ∧ (SolvesL E θ σ' → LinEq E (inst θ (.var v)) (inst θ t)) := by
    intro hv hb
    cases ho : o σ v t with
    | none => simp [ho] at hb
    | some b =>
      cases b with
      | true => simp [ho] at hb
      | false =>
        simp only [ho, Res.ok.injEq] at hb
        subst hb
        exact ⟨Extends.cons t hv, fun hs => by simpa [inst] using hs v t (by simp [lookup_cons])⟩
  unfold unifyVarWith at h
  cases hv : lookup σ v with
  | some sv =>
    simp only [hv] at h
    obtain ⟨e, s⟩ := hu _ _ _ _ h
    refine ⟨e, fun hs => ?_⟩
    have h1 := hs v sv (e v sv hv)
    have h2 := s hs
    unfold LinEq at *
    simp only [inst]
    rw [h1, h2]
  | none =>
    simp only [hv] at h
    cases t with
    | var w =>
      simp only at h
      cases hw : lookup σ w with
      | some tw =>
        simp only [hw] at h
        obtain ⟨e, s⟩ := hu _ _ _ _ h
        refine ⟨e, fun hs => ?_⟩
        have h1 := hs w tw (e w tw hw)
        have h2 := s hs
        unfold LinEq at *
        simp only [inst] at *
        rw [h2, h1]
      | none => simp only [hw] at h; exact bindCase hv h
    | atom a => exact bindCase hv h
    | node hd as => exact bindCase hv h
    | targ x => exact bindCase hv h
    | carg x => exact bindCase hv h

theorem unify_soundL (E : Env) (θ : V → Tm) (hθ : LinInv E θ) : ∀ n, SoundL E θ (unify E n) := by
  intro n
  induction n with
  | zero => intro x y σ σ' h; simp [unify] at h
  | succ n ih =>
    intro s t σ σ' h
    rw [unify_succ] at h
    cases hsh : shape E s t with
    | same =>
      simp only [hsh, runShape, Res.ok.injEq] at h
      subst h
      rw [shape_same hsh]
      exact ⟨Extends.refl _, fun _ => rfl⟩
    | fail => simp [hsh, runShape] at h
    | viaVar v t' =>
      simp only [hsh, runShape] at h
      obtain ⟨_, hc⟩ := shape_viaVar hsh
      obtain ⟨e, hs⟩ := var_soundL ih h
      cases hc with
      | inl c => obtain ⟨rfl, rfl⟩ := c; exact ⟨e, hs⟩
      | inr c => obtain ⟨rfl, rfl⟩ := c; exact ⟨e, fun x => (hs x).symm⟩
    | viaArgs as bs =>
      simp only [hsh, runShape] at h
      obtain ⟨h₁, h₂, rfl, rfl, hh⟩ := shape_viaArgs' hsh
      unfold unifyArgsWith at h
      split at h
      · cases h
      · rename_i hlen
        obtain ⟨e, hs⟩ := loop_soundL ih as bs σ σ' h
        refine ⟨e, fun hsol => ?_⟩
        have hl := hs hsol
        unfold LinEq
        simp only [inst, norm, instList_eq, normList_eq, List.map_map]
        congr 1
        · cases hh with
          | inr c => obtain ⟨rfl, hnf⟩ := c; cases h₁ <;> simp only [normH]; exact absurd rfl (hnf _ _)
          | inl c =>
            obtain ⟨f₁, f₂, p, rfl, rfl, hfl, hcl⟩ := c
            simp only [normH, Head.func.injEq, and_true]
            rw [normFlags_map E (inst θ) f₁ as (fun a _ => hθ a), normFlags_map E (inst θ) f₂ bs (fun a _ => hθ a)]
            apply (normFlags_iff E f₁ f₂ as bs hfl ?_).mpr hcl
            have : (as.map (fun a => norm E (inst θ a))).map (linear E) = (bs.map (fun a => norm E (inst θ a))).map (linear E) := by
              rw [hl]
            simpa [List.map_map, Function.comp_def, linear_norm, hθ _] using this

end GuppyVerif.Unify
