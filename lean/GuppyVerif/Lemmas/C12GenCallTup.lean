import GuppyVerif.Lemmas.C12GenCallCompl
/-! Lemmas for C12, part 16: completeness of `checkEx` / `checkList` / `synthCall` for arbitrary argument
    expressions (nested tuple literals).  Invariant: the substitution threaded through the components agrees with
    every global solution `θ` (`Agree`), because each step returns a most general unifier. -/
namespace GuppyVerif.Unify

theorem payloads_of_targs : ∀ args : List Tm, (∀ a ∈ args, ∃ x, a = Tm.targ x) → ∃ tys, payloads args = some tys := by
  intro args
  induction args with
  | nil => intro _; exact ⟨[], rfl⟩
  | cons a as ih =>
    intro h
    obtain ⟨x, rfl⟩ := h a (by simp)
    obtain ⟨tys, ht⟩ := ih (fun b hb => h b (by simp [hb]))
    exact ⟨x :: tys, by simp [payloads, ht]⟩

theorem all2_of_map_eq {θ : V → Tm} : ∀ {es : List Ex} {tys : List Tm},
    tys.map (fun p => erase (inst θ (Tm.targ p))) = es.map (fun e => erase (Tm.targ e.synth)) →
    All2 (fun e p => FlagEq (inst θ p) e.synth) es tys := by
  intro es
  induction es with
  | nil => intro tys h; cases tys with | nil => exact .nil | cons _ _ => simp at h
  | cons e es ih =>
    intro tys h
    cases tys with
    | nil => simp at h
    | cons p tys =>
      simp only [List.map_cons, List.cons.injEq, inst, erase, Tm.targ.injEq] at h
      exact .cons h.1 (ih (by simpa [inst, erase] using h.2))

/-- the converse statement for one expression -/
def CkComplete (E : Env) (θ : V → Tm) (e : Ex) : Prop :=
  ∀ ty, e.Closed → e.synth.wf = true → ty.wf = true → FlagEq (inst θ ty) e.synth →
    ∃ s, checkEx E e ty = .ok s ∧ Agree θ s

theorem checkList_complete_of (E : Env) (θ : V → Tm) : ∀ (es : List Ex), (∀ e ∈ es, CkComplete E θ e) →
    ∀ (ps : List Tm) (σ : Subst), Agree θ σ → (∀ e ∈ es, e.Closed ∧ e.synth.wf = true) → (∀ p ∈ ps, p.wf = true) →
    All2 (fun e p => FlagEq (inst θ p) e.synth) es ps →
    ∃ σ', checkList E es ps σ = .ok σ' ∧ Agree θ σ' := by
  intro es
  induction es with
  | nil => intro _ ps σ hσ _ _ h; cases h; exact ⟨σ, by simp [checkList], hσ⟩
  | cons e es ih =>
    intro hP ps σ hσ he hp h
    cases h with
    | @cons _ p _ ps h1 h2 =>
      have hpa : FlagEq (inst θ (apply σ p)) e.synth := (solves_apply hσ.solves p).trans h1
      obtain ⟨s, hs, hag⟩ := hP e (by simp) (apply σ p) (he e (by simp)).1 (he e (by simp)).2
        (wf_apply hσ.wf (hp p (by simp))) hpa
      obtain ⟨σ', h', hag'⟩ := ih (fun e' he' => hP e' (by simp [he'])) ps (s ++ σ) (hag.append hσ)
        (fun b hb => he b (by simp [hb])) (fun q hq => hp q (by simp [hq])) h2
      refine ⟨σ', ?_, hag'⟩
      simp only [checkList, hs]
      exact h'

theorem synth_wf_components {es : List Ex} (h : (Ex.tup es).synth.wf = true) : ∀ e ∈ es, e.synth.wf = true := by
  intro e he
  simp only [Ex.synth, Tm.wf, synthList_eq] at h
  obtain ⟨x, hx, hw⟩ := (wfArgs_iff _).mp h (.targ e.synth) (List.mem_map.mpr ⟨e, he, rfl⟩)
  cases hx with
  | inl e' => cases e'; exact hw
  | inr e' => cases e'

theorem checkEx_complete (E : Env) (hE : NoLinear E) (θ : V → Tm) : ∀ e : Ex, CkComplete E θ e := by
  intro e
  induction e using Ex.induct with
  | val a =>
    intro ty hc hw hty hu
    simp only [checkEx]
    exact unifyT_complete E hE θ hty hw hc hu
  | tup es ih =>
    intro ty hc hw hty hu
    cases ty with
    | var v =>
      refine ⟨[(v, .node .tuple (synthList es))], by simp [checkEx], ?_, ?_, ?_⟩
      · intro x w hx
        rw [lookup_cons] at hx
        by_cases e : v = x
        · simp only [e, if_true, Option.some.injEq] at hx; subst hx; exact hc
        · simp [e, lookup] at hx
      · intro x w hx
        rw [lookup_cons] at hx
        by_cases e : v = x
        · simp only [e, if_true, Option.some.injEq] at hx; subst hx; exact hw
        · simp [e, lookup] at hx
      · intro x w hx
        rw [lookup_cons] at hx
        by_cases e : v = x
        · simp only [e, if_true, Option.some.injEq] at hx; subst hx; subst e; simpa [inst, Ex.synth] using hu
        · simp [e, lookup] at hx
    | atom a => unfold FlagEq at hu; simp [inst, erase, Ex.synth] at hu
    | targ x => simp [Tm.wf] at hty
    | carg x => simp [Tm.wf] at hty
    | node hd args =>
      unfold FlagEq at hu
      simp only [inst, erase, Ex.synth, instList_eq, eraseList_eq, synthList_eq, List.map_map, Tm.node.injEq] at hu
      obtain ⟨hh, hl⟩ := hu
      have hd_tuple : hd = .tuple := by cases hd <;> simp [eraseH] at hh; rfl
      subst hd_tuple
      simp only [Tm.wf] at hty
      have hwa := (wfArgs_iff args).mp hty
      -- every argument of the expected tuple type is a `TypeArg`
      have htarg : ∀ a ∈ args, ∃ x, a = Tm.targ x := by
        intro a ha
        obtain ⟨x, hx, _⟩ := hwa a ha
        cases hx with
        | inl e => exact ⟨x, e⟩
        | inr e =>
          exfalso
          subst e
          have hlen : args.length = es.length := by simpa using congrArg List.length hl
          obtain ⟨i, hi, hget⟩ := List.getElem_of_mem ha
          have := congrArg (fun l => l[i]?) hl
          simp only [List.getElem?_map, List.getElem?_eq_getElem hi, hget, Option.map, Function.comp] at this
          have hi' : i < es.length := by omega
          simp [List.getElem?_eq_getElem hi', inst, erase] at this
      obtain ⟨tys, hpay⟩ := payloads_of_targs args htarg
      have hargs := payloads_eq hpay
      subst hargs
      have hlen : tys.length = es.length := by simpa using congrArg List.length hl
      have hall : All2 (fun e p => FlagEq (inst θ p) e.synth) es tys :=
        all2_of_map_eq (by simpa [List.map_map, Function.comp_def] using hl)
      have hwt : ∀ p ∈ tys, p.wf = true := by
        intro p hp
        obtain ⟨x, hx, hxw⟩ := hwa (.targ p) (List.mem_map.mpr ⟨p, hp, rfl⟩)
        cases hx with
        | inl e => cases e; exact hxw
        | inr e => cases e
      obtain ⟨s, hs, hag⟩ := checkList_complete_of E θ es (fun e he => ih e he) tys [] (Agree.nil θ)
        (fun e he => ⟨hc.tup e he, synth_wf_components hw e he⟩) hwt hall
      refine ⟨s, ?_, hag⟩
      simp only [checkEx, hpay, hlen, ne_eq, not_true_eq_false, if_false]
      exact hs

/-- completeness of `synthesize_call` for arbitrary argument expressions (nested tuple literals) -/
theorem synthCall_complete_ex (E : Env) (hE : NoLinear E) (sg : Sig) (fresh : List V) (es : List Ex) (ρ : List Tm)
    (hin : ∀ p ∈ sg.inputs, p.vars = [] ∧ p.wf = true) (hout : sg.out.vars = [])
    (hes : ∀ e ∈ es, e.Closed ∧ e.synth.wf = true)
    (hfresh : fresh.Nodup) (hρl : ρ.length = fresh.length)
    (hocc : ∀ f ∈ fresh, ∃ p ∈ sg.inputs, f ∈ (instB (fresh.map Tm.var) p).vars)
    (hfit : All2 (fun e p => FlagEq (instB ρ p) e.synth) es sg.inputs)
    (hb : boundsOk E sg.bounds ρ = true) :
    ∃ ins, synthCall E sg fresh es = .accept ins (instB ins sg.out) ∧ All2 FlagEq ins ρ := by
  let θ : V → Tm := asFun (fresh.zip ρ)
  have hθρ : fresh.map θ = ρ := map_asFun_zip fresh ρ hfresh hρl
  have hlen : es.length = sg.inputs.length := all2_length hfit
  -- the arguments fit under θ
  have hfit' : All2 (fun e p => FlagEq (inst θ p) e.synth) es (sg.inputs.map (instB (fresh.map Tm.var))) := by
    have : ∀ {as : List Ex} {ps : List Tm}, (∀ p ∈ ps, p.vars = []) → All2 (fun e p => FlagEq (instB ρ p) e.synth) as ps →
        All2 (fun e p => FlagEq (inst θ p) e.synth) as (ps.map (instB (fresh.map Tm.var))) := by
      intro as ps hps h
      induction h with
      | nil => exact .nil
      | @cons a p as' ps' h1 _ ih =>
        refine .cons ?_ (ih (fun q hq => hps q (by simp [hq])))
        rw [inst_instB θ fresh p (hps p (by simp)), hθρ]; exact h1
    exact this (fun p hp => (hin p hp).1) hfit
  have hwfp : ∀ p ∈ sg.inputs.map (instB (fresh.map Tm.var)), p.wf = true := by
    intro p hp
    obtain ⟨q, hq, rfl⟩ := List.mem_map.mp hp
    exact (wf_instB_aux _ (fun r hr => by obtain ⟨v, _, rfl⟩ := List.mem_map.mp hr; rfl) q).1 (hin q hq).2
  obtain ⟨σ, hck, hag⟩ := checkList_complete_of E θ es (fun e _ => checkEx_complete E hE θ e) _ [] (Agree.nil θ) hes hwfp hfit'
  -- soundness of the same run: every input is closed under σ, so every fresh variable is solved
  have hcl : ∀ e ∈ es, e.Closed := fun e he => (hes e he).1
  have r := checkList_sound_of E es (fun e _ ty s => checkEx_sound E e ty s) _ [] σ hcl (Agree.nil θ).closed hck
  have hbound : ∀ f ∈ fresh, ∃ u, lookup σ f = some u := by
    intro f hf
    obtain ⟨p, hp, hfp⟩ := hocc f hf
    -- position of p in the list
    have : ∀ {es : List Ex} {ps : List Tm}, All2 (fun e p => FlagEq (apply σ p) e.synth) es ps →
        (∀ e ∈ es, e.Closed) → ∀ q ∈ ps, (apply σ q).vars = [] := by
      intro es ps h
      induction h with
      | nil => intro _ q hq; cases hq
      | cons h1 _ ih =>
        intro hc q hq
        cases hq with
        | head => exact closed_of_flagEq h1 (hc _ (by simp))
        | tail _ hq => exact ih (fun e he => hc e (by simp [he])) q hq
    have hclosed := this r.eq hcl (instB (fresh.map Tm.var) p) (List.mem_map.mpr ⟨p, hp, rfl⟩)
    cases hl : lookup σ f with
    | some u => exact ⟨u, rfl⟩
    | none =>
      have : f ∈ (apply σ (instB (fresh.map Tm.var) p)).vars :=
        mem_vars_inst' (θ := asFun σ) _ hfp (by simp [asFun, hl, Tm.vars])
      rw [hclosed] at this; cases this
  have hins : All2 FlagEq (fresh.map (asFun σ)) ρ := by
    rw [← hθρ]
    apply all2_of_map (by simp)
    intro i h1 h2
    simp only [List.getElem_map]
    have hi : i < fresh.length := by simpa using h1
    obtain ⟨u, hu⟩ := hbound (fresh[i]'hi) (List.getElem_mem _)
    have := hag.agr _ u hu
    simp only [asFun, hu]
    exact this.symm
  refine ⟨fresh.map (asFun σ), ?_, hins⟩
  unfold synthCall
  simp only [hlen, ne_eq, not_true_eq_false, if_false, finishCall, hck]
  have h1 : ((instB (fresh.map Tm.var) sg.out).vars.all fun v => (lookup σ v).isSome) = true := by
    rw [List.all_eq_true]
    intro z hz
    obtain ⟨u, hu⟩ := hbound z (vars_instB_fresh fresh sg.out hout z hz)
    simp [hu]
  have h2 : (fresh.all fun v => (lookup σ v).isSome) = true := by
    rw [List.all_eq_true]
    intro z hz
    obtain ⟨u, hu⟩ := hbound z hz
    simp [hu]
  have h3 : boundsOk E sg.bounds (fresh.map (asFun σ)) = true := by
    rw [boundsOk_congr E sg.bounds _ _ hins]; exact hb
  simp only [h1, h2, h3, Bool.not_true, if_true]
  simp only [Bool.false_eq_true, if_false]
  congr 1
  unfold apply
  rw [inst_instB (asFun σ) fresh sg.out hout]

end GuppyVerif.Unify
