import GuppyVerif.Spec.C19
namespace GuppyVerif.ArraySem
open Spec

variable {α : Type}

/-! ### index conversion -/

theorem itousize_of_nonneg {i : Int} (h0 : 0 ≤ i) (h1 : i < 2 ^ 63) : itousize i = i.toNat := by
  unfold itousize; omega

theorem itousize_of_neg {i : Int} (h0 : i < 0) (h1 : -(2 ^ 63 : Int) ≤ i) : 2 ^ 63 ≤ itousize i := by
  unfold itousize; omega

/-- the heart of bounds safety: after `itousize`, "below the length" means exactly `0 ≤ i < n` -/
theorem itousize_lt_iff {n : Nat} {i : Int} (hi : IsI64 i) (hn : n ≤ 2 ^ 63) :
    itousize i < n ↔ InRange n i := by
  unfold IsI64 at hi; unfold InRange itousize; omega

theorem itousize_inRange {n : Nat} {i : Int} (h : InRange n i) (hn : n ≤ 2 ^ 63) :
    itousize i = i.toNat := by
  unfold InRange at h; unfold itousize; omega

theorem wrap64_succ {j : Int} (h0 : 0 ≤ j) (h1 : j + 1 < 2 ^ 63) : wrap64 (j + 1) = j + 1 := by
  unfold wrap64; omega

/-! ### running the fixed lowerings -/

section fixed
attribute [local simp] getitem setitem discardAllUsed run emitGetitem emitSetitem emitInout
  emitDiscardAllUsed emitCopy emitCompBody compStep runInstrs runInstr lookup step get set borrow
  ret clone discardAllBorrowed bind Except.bind pure Except.pure 
  throw throwThe MonadExceptOf.throw

theorem getitem_classical (a : Cells α) (i : Int) :
    getitem false a i = match a[itousize i]? with
      | none => .error (.unwrapFail oobMsg)
      | some none => .error .alreadyBorrowed
      | some (some v) => .ok (v, a) := by
  rcases h : a[itousize i]? with _ | _ | v <;> simp [h]

theorem getitem_linear (a : Cells α) (i : Int) :
    getitem true a i = match a[itousize i]? with
      | none => .error .indexOob
      | some none => .error .alreadyBorrowed
      | some (some v) => .ok (v, a.set (itousize i) none) := by
  rcases h : a[itousize i]? with _ | _ | v <;> simp [h]

theorem setitem_classical (a : Cells α) (i : Int) (v : α) :
    setitem false a i v = match a[itousize i]? with
      | none => .error (.unwrapFail oobMsg)
      | some none => .error .alreadyBorrowed
      | some (some _) => .ok (a.set (itousize i) (some v)) := by
  rcases h : a[itousize i]? with _ | _ | w <;> simp [h]

theorem setitem_linear (a : Cells α) (i : Int) (v : α) :
    setitem true a i v = match a[itousize i]? with
      | none => .error .indexOob
      | some none => .ok (a.set (itousize i) (some v))
      | some (some _) => .error .notBorrowed := by
  rcases h : a[itousize i]? with _ | _ | w <;> simp [h]

theorem run_inout (f : α → α) (c : String) (a : Cells α) (i : Int) :
    run f (emitInout c) [vArr a, vInt i] = match a[itousize i]? with
      | none => .error .indexOob
      | some none => .error .alreadyBorrowed
      | some (some v) => .ok [vArr (a.set (itousize i) (some (f v)))] := by
  rcases h : a[itousize i]? with _ | _ | w <;> simp [h]
  have : itousize i < a.length := by
    rcases Nat.lt_or_ge (itousize i) a.length with h' | h'
    · exact h'
    · rw [List.getElem?_eq_none h'] at h; cases h
  simp [this]

theorem discardAllUsed_classical (a : Cells α) : discardAllUsed false a = .ok () := by simp

theorem discardAllUsed_linear (a : Cells α) :
    discardAllUsed true a = if a.all Option.isNone then .ok () else .error .notAllBorrowed := by
  by_cases h : a.all Option.isNone <;> simp [h]

theorem compStep_eq (a : Cells α) (c : Int) (e : α) :
    compStep (a, c) e = match a[itousize c]? with
      | none => .error .indexOob
      | some none => .ok (a.set (itousize c) (some e), wrap64 (c + 1))
      | some (some _) => .error .notBorrowed := by
  rcases h : a[itousize c]? with _ | _ | w <;> simp [h]

theorem run_copy (f : α → α) (a : Cells α) :
    run f emitCopy [vArr a] =
      if a.all Option.isSome then .ok [vArr a, vArr a] else .error .alreadyBorrowed := by
  by_cases h : a.all Option.isSome <;> simp [h]

end fixed
/-! ### unpacking -/

theorem runInstrs_append (f : α → α) (a b : List Instr) (env : List (Val α)) :
    runInstrs f (a ++ b) env = (runInstrs f a env >>= runInstrs f b) := by
  induction a generalizing env with
  | nil => rfl
  | cons i is ih =>
    simp only [List.cons_append, runInstrs]
    cases runInstr f env i with
    | error e => rfl
    | ok env' => exact ih env'

theorem getElem?_append_some {β} {l m : List β} {w : Nat} {v : β} (h : l[w]? = some v) :
    (l ++ m)[w]? = some v := by
  have hw : w < l.length := by
    rcases Nat.lt_or_ge w l.length with h' | h'
    · exact h'
    · rw [List.getElem?_eq_none h'] at h; cases h
  rw [List.getElem?_append_left hw]; exact h

theorem map_getElem?_append_some {β} {l m : List β} {ws : List Nat} {vs : List β}
    (h : ws.map (fun w => l[w]?) = vs.map some) :
    ws.map (fun w => (l ++ m)[w]?) = vs.map some := by
  induction ws generalizing vs with
  | nil => simpa using h
  | cons w ws ih =>
    cases vs with
    | nil => simp at h
    | cons v vs =>
      simp only [List.map_cons, List.cons.injEq] at h ⊢
      exact ⟨getElem?_append_some h.1, ih h.2⟩

theorem lookup_of_map (env : List (Val α)) (ws : List Nat) (vs : List (Val α))
    (h : ws.map (fun w => env[w]?) = vs.map some) : lookup env ws = .ok vs := by
  induction ws generalizing vs with
  | nil => cases vs with
    | nil => rfl
    | cons v vs => simp at h
  | cons w ws ih =>
    cases vs with
    | nil => simp at h
    | cons v vs =>
      simp only [List.map_cons, List.cons.injEq] at h
      simp only [lookup, h.1, ih vs h.2, bind, Except.bind, pure, Except.pure]

theorem runInstr_ok (f : α → α) (env : List (Val α)) (i : Instr) (args outs : List (Val α))
    (hl : lookup env i.args = .ok args) (hs : step f i.op args = .ok outs)
    (hn : outs.length = i.nout) : runInstr f env i = .ok (env ++ outs) := by
  simp [runInstr, hl, hs, hn, bind, Except.bind, pure, Except.pure]

/-- pure-list reading of one pop -/
def popSpec (fromLeft : Bool) (ys : List α) : Option (α × List α) :=
  if fromLeft then
    match ys with
    | [] => none
    | y :: r => some (y, r)
  else
    match ys.getLast? with
    | none => none
    | some y => some (y, ys.dropLast)

/-- pure-list reading of `k` successive pops: (popped elements in pop order, remainder) -/
def popSeq (fromLeft : Bool) : Nat → List α → Option (List α × List α)
  | 0, ys => some ([], ys)
  | k + 1, ys =>
    match popSpec fromLeft ys with
    | none => none
    | some (y, r) => (popSeq fromLeft k r).map fun p => (y :: p.1, p.2)

theorem popSpec_length {fromLeft : Bool} {ys : List α} {y : α} {r : List α}
    (h : popSpec fromLeft ys = some (y, r)) : ys.length = r.length + 1 := by
  unfold popSpec at h
  cases fromLeft with
  | true =>
    cases ys with
    | nil => simp at h
    | cons a t => simp at h; simp [← h.2]
  | false =>
    simp only [Bool.false_eq_true, ↓reduceIte] at h
    cases hl : ys.getLast? with
    | none => simp [hl] at h
    | some z =>
      simp [hl] at h
      have hne : ys ≠ [] := by intro e; simp [e] at hl
      rw [← h.2, List.length_dropLast]
      have := List.length_pos_iff.mpr hne
      omega

theorem step_pop (f : α → α) (fromLeft : Bool) (ys : List α) (y : α) (r : List α)
    (h : popSpec fromLeft ys = some (y, r)) :
    step f (if fromLeft then .popLeft ys.length else .popRight ys.length) [vArr (ofList ys)] =
      .ok [.sum 1 [.elem y, .arr (ofList r)]] := by
  unfold popSpec at h
  cases fromLeft with
  | true =>
    cases ys with
    | nil => simp at h
    | cons a t =>
      simp at h
      simp [step, ofList, popLeft, h.1, h.2, bind, Except.bind, pure, Except.pure]
  | false =>
    simp only [Bool.false_eq_true, ↓reduceIte] at h
    cases hl : ys.getLast? with
    | none => simp [hl] at h
    | some z =>
      simp [hl] at h
      simp [step, ofList, popRight, List.getLast?_map, hl, h.1, ← h.2, bind, Except.bind, pure,
        Except.pure, List.map_dropLast]

/-- the SSA induction, done once for both directions -/
theorem run_emitPops (f : α → α) (fromLeft : Bool) :
    ∀ (k : Nat) (ys es rest : List α) (env : List (Val α)) (arrW len next : Nat),
      popSeq fromLeft k ys = some (es, rest) → len = ys.length → next = env.length →
      env[arrW]? = some (vArr (ofList ys)) →
      ∃ ext, runInstrs f (emitPops fromLeft k len arrW next).1 env = .ok (env ++ ext) ∧
        (emitPops fromLeft k len arrW next).2.2.2 = (env ++ ext).length ∧
        (env ++ ext)[(emitPops fromLeft k len arrW next).2.2.1]? = some (vArr (ofList rest)) ∧
        (emitPops fromLeft k len arrW next).2.1.map (fun w => (env ++ ext)[w]?)
          = (es.map vElem).map some := by
  intro k
  induction k with
  | zero =>
    intro ys es rest env arrW len next h _ hnext harr
    simp only [popSeq, Option.some.injEq, Prod.mk.injEq] at h
    refine ⟨[], ?_⟩
    simp [emitPops, runInstrs, pure, Except.pure, hnext, harr, ← h.1, ← h.2]
  | succ k ih =>
    intro ys es rest env arrW len next h hlen hnext harr
    simp only [popSeq] at h
    cases hp : popSpec fromLeft ys with
    | none => simp [hp] at h
    | some p =>
      obtain ⟨y, r⟩ := p
      simp only [hp, Option.map_eq_some_iff] at h
      obtain ⟨⟨es', rest'⟩, hseq, heq⟩ := h
      simp only [Prod.mk.injEq] at heq
      have hl := popSpec_length hp
      let env2 : List (Val α) := env ++ [.sum 1 [.elem y, .arr (ofList r)], vElem y, vArr (ofList r)]
      have h2len : next + 3 = env2.length := by simp [env2, hnext]
      have h2arr : env2[next + 2]? = some (vArr (ofList r)) := by
        simp [env2, hnext]
      obtain ⟨ext', hrun, hnx, ha, hes⟩ :=
        ih r es' rest' env2 (next + 2) (len - 1) (next + 3) hseq (by omega) h2len h2arr
      refine ⟨[.sum 1 [.elem y, .arr (ofList r)], vElem y, vArr (ofList r)] ++ ext', ?_⟩
      have hstep := step_pop f fromLeft ys y r hp
      have e1 : (env ++ [Val.sum 1 [Atom.elem y, Atom.arr (ofList r)]])[next]? =
          some (Val.sum 1 [Atom.elem y, Atom.arr (ofList r)]) := by
        simp [hnext]
      have happ : env ++ ([Val.sum 1 [Atom.elem y, Atom.arr (ofList r)], vElem y, vArr (ofList r)] ++ ext')
          = env2 ++ ext' := by simp [env2]
      rw [happ]
      simp only [emitPops]
      refine ⟨?_, hnx, ?_, ?_⟩
      · have r1 : runInstr f env ⟨if fromLeft then .popLeft len else .popRight len, [arrW], 1⟩
            = .ok (env ++ [.sum 1 [.elem y, .arr (ofList r)]]) :=
          runInstr_ok f env _ [vArr (ofList ys)] _ (lookup_of_map env _ _ (by simp [harr]))
            (by rw [hlen]; exact hstep) rfl
        have r2 : runInstr f (env ++ [.sum 1 [.elem y, .arr (ofList r)]])
            ⟨.unwrap 1 unpackMsg, [next], 2⟩ = .ok (env ++ [.sum 1 [.elem y, .arr (ofList r)]]
              ++ [vElem y, vArr (ofList r)]) :=
          runInstr_ok f _ _ [.sum 1 [.elem y, .arr (ofList r)]] _
            (lookup_of_map _ _ _ (by simp [e1])) (by simp [step, pure, Except.pure]) rfl
        simp only [runInstrs, r1, r2, bind, Except.bind]
        have : env ++ [Val.sum 1 [Atom.elem y, Atom.arr (ofList r)]] ++ [vElem y, vArr (ofList r)]
            = env2 := by simp [env2]
        rw [this]; exact hrun
      · rw [← heq.2]; exact ha
      · rw [← heq.1]
        simp only [List.map_cons, List.cons.injEq]
        refine ⟨?_, hes⟩
        apply getElem?_append_some
        simp [env2, hnext]

theorem popSeq_left : ∀ (k : Nat) (ys : List α), k ≤ ys.length →
    popSeq true k ys = some (ys.take k, ys.drop k)
  | 0, ys, _ => by simp [popSeq]
  | k + 1, [], h => by simp at h
  | k + 1, y :: r, h => by
    have := popSeq_left k r (by simpa using h)
    simp [popSeq, popSpec, this]

theorem popSeq_right : ∀ (k : Nat) (ys : List α), k ≤ ys.length →
    popSeq false k ys = some (ys.reverse.take k, ys.take (ys.length - k))
  | 0, ys, _ => by simp [popSeq]
  | k + 1, ys, h => by
    have hne : ys ≠ [] := by intro e; simp [e] at h
    obtain ⟨init, y, rfl⟩ : ∃ init y, ys = init ++ [y] :=
      ⟨ys.dropLast, ys.getLast hne, (List.dropLast_concat_getLast hne).symm⟩
    have hk : k ≤ init.length := by simp at h; omega
    have := popSeq_right k init hk
    simp [popSeq, popSpec, this, List.take_append_of_le_length]

/-! ### iteration -/

/-- cells of the iterated array after `j` elements were yielded -/
def iterCells (linear : Bool) (xs : List α) (j : Nat) : Cells α :=
  if linear then List.replicate j none ++ ofList (xs.drop j) else ofList xs

theorem iterCells_length (linear : Bool) (xs : List α) (j : Nat) (h : j ≤ xs.length) :
    (iterCells linear xs j).length = xs.length := by
  unfold iterCells ofList; cases linear <;> simp; omega

theorem iterCells_get (linear : Bool) (xs : List α) (j : Nat) (h : j < xs.length) :
    (iterCells linear xs j)[j]? = some (some xs[j]) := by
  unfold iterCells ofList; cases linear <;> simp [h, List.getElem?_append_right]

theorem iterCells_set (xs : List α) (j : Nat) (h : j < xs.length) :
    (iterCells true xs j).set j none = iterCells true xs (j + 1) := by
  unfold iterCells ofList
  simp only [↓reduceIte]
  rw [List.drop_eq_getElem_cons h, List.set_append_right _ _ (by simp)]
  simp only [List.length_replicate, Nat.sub_self, List.map_cons, List.set_cons_zero]
  rw [List.replicate_succ', List.append_assoc]
  rfl

theorem next_at (linear : Bool) (xs : List α) (j : Nat) (h : j < xs.length)
    (hn : xs.length < 2 ^ 63) :
    next linear ⟨iterCells linear xs j, (j : Int)⟩ =
      .ok (some (xs[j], ⟨iterCells linear xs (j + 1), ((j + 1 : Nat) : Int)⟩)) := by
  have hlen := iterCells_length linear xs j (Nat.le_of_lt h)
  have hi : itousize (j : Int) = j := by
    rw [itousize_of_nonneg (by omega) (by omega)]; simp
  have hw : wrap64 ((j : Int) + 1) = ((j + 1 : Nat) : Int) := by
    rw [wrap64_succ (by omega) (by omega)]; simp
  unfold next
  simp only [hlen, Int.ofNat_lt, h, ↓reduceIte]
  cases linear with
  | false =>
    simp only [getitem_classical, hi, iterCells_get false xs j h, bind, Except.bind, pure,
      Except.pure, hw]
    simp [iterCells]
  | true =>
    simp only [getitem_linear, hi, iterCells_get true xs j h, bind, Except.bind, pure,
      Except.pure, hw, iterCells_set xs j h]

theorem next_end (linear : Bool) (xs : List α) :
    next linear ⟨iterCells linear xs xs.length, (xs.length : Int)⟩ = .ok none := by
  have hlen := iterCells_length linear xs xs.length (Nat.le_refl _)
  unfold next
  simp only [hlen, Int.lt_irrefl, ↓reduceIte]
  cases linear with
  | false => simp [discardAllUsed_classical, bind, Except.bind, pure, Except.pure]
  | true =>
    simp [discardAllUsed_linear, iterCells, ofList, bind, Except.bind, pure, Except.pure]

theorem drain_from (linear : Bool) (xs : List α) (hn : xs.length < 2 ^ 63) :
    ∀ (d j extra : Nat), j + d = xs.length →
      drain linear (d + 1 + extra) ⟨iterCells linear xs j, (j : Int)⟩ = .ok (some (xs.drop j)) := by
  intro d
  induction d with
  | zero =>
    intro j extra hj
    have : j = xs.length := by omega
    subst this
    have hfuel : 0 + 1 + extra = extra + 1 := by omega
    rw [hfuel]
    simp [drain, next_end, bind, Except.bind, pure, Except.pure]
  | succ d ih =>
    intro j extra hj
    have hlt : j < xs.length := by omega
    have := ih (j + 1) extra (by omega)
    have hfuel : d + 1 + 1 + extra = (d + 1 + extra) + 1 := by omega
    rw [hfuel]
    simp only [drain, next_at linear xs j hlt hn, bind, Except.bind, this, pure, Except.pure]
    simp

/-! ### array comprehension -/

theorem comp_from (n : Nat) (hn : n < 2 ^ 63) : ∀ (suf pre : List α), pre.length + suf.length = n →
    suf.foldlM compStep (ofList pre ++ List.replicate suf.length none, (pre.length : Int))
      = .ok (ofList (pre ++ suf), (n : Int)) := by
  intro suf
  induction suf with
  | nil => intro pre h; simp at h; simp [List.foldlM, pure, Except.pure, h]
  | cons e suf ih =>
    intro pre h
    simp only [List.length_cons] at h
    have hi : itousize (pre.length : Int) = pre.length := by
      rw [itousize_of_nonneg (by omega) (by omega)]; simp
    have hw : wrap64 ((pre.length : Int) + 1) = (((pre ++ [e]).length : Nat) : Int) := by
      rw [wrap64_succ (by omega) (by omega)]; simp
    have hget : (ofList pre ++ List.replicate (suf.length + 1) (none : Option α))[pre.length]?
        = some none := by
      simp [ofList]
    have hset : (ofList pre ++ List.replicate (suf.length + 1) (none : Option α)).set pre.length (some e)
        = ofList (pre ++ [e]) ++ List.replicate suf.length none := by
      rw [List.set_append_right _ _ (by simp [ofList])]
      simp [ofList, List.replicate_succ]
    have := ih (pre ++ [e]) (by simp; omega)
    simp only [List.foldlM, List.length_cons, compStep_eq, hi, hget, hset, hw, bind, Except.bind]
    simpa using this

/-! ### reference model with lent flags -/

theorem Spec.Ref.cells_length (r : Ref α) (h : r.WF) : r.cells.length = r.vals.length := by
  unfold Ref.cells Ref.WF at *; simp [h]

theorem Spec.Ref.cells_get (r : Ref α) (h : r.WF) (k : Nat) (hk : k < r.vals.length) :
    r.cells[k]? = some (if r.lent[k]'(h ▸ hk) then none else some r.vals[k]) := by
  unfold Ref.cells
  have hk' : k < r.lent.length := h ▸ hk
  simp [List.getElem?_zipWith, hk, hk']

theorem Spec.Ref.cells_set_lend (r : Ref α) (k : Nat) :
    r.cells.set k none = (⟨r.vals, r.lent.set k true⟩ : Ref α).cells := by
  unfold Ref.cells
  apply List.ext_getElem?
  intro j
  simp only [List.getElem?_set, List.getElem?_zipWith, List.length_zipWith]
  by_cases hj : k = j
  · subst hj
    by_cases hl : k < r.vals.length <;> by_cases hl' : k < r.lent.length <;> simp [hl, hl'] <;> omega
  · simp [hj]

theorem Spec.Ref.cells_set_give (r : Ref α) (k : Nat) (v : α) :
    r.cells.set k (some v) = (⟨r.vals.set k v, r.lent.set k false⟩ : Ref α).cells := by
  unfold Ref.cells
  apply List.ext_getElem?
  intro j
  simp only [List.getElem?_set, List.getElem?_zipWith, List.length_zipWith]
  by_cases hj : k = j
  · subst hj
    by_cases hl : k < r.vals.length <;> by_cases hl' : k < r.lent.length <;> simp [hl, hl'] <;> omega
  · simp [hj]


/-! ### running sequences of accesses through the emitted code (used by the sequence theorems) -/

/-- classical reads / writes through `getitem false` / `setitem false` -/
def runOps : Cells α × List α → List (AOp α) → M (Cells α × List α)
  | st, [] => pure st
  | st, .read i :: os => do
    let (v, a) ← getitem false st.1 i
    runOps (a, st.2 ++ [v]) os
  | st, .write i v :: os => do
    let a ← setitem false st.1 i v
    runOps (a, st.2) os


/-- the same sequence through the emitted code -/
def runL : Cells α × List α → List (LOp α) → M (Cells α × List α)
  | st, [] => pure st
  | st, .lend i :: os => do
    let (v, a) ← getitem true st.1 i
    runL (a, st.2 ++ [v]) os
  | st, .giveBack i v :: os => do
    let a ← setitem true st.1 i v
    runL (a, st.2) os



/-! ### the comprehension loop -/

section
attribute [local simp] run emitCompBodyC runInstrs runInstr lookup step ret bind Except.bind pure
  Except.pure throw throwThe MonadExceptOf.throw

theorem run_bodyC (a : Cells α) (c : Int) (e : α) :
    run id emitCompBodyC [vArr a, vInt c, vElem e] = match a[itousize c]? with
      | none => .error .indexOob
      | some none => .ok [vArr (a.set (itousize c) (some e)), vInt (wrap64 (c + 1))]
      | some (some _) => .error .notBorrowed := by
  rcases h : a[itousize c]? with _ | _ | w <;> simp [h]
end

theorem fill_get {β} (ys : List β) (j : Nat) (h : j < ys.length) :
    ((ys.take j).map some ++ List.replicate (ys.length - j) (none : Option β))[j]? = some none := by
  have hl : ((ys.take j).map some).length = j := by simp; omega
  have hrep : ys.length - j = (ys.length - (j + 1)) + 1 := by omega
  rw [List.getElem?_append_right (by rw [hl]; exact Nat.le_refl j), hl, Nat.sub_self, hrep, List.replicate_succ]
  rfl

theorem fill_set {β} (ys : List β) (j : Nat) (h : j < ys.length) :
    ((ys.take j).map some ++ List.replicate (ys.length - j) (none : Option β)).set j (some ys[j])
      = (ys.take (j + 1)).map some ++ List.replicate (ys.length - (j + 1)) none := by
  have hl : ((ys.take j).map some).length = j := by simp; omega
  have hrep : ys.length - j = (ys.length - (j + 1)) + 1 := by omega
  have e1 : ys.take (j + 1) = ys.take j ++ [ys[j]] := by rw [List.take_add_one]; simp [h]
  rw [List.set_append_right _ _ (by rw [hl]; exact Nat.le_refl j), hl, Nat.sub_self, hrep, List.replicate_succ,
    List.set_cons_zero, e1, List.map_append, List.append_assoc]
  rfl

theorem runLoop_from (g : α → α) (xs : List α) (hn : xs.length < 2 ^ 63) :
    ∀ (d j extra : Nat), j + d = xs.length →
      runLoop (emitCompLoop xs.length) g (d + 1 + extra) ⟨iterCells true xs j, (j : Int)⟩
        [vArr (ofList ((xs.take j).map g) ++ List.replicate (xs.length - j) none), vInt (j : Int)]
      = .ok (some [vArr (ofList (xs.map g)), vInt (xs.length : Int)]) := by
  intro d
  induction d with
  | zero =>
    intro j extra hj
    have : j = xs.length := by omega
    subst this
    have hfuel : 0 + 1 + extra = extra + 1 := by omega
    rw [hfuel]
    simp [runLoop, next_end, emitCompLoop, lookup, bind, Except.bind, pure, Except.pure]
  | succ d ih =>
    intro j extra hj
    have hlt : j < xs.length := by omega
    have hfuel : d + 1 + 1 + extra = (d + 1 + extra) + 1 := by omega
    have hi : itousize (j : Int) = j := by
      rw [itousize_of_nonneg (by omega) (by omega)]; simp
    have hw : wrap64 ((j : Int) + 1) = ((j + 1 : Nat) : Int) := by
      rw [wrap64_succ (by omega) (by omega)]; simp
    have hjm : j < (xs.map g).length := by simpa using hlt
    have hget : (ofList ((xs.take j).map g) ++ List.replicate (xs.length - j) (none : Option α))[j]?
        = some none := by
      have := fill_get (xs.map g) j hjm
      simpa [ofList, List.map_take] using this
    have hset : (ofList ((xs.take j).map g) ++ List.replicate (xs.length - j) (none : Option α)).set j
        (some (g xs[j])) = ofList ((xs.take (j + 1)).map g) ++ List.replicate (xs.length - (j + 1)) none := by
      have := fill_set (xs.map g) j hjm
      simpa [ofList, List.map_take] using this
    rw [hfuel]
    simp only [runLoop, next_at true xs j hlt hn, emitCompLoop, bind, Except.bind, ne_eq,
      not_true_eq_false, ↓reduceIte, List.cons_append, List.nil_append, run_bodyC, hi, hget, hset, hw]
    have := ih (j + 1) extra (by omega)
    simpa [emitCompLoop] using this


/-! ### order in which the targets of an unpacking are bound -/

theorem assignOrder_starred (l r : Nat) : assignOrder l r true = List.range (l + 1 + r) := by
  simp [assignOrder]

theorem assignOrder_plain (l : Nat) : assignOrder l 0 false = List.range l := by
  simp [assignOrder]

/-- one binding step -/
def bind1 (names wires : List Nat) (env : List (Nat × Nat)) (t : Nat) : List (Nat × Nat) :=
  match names[t]?, wires[t]? with
  | some x, some w => (x, w) :: env.filter (·.1 ≠ x)
  | _, _ => env

theorem bindTargets_eq (names wires order : List Nat) :
    bindTargets names wires order = order.foldl (bind1 names wires) [] := rfl

theorem lookup_bind1 (names wires : List Nat) (env : List (Nat × Nat)) (t x : Nat) (hn : t < names.length)
    (hw : t < wires.length) :
    lookupName (bind1 names wires env t) x = if names[t] = x then some wires[t] else lookupName env x := by
  unfold bind1
  simp only [List.getElem?_eq_getElem hn, List.getElem?_eq_getElem hw]
  by_cases h : names[t] = x
  · simp [lookupName, h]
  · simp only [h, ↓reduceIte, lookupName]
    rw [List.find?_cons_of_neg (by simpa using h), List.find?_filter]
    congr 2
    funext a
    by_cases ha : a.1 = x
    · simp [ha, Ne.symm h]
    · simp [ha]

/-- after binding the targets of `order ++ [t]` one after the other, the name of `t` is bound to
    `t`'s wire, and every other name keeps the binding it had after `order` -/
theorem lookup_after_last (names wires order : List Nat) (t x : Nat) (hn : t < names.length)
    (hw : t < wires.length) :
    lookupName (bindTargets names wires (order ++ [t])) x =
      if names[t] = x then some wires[t] else lookupName (bindTargets names wires order) x := by
  rw [bindTargets_eq, List.foldl_append]
  exact lookup_bind1 names wires _ t x hn hw

theorem lookup_foldl_other (names wires : List Nat) (x : Nat) : ∀ (post : List Nat) (env : List (Nat × Nat)),
    (∀ t' ∈ post, t' < names.length ∧ t' < wires.length ∧ names[t']? ≠ some x) →
    lookupName (post.foldl (bind1 names wires) env) x = lookupName env x
  | [], env, _ => rfl
  | a :: post, env, h => by
    obtain ⟨h1, h2, h3⟩ := h a (by simp)
    rw [List.foldl_cons, lookup_foldl_other names wires x post _ (fun t' ht' => h t' (by simp [ht'])),
      lookup_bind1 names wires env a x h1 h2, if_neg]
    intro e; exact h3 (by rw [List.getElem?_eq_getElem h1, e])

/-- the binding that survives for a name is the one made at its LAST occurrence in the order -/
theorem lookup_last_occurrence (names wires pre post : List Nat) (t : Nat) (hn : t < names.length)
    (hw : t < wires.length)
    (hpost : ∀ t' ∈ post, t' < names.length ∧ t' < wires.length ∧ names[t']? ≠ some names[t]) :
    lookupName (bindTargets names wires (pre ++ t :: post)) names[t] = some wires[t] := by
  rw [bindTargets_eq, List.foldl_append, List.foldl_cons,
    lookup_foldl_other names wires names[t] post _ hpost, lookup_bind1 names wires _ t _ hn hw]
  simp


/-! ### frozenarray iteration -/

theorem fnext_at (xs : List α) (j : Nat) (h : j < xs.length) (hn : xs.length < 2 ^ 63) :
    fnext ⟨xs, (j : Int)⟩ = .ok (some (xs[j], ⟨xs, ((j + 1 : Nat) : Int)⟩)) := by
  have hi : itousize (j : Int) = j := by
    rw [itousize_of_nonneg (by omega) (by omega)]; simp
  have hw : wrap64 ((j : Int) + 1) = ((j + 1 : Nat) : Int) := by
    rw [wrap64_succ (by omega) (by omega)]; simp
  simp [fnext, frozenGet, hi, h, hw, bind, Except.bind, pure, Except.pure]

theorem fnext_end (xs : List α) : fnext ⟨xs, (xs.length : Int)⟩ = .ok none := by
  simp [fnext, pure, Except.pure]

theorem fdrain_from (xs : List α) (hn : xs.length < 2 ^ 63) :
    ∀ (d j extra : Nat), j + d = xs.length →
      fdrain (d + 1 + extra) ⟨xs, (j : Int)⟩ = .ok (some (xs.drop j)) := by
  intro d
  induction d with
  | zero =>
    intro j extra hj
    have : j = xs.length := by omega
    subst this
    have hfuel : 0 + 1 + extra = extra + 1 := by omega
    rw [hfuel]
    simp [fdrain, fnext_end, bind, Except.bind, pure, Except.pure]
  | succ d ih =>
    intro j extra hj
    have hlt : j < xs.length := by omega
    have := ih (j + 1) extra (by omega)
    have hfuel : d + 1 + 1 + extra = (d + 1 + extra) + 1 := by omega
    rw [hfuel]
    simp only [fdrain, fnext_at xs j hlt hn, bind, Except.bind, this, pure, Except.pure]
    simp

/-! unfolding lemmas are generated here (not in `Props/`) -/
theorem runOps_nil (st : Cells α × List α) : runOps st [] = pure st := by simp [runOps]
theorem runL_nil (st : Cells α × List α) : runL st [] = pure st := by simp [runL]
theorem pyRun_nil (st : List α × List α) : pyRun st [] = some st := by simp [pyRun]
theorem refRun_nil (st : Ref α × List α) : refRun st [] = some st := by simp [refRun]

end GuppyVerif.ArraySem
