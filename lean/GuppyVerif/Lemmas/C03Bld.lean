import GuppyVerif.Lemmas.C03State
/-! # C03 helper lemmas, part 3: structural invariants of `bld` (ExprBuilder / BranchBuilder)

* `bld_good`: building an expression from an open block `b` only appends to `b` and creates fresh
  blocks; in value mode it ends in an open block that is `b` or fresh.
* `bld_residual`: the residual expression contains no lifted construct, its calls are `resCalls`, its
  variables are `resReads` plus temporaries drawn during this build.
* `bld_nolift`: an expression without lifted constructs is built without emitting anything. -/
namespace GuppyVerif.Builder
open GuppyVerif.Surface

structure GoodV (σ : BState) (b : Nat) (b' : Nat) (σ' : BState) : Prop where
  touch : Touch σ b σ'
  cur : b' = b ∨ σ.len ≤ b'
  lt : b' < σ'.len
  opn : (σ'.blk b').succs = []

theorem GoodV.refl {σ : BState} {b : Nat} (hb : b < σ.len) (ho : (σ.blk b).succs = []) : GoodV σ b b σ :=
  ⟨Touch.refl _ _, Or.inl rfl, hb, ho⟩

theorem GoodV.trans {σ σ1 σ2 : BState} {b b1 b2 : Nat} (hb : b < σ.len) (h1 : GoodV σ b b1 σ1)
    (h2 : GoodV σ1 b1 b2 σ2) : GoodV σ b b2 σ2 := by
  refine ⟨h1.touch.trans h2.touch hb h1.cur, ?_, h2.lt, h2.opn⟩
  have := h1.touch.len
  rcases h2.cur with h | h <;> rcases h1.cur with h' | h' <;> omega

/-- a further step that touches the current block without closing it -/
theorem GoodV.step {σ σ1 σ2 : BState} {b b1 : Nat} (hb : b < σ.len) (h1 : GoodV σ b b1 σ1)
    (h2 : Touch σ1 b1 σ2) (ho : (σ2.blk b1).succs = []) : GoodV σ b b1 σ2 :=
  ⟨h1.touch.trans h2 hb h1.cur, h1.cur, Nat.lt_of_lt_of_le h1.lt h2.len, ho⟩

theorem empty_of_ge (σ : BState) {i : Nat} (h : σ.len ≤ i) : σ.blk i = {} := by
  simp [BState.blk, blkL, List.getElem?_eq_none h]


theorem blk_bad (σ : BState) (v : Bool) (i : Nat) : ({ σ with bad := v } : BState).blk i = σ.blk i := rfl

/-- `new x; F1 from b; F2 from x` (the shape of `visit_BoolOp`) -/
theorem sc_body {σp : BState} {b : Nat} (hb : b < σp.len) (ho : (σp.blk b).succs = [])
    (n : Nat) (hn : σp.len = n) (F1 F2 : BState → BState)
    (hF1 : ∀ σ, b < σ.len → (σ.blk b).succs = [] → Touch σ b (F1 σ))
    (hF2 : ∀ σ, n < σ.len → (σ.blk n).succs = [] → Touch σ n (F2 σ)) :
    Touch σp b (F2 (F1 (newBB σp).2)) ∧ n + 1 ≤ (F2 (F1 (newBB σp).2)).len := by
  subst hn
  have hb' : b < (newBB σp).2.len := by simp; omega
  have ho' : ((newBB σp).2.blk b).succs = [] := by rw [blk_newBB_old σp b hb]; exact ho
  have h1 := hF1 _ hb' ho'
  have hl1 := h1.len
  simp only [len_newBB] at hl1
  have hxo : ((F1 (newBB σp).2).blk σp.len).succs = [] := by
    rw [h1.frame _ (by simp) (by omega), blk_newBB_new]
  have h2 := hF2 _ (by omega) hxo
  have hl2 := h2.len
  exact ⟨((touch_newBB σp b).trans h1 hb (Or.inl rfl)).trans h2 hb (Or.inr (Nat.le_refl _)), by omega⟩

/-- value mode of a short-circuit expression: `tmp = True` / `tmp = False`, merge block -/
theorem scPost_val_good {σ σ2 : BState} {b : Nat} (hb : b < σ.len) (hT : Touch σ b σ2) (t' f' : Nat)
    (ht : σ.len ≤ t' ∧ t' < σ2.len) (hf : σ.len ≤ f' ∧ f' < σ2.len) :
    GoodV σ b (scPost .val t' f' b σ2).2.1 (scPost .val t' f' b σ2).2.2 := by
  simp only [scPost, newBB2]
  refine ⟨?_, ?_, ?_, ?_⟩
  · refine Touch.trans (Touch.trans (Touch.trans (Touch.trans (Touch.trans (Touch.trans hT
      (touch_freshTmp _ b) hb (Or.inl rfl)) (touch_addStmt t' _ _) hb (Or.inr ht.1))
      (touch_addStmt f' _ _) hb (Or.inr hf.1)) (touch_newBB _ b) hb (Or.inl rfl))
      (touch_link t' _ _) hb (Or.inr ht.1)) (touch_link f' _ _) hb (Or.inr hf.1)
  · right; have := hT.len; simp; omega
  · simp
  · rw [blk_link_other _ _ _ _ (by simp; omega), blk_link_other _ _ _ _ (by simp; omega)]
    have := blk_newBB_new (addStmt f' (.assign (.tmp (freshTmp σ2).1) (.bool false))
      (addStmt t' (.assign (.tmp (freshTmp σ2).1) (.bool true)) (freshTmp σ2).2))
    simp only [len_addStmt, len_freshTmp] at this
    simp only [fst_newBB, len_addStmt, len_freshTmp]
    rw [this]

theorem scPre_val (σ : BState) : scPre .val σ = (σ.len, σ.len + 1, (newBB (newBB σ).2).2) := by
  simp [scPre]

theorem touch_scPre_val (σ : BState) (b : Nat) (hb : b < σ.len) : Touch σ b (newBB (newBB σ).2).2 :=
  (touch_newBB σ b).trans (touch_newBB _ b) hb (Or.inl rfl)

/-- the invariant proved for every expression by `bld_good` -/
def GoodE (e : Expr) : Prop := ∀ (m : Mode) (b : Nat) (σ : BState), b < σ.len → (σ.blk b).succs = [] →
    match m with
    | .val => GoodV σ b (bld e .val b σ).2.1 (bld e .val b σ).2.2
    | .br t f => Touch σ b (bld e (.br t f) b σ).2.2

/-- storing an operand in a temporary keeps the current block open -/
theorem preBind_good {σ σ' : BState} {b b' : Nat} (hb : b < σ.len) (h : GoodV σ b b' σ') (c : Bool) (e : Expr) :
    GoodV σ b b' (preBind c e b' σ').2 := by
  cases c with
  | false => exact h
  | true =>
    simp only [preBind, if_true, bindTmp]
    have h1 : GoodV σ b b' (freshTmp σ').2 := GoodV.step hb h (touch_freshTmp _ _) h.opn
    exact GoodV.step hb h1 (touch_addStmt _ _ _) (by
      rw [blk_addStmt_same _ _ _ (by simpa using h.lt)]; exact h.opn)

theorem preBind_tmp (c : Bool) (e : Expr) (b : Nat) (σ : BState) : σ.nextTmp ≤ (preBind c e b σ).2.nextTmp := by
  cases c <;> simp [preBind, bindTmp]

/-- the state after the two comparisons of a chained comparison (shape of `visit_Compare`) -/
def cmp2Body (o1 o2 : CmpOp) (l mid r : Expr) (t' f' b : Nat) (σp : BState) : BState :=
  let x := newBB σp
  let a := bld l .val b x.2
  let p := preBind ((lifts mid || !atomicSyn mid) && needBind a.1 mid) a.1 a.2.1 a.2.2
  let c := bld mid .val a.2.1 p.2
  let pm := preBind (!stable c.1 r) c.1 c.2.1 c.2.2
  let σ1 := branchOn c.2.1 (.bi (.cmp o1) p.1 pm.1) x.1 f' pm.2
  let p2 := preBind (lifts r && needBind pm.1 r) pm.1 x.1 σ1
  let d := bld r .val x.1 p2.2
  branchOn d.2.1 (.bi (.cmp o2) p2.1 d.1) t' f' d.2.2

theorem cmp2_body {o1 o2 : CmpOp} {l mid r : Expr} (hl : GoodE l) (hm : GoodE mid) (hr : GoodE r)
    {σp : BState} {b : Nat} (hb : b < σp.len) (ho : (σp.blk b).succs = []) (t' f' : Nat) :
    Touch σp b (cmp2Body o1 o2 l mid r t' f' b σp) ∧ σp.len + 1 ≤ (cmp2Body o1 o2 l mid r t' f' b σp).len := by
  simp only [cmp2Body, fst_newBB]
  have hb' : b < (newBB σp).2.len := by simp; omega
  have ho' : ((newBB σp).2.blk b).succs = [] := by rw [blk_newBB_old σp b hb]; exact ho
  have ga := hl .val b _ hb' ho'
  generalize bld l .val b (newBB σp).2 = a at *
  have gp := preBind_good hb' ga ((lifts mid || !atomicSyn mid) && needBind a.1 mid) a.1
  generalize preBind ((lifts mid || !atomicSyn mid) && needBind a.1 mid) a.1 a.2.1 a.2.2 = p at *
  have gc := hm .val _ _ gp.lt gp.opn
  have gac := GoodV.trans hb' gp gc
  generalize bld mid .val a.2.1 p.2 = c at *
  have gm := preBind_good hb' gac (!stable c.1 r) c.1
  generalize preBind (!stable c.1 r) c.1 c.2.1 c.2.2 = pm at *
  have t1 : Touch (newBB σp).2 b (branchOn c.2.1 (.bi (.cmp o1) p.1 pm.1) σp.len f' pm.2) :=
    gm.touch.trans (touch_branchOn _ _ _ _ _) hb' gm.cur
  generalize hσ1 : branchOn c.2.1 (.bi (.cmp o1) p.1 pm.1) σp.len f' pm.2 = σ1 at *
  have hl1 := t1.len
  simp only [len_newBB] at hl1
  have hxo : (σ1.blk σp.len).succs = [] := by
    rw [t1.frame _ (by simp) (by omega), blk_newBB_new]
  have g0 : GoodV σ1 σp.len σp.len σ1 := GoodV.refl (by omega) hxo
  have gp2 := preBind_good (σ := σ1) (by omega) g0 (lifts r && needBind pm.1 r) pm.1
  generalize preBind (lifts r && needBind pm.1 r) pm.1 σp.len σ1 = p2 at *
  have gd := hr .val _ _ gp2.lt gp2.opn
  have gcd := GoodV.trans (σ := σ1) (by omega) gp2 gd
  generalize bld r .val σp.len p2.2 = d at *
  have t2 : Touch σ1 σp.len (branchOn d.2.1 (.bi (.cmp o2) p2.1 d.1) t' f' d.2.2) :=
    gcd.touch.trans (touch_branchOn _ _ _ _ _) (by omega) gcd.cur
  have hl2 := t2.len
  refine ⟨((touch_newBB σp b).trans t1 hb (Or.inl rfl)).trans t2 hb (Or.inr (Nat.le_refl _)), by omega⟩

theorem ite_pre {c : Expr} (hc : GoodE c) {σ : BState} {b : Nat} (hb : b < σ.len) (ho : (σ.blk b).succs = []) :
    let σ1 := (bld c (.br σ.len (σ.len + 1)) b (newBB (newBB σ).2).2).2.2
    Touch σ b σ1 ∧ σ.len + 2 ≤ σ1.len ∧ (σ1.blk σ.len).succs = [] ∧ (σ1.blk (σ.len + 1)).succs = [] := by
  intro σ1
  have hb' : b < (newBB (newBB σ).2).2.len := by simp; omega
  have ho' : ((newBB (newBB σ).2).2.blk b).succs = [] := by
    rw [blk_newBB_old _ b (by simp; omega), blk_newBB_old σ b hb]; exact ho
  have t1 : Touch _ b σ1 := hc (.br σ.len (σ.len + 1)) b _ hb' ho'
  have hl1 := t1.len
  simp only [len_newBB] at hl1
  refine ⟨(touch_scPre_val σ b hb).trans t1 hb (Or.inl rfl), by omega, ?_, ?_⟩
  · rw [t1.frame σ.len (by simp; omega) (by omega), blk_newBB_old _ _ (by simp), blk_newBB_new]
  · rw [t1.frame (σ.len + 1) (by simp) (by omega)]
    have := blk_newBB_new (newBB σ).2
    simp only [len_newBB] at this
    rw [this]

theorem ite_br_good {c x y : Expr} (hc : GoodE c) (hx : GoodE x) (hy : GoodE y) {σ : BState} {b : Nat}
    (hb : b < σ.len) (ho : (σ.blk b).succs = []) (t f : Nat) :
    Touch σ b (bld y (.br t f) (σ.len + 1) (bld x (.br t f) σ.len
      (bld c (.br σ.len (σ.len + 1)) b (newBB (newBB σ).2).2).2.2).2.2).2.2 := by
  obtain ⟨t01, hl1, htb, heb⟩ := ite_pre hc hb ho
  generalize (bld c (.br σ.len (σ.len + 1)) b (newBB (newBB σ).2).2).2.2 = σ1 at *
  have t2 : Touch σ1 σ.len _ := hx (.br t f) σ.len σ1 (by omega) htb
  have heb2 : ((bld x (.br t f) σ.len σ1).2.2.blk (σ.len + 1)).succs = [] := by
    rw [t2.frame (σ.len + 1) (by omega) (by omega)]; exact heb
  have hl2 := t2.len
  have t3 : Touch _ (σ.len + 1) _ := hy (.br t f) (σ.len + 1) _ (by omega) heb2
  exact (t01.trans t2 hb (Or.inr (Nat.le_refl _))).trans t3 hb (Or.inr (by omega))

/-- the result of `ExprBuilder.visit_IfExp` given the two built branches -/
def iteMerge (u v : R) : R :=
  let k := freshTmp v.2.2
  let σ2 := addStmt u.2.1 (.assign (.tmp k.1) u.1) k.2
  let σ3 := addStmt v.2.1 (.assign (.tmp k.1) v.1) σ2
  let mb := newBB2 u.2.1 v.2.1 σ3
  (.var (.tmp k.1), mb.1, mb.2)

theorem iteMerge_good {σ : BState} {b : Nat} (hb : b < σ.len) (u v : R) (hT : Touch σ b v.2.2)
    (hu : σ.len ≤ u.2.1 ∧ u.2.1 < v.2.2.len) (hv : σ.len ≤ v.2.1 ∧ v.2.1 < v.2.2.len) :
    GoodV σ b (iteMerge u v).2.1 (iteMerge u v).2.2 := by
  simp only [iteMerge, newBB2]
  refine ⟨?_, ?_, ?_, ?_⟩
  · refine Touch.trans (Touch.trans (Touch.trans (Touch.trans (Touch.trans (Touch.trans hT
      (touch_freshTmp _ b) hb (Or.inl rfl)) (touch_addStmt u.2.1 _ _) hb (Or.inr hu.1))
      (touch_addStmt v.2.1 _ _) hb (Or.inr hv.1)) (touch_newBB _ b) hb (Or.inl rfl))
      (touch_link u.2.1 _ _) hb (Or.inr hu.1)) (touch_link v.2.1 _ _) hb (Or.inr hv.1)
  · right; have := hT.len; simp; omega
  · simp
  · rw [blk_link_other _ _ _ _ (by simp; omega), blk_link_other _ _ _ _ (by simp; omega)]
    have := blk_newBB_new (addStmt v.2.1 (.assign (.tmp (freshTmp v.2.2).1) v.1)
      (addStmt u.2.1 (.assign (.tmp (freshTmp v.2.2).1) u.1) (freshTmp v.2.2).2))
    simp only [len_addStmt, len_freshTmp] at this
    simp only [fst_newBB, len_addStmt, len_freshTmp]
    rw [this]

theorem ite_val_good' {x y : Expr} (hx : GoodE x) (hy : GoodE y) {σ σ1 : BState} {b : Nat}
    (hb : b < σ.len) (t01 : Touch σ b σ1) (hl1 : σ.len + 2 ≤ σ1.len) (htb : (σ1.blk σ.len).succs = [])
    (heb : (σ1.blk (σ.len + 1)).succs = []) :
    GoodV σ b (iteMerge (bld x .val σ.len σ1) (bld y .val (σ.len + 1) (bld x .val σ.len σ1).2.2)).2.1
      (iteMerge (bld x .val σ.len σ1) (bld y .val (σ.len + 1) (bld x .val σ.len σ1).2.2)).2.2 := by
  have gu : GoodV σ1 σ.len _ _ := hx .val σ.len σ1 (by omega) htb
  have hlu := gu.touch.len
  have heb2 : ((bld x .val σ.len σ1).2.2.blk (σ.len + 1)).succs = [] := by
    rw [gu.touch.frame (σ.len + 1) (by omega) (by omega)]; exact heb
  have gv : GoodV _ (σ.len + 1) _ _ := hy .val (σ.len + 1) _ (by omega) heb2
  have hlv := gv.touch.len
  generalize bld x .val σ.len σ1 = u at *
  generalize bld y .val (σ.len + 1) u.2.2 = v at *
  have hub : σ.len ≤ u.2.1 := by rcases gu.cur with h | h <;> omega
  have hvb : σ.len ≤ v.2.1 := by rcases gv.cur with h | h <;> omega
  have hult := gu.lt
  exact iteMerge_good hb u v
    ((t01.trans gu.touch hb (Or.inr (Nat.le_refl _))).trans gv.touch hb (Or.inr (by omega)))
    ⟨hub, by omega⟩ ⟨hvb, gv.lt⟩

theorem ite_val_good {c x y : Expr} (hc : GoodE c) (hx : GoodE x) (hy : GoodE y) {σ : BState} {b : Nat}
    (hb : b < σ.len) (ho : (σ.blk b).succs = []) :
    GoodV σ b (iteMerge (bld x .val σ.len (bld c (.br σ.len (σ.len + 1)) b (newBB (newBB σ).2).2).2.2)
        (bld y .val (σ.len + 1) (bld x .val σ.len (bld c (.br σ.len (σ.len + 1)) b (newBB (newBB σ).2).2).2.2).2.2)).2.1
      (iteMerge (bld x .val σ.len (bld c (.br σ.len (σ.len + 1)) b (newBB (newBB σ).2).2).2.2)
        (bld y .val (σ.len + 1) (bld x .val σ.len (bld c (.br σ.len (σ.len + 1)) b (newBB (newBB σ).2).2).2.2).2.2)).2.2 := by
  obtain ⟨t01, hl1, htb, heb⟩ := ite_pre hc hb ho
  exact ite_val_good' hx hy hb t01 hl1 htb heb

theorem bld_good (e : Expr) : ∀ (m : Mode) (b : Nat) (σ : BState), b < σ.len → (σ.blk b).succs = [] →
    match m with
    | .val => GoodV σ b (bld e .val b σ).2.1 (bld e .val b σ).2.2
    | .br t f => Touch σ b (bld e (.br t f) b σ).2.2 := by
  induction e with
  | var x => intro m b σ hb ho; cases m with
    | val => exact GoodV.refl hb ho
    | br t f => exact touch_branchOn _ _ _ _ _
  | num n => intro m b σ hb ho; cases m with
    | val => exact GoodV.refl hb ho
    | br t f => exact touch_branchOn _ _ _ _ _
  | call0 g => intro m b σ hb ho; cases m with
    | val => exact GoodV.refl hb ho
    | br t f => exact touch_branchOn _ _ _ _ _
  | bool v => intro m b σ hb ho; cases m with
    | val => exact GoodV.refl hb ho
    | br t f =>
      simp only [bld]
      exact (touch_link _ _ _).trans (touch_dummyLink _ _ _) hb (Or.inl rfl)
  | un o e ih =>
    intro m b σ hb ho
    have hv := ih .val b σ hb ho
    cases m with
    | val =>
      simp only [bld]
      cases hf : foldNeg o e with
      | some n => cases o <;> simp only [hf, finish] <;> exact GoodV.refl hb ho
      | none => cases o <;> simp only [hf, finish] <;> exact hv
    | br t f =>
      cases o with
      | not => simp only [bld]; exact ih (.br f t) b σ hb ho
      | neg =>
        simp only [bld]
        cases hf : foldNeg .neg e with
        | some n => simp only [finish]; exact touch_branchOn _ _ _ _ _
        | none => simp only [finish]; exact hv.touch.trans (touch_branchOn _ _ _ _ _) hb hv.cur
      | prim p =>
        simp only [bld, foldNeg, finish]; exact hv.touch.trans (touch_branchOn _ _ _ _ _) hb hv.cur
      | call1 g =>
        simp only [bld, foldNeg, finish]; exact hv.touch.trans (touch_branchOn _ _ _ _ _) hb hv.cur
  | bi o l r ihl ihr =>
    intro m b σ hb ho
    have h1 := ihl .val b σ hb ho
    have hp := preBind_good hb h1 (lifts r && needBind (bld l .val b σ).1 r) (bld l .val b σ).1
    have h2 := ihr .val _ _ hp.lt hp.opn
    have h12 := GoodV.trans hb hp h2
    cases m with
    | val => simp only [bld, finish]; exact h12
    | br t f => simp only [bld, finish]; exact h12.touch.trans (touch_branchOn _ _ _ _ _) hb h12.cur
  | walrus x e ih =>
    intro m b σ hb ho
    have h1 := ih .val b σ hb ho
    have h2 : GoodV σ b (bld e .val b σ).2.1 (addStmt (bld e .val b σ).2.1 (.assign x (bld e .val b σ).1) (bld e .val b σ).2.2) :=
      GoodV.step hb h1 (touch_addStmt _ _ _) (by rw [blk_addStmt_same _ _ _ h1.lt]; exact h1.opn)
    cases m with
    | val => simp only [bld, finish]; exact h2
    | br t f => simp only [bld, finish]; exact h2.touch.trans (touch_branchOn _ _ _ _ _) hb h2.cur
  | and l r ihl ihr =>
    intro m b σ hb ho
    cases m with
    | br t f =>
      simp only [bld, scPre, scPost, fst_newBB]
      exact (sc_body hb ho σ.len rfl (fun s => (bld l (.br σ.len f) b s).2.2) (fun s => (bld r (.br t f) σ.len s).2.2)
        (fun s h1 h2 => ihl (.br σ.len f) b s h1 h2) (fun s h1 h2 => ihr (.br t f) σ.len s h1 h2)).1
    | val =>
      simp only [bld, scPre_val, fst_newBB, len_newBB]
      have hb' : b < (newBB (newBB σ).2).2.len := by simp; omega
      have ho' : ((newBB (newBB σ).2).2.blk b).succs = [] := by
        rw [blk_newBB_old _ b (by simp; omega), blk_newBB_old σ b hb]; exact ho
      have h := sc_body hb' ho' (σ.len + 1 + 1) (by simp) (fun s => (bld l (.br (σ.len + 1 + 1) (σ.len + 1)) b s).2.2)
        (fun s => (bld r (.br σ.len (σ.len + 1)) (σ.len + 1 + 1) s).2.2)
        (fun s h1 h2 => ihl (.br _ _) b s h1 h2)
        (fun s h1 h2 => ihr (.br _ _) _ s h1 h2)
      exact scPost_val_good hb ((touch_scPre_val σ b hb).trans h.1 hb (Or.inl rfl)) _ _
        ⟨Nat.le_refl _, by omega⟩ ⟨by omega, by omega⟩
  | or l r ihl ihr =>
    intro m b σ hb ho
    cases m with
    | br t f =>
      simp only [bld, scPre, scPost, fst_newBB]
      exact (sc_body hb ho σ.len rfl (fun s => (bld l (.br t σ.len) b s).2.2) (fun s => (bld r (.br t f) σ.len s).2.2)
        (fun s h1 h2 => ihl (.br t σ.len) b s h1 h2) (fun s h1 h2 => ihr (.br t f) σ.len s h1 h2)).1
    | val =>
      simp only [bld, scPre_val, fst_newBB, len_newBB]
      have hb' : b < (newBB (newBB σ).2).2.len := by simp; omega
      have ho' : ((newBB (newBB σ).2).2.blk b).succs = [] := by
        rw [blk_newBB_old _ b (by simp; omega), blk_newBB_old σ b hb]; exact ho
      have h := sc_body hb' ho' (σ.len + 1 + 1) (by simp) (fun s => (bld l (.br σ.len (σ.len + 1 + 1)) b s).2.2)
        (fun s => (bld r (.br σ.len (σ.len + 1)) (σ.len + 1 + 1) s).2.2)
        (fun s h1 h2 => ihl (.br _ _) b s h1 h2)
        (fun s h1 h2 => ihr (.br _ _) _ s h1 h2)
      exact scPost_val_good hb ((touch_scPre_val σ b hb).trans h.1 hb (Or.inl rfl)) _ _
        ⟨Nat.le_refl _, by omega⟩ ⟨by omega, by omega⟩
  | cmp2 o1 o2 l mid r ihl ihm ihr =>
    intro m b σ hb ho
    cases m with
    | br t f =>
      simp only [bld, scPre, scPost]
      exact (cmp2_body ihl ihm ihr hb ho t f).1
    | val =>
      simp only [bld, scPre_val]
      have hb' : b < (newBB (newBB σ).2).2.len := by simp; omega
      have ho' : ((newBB (newBB σ).2).2.blk b).succs = [] := by
        rw [blk_newBB_old _ b (by simp; omega), blk_newBB_old σ b hb]; exact ho
      have h := cmp2_body (o1 := o1) (o2 := o2) ihl ihm ihr hb' ho' σ.len (σ.len + 1)
      simp only [len_newBB] at h
      exact scPost_val_good hb ((touch_scPre_val σ b hb).trans h.1 hb (Or.inl rfl)) _ _
        ⟨Nat.le_refl _, by omega⟩ ⟨by omega, by omega⟩
  | ite c x y ihc ihx ihy =>
    intro m b σ hb ho
    cases m with
    | br t f => simp only [bld, fst_newBB, len_newBB]; exact ite_br_good ihc ihx ihy hb ho t f
    | val => simp only [bld, fst_newBB, len_newBB]; exact ite_val_good ihc ihx ihy hb ho

theorem foldNeg_some {o : UnOp} {e : Expr} {n : Int} (h : foldNeg o e = some n) :
    o = .neg ∧ e = .num (-n) := by
  cases o <;> cases e <;> simp [foldNeg] at h
  subst h; simp

theorem scPost_val_fst (t f b : Nat) (σ : BState) : (scPost .val t f b σ).1 = .var (.tmp σ.nextTmp) := rfl
theorem scPost_val_tmp (t f b : Nat) (σ : BState) : (scPost .val t f b σ).2.2.nextTmp = σ.nextTmp + 1 := by
  simp [scPost, newBB2]

theorem preBind_fst (c : Bool) (e : Expr) (b : Nat) (σ : BState) :
    (preBind c e b σ).1 = e ∨ ((preBind c e b σ).1 = .var (.tmp σ.nextTmp) ∧ (preBind c e b σ).2.nextTmp = σ.nextTmp + 1) := by
  cases c <;> simp [preBind, bindTmp]

/-- facts about the residual expression of a value-mode build: it contains no lifted construct, makes no
    call unless the source does, and its variables are variables of the source or temporaries already drawn -/
theorem bld_residual (e : Expr) : ∀ (b : Nat) (σ : BState), b < σ.len → (σ.blk b).succs = [] →
    lifts (bld e .val b σ).1 = false ∧ (anyCall e = false → anyCall (bld e .val b σ).1 = false) ∧
    ∀ x ∈ vars (bld e .val b σ).1, x ∈ vars e ∨ ∃ k, x = .tmp k ∧ k < (bld e .val b σ).2.2.nextTmp := by
  induction e with
  | var x => intro b σ _ _; simp [bld, finish, lifts, anyCall, vars]
  | num n => intro b σ _ _; simp [bld, finish, lifts, anyCall, vars]
  | bool v => intro b σ _ _; simp [bld, lifts, anyCall, vars]
  | call0 g => intro b σ _ _; simp [bld, finish, lifts, anyCall, vars]
  | un o e ih =>
    intro b σ hb ho
    obtain ⟨h1, h2, h3⟩ := ih b σ hb ho
    cases hf : foldNeg o e with
    | some n =>
      obtain ⟨rfl, rfl⟩ := foldNeg_some hf
      simp [bld, foldNeg, finish, lifts, anyCall, vars]
    | none =>
      have : bld (.un o e) .val b σ = (.un o (bld e .val b σ).1, (bld e .val b σ).2.1, (bld e .val b σ).2.2) := by
        cases o <;> simp only [bld, hf, finish]
      rw [this]
      refine ⟨h1, ?_, h3⟩
      intro hc
      simp only [anyCall, Bool.or_eq_false_iff] at hc ⊢
      exact ⟨hc.1, h2 hc.2⟩
  | bi o l r ihl ihr =>
    intro b σ hb ho
    have ga : GoodV σ b (bld l .val b σ).2.1 (bld l .val b σ).2.2 := bld_good l .val b σ hb ho
    obtain ⟨h1, h2, h3⟩ := ihl b σ hb ho
    have gp := preBind_good hb ga (lifts r && needBind (bld l .val b σ).1 r) (bld l .val b σ).1
    have hpt := preBind_tmp (lifts r && needBind (bld l .val b σ).1 r) (bld l .val b σ).1 (bld l .val b σ).2.1 (bld l .val b σ).2.2
    have hpf := preBind_fst (lifts r && needBind (bld l .val b σ).1 r) (bld l .val b σ).1 (bld l .val b σ).2.1 (bld l .val b σ).2.2
    simp only [bld, finish]
    generalize preBind (lifts r && needBind (bld l .val b σ).1 r) (bld l .val b σ).1 (bld l .val b σ).2.1 (bld l .val b σ).2.2 = p at *
    obtain ⟨g1, g2, g3⟩ := ihr _ _ gp.lt gp.opn
    have gc := (bld_good r .val _ _ gp.lt gp.opn : GoodV _ _ _ _).touch.tmp
    refine ⟨?_, ?_, ?_⟩
    · simp only [lifts, g1, Bool.or_false]
      rcases hpf with h | ⟨h, _⟩ <;> rw [h]
      · exact h1
      · rfl
    · intro hc
      simp only [anyCall, Bool.or_eq_false_iff] at hc ⊢
      refine ⟨⟨hc.1.1, ?_⟩, g2 hc.2⟩
      rcases hpf with h | ⟨h, _⟩ <;> rw [h]
      · exact h2 hc.1.2
      · rfl
    · intro x hx
      simp only [vars, List.mem_append] at hx ⊢
      rcases hx with hx | hx
      · rcases hpf with h | ⟨h, h'⟩
        · rw [h] at hx
          rcases h3 x hx with h4 | ⟨k, rfl, hk⟩
          · exact Or.inl (Or.inl h4)
          · exact Or.inr ⟨k, rfl, by omega⟩
        · rw [h] at hx
          simp only [vars, List.mem_singleton] at hx
          exact Or.inr ⟨_, hx, by omega⟩
      · rcases g3 x hx with h4 | ⟨k, rfl, hk⟩
        · exact Or.inl (Or.inr h4)
        · exact Or.inr ⟨k, rfl, hk⟩
  | walrus x e ih => intro b σ _ _; simp [bld, finish, lifts, anyCall, vars]
  | and l r _ _ =>
    intro b σ _ _
    simp only [bld, scPost_val_fst, scPost_val_tmp, lifts, anyCall, vars, List.mem_singleton, true_and]
    exact ⟨fun _ => trivial, fun x hx => Or.inr ⟨_, hx, Nat.lt_succ_self _⟩⟩
  | or l r _ _ =>
    intro b σ _ _
    simp only [bld, scPost_val_fst, scPost_val_tmp, lifts, anyCall, vars, List.mem_singleton, true_and]
    exact ⟨fun _ => trivial, fun x hx => Or.inr ⟨_, hx, Nat.lt_succ_self _⟩⟩
  | cmp2 o1 o2 l m r _ _ _ =>
    intro b σ _ _
    simp only [bld, scPost_val_fst, scPost_val_tmp, lifts, anyCall, vars, List.mem_singleton, true_and]
    exact ⟨fun _ => trivial, fun x hx => Or.inr ⟨_, hx, Nat.lt_succ_self _⟩⟩
  | ite c x y _ _ _ =>
    intro b σ _ _
    simp only [bld, newBB2, lifts, anyCall, vars, List.mem_singleton, true_and, tmp_link, tmp_newBB,
      tmp_addStmt, tmp_freshTmp, fst_freshTmp]
    exact ⟨fun _ => trivial, fun x hx => Or.inr ⟨_, hx, Nat.lt_succ_self _⟩⟩

/-- an expression without lifted constructs is built without emitting anything -/
theorem bld_nolift (e : Expr) (h : lifts e = false) : ∀ (b : Nat) (σ : BState),
    (bld e .val b σ).2 = (b, σ) ∧ ∀ (env : Env) (s : S), eval env (bld e .val b σ).1 s = eval env e s := by
  induction e with
  | var x => intro b σ; simp [bld, finish]
  | num n => intro b σ; simp [bld, finish]
  | bool v => intro b σ; simp [bld]
  | call0 g => intro b σ; simp [bld, finish]
  | un o e ih =>
    intro b σ
    obtain ⟨h1, h2⟩ := ih h b σ
    cases hf : foldNeg o e with
    | some n =>
      obtain ⟨rfl, rfl⟩ := foldNeg_some hf
      simp [bld, foldNeg, finish, eval, applyUn, Val.toInt]
    | none =>
      have : bld (.un o e) .val b σ = (.un o (bld e .val b σ).1, (bld e .val b σ).2.1, (bld e .val b σ).2.2) := by
        cases o <;> simp only [bld, hf, finish]
      rw [this]
      refine ⟨h1, ?_⟩
      intro env s; simp only [eval, h2]
  | bi o l r ihl ihr =>
    intro b σ
    simp only [lifts, Bool.or_eq_false_iff] at h
    obtain ⟨h1, h2⟩ := ihl h.1 b σ
    have e1 : (bld l .val b σ).2.1 = b := congrArg Prod.fst h1
    have e2 : (bld l .val b σ).2.2 = σ := congrArg Prod.snd h1
    obtain ⟨g1, g2⟩ := ihr h.2 b σ
    simp only [bld, finish, h.2, Bool.false_and, preBind, Bool.false_eq_true, if_false, e1, e2]
    refine ⟨g1, ?_⟩
    intro env s; simp only [eval, h2, g2]
  | _ => simp [lifts] at h

end GuppyVerif.Builder
