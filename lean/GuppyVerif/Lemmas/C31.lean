import GuppyVerif.Spec.C31
/-! Helper lemmas for C31, part 1: the reader applied to printed first-order types. -/
namespace GuppyVerif.Print

/-! ## Stage 1: generic facts about `parseExpr` / `parseItems` / `parseMore` -/

/-- the continuation of an item never starts with `[` -/
def NoBrack (rest : List Tok) : Prop := rest.head? ≠ some .lbrack

theorem parseExpr_ident (f : Nat) (s : String) (v : Option Nat) (rest : List Tok) (h : NoBrack rest) :
    parseExpr (f + 1) (.ident s v :: rest) = .ok (.name s, rest) := by
  cases rest with
  | nil => simp [parseExpr]
  | cons t r => cases t <;> simp_all [parseExpr, NoBrack]

def closeTok (br : Bool) : Tok := if br then .rbrack else .rpar

@[simp] theorem isClose_closeTok (br : Bool) : isClose br (closeTok br) = true := by
  cases br <;> simp [closeTok, isClose]

/-- an item: its tokens and the expression they denote -/
abbrev Item := List Tok × Ast

/-- the item starts with a token that opens an expression, and `parseExpr` reads it back whatever
    follows (as long as that is not a `[`) -/
def ItemOK (it : Item) : Prop :=
  (∃ t r, it.1 = t :: r ∧ (∀ br, isClose br t = false) ∧ t ≠ .comma) ∧
    ∀ g rest, it.1.length < g → NoBrack rest → parseExpr g (it.1 ++ rest) = .ok (it.2, rest)

/-- `", ".join` -/
def joinToks : List (List Tok) → Bool → List Tok
  | [], _ => []
  | x :: xs, sep => sepToks sep ++ x ++ joinToks xs true

theorem noBrack_tail (xs : List (List Tok)) (trailing br : Bool) (rest : List Tok)
    (h : ∀ x ∈ xs, x ≠ []) :
    NoBrack (joinToks xs true ++ sepToks trailing ++ closeTok br :: rest) := by
  cases xs with
  | nil => cases trailing <;> cases br <;> simp [joinToks, sepToks, NoBrack, closeTok]
  | cons x xs => simp [joinToks, sepToks, NoBrack]

theorem parseMore_items (items : List Item) (hok : ∀ it ∈ items, ItemOK it) :
    ∀ (g : Nat) (br trailing : Bool) (rest : List Tok),
      (joinToks (items.map (·.1)) true).length + 1 < g →
      parseMore g br (joinToks (items.map (·.1)) true ++ sepToks trailing ++ closeTok br :: rest)
        = .ok (items.map (·.2), !items.isEmpty || trailing, rest) := by
  induction items with
  | nil =>
    intro g br trailing rest hg
    obtain ⟨g, rfl⟩ : ∃ g', g = g' + 1 := ⟨g - 1, by omega⟩
    cases trailing
    · cases br <;> simp [joinToks, sepToks, parseMore, closeTok, isClose]
    · cases br <;> simp [joinToks, sepToks, parseMore, closeTok, isClose]
  | cons it its ih =>
    intro g br trailing rest hg
    obtain ⟨g, rfl⟩ : ∃ g', g = g' + 1 := ⟨g - 1, by omega⟩
    have hit := hok it (by simp)
    obtain ⟨⟨t, r, htr, hcl, _⟩, hparse⟩ := hit
    have hne : ∀ x ∈ its.map (·.1), x ≠ [] := by
      intro x hx
      simp only [List.mem_map] at hx
      obtain ⟨i, hi, rfl⟩ := hx
      obtain ⟨⟨t', r', h', _⟩, _⟩ := hok i (by simp [hi])
      simp [h']
    have hnb := noBrack_tail (its.map (·.1)) trailing br rest hne
    simp only [List.map_cons, joinToks, sepToks, ↓reduceIte, List.length_append, List.length_cons,
      List.length_nil] at hg
    have h1 := hparse g (joinToks (its.map (·.1)) true ++ sepToks trailing ++ closeTok br :: rest)
      (by omega) hnb
    have h2 := ih (fun i hi => hok i (by simp [hi])) g br trailing rest (by omega)
    simp only [List.map_cons, joinToks, sepToks, ↓reduceIte, List.cons_append, List.nil_append,
      List.append_assoc, htr] at h1 ⊢
    rw [parseMore]
    simp only [hcl br, Bool.false_eq_true, ↓reduceIte]
    rw [h1]
    simp only [sepToks, List.append_assoc] at h2
    simp [h2]


theorem parseItems_items (items : List Item) (hok : ∀ it ∈ items, ItemOK it)
    (g : Nat) (br trailing : Bool) (rest : List Tok)
    (htr : items = [] → trailing = false)
    (hg : (joinToks (items.map (·.1)) false).length + 1 < g) :
    parseItems g br (joinToks (items.map (·.1)) false ++ sepToks trailing ++ closeTok br :: rest)
      = .ok (items.map (·.2), decide (2 ≤ items.length) || trailing, rest) := by
  obtain ⟨g, rfl⟩ : ∃ g', g = g' + 1 := ⟨g - 1, by omega⟩
  cases items with
  | nil =>
    simp only [htr rfl]
    cases br <;> simp [joinToks, sepToks, parseItems, closeTok, isClose]
  | cons it its =>
    obtain ⟨⟨t, r, h1, hcl, _⟩, hparse⟩ := hok it (by simp)
    have hne : ∀ x ∈ its.map (·.1), x ≠ [] := by
      intro x hx
      simp only [List.mem_map] at hx
      obtain ⟨i, hi, rfl⟩ := hx
      obtain ⟨⟨t', r', h', _⟩, _⟩ := hok i (by simp [hi])
      simp [h']
    have hnb := noBrack_tail (its.map (·.1)) trailing br rest hne
    simp only [List.map_cons, joinToks, sepToks, Bool.false_eq_true, ↓reduceIte, List.nil_append,
      List.length_append, h1, List.length_cons] at hg
    have hl : it.1.length = r.length + 1 := by simp [h1]
    have e1 := hparse g (joinToks (its.map (·.1)) true ++ sepToks trailing ++ closeTok br :: rest)
      (by omega) hnb
    have e2 := parseMore_items its (fun i hi => hok i (by simp [hi])) g br trailing rest (by omega)
    simp only [List.map_cons, joinToks, sepToks, Bool.false_eq_true, ↓reduceIte, List.nil_append,
      List.append_assoc, h1, List.cons_append] at e1 ⊢
    rw [parseItems]
    simp only [hcl br, Bool.false_eq_true, ↓reduceIte]
    rw [e1]
    simp only [sepToks, List.append_assoc] at e2
    simp only [e2, List.length_cons]
    cases its <;> simp


/-! ## The expression a printed first-order type denotes -/
def astConst : Const → Ast
  | .val _ (.int v) => .cNat v.toNat
  | .val _ (.bool b) => .cBool b
  | .val _ (.float r) => .cFloat r
  | .val _ (.other _) => .cNone
  | .bvar _ n _ => .name n
  | .evar _ n _ => .name n

/-- whether the argument list is printed with a trailing comma -/
def soleTuple (as : List Arg) : Bool := !(soleTupleComma as).isEmpty

mutual
def astTy : Ty → Ast
  | .num k => .name (kindName k)
  | .none _ => .cNone
  | .bvar n _ _ _ => .name n
  | .evar n _ _ _ => .name n
  | .tuple ts _ => .tuple (astTys ts)
  | .func .. => .cNone
  | .opaque n as =>
      if as.isEmpty then .name n
      else .sub (.name n) (groupAst (astArgs as) (decide (2 ≤ as.length) || soleTuple as))
  | .struct n as _ =>
      if as.isEmpty then .name n
      else .sub (.name n) (groupAst (astArgs as) (decide (2 ≤ as.length) || soleTuple as))
def astTys : List Ty → List Ast
  | [] => []
  | t :: ts => astTy t :: astTys ts
def astArg : Arg → Ast
  | .ty t => astTy t
  | .const c => astConst c
def astArgs : List Arg → List Ast
  | [] => []
  | a :: as => astArg a :: astArgs as
end

theorem astTys_eq_map (ts : List Ty) : astTys ts = ts.map astTy := by
  induction ts with
  | nil => simp [astTys]
  | cons t ts ih => simp [astTys, ih]

theorem astArgs_eq_map (as : List Arg) : astArgs as = as.map astArg := by
  induction as with
  | nil => simp [astArgs]
  | cons t ts ih => simp [astArgs, ih]

theorem soleTupleComma_eq (as : List Arg) : soleTupleComma as = sepToks (soleTuple as) := by
  unfold soleTuple
  unfold soleTupleComma
  split <;> simp [sepToks]

/-! ## First-order types never touch the printer state -/
theorem visitConst_state (W : World) (st : PState) (c : Const) (h : WFConst W c) :
    (visitConst st c).2 = st := by
  cases c <;> simp_all [visitConst, WFConst]

mutual
theorem visitTy_state (W : World) : (t : Ty) → ∀ (st : PState) (b : Bool), WFTy W t → (visitTy st t b).2 = st
  | .num _, _, _, _ => by simp [visitTy]
  | .none _, _, _, _ => by simp [visitTy]
  | .bvar .., _, _, _ => by simp [visitTy]
  | .evar .., _, _, h => by simp [WFTy] at h
  | .func .., _, _, h => by simp [WFTy] at h
  | .tuple ts _, st, _, h => by
      simp only [visitTy]
      exact visitTys_state W ts st false (by simpa [WFTy] using h)
  | .opaque n as, st, _, h => by
      simp only [visitTy]
      split
      · rfl
      · exact visitArgs_state W as st false (by simp only [WFTy] at h; exact h.1)
  | .struct n as _, st, _, h => by
      simp only [visitTy]
      split
      · rfl
      · exact visitArgs_state W as st false (by simp only [WFTy] at h; exact h.1)
theorem visitTys_state (W : World) : (ts : List Ty) → ∀ (st : PState) (sep : Bool), WFTys W ts →
    (visitTys st sep ts).2 = st
  | [], _, _, _ => by simp [visitTys]
  | t :: ts, st, _, h => by
      simp only [WFTys] at h
      simp only [visitTys]
      rw [visitTy_state W t st true h.1]
      exact visitTys_state W ts st true h.2
theorem visitArg_state (W : World) : (a : Arg) → ∀ (st : PState), WFArg W a → (visitArg st a).2 = st
  | .ty t, st, h => by
      simp only [visitArg]
      exact visitTy_state W t st true (by simpa [WFArg] using h)
  | .const c, st, h => by
      simp only [visitArg]
      exact visitConst_state W st c (by simpa [WFArg] using h)
theorem visitArgs_state (W : World) : (as : List Arg) → ∀ (st : PState) (sep : Bool), WFArgs W as →
    (visitArgs st sep as).2 = st
  | [], _, _, _ => by simp [visitArgs]
  | a :: as, st, _, h => by
      simp only [WFArgs] at h
      simp only [visitArgs]
      rw [visitArg_state W a st h.1]
      exact visitArgs_state W as st true h.2
end

theorem visitTys_toks (W : World) (st : PState) : ∀ (ts : List Ty) (sep : Bool), WFTys W ts →
    (visitTys st sep ts).1 = joinToks (ts.map fun t => (visitTy st t true).1) sep := by
  intro ts
  induction ts with
  | nil => intro sep _; simp [visitTys, joinToks]
  | cons t ts ih =>
    intro sep h
    simp only [WFTys] at h
    simp only [visitTys, List.map_cons, joinToks]
    rw [visitTy_state W t st true h.1, ih true h.2]

theorem visitArgs_toks (W : World) (st : PState) : ∀ (as : List Arg) (sep : Bool), WFArgs W as →
    (visitArgs st sep as).1 = joinToks (as.map fun a => (visitArg st a).1) sep := by
  intro as
  induction as with
  | nil => intro sep _; simp [visitArgs, joinToks]
  | cons a as ih =>
    intro sep h
    simp only [WFArgs] at h
    simp only [visitArgs, List.map_cons, joinToks]
    rw [visitArg_state W a st h.1, ih true h.2]


/-! ## Stage 1 on printed first-order types -/
theorem floatToks_plain (r : String) (h : PlainFloat r) : floatToks r = [.float r] := by
  obtain ⟨h1, h2, h3⟩ := h
  unfold floatToks
  split
  · rename_i cs hcs
    simp [hcs] at h1
  · simp [h2, h3]

theorem itemOK_single (t : Tok) (a : Ast) (hc : ∀ br, isClose br t = false) (hne : t ≠ .comma)
    (hp : ∀ f rest, NoBrack rest → parseExpr (f + 1) (t :: rest) = .ok (a, rest)) :
    ItemOK ([t], a) := by
  refine ⟨⟨t, [], rfl, hc, hne⟩, ?_⟩
  intro g rest hg hnb
  obtain ⟨g, rfl⟩ : ∃ g', g = g' + 1 := ⟨g - 1, by simp at hg; omega⟩
  exact hp g rest hnb

theorem itemOK_const (W : World) (st : PState) (hb : st.bound = []) (c : Const) (h : WFConst W c) :
    ItemOK ((visitConst st c).1, astConst c) := by
  cases c with
  | val ty v =>
    simp only [WFConst] at h
    rcases h with ⟨_, n, rfl⟩ | ⟨_, b, rfl⟩ | ⟨_, r, rfl, hr⟩
    · have : ¬ ((n : Int) < 0) := by omega
      simp only [visitConst, valToks, this, ↓reduceIte, Int.toNat_natCast, astConst]
      exact itemOK_single _ _ (by intro br; cases br <;> simp [isClose]) (by simp)
        (by intro f rest _; simp [parseExpr])
    · cases b
      · simp only [visitConst, valToks, astConst]
        exact itemOK_single _ _ (by intro br; cases br <;> simp [isClose]) (by simp)
          (by intro f rest _; simp [parseExpr])
      · simp only [visitConst, valToks, astConst]
        exact itemOK_single _ _ (by intro br; cases br <;> simp [isClose]) (by simp)
          (by intro f rest _; simp [parseExpr])
    · simp only [visitConst, valToks, floatToks_plain r hr, astConst]
      exact itemOK_single _ _ (by intro br; cases br <;> simp [isClose]) (by simp)
        (by intro f rest _; simp [parseExpr])
  | bvar ty n i =>
    simp only [visitConst, boundTok, hb, List.getElem?_nil, astConst]
    exact itemOK_single _ _ (by intro br; cases br <;> simp [isClose]) (by simp)
      (by intro f rest hnb; exact parseExpr_ident f n _ rest hnb)
  | evar ty n i => simp [WFConst] at h

theorem groupAst_tuple (es : List Ast) (tr : Bool) (h : es.length ≠ 1 ∨ tr = true) :
    groupAst es tr = .tuple es := by
  unfold groupAst
  split
  · simp at h
  · rfl

/-- the parenthesised or bracketed comma list, read back -/
theorem parse_group (items : List Item) (hok : ∀ it ∈ items, ItemOK it) (br trailing : Bool)
    (htr : items = [] → trailing = false) (g : Nat) (rest : List Tok)
    (hg : (joinToks (items.map (·.1)) false ++ sepToks trailing ++ [closeTok br]).length < g) :
    parseItems g br (joinToks (items.map (·.1)) false ++ sepToks trailing ++ [closeTok br] ++ rest)
      = .ok (items.map (·.2), decide (2 ≤ items.length) || trailing, rest) := by
  have := parseItems_items items hok g br trailing rest htr
    (by simp only [List.length_append, List.length_cons, List.length_nil] at hg; omega)
  simpa using this


theorem itemOK_tuple (W : World) (st : PState) (ts : List Ty) (p b : Bool) (hts : WFTys W ts)
    (hall : ∀ t ∈ ts, ItemOK ((visitTy st t true).1, astTy t)) :
    ItemOK ((visitTy st (.tuple ts p) b).1, astTy (.tuple ts p)) := by
  let items : List Item := ts.map fun t => ((visitTy st t true).1, astTy t)
  have hok : ∀ it ∈ items, ItemOK it := by
    intro it hit
    simp only [items, List.mem_map] at hit
    obtain ⟨t, ht, rfl⟩ := hit
    exact hall t ht
  have h1 : items.map (·.1) = ts.map fun t => (visitTy st t true).1 := by simp [items]
  have h2 : items.map (·.2) = astTys ts := by simp [items, astTys_eq_map]
  have hlen : items.length = ts.length := by simp [items]
  have htoks : (visitTy st (.tuple ts p) b).1 =
      .lpar :: (joinToks (items.map (·.1)) false ++ sepToks (decide (ts.length = 1)) ++ [closeTok false]) := by
    simp only [visitTy, visitTys_toks W st ts false hts, h1, sepToks, closeTok]
    simp
  refine ⟨⟨.lpar, _, htoks, by intro br; cases br <;> simp [isClose], by simp⟩, ?_⟩
  intro g rest hg hnb
  simp only [htoks, List.length_cons] at hg
  obtain ⟨g, rfl⟩ : ∃ g', g = g' + 1 := ⟨g - 1, by omega⟩
  simp only [htoks, List.cons_append]
  rw [parseExpr]
  rw [parse_group items hok false (decide (ts.length = 1))
    (by intro h; simp [items] at h; simp [h]) g rest (by omega)]
  simp only [h2, astTy, hlen]
  rw [groupAst_tuple]
  have : (astTys ts).length = ts.length := by simp [astTys_eq_map]
  by_cases h : ts.length = 1 <;> simp [h, this]

theorem itemOK_app (W : World) (st : PState) (n : String) (as : List Arg) (hne : as ≠ [])
    (hwf : WFArgs W as) (hall : ∀ a ∈ as, ItemOK ((visitArg st a).1, astArg a)) :
    ItemOK (.ident n none :: .lbrack :: (visitArgs st false as).1 ++ soleTupleComma as ++ [.rbrack],
      .sub (.name n) (groupAst (astArgs as) (decide (2 ≤ as.length) || soleTuple as))) := by
  let items : List Item := as.map fun a => ((visitArg st a).1, astArg a)
  have hok : ∀ it ∈ items, ItemOK it := by
    intro it hit
    simp only [items, List.mem_map] at hit
    obtain ⟨t, ht, rfl⟩ := hit
    exact hall t ht
  have h1 : items.map (·.1) = as.map fun a => (visitArg st a).1 := by simp [items]
  have h2 : items.map (·.2) = astArgs as := by simp [items, astArgs_eq_map]
  have hlen : items.length = as.length := by simp [items]
  have htoks : (.ident n none :: .lbrack :: (visitArgs st false as).1 ++ soleTupleComma as ++ [.rbrack] : List Tok) =
      .ident n none :: .lbrack :: (joinToks (items.map (·.1)) false ++ sepToks (soleTuple as) ++ [closeTok true]) := by
    simp only [visitArgs_toks W st as false hwf, h1, soleTupleComma_eq, closeTok]
    simp
  simp only [htoks]
  refine ⟨⟨.ident n none, _, rfl, by intro br; cases br <;> simp [isClose], by simp⟩, ?_⟩
  intro g rest hg hnb
  simp only [List.length_cons] at hg
  obtain ⟨g, rfl⟩ : ∃ g', g = g' + 1 := ⟨g - 1, by omega⟩
  simp only [List.cons_append]
  rw [parseExpr]
  rw [parse_group items hok true (soleTuple as)
    (by intro h; simp [items] at h; exact absurd h hne) g rest (by omega)]
  simp only [h2, hlen]
  cases as with
  | nil => exact absurd rfl hne
  | cons a as => simp [astArgs]

mutual
theorem itemOK_ty (W : World) (st : PState) (hb : st.bound = []) :
    (t : Ty) → (b : Bool) → WFTy W t → ItemOK ((visitTy st t b).1, astTy t)
  | .num k, _, _ => by
      simp only [visitTy, astTy]
      exact itemOK_single _ _ (by intro br; cases br <;> simp [isClose]) (by simp)
        (fun f rest hnb => parseExpr_ident f _ _ rest hnb)
  | .none _, _, _ => by
      simp only [visitTy, astTy]
      exact itemOK_single _ _ (by intro br; cases br <;> simp [isClose]) (by simp)
        (by intro f rest _; simp [parseExpr])
  | .bvar n i _ _, _, _ => by
      simp only [visitTy, astTy, boundTok, hb, List.getElem?_nil]
      exact itemOK_single _ _ (by intro br; cases br <;> simp [isClose]) (by simp)
        (fun f rest hnb => parseExpr_ident f _ _ rest hnb)
  | .evar .., _, h => by simp [WFTy] at h
  | .func .., _, h => by simp [WFTy] at h
  | .tuple ts p, b, h => by
      have hts : WFTys W ts := by simpa [WFTy] using h
      exact itemOK_tuple W st ts p b hts (itemOK_tys W st hb ts hts)
  | .opaque n as, b, h => by
      have hwf : WFArgs W as := by simp only [WFTy] at h; exact h.1
      by_cases hE : as = []
      · subst hE
        simp only [visitTy, astTy, List.isEmpty_nil, ↓reduceIte]
        exact itemOK_single _ _ (by intro br; cases br <;> simp [isClose]) (by simp)
          (fun f rest hnb => parseExpr_ident f _ _ rest hnb)
      · have hE' : as.isEmpty = false := by cases as <;> simp_all
        simp only [visitTy, astTy, hE', Bool.false_eq_true, ↓reduceIte]
        exact itemOK_app W st n as hE hwf (itemOK_args W st hb as hwf)
  | .struct n as fs, b, h => by
      have hwf : WFArgs W as := by simp only [WFTy] at h; exact h.1
      by_cases hE : as = []
      · subst hE
        simp only [visitTy, astTy, List.isEmpty_nil, ↓reduceIte]
        exact itemOK_single _ _ (by intro br; cases br <;> simp [isClose]) (by simp)
          (fun f rest hnb => parseExpr_ident f _ _ rest hnb)
      · have hE' : as.isEmpty = false := by cases as <;> simp_all
        simp only [visitTy, astTy, hE', Bool.false_eq_true, ↓reduceIte]
        exact itemOK_app W st n as hE hwf (itemOK_args W st hb as hwf)
theorem itemOK_tys (W : World) (st : PState) (hb : st.bound = []) :
    (ts : List Ty) → WFTys W ts → ∀ t ∈ ts, ItemOK ((visitTy st t true).1, astTy t)
  | [], _ => by simp
  | t :: ts, h => by
      simp only [WFTys] at h
      intro t' ht'
      rcases List.mem_cons.mp ht' with h0 | h'
      · rw [h0]; exact itemOK_ty W st hb t true h.1
      · exact itemOK_tys W st hb ts h.2 t' h'
theorem itemOK_arg (W : World) (st : PState) (hb : st.bound = []) :
    (a : Arg) → WFArg W a → ItemOK ((visitArg st a).1, astArg a)
  | .ty t, h => by
      simp only [visitArg, astArg]
      exact itemOK_ty W st hb t true (by simpa [WFArg] using h)
  | .const c, h => by
      simp only [visitArg, astArg]
      exact itemOK_const W st hb c (by simpa [WFArg] using h)
theorem itemOK_args (W : World) (st : PState) (hb : st.bound = []) :
    (as : List Arg) → WFArgs W as → ∀ a ∈ as, ItemOK ((visitArg st a).1, astArg a)
  | [], _ => by simp
  | a :: as, h => by
      simp only [WFArgs] at h
      intro a' ha'
      rcases List.mem_cons.mp ha' with h0 | h'
      · rw [h0]; exact itemOK_arg W st hb a h.1
      · exact itemOK_args W st hb as h.2 a' h'
end

/-- stage 1: CPython's parser on the printed tokens of a well-formed first-order type -/
theorem parseToks_print (W : World) (t : Ty) (h : WFTy W t) : parseToks (printToks t) = .ok (astTy t) := by
  obtain ⟨_, hp⟩ := itemOK_ty W .init rfl t false h
  have := hp ((printToks t).length + 1) [] (by simp [printToks]) (by simp [NoBrack])
  simp only [List.append_nil] at this
  simp only [parseToks]
  simp only [printToks] at this ⊢
  rw [this]


/-! ## Stage 2 on the denoted expressions -/
theorem argsFit_length (cd : Classifier) : ∀ (ps : List Param) (as : List Arg), ArgsFit cd ps as →
    ps.length = as.length
  | [], [], _ => rfl
  | [], _ :: _, h => by simp [ArgsFit] at h
  | _ :: _, [], h => by simp [ArgsFit] at h
  | _ :: ps, _ :: as, h => by
      simp only [ArgsFit] at h
      simp [argsFit_length cd ps as h.2]

theorem normArgs_length (as : List Arg) : (normArgs as).length = as.length := by
  induction as with
  | nil => simp [normArgs]
  | cons a as ih => simp [normArgs, ih]

theorem inst_ground (full : List Arg) (t : Ty) (h : GroundConstTy t) : Ty.inst full t = some t := by
  rcases h with ⟨k, rfl⟩ | rfl
  · simp [Ty.inst]
  · simp [boolTy, Ty.inst, Arg.instList]

theorem unifyEq_ground (t : Ty) (h : GroundConstTy t) : unifyEq t t = true := by
  rcases h with ⟨k, rfl⟩ | rfl
  · simp [unifyEq]
  · simp [boolTy, unifyEq, unifyArgs]

theorem checkArg_fits (cd : Classifier) (hcd : cd.IgnoresPreserve) (full : List Arg) (p : Param) (a : Arg)
    (h : ParamFits cd p a) : checkArg cd full p (normArg a) = .ok () := by
  cases p with
  | ty i n mc md =>
    cases a with
    | ty t =>
      simp only [ParamFits] at h
      simp only [normArg, checkArg, hcd t]
      cases mc <;> cases md <;> simp_all
    | const c => simp [ParamFits] at h
  | const i n pty fc =>
    cases a with
    | ty t => simp [ParamFits] at h
    | const c =>
      simp only [ParamFits] at h
      simp only [normArg, checkArg, inst_ground full pty h.1, h.2, unifyEq_ground pty h.1, ↓reduceIte]

theorem checkEach_fits (cd : Classifier) (hcd : cd.IgnoresPreserve) (full : List Arg) :
    ∀ (ps : List Param) (as : List Arg), ArgsFit cd ps as → checkEach cd full ps (normArgs as) = .ok ()
  | [], [], _ => by simp [checkEach]
  | [], _ :: _, h => by simp [ArgsFit] at h
  | _ :: _, [], h => by simp [ArgsFit] at h
  | p :: ps, a :: as, h => by
      simp only [ArgsFit] at h
      simp only [normArgs, checkEach, checkArg_fits cd hcd full p a h.1]
      exact checkEach_fits cd hcd full ps as h.2

theorem checkAllArgs_fits (cd : Classifier) (hcd : cd.IgnoresPreserve) (ps : List Param) (as : List Arg)
    (h : ArgsFit cd ps as) : checkAllArgs cd ps (normArgs as) = .ok () := by
  simp only [checkAllArgs, normArgs_length, argsFit_length cd ps as h, bne_self_eq_false,
    Bool.false_eq_true, ↓reduceIte]
  exact checkEach_fits cd hcd _ ps as h

def Ast.isTuple : Ast → Bool
  | .tuple _ => true
  | _ => false

theorem argFromAst_sub_single (env : Env) (ctx : Ctx) (cd : Classifier) (s : String) (e : Ast)
    (h : e.isTuple = false) :
    argFromAst env ctx cd (.sub (.name s) e) =
      match env.defs s with
      | some d =>
        if d.parsesArgs then
          match argFromAst env ctx cd e with
          | .error e => .error e
          | .ok a => instDefn env cd d [a]
        else instDefn env cd d []
      | none => .error .invalidTypeArg := by
  cases e <;> simp [Ast.isTuple] at h <;> simp only [argFromAst] <;> (cases env.defs s <;> rfl)

theorem soleTuple_iff (a : Arg) : soleTuple [a] = true ↔ ∃ ts p, a = .ty (.tuple ts p) := by
  unfold soleTuple soleTupleComma
  constructor
  · intro h
    split at h
    · rename_i ts p heq
      simp only [List.cons.injEq, and_true] at heq
      exact ⟨ts, p, heq⟩
    · simp at h
  · rintro ⟨ts, p, rfl⟩
    simp

theorem soleTuple_two (a b : Arg) (as : List Arg) : soleTuple (a :: b :: as) = false := by
  simp [soleTuple, soleTupleComma]

theorem astConst_isTuple (W : World) (c : Const) (h : WFConst W c) : (astConst c).isTuple = false := by
  cases c with
  | val t v => cases v <;> simp [astConst, Ast.isTuple]
  | bvar t n i => simp [astConst, Ast.isTuple]
  | evar t n i => simp [astConst, Ast.isTuple]

theorem astArg_isTuple (a : Arg) (h : soleTuple [a] = false) : (astArg a).isTuple = false := by
  cases a with
  | const c => cases c with
    | val t v => cases v <;> simp [astArg, astConst, Ast.isTuple]
    | bvar t n i => simp [astArg, astConst, Ast.isTuple]
    | evar t n i => simp [astArg, astConst, Ast.isTuple]
  | ty t =>
    cases t with
    | tuple ts p =>
      have := (soleTuple_iff (.ty (.tuple ts p))).mpr ⟨ts, p, rfl⟩
      simp [this] at h
    | «opaque» n as => simp only [astArg, astTy]; split <;> simp [Ast.isTuple]
    | struct n as fs => simp only [astArg, astTy]; split <;> simp [Ast.isTuple]
    | _ => simp [astArg, astTy, Ast.isTuple]

/-- reading `name[args]` once the arguments read back -/
theorem argFromAst_app (env : Env) (ctx : Ctx) (cd : Classifier) (n : String) (as : List Arg)
    (hne : as ≠ [])
    (h1 : ∀ a ∈ as, argFromAst env ctx cd (astArg a) = .ok (normArg a))
    (hall : argsFromAst env ctx cd (astArgs as) = .ok (normArgs as)) :
    argFromAst env ctx cd (.sub (.name n) (groupAst (astArgs as) (decide (2 ≤ as.length) || soleTuple as))) =
      match env.defs n with
      | some d => if d.parsesArgs then instDefn env cd d (normArgs as) else instDefn env cd d []
      | none => .error .invalidTypeArg := by
  match as, hne with
  | [a], _ =>
    by_cases hs : soleTuple [a] = true
    · rw [groupAst_tuple _ _ (Or.inr (by simp [hs]))]
      simp only [argFromAst, hall]
      cases env.defs n <;> rfl
    · have hs' : soleTuple [a] = false := by simpa using hs
      have : groupAst (astArgs [a]) (decide (2 ≤ [a].length) || soleTuple [a]) = astArg a := by
        simp [astArgs, hs', groupAst]
      rw [this, argFromAst_sub_single env ctx cd n _ (astArg_isTuple a hs'), h1 a (by simp)]
      simp [normArgs]
  | a :: b :: as, _ =>
    rw [groupAst_tuple _ _ (Or.inl (by simp [astArgs]))]
    simp only [argFromAst, hall]
    cases env.defs n <;> rfl

theorem mem_head {α} (a : α) (as : List α) : a ∈ a :: as := by simp

mutual
theorem read_ty (W : World) (hcd : W.cd.IgnoresPreserve) :
    (t : Ty) → WFTy W t → argFromAst W.env W.ctx W.cd (astTy t) = .ok (.ty (normTy t))
  | .num k, h => by
      simp only [WFTy] at h
      simp [astTy, argFromAst, h, instDefn, normTy]
  | .none _, _ => by simp [astTy, argFromAst, normTy]
  | .bvar n i c d, h => by
      simp only [WFTy] at h
      simp [astTy, argFromAst, h.1, h.2, toBound, normTy]
  | .evar .., h => by simp [WFTy] at h
  | .func .., h => by simp [WFTy] at h
  | .tuple ts p, h => by
      have hts : WFTys W ts := by simpa [WFTy] using h
      simp [astTy, argFromAst, read_tys W hcd ts hts, normTy]
  | .opaque n as, h => by
      simp only [WFTy] at h
      obtain ⟨hwf, ps, nc, nd, il, hdef, hl, hfit⟩ := h
      have hchk := checkAllArgs_fits W.cd hcd ps as hfit
      have hil : (il && !W.env.lists) = false := by cases il <;> simp_all
      by_cases hE : as = []
      · subst hE
        simp only [normArgs] at hchk
        simp [astTy, argFromAst, hdef, instDefn, hil, hchk, normTy, normArgs]
      · have hE' : as.isEmpty = false := by cases as <;> simp_all
        simp only [astTy, hE', Bool.false_eq_true, ↓reduceIte]
        rw [argFromAst_app W.env W.ctx W.cd n as hE (read_args_each W hcd as hwf) (read_args W hcd as hwf)]
        simp [hdef, Defn.parsesArgs, instDefn, hil, hchk, normTy]
  | .struct n as fs, h => by
      simp only [WFTy] at h
      obtain ⟨hwf, ps, hdef, hfit⟩ := h
      have hchk := checkAllArgs_fits W.cd hcd ps as hfit
      by_cases hE : as = []
      · subst hE
        simp only [normArgs] at hchk
        simp [astTy, argFromAst, hdef, instDefn, hchk, normTy, normArgs]
      · have hE' : as.isEmpty = false := by cases as <;> simp_all
        simp only [astTy, hE', Bool.false_eq_true, ↓reduceIte]
        rw [argFromAst_app W.env W.ctx W.cd n as hE (read_args_each W hcd as hwf) (read_args W hcd as hwf)]
        simp [hdef, Defn.parsesArgs, instDefn, hchk, normTy]
theorem read_tys (W : World) (hcd : W.cd.IgnoresPreserve) :
    (ts : List Ty) → WFTys W ts → tysFromAst W.env W.ctx W.cd (astTys ts) = .ok (normTys ts)
  | [], _ => by simp [astTys, tysFromAst, normTys]
  | t :: ts, h => by
      simp only [WFTys] at h
      simp [astTys, tysFromAst, read_ty W hcd t h.1, asType, read_tys W hcd ts h.2, normTys]
theorem read_arg (W : World) (hcd : W.cd.IgnoresPreserve) :
    (a : Arg) → WFArg W a → argFromAst W.env W.ctx W.cd (astArg a) = .ok (normArg a)
  | .ty t, h => by
      simp only [WFArg] at h
      simp [astArg, read_ty W hcd t h, normArg]
  | .const c, h => by
      simp only [WFArg] at h
      cases c with
      | val ty v =>
        simp only [WFConst] at h
        rcases h with ⟨rfl, n, rfl⟩ | ⟨rfl, b, rfl⟩ | ⟨rfl, r, rfl, _⟩ <;>
          simp [astArg, astConst, argFromAst, normArg]
      | bvar ty n i =>
        simp only [WFConst] at h
        obtain ⟨h1, fc, h2⟩ := h
        simp [astArg, astConst, argFromAst, h1, h2, toBound, normArg]
      | evar ty n i => simp [WFConst] at h
theorem read_args (W : World) (hcd : W.cd.IgnoresPreserve) :
    (as : List Arg) → WFArgs W as → argsFromAst W.env W.ctx W.cd (astArgs as) = .ok (normArgs as)
  | [], _ => by simp [astArgs, argsFromAst, normArgs]
  | a :: as, h => by
      simp only [WFArgs] at h
      simp [astArgs, argsFromAst, read_arg W hcd a h.1, read_args W hcd as h.2, normArgs]
theorem read_args_each (W : World) (hcd : W.cd.IgnoresPreserve) :
    (as : List Arg) → WFArgs W as → ∀ a ∈ as, argFromAst W.env W.ctx W.cd (astArg a) = .ok (normArg a)
  | [], _ => by simp
  | a :: as, h => by
      simp only [WFArgs] at h
      intro a' ha'
      rcases List.mem_cons.mp ha' with h0 | h'
      · rw [h0]; exact read_arg W hcd a h.1
      · exact read_args_each W hcd as h.2 a' h'
end


/-- the reader applied to the printed tokens of a well-formed first-order type -/
theorem readToks_print (W : World) (hcd : W.cd.IgnoresPreserve) (t : Ty) (h : WFTy W t) :
    readToks W.env W.ctx W.cd (printToks t) = .ok (normTy t) := by
  simp [readToks, parseToks_print W t h, typeFromAst, read_ty W hcd t h, asType]

/-! ## `normTy t == t` (Python equality ignores `preserve`) -/
mutual
theorem beq_refl_ty : (t : Ty) → Ty.beq t t = true
  | .num _ => by simp [Ty.beq]
  | .none _ => by simp [Ty.beq]
  | .bvar .. => by simp [Ty.beq]
  | .evar .. => by simp [Ty.beq]
  | .tuple ts _ => by simp [Ty.beq, beq_refl_tys ts]
  | .func ins o ps cs => by
      simp [Ty.beq, beq_refl_ins ins, beq_refl_ty o, beq_refl_params ps, beq_refl_consts cs]
  | .opaque _ as => by simp [Ty.beq, beq_refl_args as]
  | .struct _ as _ => by simp [Ty.beq, beq_refl_args as]
theorem beq_refl_tys : (ts : List Ty) → Ty.beqList ts ts = true
  | [] => by simp [Ty.beqList]
  | t :: ts => by simp [Ty.beqList, beq_refl_ty t, beq_refl_tys ts]
theorem beq_refl_in : (i : FuncIn) → FuncIn.beq i i = true
  | .mk t _ => by simp [FuncIn.beq, beq_refl_ty t]
theorem beq_refl_ins : (is : List FuncIn) → FuncIn.beqList is is = true
  | [] => by simp [FuncIn.beqList]
  | i :: is => by simp [FuncIn.beqList, beq_refl_in i, beq_refl_ins is]
theorem beq_refl_arg : (a : Arg) → Arg.beq a a = true
  | .ty t => by simp [Arg.beq, beq_refl_ty t]
  | .const c => by simp [Arg.beq, beq_refl_const c]
theorem beq_refl_args : (as : List Arg) → Arg.beqList as as = true
  | [] => by simp [Arg.beqList]
  | a :: as => by simp [Arg.beqList, beq_refl_arg a, beq_refl_args as]
theorem beq_refl_const : (c : Const) → Const.beq c c = true
  | .val t _ => by simp [Const.beq, beq_refl_ty t]
  | .bvar t _ _ => by simp [Const.beq, beq_refl_ty t]
  | .evar t _ _ => by simp [Const.beq, beq_refl_ty t]
theorem beq_refl_consts : (cs : List Const) → Const.beqList cs cs = true
  | [] => by simp [Const.beqList]
  | c :: cs => by simp [Const.beqList, beq_refl_const c, beq_refl_consts cs]
theorem beq_refl_param : (p : Param) → Param.beq p p = true
  | .ty .. => by simp [Param.beq]
  | .const _ _ t _ => by simp [Param.beq, beq_refl_ty t]
theorem beq_refl_params : (ps : List Param) → Param.beqList ps ps = true
  | [] => by simp [Param.beqList]
  | p :: ps => by simp [Param.beqList, beq_refl_param p, beq_refl_params ps]
end

mutual
theorem beq_norm_ty : (t : Ty) → Ty.beq (normTy t) t = true
  | .num _ => by simp [normTy, Ty.beq]
  | .none _ => by simp [normTy, Ty.beq]
  | .bvar .. => by simp [normTy, Ty.beq]
  | .evar .. => by simp [normTy, Ty.beq]
  | .tuple ts _ => by simp [normTy, Ty.beq, beq_norm_tys ts]
  | .func ins o ps cs => by simp only [normTy]; exact beq_refl_ty _
  | .opaque _ as => by simp [normTy, Ty.beq, beq_norm_args as]
  | .struct _ as _ => by simp [normTy, Ty.beq, beq_norm_args as]
theorem beq_norm_tys : (ts : List Ty) → Ty.beqList (normTys ts) ts = true
  | [] => by simp [normTys, Ty.beqList]
  | t :: ts => by simp [normTys, Ty.beqList, beq_norm_ty t, beq_norm_tys ts]
theorem beq_norm_arg : (a : Arg) → Arg.beq (normArg a) a = true
  | .ty t => by simp [normArg, Arg.beq, beq_norm_ty t]
  | .const c => by simp [normArg, Arg.beq, beq_refl_const c]
theorem beq_norm_args : (as : List Arg) → Arg.beqList (normArgs as) as = true
  | [] => by simp [normArgs, Arg.beqList]
  | a :: as => by simp [normArgs, Arg.beqList, beq_norm_arg a, beq_norm_args as]
end

/-! ## the model's classifier ignores `preserve` -/
mutual
theorem cls_norm (nc : String → Bool × Bool) : (t : Ty) → ∀ ρ, cls nc ρ (normTy t) = cls nc ρ t
  | .num _, _ => by simp [normTy]
  | .none _, _ => by simp [normTy, cls]
  | .bvar .., _ => by simp [normTy]
  | .evar .., _ => by simp [normTy]
  | .tuple ts _, ρ => by simp [normTy, cls, clsTys_norm nc ts ρ]
  | .func .., _ => by simp [normTy]
  | .opaque _ as, ρ => by simp [normTy, cls, clsArgs_norm nc as ρ]
  | .struct _ as fs, ρ => by simp [normTy, cls, clsArgs_norm nc as ρ, clsArgList_norm nc as ρ]
theorem clsTys_norm (nc : String → Bool × Bool) : (ts : List Ty) → ∀ ρ, clsTys nc ρ (normTys ts) = clsTys nc ρ ts
  | [], _ => by simp [normTys]
  | t :: ts, ρ => by simp [normTys, clsTys, cls_norm nc t ρ, clsTys_norm nc ts ρ]
theorem clsArgs_norm (nc : String → Bool × Bool) : (as : List Arg) → ∀ ρ, clsArgs nc ρ (normArgs as) = clsArgs nc ρ as
  | [], _ => by simp [normArgs]
  | .ty t :: as, ρ => by simp [normArgs, normArg, clsArgs, cls_norm nc t ρ, clsArgs_norm nc as ρ]
  | .const _ :: as, ρ => by simp [normArgs, normArg, clsArgs, clsArgs_norm nc as ρ]
theorem clsArgList_norm (nc : String → Bool × Bool) : (as : List Arg) → ∀ ρ,
    clsArgList nc ρ (normArgs as) = clsArgList nc ρ as
  | [], _ => by simp [normArgs]
  | .ty t :: as, ρ => by simp [normArgs, normArg, clsArgList, cls_norm nc t ρ, clsArgList_norm nc as ρ]
  | .const _ :: as, ρ => by simp [normArgs, normArg, clsArgList, clsArgList_norm nc as ρ]
end

theorem classify_ignoresPreserve (env : Env) : (classify env).IgnoresPreserve :=
  fun t => cls_norm env.intrinsic t []

end GuppyVerif.Print
