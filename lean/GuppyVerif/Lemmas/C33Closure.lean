import GuppyVerif.Spec.C33Closure
/-! Helper lemmas for the capturing-closure gate (C33). -/
namespace GuppyVerif.ClosureGate

open Spec

theorem assignsName_false_iff (s : Stmt) (x : Nat) : assignsName s x = false ↔ s.assigns ≠ some x := by
  unfold assignsName; simp

theorem liveBefore_iff (body : List Stmt) (x : Nat) : x ∈ liveBefore body ↔ UsedFree body x := by
  induction body with
  | nil =>
    simp only [liveBefore, List.not_mem_nil, false_iff]
    rintro ⟨pre, s, post, h, _⟩
    cases pre <;> simp at h
  | cons s rest ih =>
    simp only [liveBefore, List.mem_append, List.mem_filter, Bool.not_eq_eq_eq_not, Bool.not_true,
      assignsName_false_iff]
    constructor
    · rintro (h | ⟨h1, h2⟩)
      · exact ⟨[], s, rest, rfl, h, by simp⟩
      · obtain ⟨pre, t, post, e, hr, hp⟩ := ih.mp h1
        refine ⟨s :: pre, t, post, by rw [e]; rfl, hr, ?_⟩
        intro u hu
        simp only [List.mem_cons] at hu
        rcases hu with rfl | hu
        · exact h2
        · exact hp u hu
    · rintro ⟨pre, t, post, e, hr, hp⟩
      cases pre with
      | nil =>
        simp only [List.nil_append, List.cons.injEq] at e
        obtain ⟨rfl, _⟩ := e
        exact Or.inl hr
      | cons u pre =>
        simp only [List.cons_append, List.cons.injEq] at e
        obtain ⟨rfl, e⟩ := e
        exact Or.inr ⟨ih.mpr ⟨pre, t, post, e, hr, fun v hv => hp v (List.mem_cons_of_mem _ hv)⟩,
          hp _ (List.mem_cons_self)⟩

theorem isLocal_iff (locals : List (Nat × VKind)) (x : Nat) :
    isLocal locals x = true ↔ x ∈ locals.map (·.1) := by
  unfold isLocal
  simp only [List.any_eq_true, beq_iff_eq, List.mem_map]

theorem ne_nil_iff_exists {α : Type} (l : List α) : l ≠ [] ↔ ∃ x, x ∈ l := by
  cases l with
  | nil => simp
  | cons a t => simp

theorem captured_ne_nil_iff (locals : List (Nat × VKind)) (f : Inner) :
    captured locals f ≠ [] ↔ Captures (locals.map (·.1)) f := by
  unfold captured Captures
  rw [ne_nil_iff_exists]
  simp only [List.mem_filter, Bool.and_eq_true, Bool.not_eq_eq_eq_not, Bool.not_true,
    List.contains_eq_mem, decide_eq_false_iff_not, isLocal_iff, liveBefore_iff]

theorem isLocal_congr {l l' : List (Nat × VKind)} (h : l.map (·.1) = l'.map (·.1)) (x : Nat) :
    isLocal l x = isLocal l' x := by
  have h1 := isLocal_iff l x
  have h2 := isLocal_iff l' x
  rw [h] at h1
  cases a : isLocal l x <;> cases b : isLocal l' x <;> simp_all

theorem captured_congr {l l' : List (Nat × VKind)} (h : l.map (·.1) = l'.map (·.1)) (f : Inner) :
    captured l f = captured l' f := by
  unfold captured
  congr 1
  funext x
  rw [isLocal_congr h x]

theorem names_step {l l' : List (Nat × VKind)} (h : l.map (·.1) = l'.map (·.1)) (x : Nat) (k k' : VKind) :
    ((x, k) :: l.filter fun e => e.1 != x).map (·.1) = ((x, k') :: l'.filter fun e => e.1 != x).map (·.1) := by
  simp only [List.map_cons, List.cons.injEq, true_and]
  have : ∀ m : List (Nat × VKind), (m.filter fun e => e.1 != x).map (·.1) = (m.map (·.1)).filter (· != x) := by
    intro m; induction m with
    | nil => rfl
    | cons a m ih => by_cases ha : (a.1 != x) = true <;> simp [List.filter_cons, ha, ih]
  rw [this, this, h]

end GuppyVerif.ClosureGate
