import GuppyVerif.Lemmas.C13
/-! Helper lemmas for C13, part 2: the loop of `instantiate_partial` and the composition of two steps. -/
namespace GuppyVerif.Instantiate
open GuppyVerif

/-! ## `Rel` bookkeeping -/

theorem Rel.nil : Rel [] [] [] := ⟨rfl, by intro i x h; simp at h⟩

theorem getElem?_snoc {α : Type} (l : List α) (x : α) (i : Nat) :
    (l ++ [x])[i]? = if i < l.length then l[i]? else if i = l.length then some x else none := by
  rw [List.getElem?_append]
  split
  · rfl
  · rename_i h
    by_cases h2 : i = l.length
    · simp [h2]
    · have : i - l.length ≠ 0 := by omega
      simp only [h2, ↓reduceIte]
      cases hh : i - l.length with
      | zero => exact absurd hh this
      | succ n => rfl

theorem Rel.snoc_closed {σ τ ρ : List Arg} (R : Rel σ τ ρ) {x : Arg} (hx : argClosed x = true) :
    Rel (σ ++ [x]) τ (ρ ++ [x]) := by
  refine ⟨by simp [R.len], ?_⟩
  intro i y h
  rw [getElem?_snoc] at h
  rw [getElem?_snoc, R.len]
  by_cases hi : i < σ.length
  · simp only [hi, ↓reduceIte] at h ⊢
    exact R.pt i y h
  · simp only [hi, ↓reduceIte] at h ⊢
    by_cases h2 : i = σ.length
    · simp only [h2, ↓reduceIte, Option.some.injEq] at h ⊢
      subst h
      exact Or.inl ⟨hx, rfl⟩
    · simp [h2] at h

theorem Rel.snoc_var {σ τ ρ : List Arg} (R : Rel σ τ ρ) {x y : Arg} (hx : IsVarAt τ.length x) :
    Rel (σ ++ [x]) (τ ++ [y]) (ρ ++ [y]) := by
  refine ⟨by simp [R.len], ?_⟩
  intro i z h
  rw [getElem?_snoc] at h
  rw [getElem?_snoc, R.len]
  by_cases hi : i < σ.length
  · simp only [hi, ↓reduceIte] at h ⊢
    rcases R.pt i z h with h1 | ⟨k, w, hv, hτ, hr⟩
    · exact Or.inl h1
    · refine Or.inr ⟨k, w, hv, ?_, hr⟩
      rw [getElem?_snoc]
      have hk : k < τ.length := by
        rcases Nat.lt_or_ge k τ.length with h | h
        · exact h
        · simp [List.getElem?_eq_none h] at hτ
      simp only [hk, ↓reduceIte]
      exact hτ
  · simp only [hi, ↓reduceIte] at h ⊢
    by_cases h2 : i = σ.length
    · simp only [h2, ↓reduceIte, Option.some.injEq] at h ⊢
      subst h
      exact Or.inr ⟨τ.length, y, hx, by simp, rfl⟩
    · simp [h2] at h

/-! ## `setPreserve`, `to_bound` -/

theorem argClosed_setPreserve (v : Arg) : argClosed (setPreserve v) = argClosed v := by
  cases v with
  | const c => rfl
  | ty t => cases t <;> simp [setPreserve, argClosed, tyClosed]

theorem setPreserve_var {k : Nat} {x : Arg} (h : IsVarAt k x) : setPreserve x = x := by
  cases x with
  | const c => rfl
  | ty t => cases t <;> simp_all [IsVarAt, setPreserve]

def paramIdx : Param → Nat
  | .ty i _ _ _ => i
  | .const i _ _ _ => i

theorem paramToBound_var {p : Param} {b : Arg} (h : paramToBound p = some b) : IsVarAt (paramIdx p) b := by
  cases p with
  | ty i n c d => simp only [paramToBound, Option.some.injEq] at h; subst h; simp [IsVarAt, paramIdx]
  | const i n t f =>
    simp only [paramToBound] at h
    split at h
    · cases h
    · simp only [Option.some.injEq] at h; subst h; simp [IsVarAt, paramIdx]

theorem paramInstBounds_idx {σ : List Arg} {p p' : Param} (h : paramInstBounds σ p = some p') :
    paramIdx p' = paramIdx p := by
  cases p with
  | ty i n c d => simp only [paramInstBounds, Option.some.injEq] at h; subst h; rfl
  | const i n t f =>
    simp only [paramInstBounds] at h
    obtain ⟨t1, _, h2⟩ := bind_some_eq h
    subst h2; rfl

theorem paramIdx_withIdx (k : Nat) (p : Param) : paramIdx (paramWithIdx k p) = k := by
  cases p <;> rfl

def paramTyScoped (k : Nat) : Param → Bool
  | .const _ _ t _ => tyScoped k t
  | _ => true

/-- instantiating the bounds of a kept parameter in two steps = in one step -/
theorem instBounds_comp {σ τ ρ : List Arg} (R : Rel σ τ ρ) (k k2 : Nat) (p p' : Param)
    (hs : paramTyScoped σ.length p = true)
    (h : paramInstBounds σ (paramWithIdx k p) = some p') :
    paramInstBounds τ (paramWithIdx k2 p') = paramInstBounds ρ (paramWithIdx k2 p) := by
  cases p with
  | ty i n c d =>
    simp only [paramWithIdx, paramInstBounds, Option.some.injEq] at h
    subst h; rfl
  | const i n t f =>
    simp only [paramWithIdx, paramInstBounds] at h
    obtain ⟨t1, h1, h2⟩ := bind_some_eq h
    subst h2
    simp only [paramWithIdx, paramInstBounds, comp_ty R t t1 hs h1]

/-! ## the loop -/

theorem instLoop_len : ∀ (ps : List Param) (a : PInst) (fi : List Arg) (rem : List Param)
    (r : List Arg × List Param), instLoop ps a fi rem = some r →
    a.length = ps.length ∧ r.1.length = fi.length + ps.length
  | [], [], fi, rem, r, h => by simp only [instLoop, Option.some.injEq] at h; subst h; simp
  | [], _ :: _, _, _, _, h => by simp [instLoop] at h
  | _ :: _, [], _, _, _, h => by simp [instLoop] at h
  | p :: ps, some v :: a, fi, rem, r, h => by
    simp only [instLoop] at h
    have := instLoop_len ps a _ _ r h
    simp only [List.length_append, List.length_cons, List.length_nil] at this ⊢
    omega
  | p :: ps, none :: a, fi, rem, r, h => by
    simp only [instLoop] at h
    cases h1 : paramInstBounds fi (paramWithIdx rem.length p) with
    | none => simp [h1] at h
    | some p' =>
      cases h2 : paramToBound p' with
      | none => simp [h1, h2] at h
      | some b =>
        simp only [h1, h2, Option.bind_eq_bind, Option.bind_some] at h
        have := instLoop_len ps a _ _ r h
        simp only [List.length_append, List.length_cons, List.length_nil] at this ⊢
        omega

/-- the length assertion of `instantiate_partial` is subsumed by the strict zip -/
theorem instantiatePartial_func (ins : List FuncIn) (o : Ty) (ps : List Param) (cs : List Const) (a : PInst) :
    instantiatePartial (.func ins o ps cs) a =
      (instLoop ps a [] []).bind fun r =>
      (instInL (full r.1) false ins).bind fun ins' =>
      (instTy (full r.1) false o).bind fun o' =>
      (instConstL (full r.1) false cs).bind fun cs' =>
      some (.func ins' o' r.2 cs') := by
  simp only [instantiatePartial]
  cases h : instLoop ps a [] [] with
  | none => simp
  | some r =>
    have := (instLoop_len ps a [] [] r h).1
    obtain ⟨fi, rem⟩ := r
    simp [this]

theorem instLoop_suffix : ∀ (ps : List Param) (a : PInst) (fi : List Arg) (rem : List Param)
    (r : List Arg × List Param), instLoop ps a fi rem = some r → ∃ G, r.2 = rem ++ G
  | [], [], fi, rem, r, h => by
    simp only [instLoop, Option.some.injEq] at h; subst h; exact ⟨[], by simp⟩
  | [], _ :: _, _, _, _, h => by simp [instLoop] at h
  | _ :: _, [], _, _, _, h => by simp [instLoop] at h
  | p :: ps, some v :: a, fi, rem, r, h => by
    simp only [instLoop] at h
    exact instLoop_suffix ps a _ _ r h
  | p :: ps, none :: a, fi, rem, r, h => by
    simp only [instLoop] at h
    cases h1 : paramInstBounds fi (paramWithIdx rem.length p) with
    | none => simp [h1] at h
    | some p' =>
      cases h2 : paramToBound p' with
      | none => simp [h1, h2] at h
      | some b =>
        simp only [h1, h2, Option.bind_eq_bind, Option.bind_some] at h
        obtain ⟨G, hG⟩ := instLoop_suffix ps a _ _ r h
        exact ⟨p' :: G, by simp [hG]⟩

theorem paramsScoped_tail {k : Nat} {p : Param} {ps : List Param} (h : paramsScoped k (p :: ps) = true) :
    paramsScoped (k + 1) ps = true := by
  cases p with
  | ty i n c d => simpa [paramsScoped] using h
  | const i n t f => simp only [paramsScoped, Bool.and_eq_true] at h; exact h.2

theorem paramsScoped_head {k : Nat} {p : Param} {ps : List Param} (h : paramsScoped k (p :: ps) = true) :
    paramTyScoped k p = true := by
  cases p with
  | ty i n c d => rfl
  | const i n t f => simp only [paramsScoped, Bool.and_eq_true] at h; exact h.1

/-- outcome of running the second step (`X`) and the merged single step (`Y`) -/
def LoopAgree (σ' : List Arg) (X Y : Option (List Arg × List Param)) : Prop :=
  match X, Y with
  | none, none => True
  | some (τ', r1), some (ρ', r2) => r1 = r2 ∧ Rel σ' τ' ρ'
  | _, _ => False

theorem loop_comp : ∀ (ps : List Param) (a b c : PInst) (σ τ ρ : List Arg) (remA remB : List Param)
    (σ' : List Arg) (remA' : List Param),
    paramsScoped σ.length ps = true → pinstClosed a → fillP a b = some c → Rel σ τ ρ →
    τ.length = remA.length →
    instLoop ps a σ remA = some (σ', remA') →
    ∃ G, remA' = remA ++ G ∧ LoopAgree σ' (instLoop G b τ remB) (instLoop ps c ρ remB)
  | [], [], b, c, σ, τ, ρ, remA, remB, σ', remA', _, _, hf, R, _, h => by
    simp only [instLoop, Option.some.injEq, Prod.mk.injEq] at h
    obtain ⟨h1, h2⟩ := h
    subst h1 h2
    cases b with
    | cons x b => simp [fillP] at hf
    | nil =>
      simp only [fillP, Option.some.injEq] at hf
      subst hf
      exact ⟨[], by simp, by simp [instLoop, LoopAgree, R]⟩
  | [], _ :: _, _, _, _, _, _, _, _, _, _, _, _, _, _, _, h => by simp [instLoop] at h
  | _ :: _, [], _, _, _, _, _, _, _, _, _, _, _, _, _, _, h => by simp [instLoop] at h
  | p :: ps, some v :: a, b, c, σ, τ, ρ, remA, remB, σ', remA', hs, hc, hf, R, hl, h => by
    simp only [instLoop] at h
    simp only [fillP] at hf
    cases hf' : fillP a b with
    | none => simp [hf'] at hf
    | some c' =>
      simp only [hf', Option.map_some, Option.some.injEq] at hf
      subst hf
      have hv : argClosed v = true := hc v (by simp)
      have hc' : pinstClosed a := fun w hw => hc w (List.mem_cons_of_mem _ hw)
      have hs' : paramsScoped (σ ++ [setPreserve v]).length ps = true := by
        simpa using paramsScoped_tail hs
      have R' := R.snoc_closed (x := setPreserve v) (by rw [argClosed_setPreserve]; exact hv)
      obtain ⟨G, hG, hA⟩ := loop_comp ps a b c' _ τ _ remA remB σ' remA' hs' hc' hf' R' hl h
      exact ⟨G, hG, by simpa [instLoop] using hA⟩
  | p :: ps, none :: a, [], c, σ, τ, ρ, remA, remB, σ', remA', hs, hc, hf, R, hl, h => by
    simp [fillP] at hf
  | p :: ps, none :: a, x :: b, c, σ, τ, ρ, remA, remB, σ', remA', hs, hc, hf, R, hl, h => by
    simp only [instLoop] at h
    simp only [fillP] at hf
    cases hf' : fillP a b with
    | none => simp [hf'] at hf
    | some c' =>
      simp only [hf', Option.map_some, Option.some.injEq] at hf
      subst hf
      have hc' : pinstClosed a := fun w hw => hc w (List.mem_cons_of_mem _ hw)
      cases h1 : paramInstBounds σ (paramWithIdx remA.length p) with
      | none => simp [h1] at h
      | some p' =>
        cases h2 : paramToBound p' with
        | none => simp [h1, h2] at h
        | some bnd =>
          simp only [h1, h2, Option.bind_eq_bind, Option.bind_some] at h
          have hvar : IsVarAt τ.length bnd := by
            have := paramToBound_var h2
            rwa [paramInstBounds_idx h1, paramIdx_withIdx, ← hl] at this
          have hsp : setPreserve bnd = bnd := setPreserve_var hvar
          rw [hsp] at h
          have hs' : paramsScoped (σ ++ [bnd]).length ps = true := by
            simpa using paramsScoped_tail hs
          have hsp' := paramsScoped_head hs
          cases x with
          | some w =>
            have R' : Rel (σ ++ [bnd]) (τ ++ [setPreserve w]) (ρ ++ [setPreserve w]) := R.snoc_var hvar
            have hl' : (τ ++ [setPreserve w]).length = (remA ++ [p']).length := by simp [hl]
            obtain ⟨G, hG, hA⟩ := loop_comp ps a b c' _ _ _ _ remB σ' remA' hs' hc' hf' R' hl' h
            exact ⟨p' :: G, by simp [hG], by simpa [instLoop] using hA⟩
          | none =>
            have hb := instBounds_comp R remA.length remB.length p p' hsp' h1
            cases h3 : paramInstBounds τ (paramWithIdx remB.length p') with
            | none =>
              obtain ⟨G, hG⟩ : ∃ G, remA' = (remA ++ [p']) ++ G := instLoop_suffix ps a _ _ _ h
              refine ⟨p' :: G, by simp [hG], ?_⟩
              simp [instLoop, h3, ← hb, LoopAgree]
            | some p'' =>
              cases h4 : paramToBound p'' with
              | none =>
                obtain ⟨G, hG⟩ : ∃ G, remA' = (remA ++ [p']) ++ G := instLoop_suffix ps a _ _ _ h
                refine ⟨p' :: G, by simp [hG], ?_⟩
                simp [instLoop, h3, ← hb, h4, LoopAgree]
              | some b2 =>
                have R' : Rel (σ ++ [bnd]) (τ ++ [setPreserve b2]) (ρ ++ [setPreserve b2]) := R.snoc_var hvar
                have hl' : (τ ++ [setPreserve b2]).length = (remA ++ [p']).length := by simp [hl]
                obtain ⟨G, hG, hA⟩ := loop_comp ps a b c' _ _ _ _ (remB ++ [p'']) σ' remA' hs' hc' hf' R' hl' h
                refine ⟨p' :: G, by simp [hG], ?_⟩
                simpa [instLoop, h3, ← hb, h4] using hA

theorem fillP_full : ∀ (a : PInst) (b : List Arg), fillP a (full b) = (fill a b).map full
  | [], [] => rfl
  | [], _ :: _ => rfl
  | some v :: a, b => by
    simp only [fillP, fill, fillP_full a b, Option.map_map]
    cases fill a b <;> rfl
  | none :: a, [] => rfl
  | none :: a, x :: b => by
    simp only [full, List.map_cons, fillP, fill, Option.map_map]
    have := fillP_full a b
    simp only [full] at this
    rw [this]
    cases fill a b <;> rfl

end GuppyVerif.Instantiate
