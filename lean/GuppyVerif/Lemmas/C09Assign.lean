import GuppyVerif.Lemmas.C09Live
/-! Invariants of the assignment worklist (forward analysis with `vals_after` cache),
    for every visiting order. -/
namespace GuppyVerif.Dataflow

def preds (g : Cfg) (b : Blk) : List Blk := g.pred b ++ g.dpred b

/-- definite component of `join` over the predecessors' cached values -/
def jD (g : Cfg) (P : AParams) (aD : Blk → List Var) (b : Blk) : List Var :=
  if (preds g b).isEmpty then P.entryDef else interAll ((preds g b).map aD)
/-- maybe component -/
def jM (g : Cfg) (P : AParams) (aM : Blk → List Var) (b : Blk) : List Var :=
  if (preds g b).isEmpty then P.entryMaybe else ((preds g b).map aM).flatten

theorem assJoin_eq (g : Cfg) (P : AParams) (aD aM : Blk → List Var) (b : Blk) :
    assJoin P ((g.pred b ++ g.dpred b).map aD) ((g.pred b ++ g.dpred b).map aM) =
      (jD g P aD b, jM g P aM b) := by
  unfold assJoin jD jM preds
  cases h : (g.pred b ++ g.dpred b) <;> simp

theorem mem_interAll {ds : List (List Var)} (hne : ds ≠ []) {x : Var} :
    x ∈ interAll ds ↔ ∀ d ∈ ds, x ∈ d := by
  cases ds with
  | nil => exact absurd rfl hne
  | cons d ds =>
    unfold interAll
    simp only [List.mem_filter, List.all_eq_true, List.contains_iff_mem, List.mem_cons,
      forall_eq_or_imp]

theorem mem_jD {g : Cfg} {P : AParams} {aD : Blk → List Var} {b : Blk} {x : Var} :
    x ∈ jD g P aD b ↔
      (preds g b = [] ∧ x ∈ P.entryDef) ∨ (preds g b ≠ [] ∧ ∀ p, PEdge g p b → x ∈ aD p) := by
  unfold jD PEdge
  by_cases h : preds g b = []
  · simp [h]
  · have hne : (preds g b).map aD ≠ [] := by simpa using h
    simp only [List.isEmpty_iff, h, ↓reduceIte, false_and, ne_eq, not_false_eq_true, true_and,
      false_or, mem_interAll hne, List.mem_map, forall_exists_index, and_imp,
      forall_apply_eq_imp_iff₂]
    rfl

theorem mem_jM {g : Cfg} {P : AParams} {aM : Blk → List Var} {b : Blk} {x : Var} :
    x ∈ jM g P aM b ↔
      (preds g b = [] ∧ x ∈ P.entryMaybe) ∨ (∃ p, PEdge g p b ∧ x ∈ aM p) := by
  unfold jM PEdge
  by_cases h : preds g b = []
  · have : g.pred b ++ g.dpred b = [] := h
    simp [h, this]
  · simp only [List.isEmpty_iff, h, ↓reduceIte, List.mem_flatten, List.mem_map, false_and,
      false_or]
    constructor
    · rintro ⟨l, ⟨p, hp, rfl⟩, hx⟩; exact ⟨p, hp, hx⟩
    · rintro ⟨p, hp, hx⟩; exact ⟨_, ⟨p, hp, rfl⟩, hx⟩

theorem map_upd_of_not_mem {l : List Blk} {b : Blk} {f : Blk → List Var} {v : List Var}
    (h : b ∉ l) : l.map (upd f b v) = l.map f := by
  apply List.map_congr_left
  intro d hd
  have : d ≠ b := fun e => h (e ▸ hd)
  simp [upd, this]

theorem jD_upd {g : Cfg} {P : AParams} {aD : Blk → List Var} {b c : Blk} {v : List Var}
    (h : ¬ PEdge g b c) : jD g P (upd aD b v) c = jD g P aD c := by
  have h' : b ∉ preds g c := h
  unfold jD; rw [map_upd_of_not_mem h']
theorem jM_upd {g : Cfg} {P : AParams} {aM : Blk → List Var} {b c : Blk} {v : List Var}
    (h : ¬ PEdge g b c) : jM g P (upd aM b v) c = jM g P aM c := by
  have h' : b ∉ preds g c := h
  unfold jM; rw [map_upd_of_not_mem h']

structure AInv (g : Cfg) (P : AParams) (s : ASt) : Prop where
  qsub : ∀ c ∈ s.queue, c ∈ g.blocks
  /-- C: the cache is the transfer function applied to the value before -/
  coh : ∀ b, SetEq (s.aftD b) (s.befD b ++ g.assigned b) ∧ SetEq (s.aftM b) (s.befM b ++ g.assigned b)
  /-- B: every block that is not queued is stable -/
  stab : ∀ c ∈ g.blocks, c ∉ s.queue →
    SetEq (s.befD c) (jD g P s.aftD c) ∧ SetEq (s.befM c) (jM g P s.aftM c)
  dsub : ∀ b ∈ g.blocks, ∀ x, x ∈ s.befD b → x ∈ allVars g P
  dabove : ∀ b x, x ∈ allVars g P → ¬ NotDef g P x b → x ∈ s.befD b
  msound : ∀ b x, x ∈ s.befM b → x ∈ P.entryMaybe ∨ MaybePath g P x b
  mabove : ∀ b x, x ∈ P.entryMaybe → (MaybePath g P x b ∨ InfBack g b) → x ∈ s.befM b

theorem ainv_init (g : Cfg) (P : AParams) : AInv g P (assInit g P) := by
  refine ⟨fun c hc => hc, fun b => ⟨fun x => Iff.rfl, fun x => Iff.rfl⟩, ?_, fun b _ x hx => hx,
    fun b x hx _ => hx, fun b x hx => Or.inl hx, fun b x hx _ => hx⟩
  intro c hc hq; exact absurd hc hq

theorem assigned_sub_allVars {g : Cfg} {P : AParams} {b : Blk} (hb : b ∈ g.blocks) {x : Var}
    (hx : x ∈ g.assigned b) : x ∈ allVars g P := by
  unfold allVars
  exact List.mem_append_left _ (List.mem_flatMap.mpr ⟨b, hb, hx⟩)

theorem infBack_tail {g : Cfg} {b : Blk} (h : InfBack g b) : ∃ p, PEdge g p b ∧ InfBack g p := by
  obtain ⟨f, f0, hf⟩ := h
  exact ⟨f 1, f0 ▸ hf 0, fun i => f (i + 1), rfl, fun i => hf (i + 1)⟩

theorem mem_jD_of_not_notDef {g : Cfg} {P : AParams} {s : ASt} (hi : AInv g P s)
    {b : Blk} {x : Var} (hx : x ∈ allVars g P) (h : ¬ NotDef g P x b) : x ∈ jD g P s.aftD b := by
  rw [mem_jD]
  by_cases hp : preds g b = []
  · refine Or.inl ⟨hp, Classical.not_not.mp fun hn => h (.root hp hn)⟩
  · refine Or.inr ⟨hp, fun p hpe => ?_⟩
    apply ((hi.coh p).1 x).mpr
    rw [List.mem_append]
    by_cases ha : x ∈ g.assigned p
    · exact Or.inr ha
    · exact Or.inl (hi.dabove p x hx (fun hn => h (.step hpe ha hn)))

theorem mem_jM_of_spec {g : Cfg} {P : AParams} {s : ASt} (hi : AInv g P s)
    {b : Blk} {x : Var} (hx : x ∈ P.entryMaybe) (h : MaybePath g P x b ∨ InfBack g b) :
    x ∈ jM g P s.aftM b := by
  rw [mem_jM]
  by_cases hp : preds g b = []
  · exact Or.inl ⟨hp, hx⟩
  · right
    rcases h with h | h
    · cases h with
      | root hr _ => exact absurd hr hp
      | asg he ha => exact ⟨_, he, ((hi.coh _).2 x).mpr (List.mem_append_right _ ha)⟩
      | step he hm =>
        exact ⟨_, he, ((hi.coh _).2 x).mpr (List.mem_append_left _ (hi.mabove _ x hx (Or.inl hm)))⟩
    · obtain ⟨p, he, hib⟩ := infBack_tail h
      exact ⟨p, he, ((hi.coh _).2 x).mpr (List.mem_append_left _ (hi.mabove _ x hx (Or.inr hib)))⟩

theorem maybePath_of_mem_jM {g : Cfg} {P : AParams} {s : ASt} (hi : AInv g P s)
    {b : Blk} {x : Var} (h : x ∈ jM g P s.aftM b) : x ∈ P.entryMaybe ∨ MaybePath g P x b := by
  rw [mem_jM] at h
  rcases h with ⟨_, hx⟩ | ⟨p, he, hx⟩
  · exact Or.inl hx
  · have := ((hi.coh p).2 x).mp hx
    rw [List.mem_append] at this
    rcases this with hb | ha
    · rcases hi.msound p x hb with h | h
      · exact Or.inl h
      · exact Or.inr (.step he h)
    · exact Or.inr (.asg he ha)

theorem mem_allVars_of_mem_jD {g : Cfg} (hg : g.WF) {P : AParams} {s : ASt} (hi : AInv g P s)
    {b : Blk} (hb : b ∈ g.blocks) {x : Var} (h : x ∈ jD g P s.aftD b) : x ∈ allVars g P := by
  rw [mem_jD] at h
  rcases h with ⟨_, hx⟩ | ⟨hp, hall⟩
  · unfold allVars; exact List.mem_append_right _ hx
  · obtain ⟨p, hp'⟩ := List.exists_mem_of_ne_nil _ hp
    have hpe : PEdge g p b := hp'
    have hpb : p ∈ g.blocks := hg.pclosed b hb p hpe
    have := ((hi.coh p).1 x).mp (hall p hpe)
    rw [List.mem_append] at this
    rcases this with h | h
    · exact hi.dsub p hpb x h
    · exact assigned_sub_allVars hpb h

theorem ainv_step (g : Cfg) (hg : g.WF) (P : AParams) (s : ASt) (b : Blk) (hbq : b ∈ s.queue)
    (hi : AInv g P s) : AInv g P (assStep g P s b) := by
  have hb : b ∈ g.blocks := hi.qsub b hbq
  unfold assStep
  simp only [assJoin_eq]
  -- facts about the new value before `b`
  have newD_sub : ∀ x, x ∈ jD g P s.aftD b → x ∈ allVars g P :=
    fun x h => mem_allVars_of_mem_jD hg hi hb h
  by_cases e : (sameSet (jD g P s.aftD b ++ g.assigned b) (s.aftD b) &&
      sameSet (jM g P s.aftM b ++ g.assigned b) (s.aftM b)) = true
  · simp only [e, ↓reduceIte]
    rw [Bool.and_eq_true, sameSet_iff, sameSet_iff] at e
    refine ⟨?_, ?_, ?_, ?_, ?_, ?_, ?_⟩
    · intro c hc; exact hi.qsub c (mem_filter_ne.mp hc).1
    · intro c
      by_cases hcb : c = b
      · subst hcb; simp only [upd, ↓reduceIte]
        exact ⟨fun x => (e.1 x).symm, fun x => (e.2 x).symm⟩
      · simp only [upd, hcb, ↓reduceIte]; exact hi.coh c
    · intro c hc hq
      by_cases hcb : c = b
      · subst hcb; simp only [upd, ↓reduceIte]; exact ⟨fun x => Iff.rfl, fun x => Iff.rfl⟩
      · simp only [upd, hcb, ↓reduceIte]
        exact hi.stab c hc (fun h => hq (mem_filter_ne.mpr ⟨h, hcb⟩))
    · intro c hc x hx
      by_cases hcb : c = b
      · subst hcb; simp only [upd, ↓reduceIte] at hx; exact newD_sub x hx
      · simp only [upd, hcb, ↓reduceIte] at hx; exact hi.dsub c hc x hx
    · intro c x hx hn
      by_cases hcb : c = b
      · subst hcb; simp only [upd, ↓reduceIte]; exact mem_jD_of_not_notDef hi hx hn
      · simp only [upd, hcb, ↓reduceIte]; exact hi.dabove c x hx hn
    · intro c x hx
      by_cases hcb : c = b
      · subst hcb; simp only [upd, ↓reduceIte] at hx; exact maybePath_of_mem_jM hi hx
      · simp only [upd, hcb, ↓reduceIte] at hx; exact hi.msound c x hx
    · intro c x hx hsp
      by_cases hcb : c = b
      · subst hcb; simp only [upd, ↓reduceIte]; exact mem_jM_of_spec hi hx hsp
      · simp only [upd, hcb, ↓reduceIte]; exact hi.mabove c x hx hsp
  · simp only [e, Bool.false_eq_true, ↓reduceIte]
    refine ⟨?_, ?_, ?_, ?_, ?_, ?_, ?_⟩
    · intro c hc
      rw [List.mem_append] at hc
      rcases hc with hc | hc
      · exact hi.qsub c (mem_filter_ne.mp hc).1
      · exact hg.closed b hb c hc
    · intro c
      by_cases hcb : c = b
      · subst hcb; simp only [upd, ↓reduceIte]; exact ⟨fun x => Iff.rfl, fun x => Iff.rfl⟩
      · simp only [upd, hcb, ↓reduceIte]; exact hi.coh c
    · intro c hc hq
      simp only [List.mem_append, not_or] at hq
      have hne : ¬ PEdge g b c := fun he => by
        have := (hg.conv b c).mpr he
        unfold Edge at this
        simp only [List.mem_append] at this
        exact this.elim hq.2.1 hq.2.2
      rw [jD_upd hne, jM_upd hne]
      by_cases hcb : c = b
      · subst hcb; simp only [upd, ↓reduceIte]; exact ⟨fun x => Iff.rfl, fun x => Iff.rfl⟩
      · simp only [upd, hcb, ↓reduceIte]
        exact hi.stab c hc (fun h => hq.1 (mem_filter_ne.mpr ⟨h, hcb⟩))
    · intro c hc x hx
      by_cases hcb : c = b
      · subst hcb; simp only [upd, ↓reduceIte] at hx; exact newD_sub x hx
      · simp only [upd, hcb, ↓reduceIte] at hx; exact hi.dsub c hc x hx
    · intro c x hx hn
      by_cases hcb : c = b
      · subst hcb; simp only [upd, ↓reduceIte]; exact mem_jD_of_not_notDef hi hx hn
      · simp only [upd, hcb, ↓reduceIte]; exact hi.dabove c x hx hn
    · intro c x hx
      by_cases hcb : c = b
      · subst hcb; simp only [upd, ↓reduceIte] at hx; exact maybePath_of_mem_jM hi hx
      · simp only [upd, hcb, ↓reduceIte] at hx; exact hi.msound c x hx
    · intro c x hx hsp
      by_cases hcb : c = b
      · subst hcb; simp only [upd, ↓reduceIte]; exact mem_jM_of_spec hi hx hsp
      · simp only [upd, hcb, ↓reduceIte]; exact hi.mabove c x hx hsp

theorem ainv_reach (g : Cfg) (hg : g.WF) (P : AParams) {s t : ASt} (h : AReach g P s t)
    (hi : AInv g P s) : AInv g P t := by
  induction h with
  | refl => exact hi
  | step b hb _ ih => exact ih (ainv_step g hg P _ b hb hi)

/-- at a stable state, a variable with a not-definitely-assigned path is not in the result -/
theorem not_mem_of_notDef {g : Cfg} (hg : g.WF) {P : AParams} {s : ASt} (hi : AInv g P s)
    (hq : ∀ c ∈ g.blocks, c ∉ s.queue) {x : Var} {b : Blk} (hb : b ∈ g.blocks)
    (h : NotDef g P x b) : x ∉ s.befD b := by
  induction h with
  | root hr hx =>
    intro hm
    have := ((hi.stab _ hb (hq _ hb)).1 x).mp hm
    rw [mem_jD] at this
    rcases this with ⟨_, h⟩ | ⟨hp, _⟩
    · exact hx h
    · exact hp hr
  | step he ha _ ih =>
    intro hm
    have := ((hi.stab _ hb (hq _ hb)).1 x).mp hm
    rw [mem_jD] at this
    rcases this with ⟨hr, _⟩ | ⟨_, hall⟩
    · have : _ ∈ preds g _ := he
      rw [hr] at this; exact absurd this (List.not_mem_nil)
    · have := ((hi.coh _).1 x).mp (hall _ he)
      rw [List.mem_append] at this
      exact this.elim (ih (hg.pclosed _ hb _ he)) ha

theorem mem_of_maybePath {g : Cfg} (hg : g.WF) {P : AParams} {s : ASt} (hi : AInv g P s)
    (hq : ∀ c ∈ g.blocks, c ∉ s.queue) {x : Var} {b : Blk} (hb : b ∈ g.blocks)
    (h : MaybePath g P x b) : x ∈ s.befM b := by
  induction h with
  | root hr hx => exact ((hi.stab _ hb (hq _ hb)).2 x).mpr (mem_jM.mpr (Or.inl ⟨hr, hx⟩))
  | asg he ha =>
    exact ((hi.stab _ hb (hq _ hb)).2 x).mpr
      (mem_jM.mpr (Or.inr ⟨_, he, ((hi.coh _).2 x).mpr (List.mem_append_right _ ha)⟩))
  | step he _ ih =>
    exact ((hi.stab _ hb (hq _ hb)).2 x).mpr
      (mem_jM.mpr (Or.inr ⟨_, he, ((hi.coh _).2 x).mpr
        (List.mem_append_left _ (ih (hg.pclosed _ hb _ he)))⟩))

theorem infBack_of_stable {g : Cfg} (hg : g.WF) {P : AParams} {s : ASt} (hi : AInv g P s)
    (hq : ∀ c ∈ g.blocks, c ∉ s.queue) {x : Var} {b : Blk} (hb : b ∈ g.blocks)
    (hx : x ∈ s.befM b) (hxM : x ∈ P.entryMaybe) (hn : ¬ MaybePath g P x b) : InfBack g b := by
  let S : Blk → Prop := fun c => c ∈ g.blocks ∧ x ∈ s.befM c ∧ ¬ MaybePath g P x c
  have next : ∀ c, S c → ∃ p, PEdge g p c ∧ S p := by
    rintro c ⟨hc, hxc, hnc⟩
    have := ((hi.stab c hc (hq c hc)).2 x).mp hxc
    rw [mem_jM] at this
    rcases this with ⟨hr, _⟩ | ⟨p, he, hp⟩
    · exact absurd (MaybePath.root hr hxM) hnc
    · have := ((hi.coh p).2 x).mp hp
      rw [List.mem_append] at this
      rcases this with h | h
      · exact ⟨p, he, hg.pclosed c hc p he, h, fun hm => hnc (.step he hm)⟩
      · exact absurd (MaybePath.asg he h) hnc
  let nx : {c // S c} → {c // S c} := fun c =>
    ⟨Classical.choose (next c.1 c.2), (Classical.choose_spec (next c.1 c.2)).2⟩
  let f : Nat → {c // S c} := fun i => Nat.rec ⟨b, hb, hx, hn⟩ (fun _ c => nx c) i
  exact ⟨fun i => (f i).1, rfl, fun i => (Classical.choose_spec (next (f i).1 (f i).2)).1⟩

end GuppyVerif.Dataflow
