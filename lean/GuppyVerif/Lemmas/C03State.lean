import GuppyVerif.Lemmas.C03Eval
/-! # C03 helper lemmas, part 2: builder states, the extension order, execution steps

`Ext σ bl`: the block list `bl` (a later state of the CFG under construction, or the final CFG)
extends state `σ`: every block of `σ` is still there, its statements are a prefix of the later ones,
and a block that already has successors in `σ` (a *closed* block) is unchanged up to dummy edges.
Executions transfer along `Ext`. -/
namespace GuppyVerif.Builder
open GuppyVerif.Surface

def blkL (bl : List Block) (i : Nat) : Block := bl[i]?.getD {}
abbrev BState.blk (σ : BState) (i : Nat) : Block := blkL σ.blocks i
abbrev BState.len (σ : BState) : Nat := σ.blocks.length

theorem blkL_some {bl : List Block} {i : Nat} (h : i < bl.length) : bl[i]? = some (blkL bl i) := by
  simp [blkL, List.getElem?_eq_getElem h]

/-! ### primitive operations -/

@[simp] theorem len_upd (σ : BState) (i : Nat) (f : Block → Block) : (σ.upd i f).len = σ.len := by
  simp [BState.upd, BState.len]
@[simp] theorem tmp_upd (σ : BState) (i : Nat) (f : Block → Block) : (σ.upd i f).nextTmp = σ.nextTmp := rfl

theorem blk_upd_same (σ : BState) (i : Nat) (f : Block → Block) (h : i < σ.len) :
    (σ.upd i f).blk i = f (σ.blk i) := by
  simp [BState.upd, BState.blk, blkL, List.getElem?_modify_eq, List.getElem?_eq_getElem h]
theorem blk_upd_other (σ : BState) (i j : Nat) (f : Block → Block) (h : j ≠ i) :
    (σ.upd i f).blk j = σ.blk j := by
  simp [BState.upd, BState.blk, blkL, List.getElem?_modify_ne _ _ (Ne.symm h)]

@[simp] theorem len_newBB (σ : BState) : (newBB σ).2.len = σ.len + 1 := by simp [newBB, BState.len]
@[simp] theorem fst_newBB (σ : BState) : (newBB σ).1 = σ.len := rfl
@[simp] theorem tmp_newBB (σ : BState) : (newBB σ).2.nextTmp = σ.nextTmp := rfl
theorem blk_newBB_old (σ : BState) (i : Nat) (h : i < σ.len) : (newBB σ).2.blk i = σ.blk i := by
  simp [newBB, BState.blk, blkL, List.getElem?_append_left h]
theorem blk_newBB_new (σ : BState) : (newBB σ).2.blk σ.len = {} := by
  simp [newBB, BState.blk, blkL]

@[simp] theorem len_link (a b : Nat) (σ : BState) : (link a b σ).len = σ.len := by simp [link]
@[simp] theorem len_dummyLink (a b : Nat) (σ : BState) : (dummyLink a b σ).len = σ.len := by simp [dummyLink]
@[simp] theorem len_addStmt (b : Nat) (s : BStmt) (σ : BState) : (addStmt b s σ).len = σ.len := by simp [addStmt]
@[simp] theorem tmp_link (a b : Nat) (σ : BState) : (link a b σ).nextTmp = σ.nextTmp := rfl
@[simp] theorem tmp_dummyLink (a b : Nat) (σ : BState) : (dummyLink a b σ).nextTmp = σ.nextTmp := rfl
@[simp] theorem tmp_addStmt (b : Nat) (s : BStmt) (σ : BState) : (addStmt b s σ).nextTmp = σ.nextTmp := rfl
@[simp] theorem len_branchOn (b : Nat) (p : Expr) (t f : Nat) (σ : BState) : (branchOn b p t f σ).len = σ.len := by
  simp [branchOn]
@[simp] theorem tmp_branchOn (b : Nat) (p : Expr) (t f : Nat) (σ : BState) :
    (branchOn b p t f σ).nextTmp = σ.nextTmp := rfl
@[simp] theorem len_freshTmp (σ : BState) : (freshTmp σ).2.len = σ.len := rfl
@[simp] theorem blk_freshTmp (σ : BState) (i : Nat) : (freshTmp σ).2.blk i = σ.blk i := rfl
@[simp] theorem tmp_freshTmp (σ : BState) : (freshTmp σ).2.nextTmp = σ.nextTmp + 1 := rfl
@[simp] theorem fst_freshTmp (σ : BState) : (freshTmp σ).1 = σ.nextTmp := rfl

theorem blk_link_same (a b : Nat) (σ : BState) (h : a < σ.len) :
    (link a b σ).blk a = { σ.blk a with succs := (σ.blk a).succs ++ [b] } := blk_upd_same σ a _ h
theorem blk_link_other (a b j : Nat) (σ : BState) (h : j ≠ a) : (link a b σ).blk j = σ.blk j :=
  blk_upd_other σ a j _ h
theorem blk_dummyLink_same (a b : Nat) (σ : BState) (h : a < σ.len) :
    (dummyLink a b σ).blk a = { σ.blk a with dsuccs := (σ.blk a).dsuccs ++ [b] } := blk_upd_same σ a _ h
theorem blk_dummyLink_other (a b j : Nat) (σ : BState) (h : j ≠ a) : (dummyLink a b σ).blk j = σ.blk j :=
  blk_upd_other σ a j _ h
theorem blk_addStmt_same (b : Nat) (s : BStmt) (σ : BState) (h : b < σ.len) :
    (addStmt b s σ).blk b = { σ.blk b with stmts := (σ.blk b).stmts ++ [s] } := blk_upd_same σ b _ h
theorem blk_addStmt_other (b j : Nat) (s : BStmt) (σ : BState) (h : j ≠ b) : (addStmt b s σ).blk j = σ.blk j :=
  blk_upd_other σ b j _ h
theorem blk_branchOn_same (b : Nat) (p : Expr) (t f : Nat) (σ : BState) (h : b < σ.len) :
    (branchOn b p t f σ).blk b =
      { σ.blk b with pred := some p, succs := (σ.blk b).succs ++ [f] ++ [t] } := by
  simp only [branchOn]
  rw [blk_link_same _ _ _ (by simpa using h), blk_link_same _ _ _ (by simpa using h), blk_upd_same _ _ _ h]
theorem blk_branchOn_other (b j : Nat) (p : Expr) (t f : Nat) (σ : BState) (h : j ≠ b) :
    (branchOn b p t f σ).blk j = σ.blk j := by
  simp only [branchOn]; rw [blk_link_other _ _ _ _ h, blk_link_other _ _ _ _ h, blk_upd_other _ _ _ _ h]

/-! ### `Touch`: a building step that only changes block `b` (by appending) and fresh blocks -/

structure Touch (σ : BState) (b : Nat) (σ' : BState) : Prop where
  len : σ.len ≤ σ'.len
  tmp : σ.nextTmp ≤ σ'.nextTmp
  frame : ∀ i, i < σ.len → i ≠ b → σ'.blk i = σ.blk i
  pre : (σ.blk b).stmts <+: (σ'.blk b).stmts

theorem Touch.refl (σ : BState) (b : Nat) : Touch σ b σ :=
  ⟨Nat.le_refl _, Nat.le_refl _, fun _ _ _ => rfl, List.prefix_refl _⟩

/-- compose: the second step touches the same block or one that is fresh for the first state -/
theorem Touch.trans {σ σ1 σ2 : BState} {b b1 : Nat} (h1 : Touch σ b σ1) (h2 : Touch σ1 b1 σ2)
    (hb : b < σ.len) (hb1 : b1 = b ∨ σ.len ≤ b1) : Touch σ b σ2 := by
  refine ⟨Nat.le_trans h1.len h2.len, Nat.le_trans h1.tmp h2.tmp, ?_, ?_⟩
  · intro i hi hne
    rw [h2.frame i (Nat.lt_of_lt_of_le hi h1.len) (by omega), h1.frame i hi hne]
  · rcases hb1 with rfl | hge
    · exact h1.pre.trans h2.pre
    · rw [h2.frame b (Nat.lt_of_lt_of_le hb h1.len) (by omega)]; exact h1.pre

theorem touch_newBB (σ : BState) (b : Nat) : Touch σ b (newBB σ).2 :=
  ⟨by simp, by simp, fun i hi _ => blk_newBB_old σ i hi, by
    by_cases h : b < σ.len
    · rw [blk_newBB_old σ b h]; exact List.prefix_refl _
    · have : σ.blk b = {} := by simp [BState.blk, blkL, List.getElem?_eq_none (Nat.le_of_not_lt h)]
      rw [this]; exact List.nil_prefix⟩
theorem touch_link (a b : Nat) (σ : BState) : Touch σ a (link a b σ) :=
  ⟨by simp, by simp, fun i _ hne => blk_link_other a b i σ hne, by
    by_cases h : a < σ.len
    · rw [blk_link_same a b σ h]; exact List.prefix_refl _
    · simp [link, BState.upd, BState.blk, blkL, List.getElem?_eq_none (Nat.le_of_not_lt h)]⟩
theorem touch_dummyLink (a b : Nat) (σ : BState) : Touch σ a (dummyLink a b σ) :=
  ⟨by simp, by simp, fun i _ hne => blk_dummyLink_other a b i σ hne, by
    by_cases h : a < σ.len
    · rw [blk_dummyLink_same a b σ h]; exact List.prefix_refl _
    · simp [dummyLink, BState.upd, BState.blk, blkL, List.getElem?_eq_none (Nat.le_of_not_lt h)]⟩
theorem touch_addStmt (b : Nat) (s : BStmt) (σ : BState) : Touch σ b (addStmt b s σ) :=
  ⟨by simp, by simp, fun i _ hne => blk_addStmt_other b i s σ hne, by
    by_cases h : b < σ.len
    · rw [blk_addStmt_same b s σ h]; exact List.prefix_append _ _
    · simp [addStmt, BState.upd, BState.blk, blkL, List.getElem?_eq_none (Nat.le_of_not_lt h)]⟩
theorem touch_branchOn (b : Nat) (p : Expr) (t f : Nat) (σ : BState) : Touch σ b (branchOn b p t f σ) :=
  ⟨by simp, by simp, fun i _ hne => blk_branchOn_other b i p t f σ hne, by
    by_cases h : b < σ.len
    · rw [blk_branchOn_same b p t f σ h]; exact List.prefix_refl _
    · simp [branchOn, link, BState.upd, BState.blk, blkL, List.getElem?_eq_none (Nat.le_of_not_lt h)]⟩
theorem touch_freshTmp (σ : BState) (b : Nat) : Touch σ b (freshTmp σ).2 :=
  ⟨Nat.le_refl _, by simp, fun _ _ _ => rfl, List.prefix_refl _⟩
theorem touch_bad (σ : BState) (b : Nat) (v : Bool) : Touch σ b { σ with bad := v } :=
  ⟨Nat.le_refl _, Nat.le_refl _, fun _ _ _ => rfl, List.prefix_refl _⟩

/-! ### the extension order -/

structure Ext (σ : BState) (bl : List Block) : Prop where
  len : σ.len ≤ bl.length
  pre : ∀ i, i < σ.len → (σ.blk i).stmts <+: (blkL bl i).stmts
  closed : ∀ i, i < σ.len → (σ.blk i).succs ≠ [] →
    (blkL bl i).stmts = (σ.blk i).stmts ∧ (blkL bl i).succs = (σ.blk i).succs ∧ (blkL bl i).pred = (σ.blk i).pred

theorem Ext.refl (σ : BState) : Ext σ σ.blocks :=
  ⟨Nat.le_refl _, fun _ _ => List.prefix_refl _, fun _ _ _ => ⟨rfl, rfl, rfl⟩⟩

theorem Ext.trans {σ σ' : BState} {bl : List Block} (h1 : Ext σ σ'.blocks) (h2 : Ext σ' bl) : Ext σ bl := by
  refine ⟨Nat.le_trans h1.len h2.len, fun i hi => (h1.pre i hi).trans (h2.pre i (Nat.lt_of_lt_of_le hi h1.len)), ?_⟩
  intro i hi hc
  obtain ⟨a1, a2, a3⟩ := h1.closed i hi hc
  have hc' : (σ'.blk i).succs ≠ [] := by rw [show (σ'.blk i).succs = (σ.blk i).succs from a2]; exact hc
  obtain ⟨b1, b2, b3⟩ := h2.closed i (Nat.lt_of_lt_of_le hi h1.len) hc'
  exact ⟨b1.trans a1, b2.trans a2, b3.trans a3⟩

/-- a step that only touches an *open* block (and fresh ones) is an extension -/
theorem Touch.ext {σ σ' : BState} {b : Nat} (h : Touch σ b σ') (ho : (σ.blk b).succs = []) : Ext σ σ'.blocks := by
  refine ⟨h.len, ?_, ?_⟩
  · intro i hi
    by_cases hb : i = b
    · subst hb; exact h.pre
    · show _ <+: (σ'.blk i).stmts; rw [h.frame i hi hb]; exact List.prefix_refl _
  · intro i hi hc
    by_cases hb : i = b
    · subst hb; exact absurd ho hc
    · show (σ'.blk i).stmts = _ ∧ (σ'.blk i).succs = _ ∧ (σ'.blk i).pred = _
      rw [h.frame i hi hb]; exact ⟨rfl, rfl, rfl⟩

/-! ### execution -/

/-- reflexive-transitive closure of `step` -/
inductive Steps (env : Env) (bl : List Block) : Config → Config → Prop where
  | refl (c : Config) : Steps env bl c c
  | head {c c1 c2 : Config} : step env bl c = some c1 → Steps env bl c1 c2 → Steps env bl c c2

theorem Steps.trans {env : Env} {bl : List Block} {a b c : Config} (h1 : Steps env bl a b) (h2 : Steps env bl b c) :
    Steps env bl a c := by
  induction h1 with
  | refl _ => exact h2
  | head hs _ ih => exact .head hs (ih h2)

theorem Steps.single {env : Env} {bl : List Block} {a b : Config} (h : step env bl a = some b) : Steps env bl a b :=
  .head h (.refl _)

/-- executing the statement that state `σ` has at position `k` of block `b` -/
theorem step_stmt {env : Env} {σ : BState} {bl : List Block} (hx : Ext σ bl) {b k : Nat} (hb : b < σ.len)
    {st : BStmt} (hk : (σ.blk b).stmts[k]? = some st) (s : S) (r : Option Val) :
    step env bl ⟨b, k, s, r⟩ = some (execB env st ⟨b, k, s, r⟩) := by
  have hlen : b < bl.length := Nat.lt_of_lt_of_le hb hx.len
  have hpre := hx.pre b hb
  have hk' : (blkL bl b).stmts[k]? = some st := by
    obtain ⟨t, ht⟩ := hpre
    rw [← ht]
    have hklt : k < (σ.blk b).stmts.length := (List.getElem?_eq_some_iff.mp hk).1
    rw [List.getElem?_append_left hklt]; exact hk
  simp only [step, stepB, blkL_some hlen, hk']

/-- the unconditional jump at the end of a closed block -/
theorem step_goto {env : Env} {σ : BState} {bl : List Block} (hx : Ext σ bl) {b t : Nat} (hb : b < σ.len)
    (hs : (σ.blk b).succs = [t]) (s : S) (r : Option Val) :
    step env bl ⟨b, (σ.blk b).stmts.length, s, r⟩ = some ⟨t, 0, s, r⟩ := by
  have hlen : b < bl.length := Nat.lt_of_lt_of_le hb hx.len
  obtain ⟨c1, c2, _⟩ := hx.closed b hb (by rw [hs]; simp)
  simp only [step, stepB, blkL_some hlen, c1, c2, hs, List.getElem?_eq_none (Nat.le_refl _)]

/-- the conditional jump at the end of a closed block -/
theorem step_branch {env : Env} {σ : BState} {bl : List Block} (hx : Ext σ bl) {b t f : Nat} {p : Expr}
    (hb : b < σ.len) (hs : (σ.blk b).succs = [f, t]) (hp : (σ.blk b).pred = some p) (s : S) (r : Option Val) :
    step env bl ⟨b, (σ.blk b).stmts.length, s, r⟩ =
      some ⟨if (eval env p s).1.truthy then t else f, 0, (eval env p s).2, r⟩ := by
  have hlen : b < bl.length := Nat.lt_of_lt_of_le hb hx.len
  obtain ⟨c1, c2, c3⟩ := hx.closed b hb (by rw [hs]; simp)
  simp only [step, stepB, blkL_some hlen, c1, c2, c3, hs, hp, List.getElem?_eq_none (Nat.le_refl _)]

end GuppyVerif.Builder
