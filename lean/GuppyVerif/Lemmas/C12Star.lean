import GuppyVerif.Lemmas.C12
/-! Lemmas for C12, part 3: repeated application of an acyclic substitution reaches a fixpoint that
    solves the substitution. -/
namespace GuppyVerif.Unify

theorem apply_var (σ : Subst) (v : V) : apply σ (.var v) = asFun σ v := by simp [apply, inst]

theorem applyN_comm (σ : Subst) : ∀ (n : Nat) (t : Tm), applyN σ n (apply σ t) = apply σ (applyN σ n t) := by
  intro n
  induction n with
  | zero => intro t; rfl
  | succ n ih => intro t; simp only [applyN]; rw [ih]

theorem passes_zero (σ : Subst) (v : V) : passes σ 0 v = .var v := rfl

theorem passes_succ (σ : Subst) (n : Nat) (v : V) : passes σ (n + 1) v = apply σ (passes σ n v) := by
  simp only [passes, applyN]; rw [applyN_comm]

theorem applyN_eq_inst (σ : Subst) : ∀ (n : Nat) (t : Tm), applyN σ n t = inst (passes σ n) t := by
  intro n
  induction n with
  | zero => intro t; simp only [applyN]; exact (inst_id_of t _ (fun y _ => rfl)).symm
  | succ n ih =>
    intro t
    simp only [applyN]
    rw [ih, apply, inst_inst]
    apply inst_congr
    intro y _
    simp only [passes, applyN, apply_var]
    rw [ih]

theorem passes_succ' (σ : Subst) (n : Nat) (v : V) : passes σ (n + 1) v = inst (passes σ n) (asFun σ v) := by
  simp only [passes, applyN, apply_var]; rw [applyN_eq_inst]

theorem apply_saturated {σ : Subst} {t : Tm} (h : Saturated σ t) : apply σ t = t := by
  apply inst_id_of
  intro y hy
  simp [asFun, h y hy]

theorem passes_unbound {σ : Subst} {x : V} (h : lookup σ x = none) : ∀ n, passes σ n x = .var x := by
  intro n
  induction n with
  | zero => rfl
  | succ n ih => rw [passes_succ, ih, apply_var]; simp [asFun, h]

/-- after more passes than its rank, the image of a variable is saturated -/
theorem passes_saturated {σ : Subst} {r : V → Nat}
    (hr : ∀ v u, lookup σ v = some u → ∀ y ∈ u.vars, r y < r v) :
    ∀ (m : Nat) (x : V), r x ≤ m → ∀ n, m < n → Saturated σ (passes σ n x) := by
  intro m
  induction m with
  | zero =>
    intro x hx n hn
    cases hl : lookup σ x with
    | none => rw [passes_unbound hl]; intro y hy; simp [Tm.vars] at hy; subst hy; exact hl
    | some u =>
      obtain ⟨n', rfl⟩ : ∃ n', n = n' + 1 := ⟨n - 1, by omega⟩
      rw [passes_succ']
      intro z hz
      obtain ⟨y, hy, _⟩ := mem_vars_inst _ hz
      simp only [asFun, hl] at hy
      have := hr x u hl y hy
      omega
  | succ m ih =>
    intro x hx n hn
    cases hl : lookup σ x with
    | none => rw [passes_unbound hl]; intro y hy; simp [Tm.vars] at hy; subst hy; exact hl
    | some u =>
      obtain ⟨n', rfl⟩ : ∃ n', n = n' + 1 := ⟨n - 1, by omega⟩
      rw [passes_succ']
      intro z hz
      obtain ⟨y, hy, hzy⟩ := mem_vars_inst _ hz
      simp only [asFun, hl] at hy
      have := hr x u hl y hy
      exact ih y (by omega) n' (by omega) z hzy

theorem passes_stable {σ : Subst} {n : Nat} {x : V} (h : Saturated σ (passes σ n x)) :
    passes σ (n + 1) x = passes σ n x := by
  rw [passes_succ, apply_saturated h]

theorem lookup_mem_keys {σ : Subst} {v : V} {u : Tm} (h : lookup σ v = some u) : v ∈ σ.map Prod.fst := by
  induction σ with
  | nil => simp [lookup] at h
  | cons p σ ih =>
    obtain ⟨w, t⟩ := p
    rw [lookup_cons] at h
    by_cases e : w = v
    · simp [e]
    · simp only [e, if_false] at h; simp [ih h]

/-- enough passes of an acyclic substitution give an assignment that solves it (with plain equality) -/
theorem passes_solves {σ : Subst} (ha : Acyclic σ) :
    ∃ N, ∀ n, N ≤ n → ∀ v u, lookup σ v = some u → passes σ n v = inst (passes σ n) u := by
  obtain ⟨r, hr⟩ := ha
  refine ⟨1 + ((σ.map Prod.fst).map r).sum, ?_⟩
  intro n hn v u hl
  have hv : r v ≤ ((σ.map Prod.fst).map r).sum := mem_le_sum_map r _ v (lookup_mem_keys hl)
  obtain ⟨n', rfl⟩ : ∃ n', n = n' + 1 := ⟨n - 1, by omega⟩
  rw [passes_succ']
  simp only [asFun, hl]
  apply inst_congr
  intro y hy
  have := hr v u hl y hy
  exact (passes_stable (passes_saturated hr (r y) y (Nat.le_refl _) n' (by omega))).symm

/-- … and every term is eventually saturated -/
theorem applyN_saturated {σ : Subst} (ha : Acyclic σ) (t : Tm) :
    ∃ N, ∀ n, N ≤ n → Saturated σ (applyN σ n t) := by
  obtain ⟨r, hr⟩ := ha
  refine ⟨1 + (t.vars.map r).sum, ?_⟩
  intro n hn z hz
  rw [applyN_eq_inst] at hz
  obtain ⟨y, hy, hzy⟩ := mem_vars_inst _ hz
  have : r y ≤ (t.vars.map r).sum := mem_le_sum_map r _ y hy
  exact passes_saturated hr (r y) y (Nat.le_refl _) n (by omega) z hzy

end GuppyVerif.Unify
