import GuppyVerif.Lemmas.C12Lin
import GuppyVerif.Lemmas.C12Compl
/-! Lemmas for C12, part 10: completeness and most-generality for the literal reading of the flag clause,
    for assignments that do not change linearity (`LinInv`). -/
namespace GuppyVerif.Unify

theorem unifiesL_node {E : Env} {θ : V → Tm} {h₁ h₂ : Head} {as bs : List Tm}
    (h : UnifiesL E θ (.node h₁ as) (.node h₂ bs)) :
    normH E h₁ (as.map (inst θ)) = normH E h₂ (bs.map (inst θ)) ∧
      as.map (fun a => norm E (inst θ a)) = bs.map (fun a => norm E (inst θ a)) := by
  unfold UnifiesL LinEq at h
  simp only [inst, norm, instList_eq, normList_eq, List.map_map, Tm.node.injEq] at h
  exact h

theorem shape_failL {E : Env} {s t : Tm} {θ : V → Tm} (hθ : LinInv E θ) (h : shape E s t = .fail)
    (hs : s.wf = true) (ht : t.wf = true) : ¬ UnifiesL E θ s t := by
  intro hu
  cases s with
  | var a => cases t <;> simp only [shape] at h <;> (try split at h) <;> cases h
  | targ x => simp [Tm.wf] at hs
  | carg x => simp [Tm.wf] at hs
  | atom a =>
    cases t with
    | var b => simp only [shape] at h; cases h
    | atom b =>
      simp only [shape] at h
      split at h
      · cases h
      · rename_i hne
        unfold UnifiesL LinEq at hu
        simp only [inst, norm, Tm.atom.injEq] at hu
        subst hu
        exact hne (atomEq_refl a)
    | node h₂ bs => unfold UnifiesL LinEq at hu; simp [inst, norm] at hu
    | targ y => simp [Tm.wf] at ht
    | carg y => simp [Tm.wf] at ht
  | node h₁ as =>
    cases t with
    | var b => simp only [shape] at h; cases h
    | atom b => unfold UnifiesL LinEq at hu; simp [inst, norm] at hu
    | targ y => simp [Tm.wf] at ht
    | carg y => simp [Tm.wf] at ht
    | node h₂ bs =>
      simp only [shape] at h
      obtain ⟨hh, hl⟩ := unifiesL_node hu
      cases h₁ <;> cases h₂ <;> simp only [normH] at hh <;> (try (cases hh; done)) <;> simp only [] at h
      · rename_i fl₁ p₁ fl₂ p₂
        simp only [Head.func.injEq] at hh
        obtain ⟨hr, hp⟩ := hh
        have hfl : fl₁.length = fl₂.length := by
          have := congrArg List.length hr
          simpa [normFlags_length] using this
        rw [normFlags_map E (inst θ) fl₁ as (fun a _ => hθ a), normFlags_map E (inst θ) fl₂ bs (fun a _ => hθ a)] at hr
        have hlin : as.map (linear E) = bs.map (linear E) := by
          have : (as.map (fun a => norm E (inst θ a))).map (linear E) = (bs.map (fun a => norm E (inst θ a))).map (linear E) := by
            rw [hl]
          simpa [List.map_map, Function.comp_def, linear_norm, hθ _] using this
        have hcl := (normFlags_iff E fl₁ fl₂ as bs hfl hlin).mp hr
        simp [hp, hfl, hcl] at h
      · cases h
      · simp only [Head.opaque.injEq] at hh; simp [hh] at h
      · simp only [Head.struct.injEq] at hh; simp [hh] at h

def ComplFnL (E : Env) (θ : V → Tm) (u : Tm → Tm → Subst → Res) : Prop :=
  ∀ x y σ, x.wf = true → y.wf = true → WfSubst σ → SolvesL E θ σ → UnifiesL E θ x y →
    u x y σ ≠ .fail ∧ ∀ σ', u x y σ = .ok σ' → SolvesL E θ σ' ∧ WfSubst σ'

theorem loop_complL {E : Env} {θ : V → Tm} {u : Tm → Tm → Subst → Res} (hu : ComplFnL E θ u) :
    ∀ (as bs : List Tm) (σ : Subst), wfArgs as = true → wfArgs bs = true → WfSubst σ → SolvesL E θ σ →
      as.map (fun a => norm E (inst θ a)) = bs.map (fun a => norm E (inst θ a)) →
      unifyArgsLoop u as bs σ ≠ .fail ∧ ∀ σ', unifyArgsLoop u as bs σ = .ok σ' → SolvesL E θ σ' ∧ WfSubst σ' := by
  intro as
  induction as with
  | nil =>
    intro bs σ _ _ hw hθ he
    cases bs with
    | nil => simp only [unifyArgsLoop]; exact ⟨by simp, fun σ' h => by cases h; exact ⟨hθ, hw⟩⟩
    | cons b bs => simp at he
  | cons a as ih =>
    intro bs σ hwa hwb hw hθ he
    cases bs with
    | nil => simp at he
    | cons b bs =>
      simp only [List.map_cons, List.cons.injEq] at he
      obtain ⟨he1, he2⟩ := he
      have key : ∀ x y, x.wf = true → y.wf = true → wfArgs as = true → wfArgs bs = true → UnifiesL E θ x y →
          (unifyArgsLoop u (a :: as) (b :: bs) σ =
            match u x y σ with
            | .ok σ' => unifyArgsLoop u as bs σ'
            | r => r) →
          unifyArgsLoop u (a :: as) (b :: bs) σ ≠ .fail ∧
            ∀ σ', unifyArgsLoop u (a :: as) (b :: bs) σ = .ok σ' → SolvesL E θ σ' ∧ WfSubst σ' := by
        intro x y hx hy hwa' hwb' hxy heq
        obtain ⟨h1, h2⟩ := hu x y σ hx hy hw hθ hxy
        rw [heq]
        cases hres : u x y σ with
        | oof => simp
        | fail => exact absurd hres h1
        | ok σ₁ =>
          obtain ⟨hθ₁, hw₁⟩ := h2 σ₁ hres
          exact ih bs σ₁ hwa' hwb' hw₁ hθ₁ he2
      cases a <;> cases b <;> simp only [wfArgs, Bool.and_eq_true] at hwa hwb <;>
        (try (exact Bool.noConfusion hwa)) <;> (try (exact Bool.noConfusion hwb)) <;>
        simp only [inst, norm] at he1 <;> (try (cases he1; done))
      · rename_i x y
        exact key x y hwa.1 hwb.1 hwa.2 hwb.2 (by simpa [UnifiesL, LinEq] using he1) (by simp only [unifyArgsLoop]; rfl)
      · rename_i x y
        exact key x y hwa.1 hwb.1 hwa.2 hwb.2 (by simpa [UnifiesL, LinEq] using he1) (by simp only [unifyArgsLoop]; rfl)

theorem var_complL {E : Env} {θ : V → Tm} {u : Tm → Tm → Subst → Res} (hu : ComplFnL E θ u) (n : Nat)
    {v : V} {t : Tm} {σ : Subst} (hne : t ≠ .var v) (ht : t.wf = true) (hw : WfSubst σ) (hθ : SolvesL E θ σ)
    (hvt : UnifiesL E θ (.var v) t) :
    unifyVarWith u (occurs n) v t σ ≠ .fail ∧
      ∀ σ', unifyVarWith u (occurs n) v t σ = .ok σ' → SolvesL E θ σ' ∧ WfSubst σ' := by
  have hvtL : norm E (θ v) = norm E (inst θ t) := by simpa [UnifiesL, LinEq, inst] using hvt
  have hvt' : erase (θ v) = erase (inst θ t) := LinEq.flagEq hvtL
  have bindOk : lookup σ v = none → SolvesL E θ ((v, t) :: σ) ∧ WfSubst ((v, t) :: σ) := by
    intro _
    constructor
    · intro x w hx
      rw [lookup_cons] at hx
      by_cases e : v = x
      · simp only [e, if_true, Option.some.injEq] at hx; subst hx; subst e; exact hvtL
      · simp only [e, if_false] at hx; exact hθ x w hx
    · intro x w hx
      rw [lookup_cons] at hx
      by_cases e : v = x
      · simp only [e, if_true, Option.some.injEq] at hx; subst hx; exact ht
      · simp only [e, if_false] at hx; exact hw x w hx
  have bindCase : lookup σ v = none → (∀ w, t = .var w → lookup σ w = none) →
      (match occurs n σ v t with
        | none => Res.oof
        | some true => Res.fail
        | some false => Res.ok ((v, t) :: σ)) ≠ .fail ∧
      ∀ σ', (match occurs n σ v t with
        | none => Res.oof
        | some true => Res.fail
        | some false => Res.ok ((v, t) :: σ)) = .ok σ' → SolvesL E θ σ' ∧ WfSubst σ' := by
    intro hl hvar
    cases ho : occurs n σ v t with
    | none => simp
    | some b =>
      cases b with
      | false => simp only []; exact ⟨by simp, fun σ' h => by cases h; exact bindOk hl⟩
      | true =>
        exfalso
        obtain ⟨y, hy, hle⟩ := occurs_true hθ.solves n t ho
        by_cases hv : ∀ w, t ≠ .var w
        · have := (esize_inst_var (θ := θ) t hy).2 hv
          rw [hvt'] at hle
          omega
        · have : ∃ w, t = .var w := by
            cases t with
            | var w => exact ⟨w, rfl⟩
            | _ => exact absurd (fun w => by simp) hv
          obtain ⟨w, rfl⟩ := this
          have hwn := hvar w rfl
          cases n with
          | zero => simp [occurs] at ho
          | succ n =>
            have hwv : w ≠ v := fun e => hne (by rw [e])
            simp [occurs, Tm.vars, firstM, hwv, hwn] at ho
  unfold unifyVarWith
  cases hl : lookup σ v with
  | some sv =>
    simp only []
    apply hu sv t σ (hw v sv hl) ht hw hθ
    unfold UnifiesL LinEq
    rw [← hθ v sv hl]; exact hvtL
  | none =>
    simp only []
    cases t with
    | var w =>
      simp only
      cases hwl : lookup σ w with
      | some tw =>
        simp only []
        apply hu (.var v) tw σ (by simp [Tm.wf]) (hw w tw hwl) hw hθ
        unfold UnifiesL LinEq
        rw [← hθ w tw hwl]; simpa [inst] using hvtL
      | none => simp only []; exact bindCase hl (fun w' e => by cases e; exact hwl)
    | atom a => exact bindCase hl (fun w e => by cases e)
    | node hd as => exact bindCase hl (fun w e => by cases e)
    | targ x => exact bindCase hl (fun w e => by cases e)
    | carg x => exact bindCase hl (fun w e => by cases e)

theorem unify_complL (E : Env) (θ : V → Tm) (hθ : LinInv E θ) : ∀ n, ComplFnL E θ (unify E n) := by
  intro n
  induction n with
  | zero => intro x y σ _ _ _ _ _; simp [unify]
  | succ n ih =>
    intro s t σ hs ht hw hsol hst
    rw [unify_succ]
    cases hsh : shape E s t with
    | same => simp only [runShape]; exact ⟨by simp, fun σ' h => by cases h; exact ⟨hsol, hw⟩⟩
    | fail => exact absurd hst (shape_failL hθ hsh hs ht)
    | viaVar v t' =>
      simp only [runShape]
      obtain ⟨hne, hc⟩ := shape_viaVar hsh
      have h' : t'.wf = true ∧ UnifiesL E θ (.var v) t' := by
        cases hc with
        | inl e => obtain ⟨rfl, rfl⟩ := e; exact ⟨ht, hst⟩
        | inr e => obtain ⟨rfl, rfl⟩ := e; exact ⟨hs, hst.symm⟩
      exact var_complL ih n hne h'.1 hw hsol h'.2
    | viaArgs as bs =>
      simp only [runShape]
      obtain ⟨h₁, h₂, rfl, rfl, _⟩ := shape_viaArgs hsh
      obtain ⟨_, hl⟩ := unifiesL_node hst
      have hlen : as.length = bs.length := by simpa using congrArg List.length hl
      unfold unifyArgsWith
      simp only [hlen, ne_eq, not_true_eq_false, if_false]
      exact loop_complL ih as bs σ (by simpa [Tm.wf] using hs) (by simpa [Tm.wf] using ht) hw hsol hl

/-! ### a sufficient condition for `LinInv`: the assignment keeps the copy/drop capabilities of every variable -/

theorem copyable_inst {E : Env} {θ : V → Tm} (h : ∀ v, copyable E (θ v) = copyable E (.var v)) :
    ∀ t : Tm, copyable E (inst θ t) = copyable E t := by
  intro t
  induction t using Tm.induct with
  | var v => simpa [inst] using h v
  | atom a => rfl
  | node hd as ih =>
    cases hd <;> simp only [inst, copyable, instList_eq] <;> rw [copyableArgs_congr E _ as ih]
  | targ t ih => simpa [inst, copyable] using ih
  | carg t _ => simp [inst, copyable]

theorem droppable_inst {E : Env} {θ : V → Tm} (h : ∀ v, droppable E (θ v) = droppable E (.var v)) :
    ∀ t : Tm, droppable E (inst θ t) = droppable E t := by
  intro t
  induction t using Tm.induct with
  | var v => simpa [inst] using h v
  | atom a => rfl
  | node hd as ih =>
    cases hd <;> simp only [inst, droppable, instList_eq] <;> rw [droppableArgs_congr E _ as ih]
  | targ t ih => simpa [inst, droppable] using ih
  | carg t _ => simp [inst, droppable]

theorem linInv_of_bounds {E : Env} {θ : V → Tm} (hc : ∀ v, copyable E (θ v) = copyable E (.var v))
    (hd : ∀ v, droppable E (θ v) = droppable E (.var v)) : LinInv E θ := by
  intro x
  simp [linear, copyable_inst hc, droppable_inst hd]

end GuppyVerif.Unify
