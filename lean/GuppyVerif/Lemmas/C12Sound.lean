import GuppyVerif.Lemmas.C12
/-! Lemmas for C12, part 2: soundness of `unify` for every fuel. -/
namespace GuppyVerif.Unify

/-- what a successful call establishes -/
structure Good (σ σ' : Subst) (s t : Tm) : Prop where
  ext : Extends σ σ'
  eq : ∀ θ, Solves θ σ' → FlagEq (inst θ s) (inst θ t)
  acyc : Acyclic σ → Acyclic σ'

structure GoodL (σ σ' : Subst) (as bs : List Tm) : Prop where
  ext : Extends σ σ'
  eq : ∀ θ, Solves θ σ' → as.map (fun a => erase (inst θ a)) = bs.map (fun a => erase (inst θ a))
  acyc : Acyclic σ → Acyclic σ'

theorem Good.symm {σ σ' : Subst} {s t : Tm} (h : Good σ σ' s t) : Good σ σ' t s :=
  ⟨h.ext, fun θ hθ => (h.eq θ hθ).symm, h.acyc⟩

theorem Good.refl (σ : Subst) (s : Tm) : Good σ σ s s := ⟨Extends.refl σ, fun _ _ => rfl, id⟩

theorem GoodL.cons {σ σ₁ σ' : Subst} {x y : Tm} {as bs : List Tm} (w : Tm → Tm)
    (hw : ∀ θ a, erase (inst θ (w a)) = w (erase (inst θ a)))
    (h₁ : Good σ σ₁ x y) (h₂ : GoodL σ₁ σ' as bs) : GoodL σ σ' (w x :: as) (w y :: bs) := by
  refine ⟨h₁.ext.trans h₂.ext, ?_, fun a => h₂.acyc (h₁.acyc a)⟩
  intro θ hθ
  simp only [List.map_cons, hw]
  rw [h₂.eq θ hθ]
  have := h₁.eq θ (hθ.of_extends h₂.ext)
  unfold FlagEq at this
  rw [this]

theorem loop_good {u : Tm → Tm → Subst → Res}
    (hu : ∀ x y σ σ', u x y σ = .ok σ' → Good σ σ' x y) :
    ∀ (as bs : List Tm) (σ σ' : Subst), unifyArgsLoop u as bs σ = .ok σ' → GoodL σ σ' as bs := by
  intro as
  induction as with
  | nil =>
    intro bs σ σ' h
    cases bs with
    | nil => simp only [unifyArgsLoop, Res.ok.injEq] at h; subst h; exact ⟨Extends.refl _, fun _ _ => rfl, id⟩
    | cons b bs => simp [unifyArgsLoop] at h
  | cons a as ih =>
    intro bs σ σ' h
    cases bs with
    | nil => simp [unifyArgsLoop] at h
    | cons b bs =>
      cases a <;> cases b <;> simp only [unifyArgsLoop] at h <;> try (exact absurd h (by simp))
      · rename_i x y
        cases hr : u x y σ with
        | oof => simp [hr] at h
        | fail => simp [hr] at h
        | ok σ₁ =>
          simp only [hr] at h
          exact GoodL.cons Tm.targ (fun θ a => by simp [inst, erase]) (hu _ _ _ _ hr) (ih bs σ₁ σ' h)
      · rename_i x y
        cases hr : u x y σ with
        | oof => simp [hr] at h
        | fail => simp [hr] at h
        | ok σ₁ =>
          simp only [hr] at h
          exact GoodL.cons Tm.carg (fun θ a => by simp [inst, erase]) (hu _ _ _ _ hr) (ih bs σ₁ σ' h)

theorem args_good {u : Tm → Tm → Subst → Res}
    (hu : ∀ x y σ σ', u x y σ = .ok σ' → Good σ σ' x y)
    {as bs : List Tm} {σ σ' : Subst} (h : unifyArgsWith u as bs σ = .ok σ') : GoodL σ σ' as bs := by
  unfold unifyArgsWith at h
  split at h
  · cases h
  · exact loop_good hu as bs σ σ' h

/-- two nodes whose heads agree up to flags and whose arguments were unified -/
theorem Good.node {σ σ' : Subst} {h₁ h₂ : Head} {as bs : List Tm} (hh : eraseH h₁ = eraseH h₂)
    (h : GoodL σ σ' as bs) : Good σ σ' (.node h₁ as) (.node h₂ bs) := by
  refine ⟨h.ext, ?_, h.acyc⟩
  intro θ hθ
  unfold FlagEq
  simp only [inst, erase, instList_eq, eraseList_eq, List.map_map, hh]
  congr 1
  exact h.eq θ hθ

theorem var_good {u : Tm → Tm → Subst → Res} {n : Nat}
    (hu : ∀ x y σ σ', u x y σ = .ok σ' → Good σ σ' x y)
    {v : V} {t : Tm} {σ σ' : Subst} (h : unifyVarWith u (occurs n) v t σ = .ok σ') :
    Good σ σ' (.var v) t := by
  have bindCase : lookup σ v = none →
      (match occurs n σ v t with
        | none => Res.oof
        | some true => Res.fail
        | some false => Res.ok ((v, t) :: σ)) = .ok σ' → Good σ σ' (.var v) t := by
    intro hv hb
    cases ho : occurs n σ v t with
    | none => simp [ho] at hb
    | some b =>
      cases b with
      | true => simp [ho] at hb
      | false =>
        simp only [ho, Res.ok.injEq] at hb
        subst hb
        refine ⟨Extends.cons t hv, ?_, fun ha => ha.cons (occurs_false n t ho)⟩
        intro θ hθ
        have := hθ v t (by simp [lookup_cons])
        simpa [inst] using this
  unfold unifyVarWith at h
  cases hv : lookup σ v with
  | some sv =>
    simp only [hv] at h
    have g := hu _ _ _ _ h
    refine ⟨g.ext, ?_, g.acyc⟩
    intro θ hθ
    have h1 := hθ v sv (g.ext v sv hv)
    have h2 := g.eq θ hθ
    unfold FlagEq at *
    simp only [inst]
    rw [h1, h2]
  | none =>
    simp only [hv] at h
    cases t with
    | var w =>
      simp only at h
      cases hw : lookup σ w with
      | some tw =>
        simp only [hw] at h
        have g := hu _ _ _ _ h
        refine ⟨g.ext, ?_, g.acyc⟩
        intro θ hθ
        have h1 := hθ w tw (g.ext w tw hw)
        have h2 := g.eq θ hθ
        unfold FlagEq at *
        simp only [inst] at *
        rw [h2, h1]
      | none =>
        simp only [hw] at h
        exact bindCase hv h
    | atom a => exact bindCase hv h
    | node hd as => exact bindCase hv h
    | targ x => exact bindCase hv h
    | carg x => exact bindCase hv h

theorem atomEq_eq {a b : Atom} (h : atomEq a b = true) : a = b := by
  cases a <;> cases b <;> simp_all [atomEq]

/-- soundness for every fuel -/
theorem unify_good (E : Env) : ∀ (f : Nat) (s t : Tm) (σ σ' : Subst),
    unify E f s t σ = .ok σ' → Good σ σ' s t := by
  intro f
  induction f with
  | zero => intro s t σ σ' h; simp [unify, unifyStep] at h
  | succ f ih =>
    intro s t σ σ' h
    have hu : ∀ x y σ σ', unify E f x y σ = .ok σ' → Good σ σ' x y := ih
    cases s with
    | var a =>
      cases t with
      | var b =>
        simp only [unify, unifyStep] at h
        split at h
        · rename_i e; subst e; simp only [Res.ok.injEq] at h; subst h; exact Good.refl _ _
        · exact var_good hu h
      | atom b => simp only [unify, unifyStep] at h; exact var_good hu h
      | node h₂ bs => simp only [unify, unifyStep] at h; exact var_good hu h
      | targ y => simp only [unify, unifyStep] at h; exact var_good hu h
      | carg y => simp only [unify, unifyStep] at h; exact var_good hu h
    | atom a =>
      cases t with
      | var b => simp only [unify, unifyStep] at h; exact (var_good hu h).symm
      | atom b =>
        simp only [unify, unifyStep] at h
        split at h
        · rename_i e; have := atomEq_eq e; subst this
          simp only [Res.ok.injEq] at h; subst h; exact Good.refl _ _
        · cases h
      | node h₂ bs => simp [unify, unifyStep] at h
      | targ y => simp [unify, unifyStep] at h
      | carg y => simp [unify, unifyStep] at h
    | node h₁ as =>
      cases t with
      | var b => simp only [unify, unifyStep] at h; exact (var_good hu h).symm
      | atom b => simp [unify, unifyStep] at h
      | node h₂ bs =>
        simp only [unify, unifyStep] at h
        cases h₁ <;> cases h₂ <;> simp only at h <;> (try cases h)
        · -- func / func
          split at h
          · rename_i e
            subst e
            split at h
            · cases h
            · rename_i hl
              split at h
              · cases h
              · exact Good.node (by simp only [eraseH]; simp at hl; rw [hl]) (args_good hu h)
          · cases h
        · exact Good.node rfl (args_good hu h)
        · split at h
          · rename_i e; subst e; exact Good.node rfl (args_good hu h)
          · cases h
        · split at h
          · rename_i e; subst e; exact Good.node rfl (args_good hu h)
          · cases h
      | targ y => simp [unify, unifyStep] at h
      | carg y => simp [unify, unifyStep] at h
    | targ x =>
      cases t with
      | var b => simp only [unify, unifyStep] at h; exact (var_good hu h).symm
      | atom b => simp [unify, unifyStep] at h
      | node h₂ bs => simp [unify, unifyStep] at h
      | targ y => simp [unify, unifyStep] at h
      | carg y => simp [unify, unifyStep] at h
    | carg x =>
      cases t with
      | var b => simp only [unify, unifyStep] at h; exact (var_good hu h).symm
      | atom b => simp [unify, unifyStep] at h
      | node h₂ bs => simp [unify, unifyStep] at h
      | targ y => simp [unify, unifyStep] at h
      | carg y => simp [unify, unifyStep] at h

end GuppyVerif.Unify
