import GuppyVerif.Model.Render
/-! Specification vocabulary for C29.  Everything here *reads* rendered text or source text with
    its own small functions (decimal value, gutter parsing, word splitting, visible characters);
    nothing here calls the rendering functions of the model. -/
namespace GuppyVerif.Render

/-! ### characters, words -/

/-- a separator: ASCII whitespace or a `str.splitlines` boundary -/
def sep (c : Char) : Bool := isWs c || isBreak c

/-- the characters of a text that must survive rendering -/
def vis (s : Str) : Str := s.filter fun c => !sep c

/-- the pieces of `s` between separator characters (like `s.split(c)` for single separators) -/
def segments : Str → List Str
  | [] => [[]]
  | c :: cs =>
    if sep c then [] :: segments cs
    else match segments cs with
      | h :: t => (c :: h) :: t
      | [] => [[c]]

/-- `s.split()`: maximal runs of non-separator characters, in order -/
def words (s : Str) : List Str := (segments s).filter fun w => !w.isEmpty

/-! ### reading a rendered snippet line `"<pad><number> | <body>"` -/

/-- value of a decimal numeral -/
def decVal (s : Str) : Nat := s.foldl (fun a c => 10 * a + (c.toNat - 48)) 0

structure Parsed where
  num : Option Nat
  body : Str
  deriving DecidableEq, Repr

/-- split at the first `|`: what precedes it (without spaces) is the line number, what follows
    it and one space is the body -/
def parseLine (l : Str) : Parsed :=
  let g := l.takeWhile (· != '|')
  let ds := g.filter (· != ' ')
  ⟨if ds.isEmpty then none else some (decVal ds), l.drop (g.length + 2)⟩

/-- the numbered lines of a rendered snippet, as (line number, body) -/
def numbered (out : List Str) : List (Nat × Str) :=
  out.filterMap fun l => match (parseLine l).num with
    | some k => some (k, (parseLine l).body)
    | none => none

/-! ### spans and sources -/

/-- what `Span.__post_init__` guarantees (one file) -/
def Span.Valid (s : Span) : Prop :=
  s.start.line < s.stop.line ∨ (s.start.line = s.stop.line ∧ s.start.col ≤ s.stop.col)

/-- source line `k` (1-based) -/
def srcLine (src : List Str) (k : Nat) : Str := src.getD (k - 1) []

/-- the span lies within the registered source: its lines exist and its columns are within
    the respective lines -/
def InSource (src : List Str) (s : Span) : Prop :=
  1 ≤ s.start.line ∧ s.stop.line ≤ src.length ∧
  s.start.col ≤ (srcLine src s.start.line).length ∧ s.stop.col ≤ (srcLine src s.stop.line).length

/-- number of context lines shown before the span -/
def ctxLines (s : Span) (pfx : Nat) : Nat := min pfx (s.start.line - 1)

/-- line numbers displayed for a span: context lines, first line, and (if different) last line -/
def shown (s : Span) (pfx : Nat) : List Nat :=
  (List.range (ctxLines s pfx + 1)).map (fun i => s.start.line - ctxLines s pfx + i) ++
    (if s.start.line = s.stop.line then [] else [s.stop.line])

/-- all source lines from the first context line to the last span line -/
def block (src : List Str) (s : Span) (pfx : Nat) : List Str :=
  (src.take s.stop.line).drop (s.start.line - ctxLines s pfx - 1)

/-- columns of common indentation that `render_snippet` removes from the block -/
def removed (src : List Str) (s : Span) (pfx : Nat) : Nat :=
  match minList ((block src s pfx).map leadingWs) with
  | some lw => if lw > 12 then lw - 4 else 0
  | none => 0

/-- the explicit precondition of totality: `Loc.shift_left` asserts it -/
def ShiftSafe (src : List Str) (s : Span) (pfx : Nat) : Prop :=
  removed src s pfx ≤ s.start.col ∧ removed src s pfx ≤ s.stop.col

instance (src : List Str) (s : Span) (pfx : Nat) : Decidable (ShiftSafe src s pfx) := by
  unfold ShiftSafe; infer_instance

/-- a span whose endpoints do not lie inside the indentation of their lines (every span that
    starts and ends at a token) -/
def TokenBased (src : List Str) (s : Span) : Prop :=
  leadingWs (srcLine src s.start.line) ≤ s.start.col ∧ leadingWs (srcLine src s.stop.line) ≤ s.stop.col

instance (s : Span) : Decidable s.Valid := by unfold Span.Valid; infer_instance
instance (src : List Str) (s : Span) : Decidable (InSource src s) := by unfold InSource; infer_instance
instance (src : List Str) (s : Span) : Decidable (TokenBased src s) := by unfold TokenBased; infer_instance

/-- in `out`, the row showing source line `k` (with body `body`) is immediately followed by an
    unnumbered row consisting of `a` blanks, `b` highlight characters `hl`, then `tail` -/
def MarkerUnder (out : List Str) (k : Nat) (body : Str) (a b : Nat) (hl : Char) (tail : Str) : Prop :=
  ∃ pre l m rest, out = pre ++ l :: m :: rest ∧ parseLine l = ⟨some k, body⟩ ∧
    parseLine m = ⟨none, List.replicate a ' ' ++ List.replicate b hl ++ tail⟩

/-- the preconditions for every span of a diagnostic (main span: two context lines) -/
def DiagOK (src : List Str) (d : Diag) : Prop :=
  ∀ sp, d.span = some sp →
    (InSource src sp ∧ sp.Valid ∧ ShiftSafe src sp PREFIX_CONTEXT_LINES) ∧
    ∀ c ∈ d.children, ∀ cs, c.span = some cs → InSource src cs ∧ cs.Valid ∧ ShiftSafe src cs 0

/-- the texts a diagnostic must display -/
def diagTexts (d : Diag) : List Str :=
  (match d.span with
   | none => [(truthy d.message).getD d.title]
   | some _ => [d.title] ++ (truthy d.label).toList ++ (truthy d.message).toList ++
       d.children.flatMap (fun c => match c.span with | some _ => (truthy c.label).toList | none => [])) ++
  d.children.flatMap (fun c => (truthy c.message).toList)

/-- number of UTF-8 bytes of a text, by Lean's own `Char.utf8Size` (independent of the model's
    `utf8Len`): what `ast` reports as `col_offset` for a node preceded by this text on its line -/
def byteLen (s : Str) : Nat := (s.map Char.utf8Size).sum

/-- the lines stored by the LAST registration of `file` in a history of `add_file` calls
    (`none`: never registered) -/
def latest : List SrcOp → Str → Option (List Str)
  | [], _ => none
  | op :: ops, file =>
    match latest ops file with
    | some ls => some ls
    | none => if op.file = file then some op.stored else none

end GuppyVerif.Render
