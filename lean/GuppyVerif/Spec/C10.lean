import GuppyVerif.Model.Determ
/-! Specification vocabulary for C10. -/
namespace GuppyVerif.Determ
open GuppyVerif.Dataflow

/-- `b` is reachable from `a` along real control-flow edges -/
inductive Path (succ : Blk → List Blk) (a : Blk) : Blk → Prop
  | refl : Path succ a a
  | tail {b c : Blk} : Path succ a b → c ∈ succ b → Path succ a c

/-- How a place that touches a `set` is known not to leak the set's iteration order. -/
inductive Reason where
  | membershipOnly      -- only `in`, `<=`, `==`, `|`, `-`, `len` … : no iteration
  | resultIsSet         -- iterates, but only to build another set / a boolean (any/all)
  | sortedFirst         -- iterates `sorted(...)`: theorem `sorted_order_free`
  | orderIndependent    -- iterates in set order; a theorem shows the result does not depend on it
  | orderedContainer    -- the container is a dict/list (insertion-ordered), not a set
  | minFirst            -- takes `min(...)` under an injective key: theorem `minOf_order_free`
  | unproven            -- picks an arbitrary element; affects only a sub-note of a diagnostic; NOT covered
  deriving DecidableEq, Repr

/-- Classification of every known site (file, function, kind).  Written by hand after reading
    each site; the regenerated inventory `Gen.setSites` must be covered by it. -/
def classification : List ((String × String × String) × Reason) := [
  (("internals/ast_util.py", "__init__", "construct"), .membershipOnly),
  (("internals/ast_util.py", "breaks_in_loop", "construct"), .membershipOnly),
  (("internals/ast_util.py", "loop_controls_in_loop", "construct"), .membershipOnly),
  (("internals/ast_util.py", "loop_in_ast", "construct"), .membershipOnly),
  (("internals/ast_util.py", "return_nodes_in_ast", "construct"), .membershipOnly),
  (("internals/cfg/analysis.py", "__init__", "construct"), .membershipOnly),
  (("internals/cfg/analysis.py", "apply_bb", "construct"), .resultIsSet),
  (("internals/cfg/bb.py", "visit_NestedFunctionDef", "construct"), .membershipOnly),
  (("internals/cfg/cfg.py", "__init__", "construct"), .membershipOnly),
  (("internals/cfg/cfg.py", "ancestors", "construct"), .membershipOnly),
  (("internals/cfg/cfg.py", "update_reachable", "construct"), .orderIndependent),
  (("internals/cfg/cfg.py", "update_reachable", "pop"), .orderIndependent),
  (("internals/checker/cfg_checker.py", "check_cfg", "construct"), .membershipOnly),
  (("internals/checker/cfg_checker.py", "check_rows_match", "construct"), .sortedFirst),
  (("internals/checker/cfg_checker.py", "diagnose_maybe_undefined", "construct"), .membershipOnly),
  (("internals/checker/core.py", "keys", "construct"), .resultIsSet),
  (("internals/checker/expr_checker.py", "check_call", "construct"), .unproven),
  (("internals/checker/expr_checker.py", "check_call", "pop"), .unproven),
  (("internals/checker/func_checker.py", "check_nested_func_def", "construct"), .membershipOnly),
  (("internals/checker/func_checker.py", "check_nested_func_def", "iterate"), .orderedContainer),
  (("internals/checker/unitary_checker.py", "check_invalid_under_dagger", "construct"), .membershipOnly),
  (("internals/compiler/cfg_compiler.py", "choose_vars_for_tuple_sum", "iterate"), .orderedContainer),
  (("internals/compiler/cfg_compiler.py", "compile_bb", "construct"), .membershipOnly),
  (("internals/compiler/core.py", "compile", "iterate"), .minFirst),
  (("internals/compiler/core.py", "partially_monomorphize_args", "iterate"), .orderIndependent),
  (("internals/compiler/core.py", "require_monomorphization", "construct"), .resultIsSet),
  (("internals/compiler/core.py", "require_monomorphization", "iterate"), .resultIsSet),
  (("internals/compiler/expr_compiler.py", "_new_dfcontainer", "construct"), .membershipOnly),
  (("internals/definition/declaration.py", "parse", "iterate"), .minFirst),
  (("internals/definition/struct.py", "params_from_ast", "construct"), .membershipOnly),
  (("internals/definition/struct.py", "parse", "construct"), .membershipOnly),
  (("internals/definition/struct.py", "parse", "iterate"), .minFirst),
  (("internals/engine.py", "reset", "construct"), .membershipOnly),
  (("internals/tys/const.py", "bound_vars", "construct"), .resultIsSet),
  (("internals/tys/const.py", "unsolved_vars", "construct"), .resultIsSet),
  (("internals/tys/parsing.py", "parse_parameter", "construct"), .membershipOnly),
  (("internals/tys/ty.py", "__init__", "construct"), .membershipOnly),
  (("internals/tys/ty.py", "_occurs", "iterate"), .resultIsSet),
  (("internals/tys/ty.py", "bound_vars", "construct"), .resultIsSet),
  (("internals/tys/ty.py", "unsolved_vars", "construct"), .resultIsSet)
]

def classify (s : String × String × String) : Option Reason :=
  (classification.find? (·.1 == s)).map (·.2)

end GuppyVerif.Determ
