import GuppyVerif.Model.Determ
/-! Specification vocabulary for C10. -/
namespace GuppyVerif.Determ
open GuppyVerif.Dataflow

/-- `b` is reachable from `a` along real control-flow edges -/
inductive Path (succ : Blk → List Blk) (a : Blk) : Blk → Prop
  | refl : Path succ a a
  | tail {b c : Blk} : Path succ a b → c ∈ succ b → Path succ a c

/-- How a place that touches a `set` is known not to leak the set's iteration order. -/
inductive Reason where
  | membershipOnly      -- only `in`, `<=`, `==`, `|`, `-`, `len` … : no iteration
  | resultIsSet         -- iterates, but only to build another set / a boolean (any/all)
  | sortedFirst         -- iterates `sorted(...)`: theorem `sorted_order_free`
  | orderIndependent    -- iterates in set order; a theorem shows the result does not depend on it
  | orderedContainer    -- the container is a dict/list (insertion-ordered), not a set
  | minFirst            -- takes `min(...)` under an injective key: theorem `minOf_order_free`
  | unproven            -- picks an arbitrary element; affects only a sub-note of a diagnostic; NOT covered
  deriving DecidableEq, Repr

/-- Classification of every known site (file, function, kind, how many such places the function has).  Written by hand after reading
    each site; the regenerated inventory `Gen.setSites` must be covered by it. -/
def classification : List ((String × String × String × Nat) × Reason) := [
  (("internals/ast_util.py", "__init__", "construct", 1), .membershipOnly),
  (("internals/ast_util.py", "breaks_in_loop", "construct", 1), .membershipOnly),
  (("internals/ast_util.py", "loop_controls_in_loop", "construct", 1), .membershipOnly),
  (("internals/ast_util.py", "loop_in_ast", "construct", 1), .membershipOnly),
  (("internals/ast_util.py", "return_nodes_in_ast", "construct", 1), .membershipOnly),
  (("internals/cfg/analysis.py", "__init__", "construct", 1), .membershipOnly),
  (("internals/cfg/analysis.py", "apply_bb", "construct", 2), .resultIsSet),
  (("internals/cfg/bb.py", "visit_NestedFunctionDef", "construct", 3), .membershipOnly),
  (("internals/cfg/cfg.py", "__init__", "construct", 1), .membershipOnly),
  (("internals/cfg/cfg.py", "ancestors", "construct", 1), .membershipOnly),
  (("internals/cfg/cfg.py", "update_reachable", "construct", 1), .orderIndependent),
  (("internals/cfg/cfg.py", "update_reachable", "pop", 1), .orderIndependent),
  (("internals/checker/cfg_checker.py", "check_cfg", "construct", 1), .membershipOnly),
  (("internals/checker/cfg_checker.py", "check_rows_match", "construct", 1), .sortedFirst),
  (("internals/checker/cfg_checker.py", "diagnose_maybe_undefined", "construct", 1), .membershipOnly),
  (("internals/checker/core.py", "keys", "construct", 2), .resultIsSet),
  (("internals/checker/expr_checker.py", "check_call", "construct", 1), .unproven),
  (("internals/checker/expr_checker.py", "check_call", "pop", 1), .unproven),
  (("internals/checker/func_checker.py", "check_nested_func_def", "construct", 2), .membershipOnly),
  (("internals/checker/func_checker.py", "check_nested_func_def", "iterate", 1), .orderedContainer),
  (("internals/checker/unitary_checker.py", "check_invalid_under_dagger", "construct", 1), .membershipOnly),
  (("internals/compiler/cfg_compiler.py", "choose_vars_for_tuple_sum", "iterate", 1), .orderedContainer),
  (("internals/compiler/cfg_compiler.py", "compile_bb", "construct", 2), .membershipOnly),
  (("internals/compiler/core.py", "compile", "iterate", 1), .minFirst),
  (("internals/compiler/core.py", "partially_monomorphize_args", "iterate", 1), .orderIndependent),
  (("internals/compiler/core.py", "require_monomorphization", "construct", 1), .resultIsSet),
  (("internals/compiler/core.py", "require_monomorphization", "iterate", 1), .resultIsSet),
  (("internals/compiler/expr_compiler.py", "_new_dfcontainer", "construct", 1), .membershipOnly),
  (("internals/definition/declaration.py", "parse", "iterate", 1), .minFirst),
  (("internals/definition/struct.py", "params_from_ast", "construct", 1), .membershipOnly),
  (("internals/definition/struct.py", "parse", "construct", 1), .membershipOnly),
  (("internals/definition/struct.py", "parse", "iterate", 1), .minFirst),
  (("internals/engine.py", "reset", "construct", 1), .membershipOnly),
  (("internals/tys/const.py", "bound_vars", "construct", 1), .resultIsSet),
  (("internals/tys/const.py", "unsolved_vars", "construct", 2), .resultIsSet),
  (("internals/tys/parsing.py", "parse_parameter", "construct", 2), .membershipOnly),
  (("internals/tys/ty.py", "__init__", "construct", 1), .membershipOnly),
  (("internals/tys/ty.py", "_occurs", "iterate", 1), .resultIsSet),
  (("internals/tys/ty.py", "bound_vars", "construct", 4), .resultIsSet),
  (("internals/tys/ty.py", "unsolved_vars", "construct", 3), .resultIsSet)
]

/-- the sites that pick from a set without a proved order-freedom argument, named explicitly so that
    the list cannot grow silently -/
def knownUncovered : List (String × String × String × Nat) := [
  ("internals/checker/expr_checker.py", "check_call", "construct", 1),
  ("internals/checker/expr_checker.py", "check_call", "pop", 1)
]

def classify (s : String × String × String × Nat) : Option Reason :=
  (classification.find? (·.1 == s)).map (·.2)

end GuppyVerif.Determ
