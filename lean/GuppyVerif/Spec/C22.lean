import GuppyVerif.Model.TraceOwn
import GuppyVerif.Gen.C22FrozenList
/-! # C22 — specification vocabulary -/
namespace GuppyVerif.TraceOwn

/-- The methods of CPython 3.12's `list` that can change the receiver — `__init__` (re-initialisation of an existing
    list) included (fixed list; the check re-derives it on
    every run by calling every attribute of `list` on a sample list and comparing before/after). -/
def mutatingListMethods : List String :=
  ["append", "clear", "extend", "insert", "pop", "remove", "reverse", "sort",
   "__setitem__", "__delitem__", "__iadd__", "__imul__", "__init__"]

/-- an object that has to be consumed: not droppable and (by the tracer's flag) not used -/
def Leaky (s : State) (id : Nat) : Prop :=
  ∃ o, s.objs id = some o ∧ o.droppable = false ∧ o.used = false

end GuppyVerif.TraceOwn
