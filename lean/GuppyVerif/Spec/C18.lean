/-! Specification vocabulary for C18: Python's `range` on ℤ, written without reference to
    the model (`Model/Range.lean`).  `pyLen` is CPython's closed form for `len(range(..))`
    (`compute_range_length`), `pyRange` is `list(range(start, stop, step))`.
    The driver exposes `pyRange` (`py` request) and every run compares it with CPython's own
    `list(range(..))`, so this vocabulary is itself tied to Python. -/
namespace GuppyVerif.Range

/-- `len(range(start, stop, step))` for `step ≠ 0` (0 for the excluded `step = 0`). -/
def pyLen (start stop step : Int) : Nat :=
  if 0 < step then
    if start < stop then ((stop - start + step - 1) / step).toNat else 0
  else if step < 0 then
    if stop < start then ((start - stop + (-step) - 1) / (-step)).toNat else 0
  else 0

/-- `list(range(start, stop, step))`: the `i`-th element is `start + i*step`. -/
def pyRange (start stop step : Int) : List Int :=
  (List.range (pyLen start stop step)).map (fun (i : Nat) => start + (i : Int) * step)

/-- the value is representable as a Guppy `int` (64-bit two's complement) -/
def I64 (x : Int) : Prop := -9223372036854775808 ≤ x ∧ x < 9223372036854775808

instance (x : Int) : Decidable (I64 x) := by unfold I64; infer_instance

/-- The exact condition under which `Range.__next__` is right: the value computed *after*
    the last yielded element, `start + len*step`, is representable (vacuous for empty ranges).
    (All earlier values `start + i*step`, `i < len`, lie between `start` and `stop`.) -/
def NoOverflow (start stop step : Int) : Prop :=
  pyLen start stop step = 0 ∨ I64 (start + (pyLen start stop step : Int) * step)

instance (start stop step : Int) : Decidable (NoOverflow start stop step) := by
  unfold NoOverflow; infer_instance

end GuppyVerif.Range
