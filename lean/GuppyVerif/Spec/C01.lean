import GuppyVerif.Model.DFWiring
/-! Specification vocabulary for C01 (wiring discipline of `DFContainer`), independent of the
    model's `getitem` / `setitem` code:

    * a *denotation* of the emitted ops: an interpreter of `MakeTuple` / `UnpackTuple` over
      abstract values (trees of opaque atoms);
    * wire accounting: which wires the ops consume / produce;
    * addressing of the sub-places of a place by selector paths. -/
namespace GuppyVerif.DFWiring

/-- abstract runtime values: opaque atoms and tuples -/
inductive Val where
  | atom (a : Nat)
  | tup (vs : List Val)
  deriving Repr, Inhabited

/-- a valuation of wires -/
abbrev Env := Wire → Option Val

def Env.set (e : Env) (w : Wire) (v : Val) : Env := fun x => if x = w then some v else e x

/-- values of a list of wires (all must be defined) -/
def Env.all (e : Env) : List Wire → Option (List Val)
  | [] => some []
  | w :: ws => match e w, Env.all e ws with
    | some v, some vs => some (v :: vs)
    | _, _ => none

/-- bind out-ports `i, i+1, …` of node `u` to the values `vs` -/
def Env.bindOuts (e : Env) (u : Nat) : Nat → List Val → Env
  | _, [] => e
  | i, v :: vs => Env.bindOuts (e.set ⟨u, i⟩ v) u (i + 1) vs

/-- meaning of one op: `MakeTuple` builds a tuple of its inputs; `UnpackTuple` requires a tuple
    of the declared arity and binds its out-ports to the components -/
def evalOp (e : Env) : Op → Option Env
  | .make u ins => match e.all ins with
    | some vs => some (e.set ⟨u, 0⟩ (.tup vs))
    | none => none
  | .unpack u inp k => match e inp with
    | some (.tup vs) => if vs.length = k then some (e.bindOuts u 0 vs) else none
    | _ => none

def evalOps (e : Env) : List Op → Option Env
  | [] => some e
  | o :: os => match evalOp e o with
    | some e' => evalOps e' os
    | none => none

mutual
/-- the value is a tuple wherever the type is a struct/tuple (leaves: any value) -/
def Val.HasShape : Val → Ty → Prop
  | _, .leaf _ _ => True
  | .tup vs, .node _ cs => HasShapes vs cs
  | .atom _, .node _ _ => False
def HasShapes : List Val → List Ty → Prop
  | [], [] => True
  | v :: vs, t :: ts => v.HasShape t ∧ HasShapes vs ts
  | _, _ => False
end

/-- input wires consumed by the ops, in order, with multiplicity -/
def consumed : List Op → List Wire
  | [] => []
  | .make _ ins :: os => ins ++ consumed os
  | .unpack _ inp _ :: os => inp :: consumed os

/-- output wires produced by the ops -/
def produced : List Op → List Wire
  | [] => []
  | .make u _ :: os => ⟨u, 0⟩ :: produced os
  | .unpack u _ k :: os => (List.range k).map (fun i => ⟨u, i⟩) ++ produced os

def Ty.isLeaf : Ty → Bool
  | .leaf _ _ => true
  | .node _ _ => false

/-- `locals` holds the place `p : t` *as leaves only* (the state `__setitem__` establishes):
    exactly the leaf sub-places are keys, with wires created before node index `n` -/
def LeavesOnly (n : Nat) (L : Locals) (p : PlaceId) (t : Ty) : Prop :=
  ∀ s t', t.at s = some t' →
    if t'.isLeaf then ∃ w, L (sub p s) = some w ∧ w.node < n else L (sub p s) = none

/-- the wires of the leaf sub-places of `p : t`, left to right -/
def leafWires (L : Locals) (p : PlaceId) (t : Ty) : List Wire :=
  (places p t).filterMap L

/-! ## reference store: what a place holds after a sequence of assignments and (moving) reads -/

/-- partial values: `hole` = never assigned, or moved out by a read -/
inductive PVal where
  | hole
  | val (v : Val)
  | tup (ps : List PVal)
  deriving Repr, Inhabited

mutual
/-- the value of a fully defined partial value -/
def PVal.total : PVal → Option Val
  | .hole => none
  | .val v => some v
  | .tup ps => match PVal.totals ps with
    | some vs => some (.tup vs)
    | none => none
def PVal.totals : List PVal → Option (List Val)
  | [] => some []
  | p :: ps => match p.total, PVal.totals ps with
    | some v, some vs => some (v :: vs)
    | _, _ => none
end

mutual
/-- store a value of the shape of `t`: leaves hold their component -/
def embed : Ty → Val → PVal
  | .leaf _ _, v => .val v
  | .node _ cs, .tup vs => .tup (embeds cs vs)
  | .node _ _, .atom _ => .hole
def embeds : List Ty → List Val → List PVal
  | t :: ts, v :: vs => embed t v :: embeds ts vs
  | _, _ => []
end

mutual
/-- a (successful) read moves the non-copyable leaves out -/
def moved : Ty → PVal → PVal
  | .leaf c _, p => if c then p else .hole
  | .node _ cs, .tup ps => .tup (moveds cs ps)
  | .node _ _, p => p
def moveds : List Ty → List PVal → List PVal
  | t :: ts, p :: ps => moved t p :: moveds ts ps
  | _, ps => ps
end

/-- replace the component at selector path `s` (outermost first) using `f` -/
def PVal.modify (f : PVal → PVal) : PVal → List Nat → PVal
  | p, [] => f p
  | .tup ps, i :: s => .tup (ps.modify i (fun q => PVal.modify f q s))
  | p, _ :: _ => p

def PVal.at : PVal → List Nat → Option PVal
  | p, [] => some p
  | .tup ps, i :: s => match ps[i]? with
    | some q => q.at s
    | none => none
  | _, _ :: _ => none

/-- reference semantics of a script on a variable of type `T` (no wires, no ops): assignments
    overwrite the addressed component with the (shape-checked) value of an old wire; a read needs
    the addressed component fully defined, yields its value and moves the non-copyable leaves out.
    `RefRun T env0 n0 script pv vs`: from reference value `pv` the reads of `script` yield `vs`. -/
inductive RefRun (T : Ty) (env0 : Env) (n0 : Nat) : List SOp → PVal → List Val → Prop
  | nil (pv : PVal) : RefRun T env0 n0 [] pv []
  | set {s : List Nat} {w : Wire} {t' : Ty} {v : Val} {rest : List SOp} {pv : PVal} {vs : List Val} :
      T.at s = some t' → env0 w = some v → w.node < n0 → v.HasShape t' →
      RefRun T env0 n0 rest (pv.modify (fun _ => embed t' v) s) vs →
      RefRun T env0 n0 (.set s w :: rest) pv vs
  | get {s : List Nat} {t' : Ty} {pv pv' : PVal} {v : Val} {rest : List SOp} {vs : List Val} :
      T.at s = some t' → pv.at s = some pv' → pv'.total = some v →
      RefRun T env0 n0 rest (pv.modify (moved t') s) vs →
      RefRun T env0 n0 (.get s :: rest) pv (v :: vs)

mutual
/-- the never-assigned reference value -/
def blank : Ty → PVal
  | .leaf _ _ => .hole
  | .node _ cs => .tup (blanks cs)
def blanks : List Ty → List PVal
  | [] => []
  | t :: ts => blank t :: blanks ts
end

/-- helper for concrete examples: the call succeeded and its result satisfies `f` -/
def okAnd {ε α : Type} (r : Except ε α) (f : α → Bool) : Bool :=
  match r with
  | .ok a => f a
  | .error _ => false

end GuppyVerif.DFWiring
