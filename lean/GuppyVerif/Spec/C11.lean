/-! Specification vocabulary for C11, independent of the session model: a *session system* (operations
    acting on a state, some of which fail; an observation of a target in a state), what it means for
    the observation to be history free, and for failed operations to leave no trace.  Also the
    condition on the order used for generated names under which renumbering them is harmless. -/
namespace GuppyVerif.Session

structure Sys (Op St Tgt Obs : Type) where
  init : St
  step : Op → St → St
  failsAt : Op → St → Bool
  observe : St → Tgt → Obs

namespace Sys
variable {Op St Tgt Obs : Type}

def exec (sys : Sys Op St Tgt Obs) : List Op → St → St
  | [], s => s
  | o :: os, s => exec sys os (sys.step o s)

/-- states reachable from the initial one by some history -/
def Reachable (sys : Sys Op St Tgt Obs) (s : St) : Prop := ∃ h, sys.exec h sys.init = s

/-- the observation of every target after any history is the observation in a fresh session -/
def HistoryFree (sys : Sys Op St Tgt Obs) : Prop :=
  ∀ (h : List Op) (d : Tgt), sys.observe (sys.exec h sys.init) d = sys.observe sys.init d

/-- dropping a failed operation from a history changes no later observation -/
def FailedOpNoEffect (sys : Sys Op St Tgt Obs) : Prop :=
  ∀ (h₁ : List Op) (o : Op) (h₂ : List Op) (d : Tgt),
    sys.failsAt o (sys.exec h₁ sys.init) = true →
      sys.observe (sys.exec (h₁ ++ o :: h₂) sys.init) d = sys.observe (sys.exec (h₁ ++ h₂) sys.init) d

theorem exec_append (sys : Sys Op St Tgt Obs) (h₁ h₂ : List Op) (s : St) :
    sys.exec (h₁ ++ h₂) s = sys.exec h₂ (sys.exec h₁ s) := by
  induction h₁ generalizing s with
  | nil => rfl
  | cons o os ih => exact ih _

end Sys

/-- A session system whose operations are issued against a *version* of the program text, which may change
    between operations (a source file that is edited and loaded again in the same session). -/
structure VSys (Ver Op St Tgt Obs : Type) where
  init : St
  step : Ver → Op → St → St
  observe : Ver → St → Tgt → Obs

namespace VSys
variable {Ver Op St Tgt Obs : Type}

def exec (sys : VSys Ver Op St Tgt Obs) : List (Ver × Op) → St → St
  | [], s => s
  | (v, o) :: os, s => exec sys os (sys.step v o s)

/-- the observation of every target of every version, after any history of operations on any earlier
    versions, is its observation in a fresh session -/
def HistoryFree (sys : VSys Ver Op St Tgt Obs) : Prop :=
  ∀ (h : List (Ver × Op)) (v : Ver) (d : Tgt), sys.observe v (sys.exec h sys.init) d = sys.observe v sys.init d

end VSys

/-- renumbering generated names by a shift does not change how they compare -/
def ShiftInv (lt : Nat → Nat → Bool) : Prop := ∀ b i j, lt (b + i) (b + j) = lt i j

end GuppyVerif.Session
