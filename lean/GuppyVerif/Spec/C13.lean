import GuppyVerif.Model.Instantiate
/-! # C13 — specification vocabulary (independent of the model's algorithms)

  * `fillP a b` / `fill a b`: merge two instantiation steps — the entries of `b` are put, in order, into
    the `None` slots of `a` (`none` when `b` does not have exactly one entry per `None` slot).
  * `argClosed`: the argument contains no bound variable and no parametrized (rank-2) function type.
  * `tyScoped n`: every bound variable index occurring in the type is `< n`; `sigScoped f`: the signature
    `f` is closed (body below the number of parameters, type of the i-th parameter below `i`).
  * `keptIdx m`: the positions of `m` holding `None`, in increasing order.
  * `Occurs j t`: the bound variable with index `j` occurs in `t` (as `bound_vars` sees it: not under a
    quantifier; a const variable counts together with the variables of its type annotation). -/
namespace GuppyVerif.Instantiate
open GuppyVerif

/-- put the entries of `b` into the `None` slots of `a`, in order -/
def fillP : PInst → PInst → Option PInst
  | [], [] => some []
  | [], _ :: _ => none
  | some v :: a, b => (fillP a b).map (some v :: ·)
  | none :: a, x :: b => (fillP a b).map (x :: ·)
  | none :: _, [] => none

/-- the same for a complete second step -/
def fill : PInst → List Arg → Option (List Arg)
  | [], [] => some []
  | [], _ :: _ => none
  | some v :: a, b => (fill a b).map (v :: ·)
  | none :: a, x :: b => (fill a b).map (x :: ·)
  | none :: _, [] => none

/-! ## closed arguments -/
mutual
def tyClosed : Ty → Bool
  | .num _ => true
  | .none _ => true
  | .evar _ _ _ _ => true
  | .bvar _ _ _ _ => false
  | .tuple ts _ => tyClosedL ts
  | .func ins o ps cs => ps.isEmpty && inClosedL ins && tyClosed o && constClosedL cs
  | .opaque _ as => argClosedL as
  | .struct _ as _ => argClosedL as
def tyClosedL : List Ty → Bool
  | [] => true
  | t :: ts => tyClosed t && tyClosedL ts
def inClosed : FuncIn → Bool
  | .mk t _ => tyClosed t
def inClosedL : List FuncIn → Bool
  | [] => true
  | t :: ts => inClosed t && inClosedL ts
def argClosed : Arg → Bool
  | .ty t => tyClosed t
  | .const c => constClosed c
def argClosedL : List Arg → Bool
  | [] => true
  | t :: ts => argClosed t && argClosedL ts
def constClosed : Const → Bool
  | .val t _ => tyClosed t
  | .bvar _ _ _ => false
  | .evar t _ _ => tyClosed t
def constClosedL : List Const → Bool
  | [] => true
  | t :: ts => constClosed t && constClosedL ts
end

/-- every given entry of a partial instantiation is closed -/
def pinstClosed (a : PInst) : Prop := ∀ v, some v ∈ a → argClosed v = true

/-! ## scoping -/
mutual
def tyScoped (n : Nat) : Ty → Bool
  | .bvar _ i _ _ => decide (i < n)
  | .tuple ts _ => tyScopedL n ts
  | .func ins o _ cs => inScopedL n ins && tyScoped n o && constScopedL n cs
  | .opaque _ as => argScopedL n as
  | .struct _ as _ => argScopedL n as
  | _ => true
def tyScopedL (n : Nat) : List Ty → Bool
  | [] => true
  | t :: ts => tyScoped n t && tyScopedL n ts
def inScoped (n : Nat) : FuncIn → Bool
  | .mk t _ => tyScoped n t
def inScopedL (n : Nat) : List FuncIn → Bool
  | [] => true
  | t :: ts => inScoped n t && inScopedL n ts
def argScoped (n : Nat) : Arg → Bool
  | .ty t => tyScoped n t
  | .const c => constScoped n c
def argScopedL (n : Nat) : List Arg → Bool
  | [] => true
  | t :: ts => argScoped n t && argScopedL n ts
def constScoped (n : Nat) : Const → Bool
  | .val t _ => tyScoped n t
  | .bvar t _ i => decide (i < n) && tyScoped n t
  | .evar t _ _ => tyScoped n t
def constScopedL (n : Nat) : List Const → Bool
  | [] => true
  | t :: ts => constScoped n t && constScopedL n ts
end

/-- the type of the parameter at position `k + i` only mentions parameters at positions `< k + i` -/
def paramsScoped : Nat → List Param → Bool
  | _, [] => true
  | k, .ty _ _ _ _ :: ps => paramsScoped (k + 1) ps
  | k, .const _ _ t _ :: ps => tyScoped k t && paramsScoped (k + 1) ps

/-- a closed signature -/
def sigScoped : Ty → Bool
  | .func ins o ps cs =>
      inScopedL ps.length ins && tyScoped ps.length o && constScopedL ps.length cs && paramsScoped 0 ps
  | _ => false

/-! ## un-monomorphized positions -/

/-- positions `i` (offset by `k`) with `m[i] = None`, increasing -/
def keptFrom : Nat → PInst → List Nat
  | _, [] => []
  | k, none :: m => k :: keptFrom (k + 1) m
  | k, some _ :: m => keptFrom (k + 1) m

def keptIdx (m : PInst) : List Nat := keptFrom 0 m

/-! ## occurrence of a bound variable (what `bound_vars` collects) -/
mutual
inductive OccTy : Nat → Ty → Prop
  | bvar (n i c d) : OccTy i (.bvar n i c d)
  | tuple {j ts p t} : t ∈ ts → OccTy j t → OccTy j (.tuple ts p)
  | funcIn {j ins o cs t f} : FuncIn.mk t f ∈ ins → OccTy j t → OccTy j (.func ins o [] cs)
  | funcOut {j ins o cs} : OccTy j o → OccTy j (.func ins o [] cs)
  | funcC {j ins o cs c} : c ∈ cs → OccConst j c → OccTy j (.func ins o [] cs)
  | opaqueT {j n as t} : Arg.ty t ∈ as → OccTy j t → OccTy j (.opaque n as)
  | opaqueC {j n as c} : Arg.const c ∈ as → OccConst j c → OccTy j (.opaque n as)
  | structT {j n as fs t} : Arg.ty t ∈ as → OccTy j t → OccTy j (.struct n as fs)
  | structC {j n as fs c} : Arg.const c ∈ as → OccConst j c → OccTy j (.struct n as fs)
inductive OccConst : Nat → Const → Prop
  | self (t n i) : OccConst i (.bvar t n i)
  | bvarTy {j t n i} : OccTy j t → OccConst j (.bvar t n i)
  | valTy {j t v} : OccTy j t → OccConst j (.val t v)
  | evarTy {j t n i} : OccTy j t → OccConst j (.evar t n i)
end

/-- parameters are numbered by position (what every real signature satisfies) -/
def paramIdxOk : Nat → List Param → Bool
  | _, [] => true
  | k, .ty i _ _ _ :: ps => i == k && paramIdxOk (k + 1) ps
  | k, .const i _ _ _ :: ps => i == k && paramIdxOk (k + 1) ps

end GuppyVerif.Instantiate
