import GuppyVerif.Model.Overload
/-! Specification vocabulary for C15, independent of the resolution loop. -/
namespace GuppyVerif.Overload

/-- `i` is the position of the first listed variant satisfying `acc`:
    it satisfies `acc`, and no variant listed before it does. -/
def FirstAccepting (acc : Variant → Bool) (vs : List Variant) (i : Nat) : Prop :=
  (∃ v, vs[i]? = some v ∧ acc v = true) ∧ ∀ j, j < i → ∀ w, vs[j]? = some w → acc w = false

/-- what a *direct* call of variant `v` with the same (fresh) arguments gives -/
def direct (v : Variant) (args : List Arg) (exp : Option Ty) : Option Outcome :=
  (attempt v args exp).1

end GuppyVerif.Overload
