import GuppyVerif.Model.Overload
/-! Specification vocabulary for C15, independent of the resolution loop. -/
namespace GuppyVerif.Overload

/-- `i` is the position of the first listed variant satisfying `acc`:
    it satisfies `acc`, and no variant listed before it does. -/
def FirstAccepting (acc : Variant → Bool) (vs : List Variant) (i : Nat) : Prop :=
  (∃ v, vs[i]? = some v ∧ acc v = true) ∧ ∀ j, j < i → ∀ w, vs[j]? = some w → acc w = false

/-- what a *direct* call of variant `v` with the same (fresh) arguments gives -/
def direct (v : Variant) (args : List Arg) (exp : Option Ty) : Option Outcome :=
  (attempt v args exp).1

/-! ### An independent reading of "the signature accepts the arguments" for the scalar fragment

Stated without reference to the checker model: scalar types, the widening relation of the language
reference (nat → int → float, nothing else, never narrowing, bool and qubit only to themselves), and
position-wise acceptance. -/

inductive Scalar where
  | nat | int | float | bool | qubit
  deriving DecidableEq, Repr

def Scalar.toTy : Scalar → Ty
  | .nat => .nat | .int => .int | .float => .float | .bool => .bool | .qubit => .qubit

/-- a value of type `a` may be passed where `p` is expected -/
inductive Widens : Scalar → Scalar → Prop where
  | refl (a) : Widens a a
  | natInt : Widens .nat .int
  | intFloat : Widens .int .float
  | natFloat : Widens .nat .float

/-- position by position, same length -/
inductive AllWiden : List Scalar → List Scalar → Prop where
  | nil : AllWiden [] []
  | cons {a p as ps} : Widens a p → AllWiden as ps → AllWiden (a :: as) (p :: ps)

/-- a variant `(ps) -> ret` accepts argument expressions of types `as` (and the expected result
    type `exp`, when one is known): same number, each argument widens to its parameter, and the
    result type is exactly the expected one -/
def AcceptsScalar (ps : List Scalar) (ret : Scalar) (as : List Scalar) (exp : Option Scalar) : Prop :=
  AllWiden as ps ∧ ∀ e, exp = some e → e = ret

end GuppyVerif.Overload
