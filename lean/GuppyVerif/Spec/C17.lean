import GuppyVerif.Model.IntLit
/-! Specification vocabulary for C17, independent of the model's code: the two ranges of the statement
    written as plain decimal inequalities. -/
namespace GuppyVerif.IntLit

/-- "lies in [-2^63, 2^63-1]" -/
def InIntRange (v : Int) : Prop := -9223372036854775808 ≤ v ∧ v ≤ 9223372036854775807
/-- "lies in [0, 2^64-1]" -/
def InNatRange (v : Int) : Prop := 0 ≤ v ∧ v ≤ 18446744073709551615

instance (v : Int) : Decidable (InIntRange v) := by unfold InIntRange; infer_instance
instance (v : Int) : Decidable (InNatRange v) := by unfold InNatRange; infer_instance

/-- when a value is acceptable at a numeric kind according to the statement -/
def AcceptAt (v : Int) (k : Kind) : Prop := (k = .int ∧ InIntRange v) ∨ (k = .nat ∧ InNatRange v)
/-- componentwise acceptability of a tuple constant (same length) -/
def AllAccept : List Int → List Kind → Prop
  | [], [] => True
  | v :: vs, k :: ks => AcceptAt v k ∧ AllAccept vs ks
  | _, _ => False


end GuppyVerif.IntLit
