import GuppyVerif.Model.C21Dispatch
/-! # C21 — specification vocabulary (independent of the dispatch code)

What an operator application *means* once a dunder has been selected: the implementing type, the
source-level operator, and the source-level operand order.  `lop` on `[left, right]` and `rop` on
`[right, left]` are two spellings of "`left op right`, implemented by that type" — that
`T.__rop__(r, l)` computes what `T.__op__(l, r)` computes is the contract of reflected dunders
(for std/num.py it belongs to C04; the C21 probes observe it on the lowered wiring). -/
namespace GuppyVerif.C21

/-- the meaning of a selection: (implementing type, operator) with operands in source order, or
    `none` when the selected dunder is not a spelling of the operator at all -/
def Sel.meaning (T : Tables) (op : Op) (s : Sel) : Option (NTy × Op) :=
  match T.ops.lookup op with
  | none => none
  | some (lop, rop) =>
    if (s.dunder = lop ∧ s.swapped = false) ∨ (s.dunder = rop ∧ s.swapped = true) then some (s.ty, op) else none

def allTys : List NTy := [.bool, .nat, .int, .float]
/-- Python constants that can meet a traced value in an operator: `bool`, `int`, `float` literals -/
def constTys : List NTy := [.bool, .int, .float]

/-- the operand shapes of the property: `x op y`, `x op c`, `c op x` -/
def shapes : List (Operand × Operand) :=
  (allTys.flatMap fun a => allTys.map fun b => (Operand.traced a, Operand.traced b)) ++
  (allTys.flatMap fun a => constTys.map fun b => (Operand.traced a, Operand.const b)) ++
  (constTys.flatMap fun a => allTys.map fun b => (Operand.const a, Operand.traced b))

def allOps : List Op := checkerOps.map (·.1)
def allUOps : List UOp := checkerUOps.map (·.1)

/-- binary-operator methods of the mixin and the operator-protocol name they must serve -/
def reflectedOf (T : Tables) (d : Dunder) : Option Dunder :=
  (T.ops.find? (fun r => r.2.1 = d)).map (·.2.2)

/-- **Agreement** of a comptime outcome with a regular outcome for operator `op`: both fail, or both
    succeed with selections that mean the same (implementing type, operator, source operand order). -/
def Agree (T : Tables) (op : Op) (c : Option (Option Sel)) (r : Option Sel) : Bool :=
  match c, r with
  | some (some c), some r => decide (c.meaning T op = r.meaning T op) && (r.meaning T op).isSome
  | some none, none => true
  | _, _ => false

/-- agreement up to reflection only: identical selections, or direct vs reflected dunder of one type
    (only possible when both operands have that type) -/
def AgreeRefl (a b : NTy) (c : Option (Option Sel)) (r : Option Sel) : Bool :=
  match c, r with
  | some (some c), some r => decide (c = r) || (decide (c.ty = r.ty) && decide (a = b))
  | some none, none => true
  | _, _ => false

end GuppyVerif.C21
