import GuppyVerif.Model.C21Dispatch
/-! # C21 — specification vocabulary (independent of the dispatch code)

What an operator application *means* once a dunder has been selected: the implementing type, the
source-level operator, and the source-level operand order.  `lop` on `[left, right]` and `rop` on
`[right, left]` are two spellings of "`left op right`, implemented by that type" — that
`T.__rop__(r, l)` computes what `T.__op__(l, r)` computes is the contract of reflected dunders
(for std/num.py it belongs to C04; the C21 probes observe it on the lowered wiring). -/
namespace GuppyVerif.C21

/-- the meaning of a selection: (implementing type, operator) with operands in source order, or
    `none` when the selected dunder is not a spelling of the operator at all -/
def Sel.meaning (T : Tables) (op : Op) : Sel → Option (NTy × Op)
  | ⟨ty, dunder, swapped⟩ =>
    match T.ops.lookup op with
    | none => none
    | some (lop, rop) =>
      if (dunder = lop ∧ swapped = false) ∨ (dunder = rop ∧ swapped = true) then some (ty, op) else none

def allTys : List NTy := [.bool, .nat, .int, .float]
/-- Python constants that can meet a traced value in an operator: `bool`, `int`, `float` literals -/
def constTys : List NTy := [.bool, .int, .float]

/-- the operand shapes of the property: `x op y`, `x op c`, `c op x` (every traced type with every
    traced / constant type).  Written out as a literal: the kernel evaluates call-by-name, and elements of
    a computed list would be re-computed at each use. -/
def shapes : List (Operand × Operand) := [
  (.traced .bool, .traced .bool), (.traced .bool, .traced .nat), (.traced .bool, .traced .int), (.traced
  .bool, .traced .float), (.traced .nat, .traced .bool), (.traced .nat, .traced .nat), (.traced .nat, .traced
  .int), (.traced .nat, .traced .float), (.traced .int, .traced .bool), (.traced .int, .traced .nat), (.traced
  .int, .traced .int), (.traced .int, .traced .float), (.traced .float, .traced .bool), (.traced .float,
  .traced .nat), (.traced .float, .traced .int), (.traced .float, .traced .float), (.traced .bool, .const
  .bool), (.traced .bool, .const .int), (.traced .bool, .const .float), (.traced .nat, .const .bool), (.traced
  .nat, .const .int), (.traced .nat, .const .float), (.traced .int, .const .bool), (.traced .int, .const
  .int), (.traced .int, .const .float), (.traced .float, .const .bool), (.traced .float, .const .int),
  (.traced .float, .const .float), (.const .bool, .traced .bool), (.const .bool, .traced .nat), (.const .bool,
  .traced .int), (.const .bool, .traced .float), (.const .int, .traced .bool), (.const .int, .traced .nat),
  (.const .int, .traced .int), (.const .int, .traced .float), (.const .float, .traced .bool), (.const .float,
  .traced .nat), (.const .float, .traced .int), (.const .float, .traced .float)]

def allOps : List Op := [.Add, .BitAnd, .BitOr, .BitXor, .Div, .Eq, .FloorDiv, .Gt, .GtE, .LShift, .Lt, .LtE,
  .MatMult, .Mod, .Mult, .NotEq, .Pow, .RShift, .Sub]
def allUOps : List UOp := [.Invert, .UAdd, .USub]

/-- binary-operator methods of the mixin and the operator-protocol name they must serve -/
def reflectedOf (T : Tables) (d : Dunder) : Option Dunder :=
  (T.ops.find? (fun r => r.2.1 = d)).map (·.2.2)

/-- **Agreement** of a comptime outcome with a regular outcome for operator `op`: both fail, or both
    succeed with selections that mean the same (implementing type, operator, source operand order).
    (The selections are destructured before use so that kernel evaluation computes each only once.) -/
def Agree (T : Tables) (op : Op) (c : Option (Option Sel)) (r : Option Sel) : Bool :=
  match c, r with
  | some (some ⟨ct, cd, cs⟩), some ⟨rt, rd, rs⟩ =>
    match Sel.meaning T op ⟨rt, rd, rs⟩ with
    | some m => decide (Sel.meaning T op ⟨ct, cd, cs⟩ = some m)
    | none => false
  | some none, none => true
  | _, _ => false

/-- agreement up to reflection only: identical selections, or direct vs reflected dunder of one type
    (only possible when both operands have that type) -/
def AgreeRefl (a b : NTy) (c : Option (Option Sel)) (r : Option Sel) : Bool :=
  match c, r with
  | some (some ⟨ct, cd, cs⟩), some ⟨rt, rd, rs⟩ =>
    (decide (ct = rt) && decide (cd = rd) && decide (cs = rs)) || (decide (ct = rt) && decide (a = b))
  | some none, none => true
  | _, _ => false

end GuppyVerif.C21
