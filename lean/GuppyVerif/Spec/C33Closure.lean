import GuppyVerif.Model.ClosureGate
/-! Specification vocabulary for the capturing-closure gate (C33), stated positionally and
without any liveness computation and without mentioning types. -/
namespace GuppyVerif.ClosureGate.Spec

open GuppyVerif.ClosureGate

/-- the body reads `x` at some statement before which the body itself has not assigned `x` -/
def UsedFree (body : List Stmt) (x : Nat) : Prop :=
  ∃ pre s post, body = pre ++ s :: post ∧ x ∈ s.reads ∧ ∀ t ∈ pre, t.assigns ≠ some x

/-- the statement's notion of a capturing closure: the nested function uses a local variable of
    the enclosing function (`names`), not shadowed by one of its own parameters -/
def Captures (names : List Nat) (f : Inner) : Prop :=
  ∃ x, UsedFree f.body x ∧ x ∉ f.params ∧ x ∈ names

/-- change the declared type class of locals, keep everything else -/
def retype (κ : Nat → VKind) : Item → Item
  | .localVar x _ => .localVar x (κ x)
  | .nested f => .nested f

end GuppyVerif.ClosureGate.Spec
