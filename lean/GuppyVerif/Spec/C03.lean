import GuppyVerif.Model.Builder
/-! # Specification vocabulary for C03 / C05 (import-free)

History.  Up to /repo commits f9e33c1 and 7c8aeda the builder hoisted lifted sub-expressions before
side-effecting operands to their left and evaluated the middle operand of a chained comparison twice
(defect D9); the theorems were then proved for a syntactic *hoist-safe* fragment only.  The repaired
builder stores the operands in question in temporaries (`needBind`, `stable` in `Model/Builder.lean`),
and the theorems of `Props/C03.lean` / `Props/C05.lean` hold for every surface program. -/
namespace GuppyVerif.Builder
open GuppyVerif.Surface

/-- verdict reported to the harness (protocol field kept from the time when a hoist-safe fragment existed):
    every program is inside the fragment the theorems cover -/
def hsClass (_p : Stmt) : String := "safe"

/-! ## Surface programs: only user variables, no internal statement forms -/

def userE : Expr → Bool
  | .var (.user _) => true
  | .var (.tmp _) => false
  | .num _ | .bool _ | .call0 _ => true
  | .un _ e => userE e
  | .bi _ l r => userE l && userE r
  | .cmp2 _ _ l m r => userE l && userE m && userE r
  | .and l r | .or l r => userE l && userE r
  | .ite t b o => userE t && userE b && userE o
  | .walrus (.user _) e => userE e
  | .walrus (.tmp _) _ => false

def isUser : Var → Bool
  | .user _ => true
  | .tmp _ => false

def userS : Stmt → Bool
  | .nil | .pass | .brk | .cont | .ret0 => true
  | .cons s r => userS s && userS r
  | .assign x e | .aug x _ e => isUser x && userE e
  | .expr e | .ret e => userE e
  | .ite c t e => userE c && userS t && userS e
  | .while c b => userE c && userS b
  | .for x e b => isUser x && userE e && userS b
  | .forFrom .. => false

end GuppyVerif.Builder
