import GuppyVerif.Model.Builder
/-! # Specification vocabulary for C03 / C05 (import-free; the driver reports `hsClass`)

## The hoist-safe fragment

`ExprBuilder` turns IfExp / `and` / `or` / chained comparisons / walrus into statements and blocks that
are emitted *before* the statement containing the expression; what stays behind is the *residual*
expression.  That is only Python's order if nothing that Python evaluates earlier is still waiting in
the residual of a sibling to the left.  `hoistSafe` is the syntactic condition under which the theorems
of `Props/C03.lean` and `Props/C05.lean` are proved; outside it the real builder (and this model of it)
deviate from Python (defect D9), which `Props/C05.lean` proves on concrete programs.

* `lifts e`      (Model/Builder.lean) — `e` contains a lifted construct anywhere.
* `resCalls e`   — a call remains in the residual of `e` (a call outside every lifted construct).
* `resReads e`   — variables the residual of `e` reads (a walrus leaves its target behind).
* `writes e`     — all walrus targets in `e`.
* `sib l r`      — `r` may follow `l` as operands of one node: if `r` lifts anything, then the residual of
                   `l` has no call — or `r` makes no call at all, so that hoisting it is unobservable —
                   and the residual of `l` reads nothing that `r` assigns.
* a chained comparison `l o1 m o2 r` additionally needs `m` free of calls and lifted constructs (the real
  builder evaluates `m` twice) and `sib m r` (the second evaluation of `m` happens after the hoisted part
  of `r`). -/
namespace GuppyVerif.Builder
open GuppyVerif.Surface

def resCalls : Expr → Bool
  | .var _ | .num _ | .bool _ => false
  | .call0 _ => true
  | .un o e => (match o with | .call1 _ => true | _ => false) || resCalls e
  | .bi o l r => (match o with | .call2 _ => true | _ => false) || resCalls l || resCalls r
  | .cmp2 .. | .and .. | .or .. | .ite .. | .walrus .. => false

def anyCall : Expr → Bool
  | .var _ | .num _ | .bool _ => false
  | .call0 _ => true
  | .un o e => (match o with | .call1 _ => true | _ => false) || anyCall e
  | .bi o l r => (match o with | .call2 _ => true | _ => false) || anyCall l || anyCall r
  | .cmp2 _ _ l m r => anyCall l || anyCall m || anyCall r
  | .and l r | .or l r => anyCall l || anyCall r
  | .ite t b o => anyCall t || anyCall b || anyCall o
  | .walrus _ e => anyCall e

def resReads : Expr → List Var
  | .var x => [x]
  | .num _ | .bool _ | .call0 _ => []
  | .un _ e => resReads e
  | .bi _ l r => resReads l ++ resReads r
  | .walrus x _ => [x]
  | .cmp2 .. | .and .. | .or .. | .ite .. => []

def writes : Expr → List Var
  | .var _ | .num _ | .bool _ | .call0 _ => []
  | .un _ e => writes e
  | .bi _ l r => writes l ++ writes r
  | .cmp2 _ _ l m r => writes l ++ writes m ++ writes r
  | .and l r | .or l r => writes l ++ writes r
  | .ite t b o => writes t ++ writes b ++ writes o
  | .walrus x e => x :: writes e

def disjoint (a b : List Var) : Bool := a.all fun x => !b.contains x

def sib (l r : Expr) : Bool := !lifts r || ((!resCalls l || !anyCall r) && disjoint (resReads l) (writes r))

/-- hoist-safe expressions -/
def hsE : Expr → Bool
  | .var _ | .num _ | .bool _ | .call0 _ => true
  | .un _ e => hsE e
  | .bi _ l r => hsE l && hsE r && sib l r
  | .cmp2 _ _ l m r => hsE l && hsE m && hsE r && sib l m && sib m r && !anyCall m && !lifts m
  | .and l r | .or l r => hsE l && hsE r
  | .ite t b o => hsE t && hsE b && hsE o
  | .walrus _ e => hsE e

/-- some chained comparison has a call in its middle operand (class `chained-compare-middle-twice`) -/
def chainBad : Expr → Bool
  | .var _ | .num _ | .bool _ | .call0 _ => false
  | .un _ e => chainBad e
  | .bi _ l r => chainBad l || chainBad r
  | .cmp2 _ _ l m r => anyCall m || chainBad l || chainBad m || chainBad r
  | .and l r | .or l r => chainBad l || chainBad r
  | .ite t b o => chainBad t || chainBad b || chainBad o
  | .walrus _ e => chainBad e

/-- hoist-safe programs: every expression is, and an augmented assignment whose right-hand side lifts
    something does not assign its own target there (`x += (x := 5)` reads the old `x` in Python) -/
def hoistSafe : Stmt → Bool
  | .nil | .pass | .brk | .cont | .ret0 => true
  | .cons s r => hoistSafe s && hoistSafe r
  | .assign _ e | .expr e | .ret e => hsE e
  | .aug x _ e => hsE e && (!lifts e || !(writes e).contains x)
  | .ite c t e => hsE c && hoistSafe t && hoistSafe e
  | .while c b => hsE c && hoistSafe b
  | .for _ e b => hsE e && hoistSafe b
  | .forFrom _ _ _ b => hoistSafe b

def chainBadS : Stmt → Bool
  | .nil | .pass | .brk | .cont | .ret0 => false
  | .cons s r => chainBadS s || chainBadS r
  | .assign _ e | .expr e | .ret e | .aug _ _ e => chainBad e
  | .ite c t e => chainBad c || chainBadS t || chainBadS e
  | .while c b => chainBad c || chainBadS b
  | .for _ e b => chainBad e || chainBadS b
  | .forFrom _ _ _ b => chainBadS b

/-- verdict reported to the harness: `safe`, or the defect class that makes the program unsafe -/
def hsClass (p : Stmt) : String :=
  if chainBadS p then "chain" else if hoistSafe p then "safe" else "sibling"

/-! ## Surface programs: only user variables, no internal statement forms -/

def userE : Expr → Bool
  | .var (.user _) => true
  | .var (.tmp _) => false
  | .num _ | .bool _ | .call0 _ => true
  | .un _ e => userE e
  | .bi _ l r => userE l && userE r
  | .cmp2 _ _ l m r => userE l && userE m && userE r
  | .and l r | .or l r => userE l && userE r
  | .ite t b o => userE t && userE b && userE o
  | .walrus (.user _) e => userE e
  | .walrus (.tmp _) _ => false

def isUser : Var → Bool
  | .user _ => true
  | .tmp _ => false

def userS : Stmt → Bool
  | .nil | .pass | .brk | .cont | .ret0 => true
  | .cons s r => userS s && userS r
  | .assign x e | .aug x _ e => isUser x && userE e
  | .expr e | .ret e => userE e
  | .ite c t e => userE c && userS t && userS e
  | .while c b => userE c && userS b
  | .for x e b => isUser x && userE e && userS b
  | .forFrom .. => false

end GuppyVerif.Builder
