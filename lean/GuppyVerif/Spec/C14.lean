import GuppyVerif.Model.CopyDrop
/-! Specification vocabulary for C14 (independent of how the model computes). -/
namespace GuppyVerif.CopyDrop
open GuppyVerif

/-- the type arguments among a list of arguments (const arguments are skipped) -/
def typeArgs : List Arg → List Ty
  | [] => []
  | .ty t :: r => t :: typeArgs r
  | .const _ :: r => typeArgs r

/-- all rows of the definition table are consistent (`rowOk`: the declared `never_copyable` /
    `never_droppable` flags agree with what the definition's `to_hugr` shape produces) -/
def TableOk (aff : List String) (D : List OpaqueDef) : Prop := ∀ d ∈ D, rowOk aff d = true

/-- a type to be treated in an affine way (`TypeBase.affine`) -/
def Affine (D : List OpaqueDef) (t : Ty) : Prop := droppable D t = true ∧ copyable D t = false

end GuppyVerif.CopyDrop
