import GuppyVerif.Model.Linearity
/-! Specification vocabulary for C06: an ownership semantics over CFG paths, stated without
    reference to scopes, liveness or any other device of the checker.

    Under every leaf id a linear value is *held* or not.  A statement acts on a leaf through a
    sequence of events, each with the kind (`lin`) of the binding it refers to or creates:
    `use` (the leaf is required and taken: moved, consumed, returned, or lent to a callee),
    `give` (the callee hands a lent leaf back), `asg` (the leaf is (re)defined by an assignment,
    possibly at a type of the other kind).  A path is bad as soon as a linear leaf is used while
    no value is held (use after consume, second borrow while lent) or a leaf is assigned — at
    whatever type — while a linear value is held under it (the old value is lost).  Events on
    copyable bindings change nothing.  At the exit the borrowed leaves are handed back to the
    caller (a final `use`); nothing else may be held there.  A value that is held at a point
    from which no continuation ever reads it is leaked; a borrowed leaf may stay untouched on a
    path that never returns. -/
namespace GuppyVerif.Linearity

inductive Op where
  | use | give | asg
  deriving DecidableEq, Repr

structure Ev where
  op : Op
  lin : Bool
  deriving DecidableEq, Repr

/-- ownership semantics of one leaf under one event; `none` = the path is bad here -/
def Ev.step (held : Bool) (e : Ev) : Option Bool :=
  match e.op, e.lin with
  | .use, true => if held then some false else none
  | .use, false => some held
  | .give, true => some true
  | .give, false => some held
  | .asg, k => if held then none else some k

def runEvs (o : Bool) : List Ev → Option Bool
  | [] => some o
  | e :: es => match Ev.step o e with
    | none => none
    | some o' => runEvs o' es

/-- the events a list of leaf occurrences contributes for leaf `l` -/
def leafEvs (op : Op) (l : Leaf) (ls : List (Leaf × Bool)) : List Ev :=
  ls.flatMap fun xk => if xk.1 = l then [⟨op, xk.2⟩] else []

def Act.evs (l : Leaf) : Act → List Ev
  | .use p _ => leafEvs .use l p.leaves
  | .give p => leafEvs .give l p.leaves
  | .dropAfter => []
  | .moveOut => []

/-- what a statement requires / takes / produces, per leaf, in evaluation order -/
def Stmt.evs (l : Leaf) (st : Stmt) : List Ev :=
  st.acts.flatMap (Act.evs l) ++ st.tgts.flatMap fun t => leafEvs .asg l t.leaves

/-- events of a whole block; reaching the exit hands the borrowed leaves back to the caller -/
def Prog.blockEvs (P : Prog) (l : Leaf) (b : Blk) : List Ev :=
  (P.stmts b).flatMap (Stmt.evs l) ++
    (if b = P.exit ∧ l ∈ P.borrowedLeaves then [⟨Op.use, (P.rowLin P.exit).contains l⟩] else [])

/-- `Walk P bs b`: `bs ++ [b]` is a path of the CFG starting at the entry block -/
inductive Walk (P : Prog) : List Blk → Blk → Prop
  | entry : Walk P [] P.entry
  | step {bs : List Blk} {b c : Blk} : Walk P bs b → c ∈ P.succ b → Walk P (bs ++ [b]) c

def Prog.trace (P : Prog) (l : Leaf) (bs : List Blk) : List Ev := bs.flatMap (P.blockEvs l)

/-- the leaves under which a linear value is held when the function is entered: the linear
    leaves of its parameters -/
def Prog.initOwned (P : Prog) (l : Leaf) : Bool := (P.rowLin P.entry).contains l

def Ev.isUse (e : Ev) : Bool := e.op == Op.use

/-- some continuation from the start of block `b` reads `l` before redefining it -/
inductive WillUse (P : Prog) (l : Leaf) : Blk → Prop
  | here {b : Blk} : ((P.blockEvs l b).head?.map Ev.isUse) = some true → WillUse P l b
  | later {b c : Blk} : P.blockEvs l b = [] → c ∈ P.succ b → WillUse P l c → WillUse P l b

/-- some continuation from `b` never terminates and never touches `l` -/
def MayIdle (P : Prog) (l : Leaf) (b : Blk) : Prop :=
  ∃ f : Nat → Blk, f 0 = b ∧ ∀ i, P.blockEvs l (f i) = [] ∧ f (i + 1) ∈ P.succ (f i)

/-- every path from the entry treats the leaf `l` correctly -/
structure LeafGood (P : Prog) (l : Leaf) : Prop where
  /-- never used (at a linear type) while nothing is held, never assigned while a linear value
      is held; a borrowed leaf is there to be handed back whenever the exit is reached -/
  noBadUse : ∀ bs b, Walk P bs b → runEvs (P.initOwned l) (P.trace l (bs ++ [b])) ≠ none
  /-- nothing is left behind at the exit -/
  exitClean : ∀ bs, Walk P bs P.exit → runEvs (P.initOwned l) (P.trace l (bs ++ [P.exit])) = some false
  /-- no leak, also on paths that never reach the exit: whenever a linear value is held on
      entering a block, some continuation reads it — or it is a borrowed leaf on a path that
      never returns -/
  noLeak : ∀ bs b, Walk P bs b → runEvs (P.initOwned l) (P.trace l bs) = some true →
    WillUse P l b ∨ (l ∈ P.borrowedLeaves ∧ MayIdle P l b)

/-- ownership rules that do not depend on the path: a whole borrowed variable is never moved,
    consumed, returned or reassigned, no linear result is discarded, no linear unnamed value is
    lent to a callee (it could not be handed back), no linear element moved out of a subscript -/
def Act.StaticOK (P : Prog) : Act → Prop
  | .use p borrow => borrow = false → isInoutVar P p = false
  | .give _ => True
  | .dropAfter => False
  | .moveOut => False

def Stmt.StaticOK (P : Prog) (st : Stmt) : Prop :=
  (∀ a ∈ st.acts, a.StaticOK P) ∧ (∀ t ∈ st.tgts, isInoutVar P t = false) ∧ st.dropsLin = false

def Reachable (P : Prog) (b : Blk) : Prop := ∃ bs, Walk P bs b

/-- **the property**: every path from the entry is good for every leaf, and the
    path-independent ownership rules hold in all reachable code -/
structure Good (P : Prog) : Prop where
  leaves : ∀ l, LeafGood P l
  rules : ∀ b, Reachable P b → ∀ s ∈ P.stmts b, s.StaticOK P

/-- the kind of leaf `l` in the input row of block `b` -/
def Prog.rowKind (P : Prog) (b : Blk) (l : Leaf) : Option Bool :=
  if (P.row b).contains l then some ((P.rowLin b).contains l) else none

/-- kind of the current binding of a leaf under one event; `none` = the occurrence is typed at
    another kind than the binding it refers to -/
def Ev.kstep (k : Option Bool) (e : Ev) : Option (Option Bool) :=
  match e.op with
  | .use => if k = some e.lin then some k else none
  | .give => if k = some e.lin ∨ k = none then some (some e.lin) else none
  | .asg => some (some e.lin)

def krun (k : Option Bool) : List Ev → Option (Option Bool)
  | [] => some k
  | e :: es => match Ev.kstep k e with
    | none => none
    | some k' => krun k' es

/-- **well-kinded CFG** (what the type checker establishes; evaluated on every extracted CFG by
    the driver): in every block each occurrence of a leaf is typed at the kind of the binding it
    refers to — the one of the input row, or the latest assignment in the block — and the binding
    that leaves the block has the kind the successors' rows announce -/
structure Prog.KindsOK (P : Prog) : Prop where
  rows : ∀ b ∈ P.blocks, ∀ l, l ∈ P.rowLin b → l ∈ P.row b
  blocks : ∀ l, ∀ b ∈ P.blocks, ∃ k, krun (P.rowKind b l) (P.blockEvs l b) = some k ∧
    ∀ c ∈ P.succ b, l ∈ P.row c → P.rowKind c l = k

/-- executable form of `Prog.KindsOK` over the leaves that occur in the program -/
def Prog.kindsOKb (P : Prog) : Bool :=
  P.blocks.all (fun b => (P.rowLin b).all fun l => (P.row b).contains l) &&
  P.leafIds.all fun l => P.blocks.all fun b =>
    match krun (P.rowKind b l) (P.blockEvs l b) with
    | none => false
    | some k => (P.succ b).all fun c => !(P.row c).contains l || P.rowKind c l == k

/-- shape of the CFGs `check_cfg_linearity` receives (checked on every extracted CFG by the
    driver): successors stay inside the block list, the entry has no predecessor and is not the
    exit, the exit is empty and final, every other block continues somewhere; within a statement
    a lent place is handed back only after it was lent -/
structure Prog.WF (P : Prog) : Prop where
  acts : ∀ b ∈ P.blocks, ∀ st ∈ P.stmts b, actsWf P.rowIds [] st.acts = true
  entryIn : P.entry ∈ P.blocks
  closed : ∀ b ∈ P.blocks, ∀ c ∈ P.succ b, c ∈ P.blocks
  entryNoPred : ∀ b ∈ P.blocks, P.entry ∉ P.succ b
  entryNeExit : P.entry ≠ P.exit
  exitStmts : P.stmts P.exit = []
  exitSucc : P.succ P.exit = []
  cont : ∀ b ∈ P.blocks, b ≠ P.exit → P.succ b ≠ []

end GuppyVerif.Linearity
