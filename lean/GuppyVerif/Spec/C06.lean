import GuppyVerif.Model.Linearity
/-! Specification vocabulary for C06: an ownership semantics over CFG paths, stated without
    reference to scopes, liveness or any other device of the checker.

    A linear leaf is *owned* (present) or not.  A statement acts on a leaf through a sequence of
    events: `use` (the leaf is required and taken: moved, consumed, returned, or lent to a
    callee), `give` (the callee hands a lent leaf back), `asg` (the leaf is (re)defined by an
    assignment).  A path is bad as soon as a leaf is used while absent (use after consume, second
    borrow while lent) or assigned while owned (the old value is lost).  At the exit the borrowed
    leaves are handed back to the caller (a final `use`); nothing else may be owned there.  A leaf
    that is owned at a point from which no continuation ever reads it is leaked; a borrowed leaf
    may stay untouched on a path that never returns. -/
namespace GuppyVerif.Linearity

inductive Ev where
  | use | give | asg
  deriving DecidableEq, Repr

/-- ownership semantics of one leaf under one event; `none` = the path is bad here -/
def Ev.step : Bool → Ev → Option Bool
  | true, .use => some false
  | false, .use => none
  | _, .give => some true
  | false, .asg => some true
  | true, .asg => none

def runEvs (o : Bool) : List Ev → Option Bool
  | [] => some o
  | e :: es => match Ev.step o e with
    | none => none
    | some o' => runEvs o' es

/-- the events a list of leaves contributes for leaf `l` -/
def leafEvs (e : Ev) (l : Leaf) (ls : List Leaf) : List Ev := ls.flatMap fun x => if x = l then [e] else []

def placesEvs (e : Ev) (l : Leaf) (ps : List Place) : List Ev := ps.flatMap fun p => leafEvs e l p.leaves

/-- what a statement requires / takes / produces, per leaf, in evaluation order:
    the sources (arguments) are taken left to right, then lent arguments are handed back,
    then the targets are defined -/
def Stmt.evs (l : Leaf) : Stmt → List Ev
  | .move tgts srcs => placesEvs .use l srcs ++ placesEvs .asg l tgts
  | .call tgts args _ =>
    placesEvs .use l (args.map Arg.place) ++ placesEvs .give l ((args.filter Arg.isInout).map Arg.place) ++
      placesEvs .asg l tgts
  | .ret srcs => placesEvs .use l srcs

/-- events of a whole block; reaching the exit hands the borrowed leaves back to the caller -/
def Prog.blockEvs (P : Prog) (l : Leaf) (b : Blk) : List Ev :=
  (P.stmts b).flatMap (Stmt.evs l) ++ (if b = P.exit ∧ l ∈ P.borrowedLeaves then [Ev.use] else [])

/-- `Walk P bs b`: `bs ++ [b]` is a path of the CFG starting at the entry block -/
inductive Walk (P : Prog) : List Blk → Blk → Prop
  | entry : Walk P [] P.entry
  | step {bs : List Blk} {b c : Blk} : Walk P bs b → c ∈ P.succ b → Walk P (bs ++ [b]) c

def Prog.trace (P : Prog) (l : Leaf) (bs : List Blk) : List Ev := bs.flatMap (P.blockEvs l)

/-- the leaves owned when the function is entered: those of its parameters -/
def Prog.initOwned (P : Prog) (l : Leaf) : Bool := (P.row P.entry).contains l

/-- some continuation from the start of block `b` reads `l` before redefining it -/
inductive WillUse (P : Prog) (l : Leaf) : Blk → Prop
  | here {b : Blk} : (P.blockEvs l b).head? = some Ev.use → WillUse P l b
  | later {b c : Blk} : P.blockEvs l b = [] → c ∈ P.succ b → WillUse P l c → WillUse P l b

/-- some continuation from `b` never terminates and never touches `l` -/
def MayIdle (P : Prog) (l : Leaf) (b : Blk) : Prop :=
  ∃ f : Nat → Blk, f 0 = b ∧ ∀ i, P.blockEvs l (f i) = [] ∧ f (i + 1) ∈ P.succ (f i)

/-- every path from the entry treats the linear leaf `l` correctly -/
structure LeafGood (P : Prog) (l : Leaf) : Prop where
  /-- never used while absent, never overwritten while owned; a borrowed leaf is there to be
      handed back whenever the exit is reached -/
  noBadUse : ∀ bs b, Walk P bs b → runEvs (P.initOwned l) (P.trace l (bs ++ [b])) ≠ none
  /-- nothing is left behind at the exit -/
  exitClean : ∀ bs, Walk P bs P.exit → runEvs (P.initOwned l) (P.trace l (bs ++ [P.exit])) = some false
  /-- no leak, also on paths that never reach the exit: whenever the leaf is owned on entering a
      block, some continuation reads it — or it is a borrowed leaf on a path that never returns -/
  noLeak : ∀ bs b, Walk P bs b → runEvs (P.initOwned l) (P.trace l bs) = some true →
    WillUse P l b ∨ (l ∈ P.borrowedLeaves ∧ MayIdle P l b)

/-- ownership rules that do not depend on the path: a whole borrowed variable is never moved,
    consumed, returned or reassigned, and no linear result is discarded -/
def Stmt.StaticOK (P : Prog) : Stmt → Prop
  | .move tgts srcs => (∀ p ∈ srcs, isInoutVar P p = false) ∧ (∀ t ∈ tgts, isInoutVar P t = false)
  | .call tgts args d =>
    (∀ a ∈ args, a.isInout = false → isInoutVar P a.place = false) ∧ (∀ t ∈ tgts, isInoutVar P t = false) ∧
      d = false
  | .ret srcs => ∀ p ∈ srcs, isInoutVar P p = false

def Reachable (P : Prog) (b : Blk) : Prop := ∃ bs, Walk P bs b

/-- **the property**: every path from the entry is good for every linear leaf, and the
    path-independent ownership rules hold in all reachable code -/
structure Good (P : Prog) : Prop where
  leaves : ∀ l, P.lin l = true → LeafGood P l
  rules : ∀ b, Reachable P b → ∀ s ∈ P.stmts b, s.StaticOK P

/-- shape of the CFGs `check_cfg_linearity` receives (checked on every extracted CFG by the
    driver): successors stay inside the block list, the entry has no predecessor and is not the
    exit, the exit is empty and final, every other block continues somewhere -/
structure Prog.WF (P : Prog) : Prop where
  entryIn : P.entry ∈ P.blocks
  closed : ∀ b ∈ P.blocks, ∀ c ∈ P.succ b, c ∈ P.blocks
  entryNoPred : ∀ b ∈ P.blocks, P.entry ∉ P.succ b
  entryNeExit : P.entry ≠ P.exit
  exitStmts : P.stmts P.exit = []
  exitSucc : P.succ P.exit = []
  cont : ∀ b ∈ P.blocks, b ≠ P.exit → P.succ b ≠ []

end GuppyVerif.Linearity
