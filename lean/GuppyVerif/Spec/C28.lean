import GuppyVerif.Model.EmuConfig
/-! Specification vocabulary for C28: configurations *by value*.  The behaviour of a
configuration is the record of arguments it would run with; a derivation is a pure function
on such records (simulator objects enter by their observable content, never by reference);
the behaviour of any configuration is the fold of its derivation path. -/
namespace GuppyVerif.EmuConfig.Spec

open GuppyVerif.EmuConfig

/-- effect of one derivation method on a by-value configuration; `look` resolves the object
    handed to `with_simulator` to its content at that moment -/
def applyD (look : Nat → Option Sim) (lookC : Nat → Option (Option Nat)) (a : RunArgs) :
    Deriv → Option RunArgs
  | .seed v => some { a with seed := v, simSeed := v }
  | .shots n => some { a with shots := n }
  | .shotOffset n => some { a with shotOffset := n }
  | .shotIncrement n => some { a with shotIncrement := n }
  | .nQubits n => some { a with nQubits := n }
  | .nProcesses n => some { a with nProcesses := n }
  | .verbose b => some { a with verbose := b }
  | .timeout t => some { a with timeout := t }
  | .progressBar b => some { a with progressBar := b }
  | .runtime r => (lookC r).map fun sd => { a with runtime := r, runtimeSeed := sd }
  | .errorModel e => (lookC e).map fun sd => { a with errorModel := e, errorModelSeed := sd }
  | .eventHook h => (lookC h).map fun sd => { a with eventHook := h, eventHookSeed := sd }
  | .simulator sid => (look sid).map fun s => { a with simKind := s.kind, simSeed := s.seed }
  | .statevector => some { a with simKind := .quest, simSeed := none }
  | .coinflip => some { a with simKind := .coinflip, simSeed := none }
  | .stabilizer => some { a with simKind := .stim, simSeed := none }

/-- effect of a builder method on by-value build arguments -/
def applyB (a : BuildArgs) : BDeriv → BuildArgs
  | .name v => { a with name := v }
  | .buildDir v => { a with buildDir := v }
  | .verbose x => { a with verbose := x }
  | .buildArg k v => { a with custom := dictSet k v a.custom }

/-- run arguments of a freshly built instance: `_Options()` defaults, fresh Quest without seed -/
def defaultArgs (n : Nat) : RunArgs :=
  { simKind := .quest, simSeed := none, runtime := 0, runtimeSeed := none, errorModel := 0,
    errorModelSeed := none, eventHook := 0, eventHookSeed := none, nQubits := n,
    shots := 1, verbose := false, timeout := none, seed := none, shotOffset := 0, shotIncrement := 1,
    nProcesses := 1, progressBar := false }

/-- every instance refers to a live simulator object and to an existing build-log entry -/
def WF (s : State) : Prop :=
  s.comps[0]? = some none ∧
  ∀ c ∈ s.insts, (c.sim < s.heap.length ∧ c.runtime < s.comps.length ∧ c.errorModel < s.comps.length ∧
    c.eventHook < s.comps.length) ∧ ∀ o, c.origin = some o → o < s.blog.length

/-- follow an instance derivation path starting at instance `i`; before every derivation any
    other operations (`junk`: derivations from / runs of any instance or builder) may happen -/
def chainD : State → Nat → List (List Op × Deriv) → Option (State × Nat)
  | s, i, [] => some (s, i)
  | s, i, (junk, d) :: rest =>
    match runOps true s junk with
    | none => none
    | some s₁ =>
      match step true s₁ (.derive i d) with
      | none => none
      | some s₂ => chainD s₂ s₁.insts.length rest

/-- the same for a builder derivation path -/
def chainB : State → Nat → List (List Op × BDeriv) → Option (State × Nat)
  | s, i, [] => some (s, i)
  | s, i, (junk, d) :: rest =>
    match runOps true s junk with
    | none => none
    | some s₁ =>
      match step true s₁ (.bderive i d) with
      | none => none
      | some s₂ => chainB s₂ s₁.builders.length rest

/-- fold of an instance derivation path over by-value run arguments -/
def foldD (look : Nat → Option Sim) (lookC : Nat → Option (Option Nat)) :
    RunArgs → List Deriv → Option RunArgs
  | a, [] => some a
  | a, d :: ds =>
    match applyD look lookC a d with
    | none => none
    | some a' => foldD look lookC a' ds

end GuppyVerif.EmuConfig.Spec
