import GuppyVerif.Model.EmuConfig
/-! Specification vocabulary for C28: configurations *by value*.  The behaviour of a
configuration is the record of arguments it would run with; a derivation is a pure function
on such records (simulator objects enter by their observable content, never by reference);
the behaviour of any configuration is the fold of its derivation path. -/
namespace GuppyVerif.EmuConfig.Spec

open GuppyVerif.EmuConfig

/-- effect of one derivation method on a by-value configuration; `look` resolves the object
    handed to `with_simulator` to its content at that moment -/
def applyD (look : Nat → Option Sim) (a : RunArgs) : Deriv → Option RunArgs
  | .seed v => some { a with seed := v, simSeed := v }
  | .shots n => some { a with shots := n }
  | .shotOffset n => some { a with shotOffset := n }
  | .shotIncrement n => some { a with shotIncrement := n }
  | .nQubits n => some { a with nQubits := n }
  | .nProcesses n => some { a with nProcesses := n }
  | .verbose b => some { a with verbose := b }
  | .timeout t => some { a with timeout := t }
  | .runtime r => some { a with runtime := r }
  | .errorModel e => some { a with errorModel := e }
  | .eventHook h => some { a with eventHook := h }
  | .simulator sid => (look sid).map fun s => { a with simKind := s.kind, simSeed := s.seed }
  | .statevector => some { a with simKind := .quest, simSeed := none }
  | .coinflip => some { a with simKind := .coinflip, simSeed := none }
  | .stabilizer => some { a with simKind := .stim, simSeed := none }

/-- every instance refers to a live simulator object -/
def WF (s : State) : Prop := ∀ c ∈ s.insts, c.sim < s.heap.length

end GuppyVerif.EmuConfig.Spec
