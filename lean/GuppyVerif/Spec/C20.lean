import GuppyVerif.Model.Gate
import GuppyVerif.Model.Angle
/-! # Specification for C20, hand-written from the docstrings of `std/quantum` and `std/qsystem`

Fixed tables: library function (every top-level function of every module under `std/quantum/` and
`std/qsystem/`, and the methods of `qubit`) → the HUGR op its name/docstring documents, its number of qubits (in
declaration order, `Qubit ordering: [control, target]` etc.) and how its angle arguments must reach
the op.  Independent of the regenerated table `Gen/C20GateTable.lean`. -/
namespace GuppyVerif.Gate.Spec
open GuppyVerif.Gate

/-- how the angle arguments (declared after the qubits) must reach the op -/
inductive AngleMode
  | none
  | halfturns (k : Nat)  -- k `angle` parameters, each as a tket rotation holding its half turns *unscaled*
  | radians (k : Nat)    -- k `angle` parameters, each as a float holding half turns × π
  | rawFloat (k : Nat)   -- k `float` parameters passed through (internal qsystem bindings)
  deriving DecidableEq, Repr

structure GateSpec where
  modl : String
  name : String
  op : String            -- the documented op
  nq : Nat               -- number of qubit parameters, declared first, wired to ports 0..nq-1 in order
  mode : AngleMode := .none
  owned : Bool := false  -- the qubit is consumed (`@owned`)
  deriving DecidableEq, Repr

def GateSpec.nangles (s : GateSpec) : Nat :=
  match s.mode with
  | .none => 0 | .halfturns k => k | .radians k => k | .rawFloat k => k

def GateSpec.arity (s : GateSpec) : Nat := s.nq + s.nangles

/-- declared parameter kinds -/
def GateSpec.paramKinds (s : GateSpec) : List PTy :=
  List.replicate s.nq (if s.owned then .qubitOwned else .qubit) ++
    List.replicate s.nangles (match s.mode with | .rawFloat _ => .float | _ => .angle)

/-- the actual arguments of a call, given as an assignment position ↦ caller expression -/
def actuals (n : Nat) (σ : Nat → Exp) : List Exp := (List.range n).map σ

/-- what a call `f(σ 0, …, σ (arity-1))` must apply: exactly one op, the documented one, with the
    i-th actual qubit on port i and the angles after the qubits -/
def GateSpec.expected (s : GateSpec) (σ : Nat → Exp) : List Emitted :=
  [⟨s.op,
    (List.range s.nq).map (fun i => OpArg.val (σ i)) ++
      (List.range s.nangles).map (fun j =>
        match s.mode with
        | .halfturns _ => OpArg.rot (σ (s.nq + j))
        | .radians _ => OpArg.val (.toFloat (σ (s.nq + j)))
        | _ => OpArg.val (σ (s.nq + j)))⟩]

/-- **the documented gates** (one op each).  Names on the right are the tket op names spelled as the
    function names / docstring titles spell them. -/
def gates : List GateSpec := [
  -- std.quantum: Pauli, Clifford, T
  ⟨"quantum", "h", "tket.quantum.H", 1, .none, false⟩,
  ⟨"quantum", "x", "tket.quantum.X", 1, .none, false⟩,
  ⟨"quantum", "y", "tket.quantum.Y", 1, .none, false⟩,
  ⟨"quantum", "z", "tket.quantum.Z", 1, .none, false⟩,
  ⟨"quantum", "s", "tket.quantum.S", 1, .none, false⟩,
  ⟨"quantum", "sdg", "tket.quantum.Sdg", 1, .none, false⟩,
  ⟨"quantum", "t", "tket.quantum.T", 1, .none, false⟩,
  ⟨"quantum", "tdg", "tket.quantum.Tdg", 1, .none, false⟩,
  ⟨"quantum", "v", "tket.quantum.V", 1, .none, false⟩,
  ⟨"quantum", "vdg", "tket.quantum.Vdg", 1, .none, false⟩,
  -- two- and three-qubit gates, `Qubit ordering: [control, target]`
  ⟨"quantum", "cx", "tket.quantum.CX", 2, .none, false⟩,
  ⟨"quantum", "cy", "tket.quantum.CY", 2, .none, false⟩,
  ⟨"quantum", "cz", "tket.quantum.CZ", 2, .none, false⟩,
  ⟨"quantum", "toffoli", "tket.quantum.Toffoli", 3, .none, false⟩,
  -- rotations by an `angle` (θ = halfturns·π is the op's reading of a rotation of `halfturns`)
  ⟨"quantum", "rx", "tket.quantum.Rx", 1, .halfturns 1, false⟩,
  ⟨"quantum", "ry", "tket.quantum.Ry", 1, .halfturns 1, false⟩,
  ⟨"quantum", "rz", "tket.quantum.Rz", 1, .halfturns 1, false⟩,
  ⟨"quantum", "crz", "tket.quantum.CRz", 2, .halfturns 1, false⟩,
  -- allocation, measurement, reset (binding only; projective semantics not modelled)
  ⟨"quantum", "qubit.__new__", "tket.quantum.QAlloc", 0, .none, false⟩,
  ⟨"quantum", "maybe_qubit", "tket.quantum.TryQAlloc", 0, .none, false⟩,
  ⟨"quantum", "discard", "tket.quantum.QFree", 1, .none, true⟩,
  ⟨"quantum", "measure", "tket.quantum.MeasureFree", 1, .none, true⟩,
  ⟨"quantum", "project_z", "tket.quantum.Measure", 1, .none, false⟩,
  ⟨"quantum", "reset", "tket.quantum.Reset", 1, .none, false⟩,
  ⟨"quantum", "qubit.measure", "tket.quantum.MeasureFree", 1, .none, true⟩,
  ⟨"quantum", "qubit.project_z", "tket.quantum.Measure", 1, .none, false⟩,
  ⟨"quantum", "qubit.discard", "tket.quantum.QFree", 1, .none, true⟩,
  -- std.qsystem native gates: float operands in radians = halfturns·π
  ⟨"qsystem", "phased_x", "tket.qsystem.PhasedX", 1, .radians 2, false⟩,
  ⟨"qsystem", "zz_phase", "tket.qsystem.ZZPhase", 2, .radians 1, false⟩,
  ⟨"qsystem", "rz", "tket.qsystem.Rz", 1, .radians 1, false⟩,
  ⟨"qsystem", "_phased_x", "tket.qsystem.PhasedX", 1, .rawFloat 2, false⟩,
  ⟨"qsystem", "_zz_phase", "tket.qsystem.ZZPhase", 2, .rawFloat 1, false⟩,
  ⟨"qsystem", "_rz", "tket.qsystem.Rz", 1, .rawFloat 1, false⟩,
  ⟨"qsystem", "measure", "tket.qsystem.Measure", 1, .none, true⟩,
  ⟨"qsystem", "measure_and_reset", "tket.qsystem.MeasureReset", 1, .none, false⟩,
  ⟨"qsystem", "reset", "tket.qsystem.Reset", 1, .none, false⟩,
  ⟨"qsystem", "qfree", "tket.qsystem.QFree", 1, .none, true⟩,
  ⟨"qsystem", "_measure_leaked", "tket.qsystem.LazyMeasureLeaked", 1, .none, true⟩
]

/-- functions documented as a fixed circuit of other gates (stated in `Props/C20.lean`) -/
def decompositions : List (String × String) := [("quantum", "ch"), ("qsystem", "zz_max")]

/-- functions whose bodies are loops / struct constructions: present, not modelled -/
def unmodelled : List (String × String) :=
  [("quantum", "measure_array"), ("quantum", "discard_array"), ("qsystem", "measure_leaked")]

/-- **functional wrappers** (`std/quantum/functional.py`, `std/qsystem/functional.py`: "these gates are the
    same as those in std.quantum / std.qsystem but use functional syntax"): the function of the same
    name in `baseModl`, applied to the arguments in order; qubits are taken `@owned` and returned in
    declaration order, followed by the measured bit where there is one. -/
structure FuncSpec where
  modl : String
  name : String
  baseModl : String
  nq : Nat
  nangles : Nat := 0
  returnsQubits : Bool := true
  bit : Bool := false
  deriving DecidableEq, Repr

def FuncSpec.arity (f : FuncSpec) : Nat := f.nq + f.nangles

def FuncSpec.paramKinds (f : FuncSpec) : List PTy :=
  List.replicate f.nq .qubitOwned ++ List.replicate f.nangles .angle

/-- returned values of `f(σ 0, …)`: the qubits in declaration order, then the bit of the wrapped call -/
def FuncSpec.expectedReturns (f : FuncSpec) (σ : Nat → Exp) : List Exp :=
  (if f.returnsQubits then (List.range f.nq).map σ else []) ++ (if f.bit then [.res 0] else [])

def functional : List FuncSpec := [
  ⟨"quantum.functional", "h", "quantum", 1, 0, true, false⟩,
  ⟨"quantum.functional", "x", "quantum", 1, 0, true, false⟩,
  ⟨"quantum.functional", "y", "quantum", 1, 0, true, false⟩,
  ⟨"quantum.functional", "z", "quantum", 1, 0, true, false⟩,
  ⟨"quantum.functional", "s", "quantum", 1, 0, true, false⟩,
  ⟨"quantum.functional", "sdg", "quantum", 1, 0, true, false⟩,
  ⟨"quantum.functional", "t", "quantum", 1, 0, true, false⟩,
  ⟨"quantum.functional", "tdg", "quantum", 1, 0, true, false⟩,
  ⟨"quantum.functional", "v", "quantum", 1, 0, true, false⟩,
  ⟨"quantum.functional", "vdg", "quantum", 1, 0, true, false⟩,
  ⟨"quantum.functional", "cx", "quantum", 2, 0, true, false⟩,
  ⟨"quantum.functional", "cy", "quantum", 2, 0, true, false⟩,
  ⟨"quantum.functional", "cz", "quantum", 2, 0, true, false⟩,
  ⟨"quantum.functional", "ch", "quantum", 2, 0, true, false⟩,
  ⟨"quantum.functional", "toffoli", "quantum", 3, 0, true, false⟩,
  ⟨"quantum.functional", "rx", "quantum", 1, 1, true, false⟩,
  ⟨"quantum.functional", "ry", "quantum", 1, 1, true, false⟩,
  ⟨"quantum.functional", "rz", "quantum", 1, 1, true, false⟩,
  ⟨"quantum.functional", "crz", "quantum", 2, 1, true, false⟩,
  ⟨"quantum.functional", "reset", "quantum", 1, 0, true, false⟩,
  ⟨"quantum.functional", "project_z", "quantum", 1, 0, true, true⟩,
  ⟨"qsystem.functional", "phased_x", "qsystem", 1, 2, true, false⟩,
  ⟨"qsystem.functional", "zz_phase", "qsystem", 2, 1, true, false⟩,
  ⟨"qsystem.functional", "zz_max", "qsystem", 2, 0, true, false⟩,
  ⟨"qsystem.functional", "rz", "qsystem", 1, 1, true, false⟩,
  ⟨"qsystem.functional", "reset", "qsystem", 1, 0, true, false⟩,
  ⟨"qsystem.functional", "measure_and_reset", "qsystem", 1, 0, true, true⟩,
  ⟨"qsystem.functional", "measure", "qsystem", 1, 0, false, true⟩,
  ⟨"qsystem.functional", "qfree", "qsystem", 1, 0, false, false⟩
]

/-- non-quantum utilities living in the same packages (random numbers, shot number, wasm contexts):
    enumerated so that additions are noticed, not modelled -/
def utilities : List (String × String) :=
  [("qsystem.random", "_new_rng_context"), ("qsystem.random", "make_discrete_distribution"),
   ("qsystem.utils", "get_current_shot"), ("qsystem.wasm", "spawn_wasm_contexts")]

/-- every function the specification knows about -/
def allNames : List (String × String) :=
  gates.map (fun s => (s.modl, s.name)) ++ decompositions ++ unmodelled ++
    functional.map (fun f => (f.modl, f.name)) ++ utilities

end GuppyVerif.Gate.Spec

namespace GuppyVerif.Angle.Spec
open GuppyVerif.Angle

/-- **Denotation of an angle in radians**, stated without reference to the model's `toFloat`:
    `halfturns` half turns are `halfturns / 2` full turns, and a full turn is `2π` radians. -/
def radians {K : Type} [Mul K] [Div K] [OfNat K 2] (π : K) (a : Angle K) : K :=
  a.halfturns / 2 * (2 * π)

end GuppyVerif.Angle.Spec
