import GuppyVerif.Model.Span
/-! Specification vocabulary for C30 (independent of the model's comparison code). -/
namespace GuppyVerif.Span

/-- lexicographic `≤` on positions, stated independently of the model's `Loc.le` -/
def PosLe (l₁ c₁ l₂ c₂ : Nat) : Prop := l₁ < l₂ ∨ (l₁ = l₂ ∧ c₁ ≤ c₂)

/-- what `Span.__post_init__` guarantees -/
def Span.WF (s : Span) : Prop :=
  s.start.file = s.stop.file ∧ PosLe s.start.line s.start.col s.stop.line s.stop.col

/-- the set of locations a span denotes -/
def Mem (l : Loc) (s : Span) : Prop :=
  l.file = s.start.file ∧ PosLe s.start.line s.start.col l.line l.col ∧
    PosLe l.line l.col s.stop.line s.stop.col

end GuppyVerif.Span
