import GuppyVerif.Model.Places
/-! # C07 — specification vocabulary

The reference semantics of a borrowing call `callee(π)` is Python's reference semantics for mutable
objects: afterwards the store is the old store with the sub-object at `π` replaced by what the
callee made of it, and nothing else changed.  On tree-shaped stores this is the lens
`getP`/`putP` of `Model/Places.lean` (defined by recursion on the path, independently of the
borrow/return cascade).  `Disjoint p q`: two paths that part ways at some step (neither is a prefix
of the other), i.e. they name non-overlapping parts of the store. -/
namespace GuppyVerif.Places

/-- the update the caller must observe after `callee(π)` -/
def assignAt (π : List Step) (f : V → V) (x : V) : Option V :=
  match getP π x with
  | none => none
  | some v => putP π (f v) x

/-- `p` and `q` share a prefix and then take different steps -/
def Disjoint (p q : List Step) : Prop :=
  ∃ c a b r1 r2, p = c ++ a :: r1 ∧ q = c ++ b :: r2 ∧ a ≠ b

end GuppyVerif.Places
