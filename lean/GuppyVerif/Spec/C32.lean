import GuppyVerif.Model.C32Coverage
/-! # C32 — specification vocabulary

`semanticFields` is the fixed list, written from Python 3.12's abstract grammar
(https://docs.python.org/3.12/library/ast.html#abstract-grammar), of the (node kind, field)
pairs whose content changes what a Python program means.  Everything the grammar has that is *not*
in this list is in `nonSemanticFields`, with the reason:

* `type_comment` — only populated by `ast.parse(type_comments=True)`, never affects execution;
* `ctx` (Load/Store/Del) — determined by the node's position, redundant;
* `Constant.kind` — the `u` prefix of a string literal, no runtime meaning;
* `AnnAssign.simple` — whether the target was written without parentheses, no runtime meaning
  for the targets Guppy accepts.

`grammar_classified` (Props) proves the two lists cover the regenerated grammar, so a new grammar
field cannot go unnoticed.  The names are constructors of the *generated* enumerations, so a kind or
field that disappears from the grammar makes this file fail to compile. -/
namespace GuppyVerif.C32

def semanticFields : List (Kind × Field) := [
  (.AnnAssign, .f_annotation), (.AnnAssign, .f_target), (.AnnAssign, .f_value), (.Assert, .f_msg), (.Assert,
  .f_test), (.Assign, .f_targets), (.Assign, .f_value), (.AsyncFor, .f_body), (.AsyncFor, .f_iter), (.AsyncFor,
  .f_orelse), (.AsyncFor, .f_target), (.AsyncFunctionDef, .f_args), (.AsyncFunctionDef, .f_body),
  (.AsyncFunctionDef, .f_decorator_list), (.AsyncFunctionDef, .f_name), (.AsyncFunctionDef, .f_returns),
  (.AsyncFunctionDef, .f_type_params), (.AsyncWith, .f_body), (.AsyncWith, .f_items), (.Attribute, .f_attr),
  (.Attribute, .f_value), (.AugAssign, .f_op), (.AugAssign, .f_target), (.AugAssign, .f_value), (.Await,
  .f_value), (.BinOp, .f_left), (.BinOp, .f_op), (.BinOp, .f_right), (.BoolOp, .f_op), (.BoolOp, .f_values),
  (.Call, .f_args), (.Call, .f_func), (.Call, .f_keywords), (.ClassDef, .f_bases), (.ClassDef, .f_body),
  (.ClassDef, .f_decorator_list), (.ClassDef, .f_keywords), (.ClassDef, .f_name), (.ClassDef, .f_type_params),
  (.Compare, .f_comparators), (.Compare, .f_left), (.Compare, .f_ops), (.Constant, .f_value), (.Delete,
  .f_targets), (.Dict, .f_keys), (.Dict, .f_values), (.DictComp, .f_generators), (.DictComp, .f_key),
  (.DictComp, .f_value), (.ExceptHandler, .f_body), (.ExceptHandler, .f_name), (.ExceptHandler, .f_type),
  (.Expr, .f_value), (.For, .f_body), (.For, .f_iter), (.For, .f_orelse), (.For, .f_target), (.FormattedValue,
  .f_conversion), (.FormattedValue, .f_format_spec), (.FormattedValue, .f_value), (.FunctionDef, .f_args),
  (.FunctionDef, .f_body), (.FunctionDef, .f_decorator_list), (.FunctionDef, .f_name), (.FunctionDef,
  .f_returns), (.FunctionDef, .f_type_params), (.GeneratorExp, .f_elt), (.GeneratorExp, .f_generators),
  (.Global, .f_names), (.If, .f_body), (.If, .f_orelse), (.If, .f_test), (.IfExp, .f_body), (.IfExp, .f_orelse),
  (.IfExp, .f_test), (.Import, .f_names), (.ImportFrom, .f_level), (.ImportFrom, .f_module), (.ImportFrom,
  .f_names), (.JoinedStr, .f_values), (.Lambda, .f_args), (.Lambda, .f_body), (.List, .f_elts), (.ListComp,
  .f_elt), (.ListComp, .f_generators), (.Match, .f_cases), (.Match, .f_subject), (.MatchAs, .f_name), (.MatchAs,
  .f_pattern), (.MatchClass, .f_cls), (.MatchClass, .f_kwd_attrs), (.MatchClass, .f_kwd_patterns), (.MatchClass,
  .f_patterns), (.MatchMapping, .f_keys), (.MatchMapping, .f_patterns), (.MatchMapping, .f_rest), (.MatchOr,
  .f_patterns), (.MatchSequence, .f_patterns), (.MatchSingleton, .f_value), (.MatchStar, .f_name), (.MatchValue,
  .f_value), (.Name, .f_id), (.NamedExpr, .f_target), (.NamedExpr, .f_value), (.Nonlocal, .f_names),
  (.ParamSpec, .f_name), (.Raise, .f_cause), (.Raise, .f_exc), (.Return, .f_value), (.Set, .f_elts), (.SetComp,
  .f_elt), (.SetComp, .f_generators), (.Slice, .f_lower), (.Slice, .f_step), (.Slice, .f_upper), (.Starred,
  .f_value), (.Subscript, .f_slice), (.Subscript, .f_value), (.Try, .f_body), (.Try, .f_finalbody), (.Try,
  .f_handlers), (.Try, .f_orelse), (.TryStar, .f_body), (.TryStar, .f_finalbody), (.TryStar, .f_handlers),
  (.TryStar, .f_orelse), (.Tuple, .f_elts), (.TypeAlias, .f_name), (.TypeAlias, .f_type_params), (.TypeAlias,
  .f_value), (.TypeVar, .f_bound), (.TypeVar, .f_name), (.TypeVarTuple, .f_name), (.UnaryOp, .f_op), (.UnaryOp,
  .f_operand), (.While, .f_body), (.While, .f_orelse), (.While, .f_test), (.With, .f_body), (.With, .f_items),
  (.Yield, .f_value), (.YieldFrom, .f_value), (.alias, .f_asname), (.alias, .f_name), (.arg, .f_annotation),
  (.arg, .f_arg), (.arguments, .f_args), (.arguments, .f_defaults), (.arguments, .f_kw_defaults), (.arguments,
  .f_kwarg), (.arguments, .f_kwonlyargs), (.arguments, .f_posonlyargs), (.arguments, .f_vararg),
  (.comprehension, .f_ifs), (.comprehension, .f_is_async), (.comprehension, .f_iter), (.comprehension,
  .f_target), (.keyword, .f_arg), (.keyword, .f_value), (.match_case, .f_body), (.match_case, .f_guard),
  (.match_case, .f_pattern), (.withitem, .f_context_expr), (.withitem, .f_optional_vars)]

def nonSemanticFields : List (Kind × Field) := [
  (.AnnAssign, .f_simple), (.Assign, .f_type_comment), (.AsyncFor, .f_type_comment),
  (.AsyncFunctionDef, .f_type_comment), (.AsyncWith, .f_type_comment), (.Attribute, .f_ctx),
  (.Constant, .f_kind), (.For, .f_type_comment), (.FunctionDef, .f_type_comment), (.List, .f_ctx),
  (.Name, .f_ctx), (.Starred, .f_ctx), (.Subscript, .f_ctx), (.Tuple, .f_ctx), (.With, .f_type_comment),
  (.arg, .f_type_comment)]

/-- Grammar facts linking two fields of one node: the second can only be populated when the first is
    (`kw_defaults` has exactly one entry per keyword-only parameter), so rejecting a populated
    first field rejects every populated second field. -/
def grammarGuard : Kind → Field → Option (Kind × Field)
  | .arguments, .f_kw_defaults => some (.arguments, .f_kwonlyargs)
  | _, _ => none

/-- depth of the longest chain of dispatcher-less kinds in the grammar
    (`arg ← arguments ← FunctionDef`, `pattern ← match_case ← Match`), plus slack -/
def fuel : Nat := 6

/-- The property, for one table: the field is looked at by some stage, or the node / the field /
    every way to reach the node is rejected with a user error — it is not silently dropped. -/
def Covered (T : Tables) (k : Kind) (f : Field) : Prop :=
  disp T fuel k f ≠ .ignored ∨
    ∃ g, grammarGuard k f = some g ∧ (disp T fuel g.1 g.2).blocked = true

/-- Statement kinds whose visitor must hand the statement on to the checker (they carry an expression to be
    evaluated / a definition, and are not turned into control flow by the builder). -/
def valueStatements : List Kind := [.Assign, .AugAssign, .AnnAssign, .Return, .Expr, .FunctionDef, .With]

/-- A value-bearing statement is recorded in its basic block — unconditionally, or dropped only under a
    condition that includes "the value is a compiler temporary" (`is_tmp_var`: the result variable of a
    desugared branching expression, whose evaluation has already been emitted). -/
def recordedOK (recs : List (Kind × RecordHow)) (k : Kind) : Bool :=
  match recs.lookup k with
  | some .always => true
  | some (.guarded atoms) => atoms.contains .tmpVar && !atoms.contains .unanalysable
  | _ => false

/-- A stage that looks at a list-typed field (statement lists, `targets`, `elts`, `args`, `ifs`, …) consumes the whole
    list somewhere — not just one element by constant index or its truth value (`gen.ifs[0]` under `if gen.ifs:` would
    lower the first `if` guard of a comprehension and drop the others). -/
def listReadOK (rs : List (Stage × Kind × Field × ListRead)) (r : Stage × Kind × Field × ListRead) : Bool :=
  rs.any fun q => q.1 = r.1 ∧ q.2.1 = r.2.1 ∧ q.2.2.1 = r.2.2.1 ∧ q.2.2.2 = .whole

/-- executable form of `Covered` -/
def coveredB (T : Tables) (k : Kind) (f : Field) : Bool :=
  decide (disp T fuel k f ≠ .ignored) ||
    match grammarGuard k f with
    | some g => (disp T fuel g.1 g.2).blocked
    | none => false

theorem coveredB_iff (T : Tables) (k : Kind) (f : Field) : coveredB T k f = true ↔ Covered T k f := by
  unfold coveredB Covered
  cases grammarGuard k f with
  | none => simp
  | some g => simp

instance (T : Tables) (k : Kind) (f : Field) : Decidable (Covered T k f) :=
  decidable_of_iff _ (coveredB_iff T k f)

end GuppyVerif.C32
