import GuppyVerif.Model.Print
/-! Specification vocabulary for C31 (independent of the printer's and the reader's code).

  * `normTy` — the type with every `preserve` flag cleared (`preserve` is `compare=False`, so
    `normTy t == t` in Python; `Ty.beq (normTy t) t`).
  * `WFTy W t` — the class `parse_print` quantifies over: first-order types (no function component,
    no existential variable) whose definitions resolve in the environment under their own name, whose
    argument lists are kind-correct (declaratively: `ParamFits`, not the model's `checkAllArgs`), whose
    constant arguments are nat / bool / non-negative finite float values or free constant variables,
    and whose free bound variables are named by the parameter context.
  * `NamesOK`, `IdentLike` — the class `distinct_vars_distinct_names` quantifies over. -/
namespace GuppyVerif.Print

mutual
def normTy : Ty → Ty
  | .num k => .num k
  | .none _ => .none false
  | .bvar n i c d => .bvar n i c d
  | .evar n i c d => .evar n i c d
  | .tuple ts _ => .tuple (normTys ts) false
  | .func ins o ps cs => .func ins o ps cs
  | .opaque n as => .opaque n (normArgs as)
  | .struct n as fs => .struct n (normArgs as) fs
def normTys : List Ty → List Ty
  | [] => []
  | t :: ts => normTy t :: normTys ts
def normArg : Arg → Arg
  | .ty t => .ty (normTy t)
  | .const c => .const c
def normArgs : List Arg → List Arg
  | [] => []
  | a :: as => normArg a :: normArgs as
end

/-- definition environment, parameter context (`param_var_mapping`) and copy/drop classification -/
structure World where
  env : Env
  ctx : Ctx
  cd : Classifier

/-- const parameters of ground type: numeric or `bool` (what Guppy source can declare today) -/
def GroundConstTy (t : Ty) : Prop := (∃ k, t = .num k) ∨ t = boolTy

/-- a float literal `str(float)` prints for a finite non-negative value -/
def PlainFloat (r : String) : Prop := r.toList.head? ≠ some '-' ∧ r ≠ "inf" ∧ r ≠ "nan"

/-- constant arguments that can be written in an annotation -/
def WFConst (W : World) : Const → Prop
  | .val ty v =>
      (ty = .num .nat ∧ ∃ n : Nat, v = .int n) ∨ (ty = boolTy ∧ ∃ b, v = .bool b) ∨
        (ty = .num .float ∧ ∃ r, v = .float r ∧ PlainFloat r)
  | .bvar ty n i => W.env.defs n = none ∧ ∃ fc, W.ctx n = some (.const i n ty fc)
  | .evar .. => False

/-- argument `a` is admissible for parameter `p` (`check_arg`, read declaratively) -/
def ParamFits (cd : Classifier) : Param → Arg → Prop
  | .ty _ _ mc md, .ty t => (mc = true → (cd t).1 = true) ∧ (md = true → (cd t).2 = true)
  | .const _ _ pty _, .const c => GroundConstTy pty ∧ constTy c = pty
  | _, _ => False

def ArgsFit (cd : Classifier) : List Param → List Arg → Prop
  | [], [] => True
  | p :: ps, a :: as => ParamFits cd p a ∧ ArgsFit cd ps as
  | _, _ => False

mutual
def WFTy (W : World) : Ty → Prop
  | .num k => W.env.defs (kindName k) = some (.num k)
  | .none _ => True
  | .bvar n i c d => W.env.defs n = none ∧ W.ctx n = some (.ty i n c d)
  | .evar .. => False
  | .tuple ts _ => WFTys W ts
  | .func .. => False
  | .opaque n as =>
      WFArgs W as ∧
        ∃ ps nc nd il, W.env.defs n = some (.opaque n ps nc nd il) ∧ (il = true → W.env.lists = true) ∧
          ArgsFit W.cd ps as
  | .struct n as fs =>
      WFArgs W as ∧ ∃ ps, W.env.defs n = some (.struct n ps fs) ∧ ArgsFit W.cd ps as
def WFTys (W : World) : List Ty → Prop
  | [] => True
  | t :: ts => WFTy W t ∧ WFTys W ts
def WFArg (W : World) : Arg → Prop
  | .ty t => WFTy W t
  | .const c => WFConst W c
def WFArgs (W : World) : List Arg → Prop
  | [] => True
  | a :: as => WFArg W a ∧ WFArgs W as
end

/-- classification does not look at `preserve` -/
def Classifier.IgnoresPreserve (cd : Classifier) : Prop := ∀ t, cd (normTy t) = cd t

/-! ### names -/
/-- display names never contain the quote the fresh-name scheme appends -/
def NoQuote (s : String) : Prop := '\'' ∉ s.toList

/-- what the tokenizer guarantees about identifiers, as far as the printer's naming scheme cares -/
def IdentLike (s : String) : Prop := NoQuote s ∧ '?' ∉ s.toList

def BodyConst (P : String → Nat → Prop) : Const → Prop
  | .val .. => True
  | .bvar _ n i => P n i
  | .evar _ n _ => IdentLike n

mutual
/-- a rank-1 body: no quantifier inside, existential variables have identifier-like display names,
    every bound-variable occurrence `(name, idx)` satisfies `P` -/
def Body (P : String → Nat → Prop) : Ty → Prop
  | .num _ => True
  | .none _ => True
  | .bvar n i _ _ => P n i
  | .evar n _ _ _ => IdentLike n
  | .tuple ts _ => BodyTys P ts
  | .func ins o ps _ => ps = [] ∧ BodyIns P ins ∧ Body P o
  | .opaque _ as => BodyArgs P as
  | .struct _ as _ => BodyArgs P as
def BodyTys (P : String → Nat → Prop) : List Ty → Prop
  | [] => True
  | t :: ts => Body P t ∧ BodyTys P ts
def BodyArg (P : String → Nat → Prop) : Arg → Prop
  | .ty t => Body P t
  | .const c => BodyConst P c
def BodyArgs (P : String → Nat → Prop) : List Arg → Prop
  | [] => True
  | a :: as => BodyArg P a ∧ BodyArgs P as
def BodyIn (P : String → Nat → Prop) : FuncIn → Prop
  | .mk t _ => Body P t
def BodyIns (P : String → Nat → Prop) : List FuncIn → Prop
  | [] => True
  | i :: is => BodyIn P i ∧ BodyIns P is
end

def paramIdx : Param → Nat
  | .ty i _ _ _ => i
  | .const i _ _ _ => i

def paramTyBody (P : String → Nat → Prop) : Param → Prop
  | .ty .. => True
  | .const _ _ t _ => Body P t

/-- the parameters of a quantifier: identifier-like names, `idx` = position (counted from `k`),
    const-parameter types are bodies -/
def ParamsOK (P : String → Nat → Prop) : Nat → List Param → Prop
  | _, [] => True
  | k, p :: ps => IdentLike (paramName p) ∧ paramIdx p = k ∧ paramTyBody P p ∧ ParamsOK P (k + 1) ps

/-- a non-generic type whose free bound variables are named by a context of pairwise distinct names -/
def OpenOK (ctxNames : List String) (t : Ty) : Prop :=
  ctxNames.Nodup ∧ (∀ s ∈ ctxNames, IdentLike s) ∧ Body (fun n i => ctxNames[i]? = some n) t

/-- the class `distinct_vars_distinct_names` quantifies over: a closed generic function type of rank 1
    (every bound variable refers to one of its own parameters), or a non-generic type over a context -/
def NamesOK (ctxNames : List String) : Ty → Prop
  | .func ins o ps cs =>
      (ps ≠ [] ∧ ParamsOK (fun _ i => i < ps.length) 0 ps ∧ BodyIns (fun _ i => i < ps.length) ins ∧
        Body (fun _ i => i < ps.length) o) ∨ OpenOK ctxNames (.func ins o ps cs)
  | t => OpenOK ctxNames t

end GuppyVerif.Print
