import GuppyVerif.Model.MockBuiltins
/-! Specification vocabulary for C23, independent of the model's dict manipulation.

`denote` is a reader-style reading with *no state*: the user's modules `σ₀` never change;
while some trace of a function of module `j` is in progress (`j ∈ active`), `int`, `float`,
`len` of module `j` are the tracer's mocks, otherwise they are whatever the user bound (or
absent). -/
namespace GuppyVerif.MockBuiltins.Spec

open GuppyVerif.MockBuiltins

/-- a well-formed dict: keys unique, `order` lists exactly the bound names -/
def WF (g : Globals) : Prop :=
  g.order.Nodup ∧ ∀ n, n ∈ g.order ↔ (g.val n).isSome = true

def view (σ₀ : Mods) (active : List Nat) (j : Nat) (n : Name) : Option Val :=
  if j ∈ active then some (.mock n) else (σ₀ j).val n

def observe (K : Nat) (σ₀ : Mods) (active : List Nat) : Obs :=
  (List.range K).map fun j => [view σ₀ active j .int, view σ₀ active j .float, view σ₀ active j .len]

def denote (K : Nat) (σ₀ : Mods) : List Nat → Prog → List Obs × Bool
  | _, .skip => ([], false)
  | act, .seq p q =>
    match denote K σ₀ act p with
    | (t, true) => (t, true)
    | (t, false) => let (u, r) := denote K σ₀ act q; (t ++ u, r)
  | act, .probe => ([observe K σ₀ act], false)
  | _, .raise => ([], true)
  | act, .trace m body retOk =>
    let (t, r) := denote K σ₀ (m :: act) body
    (t, r || !retOk)
  | act, .catch p => ((denote K σ₀ act p).1, false)

end GuppyVerif.MockBuiltins.Spec
