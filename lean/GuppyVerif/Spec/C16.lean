import GuppyVerif.Model.Coerce
/-! Specification vocabulary for C16, independent of the rule in the code: the widening relation of the
    statement written out as its three pairs. -/
namespace GuppyVerif.Coerce
open GuppyVerif.IntLit (Kind)

/-- "only in the widening direction nat → int → float" -/
def Widening (act exp : Kind) : Prop :=
  (act = .nat ∧ exp = .int) ∨ (act = .nat ∧ exp = .float) ∨ (act = .int ∧ exp = .float)

instance (a e : Kind) : Decidable (Widening a e) := by unfold Widening; infer_instance

/-- a narrowing use: the expected kind is strictly below the actual one -/
def Narrowing (act exp : Kind) : Prop := Widening exp act

instance (a e : Kind) : Decidable (Narrowing a e) := by unfold Narrowing; infer_instance

end GuppyVerif.Coerce
