import GuppyVerif.Model.FeatureGate
/-! Specification vocabulary for C33, independent of the model's object mechanics.

* `Spec.run` — a *scoping* interpreter with no manager objects at all: a `with` block runs
  its body under the block's setting and afterwards the flag is, by fiat, the value it had
  before the block (the body's final flag is discarded); bare calls are plain assignments.
  Saved values of kept objects are a function `Nat → Option Bool`.
* `Spec.lex` (and `isInline`) — for programs that use only `with <new object>:` blocks (no bare calls, no
  kept objects) the gate is *lexically scoped*: a reader-style interpreter that passes the
  ambient setting downwards only and threads no state at all. -/
namespace GuppyVerif.FeatureGate.Spec

open GuppyVerif.FeatureGate

/-- verdict of a gated check under setting `b` -/
def verdict (f : Feature) (b : Bool) : Obs :=
  match b with
  | true => .accept f
  | false => .reject f (errClass f)

structure Out where
  trace : List Obs
  flag : Bool
  saved : Nat → Option Bool
  raised : Bool

def upd (sv : Nat → Option Bool) (x : Nat) (b : Bool) : Nat → Option Bool :=
  fun y => if y = x then some b else sv y

def run : Prog → Bool → (Nat → Option Bool) → Out
  | .skip, b, sv => ⟨[], b, sv, false⟩
  | .seq p q, b, sv =>
    let o₁ := run p b sv
    match o₁.raised with
    | true => o₁
    | false =>
      let o₂ := run q o₁.flag o₁.saved
      ⟨o₁.trace ++ o₂.trace, o₂.flag, o₂.saved, o₂.raised⟩
  | .call k, _, sv => ⟨[.flag k.target], k.target, sv, false⟩
  | .withNew k body, b, sv =>
    let o := run body k.target sv
    ⟨o.trace ++ [.flag b], b, o.saved, o.raised⟩
  | .bind x k, b, sv => ⟨[.flag k.target], k.target, upd sv x b, false⟩
  | .withVar x body, b, sv =>
    match sv x with
    | none => ⟨[.flag b], b, sv, true⟩
    | some old =>
      let o := run body b sv
      ⟨o.trace ++ [.flag old], old, o.saved, o.raised⟩
  | .check f, b, sv => ⟨[verdict f b, .flag b], b, sv, false⟩
  | .raise, b, sv => ⟨[.flag b], b, sv, true⟩
  | .tryCatch body, b, sv =>
    let o := run body b sv
    ⟨o.trace ++ [.flag o.flag], o.flag, o.saved, false⟩

/-- programs built from `with <new object>:` blocks only -/
def isInline : Prog → Bool
  | .skip => true
  | .seq p q => isInline p && isInline q
  | .call _ => false
  | .withNew _ body => isInline body
  | .bind _ _ => false
  | .withVar _ _ => false
  | .check _ => true
  | .raise => true
  | .tryCatch body => isInline body

/-- lexical reading: `amb` is the setting of the innermost enclosing block (or the initial
    setting); returns the observations and whether an exception escapes.  No state. -/
def lex (amb : Bool) : Prog → List Obs × Bool
  | .skip => ([], false)
  | .seq p q =>
    match lex amb p with
    | (t, true) => (t, true)
    | (t, false) => let (u, r) := lex amb q; (t ++ u, r)
  | .withNew k body => let (t, r) := lex k.target body; (t ++ [.flag amb], r)
  | .check f => ([verdict f amb, .flag amb], false)
  | .raise => ([.flag amb], true)
  | .tryCatch body => let (t, _) := lex amb body; (t ++ [.flag amb], false)
  | .call _ => ([], false)
  | .bind _ _ => ([], false)
  | .withVar _ _ => ([], false)

/-- abstraction of the model's environment of kept objects -/
def savedOf (env : List (Nat × Obj)) : Nat → Option Bool :=
  fun x => (lookup x env).map (·.original)

end GuppyVerif.FeatureGate.Spec
