import GuppyVerif.Model.ArraySem
/-! # C19 — specification vocabulary: Python list semantics restricted to non-negative indices

Independent of the op-list language and of the emission functions: plain lists, `List.set`,
`List.take` / `List.drop` slices. -/
namespace GuppyVerif.ArraySem.Spec

/-- a Guppy `int` value (64-bit signed) -/
def IsI64 (i : Int) : Prop := -(2 ^ 63 : Int) ≤ i ∧ i < 2 ^ 63

/-- the index is acceptable for a list of length `n` (the statement's `0 <= i < n`) -/
def InRange (n : Nat) (i : Int) : Prop := 0 ≤ i ∧ i < (n : Int)

instance (n : Nat) (i : Int) : Decidable (InRange n i) := by unfold InRange; exact inferInstance

/-- reads and writes of a classical array, as a Python program would perform them on a list -/
inductive AOp (α : Type) where
  | read (i : Int)
  | write (i : Int) (v : α)

/-- Python's `xs[i]` / `xs[i] = v` on a list, restricted to non-negative indices: `none` models
    the required panic (IndexError, or a negative index); reads are logged -/
def pyStep {α} (st : List α × List α) : AOp α → Option (List α × List α)
  | .read i => if h : 0 ≤ i ∧ i.toNat < st.1.length then some (st.1, st.2 ++ [st.1[i.toNat]'h.2]) else none
  | .write i v => if 0 ≤ i ∧ i.toNat < st.1.length then some (st.1.set i.toNat v, st.2) else none

def pyRun {α} : List α × List α → List (AOp α) → Option (List α × List α)
  | st, [] => some st
  | st, o :: os => match pyStep st o with
    | none => none
    | some st' => pyRun st' os

/-- Python's `l0, …, *mid, r0, … = xs` with `l` left and `r` right targets -/
def pyUnpack {α} (xs : List α) (l r : Nat) : List α × List α × List α :=
  (xs.take l, (xs.drop l).take (xs.length - l - r), xs.drop (xs.length - r))

/-- reference model for linear arrays: a Python list plus a "lent" flag per position -/
structure Ref (α : Type) where
  vals : List α
  lent : List Bool
  deriving DecidableEq, Repr

def Ref.cells (r : Ref α) : Cells α :=
  List.zipWith (fun v b => if b then none else some v) r.vals r.lent

def Ref.WF (r : Ref α) : Prop := r.vals.length = r.lent.length

inductive LOp (α : Type) where
  | lend (i : Int)
  | giveBack (i : Int) (v : α)

def LOp.idx : LOp α → Int
  | .lend i => i
  | .giveBack i _ => i

/-- one step on the reference model; `none` = the operation must panic -/
def refStep (st : Ref α × List α) : LOp α → Option (Ref α × List α)
  | .lend i =>
    if h : 0 ≤ i ∧ i.toNat < st.1.vals.length then
      if st.1.lent[i.toNat]? = some false then
        some (⟨st.1.vals, st.1.lent.set i.toNat true⟩, st.2 ++ [st.1.vals[i.toNat]'h.2])
      else none
    else none
  | .giveBack i v =>
    if 0 ≤ i ∧ i.toNat < st.1.vals.length then
      if st.1.lent[i.toNat]? = some true then
        some (⟨st.1.vals.set i.toNat v, st.1.lent.set i.toNat false⟩, st.2)
      else none
    else none

def refRun : Ref α × List α → List (LOp α) → Option (Ref α × List α)
  | st, [] => some st
  | st, o :: os => match refStep st o with
    | none => none
    | some st' => refRun st' os


end GuppyVerif.ArraySem.Spec
