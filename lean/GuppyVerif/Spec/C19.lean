import GuppyVerif.Model.ArraySem
/-! # C19 — specification vocabulary: Python list semantics restricted to non-negative indices

Independent of the op-list language and of the emission functions: plain lists, `List.set`,
`List.take` / `List.drop` slices. -/
namespace GuppyVerif.ArraySem.Spec

/-- a Guppy `int` value (64-bit signed) -/
def IsI64 (i : Int) : Prop := -(2 ^ 63 : Int) ≤ i ∧ i < 2 ^ 63

/-- the index is acceptable for a list of length `n` (the statement's `0 <= i < n`) -/
def InRange (n : Nat) (i : Int) : Prop := 0 ≤ i ∧ i < (n : Int)

instance (n : Nat) (i : Int) : Decidable (InRange n i) := by unfold InRange; exact inferInstance

/-- reads and writes of a classical array, as a Python program would perform them on a list -/
inductive AOp (α : Type) where
  | read (i : Int)
  | write (i : Int) (v : α)

/-- Python's `xs[i]` / `xs[i] = v` on a list, restricted to non-negative indices: `none` models
    the required panic (IndexError, or a negative index); reads are logged -/
def pyStep {α} (st : List α × List α) : AOp α → Option (List α × List α)
  | .read i => if h : 0 ≤ i ∧ i.toNat < st.1.length then some (st.1, st.2 ++ [st.1[i.toNat]'h.2]) else none
  | .write i v => if 0 ≤ i ∧ i.toNat < st.1.length then some (st.1.set i.toNat v, st.2) else none

def pyRun {α} : List α × List α → List (AOp α) → Option (List α × List α)
  | st, [] => some st
  | st, o :: os => match pyStep st o with
    | none => none
    | some st' => pyRun st' os

/-- Python's `l0, …, *mid, r0, … = xs` with `l` left and `r` right targets -/
def pyUnpack {α} (xs : List α) (l r : Nat) : List α × List α × List α :=
  (xs.take l, (xs.drop l).take (xs.length - l - r), xs.drop (xs.length - r))

end GuppyVerif.ArraySem.Spec
