import GuppyVerif.Model.Unify
/-! Specification vocabulary for C12: what it means for an assignment to solve a (triangular)
    substitution, identity of terms up to ownership flags, acyclicity.  None of this refers to the code of
    `unify`; it only uses the data model (`Tm`, `lookup`, `inst`, `Tm.vars`). -/
namespace GuppyVerif.Unify

/-- forget the ownership flags of a function head (the number of inputs is kept) -/
def eraseH : Head → Head
  | .func fl p => .func (List.replicate fl.length 0) p
  | h => h

mutual
def erase : Tm → Tm
  | .var v => .var v
  | .atom a => .atom a
  | .node h as => .node (eraseH h) (eraseList as)
  | .targ t => .targ (erase t)
  | .carg c => .carg (erase c)
def eraseList : List Tm → List Tm
  | [] => []
  | a :: as => erase a :: eraseList as
end

/-- identical up to ownership flags of function inputs -/
def FlagEq (s t : Tm) : Prop := erase s = erase t

/-- `θ` (a total assignment, applied once) is a solution of the equations `v ≐ σ(v)` recorded in `σ` -/
def Solves (θ : V → Tm) (σ : Subst) : Prop :=
  ∀ v u, lookup σ v = some u → FlagEq (θ v) (inst θ u)

/-- `θ` unifies `s` and `t` -/
def Unifies (θ : V → Tm) (s t : Tm) : Prop := FlagEq (inst θ s) (inst θ t)

/-- every binding of `σ` is a binding of `σ'` -/
def Extends (σ σ' : Subst) : Prop := ∀ v u, lookup σ v = some u → lookup σ' v = some u

/-- consistent prior = triangular substitution without cycles: there is a rank on variables that
    strictly decreases from a bound variable to the variables of its image -/
def Acyclic (σ : Subst) : Prop :=
  ∃ r : V → Nat, ∀ v u, lookup σ v = some u → ∀ y ∈ u.vars, r y < r v

/-- no variable of `t` is bound by `σ`: applying `σ` changes nothing -/
def Saturated (σ : Subst) (t : Tm) : Prop := ∀ y ∈ t.vars, lookup σ y = none

/-- the assignment obtained by `n` passes of `σ` -/
def passes (σ : Subst) (n : Nat) : V → Tm := fun v => applyN σ n (.var v)

mutual
/-- well-sorted term (what Python's static types guarantee): a proper type or constant is never a bare
    argument wrapper, and the arguments of a parametrised type are `TypeArg`/`ConstArg` wrappers -/
def Tm.wf : Tm → Bool
  | .var _ => true
  | .atom _ => true
  | .node _ as => wfArgs as
  | .targ _ => false
  | .carg _ => false
def wfArgs : List Tm → Bool
  | [] => true
  | .targ x :: as => x.wf && wfArgs as
  | .carg x :: as => x.wf && wfArgs as
  | _ :: _ => false
end

/-- every image of the substitution is well-sorted -/
def WfSubst (σ : Subst) : Prop := ∀ v u, lookup σ v = some u → u.wf = true

/-- the ownership-flag rule is vacuous: nothing is linear -/
def NoLinear (E : Env) : Prop := ∀ t, linear E t = false

end GuppyVerif.Unify
