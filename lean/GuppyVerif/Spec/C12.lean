import GuppyVerif.Model.Unify
/-! Specification vocabulary for C12: what it means for an assignment to solve a (triangular)
    substitution, identity of terms up to ownership flags, acyclicity.  None of this refers to the code of
    `unify`; it only uses the data model (`Tm`, `lookup`, `inst`, `Tm.vars`). -/
namespace GuppyVerif.Unify

/-- forget the ownership flags of a function head (the number of inputs is kept) -/
def eraseH : Head → Head
  | .func fl p => .func (List.replicate fl.length 0) p
  | h => h

mutual
def erase : Tm → Tm
  | .var v => .var v
  | .atom a => .atom a
  | .node h as => .node (eraseH h) (eraseList as)
  | .targ t => .targ (erase t)
  | .carg c => .carg (erase c)
def eraseList : List Tm → List Tm
  | [] => []
  | a :: as => erase a :: eraseList as
end

/-- identical up to ownership flags of function inputs -/
def FlagEq (s t : Tm) : Prop := erase s = erase t

/-- `θ` (a total assignment, applied once) is a solution of the equations `v ≐ σ(v)` recorded in `σ` -/
def Solves (θ : V → Tm) (σ : Subst) : Prop :=
  ∀ v u, lookup σ v = some u → FlagEq (θ v) (inst θ u)

/-- `θ` unifies `s` and `t` -/
def Unifies (θ : V → Tm) (s t : Tm) : Prop := FlagEq (inst θ s) (inst θ t)

/-- exact versions (ownership flags included) -/
def SolvesX (θ : V → Tm) (σ : Subst) : Prop := ∀ v u, lookup σ v = some u → θ v = inst θ u
def UnifiesX (θ : V → Tm) (s t : Tm) : Prop := inst θ s = inst θ t

/-- every binding of `σ` is a binding of `σ'` -/
def Extends (σ σ' : Subst) : Prop := ∀ v u, lookup σ v = some u → lookup σ' v = some u

/-- consistent prior = triangular substitution without cycles: there is a rank on variables that
    strictly decreases from a bound variable to the variables of its image -/
def Acyclic (σ : Subst) : Prop :=
  ∃ r : V → Nat, ∀ v u, lookup σ v = some u → ∀ y ∈ u.vars, r y < r v

/-- no variable of `t` is bound by `σ`: applying `σ` changes nothing -/
def Saturated (σ : Subst) (t : Tm) : Prop := ∀ y ∈ t.vars, lookup σ y = none

/-- the assignment obtained by `n` passes of `σ` -/
def passes (σ : Subst) (n : Nat) : V → Tm := fun v => applyN σ n (.var v)

mutual
/-- well-sorted term (what Python's static types guarantee): a proper type or constant is never a bare
    argument wrapper, and the arguments of a parametrised type are `TypeArg`/`ConstArg` wrappers -/
def Tm.wf : Tm → Bool
  | .var _ => true
  | .atom _ => true
  | .node _ as => wfArgs as
  | .targ _ => false
  | .carg _ => false
def wfArgs : List Tm → Bool
  | [] => true
  | .targ x :: as => x.wf && wfArgs as
  | .carg x :: as => x.wf && wfArgs as
  | _ :: _ => false
end

/-- every image of the substitution is well-sorted -/
def WfSubst (σ : Subst) : Prop := ∀ v u, lookup σ v = some u → u.wf = true

/-- keep the ownership flag of a function input only if the input's type is linear -/
def normFlags (E : Env) : List Nat → List Tm → List Nat
  | f :: fs, a :: as => (if linear E a then f else 0) :: normFlags E fs as
  | _ :: fs, [] => 0 :: normFlags E fs []
  | [], _ => []

def normH (E : Env) : Head → List Tm → Head
  | .func fl p, as => .func (normFlags E fl as) p
  | h, _ => h

mutual
/-- normal form for the property's literal notion of "identical": flags of non-linear inputs are forgotten,
    flags of linear inputs are kept -/
def norm (E : Env) : Tm → Tm
  | .var v => .var v
  | .atom a => .atom a
  | .node h as => .node (normH E h as) (normList E as)
  | .targ t => .targ (norm E t)
  | .carg c => .carg (norm E c)
def normList (E : Env) : List Tm → List Tm
  | [] => []
  | a :: as => norm E a :: normList E as
end

/-- the property's literal "identical": equal, except that the ownership flags of a function input may
    differ when that input's type is not linear -/
def LinEq (E : Env) (s t : Tm) : Prop := norm E s = norm E t

def SolvesL (E : Env) (θ : V → Tm) (σ : Subst) : Prop :=
  ∀ v u, lookup σ v = some u → LinEq E (θ v) (inst θ u)
def UnifiesL (E : Env) (θ : V → Tm) (s t : Tm) : Prop := LinEq E (inst θ s) (inst θ t)

/-- the assignment does not change which types are linear (e.g. it maps every variable to a type with
    exactly the variable's declared copy/drop capabilities) -/
def LinInv (E : Env) (θ : V → Tm) : Prop := ∀ x, linear E (inst θ x) = linear E x

/-- the ownership-flag rule is vacuous: nothing is linear -/
def NoLinear (E : Env) : Prop := ∀ t, linear E t = false

end GuppyVerif.Unify
