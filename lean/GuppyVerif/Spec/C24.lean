import GuppyVerif.Model.Unitary
/-! Specification vocabulary for C24, independent of the checker's traversal code:
    occurrence relations over the syntax tree that carry the flags required at each position
    (the union of the flags of all enclosing contexts), and flag inclusion by quantifying over
    the three flag kinds. -/
namespace GuppyVerif.Unitary

/-- The three individual requirements a context can impose. -/
inductive FlagKind where
  | control | dagger | power
  deriving DecidableEq, Repr

def Flags.has (f : Flags) : FlagKind → Bool
  | .control => f.control
  | .dagger => f.dagger
  | .power => f.power

/-- "the callee's flags include every flag the context requires" -/
def Flags.Includes (callee ctx : Flags) : Prop := ∀ k, ctx.has k = true → callee.has k = true

/-- membership in an argument list -/
inductive Args.Mem : Expr → Args → Prop where
  | head {e r} : Args.Mem e (.cons e r)
  | tail {e e' r} : Args.Mem e r → Args.Mem e (.cons e' r)

/-- `Sub x e`: the node `x` occurs in expression `e` — as `e` itself, as an argument of a
    call at any depth, inside an index expression of a subscripted place, or below any other node.  `barrier` / `state_result` nodes are
    opaque (they are the excepted operations). -/
inductive Sub : Expr → Expr → Prop where
  | refl {e} : Sub e e
  | call {x a g args r} : Args.Mem a args → Sub x a → Sub x (.call g args r)
  | node {x a cs q} : Args.Mem a cs → Sub x a → Sub x (.node cs q)
  /-- inside an index expression of a subscripted place -/
  | idx {x a q is} : Args.Mem a is → Sub x a → Sub x (.place q is)

mutual
/-- `SiteS F s F' e`: when statement `s` stands in a context requiring `F`, `e` is an
    expression position of `s` — the statement's own expression, an assigned value or assignment target, an
    `if` / `while` condition, a control argument of a nested `with`, or a position of a nested
    statement — and `F'` is what is required there: `F` plus the flags of every `with` block
    entered on the way. -/
inductive SiteS : Flags → Stmt → Flags → Expr → Prop where
  | expr {F e} : SiteS F (.expr e) F e
  | assign {F t e} : SiteS F (.assign t (some e)) F e
  | assignT {F t v} : SiteS F (.assign t v) F t
  | iteC {F c t f} : SiteS F (.ite c t f) F c
  | iteT {F F' e c t f} : SiteB F t F' e → SiteS F (.ite c t f) F' e
  | iteF {F F' e c t f} : SiteB F f F' e → SiteS F (.ite c t f) F' e
  | whileC {F c b} : SiteS F (.while c b) F c
  | whileB {F F' e c b} : SiteB F b F' e → SiteS F (.while c b) F' e
  | withArg {F e cargs G b} : Args.Mem e cargs → SiteS F (.withBlock cargs G b) F e
  | withBody {F F' e cargs G b} : SiteB (F.or G) b F' e → SiteS F (.withBlock cargs G b) F' e
inductive SiteB : Flags → Block → Flags → Expr → Prop where
  | head {F F' e s r} : SiteS F s F' e → SiteB F (.cons s r) F' e
  | tail {F F' e s r} : SiteB F r F' e → SiteB F (.cons s r) F' e
end

mutual
/-- a loop statement occurs at a position where `F'` is required -/
inductive LoopAtS : Flags → Stmt → Flags → Prop where
  | here {F c b} : LoopAtS F (.while c b) F
  | whileB {F F' c b} : LoopAtB F b F' → LoopAtS F (.while c b) F'
  | iteT {F F' c t f} : LoopAtB F t F' → LoopAtS F (.ite c t f) F'
  | iteF {F F' c t f} : LoopAtB F f F' → LoopAtS F (.ite c t f) F'
  | withBody {F F' cargs G b} : LoopAtB (F.or G) b F' → LoopAtS F (.withBlock cargs G b) F'
inductive LoopAtB : Flags → Block → Flags → Prop where
  | head {F F' s r} : LoopAtS F s F' → LoopAtB F (.cons s r) F'
  | tail {F F' s r} : LoopAtB F r F' → LoopAtB F (.cons s r) F'
end

mutual
/-- an assignment occurs at a position where `F'` is required -/
inductive AssignAtS : Flags → Stmt → Flags → Prop where
  | here {F t v} : AssignAtS F (.assign t v) F
  | whileB {F F' c b} : AssignAtB F b F' → AssignAtS F (.while c b) F'
  | iteT {F F' c t f} : AssignAtB F t F' → AssignAtS F (.ite c t f) F'
  | iteF {F F' c t f} : AssignAtB F f F' → AssignAtS F (.ite c t f) F'
  | withBody {F F' cargs G b} : AssignAtB (F.or G) b F' → AssignAtS F (.withBlock cargs G b) F'
inductive AssignAtB : Flags → Block → Flags → Prop where
  | head {F F' s r} : AssignAtS F s F' → AssignAtB F (.cons s r) F'
  | tail {F F' s r} : AssignAtB F r F' → AssignAtB F (.cons s r) F'
end

/-- some argument of the call carries a qubit -/
def Args.PassesQubit (args : Args) : Prop := ∃ a, Args.Mem a args ∧ a.hasQubit = true

/-- What makes one expression position bad when `F` is required there: a call occurring in
    it passes a qubit-containing argument to a callee whose flags do not include every
    required flag, or (dagger) a subscripted place occurs in it. -/
def BadE (F : Flags) (e : Expr) : Prop :=
  (∃ g args r, Sub (.call g args r) e ∧ args.PassesQubit ∧ ¬ g.Includes F) ∨
    (F.dagger = true ∧ ∃ q is, is.isNil = false ∧ Sub (.place q is) e)

/-- The statement of C24: what must be rejected, for a block standing in a context that
    requires `F`.  Some expression position anywhere in the block is bad for the flags
    required *there*; or a loop or an assignment stands where dagger is required. -/
def Violates (F : Flags) (b : Block) : Prop :=
  (∃ F' e, SiteB F b F' e ∧ BadE F' e) ∨
    (∃ F', F'.dagger = true ∧ (LoopAtB F b F' ∨ AssignAtB F b F'))

end GuppyVerif.Unitary
