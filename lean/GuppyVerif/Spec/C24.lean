import GuppyVerif.Model.Unitary
/-! Specification vocabulary for C24, independent of the checker's traversal code:
    occurrence relations over the syntax tree, and flag inclusion by quantifying over
    the three flag kinds. -/
namespace GuppyVerif.Unitary

/-- The three individual requirements a context can impose. -/
inductive FlagKind where
  | control | dagger | power
  deriving DecidableEq, Repr

def Flags.has (f : Flags) : FlagKind → Bool
  | .control => f.control
  | .dagger => f.dagger
  | .power => f.power

/-- "the callee's flags include every flag the context requires" -/
def Flags.Includes (callee ctx : Flags) : Prop := ∀ k, ctx.has k = true → callee.has k = true

/-- membership in an argument list -/
inductive Args.Mem : Expr → Args → Prop where
  | head {e r} : Args.Mem e (.cons e r)
  | tail {e e' r} : Args.Mem e r → Args.Mem e (.cons e' r)

/-- `Sub x e`: the node `x` occurs in expression `e` — as `e` itself, as an argument of a
    call at any depth, or below any other node.  `barrier` / `state_result` nodes are
    opaque (they are the excepted operations). -/
inductive Sub : Expr → Expr → Prop where
  | refl {e} : Sub e e
  | call {x a g args r} : Args.Mem a args → Sub x a → Sub x (.call g args r)
  | node {x a cs q} : Args.Mem a cs → Sub x a → Sub x (.node cs q)

mutual
/-- `SiteS e s`: `e` is an expression position of statement `s`: the statement's own
    expression, an assigned value, an `if` / `while` condition, or a position of a nested
    statement. -/
inductive SiteS : Expr → Stmt → Prop where
  | expr {e} : SiteS e (.expr e)
  | assign {e} : SiteS e (.assign (some e))
  | iteC {c t f} : SiteS c (.ite c t f)
  | iteT {e c t f} : SiteB e t → SiteS e (.ite c t f)
  | iteF {e c t f} : SiteB e f → SiteS e (.ite c t f)
  | whileC {c b} : SiteS c (.while c b)
  | whileB {e c b} : SiteB e b → SiteS e (.while c b)
inductive SiteB : Expr → Block → Prop where
  | head {e s r} : SiteS e s → SiteB e (.cons s r)
  | tail {e s r} : SiteB e r → SiteB e (.cons s r)
end

mutual
inductive LoopInS : Stmt → Prop where
  | here {c b} : LoopInS (.while c b)
  | iteT {c t f} : LoopInB t → LoopInS (.ite c t f)
  | iteF {c t f} : LoopInB f → LoopInS (.ite c t f)
inductive LoopInB : Block → Prop where
  | head {s r} : LoopInS s → LoopInB (.cons s r)
  | tail {s r} : LoopInB r → LoopInB (.cons s r)
end

mutual
inductive AssignInS : Stmt → Prop where
  | here {v} : AssignInS (.assign v)
  | iteT {c t f} : AssignInB t → AssignInS (.ite c t f)
  | iteF {c t f} : AssignInB f → AssignInS (.ite c t f)
  | whileB {c b} : AssignInB b → AssignInS (.while c b)
inductive AssignInB : Block → Prop where
  | head {s r} : AssignInS s → AssignInB (.cons s r)
  | tail {s r} : AssignInB r → AssignInB (.cons s r)
end

/-- some argument of the call carries a qubit -/
def Args.PassesQubit (args : Args) : Prop := ∃ a, Args.Mem a args ∧ a.hasQubit = true

/-- A call occurring anywhere in the block passes a qubit-containing argument to a callee
    whose flags do not include every flag of the context. -/
def BadCall (F : Flags) (b : Block) : Prop :=
  ∃ e g args r, SiteB e b ∧ Sub (.call g args r) e ∧ args.PassesQubit ∧ ¬ g.Includes F

/-- A subscripted place occurs anywhere in the block. -/
def SubscriptIn (b : Block) : Prop := ∃ e q, SiteB e b ∧ Sub (.place q true) e

/-- The statement of C24: what must be rejected. -/
def Violates (F : Flags) (b : Block) : Prop :=
  BadCall F b ∨ (F.dagger = true ∧ (LoopInB b ∨ AssignInB b ∨ SubscriptIn b))

end GuppyVerif.Unitary
