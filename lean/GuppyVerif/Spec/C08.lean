import GuppyVerif.Model.UseDef
import GuppyVerif.Spec.C09
/-! Specification vocabulary for C08. -/
namespace GuppyVerif.UseDef
open GuppyVerif.Dataflow

def UCfg.argNames (U : UCfg) : List Var := U.args.map (·.1)

/-- `x` is read on some control-flow path from the entry (real or dummy edges, branch
    conditions ignored) before any assignment, and it is not a parameter; it is a local
    (assigned somewhere in the function — then no global of that name can stand in, as in
    Python) or it is no global either. -/
def Undef (U : UCfg) (x : Var) : Prop :=
  x ∉ U.argNames ∧ (x ∈ U.assignedSomewhere ∨ x ∉ U.globals) ∧ LivePath U.cfg x U.entry

/-- what the caller of `check_cfg` guarantees about the graph -/
structure UCfg.WF (U : UCfg) : Prop where
  cfg : U.cfg.WF
  entry_mem : U.entry ∈ U.blocks
  entry_root : U.pred U.entry ++ U.dpred U.entry = []

/-- what C09 proves about the analysis results handed to the checker -/
structure AnaOK (U : UCfg) (A : Ana) : Prop where
  live : ∀ b ∈ U.blocks, ∀ x, x ∈ A.live b ↔ LivePath U.cfg x b
  defass : ∀ x, x ∈ A.defass U.entry ↔ x ∈ U.argNames

/-- last type assigned to `x` by a block's statements -/
def lastAsg (x : Var) : List Ev → Option Ty
  | [] => none
  | .use _ :: es => lastAsg x es
  | .asg y t :: es => match lastAsg x es with
    | some t' => some t'
    | none => if x = y then some t else none

/-- type of `x` after a block, given its type (if any) before -/
def exitTy (es : List Ev) (o : Option Ty) (x : Var) : Option Ty :=
  match lastAsg x es with
  | some t => some t
  | none => o

/-- `TyAt U x b o`: some path from the entry to `b` along control-flow edges (real ones and
    the never-taken dummy ones, exactly the edges of `LivePath`) gives `x` the type `o` on arrival at `b`
    (`none` = not assigned on that path). -/
inductive TyAt (U : UCfg) (x : Var) : Blk → Option Ty → Prop
  | entry : TyAt U x U.entry (lookup x U.args)
  | edge {p s : Blk} {o : Option Ty} : TyAt U x p o →
      s ∈ U.succ p ++ U.dsucc p → TyAt U x s (exitTy (U.events p) o x)

/-- `x` may hold different types on different incoming paths of `b` and is read afterwards -/
def TypeConflict (U : UCfg) (x : Var) : Prop :=
  ∃ b t₁ t₂, t₁ ≠ t₂ ∧ TyAt U x b (some t₁) ∧ TyAt U x b (some t₂) ∧ LivePath U.cfg x b

/-- reachable from the entry over real edges -/
inductive RealReach (U : UCfg) : Blk → Prop
  | entry : RealReach U U.entry
  | step {p s : Blk} : RealReach U p → s ∈ U.succ p → RealReach U s

/-- What `CFGBuilder.build`'s pruning establishes: every edge into a really reachable block is a real edge
    out of a really reachable block (jumps from unreachable code back into reachable code are removed, and
    so are dummy jumps into reachable blocks). -/
def Pruned (U : UCfg) : Prop :=
  ∀ p s, s ∈ U.succ p ++ U.dsucc p → RealReach U s → RealReach U p ∧ s ∈ U.succ p

/-- `TyAt` along real edges only: a path the program can actually take (branch conditions ignored) -/
inductive TyAtReal (U : UCfg) (x : Var) : Blk → Option Ty → Prop
  | entry : TyAtReal U x U.entry (lookup x U.args)
  | edge {p s : Blk} {o : Option Ty} : TyAtReal U x p o → s ∈ U.succ p →
      TyAtReal U x s (exitTy (U.events p) o x)


/-- `LivePath` along real edges only -/
inductive LivePathReal (U : UCfg) (x : Var) : Blk → Prop
  | use {b : Blk} : x ∈ U.cfg.used b → LivePathReal U x b
  | step {b c : Blk} : x ∉ U.cfg.assigned b → c ∈ U.succ b → LivePathReal U x c → LivePathReal U x b

/-- some unreachable block reads `x` (before assigning it) -/
def DeadRead (U : UCfg) (x : Var) : Prop := ∃ d, ¬ RealReach U d ∧ x ∈ U.cfg.used d

end GuppyVerif.UseDef
