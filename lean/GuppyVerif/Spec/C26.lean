import GuppyVerif.Model.Pytket
/-! Specification vocabulary for C26, independent of the model's wiring code:
    the lexicographic order on unit ids, *rank* (= how many elements are smaller), the position of
    an array element in the flattened argument list, and what "a stub matches the circuit's
    shape" means pointwise. -/
namespace GuppyVerif.Pytket

/-- lexicographic order on unit ids: register name first, then the index vector
    (`<` on `String` and on `List Nat` are the lexicographic orders of core Lean) -/
def UnitLt (a b : UnitId) : Prop :=
  a.name < b.name ∨ (a.name = b.name ∧ a.index < b.index)

instance : DecidableRel UnitLt := fun a b => by unfold UnitLt; exact inferInstance

/-- rank of a unit among `l`: the number of units of `l` that are smaller -/
def unitRank (l : List UnitId) (u : UnitId) : Nat := l.countP fun v => decide (UnitLt v u)

/-- lexicographic rank of a name among `l`: the number of names of `l` that are smaller -/
def lexRank (l : List String) (x : String) : Nat := l.countP fun y => decide (y < x)

/-- position of element `e` of the `r`-th array when all arrays are laid out one after the other -/
def flatPos (szs : List Nat) (r e : Nat) : Nat := (szs.take r).sum + e

/-- what pytket guarantees about the attributes the code reads (assumption, checked at run time
    through `Circ.viewOk`): units are listed in increasing order, and the registers list, in that
    order, units `name[0] … name[size-1]` that all occur -/
structure PytketView (c : Circ) : Prop where
  qubits_sorted : c.qubits.Pairwise UnitLt
  bits_sorted : c.bits.Pairwise UnitLt
  qregs_sub : (regUnits c.qregs).Sublist c.qubits
  cregs_sub : (regUnits c.cregs).Sublist c.bits

/-- the converted circuit function returns the qubits, then one `Bool` per bit (assumption about
    `Tk2Circuit`, checked at run time on the converted function) -/
def InnerOutsOk (c : Circ) (outs : List PortTy) : Prop :=
  outs = List.replicate c.nQubits .qubit ++ List.replicate c.nBits .bool

/-- the output type that says "one bool per classical bit" -/
def OutputMatches : Nat → Ty → Prop
  | 0, t => t = .none
  | 1, t => t = .leaf (.scalar .bool)
  | n + 2, t => ∃ ls, t = .tuple ls ∧ ls.length = n + 2 ∧ ∀ l ∈ ls, l = Leaf.scalar .bool

/-- a declared signature matches the circuit's shape: one borrowed qubit per circuit qubit,
    then one angle per free symbol, returning one bool per bit -/
structure StubMatches (c : Circ) (s : Sig) : Prop where
  arity : s.inputs.length = c.nQubits + c.nSyms
  qubits : ∀ i, i < c.nQubits → s.inputs[i]? = some ⟨.scalar .qubit, .inout⟩
  angles : ∀ k, k < c.nSyms → s.inputs[c.nQubits + k]? = some ⟨.scalar .angle, .noFlags⟩
  output : OutputMatches c.nBits s.output

/-- the wire carrying the parameter the caller passes in position `k`: the `k`-th input after the
    qubits, or with arrays the `k`-th element of the angle array that follows the qubit arrays -/
def passedParam (c : Circ) (useArrays : Bool) (k : Nat) : Port :=
  if useArrays then .unpack .angle c.nSyms c.qregs.length k else .input (c.nQubits + k)

/-- all wires of the outputs, arrays flattened -/
def outLeaves : List Out → List OutLeaf
  | [] => []
  | .wire l :: rest => l :: outLeaves rest
  | .newArray _ _ ls :: rest => ls ++ outLeaves rest

/-- number of loads among the events -/
def loadsIn : List Event → Nat
  | [] => 0
  | .load _ _ :: evs => loadsIn evs + 1
  | .other :: evs => loadsIn evs

end GuppyVerif.Pytket
