import GuppyVerif.Model.Coll
/-! # C27 — specification vocabulary (independent of the model's code)

* `specStack`: the reference model of a bounded stack — a plain LIFO list (top = head) with the
  three panics of the statement.  It never mentions buffers, indices or options.
* `entries`: the multiset of entries *literally stored* in a buffer (all `some` cells), as a list
  up to `List.Perm`.
* `IsMinOf e l`: `e` is an element of `l` whose priority is minimal in `l`.
* `Slots`: the invariant written in the source's comment (“all array elements up to and including
  index `size - 1` are `some` and all further ones are `nothing`”).
* `HeapOrdered`: every stored entry's priority is at least that of the entry at its parent index. -/
namespace GuppyVerif.Coll
variable {α : Type}

/-- reference model of `Stack`: a LIFO list; `cap` only decides when `push` panics. -/
def specStack (cap : Nat) : List α → List (Op α) → List (Res α)
  | _, [] => []
  | l, .push v _ :: ops =>
    if l.length ≥ cap then [.panic .capacity] else .unit :: specStack cap (v :: l) ops
  | l, .pop :: ops => match l with
    | [] => [.panic .empty]
    | x :: l' => .val 0 x :: specStack cap l' ops
  | l, .peek :: ops => match l with
    | [] => [.panic .empty]
    | x :: _ => .val 0 x :: specStack cap l ops
  | l, .len :: ops => .num l.length :: specStack cap l ops
  | l, .next :: ops => match l with
    | [] => [.done]
    | x :: l' => .val 0 x :: specStack cap l' ops

/-- the entries stored in a buffer (order irrelevant: used up to `List.Perm`) -/
def entries {β : Type} (buf : List (Option β)) : List β := buf.filterMap id

/-- `e` is an entry of `l` of minimal priority -/
def IsMinOf (e : Int × α) (l : List (Int × α)) : Prop := e ∈ l ∧ ∀ x ∈ l, e.1 ≤ x.1

/-- the source's documented invariant on `buf`/`size` (and the array has `cap` cells) -/
def Slots {β : Type} (cap : Nat) (buf : List (Option β)) (size : Nat) : Prop :=
  buf.length = cap ∧ size ≤ cap ∧
    (∀ j, j < size → ∃ x, buf[j]? = some (some x)) ∧ (∀ j, size ≤ j → j < cap → buf[j]? = some none)

/-- heap order on the stored prefix: parent priority ≤ child priority -/
def HeapOrdered (buf : List (Option (Int × α))) (size : Nat) : Prop :=
  ∀ j, 0 < j → j < size → ∀ x y, buf[(j - 1) / 2]? = some (some x) → buf[j]? = some (some y) → x.1 ≤ y.1

/-- the invariant of a priority queue of capacity `cap` -/
def PQ.Inv (cap : Nat) (q : PQ α) : Prop := Slots cap q.buf q.size ∧ HeapOrdered q.buf q.size

/-- states reachable from `empty_priority_queue()` by successful operations -/
inductive PQ.Reachable (cap : Nat) : PQ α → Prop
  | empty : PQ.Reachable cap (PQ.empty cap)
  | push {q q' v p} : PQ.Reachable cap q → q.push cap v p = .ok q' → PQ.Reachable cap q'
  | pop {q q' v p} : PQ.Reachable cap q → q.pop = .ok (p, v, q') → PQ.Reachable cap q'
  | peek {q q' v p} : PQ.Reachable cap q → q.peek = .ok (p, v, q') → PQ.Reachable cap q'

/-- reference model of `PriorityQueue` on a multiset (list up to permutation).  It is a *relation*
    between a script's results and the multiset, because ties between equal priorities may be
    broken either way: `SpecPQ cap m ops rs` says `rs` is an allowed result list of running `ops`
    on a queue holding the multiset `m`. -/
inductive SpecPQ (cap : Nat) : List (Int × α) → List (Op α) → List (Res α) → Prop
  | nil {m} : SpecPQ cap m [] []
  | pushFull {m v p ops} : m.length ≥ cap → SpecPQ cap m (.push v p :: ops) [.panic .capacity]
  | push {m v p ops rs} : m.length < cap → SpecPQ cap ((p, v) :: m) ops rs →
      SpecPQ cap m (.push v p :: ops) (.unit :: rs)
  | popEmpty {ops} : SpecPQ cap [] (.pop :: ops) [.panic .empty]
  | pop {m m' e ops rs} : IsMinOf e m → m.Perm (e :: m') → SpecPQ cap m' ops rs →
      SpecPQ cap m (.pop :: ops) (.val e.1 e.2 :: rs)
  | peekEmpty {ops} : SpecPQ cap [] (.peek :: ops) [.panic .empty]
  | peek {m e ops rs} : IsMinOf e m → SpecPQ cap m ops rs →
      SpecPQ cap m (.peek :: ops) (.val e.1 e.2 :: rs)
  | len {m ops rs} : SpecPQ cap m ops rs → SpecPQ cap m (.len :: ops) (.num m.length :: rs)
  | nextEmpty {ops} : SpecPQ cap [] (.next :: ops) [.done]
  | next {m m' e ops rs} : IsMinOf e m → m.Perm (e :: m') → SpecPQ cap m' ops rs →
      SpecPQ cap m (.next :: ops) (.val e.1 e.2 :: rs)


/-- the `for e in queue:` protocol: call `__next__` until it returns `nothing`, collecting the yielded
    entries (fuel = upper bound on the number of calls; `Err.fuel` if exceeded) -/
def PQ.iterAll : Nat → PQ α → M (List (Int × α))
  | 0, _ => throw .fuel
  | f + 1, q => do
    match ← q.next with
    | none => pure []
    | some (e, q') =>
      let l ← PQ.iterAll f q'
      pure (e :: l)

end GuppyVerif.Coll
