import GuppyVerif.Model.Dataflow
/-! Specification vocabulary for C09: path-based meaning of liveness and assignment,
    stated without reference to any iteration. -/
namespace GuppyVerif.Dataflow

/-- an edge the analyses follow (real or dummy) -/
def Edge (g : Cfg) (b c : Blk) : Prop := c ∈ g.succ b ++ g.dsucc b
/-- the same edge seen from the target: `b` is a (real or dummy) predecessor of `c` -/
def PEdge (g : Cfg) (b c : Blk) : Prop := b ∈ g.pred c ++ g.dpred c

/-- What the analyses need from a CFG: block lists are closed under the edges they read,
    and every edge is recorded at both ends (`CFG.link` / `dummy_link` do exactly that). -/
structure Cfg.WF (g : Cfg) : Prop where
  closed : ∀ b ∈ g.blocks, ∀ c, Edge g b c → c ∈ g.blocks
  pclosed : ∀ b ∈ g.blocks, ∀ c, PEdge g c b → c ∈ g.blocks
  conv : ∀ b c, Edge g b c ↔ PEdge g b c

/-- `x` is read on some path from `b` before being reassigned:
    a finite path `b = b₀ → … → b_k`, `x` used in `b_k`, not assigned in `b₀ … b_{k-1}`. -/
inductive LivePath (g : Cfg) (x : Var) : Blk → Prop
  | use {b : Blk} : x ∈ g.used b → LivePath g x b
  | step {b c : Blk} : x ∉ g.assigned b → Edge g b c → LivePath g x c → LivePath g x b

/-- an infinite path from `b` on which `x` is never reassigned (a non-terminating loop) -/
def InfPath (g : Cfg) (x : Var) (b : Blk) : Prop :=
  ∃ f : Nat → Blk, f 0 = b ∧ ∀ i, x ∉ g.assigned (f i) ∧ Edge g (f i) (f (i + 1))

/-- Liveness specification.  `init` are the variables declared live from the start
    (`CFG.analyze` passes the borrowed parameters, which it also marks as used in the exit
    block): those additionally stay live along paths that never terminate. -/
def LiveSpec (g : Cfg) (init : List Var) (x : Var) (b : Blk) : Prop :=
  LivePath g x b ∨ (x ∈ init ∧ InfPath g x b)

/-- `x` is **not** definitely assigned on entry to `b`: some backward path from `b` reaches a
    block without predecessors (a root, e.g. the entry) with no assignment to `x` on the way
    and `x` not definitely assigned before the root. -/
inductive NotDef (g : Cfg) (P : AParams) (x : Var) : Blk → Prop
  | root {b : Blk} : g.pred b ++ g.dpred b = [] → x ∉ P.entryDef → NotDef g P x b
  | step {b p : Blk} : PEdge g p b → x ∉ g.assigned p → NotDef g P x p → NotDef g P x b

/-- `x` is assigned on some path to the entry of `b`: a backward path from `b` reaches an
    assignment to `x`, or a root where `x` is maybe-assigned before the root. -/
inductive MaybePath (g : Cfg) (P : AParams) (x : Var) : Blk → Prop
  | root {b : Blk} : g.pred b ++ g.dpred b = [] → x ∈ P.entryMaybe → MaybePath g P x b
  | asg {b p : Blk} : PEdge g p b → x ∈ g.assigned p → MaybePath g P x b
  | step {b p : Blk} : PEdge g p b → MaybePath g P x p → MaybePath g P x b

/-- an infinite backward path from `b` (a cycle not entered from any root) -/
def InfBack (g : Cfg) (b : Blk) : Prop :=
  ∃ f : Nat → Blk, f 0 = b ∧ ∀ i, PEdge g (f (i + 1)) (f i)

/-- there is a finite backward path from `b` to a root: `b` is reachable from a block
    without predecessors along the analysed edges -/
inductive FromRoot (g : Cfg) : Blk → Prop
  | root {b : Blk} : g.pred b ++ g.dpred b = [] → FromRoot g b
  | step {b p : Blk} : PEdge g p b → FromRoot g p → FromRoot g b

def SetEq (a b : List Nat) : Prop := ∀ x, x ∈ a ↔ x ∈ b

end GuppyVerif.Dataflow
