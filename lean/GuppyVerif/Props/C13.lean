import GuppyVerif.Lemmas.C13b
import GuppyVerif.Lemmas.C13c
import GuppyVerif.Lemmas.C13d
/-! # C13 — Generic instantiation and monomorphization preserve meaning (partial)

Property theorems only (model: `Model/Instantiate.lean`, vocabulary: `Spec/C13.lean`, helpers:
`Lemmas/C13{,b,c,d}.lean`).  All theorems quantify over every signature / instantiation / parameter list
(structural induction over the nested type family, no size bound).

Statement of the design: `(f.instantiatePartial a).instantiate b = f.instantiate (fill a b)` for closed
`a`-entries, and the same for two partial steps.  What "closed" has to mean for this to be true of the code:
`argClosed` = no bound variable **and no parametrized (rank-2) function type** anywhere in the argument; and the
signature itself must be closed (`sigScoped`: body below the number of parameters, type of parameter `i` below
`i`).  Under these hypotheses the equality is *exact* (`Option Ty`: parameter lists, `preserve` flags, comptime
args and the error outcome of the second step), for an arbitrary second step.  Each hypothesis is necessary:
see the machine-checked counterexamples in namespace `Ex` below (replayed on the real code from
`corpus/c13/witnesses.json`).  The theorems are about the code after fix a3b7e76 (before it both composition
laws were false: witnesses `fixed-*` in the corpus).  Unmodelled: runtime equality, HUGR validity. -/
namespace GuppyVerif.Instantiate
open GuppyVerif

/-- **C13 (two partial steps compose)**: for a closed signature `f`, closed rank-1 arguments in the
    first step `a` and *any* second step `b` that has one entry per parameter kept by `a`: instantiating
    with `a` and then with `b` gives exactly (parameters, preserve flags, comptime args and error outcome
    included) what the single step with the merged arguments `fillP a b` gives. -/
theorem partial_partial (f g : Ty) (a b c : PInst)
    (hf : sigScoped f = true) (ha : pinstClosed a) (hc : fillP a b = some c)
    (hg : instantiatePartial f a = some g) :
    instantiatePartial g b = instantiatePartial f c := by
  cases f with
  | func ins o ps cs =>
    simp only [sigScoped, Bool.and_eq_true] at hf
    obtain ⟨⟨⟨hs1, hs2⟩, hs3⟩, hs4⟩ := hf
    rw [instantiatePartial_func] at hg ⊢
    cases h0 : instLoop ps a [] [] with
    | none => simp [h0] at hg
    | some r =>
      obtain ⟨σ', remA'⟩ := r
      have hlen := (instLoop_len ps a [] [] _ h0).2
      simp only [List.length_nil, Nat.zero_add] at hlen
      simp only [h0, Option.bind_some] at hg
      cases h1 : instInL (full σ') false ins with
      | none => simp [h1] at hg
      | some ins' =>
        cases h2 : instTy (full σ') false o with
        | none => simp [h1, h2] at hg
        | some o' =>
          cases h3 : instConstL (full σ') false cs with
          | none => simp [h1, h2, h3] at hg
          | some cs' =>
            simp only [h1, h2, h3, Option.bind_some, Option.some.injEq] at hg
            subst hg
            rw [instantiatePartial_func]
            obtain ⟨G, hG, hA⟩ := loop_comp ps a b c [] [] [] [] [] σ' remA' (by simpa using hs4) ha hc
              Rel.nil rfl h0
            simp only [List.nil_append] at hG
            subst hG
            unfold LoopAgree at hA
            cases hX : instLoop remA' b [] [] with
            | none =>
              cases hY : instLoop ps c [] [] with
              | none => simp
              | some y => simp [hX, hY] at hA
            | some x =>
              cases hY : instLoop ps c [] [] with
              | none => simp [hX, hY] at hA
              | some y =>
                obtain ⟨τ', r1⟩ := x
                obtain ⟨ρ', r2⟩ := y
                simp only [hX, hY] at hA
                obtain ⟨hr, R⟩ := hA
                subst hr
                simp only [Option.bind_some]
                rw [comp_inL R ins ins' (hlen ▸ hs1) h1, comp_ty R o o' (hlen ▸ hs2) h2,
                  comp_constL R cs cs' (hlen ▸ hs3) h3]
  | _ => simp [sigScoped] at hf

/-- **C13 (partial then full = full)**: `(f.instantiate_partial a).instantiate b = f.instantiate (fill a b)`
    — exact equality of results and of error outcomes — for a closed signature and closed rank-1 `a`. -/
theorem partial_then_full (f g : Ty) (a : PInst) (b c : List Arg)
    (hf : sigScoped f = true) (ha : pinstClosed a) (hc : fill a b = some c)
    (hg : instantiatePartial f a = some g) :
    instantiate g b = instantiate f c := by
  unfold instantiate
  exact partial_partial f g a (full b) (full c) hf ha (by rw [fillP_full, hc]; rfl) hg

/-- **C13 (`compile_variable_idx` is the order-preserving bijection)**: `keptIdx m` lists exactly the
    un-monomorphized positions of `m` (those holding `None`) in strictly increasing order, and
    `compile_variable_idx(i, m) = j` iff `i` is the `j`-th of them; so it maps the un-monomorphized indices
    one-to-one and monotonically onto `[0, k)`, `k = len(keptIdx m)`, and fails (assertion / IndexError)
    on every other index. -/
theorem varidx_bijection (m : PInst) :
    (∀ i j, compileVariableIdx i m = some j ↔ (keptIdx m)[j]? = some i) ∧
    (keptIdx m).Pairwise (· < ·) ∧
    (∀ i, i ∈ keptIdx m ↔ m[i]? = some none) :=
  ⟨compileVariableIdx_iff m, keptFrom_sorted m 0, mem_keptIdx m⟩

/-- **C13 (`rem_args`)**: when `partially_monomorphize_args` succeeds, `mono_args` has one entry per
    (normalised) argument and `rem_args` are exactly the normalised arguments at the `None` positions of
    `mono_args`, in order; consequently the Hugr index `compile_variable_idx(i)` of a kept variable `i`
    points at its own argument in `rem_args`. -/
theorem rem_args_spec (ps : List Param) (args : List Arg) (cur : Option PInst) (mono : PInst) (rem : List Arg)
    (h : partiallyMonomorphizeArgs ps args cur = some (mono, rem)) :
    ∃ args', normaliseArgs args cur = some args' ∧ mono.length = args'.length ∧
      rem.length = (keptIdx mono).length ∧
      (∀ (j i : Nat), (keptIdx mono)[j]? = some i → rem[j]? = args'[i]? ∧ (args'[i]?).isSome) ∧
      (∀ (i j : Nat), compileVariableIdx i mono = some j → rem[j]? = args'[i]?) := by
  unfold partiallyMonomorphizeArgs at h
  cases h0 : normaliseArgs args cur with
  | none => simp [h0] at h
  | some args' =>
    cases h1 : monoLoop args' ps args' (args'.map fun _ => none) with
    | none => simp [h0, h1] at h
    | some m =>
      simp only [h0, h1, Option.bind_eq_bind, Option.bind_some] at h
      split at h
      · simp only [Option.some.injEq, Prod.mk.injEq] at h
        obtain ⟨hm, hr⟩ := h
        subst hm hr
        have hl : m.length = args'.length := by
          simpa using monoLoop_len args' ps args' _ m h1
        refine ⟨args', rfl, hl, remArgs_length args' m 0 hl.symm, fun j i hji => ?_, fun i j hij => ?_⟩
        · simpa using remArgs_get args' m 0 j i hl.symm hji
        · have := remArgs_get args' m 0 j i hl.symm ((compileVariableIdx_iff m i j).mp hij)
          simpa using this.1
      · cases h

/-- **C13 (monomorphization covers exactly what Hugr cannot express)**: for parameters numbered by
    position, when `partially_monomorphize_args` succeeds (`args'` = the arguments normalised w.r.t. the
    outer monomorphization):
    (a) for every const parameter `i` whose type is not `nat`, every parameter `j` occurring in that type
        is monomorphized (`mono_args[j] = args'[j]`), and if the type is still not `nat` after instantiation
        the const parameter itself is monomorphized;
    (b) nothing else is: a monomorphized position holds its own argument and is required by (a);
    (c) monomorphized arguments contain no bound variables. -/
theorem mono_covers (ps : List Param) (args : List Arg) (cur : Option PInst) (mono : PInst) (rem : List Arg)
    (hok : paramIdxOk 0 ps = true)
    (h : partiallyMonomorphizeArgs ps args cur = some (mono, rem)) :
    ∃ args', normaliseArgs args cur = some args' ∧
      (∀ i nm ty fc, Param.const i nm ty fc ∈ ps →
        (ty ≠ natTy → ∀ (j : Nat), OccTy j ty → ∃ x, args'[j]? = some x ∧ mono[j]? = some (some x)) ∧
        (∀ ty', instTy (full args') false ty = some ty' → ty' ≠ natTy →
          ∃ x, args'[i]? = some x ∧ mono[i]? = some (some x))) ∧
      (∀ (j : Nat) (x : Arg), mono[j]? = some (some x) → args'[j]? = some x ∧
        ∃ i nm ty fc, Param.const i nm ty fc ∈ ps ∧
          ((ty ≠ natTy ∧ OccTy j ty) ∨
           (j = i ∧ ∃ ty', instTy (full args') false ty = some ty' ∧ ty' ≠ natTy))) ∧
      (∀ (j : Nat) (x : Arg), mono[j]? = some (some x) → argBV x = []) := by
  unfold partiallyMonomorphizeArgs at h
  cases h0 : normaliseArgs args cur with
  | none => simp [h0] at h
  | some args' =>
    cases h1 : monoLoop args' ps args' (args'.map fun _ => none) with
    | none => simp [h0, h1] at h
    | some m =>
      simp only [h0, h1, Option.bind_eq_bind, Option.bind_some] at h
      split at h
      · rename_i hall
        simp only [Option.some.injEq, Prod.mk.injEq] at h
        obtain ⟨hm, _⟩ := h
        subst hm
        have hal : Aligned args' ps args' := by
          simpa using aligned_of_idxOk args' ps 0 hok
        have S := monoLoop_spec args' ps args' _ m hal h1
        refine ⟨args', rfl, fun i nm ty fc hp => ⟨fun hne j hocc => ?_, fun ty' hty hne => ?_⟩,
          fun j x hm => ?_, fun j x hm => ?_⟩
        · exact S.covers j ⟨_, hp, Or.inl ⟨(isNat_false_iff ty).mpr hne, (occ_ty j ty).mpr hocc⟩⟩
        · exact S.covers i ⟨_, hp, Or.inr ⟨rfl, ty', hty, (isNat_false_iff ty').mpr hne⟩⟩
        · rcases S.only j x hm with h | ⟨hx, p, hp, hn⟩
          · simp only [List.getElem?_map] at h
            cases hh : args'[j]? <;> simp [hh] at h
          · refine ⟨hx, ?_⟩
            cases p with
            | ty i n c d => exact hn.elim
            | const i nm ty fc =>
              refine ⟨i, nm, ty, fc, hp, ?_⟩
              rcases hn with ⟨hne, hj⟩ | ⟨hj, ty', hty, hne⟩
              · exact Or.inl ⟨(isNat_false_iff ty).mp hne, (occ_ty j ty).mp hj⟩
              · exact Or.inr ⟨hj, ty', hty, (isNat_false_iff ty').mp hne⟩
        · have := List.all_eq_true.mp hall (some x) (List.mem_of_getElem? hm)
          simpa [optArgBV] using this
      · cases h

/-- **C13 (`require_monomorphization`)**: the returned set consists exactly of the const parameters whose
    type is not `nat` and of the parameters occurring (as bound variables) in such a type. -/
theorem require_spec (ps r : List Param) (h : requireMonomorphization ps = some r) :
    ∀ p, p ∈ r ↔ ∃ i nm ty fc, Param.const i nm ty fc ∈ ps ∧ ty ≠ natTy ∧
      (p = .const i nm ty fc ∨ ∃ j, OccTy j ty ∧ ps[j]? = some p) := by
  intro p
  rw [requireLoop_spec ps ps r h p]
  constructor
  · rintro ⟨q, hq, hs⟩
    cases q with
    | ty i n c d => exact hs.elim
    | const i nm ty fc => exact ⟨i, nm, ty, fc, hq, hs.1, hs.2⟩
  · rintro ⟨i, nm, ty, fc, hq, hne, hs⟩
    exact ⟨_, hq, hne, hs⟩

/-- **C13 (HUGR index of a kept type / const variable)**: inside a partially monomorphized function (mono
    args `m`) a variable `i` that stays generic (`m[i] = None`) is emitted — by `type_var_to_hugr` and, for a
    `nat`-typed const variable, by `const_var_to_hugr` alike — as the HUGR variable `j = compile_variable_idx(i, m)`:
    `i` is the `j`-th un-monomorphized parameter, so `j` is below the number `len(keptIdx m)` of type parameters
    the lowered `FuncDefn` binds (= `len(rem_args)` by `rem_args_spec`), and distinct kept variables get distinct
    indices.  (A const variable whose declared type is not `nat` is never emitted: `none`.) -/
theorem hugr_var_idx (m : PInst) (ty : Ty) (i : Nat) (hi : m[i]? = some none) :
    ∃ j, compileVariableIdx i m = some j ∧ j < (keptIdx m).length ∧ (keptIdx m)[j]? = some i ∧
      typeVarToHugr (some m) i = some (.var j) ∧
      (isNat ty = true → constVarToHugr (some m) ty i = some (.var j)) ∧
      (isNat ty = false → constVarToHugr (some m) ty i = none) ∧
      (∀ i', compileVariableIdx i' m = some j → i' = i) := by
  obtain ⟨j, hj⟩ : ∃ j, (keptIdx m)[j]? = some i := List.mem_iff_getElem?.mp ((mem_keptIdx m i).mpr hi)
  have hc : compileVariableIdx i m = some j := (compileVariableIdx_iff m i j).mpr hj
  have hlt : j < (keptIdx m).length := by
    rcases Nat.lt_or_ge j (keptIdx m).length with h | h
    · exact h
    · simp [List.getElem?_eq_none h] at hj
  refine ⟨j, hc, hlt, hj, ?_, ?_, ?_, ?_⟩
  · simp [typeVarToHugr, hi, hc]
  · intro hn; simp [constVarToHugr, hn, hi, hc]
  · intro hn; simp [constVarToHugr, hn]
  · intro i' h'
    have := (compileVariableIdx_iff m i' j).mp h'
    rw [hj] at this
    exact (Option.some.inj this).symm

/-! ## Non-vacuity, and necessity of each hypothesis (machine-checked witnesses; the same inputs are
    replayed on the real code from `corpus/c13/`) -/
namespace Ex

def nf : Flags := ⟨false, false, false⟩
def tT : Ty := .bvar "T" 0 true true
def tU : Ty := .bvar "U" 2 false false
/-- `∀ T, n: nat, U, x: U. (T, array[U, n], Ph[int, x]) -> T`  (interleaved type / nat-const / dependent-const) -/
def f : Ty :=
  .func [.mk tT nf, .mk (.opaque "array" [.ty tU, .const (.bvar natTy "n" 1)]) nf,
         .mk (.opaque "Ph" [.ty (.num .int), .const (.bvar tU "x" 3)]) nf] tT
    [.ty 0 "T" true true, .const 1 "n" natTy false, .ty 2 "U" false false, .const 3 "x" tU false] []
/-- first step: `T := (int,)`, everything else kept -/
def a : PInst := [some (.ty (.tuple [.num .int] false)), none, none, none]
/-- second step (over `n, U, x`): `n := 5`, `U` kept, `x := 7` -/
def b : PInst := [some (.const (.val natTy (.int 5))), none, some (.const (.val (.num .int) (.int 7)))]
def c : PInst := [some (.ty (.tuple [.num .int] false)), some (.const (.val natTy (.int 5))), none,
  some (.const (.val (.num .int) (.int 7)))]

example : sigScoped f = true := rfl
example : pinstClosed a := by
  intro v hv
  simp only [a, List.mem_cons, Option.some.injEq, reduceCtorEq, List.not_mem_nil, or_false] at hv
  subst hv; rfl
example : fillP a b = some c := rfl
/-- the hypotheses of `partial_partial` are satisfiable with a non-trivial result: one kept parameter
    (`U`, renumbered 2 → 1 → 0), three instantiated, `preserve` set on the tuple -/
example : (instantiatePartial f a).bind (instantiatePartial · b) =
    some (.func [.mk (.tuple [.num .int] true) nf,
                 .mk (.opaque "array" [.ty (.bvar "U" 0 false false), .const (.val natTy (.int 5))]) nf,
                 .mk (.opaque "Ph" [.ty (.num .int), .const (.val (.num .int) (.int 7))]) nf]
            (.tuple [.num .int] true) [.ty 0 "U" false false] []) := rfl
example : instantiatePartial f c = (instantiatePartial f a).bind (instantiatePartial · b) := rfl

/-- **closedness is necessary (rank)**: with a parametrized function type as first-step argument the two
    steps raise ("Tried to instantiate under binder") while the merged step succeeds. -/
def poly : Ty := .func [.mk (.bvar "X" 0 true true) nf] (.num .int) [.ty 0 "X" true true] []
def g2 : Ty := .func [.mk (.bvar "T" 0 false false) nf, .mk (.bvar "U" 1 false false) nf] (.none false)
  [.ty 0 "T" false false, .ty 1 "U" false false] []
example : ((instantiatePartial g2 [some (.ty poly), none]).bind
      (instantiatePartial · [some (.ty (.num .int))])) = none ∧
    (instantiatePartial g2 [some (.ty poly), some (.ty (.num .int))]).isSome = true := ⟨rfl, rfl⟩

/-- **closedness is necessary (bound variables)**: an open first-step argument is captured by the second
    step. -/
example : ((instantiatePartial g2 [some (.ty (.bvar "U" 0 false false)), none]).bind
      (instantiatePartial · [some (.ty (.num .int))])).map (fun t => match t with | .func ins _ _ _ => ins | _ => []) =
      some [.mk (.num .int) nf, .mk (.num .int) nf] ∧
    (instantiatePartial g2 [some (.ty (.bvar "U" 0 false false)), some (.ty (.num .int))]).map
      (fun t => match t with | .func ins _ _ _ => ins | _ => []) =
      some [.mk (.bvar "U" 0 false false) nf, .mk (.num .int) nf] := ⟨rfl, rfl⟩

/-- **a closed signature is necessary**: a dangling index (`V` = 2 with two parameters) is lowered by the
    first step into the range of the second. -/
def g3 : Ty := .func [.mk (.bvar "V" 2 false false) nf] (.none false)
  [.ty 0 "T" false false, .ty 1 "U" false false] []
example : sigScoped g3 = false ∧
    ((instantiatePartial g3 [some (.ty (.num .int)), none]).bind
      (instantiatePartial · [some (.ty (.num .float))])).map (fun t => match t with | .func ins _ _ _ => ins | _ => []) =
      some [.mk (.num .float) nf] ∧
    (instantiatePartial g3 [some (.ty (.num .int)), some (.ty (.num .float))]).map
      (fun t => match t with | .func ins _ _ _ => ins | _ => []) =
      some [.mk (.bvar "V" 0 false false) nf] := ⟨rfl, rfl, rfl⟩

/-- `varidx_bijection`, `rem_args_spec`, `mono_covers` on `def foo[T, x: T, n: nat]` called with
    `T := nat` (so `x` stays generic although its declared type is not `nat`), resp. `T := int`. -/
def ps : List Param := [.ty 0 "T" true true, .const 1 "x" (.bvar "T" 0 true true) false, .const 2 "n" natTy false]
def argsNat : List Arg := [.ty natTy, .const (.val natTy (.int 3)), .const (.val natTy (.int 4))]
def argsInt : List Arg := [.ty (.num .int), .const (.val (.num .int) (.int 3)), .const (.val natTy (.int 4))]
example : paramIdxOk 0 ps = true := rfl
example : partiallyMonomorphizeArgs ps argsNat none =
    some ([some (.ty natTy), none, none], [.const (.val natTy (.int 3)), .const (.val natTy (.int 4))]) := rfl
example : partiallyMonomorphizeArgs ps argsInt none =
    some ([some (.ty (.num .int)), some (.const (.val (.num .int) (.int 3))), none],
          [.const (.val natTy (.int 4))]) := rfl
example : keptIdx [some (.ty natTy), none, none] = [1, 2] ∧
    compileVariableIdx 2 [some (.ty natTy), none, none] = some 1 ∧
    compileVariableIdx 0 [some (.ty natTy), none, none] = none := ⟨rfl, rfl, rfl⟩
example : OccTy 0 (.bvar "T" 0 true true) := .bvar _ _ _ _
/-- `pick(k: int @comptime, xs: array[int, n])`: params `[k, n]`, `k` monomorphized: `n` is HUGR variable 0, not 1 -/
example : constVarToHugr (some [some (.const (.val (.num .int) (.int 3))), none]) natTy 1 = some (.var 0) := rfl
example : requireMonomorphization ps = some [.const 1 "x" (.bvar "T" 0 true true) false, .ty 0 "T" true true] := rfl

end Ex

end GuppyVerif.Instantiate
