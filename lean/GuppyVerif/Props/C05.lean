import GuppyVerif.Lemmas.C03Top
import GuppyVerif.Lemmas.C03Fuel
import GuppyVerif.Lemmas.C05Order
/-! # C05 — Side effects happen once each, in Python's evaluation order

Side effects are calls of external functions; each call is appended to the trace with its arguments
and result, and the result may depend on the whole history, so *order*, *multiplicity* and *which
short-circuit operands are evaluated* are all observable in the trace.

**Statement (`lift_preserves_order`, `branch_preserves_order`, `calls_in_python_order`)**: for every
expression / program, the trace of the built CFG equals the trace of Python's evaluation.  Until the repairs
f9e33c1 / 7c8aeda it was false of the code (defect D9: (i) the middle operand of a chained comparison was
evaluated twice and (ii) lifted sub-expressions — IfExp, `and`/`or`, chained comparison, walrus — were hoisted
before side-effecting siblings to their left) and was proved for a *hoist-safe* fragment only.  The model
(`Model/Builder.lean`) now follows the repaired builder (`ExprBuilder.build_operands`: an already built
operand is stored in a temporary before a later operand is built that would overtake it; the middle operand
of a chained comparison is kept in a temporary unless it is a constant or an unassigned name) and the
theorems hold for all programs of the fragment.  The former counterexamples are kept as theorems of the
repaired model (`d9_*_fixed`).
`track_hugr_side_effects` (the state-order edges of the lowered HUGR) is modelled in
`Model/OrderEdges.lean` and characterised at the end of this file.  Unmodelled: which HUGR node each Guppy
construct is lowered to, panics, qubit operations. -/
namespace GuppyVerif.Builder
open GuppyVerif.Surface

/-- **C05 `lift_preserves_order` (value position)**: building an expression from an open block of any builder
    state: in every extension of the CFG, running the hoisted part and then evaluating the residual
    expression yields Python's value **and Python's trace** — every call exactly once, in Python's order,
    short-circuit operands only when Python evaluates them.  (`userE`: the expression does not mention the
    builder's `%tmp` variables.) -/
theorem lift_preserves_order (env : Env) (e : Expr) (hu : userE e = true)
    (b : Nat) (σ : BState) (bl : List Block) (hb : b < σ.len) (ho : (σ.blk b).succs = [])
    (hx : Ext (buildE e b σ).2.2 bl) (s : S) (rv : Option Val) :
    ∃ s2 : S, Steps env bl ⟨b, (σ.blk b).stmts.length, s, rv⟩
        ⟨(buildE e b σ).2.1, ((buildE e b σ).2.2.blk (buildE e b σ).2.1).stmts.length, s2, rv⟩ ∧
      (eval env (buildE e b σ).1 s2).1 = (eval env e s).1 ∧
      (eval env (buildE e b σ).1 s2).2.2 = (eval env e s).2.2 := by
  obtain ⟨s2, h1, h2, _, _⟩ := sem_all env e .val b σ bl hu hb ho hx s rv
  have h2' : eval env (buildE e b σ).1 s2 = ((eval env e s).1, (s2.1, (eval env e s).2.2)) := h2
  exact ⟨s2, h1, by rw [h2'], by rw [h2']⟩

/-- **C05 (branch position: `if` / `while` conditions, operands of `and` / `or` / `not`)**: the
    branch code reaches the true target iff Python's value is truthy, having produced exactly Python's trace. -/
theorem branch_preserves_order (env : Env) (e : Expr) (hu : userE e = true)
    (b t f : Nat) (σ : BState) (bl : List Block) (hb : b < σ.len) (ho : (σ.blk b).succs = [])
    (hx : Ext (branchE e b t f σ) bl) (s : S) (rv : Option Val) :
    ∃ s2 : S, Steps env bl ⟨b, (σ.blk b).stmts.length, s, rv⟩
        ⟨if (eval env e s).1.truthy then t else f, 0, s2, rv⟩ ∧ s2.2 = (eval env e s).2.2 := by
  obtain ⟨s2, h1, h2, _, _⟩ := sem_all env e (.br t f) b σ bl hu hb ho hx s rv
  exact ⟨s2, h1, h2⟩

/-- **C05 (whole programs)**: the calls made by the CFG of a program are Python's calls:
    same functions, same arguments, same results, same order, same number. -/
theorem calls_in_python_order (env : Env) (p : Stmt) (rn : Bool) (g : Cfg) (st0 : Store) (o : Outcome)
    (st' : S) (hu : userS p = true)
    (hsc : loopScoped p false = true) (hb : buildCfg rn p = .ok g) (hex : Exec env p (st0, []) o st') :
    ∃ (n : Nat) (c : Config), run env g.blocks n ⟨0, 0, (st0, []), none⟩ = some c ∧ c.s.2 = st'.2 := by
  obtain ⟨n, c, h1, _, h2, _⟩ := buildCfg_correct hu hsc hb hex
  exact ⟨n, c, h1, h2⟩

/-! ## D9 (fixed by f9e33c1 / 7c8aeda): the former counterexamples, on the repaired builder -/

/-- a CFG run is deterministic: whatever fuel suffices gives the same final configuration -/
theorem run_det {env : Env} {bl : List Block} : ∀ (n m : Nat) (c a b : Config),
    run env bl n c = some a → run env bl m c = some b → a = b := by
  intro n
  induction n with
  | zero => intro m c a b h; simp [run] at h
  | succ n ih =>
    intro m c a b h1 h2
    cases m with
    | zero => simp [run] at h2
    | succ m =>
      simp only [run] at h1 h2
      cases hs : step env bl c with
      | none => rw [hs] at h1 h2; cases h1; cases h2; rfl
      | some c' => rw [hs] at h1 h2; exact ih m c' a b h1 h2

/-- an observation made on the run with fuel 20 holds for the run with any sufficient fuel -/
theorem run_facts {env : Env} {bl : List Block} {c0 : Config} {α : Type} (obs : Config → α) (v : α)
    (h : (run env bl 20 c0).map obs = some v) : ∀ n c, run env bl n c0 = some c → obs c = v := by
  intro n c hn
  cases hr : run env bl 20 c0 with
  | none => rw [hr] at h; cases h
  | some c' =>
    rw [hr] at h
    simp only [Option.map_some, Option.some.injEq] at h
    rw [run_det n 20 _ _ _ hn hr]; exact h

def cfgOf (p : Stmt) : Cfg := match buildCfg false p with | .ok g => g | .error _ => ⟨[]⟩
theorem cfgOf_ok (p : Stmt) (h : (match buildCfg false p with | .ok _ => true | .error _ => false) = true) :
    buildCfg false p = .ok (cfgOf p) := by
  unfold cfgOf; split <;> simp_all

/-- the `k`-th call returns `k` (so a value reveals when its call happened) -/
def envCount : Env := fun tr _ _ => .int tr.length
def st00 : Store := fun _ => .int 0

/-- `return -1 < f() < 1` -/
def d9Chain : Stmt := .cons (.ret (.cmp2 .lt .lt (.num (-1)) (.call0 "f") (.num 1))) .nil
/-- `return g() + (h() if c() else k())` -/
def d9IfExp : Stmt :=
  .cons (.ret (.bi (.arith .add) (.call0 "g") (.ite (.call0 "c") (.call0 "h") (.call0 "k")))) .nil
/-- `return g() - (x := h())` -/
def d9Walrus : Stmt :=
  .cons (.ret (.bi (.arith .sub) (.call0 "g") (.walrus (.user "x") (.call0 "h")))) .nil
/-- `x += (x := 5)` then `return x` -/
def d9Aug : Stmt :=
  .cons (.aug (.user "x") .add (.walrus (.user "x") (.num 5))) (.cons (.ret (.var (.user "x"))) .nil)

/-- the four programs are ordinary surface programs -/
example : (userS d9Chain && userS d9IfExp && userS d9Walrus && userS d9Aug) = true := by decide

/-- **D9 (i), fixed**: `-1 < f() < 1`: Python calls `f` once and returns `True`; so does the built CFG (the value
    of `f()` is kept in a temporary for the second comparison).  Before 7c8aeda the CFG called `f` twice and
    returned `False`. -/
theorem d9_chained_compare_middle_once_fixed :
    (∃ st', Exec envCount d9Chain (st00, []) (.ret (.bool true)) st' ∧ st'.2.length = 1) ∧
    (∀ n c, run envCount (cfgOf d9Chain).blocks n ⟨0, 0, (st00, []), none⟩ = some c →
      c.ret = some (.bool true) ∧ c.s.2.length = 1 ∧ c.s.2.map (·.f) = ["f"]) := by
  constructor
  · exact ⟨_, execFuel_sound envCount 10 d9Chain (st00, []) _ _ rfl, by decide⟩
  · intro n c h
    have := run_facts (fun c => (c.ret, c.s.2.length, c.s.2.map (·.f))) (some (.bool true), 1, ["f"]) (by decide) n c h
    simp only [Prod.mk.injEq] at this; exact this

/-- **D9 (ii), conditional expression, fixed**: `g() + (h() if c() else k())`: Python calls `g, c, h`; so does the
    CFG (`g()` is stored in a temporary before the conditional is built).  Before f9e33c1 the CFG called
    `c, k, g` and returned another value. -/
theorem d9_ifexp_after_left_sibling_fixed :
    (∃ st', Exec envCount d9IfExp (st00, []) (.ret (.int 2)) st' ∧ st'.2.map (·.f) = ["g", "c", "h"]) ∧
    (∀ n c, run envCount (cfgOf d9IfExp).blocks n ⟨0, 0, (st00, []), none⟩ = some c →
      c.ret = some (.int 2) ∧ c.s.2.map (·.f) = ["g", "c", "h"]) := by
  constructor
  · exact ⟨_, execFuel_sound envCount 10 d9IfExp (st00, []) _ _ rfl, by decide⟩
  · intro n c h
    have := run_facts (fun c => (c.ret, c.s.2.map (·.f))) (some (.int 2), ["g", "c", "h"]) (by decide) n c h
    simp only [Prod.mk.injEq] at this; exact this

/-- **D9 (ii), walrus, fixed**: `g() - (x := h())` is built as `%tmp = g(); x = h(); return %tmp - x`.  Before
    f9e33c1 it was `x = h(); return g() - x`. -/
theorem d9_walrus_after_left_sibling_fixed :
    (∃ st', Exec envCount d9Walrus (st00, []) (.ret (.int (-1))) st' ∧ st'.2.map (·.f) = ["g", "h"]) ∧
    (∀ n c, run envCount (cfgOf d9Walrus).blocks n ⟨0, 0, (st00, []), none⟩ = some c →
      c.ret = some (.int (-1)) ∧ c.s.2.map (·.f) = ["g", "h"]) := by
  constructor
  · exact ⟨_, execFuel_sound envCount 10 d9Walrus (st00, []) _ _ rfl, by decide⟩
  · intro n c h
    have := run_facts (fun c => (c.ret, c.s.2.map (·.f))) (some (.int (-1)), ["g", "h"]) (by decide) n c h
    simp only [Prod.mk.injEq] at this; exact this

/-- **D9 (ii), data flow only, fixed**: `x += (x := 5)` with `x = 0`: Python gives 5 (the target is read first), and
    so does the CFG `%tmp = x; x = 5; x = %tmp + x`.  Before f9e33c1 the CFG `x = 5; x += x` gave 10. -/
theorem d9_aug_target_read_first_fixed :
    (∃ st', Exec envCount d9Aug (st00, []) (.ret (.int 5)) st') ∧
    (∀ n c, run envCount (cfgOf d9Aug).blocks n ⟨0, 0, (st00, []), none⟩ = some c → c.ret = some (.int 5)) := by
  constructor
  · exact ⟨_, execFuel_sound envCount 10 d9Aug (st00, []) _ _ rfl⟩
  · intro n c h
    have := run_facts (fun c => c.ret) (some (.int 5)) (by decide) n c h
    exact this

/-- the shape of the repair: exactly one temporary is drawn for `g() - (x := h())`, none for `g() - h()` -/
example : (buildE (.bi (.arith .sub) (.call0 "g") (.walrus (.user "x") (.call0 "h"))) 0 initState).2.2.nextTmp = 1 ∧
    (buildE (.bi (.arith .sub) (.call0 "g") (.call0 "h")) 0 initState).2.2.nextTmp = 0 ∧
    (buildE (.cmp2 .lt .lt (.var (.user "a")) (.var (.user "b")) (.var (.user "c"))) 0 initState).2.2.nextTmp = 1 ∧
    (buildE (.cmp2 .lt .lt (.var (.user "a")) (.call0 "f") (.var (.user "c"))) 0 initState).2.2.nextTmp = 2 := by decide

/-! ## `track_hugr_side_effects`: state-order edges (model `Model/OrderEdges.lean`)

For **every** sequence of node insertions (any hierarchy in which parents are inserted before their
children), if the builder never links a node that is already linked (`dup = false`: containers are populated
in a nested fashion — checked on every lowered program by the harness; the model records it):

* `order_edges_total_partial` — in every region the order edges form **one chain without repetition** from the
  region's `Input` through the linked nodes to its `Output` (or there are none);
* `side_effect_node_linked_last` — a side-effecting node inserted into a dataflow region is linked at once, as
  the last element of that region's chain; containers of side-effecting nodes are linked by the same rule
  (`handle_side_effect` recursing on the parent);
* `order_edges_append_only` — edges are only ever appended, so within a chain the order of the nodes is the
  order in which they were linked: side-effecting nodes execute in insertion order. -/

open OrderEdges in
/-- **C05 `order_edges_total`, partial** (hypothesis `dup = false`) -/
theorem order_edges_total_partial (nds : List OrderEdges.Node) (hS : WFSeq 0 nds) (hd : (runAll nds).dup = false)
    (p : Nat) :
    region (runAll nds) p = [] ∨
    ∃ inp mids last, firstChild (runAll nds).nodes p = some inp ∧ (inp :: mids ++ [last]).Nodup ∧
      ((∃ out, (children (runAll nds).nodes p)[1]? = some out ∧
          region (runAll nds) p = pathEdges (inp :: mids ++ [last] ++ [out])) ∨
       ((children (runAll nds).nodes p)[1]? = none ∧ region (runAll nds) p = pathEdges (inp :: mids ++ [last]))) :=
  chain_final hS hd p

open OrderEdges in
theorem side_effect_node_linked_last (s : St) (hW : WFN s.nodes) (hI : Inv s) (nd : OrderEdges.Node) (p inp : Nat)
    (hnd : ∀ q, nd.parent = some q → q < s.nodes.length) (heff : nd.eff = true) (hpar : nd.parent = some p)
    (hk : kindOf s.nodes p ≠ .cond ∧ kindOf s.nodes p ≠ .cfg) (hinp : firstChild s.nodes p = some inp) :
    lookup (addNode nd s).prev p = some s.nodes.length := addNode_links hW hI nd hnd heff hpar hk hinp

open OrderEdges in
theorem order_edges_append_only (nd : OrderEdges.Node) (s : St) : s.edges <+: (addNode nd s).edges :=
  addNode_edges_prefix nd s

/-- non-vacuity: a function body with a call, a Conditional whose case contains a call, and another call: the
    chains are `Input → call → Conditional → call → Output` in the body and `Input → call → Output` in the case -/
def exOrder : List OrderEdges.Node :=
  [⟨none, .other, false⟩, ⟨some 0, .funcDefn, false⟩, ⟨some 1, .other, false⟩, ⟨some 1, .other, false⟩,
   ⟨some 1, .other, true⟩, ⟨some 1, .cond, false⟩, ⟨some 5, .other, false⟩, ⟨some 6, .other, false⟩,
   ⟨some 6, .other, false⟩, ⟨some 6, .other, true⟩, ⟨some 1, .other, true⟩]
example : OrderEdges.WFSeq 0 exOrder := by
  simp only [exOrder, OrderEdges.WFSeq]
  decide
example : (OrderEdges.runAll exOrder).dup = false ∧
    (OrderEdges.runAll exOrder).edges = [(2, 4), (4, 5), (7, 9), (5, 10), (10, 3), (9, 8)] := by decide

/-! ## Known finding: an implicitly panicking op is not ordered after earlier `result`s

`may_have_side_effect` (table `EXTENSION_OPS_WITH_SIDE_EFFECTS` + calls) does not contain the ops that panic
*internally* (`idiv_s` / `imod_s` by zero, `borrow` / `return` out of range, failing conversions), so such a
node gets no order edge.  For `result("i", i); result("d", 10 // (1 - i))` the body region is
`Input, Output, result_i (effect), isub (no effect), idiv (no effect by the table, panics at i = 1), result_d (effect)`:
the only order edges are `Input → result_i → result_d → Output`; the value edges are `isub → idiv → result_d`.
Both the schedule that runs `result_i` first and the one that runs `idiv` first respect all edges, and they
differ in what is observed: `[("i", 1)]` then panic (Python's behaviour) versus panic with nothing reported.
(`class:implicit-op-panic-overtakes-result` in `known_findings.json`; the real 1.0.4 runtime loses the result.) -/

/-- insertion sequence of the body of `result("i", i); result("d", 10 // (1 - i))`:
    0 module, 1 FuncDefn, 2 Input, 3 Output, 4 result_i, 5 isub, 6 idiv, 7 result_d -/
def exPanicNodes : List OrderEdges.Node :=
  [⟨none, .other, false⟩, ⟨some 0, .funcDefn, false⟩, ⟨some 1, .other, false⟩, ⟨some 1, .other, false⟩,
   ⟨some 1, .other, true⟩, ⟨some 1, .other, false⟩, ⟨some 1, .other, false⟩, ⟨some 1, .other, true⟩]
/-- value edges inside the region -/
def exPanicValueEdges : List (Nat × Nat) := [(2, 4), (2, 5), (5, 6), (6, 7)]

/-- a schedule (order of execution of the region's nodes) respects a set of edges -/
def respects (edges : List (Nat × Nat)) (sched : List Nat) : Bool :=
  edges.all fun (a, b) => match sched.idxOf? a, sched.idxOf? b with
    | some i, some j => i < j
    | _, _ => false

/-- what is observed: node 4 reports `("i", 1)`, node 6 panics (execution stops), node 7 would report -/
def observe : List Nat → List String
  | [] => []
  | 4 :: rest => "result i" :: observe rest
  | 6 :: _ => ["panic"]
  | 7 :: rest => "result d" :: observe rest
  | _ :: rest => observe rest

/-- **known finding `implicit-op-panic-overtakes-result`**: the order edges the model (and the real
    `track_hugr_side_effects`, compared on every run) inserts for this region leave the panicking `idiv` unordered
    with respect to the earlier `result`; two schedules respect all order and value edges and are observably different -/
theorem implicit_panic_op_unordered :
    (OrderEdges.runAll exPanicNodes).edges = [(2, 4), (4, 7), (7, 3)] ∧
    respects ((OrderEdges.runAll exPanicNodes).edges ++ exPanicValueEdges) [2, 4, 5, 6, 7, 3] = true ∧
    respects ((OrderEdges.runAll exPanicNodes).edges ++ exPanicValueEdges) [2, 5, 6, 4, 7, 3] = true ∧
    observe [2, 4, 5, 6, 7, 3] = ["result i", "panic"] ∧ observe [2, 5, 6, 4, 7, 3] = ["panic"] := by decide

/-! ## Non-vacuity of the positive theorems -/

/-- `(a if c() else f()) + g(x, (y := h()))` lifts twice and needs no extra temporary: the left operand's
    residual is a temporary, and the walrus on the right does not assign anything the left residual reads -/
def exSafe : Expr :=
  .bi (.arith .add) (.ite (.call0 "c") (.var (.user "a")) (.call0 "f"))
    (.bi (.call2 "g") (.var (.user "x")) (.walrus (.user "y") (.call0 "h")))
example : userE exSafe = true ∧ lifts exSafe = true := by decide
example : ((buildE exSafe 0 initState).2.2.blk 0).succs.length = 2 ∧ (buildE exSafe 0 initState).2.1 = 4 := by decide

end GuppyVerif.Builder
