import GuppyVerif.Lemmas.C23
/-! # C23 — Comptime tracing leaves the user's module untouched

Property theorems only.  `exec` (Model/MockBuiltins.lean) mirrors `mock_builtins`
(save / update / finally: delete-or-restore) on insertion-ordered dicts and the way
`trace_function` brackets the user's Python function with it; programs are arbitrary trees of
nested traces over any modules, raise points inside bodies, rejected return values (raised
after the mocks were removed) and caught nested compilations. -/
namespace GuppyVerif.MockBuiltins

open Spec

/-- **C23 (one bracket)**: whatever subset of `int`, `float`, `len` the user bound, saving,
    installing the mocks and running the `finally` block gives back exactly the same dict —
    same keys in the same order, same values, absent names absent again — and no `del`
    raises KeyError. -/
theorem mock_bracket_exact (g : Globals) (h : WF g) :
    restore (save g) (updateAll mockDict g) = (g, true) :=
  restore_save g h

/-- **C23 (globals restored)**: for every tree of (nested) traces, every raise point and every
    rejected return value, all modules are exactly what they were before (function equality on
    ordered dicts: order, values and absence). -/
theorem globals_restored (K : Nat) (p : Prog) (σ : Mods) (h : ∀ j, WF (σ j)) :
    (exec K p σ).mods = σ :=
  exec_mods K p σ h

/-- **C23 (dynamic extent)**: what any observer sees at any point of any such tree is given by a
    state-free reading: `int/float/len` of module `j` are the mocks exactly while a trace of a
    function of module `j` is in progress, and the user's own bindings (or absent) otherwise;
    exceptions escape exactly as in that reading. -/
theorem view_is_dynamic_extent (K : Nat) (p : Prog) (σ₀ : Mods) (h : ∀ j, WF (σ₀ j)) :
    (exec K p σ₀).trace = (denote K σ₀ [] p).1 ∧ (exec K p σ₀).raised = (denote K σ₀ [] p).2 := by
  have hm : mockAll [] σ₀ = σ₀ := by funext j; simp [mockAll]
  have := exec_denote K σ₀ h p []
  rwa [hm] at this

/-! Non-vacuity: module 0 binds `int` (between two other names), module 1 binds nothing
    relevant; nested trace of module 1 inside module 0 inside module 0, the inner one raising,
    the outer one returning a rejected value. -/
def exG0 : Globals :=
  ⟨[.other 0, .int, .other 1], fun n => if n = .other 0 then some (.user 0) else if n = .int then some (.user 1)
      else if n = .other 1 then some (.user 2) else none⟩
def exG1 : Globals := ⟨[.other 0], fun n => if n = .other 0 then some (.user 0) else none⟩
def exMods : Mods := fun j => if j = 0 then exG0 else exG1
def exProg : Prog :=
  .trace 0 (.seq .probe (.seq (.catch (.trace 0 (.trace 1 (.seq .probe .raise) true) true)) .probe)) false

example : WF exG0 ∧ WF exG1 := by
  refine ⟨⟨by decide, ?_⟩, ⟨by decide, ?_⟩⟩ <;> intro n <;> cases n <;> simp [exG0, exG1] <;>
    (rename_i k; by_cases h0 : k = 0 <;> by_cases h1 : k = 1 <;> simp [h0, h1])

example : (exec 2 exProg exMods).raised = true ∧
    ((exec 2 exProg exMods).mods 0).items = exG0.items ∧
    ((exec 2 exProg exMods).mods 1).items = exG1.items ∧
    (exec 2 exProg exMods).trace =
      [[[some (.mock .int), some (.mock .float), some (.mock .len)], [none, none, none]],
       [[some (.mock .int), some (.mock .float), some (.mock .len)],
        [some (.mock .int), some (.mock .float), some (.mock .len)]],
       [[some (.mock .int), some (.mock .float), some (.mock .len)], [none, none, none]]] := by
  decide

/-- inside the bracket the new names sit at the end of the dict, in `mock` literal order -/
example : (updateAll mockDict exG0).order = [.other 0, .int, .other 1, .float, .len] := by decide

end GuppyVerif.MockBuiltins
