import GuppyVerif.Spec.C21
import GuppyVerif.Model.C21Return
/-! # C21 — Comptime functions agree with regular Guppy functions (partial: operator dispatch)

Every theorem in this file except `trace_outputs_match_signature` (structural, by cases on the result type) is a **table `decide`**: the domains are finite tables regenerated from /repo on every run
(19 operators × 40 operand shapes, 41 mixin methods, the acceptance table), so each proof is a complete enumeration;
no unbounded quantifier is being approximated and none of them is a structural proof.
What is proved is agreement of the *selection* (implementing type, operator, source operand order) of the two
dispatch procedures — not agreement of results: that `T.__rop__(r, l)` computes what `T.__op__(l, r)` computes is
the contract of reflected dunders (C04), assumed here and observed by the probes on the lowered wiring.  Builtins,
containers, constructors and calls are covered by the harness only. -/
namespace GuppyVerif.C21

/-- Every operator method of `DunderMixin` delegates to the dunder *of its own name* (in particular each
    reflected method to its own reflected name: D6 was `__rrshift__ ↦ __pow__`). -/
theorem mixin_delegates_self : ∀ r ∈ tables.mixin, r.2.1 = some r.1 := by
  decide +kernel

/-- Every dunder the checker's `binary_table` / `unary_table` can select exists in the mixin with the right
    decorator, except `@` (`__matmul__` / `__rmatmul__`), which no numeric type defines either. -/
theorem mixin_covers_checker_tables :
    (∀ r ∈ tables.ops, r.1 ≠ .MatMult →
      (tables.mixin.lookup r.2.1).map (·.2) = some .binary ∧ (tables.mixin.lookup r.2.2).map (·.2) = some .binary) ∧
    (∀ r ∈ tables.uops, (tables.mixin.lookup r.2).map (·.2) = some .unary) := by
  decide +kernel

/-- `tracing.object.binary_table` is the checker's table (method ↦ reflected method) and
    `reverse_binary_table` is its converse. -/
theorem tables_inverse :
    (∀ r ∈ tables.ops, tables.fwd.lookup r.2.1 = some r.2.2 ∧ tables.rev.lookup r.2.2 = some r.2.1) ∧
    tables.fwd.length = tables.ops.length ∧ tables.rev.length = tables.ops.length := by
  decide +kernel

/-- **C21 (operators)**: for every binary operator, every operand shape (`x op y`, `x op c`, `c op x`)
    and every numeric type pair, comptime and regular dispatch fail together, and when they succeed
    they select the same implementing type and the same operator with the operands in source order. -/
theorem dispatch_agree :
    ∀ op ∈ allOps, ∀ p ∈ shapes,
      Agree tables op (comptime tables op p.1 p.2) (regularO tables op p.1 p.2) = true := by
  decide +kernel

/-- When the left operand is traced the two procedures select literally the same
    (type, dunder, argument order). -/
theorem dispatch_same_when_traced_left :
    ∀ op ∈ allOps, ∀ a ∈ allTys, ∀ b ∈ allTys,
      comptime tables op (.traced a) (.traced b) = some (regular tables op a b) ∧
      comptime tables op (.traced a) (.const b) = some (regular tables op a b) := by
  decide +kernel

/-- the literal lists above are the tables' operators and every operand shape -/
theorem enumerations_complete :
    allOps = tables.ops.map (·.1) ∧ allUOps = tables.uops.map (·.1) ∧
    (∀ a ∈ allTys, ∀ b ∈ allTys, (Operand.traced a, Operand.traced b) ∈ shapes) ∧
    (∀ a ∈ allTys, ∀ b ∈ constTys, (Operand.traced a, Operand.const b) ∈ shapes ∧ (Operand.const b, Operand.traced a) ∈ shapes) ∧
    (∀ t : NTy, t ∈ allTys) := by
  refine ⟨by decide +kernel, by decide +kernel, by decide +kernel, by decide +kernel, fun t => by cases t <;> decide⟩

/-- With a constant on the left the order of the two attempts is reversed; the selections then differ
    only as direct vs reflected dunder *of one and the same type* (never in the implementing type). -/
theorem const_left_differs_only_by_reflection :
    ∀ op ∈ allOps, ∀ a ∈ constTys, ∀ b ∈ allTys,
      AgreeRefl a b (comptime tables op (.const a) (.traced b)) (regular tables op a b) = true := by
  decide +kernel

/-- unary operators: same dunder of the operand's type, or both fail. -/
theorem unary_agree : ∀ op ∈ allUOps, ∀ t ∈ allTys, comptimeU tables op t = regularU tables op t := by
  decide +kernel

/-- **C21 (return row)** — structural, for every result type (any nesting): the wires a traced comptime function
    hands to its Output are exactly the row of its signature — which is also what the regular twin returns.  The
    thresholds are regenerated from the AST of `trace_function`; with `len(out_tys) > 1` for the unpack branch the
    statement is false for every one-element tuple (`example` below). -/
theorem trace_outputs_match_signature (t : RTy) :
    traceWires unpackNeedsTuple unpackIfLenGt singleIfLenGt t = sigRow t := by
  have h1 : unpackNeedsTuple = true := rfl
  have h2 : unpackIfLenGt = 0 := rfl
  have h3 : singleIfLenGt = 0 := rfl
  rw [h1, h2, h3]
  cases t with
  | atom n => simp [traceWires, sigRow, RTy.isTuple]
  | none => simp [traceWires, sigRow, RTy.isTuple]
  | tuple es =>
    cases es with
    | nil => simp [traceWires, sigRow, RTy.isTuple]
    | cons e r => simp [traceWires, sigRow, RTy.isTuple]

example : traceWires true 1 0 (.tuple [.atom 0]) = [.tuple [.atom 0]] ∧ sigRow (.tuple [.atom 0]) = [.atom 0] :=
  ⟨rfl, rfl⟩

/-! Non-vacuity and sensitivity. -/
-- the tables are populated, some dispatches succeed directly, some through the reflected fallback, some fail
example : regular tables .Add .int .int = some ⟨.int, .d_add, false⟩ ∧
    regular tables .Sub .nat .int = some ⟨.int, .d_rsub, true⟩ ∧ regular tables .Add .int .bool = none ∧
    comptime tables .Sub (.const .int) (.traced .int) = some (some ⟨.int, .d_rsub, true⟩) ∧
    comptime tables .Sub (.const .float) (.traced .int) = some (some ⟨.float, .d_sub, false⟩) := by decide +kernel
-- D6: with `__rrshift__ ↦ __pow__` in the mixin table, `2 >> x` selects `int.__pow__` and both
-- `mixin_delegates_self` and `dispatch_agree` fail
example :
    let T' := { tables with mixin := tables.mixin.map fun r => if r.1 = .d_rrshift then (r.1, some .d_pow, r.2.2) else r }
    comptime T' .RShift (.const .int) (.traced .int) = some (some ⟨.int, .d_pow, true⟩) ∧
      (Sel.meaning T' .RShift ⟨.int, .d_pow, true⟩) = none := by decide +kernel

end GuppyVerif.C21
