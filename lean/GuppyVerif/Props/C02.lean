import GuppyVerif.Spec.C02
import GuppyVerif.Lemmas.C02
/-! # C02 — Rejected programs fail with a located user error, never a crash   *(partial)*

Property theorems only.  C02 as stated ("no exception other than a Guppy error escapes from check/compile, for
every program") is NOT a Lean theorem: the checker is not modelled as a whole.  What is proved:

* the **inventory theorems**: every internal-failure site (`assert`, `raise InternalGuppyError`, raise of a
  non-Guppy exception, `assert_never`, `zip(strict=True)`, subscript of a locally built dict) that the translator finds
  in the anchored checker files of the tree under check (`Gen/C02InternalSites.lean`, regenerated on every run) is
  classified in the hand-written `Spec/C02.lean` — so a *new* site breaks `sites_classified`; every class `guarded g`
  names a theorem that exists (`Lemmas/C02Guards.lean` and the `example`s at the end fail to elaborate otherwise);
* the **component theorems** for the components modelled in `Model/Check02.lean`: the internal outcome is
  unreachable — arity (`check_num_args` before `zip(strict=True)`), name resolution (`check_bb`'s program analysis
  before `ExprSynthesizer.visit_Name`, for the entry block and for successor blocks), block signatures
  (`check_rows_match`, under the same-keys hypothesis that C08 `no_internal_error` establishes).

Everything else (113 of the 120 sites on the baseline tree) is covered only by the crash search of
`harness/props/c02.py`. -/
namespace GuppyVerif.C02

/-! ## inventory -/

/-- **every regenerated internal-failure site is classified** (finite table: `decide` is a proof).  A new
    `assert` / `raise InternalGuppyError` / `zip(strict=True)` / … site in the anchored files changes `Gen.siteIds`
    and breaks this theorem. -/
theorem sites_classified : AllClassified Gen.siteIds classifiedIds := by
  unfold AllClassified
  decide +kernel

/-- the literal id lists are the ones of the tables -/
theorem id_lists_faithful :
    Gen.siteIds = Gen.sites.map (·.id) ∧ classifiedIds = classification.map (·.1) := by
  constructor <;> decide +kernel

/-- every site has exactly one class: no id is classified twice -/
theorem classification_functional : classifiedIds.Nodup := by
  decide +kernel

/-- each guard names one of these theorems.  That the two theorems of other properties exist is checked by
    `Lemmas/C02Guards.lean` (a separate module importing `Props/C03` and `Props/C08`, built by the check on every run:
    a missing theorem there breaks the tie; kept out of this file so that another property's work in progress
    cannot break these theorems); the two of this file are pinned by `example`s at its end. -/
theorem guard_theorem_names (g : Guard) : g.theorem ∈
    ["GuppyVerif.UseDef.no_internal_error", "GuppyVerif.Builder.two_successors_have_pred",
     "GuppyVerif.C02.typeCheckArgs_never_internal", "GuppyVerif.C02.block_names_resolved"] := by
  cases g <;> simp [Guard.theorem]

/-- non-vacuity: the inventory is not empty, and both classes occur -/
example : Gen.siteIds.length ≥ 100 ∧ (classification.any (·.2.isGuarded)) = true ∧
    (classification.any (fun c => !c.2.isGuarded)) = true := by decide +kernel

/-! ## arity: `type_check_args` -/

/-- **`zip(inputs, func_ty.inputs, strict=True)` never raises `ValueError` in `type_check_args`**: whatever
    the argument and parameter lists, the outcome is a result or the user error `WrongNumberOfArgsError`. -/
theorem typeCheckArgs_never_internal {α β : Type} (inputs : List α) (params : List β) :
    Acceptable (typeCheckArgs inputs params) := by
  unfold typeCheckArgs checkNumArgs
  by_cases h : params.length = inputs.length
  · simp [h, zipStrict_eq_zip inputs params h.symm, Acceptable]
  · simp [h, Acceptable]

/-- full input/output specification of the arity component against `List.zip`: pairs in order when the
    counts agree, else `WrongNumberOfArgsError(expected, actual)` -/
theorem typeCheckArgs_spec {α β : Type} (inputs : List α) (params : List β) :
    typeCheckArgs inputs params =
      if params.length = inputs.length then .ok (inputs.zip params)
      else .error (.user (.wrongNumberOfArgs params.length inputs.length)) := by
  unfold typeCheckArgs checkNumArgs
  by_cases h : params.length = inputs.length
  · simp [h, zipStrict_eq_zip inputs params h.symm]
  · simp [h]

/-- the guard is needed: without the arity check the strict zip does fail internally exactly when the
    lengths differ -/
theorem zipStrict_internal_iff {α β : Type} (xs : List α) (ys : List β) :
    (∃ s, zipStrict xs ys = .error (.internal s)) ↔ xs.length ≠ ys.length := by
  constructor
  · intro ⟨s, hs⟩ heq
    rw [zipStrict_eq_zip xs ys heq] at hs
    cases hs
  · exact zipStrict_internal_of_ne xs ys

example : typeCheckArgs [10, 20] ["a", "b"] = .ok [(10, "a"), (20, "b")] := rfl
example : typeCheckArgs [10, 20, 30] ["a", "b"] = .error (.user (.wrongNumberOfArgs 2 3)) := rfl
example : ∃ s, zipStrict [10, 20, 30] ["a", "b"] = .error (.internal s) := ⟨_, rfl⟩

/-! ## name resolution: `check_bb` then `visit_Name` -/

/-- `visit_Name` reaches `raise InternalGuppyError("Variable … is not defined in TypeSynthesiser")` exactly for
    names that are neither local, nor generic parameters, nor globals -/
theorem visitName_internal_iff (sc : Scope) (x : Nat) :
    (∃ s, visitName sc x = .error (.internal s)) ↔
      (x ∉ sc.locals ∧ lookup x sc.generic = none ∧ lookup x sc.globals = none) := by
  have h := visitName_acceptable_iff sc x
  constructor
  · intro ⟨s, hs⟩
    have hn : ¬ Known sc x := fun hk => by
      have := h.mpr hk
      rw [hs] at this
      exact this
    unfold Known at hn
    refine ⟨fun hl => hn (Or.inl hl), ?_, ?_⟩
    · exact Classical.byContradiction fun hg => hn (Or.inr (Or.inl hg))
    · exact Classical.byContradiction fun hg => hn (Or.inr (Or.inr hg))
  · intro ⟨hl, hg, hgl⟩
    exact ⟨"Variable is not defined in TypeSynthesiser", by simp [visitName, hl, hg, hgl]⟩

/-- **names_resolved, entry block**: if the variables assigned before the entry block (the function
    arguments) are in `ctx.locals`, then checking the entry block — `check_bb`'s test of `bb.vars.used` followed by
    the statements, each read going through `visit_Name` and each assignment extending `ctx.locals` — never reaches
    the internal branch: the outcome is the final context or a user error (`VarNotDefinedError`, `ExpectedError`). -/
theorem block_names_resolved (evs : List Ev) (assBefore assignedSomewhere : List Nat) (sc : Scope)
    (hargs : ∀ y ∈ assBefore, y ∈ sc.locals) :
    Acceptable (checkEntryBlock evs assBefore assignedSomewhere sc) := by
  unfold checkEntryBlock
  have hacc := entryCheck_acceptable (usedFirst evs []) assBefore assignedSomewhere sc
  cases he : entryCheck (usedFirst evs []) assBefore assignedSomewhere sc with
  | error e =>
    rw [he] at hacc
    cases e with
    | user u => simp [Acceptable]
    | internal s => exact absurd hacc (by simp [Acceptable])
  | ok u =>
    cases u
    have hk := entryCheck_ok he
    apply runBlock_acceptable evs [] sc
    · intro x hx
      rcases hk x hx with h | h | h
      · exact Or.inl (hargs x (by simpa using h))
      · exact Or.inr (Or.inr h)
      · exact Or.inr (Or.inl h)
    · intro x hx; cases hx

/-- **names_resolved, successor blocks**: when the test at the end of `check_bb` passes for a successor,
    every name live before the successor resolves in the successor's context (whose locals are the block's output
    row `[ctx.locals[x] for x in live if x in ctx.locals]`), and so does every block of reads of live names and of
    names assigned earlier in that block. -/
theorem succ_names_resolved (live assignedSomewhere maybeAss : List Nat) (sc : Scope)
    (h : succCheck live assignedSomewhere maybeAss sc = .ok ()) (evs : List Ev)
    (hlive : ∀ x ∈ usedFirst evs [], x ∈ live) :
    Acceptable (runBlock { sc with locals := live.filter (fun x => sc.locals.contains x) } evs) := by
  apply runBlock_acceptable evs []
  · intro x hx
    have hl := hlive x hx
    obtain ⟨h1, h2⟩ := succCheck_ok h x hl
    by_cases ha : assignedSomewhere.contains x = true
    · have hc : sc.locals.contains x = true := h1 ha
      exact Or.inl (List.mem_filter.mpr ⟨hl, hc⟩)
    · rcases h2 (by simpa using ha) with hg | hg
      · exact Or.inr (Or.inr hg)
      · exact Or.inr (Or.inl hg)
  · intro x hx; cases hx

/-- the two tests of `check_bb` themselves only ever raise user errors -/
theorem program_analysis_user_errors_only (used assBefore asg live maybe : List Nat) (sc : Scope) :
    Acceptable (entryCheck used assBefore asg sc) ∧ Acceptable (succCheck live asg maybe sc) :=
  ⟨entryCheck_acceptable used assBefore asg sc, succCheck_acceptable live asg maybe sc⟩

/- non-vacuity.  Names: 1 = argument `a`, 2 = local `y`, 3 = generic const param `n`, 4 = global function `f`,
   5 = plain Python object `obj`, 9 = unknown `zz`.  Block: `y = f(a, n); use y` -/
private def exSc : Scope := ⟨[1], [(3, true)], [(4, .value), (5, .pyObject)]⟩
private def exBlock : List Ev := [.use 4, .use 1, .use 3, .assign 2, .use 2]
example : checkEntryBlock exBlock [1] [1, 2] exSc = .ok ⟨[2, 1], [(3, true)], [(4, .value), (5, .pyObject)]⟩ := rfl
example : checkEntryBlock (.use 9 :: exBlock) [1] [1, 2] exSc = .error (.user (.varNotDefined 9)) := rfl
example : checkEntryBlock (.use 5 :: exBlock) [1] [1, 2] exSc = .error (.user (.varNotDefined 5)) := rfl
/-- and the hazard is real: skipping the analysis, the unknown name reaches the internal branch -/
example : ∃ s, runBlock exSc (.use 9 :: exBlock) = .error (.internal s) := ⟨_, rfl⟩
example : succCheck [1, 4] [1, 2] [] exSc = .ok () := rfl

/-! ## block signatures: `check_rows_match` -/

/-- **rows_same_keys (partial)**: when both rows contain every name that is looked up — which is what C08
    `UseDef.no_internal_error` proves for the rows flowing into a block in `check_cfg` — `check_rows_match` returns
    or raises `BranchTypeError`, never `KeyError`.  Full statement (no hypothesis) is false of the function in
    isolation: see the example below. -/
theorem rows_same_keys_partial (r1 r2 : Row)
    (h1 : ∀ x ∈ r1.map (·.1) ++ r2.map (·.1), ∃ t, rowLookup x r1 = some t)
    (h2 : ∀ x ∈ r1.map (·.1) ++ r2.map (·.1), ∃ t, rowLookup x r2 = some t) :
    Acceptable (checkRowsMatch r1 r2) :=
  rowsMatchOn_acceptable _ r1 r2 h1 h2

/-- two output rows computed for the same successor from contexts that both contain every live name have the
    same keys, so `rows_same_keys_partial` applies to them -/
theorem output_rows_match_acceptable (live : List Nat) (l1 l2 : Row)
    (h1 : ∀ x ∈ live, ∃ t, rowLookup x l1 = some t) (h2 : ∀ x ∈ live, ∃ t, rowLookup x l2 = some t) :
    Acceptable (checkRowsMatch (outputRow live l1) (outputRow live l2)) := by
  have names : ∀ (l : Row), (∀ x ∈ live, ∃ t, rowLookup x l = some t) → (outputRow live l).map (·.1) = live := by
    intro l hl
    rw [outputRow_names]
    apply List.filter_eq_self.mpr
    intro x hx
    obtain ⟨t, ht⟩ := hl x hx
    have := rowLookup_isSome_iff x l
    rw [ht] at this
    simpa using this.symm
  apply rows_same_keys_partial
  · intro x hx
    apply rowLookup_outputRow_of_mem
    rw [names l1 h1]
    rcases List.mem_append.mp hx with h | h
    · rwa [names l1 h1] at h
    · rwa [names l2 h2] at h
  · intro x hx
    apply rowLookup_outputRow_of_mem
    rw [names l2 h2]
    rcases List.mem_append.mp hx with h | h
    · rwa [names l1 h1] at h
    · rwa [names l2 h2] at h

example : checkRowsMatch [(1, 0), (2, 0)] [(1, 0), (2, 1)] = .error (.user (.branchType 2)) := rfl
example : ∃ s, checkRowsMatch [(1, 0), (2, 0)] [(1, 0)] = .error (.internal s) := ⟨_, rfl⟩
example : checkRowsMatch (outputRow [1, 2] [(2, 7), (1, 5), (3, 0)]) (outputRow [1, 2] [(1, 5), (2, 7)]) = .ok () := rfl

/-- the two guards that name theorems of this file -/
example := @typeCheckArgs_never_internal
example := @block_names_resolved

end GuppyVerif.C02
