import GuppyVerif.Spec.C32
/-! # C32 — Accepted syntax is never silently ignored (partial: "looked at or rejected")

Every theorem in this file is a **table `decide`** over `Gen/C32SyntaxCoverage.lean`, which is regenerated on every
run from CPython's grammar and from the visitor sources of the tree under check; the quantifier (node kinds × fields)
is finite, so each `decide` is a complete enumeration of the *extracted table* — a statement about the code only as
far as the extractor's notion of "read" (a syntactic attribute load on a variable typed by annotations / `visit_K`
naming / ASDL chains) and the pipeline shape of `Model/C32Coverage.lean` are right; both are trusted and are
cross-checked dynamically (probes through the real check + lowering).
`Covered` means: the field is looked at by every consumer that can receive the node, or the populated field / the node
kind / every way to reach it is rejected.  It does **not** mean "takes effect as in Python" (that half of the sentence is
C03 / C05 territory and is only sampled by the clause-vs-base Hugr comparison), and the granularity is (kind, field),
not individual operators. -/
namespace GuppyVerif.C32

/-- **C32**: no semantics-bearing field of any Python node kind is silently ignored by the
    statement / expression pipeline: it is read by a stage that accepts the node, or the populated
    field, the node kind, or every grammar position leading to the node is rejected. -/
theorem no_semantic_field_ignored : ∀ p ∈ semanticFields, Covered tables p.1 p.2 := by
  decide +kernel

/-- The fixed lists of `Spec/C32.lean` classify every field of the regenerated grammar. -/
theorem grammar_classified :
    ∀ r ∈ grammar, (r.kind, r.field) ∈ semanticFields ∨ (r.kind, r.field) ∈ nonSemanticFields := by
  decide +kernel

/-- …and mention only fields the grammar has. -/
theorem semantic_fields_in_grammar :
    ∀ p ∈ semanticFields ++ nonSemanticFields, grammar.any (fun r => r.kind = p.1 ∧ r.field = p.2) = true := by
  decide +kernel

/-- `nodeRejected` rests on the two dispatchers' `generic_visit` raising a user error, and on
    `ExprChecker.generic_visit` falling back to the synthesizer. -/
theorem generic_visit_rejects :
    genericHow tables .CFGBuilder = .rejects ∧ genericHow tables .ExprSynthesizer = .rejects ∧
      genericHow tables .ExprChecker = .fallback := by
  decide +kernel

/-- D2 (fixed): loop `else` clauses and decorators of nested functions are rejected, not dropped. -/
theorem loop_else_and_nested_decorators_rejected :
    disp tables fuel .While .f_orelse = .rejected ∧ disp tables fuel .For .f_orelse = .rejected ∧
      disp tables fuel .FunctionDef .f_decorator_list = .rejected := by
  decide +kernel

/-- No statement visitor of the CFG builder returns without recording a value-bearing statement for a
    whole syntactic class of values: `Assign/AugAssign/AnnAssign/Return/FunctionDef/With` are always
    appended to a basic block, `Expr` is dropped only when its built value is a `%tmp` variable. -/
theorem value_statements_recorded : ∀ k ∈ valueStatements, recordedOK records k = true := by
  decide +kernel

/-- No stage — builder, checker or **compiler** (compiler/expr_compiler.py, where desugared generators are lowered) —
    consumes a list-typed field only through single elements: every (stage, kind, field) that is read has a whole-list read.
    Table `decide`. -/
theorem list_fields_consumed_whole : ∀ r ∈ listReads, listReadOK listReads r = true := by
  decide +kernel

example : listReadOK [(.compiler, .comprehension, .f_ifs, .index), (.compiler, .comprehension, .f_ifs, .test)]
    (.compiler, .comprehension, .f_ifs, .index) = false := by decide +kernel

/-! Non-vacuity / sensitivity: the check distinguishes tables.  Dropping the guard rows of the D2 fix
    (the tree before the fix) or the keyword guard of `ExprSynthesizer.visit_Call` makes `Covered`
    false for exactly those fields; and the dispositions are not all the same. -/
example : ¬ Covered { tables with reads := tables.reads.filter (· ≠ (.CFGBuilder, .While, .f_orelse, .guard)) }
    .While .f_orelse := by decide +kernel
example : ¬ Covered { tables with reads := tables.reads.filter (· ≠ (.ExprSynthesizer, .Call, .f_keywords, .guard)) }
    .Call .f_keywords := by decide +kernel
example : recordedOK [(.Expr, .guarded [.isinstance])] .Expr = false ∧ recordedOK [(.Expr, .never)] .Expr = false := by
  decide +kernel
example : disp tables fuel .If .f_orelse = .handled ∧ disp tables fuel .Starred .f_value = .handled ∧ disp tables fuel .Try .f_handlers = .nodeRejected ∧
    disp tables fuel .keyword .f_arg = .unreachable ∧ disp tables fuel .arguments .f_vararg = .rejected ∧
    disp tables fuel .arg .f_annotation = .handled := by decide +kernel

end GuppyVerif.C32
