import GuppyVerif.Lemmas.C01StoreSub
import GuppyVerif.Lemmas.C01VarIdx
/-! # C01 — wiring discipline of `DFContainer.__getitem__` / `__setitem__` (partial)

Property theorems only.  They cover the pack/unpack discipline of struct and tuple places in
`compiler/core.py` (model: `Model/DFWiring.lean`; vocabulary: `Spec/C01.lean`), for **all** type
trees, place ids, locals maps and wire supplies — structural induction, no bounds.  The rest of
C01 (whole-program HUGR validity) is *not* a Lean theorem; it is searched by the harness-side
structural validator (`harness/props/c01_validate.py`).

The denotation used is independent of the model: `evalOps` interprets the emitted
`MakeTuple`/`UnpackTuple` ops over abstract values (trees of opaque atoms). -/
namespace GuppyVerif.DFWiring

/-- **C01 (setitem stores leaves)**: after `dfg[p] = w` for a non-return place `p : t`, `locals`
    holds exactly the leaf sub-places of `p` (each with a wire created before the new supply),
    no struct/tuple sub-place (so no stale packed value), nothing else changed except that the
    places enclosing `p` were forgotten (repair 32e45a7), and nothing outside `p` was created. -/
theorem setitem_stores_leaves (t : Ty) (L : Locals) (n : Nat) (p : PlaceId) (w : Wire)
    (hw : w.node < n) :
    LeavesOnly (setitem L n p false w t).2.1 (setitem L n p false w t).1 p t ∧
    n ≤ (setitem L n p false w t).2.1 ∧
    (∀ q, ¬ p <:+ q → q ∉ enclosing p → (setitem L n p false w t).1 q = L q) ∧
    (∀ q ∈ enclosing p, (setitem L n p false w t).1 q = none) := by
  have h := setitem_post t L n p w (fun x => if x = w then some (unitVal t) else none)
    (unitVal t) (by simp) hw (unitVal_hasShape t)
  obtain ⟨h1, h2, env1, _, h4, _⟩ := h
  refine ⟨fun s t' hat => Holds.leavesOnly s t p _ h4 t' hat, h1, h2, ?_⟩
  exact setitem_enclosing_none t L n p w false

/-- non-vacuity: a struct `{q: qubit, n: int, t: (qubit, int)}` stored at variable `7` -/
example :
    let T : Ty := .node .struct [.leaf false false, .leaf true true,
      .node .tuple [.leaf false false, .leaf true true]]
    let r := setitem Locals.empty 5 [7] false ⟨2, 0⟩ T
    r.2 = (7, [.unpack 5 ⟨2, 0⟩ 3, .unpack 6 ⟨5, 2⟩ 2]) ∧
    (places [7] T).map r.1 = [none, some ⟨5, 0⟩, some ⟨5, 1⟩, none, some ⟨6, 0⟩, some ⟨6, 1⟩] := by
  decide

/-- **C01 (pack ∘ unpack = id)**: store a wire denoting `v` (of the shape of `t`) into place
    `p`, then read `p` back: the lookup succeeds, and under the op semantics of `Spec/C01`
    the emitted `UnpackTuple`s followed by the emitted `MakeTuple`s evaluate successfully and the
    returned wire denotes exactly `v` — for every value, type tree, prior `locals` and supply. -/
theorem pack_unpack_inverse (t : Ty) (L : Locals) (n : Nat) (p : PlaceId) (w : Wire) (env : Env)
    (v : Val) (isRet : Bool) (hv : env w = some v) (hw : w.node < n) (hs : v.HasShape t) :
    ∃ w' L2 n2 ops2,
      getitem (setitem L n p isRet w t).1 (setitem L n p isRet w t).2.1 p t = .ok (w', L2, n2, ops2) ∧
      L2 p = some w' ∧
      ∃ env', evalOps env ((setitem L n p isRet w t).2.2 ++ ops2) = some env' ∧ env' w' = some v := by
  cases isRet with
  | true =>
    refine ⟨w, (popEnclosing L p).set p w, n, [], ?_, by simp, env, ?_, hv⟩
    · cases t <;> simp [setitem, getitem]
    · cases t <;> simp [setitem, evalOps]
  | false =>
    obtain ⟨_, _, env1, a3, a4, _⟩ := setitem_post t L n p w env v hv hw hs
    obtain ⟨w', L2, n2, ops2, e, _, _, b3, _, env2, b5, b6, _⟩ := getitem_post t _ _ p env1 v a4
    exact ⟨w', L2, n2, ops2, e, b3, env2, by simp only [evalOps_append, a3]; exact b5, b6⟩

/-- non-vacuity: the hypotheses are satisfiable and the round trip really emits ops -/
example :
    let T : Ty := .node .struct [.leaf false false, .node .tuple [.leaf false false, .leaf true true]]
    let v : Val := .tup [.atom 1, .tup [.atom 2, .atom 3]]
    let env : Env := fun x => if x = ⟨2, 0⟩ then some v else none
    v.HasShape T ∧ env ⟨2, 0⟩ = some v ∧
    okAnd (getitem (setitem Locals.empty 5 [7] false ⟨2, 0⟩ T).1 7 [7] T) (fun r =>
      decide (r.2.2.2 = [.make 7 [⟨6, 0⟩, ⟨6, 1⟩], .make 8 [⟨5, 0⟩, ⟨7, 0⟩]] ∧ r.1 = ⟨8, 0⟩)) = true := by
  refine ⟨by simp [Val.HasShape, HasShapes], by simp, by decide⟩

/-- **C01 (each leaf consumed once, linear places forgotten)**: read a struct/tuple place that
    is stored as leaves (the state `__setitem__` establishes) whose leaf wires are pairwise
    distinct.  Then `__getitem__` succeeds (no `InternalGuppyError`, no `KeyError`), emits only
    `MakeTuple`s, and
    * every leaf wire is consumed by exactly one `MakeTuple` input;
    * every intermediate `MakeTuple` result is fresh (created at or after the old supply);
    * afterwards every *linear* proper sub-place (leaf or nested struct/tuple) is no longer in
      `locals`, while non-linear leaves keep their wire (as the Python does — this includes
      affine leaves, which `child.ty.linear` does not select);
    * the place itself is cached under the returned wire. -/
theorem linear_leaf_once (k : Kind) (cs : List Ty) (L : Locals) (n : Nat) (p : PlaceId)
    (h : LeavesOnly n L p (.node k cs)) (hnd : (leafWires L p (.node k cs)).Nodup) :
    ∃ w' L2 n2 ops, getitem L n p (.node k cs) = .ok (w', L2, n2, ops) ∧
      L2 p = some w' ∧ n ≤ w'.node ∧
      (∀ op ∈ ops, ∃ u ins, op = Op.make u ins) ∧
      (∀ x ∈ produced ops, n ≤ x.node) ∧
      (∀ s c d x, (Ty.node k cs).at s = some (.leaf c d) → L (sub p s) = some x →
        (consumed ops).count x = 1 ∧
        ((Ty.leaf c d).linear = true → L2 (sub p s) = none) ∧
        ((Ty.leaf c d).linear = false → L2 (sub p s) = some x)) ∧
      (∀ s t', s ≠ [] → (Ty.node k cs).at s = some t' → t'.linear = true → L2 (sub p s) = none) := by
  have hh := LeavesOnly.holds (.node k cs) p h
  obtain ⟨w', L2, n2, ops, e, _, _, b3, _, _⟩ := getitem_post _ L n p unitEnv _ hh
  obtain ⟨c1, c2, c3, _, c5, c6⟩ := getitem_acct _ L n p unitEnv _ _ hh e
  simp only at c1 c2 c3 c5 c6
  have hw' := c5 rfl
  refine ⟨w', L2, n2, ops, e, b3, hw', c3, fun x hx => (c2 x hx).1, ?_, ?_⟩
  · intro s c d x hat hx
    have hlt : x.node < n := by
      have := h s _ hat
      simp only [Ty.isLeaf, ↓reduceIte, hx, Option.some.injEq, exists_eq_left'] at this
      exact this
    have hmem : x ∈ leafWires L p (.node k cs) := by
      simp only [leafWires, List.mem_filterMap]
      exact ⟨sub p s, sub_mem_places s _ p _ hat, hx⟩
    have hcount : (leafWires L p (.node k cs)).count x = 1 := by rw [hnd.count]; simp [hmem]
    have hprod : (produced ops).count x = 0 :=
      List.count_eq_zero.mpr (fun hm => by have := (c2 x hm).1; omega)
    have hres : [w'].count x = 0 := by
      apply List.count_eq_zero.mpr
      simp only [List.mem_singleton]
      intro e'; subst e'; omega
    have hbal := c1 x
    rw [Holds.leafWs_eq _ p _ hh, hcount, hprod, hres] at hbal
    refine ⟨by omega, ?_, ?_⟩
    · intro hlin
      cases s with
      | nil => simp [Ty.at] at hat
      | cons j s => exact (c6 (j :: s) _ (by simp) hat).1 hlin
    · intro hlin
      cases s with
      | nil => simp [Ty.at] at hat
      | cons j s => rw [(c6 (j :: s) _ (by simp) hat).2 hlin rfl]; exact hx
  · intro s t' hs hat hlin
    exact (c6 s t' hs hat).1 hlin

/-- non-vacuity: `{q: qubit, n: int, t: (qubit, int)}` stored as leaves with distinct wires -/
example :
    let T : Ty := .node .struct [.leaf false false, .leaf true true,
      .node .tuple [.leaf false false, .leaf true true]]
    let L := (setitem Locals.empty 5 [7] false ⟨2, 0⟩ T).1
    (leafWires L [7] T).Nodup ∧ leafWires L [7] T = [⟨5, 0⟩, ⟨5, 1⟩, ⟨6, 0⟩, ⟨6, 1⟩] ∧
    okAnd (getitem L 7 [7] T) (fun r =>
      decide (consumed r.2.2.2 = [⟨6, 0⟩, ⟨6, 1⟩, ⟨5, 0⟩, ⟨5, 1⟩, ⟨7, 0⟩] ∧
        (places [7] T).map r.2.1 = [some ⟨8, 0⟩, none, some ⟨5, 1⟩, none, none, some ⟨6, 1⟩])) = true := by
  decide

/-- **C01 (no stale packed value, repair 32e45a7)**: pack a struct (caching its wire), assign a
    new wire to one of its fields, read the struct again: the second read does *not* return the
    cached wire — the enclosing entries are gone after the assignment, for any place and type. -/
theorem setitem_invalidates_enclosing (t : Ty) (L : Locals) (n : Nat) (p : PlaceId) (w : Wire)
    (isRet : Bool) : ∀ q ∈ enclosing p, (setitem L n p isRet w t).1 q = none :=
  setitem_enclosing_none t L n p w isRet

/-- non-vacuity / regression for the defect witness: `s = {q: qubit, y: int}`; pack `s`,
    assign `s.q := ⟨9,0⟩`, pack again: the new MakeTuple consumes the new wire `⟨9,0⟩`
    (before the repair the second read returned the cached `⟨6,0⟩`). -/
example :
    let S : Ty := .node .struct [.leaf false false, .leaf true true]
    let L0 := (setitem Locals.empty 5 [7] false ⟨2, 0⟩ S).1
    okAnd (getitem L0 6 [7] S) (fun r1 =>
      decide (r1.1 = ⟨6, 0⟩) &&
      okAnd (getitem (setitem r1.2.1 10 [0, 7] false ⟨9, 0⟩ (.leaf false false)).1 10 [7] S)
        (fun r2 => decide (r2.2.2.2 = [.make 10 [⟨9, 0⟩, ⟨5, 1⟩]] ∧ r2.1 = ⟨10, 0⟩))) = true := by
  decide

/-- **C01 (DFContainer is a correct store, any script)**: take any sequence of assignments to and
    reads of sub-places of a variable `r : T` that the reference semantics `RefRun` of `Spec/C01`
    accepts (assigned wires are old and carry values of the right shape; every read finds its
    place fully defined — i.e. the sequence respects ownership: a read moves the non-copyable leaves
    out).  Then the model run never fails, and under the op interpreter the wires returned by the
    reads denote exactly the values the reference semantics predicts — whatever mixture of cached
    packed wires, re-assigned fields and moved leaves the script produces.  (This is the statement
    that was false before repair 32e45a7.) -/
theorem store_script_correct (T : Ty) (r : PlaceId) (hr : r ≠ []) (env0 : Env) (n0 : Nat)
    (script : List SOp) (vs : List Val) (h : RefRun T env0 n0 script (blank T) vs) :
    ∃ ws L n ops, runScript T r script Locals.empty n0 = .ok (ws, L, n, ops) ∧
      ∃ env', evalOps env0 ops = some env' ∧ env'.all ws = some vs := by
  obtain ⟨ws, L2, n2, ops, e, env2, b1, b2, _⟩ :=
    runScript_good T r hr env0 n0 script _ vs _ n0 env0 h (blank_good n0 env0 T r) (Nat.le_refl _)
      (fun _ _ => rfl)
  exact ⟨ws, L2, n2, ops, e, env2, b1, b2⟩

/-- non-vacuity: the defect-witness script `s = w0; read s; s.q = w1; read s` on
    `s : {q: qubit, y: int}` is accepted by the reference semantics, which predicts that the
    second read sees the new qubit -/
example :
    let T : Ty := .node .struct [.leaf false false, .leaf true true]
    let env0 : Env := fun x =>
      if x = ⟨2, 0⟩ then some (.tup [.atom 1, .atom 2]) else if x = ⟨2, 1⟩ then some (.atom 9) else none
    RefRun T env0 5 [.set [] ⟨2, 0⟩, .get [], .set [0] ⟨2, 1⟩, .get []] (blank T)
      [.tup [.atom 1, .atom 2], .tup [.atom 9, .atom 2]] := by
  intro T env0
  refine RefRun.set (t' := T) (v := .tup [.atom 1, .atom 2]) rfl rfl (by decide)
    (by simp [T, Val.HasShape, HasShapes]) ?_
  refine RefRun.get (t' := T) (pv' := .tup [.val (.atom 1), .val (.atom 2)]) rfl rfl rfl ?_
  refine RefRun.set (t' := .leaf false false) (v := .atom 9) rfl rfl (by decide)
    (by simp [Val.HasShape]) ?_
  refine RefRun.get (t' := T) (pv' := .tup [.val (.atom 9), .val (.atom 2)]) rfl rfl rfl ?_
  exact RefRun.nil _

end GuppyVerif.DFWiring

/-! ## Variable scoping under partial monomorphization (model `Model/DFVarIdx.lean`) -/
namespace GuppyVerif.DFVarIdx

/-- **C01 (body variables are bound by the signature)**: inside a partially monomorphised function
    every Guppy parameter that stays generic is lowered (`type_var_to_hugr` / `const_var_to_hugr`) to a
    HUGR variable whose de Bruijn index is in range of the parameter list that `instantiate_partial`
    gives the `FuncDefn`, and that list has *the same Guppy parameter* at that position (so kind and
    bound agree) — for every parameter list and every choice of monomorphised parameters. -/
theorem var_bound_by_signature (mono : List Bool) (idx : Nat) (h : mono[idx]? = some false) :
    ∃ j, varToHugr (some mono) idx = .var j ∧ j < (remaining mono).length ∧
      (remaining mono)[j]? = some idx := by
  refine ⟨countKept (mono.take idx), by simp [varToHugr, compileVariableIdx, h], ?_, ?_⟩
  · have := remainingFrom_get mono 0 idx h
    have hlt := (List.getElem?_eq_some_iff.mp this).1
    exact hlt
  · simpa [remaining] using remainingFrom_get mono 0 idx h

/-- non-vacuity, and the shape the seeded defect breaks: `pick(k: int @comptime, xs: array[int, n])`
    has `mono = [true, false]`; `n` (Guppy index 1) must become HUGR variable 0, the only bound one -/
example : varToHugr (some [true, false]) 1 = .var 0 ∧ remaining [true, false] = [1] ∧
    varToHugr (some [false, true, false, true, false]) 4 = .var 2 ∧
    remaining [false, true, false, true, false] = [0, 2, 4] := by decide

/-- **C01 (distinct generic parameters stay distinct)**: two kept parameters are never lowered to the
    same HUGR variable. -/
theorem var_indices_injective (mono : List Bool) (i k : Nat) (hi : mono[i]? = some false)
    (hk : mono[k]? = some false) (h : varToHugr (some mono) i = varToHugr (some mono) k) : i = k := by
  obtain ⟨j1, e1, _, g1⟩ := var_bound_by_signature mono i hi
  obtain ⟨j2, e2, _, g2⟩ := var_bound_by_signature mono k hk
  rw [e1, e2] at h
  simp only [Lowered.var.injEq] at h
  subst h
  rw [g1] at g2
  exact Option.some.inj g2

example : varToHugr (some [false, true, false]) 0 ≠ varToHugr (some [false, true, false]) 2 := by decide

/-- **C01 (monomorphised parameters leave no variable behind)** -/
theorem mono_param_replaced (mono : List Bool) (idx : Nat) (h : mono[idx]? = some true) :
    varToHugr (some mono) idx = .arg := by
  simp [varToHugr, h]

example : varToHugr (some [true, false]) 0 = .arg := by decide

end GuppyVerif.DFVarIdx
