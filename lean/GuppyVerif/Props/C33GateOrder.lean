import GuppyVerif.Gen.C33GateSites
/-! # C33 — the gate comes before every other check of the gated construct

`Gen.sites` is regenerated from the checker's sources on every run (T-src). -/
namespace GuppyVerif.GateOrder

open GuppyVerif.FeatureGate

/-- **C33 (gate first, model)**: at a site with no possibly-raising statement in front of the
    gate, a construct checked with the features off gets the experimental-feature error of that
    feature — whatever else is wrong with it (earlier statements, later checks). -/
theorem gate_precedes_other_errors (s : Site) (h : s.raisingBefore = 0)
    (failsBefore : Nat → Bool) (failsAfter : Bool) :
    runBlock s false failsBefore failsAfter = .gateError s.feature ∧
    (runBlock s true failsBefore failsAfter = .ok ∨ runBlock s true failsBefore failsAfter = .otherAfter) := by
  unfold runBlock
  rw [h]
  cases failsAfter <;> simp

/-- **C33 (gate first, the real call sites)**: every `check_*_enabled` call in the checker is the
    first possibly-raising statement of its block, so degenerate or otherwise ill-typed instances of
    lists, function tensors, capturing closures and modifier blocks are reported as experimental
    features when the features are off; and all four features have a site. -/
theorem real_sites_gate_first :
    (∀ s ∈ Gen.sites, ∀ fb fa, runBlock s false fb fa = .gateError s.feature) ∧
    (∀ f : Feature, ∃ s ∈ Gen.sites, s.feature = f) := by
  refine ⟨fun s hs fb fa => (gate_precedes_other_errors s ?_ fb fa).1, ?_⟩
  · have : ∀ s ∈ Gen.sites, s.raisingBefore = 0 := by decide
    exact this s hs
  · intro f; cases f <;> decide

/-- a site with a raising statement in front of the gate does not have the property -/
example : runBlock ⟨"x", "y", .lists, 1⟩ false (fun _ => true) false ≠ .gateError .lists := by decide

end GuppyVerif.GateOrder
