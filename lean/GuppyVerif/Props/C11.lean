import GuppyVerif.Lemmas.C11
import GuppyVerif.Gen.C11Config
/-! # C11 — Compiling a definition does not depend on session history

Property theorems only.  The session model is `Model/Session.lean`; the specification vocabulary
(`Sys.HistoryFree`, `Sys.FailedOpNoEffect`, `ShiftInv`) is in `Spec/C11.lean` and does not mention the
model.  `Gen/C11Config.lean` is regenerated from `/repo`'s source on every run; `real_config_sound`
and the three inventory theorems re-check it.

The statement at full strength is

    theorem compile_history_free (P : Pool) : (sys Gen.config nameLt P).HistoryFree

with `nameLt` the order `compare_var` really uses (Python string order on `"%tmp<n>"`).  It was FALSE
of the code before `fix: restart the numbering of temporary variables in CompilationEngine.check`
(`compile_history_free_false_for_name_order` below is a concrete history for the pre-fix configuration;
replayed on the pre-fix engine it gave two different Hugrs, block ports permuted — see notes/C11.md) and
is proved for the code as it is now.  `compile_history_free_of_sound` is the general form: either `check`
restarts the numbering, or the order on generated names is invariant under renumbering. -/
namespace GuppyVerif.Session

/-- **T-src tie**: the facts regenerated from `/repo`'s source are the ones the theorems assume. -/
theorem real_config_sound : Gen.config.Sound := by decide

/-- … and `check` restarts the `%tmp` numbering -/
theorem real_config_restarts_tmp : Gen.config.checkRestartsTmp = true := by decide

/-- **C11 (history freedom, all pools, all histories), general form**: if `check` resets the caches
    (`parsing` included), nothing is written into the defining frame, the tracing state and `parsing` are
    restored on every exit, and either `check` restarts the `%tmp` numbering or the order on generated
    names is invariant under renumbering, then what `d.check()` and `compile d` return after ANY history
    of check / compile / re-lower operations (failing ones included) is what they return in a fresh
    session.  (Counters, `DEF_STORE` growth and the in-place mutations of cached CFGs are all allowed to
    differ.) -/
theorem compile_history_free_of_sound {cfg : Config} (hs : cfg.Sound) {lt : Nat → Nat → Bool}
    (hlt : cfg.checkRestartsTmp = true ∨ ShiftInv lt) (P : Pool) : (sys cfg lt P).HistoryFree := by
  intro h d
  rw [exec_eq_run]
  have hc := run_clean cfg hs.noFrameWrite hs.tracingRestored lt P h State.init
  show observe cfg lt P (run cfg lt P h State.init) d = observe cfg lt P State.init d
  unfold observe
  rw [(check_rel cfg hs.noFrameWrite hs.resets hs.parsingCleared P d hc.1 hc.2).2,
    lower_rel cfg hs.noFrameWrite hs.resets hs.parsingCleared hlt P d hc.1 hc.2]

/-- **C11 at full strength**: for the code as it is (facts regenerated from `/repo`) and the order it
    really uses on generated names (string order), for all pools and all histories. -/
theorem compile_history_free (P : Pool) : (sys Gen.config nameLt P).HistoryFree :=
  compile_history_free_of_sound real_config_sound (Or.inl real_config_restarts_tmp) P

example : (sys Gen.config nameLt [⟨[], false, false, 1, 2, 0, [[0, 1]], [], false, false, false⟩]).observe
    State.init 0 = (.ok (), .ok [⟨0, 1, [[0, 1]], none⟩]) := by decide

/-- the fresh-session result that the history of the pre-fix witness below must (and now does) reproduce -/
example : (sys Gen.config nameLt [⟨[], false, false, 1, 1, 0, [[0]], [], false, false, false⟩,
      ⟨[], false, false, 1, 2, 0, [[0, 1]], [], false, false, false⟩]).observe
    ((sys Gen.config nameLt [⟨[], false, false, 1, 1, 0, [[0]], [], false, false, false⟩,
      ⟨[], false, false, 1, 2, 0, [[0, 1]], [], false, false, false⟩]).exec
        (List.replicate 9 (.lower 0)) State.init) 1 = (.ok (), .ok [⟨1, 1, [[0, 1]], none⟩]) := by decide

/-- the code before the fix (no restart of the numbering) — history free if generated names were
    compared numerically -/
theorem compile_history_free_numeric (P : Pool) :
    (sys { Gen.config with checkRestartsTmp := false } natLt P).HistoryFree :=
  compile_history_free_of_sound (by decide) (Or.inr natLt_shiftInv) P

/-- **C11 (failed operations), general form**: under the same hypotheses, removing a failed operation
    from a history changes no later result. -/
theorem failed_op_no_effect_of_sound {cfg : Config} (hs : cfg.Sound) {lt : Nat → Nat → Bool}
    (hlt : cfg.checkRestartsTmp = true ∨ ShiftInv lt) (P : Pool) : (sys cfg lt P).FailedOpNoEffect := by
  intro h₁ o h₂ d _
  rw [compile_history_free_of_sound hs hlt P (h₁ ++ o :: h₂) d,
    compile_history_free_of_sound hs hlt P (h₁ ++ h₂) d]

/-- **C11 (failed operations) at full strength**, for the code as it is -/
theorem failed_op_no_effect (P : Pool) : (sys Gen.config nameLt P).FailedOpNoEffect :=
  failed_op_no_effect_of_sound real_config_sound (Or.inl real_config_restarts_tmp) P

/-- a failing `lower` exists (non-vacuity of `failed_op_no_effect`) -/
example : (sys Gen.config nameLt [⟨[], true, false, 1, 0, 0, [], [], false, false, false⟩]).failsAt (.lower 0)
    State.init = true := by decide

/-- … and one that fails while PARSING -/
example : (sys Gen.config nameLt [⟨[], false, false, 1, 0, 0, [], [], false, false, true⟩]).failsAt (.check 0)
    State.init = true := by decide

/-- **C11 (failed operations, state)**: whatever an operation does — fail half-way included, in a
    parse too — it neither binds a name in the user's frame, nor leaves tracing mode switched on, nor
    leaves a definition recorded as "being parsed". -/
theorem op_keeps_session_clean {cfg : Config} (hs : cfg.Sound) (lt : Nat → Nat → Bool) (P : Pool)
    (o : Op) (s : State) :
    ((sys cfg lt P).step o s).leaks = s.leaks ∧ ((sys cfg lt P).step o s).tracing = s.tracing ∧
      (s.parsing = [] → ((sys cfg lt P).step o s).parsing = []) :=
  ⟨(step_clean cfg hs.noFrameWrite hs.tracingRestored lt P o s).1,
   (step_clean cfg hs.noFrameWrite hs.tracingRestored lt P o s).2,
   step_parsing cfg hs.noFrameWrite hs.parseRestores lt P o s⟩

/-! ## the program text changes between operations (a file that is edited and loaded again) -/

/-- **C11 across versions, general form**: the history may consist of operations on ANY earlier versions of
    the definitions (other pools: bodies, signatures, dependencies, nested functions … all may differ); what
    `d.check()` and `compile d` return for the current version is what they return in a fresh session.  This
    holds because `State` carries nothing that was derived from the text of a definition past `reset()`.  That
    `State` lists everything that survives is an ASSUMPTION about the code: the inventories below
    (`session_globals_classified`, `counters_classified`, `reset_clears_all_caches`) are syntactic tripwires for it,
    and the differential run over edited files searches for counter-examples (e.g. `DEF_STORE.sources`, keyed by
    file name, is outside the model). -/
theorem compile_version_history_free_of_sound {cfg : Config} (hs : cfg.Sound) {lt : Nat → Nat → Bool}
    (hlt : cfg.checkRestartsTmp = true ∨ ShiftInv lt) : (vsys cfg lt).HistoryFree := by
  intro h P d
  have hc := vexec_clean cfg hs.noFrameWrite hs.tracingRestored lt h State.init
  show observe cfg lt P ((vsys cfg lt).exec h State.init) d = observe cfg lt P State.init d
  unfold observe
  rw [(check_rel cfg hs.noFrameWrite hs.resets hs.parsingCleared P d hc.1 hc.2).2,
    lower_rel cfg hs.noFrameWrite hs.resets hs.parsingCleared hlt P d hc.1 hc.2]

/-- **C11 across versions at full strength**, for the code as it is -/
theorem compile_version_history_free : (vsys Gen.config nameLt).HistoryFree :=
  compile_version_history_free_of_sound real_config_sound (Or.inl real_config_restarts_tmp)

/-- non-vacuity: version 1 (`x + 1`-like: one `%tmp`, one return) is compiled, then the edited version 2 (two
    `%tmp` in one row) of the same definition: the result is that of version 2 -/
example : (vsys Gen.config nameLt).observe [⟨[], false, false, 1, 2, 0, [[0, 1]], [], false, false, false⟩]
    ((vsys Gen.config nameLt).exec
      [([⟨[], false, false, 1, 1, 0, [[0]], [], false, false, false⟩], .lower 0)] State.init) 0
    = (.ok (), .ok [⟨0, 1, [[0, 1]], none⟩]) := by decide

/-- what a parse cache keyed by the POSITION of a definition (file, line) that survives `reset()` does: an
    operation on the new text sees, for every position already parsed, the old definition -/
def staleView (old new : Pool) : Pool :=
  new.zipIdx.map fun (r, i) => (old[i]?).getD r

/-- … and that is observable (so no such cache may exist): version 1 of a definition is well typed, version 2,
    at the same position, is not; through the stale view version 2 still compiles -/
theorem position_keyed_source_cache_observable :
    (vsys Gen.config nameLt).observe
        (staleView [⟨[], false, false, 1, 0, 0, [], [], false, false, false⟩]
          [⟨[], true, false, 1, 0, 0, [], [], false, false, false⟩]) State.init 0
      ≠ (vsys Gen.config nameLt).observe [⟨[], true, false, 1, 0, 0, [], [], false, false, false⟩] State.init 0 := by
  decide

/-! ## without the restart of the numbering the full statement is false for the order the code uses -/

/-- the configuration of the code before `fix: restart the numbering of temporary variables…` -/
def preFix : Config := { Gen.config with checkRestartsTmp := false }

/-- `one` draws one `%tmp`; `two` draws two that are live together across a block boundary -/
def tmpPool : Pool :=
  [⟨[], false, false, 1, 1, 0, [[0]], [], false, false, false⟩,
   ⟨[], false, false, 1, 2, 0, [[0, 1]], [], false, false, false⟩]

/-- **fixed defect** (was replayed on the real engine): without the restart, after nine compilations of
    `one` the counter stands at 9, `two` gets `%tmp9`, `%tmp10`, and `"%tmp10" < "%tmp9"` as strings: the
    block's ports come out in the other order than in a fresh session (`%tmp0`, `%tmp1`). -/
theorem compile_history_free_false_for_name_order : ¬ (sys preFix nameLt tmpPool).HistoryFree := by
  intro h
  have := h (List.replicate 9 (.lower 0)) 1
  revert this
  decide

/-- `nameLt` is indeed not invariant under renumbering (so the disjunction in `compile_history_free_of_sound`
    is not vacuous bookkeeping: for the real order, the restart is exactly what is needed) -/
theorem nameLt_not_shiftInv : ¬ ShiftInv nameLt := by
  intro h
  have := h 9 0 1
  revert this
  decide

/-! ## each mechanism is needed (model-level witnesses; the second and third were real defects) -/

def good : Config := ⟨true, true, false, true, false, true, true, true⟩

/-- without `reset()` in `check` (and with `parsed` surviving) an earlier failed check hides a later
    error: `A` calls `bad1`, `bad2`; checking `A` fails on `bad2` while `bad1` stays parsed but
    unchecked; then `B` (calls `bad1`) checks fine although it fails in a fresh session -/
theorem reset_needed :
    ¬ (sys { good with checkResets := false } natLt
        [⟨[], true, false, 1, 0, 0, [], [], false, false, false⟩, ⟨[], true, false, 1, 0, 0, [], [], false, false, false⟩,
         ⟨[0, 1], false, false, 1, 0, 0, [], [], false, false, false⟩,
         ⟨[0], false, false, 1, 0, 0, [], [], false, false, false⟩]).HistoryFree := by
  intro h
  have := h [.check 2] 3
  revert this
  decide

/-- binding the recursive nested function in the defining frame itself (the code before
    `fix: … bind it in a copied scope`) makes a later user of the shadowed global crash -/
theorem frame_copy_needed :
    ¬ (sys { good with nestedRecBindsInFrame := true } natLt
        [⟨[], false, false, 1, 0, 0, [], [⟨1, true, 0⟩], false, false, false⟩,
         ⟨[], false, false, 1, 0, 0, [], [], false, false, false⟩,
         ⟨[1], false, false, 1, 0, 0, [], [], false, false, false⟩]).HistoryFree := by
  intro h
  have := h [.lower 0] 2
  revert this
  decide

/-- not restoring the tracing state when a comptime function raises (the code before
    `fix: set_tracing_state …`) changes the error a later definition is rejected with -/
theorem tracing_restore_needed :
    ¬ (sys { good with tracingRestored := false } natLt
        [⟨[], false, false, 1, 0, 1, [], [], true, true, false⟩,
         ⟨[], false, true, 1, 0, 0, [], [], false, false, false⟩]).FailedOpNoEffect := by
  intro h
  have := h [] (.lower 0) [] 1 (by decide)
  revert this
  decide

/-- if neither `reset()` emptied `parsing` nor `_parse` removed what it added, a definition whose
    signature does not parse would be rejected as *cyclic* from the second attempt on -/
theorem parsing_emptied_needed :
    ¬ (sys { good with resetClearsParsing := false, parseRestores := false } natLt
        [⟨[], false, false, 1, 0, 0, [], [], false, false, true⟩]).HistoryFree := by
  intro h
  have := h [.check 0] 0
  revert this
  decide

/-- … and without the `finally` alone every `check` fails: `check` parses its argument, `get_checked`
    parses it again and finds it still recorded (history free, but useless; `real_config_sound` rules it out) -/
theorem parse_restore_needed :
    ((sys { good with parseRestores := false } natLt
        [⟨[], false, false, 1, 0, 0, [], [], false, false, false⟩]).observe State.init 0).1 = .error .cyclic := by
  decide

/-! ## lowering twice from the same cache (`insert_return_vars` guard, `input_tys.append`) -/

/-- **C11 (compiled more than once)**: with the guard in `compile_cfg` and nobody reading
    `input_tys`, lowering a (non-comptime) definition again from the same cached, already mutated CFG
    object yields the same entry — the in-place mutations are not observable.  (Extra hypothesis: the globals
    the body uses are in the cache, as they are after a successful `check`; otherwise the first lowering
    checks them on demand, which is covered by the history theorems, not by this one.) -/
theorem relower_entry_stable_partial {cfg : Config} (hg : cfg.returnVarsGuard = true)
    (hi : cfg.compilerReadsInputTys = false) (lt : Nat → Nat → Bool) (P : Pool) (n : Nat) (s s₁ : State)
    (e : OutEntry) (r : RawDef) (hr : P[n]? = some r) (hnc : r.comptime = false)
    (hd : ∀ d ∈ r.deps, s.hasChecked d = true)
    (h : compileOne cfg lt P n s = (s₁, .ok e)) :
    (compileOne cfg lt P n s₁).2 = .ok e := by
  unfold compileOne at h ⊢
  rw [hr] at h ⊢
  cases hf : findChecked n s.checked with
  | none => rw [hf] at h; simp at h
  | some c =>
    rw [hf] at h
    have hid1 : ∀ ins k, (setRet ins k).id = k.id := fun _ _ => rfl
    have hid2 : ∀ ext k, (setExt ext k).id = k.id := fun _ _ => rfl
    -- first lowering: every global is cached, so nothing is checked on demand
    have hd0 : ∀ d ∈ r.deps,
        State.hasChecked { s with checked := updChecked n (setRet (retAfter cfg c.core)) s.checked } d = true := by
      intro d hdm
      have := hd d hdm
      simpa only [State.hasChecked, any_id_updChecked n d _ (hid1 _)] using this
    simp only [hnc, Bool.false_eq_true, ↓reduceIte, ensureAll_noop cfg P r.deps _ hd0, hi, Prod.mk.injEq,
      Except.ok.injEq] at h
    obtain ⟨hs, he⟩ := h
    subst hs
    -- second lowering, from the mutated object
    have hf1 : findChecked n (updChecked n (setExt (c.core.inputTysExtra + closures r))
        (updChecked n (setRet (retAfter cfg c.core)) s.checked)) =
        some { c with core := setExt (c.core.inputTysExtra + closures r) (setRet (retAfter cfg c.core) c.core) } := by
      have := findChecked_updChecked n (setRet (retAfter cfg c.core)) (hid1 _) _ c hf
      exact findChecked_updChecked n (setExt _) (hid2 _) _ _ this
    simp only [hf1, hnc, Bool.false_eq_true, ↓reduceIte, retAfter_stable cfg hg, hi]
    have key : ∀ st : State, (∀ d, st.hasChecked d = s.hasChecked d) →
        ensureAll cfg P r.deps st = (st, .ok ()) := fun st hst =>
      ensureAll_noop cfg P r.deps st (fun d hdm => by rw [hst]; exact hd d hdm)
    rw [key _ (by
      intro d
      simp only [State.hasChecked, any_id_updChecked n d _ (hid1 _), any_id_updChecked n d _ (hid2 _)])]
    simp only [← he]

example : (compileOne good natLt tmpPool 1 ⟨[⟨⟨1, 0, 0⟩, 4⟩], [1], 6, 0, 0, [], false, []⟩).2
    = .ok ⟨1, 1, [[0, 1]], none⟩ := by decide

def recPool : Pool := [⟨[], false, false, 2, 0, 0, [], [⟨7, true, 1⟩], false, false, false⟩]

/-- without the guard the second lowering sees the return variables twice -/
theorem guard_needed :
    (relower { good with returnVarsGuard := false } natLt recPool 0
        (lower { good with returnVarsGuard := false } natLt recPool 0 State.init).1).2
      ≠ some (lower { good with returnVarsGuard := false } natLt recPool 0 State.init).2 := by
  decide

/-- if the compiler read `input_tys`, the second lowering of a recursive capturing closure would
    differ (`input_tys.append` is not idempotent) -/
theorem input_tys_unread_needed :
    (relower { good with compilerReadsInputTys := true } natLt recPool 0
        (lower { good with compilerReadsInputTys := true } natLt recPool 0 State.init).1).2
      ≠ some (lower { good with compilerReadsInputTys := true } natLt recPool 0 State.init).2 := by
  decide

/-- … and with the real configuration the two lowerings of that pool agree -/
theorem relower_agrees_on_recPool :
    (relower Gen.config natLt recPool 0 (lower Gen.config natLt recPool 0 State.init).1).2
      = some (lower Gen.config natLt recPool 0 State.init).2 := by
  decide

/-! ## inventories regenerated from the source -/

/-- every cache attribute of `CompilationEngine` other than the user-registered extension list is
    cleared by `reset()` -/
theorem reset_clears_all_caches :
    Gen.engineAttrs.all (fun a => a == "additional_extensions" || Gen.resetClears.contains a) = true := by
  decide

/-- The SYNTACTIC inventory of session-global state that `c11_translate._session_globals` produces over the
    packages `guppylang_internals` and `guppylang`, every entry with the reason why it cannot make the result of
    compiling a definition depend on earlier operations (or where that is established instead).  The scanner
    lists: module/class-level container literals and constructor calls mutated from a function; `functools.cache`
    / `lru_cache` functions; the container attributes of module-level instances of package classes (`DEF_STORE`,
    `ENGINE`), followed through nested instances; module-level `ContextVar`s; `global` rebinding; stores into
    class attributes / monkey patches from inside functions; mutable default arguments.  It does NOT see
    `setattr` / `__dict__`, function attributes, closures, instances made by factory functions, C-level caches
    (`linecache`, `sys.modules`) or other packages (hugr) — those are left to the differential runs. -/
def sessionGlobalsClassified : List (String × String) :=
  [("checker/core.py:@cache builtin_defs",
      "table of builtin definitions, built once, does not depend on user code"),
   ("compiler/core.py:Hugr.add_node set in track_hugr_side_effects",
      "monkey patch for the duration of one compile_inner; restored on every exit — not modelled; established by the " ++
      "differential run only (a compile that fails mid-body followed by other lowerings: seeded change m1)"),
   ("engine.py:DEF_STORE.frames", "keyed by DefId, fresh per definition object (defCtr); a re-executed file makes new ids"),
   ("engine.py:DEF_STORE.impl_parents", "keyed by fresh DefId (see frames)"),
   ("engine.py:DEF_STORE.impls",
      "keyed by the fresh DefId of the type, then by method name; generated struct methods are registered again " ++
      "by every get_checked — structs are not modelled, real-engine run only (seeded change m4)"),
   ("engine.py:DEF_STORE.raw_defs", "keyed by fresh DefId; grows only (model: store), entries of old versions are unreachable"),
   ("engine.py:DEF_STORE.sources.sources",
      "keyed by FILE NAME, so text-derived and observable in rendered diagnostics; overwritten with the current " ++
      "linecache text by every parse_py_func (SourceMap.add_file: latest registration wins, C29); not modelled — " ++
      "the edited-file run compares rendered diagnostics (source snippets) of re-loaded ill-typed versions with a " ++
      "fresh interpreter"),
   ("engine.py:DEF_STORE.wasm_functions", "keyed by fresh DefId (see frames)"),
   ("engine.py:ENGINE.additional_extensions", "user-registered extension list, deliberately kept (reset_clears_all_caches)"),
   ("engine.py:ENGINE.checked", "reassigned by reset() (reset_clears_all_caches); model: checked"),
   ("engine.py:ENGINE.compiled", "reassigned by reset()"),
   ("engine.py:ENGINE.parsed", "reassigned by reset(); model: parsed"),
   ("engine.py:ENGINE.parsing", "reassigned by reset() and emptied by _parse's finally; model: parsing"),
   ("engine.py:ENGINE.to_check_worklist", "reassigned by reset(); model: the work list of checkLoop"),
   ("engine.py:ENGINE.types_to_check_worklist", "reassigned by reset(); structs are not modelled"),
   ("experimental.py:global EXPERIMENTAL_FEATURES_ENABLED",
      "user setting, changed only by the user's explicit call / with-block (restored in __exit__), never by check or compile"),
   ("tracing/builtins_mock.py:MockMeta.__name__ set in _mock_meta", "attribute of a class created by that very call"),
   ("tracing/builtins_mock.py:MockMeta.__qualname__ set in _mock_meta", "attribute of a class created by that very call"),
   ("tracing/state.py:_STATE ContextVar", "model: tracing; reset in set_tracing_state's finally (tracingRestored)"),
   ("tys/qubit.py:@functools.cache qubit_ty", "a constant type")]

/-- the regenerated inventory is exactly the classified table: a NEW entry (e.g. a cache of parsed sources keyed
    by file and line, seeded change m6) — or the disappearance of one — breaks the build and starts the search.
    This is a tripwire over what the scanner can see (see `sessionGlobalsClassified`), not a proof that nothing
    else survives: the premise "`State` is all that survives" of `compile_version_history_free` rests on it, on
    `counters_classified`, `reset_clears_all_caches` AND on the differential runs. -/
theorem session_globals_classified : Gen.sessionGlobals = sessionGlobalsClassified.map (·.1) := by
  decide

/-- nobody outside the checker reads `input_tys`, and nobody writes into a frame namespace -/
theorem no_input_tys_read_no_frame_write : Gen.inputTysReads = [] ∧ Gen.frameWrites = [] := by decide

/-- the session-global counters are exactly the ones classified here: `tmp_vars` (restarted by `check`)
    and `DefId._ids` are modelled (`tmpCtr`, `defCtr`); the other three are unmodelled (the correspondence run observes that
    they do not reach the Hugr).  A NEW counter breaks this theorem. -/
theorem counters_classified :
    Gen.counters = ["cfg/builder.py:tmp_vars", "compiler/core.py:GlobalConstId._fresh_ids",
      "definition/common.py:DefId._ids", "tracing/object.py:GuppyObjectId._fresh_ids",
      "tys/var.py:ExistentialVar._fresh_id"] := by decide

end GuppyVerif.Session
