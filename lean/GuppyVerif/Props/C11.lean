import GuppyVerif.Lemmas.C11
import GuppyVerif.Gen.C11Config
/-! # C11 — Compiling a definition does not depend on session history

Property theorems only.  The session model is `Model/Session.lean`; the specification vocabulary
(`Sys.HistoryFree`, `Sys.FailedOpNoEffect`, `ShiftInv`) is in `Spec/C11.lean` and does not mention the
model.  `Gen/C11Config.lean` is regenerated from `/repo`'s source on every run; `real_config_sound`
and the three inventory theorems re-check it.

The statement at full strength would be

    theorem compile_history_free (P : Pool) : (sys Gen.config nameLt P).HistoryFree

with `nameLt` the order `compare_var` really uses (Python string order on `"%tmp<n>"`).  It is FALSE of
the code: `compile_history_free_false_for_name_order` below is a concrete history; replayed on the real
engine it gives two different Hugrs (block ports permuted) — known finding, see notes/C11.md.
What is proved for all pools and all histories is the `_partial` form, whose extra hypothesis is that
the order on generated names is invariant under renumbering (true of numeric order). -/
namespace GuppyVerif.Session

/-- **T-src tie**: the facts regenerated from `/repo`'s source are the ones the theorems assume. -/
theorem real_config_sound : Gen.config.Sound := by decide

/-- **C11 (history freedom, all pools, all histories)**: if `check` resets the caches, nothing is
    written into the defining frame and the tracing state is restored, then — for any order on generated
    names that is invariant under renumbering — what `d.check()` and `compile d` return after ANY
    history of check / compile / re-lower operations (failing ones included) is what they return in a
    fresh session.  (Counters, `DEF_STORE` growth and the in-place mutations of cached CFGs are all
    allowed to differ.) -/
theorem compile_history_free_partial {cfg : Config} (hs : cfg.Sound) {lt : Nat → Nat → Bool}
    (hlt : ShiftInv lt) (P : Pool) : (sys cfg lt P).HistoryFree := by
  intro h d
  rw [exec_eq_run]
  have hc := run_clean cfg hs.noFrameWrite hs.tracingRestored lt P h State.init
  show observe cfg lt P (run cfg lt P h State.init) d = observe cfg lt P State.init d
  unfold observe
  rw [(check_rel cfg hs.noFrameWrite hs.resets P d hc.1 hc.2).2,
    lower_rel cfg hs.noFrameWrite hs.resets hlt P d hc.1 hc.2]

example : (sys Gen.config natLt [⟨[], false, false, 1, 2, 0, [[0, 1]], [], false, false⟩]).observe
    State.init 0 = (.ok (), .ok [⟨0, 1, [[0, 1]], none⟩]) := by decide

/-- the same for the code as it is, were generated names compared numerically -/
theorem compile_history_free_numeric (P : Pool) : (sys Gen.config natLt P).HistoryFree :=
  compile_history_free_partial real_config_sound natLt_shiftInv P

/-- **C11 (failed operations)**: under the same hypotheses, removing a failed operation from a
    history changes no later result. -/
theorem failed_op_no_effect_partial {cfg : Config} (hs : cfg.Sound) {lt : Nat → Nat → Bool}
    (hlt : ShiftInv lt) (P : Pool) : (sys cfg lt P).FailedOpNoEffect := by
  intro h₁ o h₂ d _
  rw [compile_history_free_partial hs hlt P (h₁ ++ o :: h₂) d,
    compile_history_free_partial hs hlt P (h₁ ++ h₂) d]

/-- a failing `lower` exists (non-vacuity of `failed_op_no_effect_partial`) -/
example : (sys Gen.config natLt [⟨[], true, false, 1, 0, 0, [], [], false, false⟩]).failsAt (.lower 0)
    State.init = true := by decide

/-- **C11 (failed operations, state)**: whatever an operation does — fail half-way included — it
    neither binds a name in the user's frame nor leaves tracing mode switched on. -/
theorem op_keeps_session_clean {cfg : Config} (hs : cfg.Sound) (lt : Nat → Nat → Bool) (P : Pool)
    (o : Op) (s : State) :
    ((sys cfg lt P).step o s).leaks = s.leaks ∧ ((sys cfg lt P).step o s).tracing = s.tracing :=
  step_clean cfg hs.noFrameWrite hs.tracingRestored lt P o s

/-! ## the full statement is false for the order the code uses -/

/-- `one` draws one `%tmp`; `two` draws two that are live together across a block boundary -/
def tmpPool : Pool :=
  [⟨[], false, false, 1, 1, 0, [[0]], [], false, false⟩,
   ⟨[], false, false, 1, 2, 0, [[0, 1]], [], false, false⟩]

/-- **known finding** (replayed on the real engine): after nine compilations of `one` the counter
    stands at 9, `two` gets `%tmp9`, `%tmp10`, and `"%tmp10" < "%tmp9"` as strings: the block's ports
    come out in the other order than in a fresh session (`%tmp0`, `%tmp1`). -/
theorem compile_history_free_false_for_name_order : ¬ (sys Gen.config nameLt tmpPool).HistoryFree := by
  intro h
  have := h (List.replicate 9 (.lower 0)) 1
  revert this
  decide

/-- `nameLt` is indeed not invariant under renumbering (so the `_partial` hypothesis is not vacuous
    bookkeeping: it is exactly what fails) -/
theorem nameLt_not_shiftInv : ¬ ShiftInv nameLt := by
  intro h
  have := h 9 0 1
  revert this
  decide

/-! ## each mechanism is needed (model-level witnesses; the second and third were real defects) -/

def good : Config := ⟨true, true, false, true, false⟩

/-- without `reset()` in `check` (and with `parsed` surviving) an earlier failed check hides a later
    error: `A` calls `bad1`, `bad2`; checking `A` fails on `bad2` while `bad1` stays parsed but
    unchecked; then `B` (calls `bad1`) checks fine although it fails in a fresh session -/
theorem reset_needed :
    ¬ (sys { good with checkResets := false } natLt
        [⟨[], true, false, 1, 0, 0, [], [], false, false⟩, ⟨[], true, false, 1, 0, 0, [], [], false, false⟩,
         ⟨[0, 1], false, false, 1, 0, 0, [], [], false, false⟩,
         ⟨[0], false, false, 1, 0, 0, [], [], false, false⟩]).HistoryFree := by
  intro h
  have := h [.check 2] 3
  revert this
  decide

/-- binding the recursive nested function in the defining frame itself (the code before
    `fix: … bind it in a copied scope`) makes a later user of the shadowed global crash -/
theorem frame_copy_needed :
    ¬ (sys { good with nestedRecBindsInFrame := true } natLt
        [⟨[], false, false, 1, 0, 0, [], [⟨1, true, 0⟩], false, false⟩,
         ⟨[], false, false, 1, 0, 0, [], [], false, false⟩,
         ⟨[1], false, false, 1, 0, 0, [], [], false, false⟩]).HistoryFree := by
  intro h
  have := h [.lower 0] 2
  revert this
  decide

/-- not restoring the tracing state when a comptime function raises (the code before
    `fix: set_tracing_state …`) changes the error a later definition is rejected with -/
theorem tracing_restore_needed :
    ¬ (sys { good with tracingRestored := false } natLt
        [⟨[], false, false, 1, 0, 1, [], [], true, true⟩,
         ⟨[], false, true, 1, 0, 0, [], [], false, false⟩]).FailedOpNoEffect := by
  intro h
  have := h [] (.lower 0) [] 1 (by decide)
  revert this
  decide

/-! ## lowering twice from the same cache (`insert_return_vars` guard, `input_tys.append`) -/

/-- **C11 (compiled more than once)**: with the guard in `compile_cfg` and nobody reading
    `input_tys`, lowering a (non-comptime) definition again from the same cached, already mutated CFG
    object yields the same entry — the in-place mutations are not observable. -/
theorem relower_entry_stable_partial {cfg : Config} (hg : cfg.returnVarsGuard = true)
    (hi : cfg.compilerReadsInputTys = false) (lt : Nat → Nat → Bool) (P : Pool) (n : Nat) (s s₁ : State)
    (e : OutEntry) (r : RawDef) (hr : P[n]? = some r) (hnc : r.comptime = false)
    (h : compileOne cfg lt P n s = (s₁, .ok e)) :
    (compileOne cfg lt P n s₁).2 = .ok e := by
  unfold compileOne at h ⊢
  rw [hr] at h ⊢
  cases hf : findChecked n s.checked with
  | none => rw [hf] at h; simp at h
  | some c =>
    rw [hf] at h
    simp only [hnc, Bool.false_eq_true, ↓reduceIte, hg, Bool.true_and, hi, Prod.mk.injEq,
      Except.ok.injEq] at h
    obtain ⟨hs, he⟩ := h
    subst hs
    simp only
    have key : ∀ f : CfgCore → CfgCore, (∀ k, (f k).id = k.id) →
        findChecked n (updChecked n f s.checked) = some { c with core := f c.core } :=
      fun f hf' => findChecked_updChecked n f hf' _ c hf
    rw [key]
    · simp only [hnc, Bool.false_eq_true, ↓reduceIte, hg, Bool.true_and, hi]
      subst he
      congr 2
      split <;> simp_all
    · intro k; rfl

example : (compileOne good natLt tmpPool 1 ⟨[⟨⟨1, 0, 0⟩, 4⟩], [1], 6, 0, 0, [], false⟩).2
    = .ok ⟨1, 1, [[0, 1]], none⟩ := by decide

def recPool : Pool := [⟨[], false, false, 2, 0, 0, [], [⟨7, true, 1⟩], false, false⟩]

/-- without the guard the second lowering sees the return variables twice -/
theorem guard_needed :
    (relower { good with returnVarsGuard := false } natLt recPool 0
        (lower { good with returnVarsGuard := false } natLt recPool 0 State.init).1).2
      ≠ some (lower { good with returnVarsGuard := false } natLt recPool 0 State.init).2 := by
  decide

/-- if the compiler read `input_tys`, the second lowering of a recursive capturing closure would
    differ (`input_tys.append` is not idempotent) -/
theorem input_tys_unread_needed :
    (relower { good with compilerReadsInputTys := true } natLt recPool 0
        (lower { good with compilerReadsInputTys := true } natLt recPool 0 State.init).1).2
      ≠ some (lower { good with compilerReadsInputTys := true } natLt recPool 0 State.init).2 := by
  decide

/-- … and with the real configuration the two lowerings of that pool agree -/
theorem relower_agrees_on_recPool :
    (relower Gen.config natLt recPool 0 (lower Gen.config natLt recPool 0 State.init).1).2
      = some (lower Gen.config natLt recPool 0 State.init).2 := by
  decide

/-! ## inventories regenerated from the source -/

/-- every cache attribute of `CompilationEngine` other than the user-registered extension list is
    cleared by `reset()` -/
theorem reset_clears_all_caches :
    Gen.engineAttrs.all (fun a => a == "additional_extensions" || Gen.resetClears.contains a) = true := by
  decide

/-- nobody outside the checker reads `input_tys`, and nobody writes into a frame namespace -/
theorem no_input_tys_read_no_frame_write : Gen.inputTysReads = [] ∧ Gen.frameWrites = [] := by decide

/-- the session-global counters are exactly the ones classified here: `tmp_vars` and `DefId._ids` are
    modelled (`tmpCtr`, `defCtr`); the other three are unmodelled (the correspondence run observes that
    they do not reach the Hugr).  A NEW counter breaks this theorem. -/
theorem counters_classified :
    Gen.counters = ["cfg/builder.py:tmp_vars", "compiler/core.py:GlobalConstId._fresh_ids",
      "definition/common.py:DefId._ids", "tracing/object.py:GuppyObjectId._fresh_ids",
      "tys/var.py:ExistentialVar._fresh_id"] := by decide

end GuppyVerif.Session
