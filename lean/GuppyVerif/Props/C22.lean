import GuppyVerif.Lemmas.C22
/-! # C22 — Comptime tracing enforces ownership

Which theorem is what:

* **structural** (induction over arbitrary traces / shapes, invariant `Inv` of `Lemmas/C22.lean`):
  `noncopyable_used_at_most_once`, `reuse_rejected`, `undroppable_leak_rejected`, `no_leak_accepted`,
  `leaky_iff_never_used_partial`, `frozen_inherited_at_any_depth` (+ its two corollaries).
* **table `decide`** over `Gen/C22FrozenList.lean` (regenerated each run; names from the AST, flags from calling the
  real class): `frozen_rejects_all`; over the `frozen=` rule of `trace_function` evaluated per argument mode:
  `only_borrowed_is_mutable` (`mutation_of_non_borrowed_rejected` combines it with the structural theorem).
* **definitional** (the operation carries its verdict; kept because the tie compares exactly this verdict with the real
  tracer, but they prove nothing beyond the model's definition): `frozen_mutation_rejected`, `copyable_reuse_accepted`.

The ghost counter `uses` is never read by `step`; `Leaky` is stated on the tracer's own `used` flag, and
`leaky_iff_never_used_partial` connects it to the ghost counter for non-copyable objects. `Op.reset` may be issued
anywhere in a trace (a superset of what the tracer does), which only strengthens the ∀-trace theorems. -/
namespace GuppyVerif.TraceOwn

/-- **C22 (at most once)**: after any successful trace, every non-copyable object has been used at most
    once since it was created or last handed back by a borrowing call. -/
theorem noncopyable_used_at_most_once (ops : List Op) (s : State) (h : run State.empty ops = .ok s) :
    ∀ id o, s.objs id = some o → o.copyable = false → o.uses ≤ 1 :=
  fun id o ho hc => ((inv_run inv_empty ops h).once id o ho hc).1

/-- …because a second use is rejected on the spot with "already used". -/
theorem reuse_rejected (ops : List Op) (s : State) (h : run State.empty ops = .ok s) (id : Nat) (o : Obj)
    (ho : s.objs id = some o) (hc : o.copyable = false) (hu : o.uses = 1) :
    useObj s id = .error .alreadyUsed ∧ borrow s id = .error .alreadyUsed := by
  have hused : o.used = true := ((inv_run inv_empty ops h).once id o ho hc).2.mpr hu
  have h1 : useObj s id = .error .alreadyUsed := by simp [useObj, ho, hused, hc]
  exact ⟨h1, by simp [borrow, ho, h1, bind, Except.bind]⟩

/-- **C22 (no leak)**: a trace that ends while some non-droppable object is unused is rejected with
    "leaked"; and the dict `unused_undroppable_objs` is exactly the set of such objects. -/
theorem undroppable_leak_rejected (ops : List Op) (s : State) (h : run State.empty ops = .ok s)
    (hl : ∃ id, Leaky s id) : trace ops = .error .leaked := by
  have inv := inv_run inv_empty ops h
  obtain ⟨id, o, ho, hd, hu⟩ := hl
  have hlt : id < s.next := by
    rcases Nat.lt_or_ge id s.next with hlt | hge
    · exact hlt
    · rw [inv.fresh id hge] at ho; cases ho
  have hun : s.unused id = true := (inv.dict id).mpr ⟨o, ho, hd, hu⟩
  have : (List.range s.next).any s.unused = true :=
    List.any_eq_true.mpr ⟨id, List.mem_range.mpr hlt, hun⟩
  simp [trace, h, finish, this]

/-- `Leaky` (the tracer's flag) coincides with the independent ghost count for the objects that matter:
    a non-copyable object is flagged unused iff it has not been used since creation / last hand-back.
    (partial: for copyable objects the flag is sticky while the count keeps growing.) -/
theorem leaky_iff_never_used_partial (ops : List Op) (s : State) (h : run State.empty ops = .ok s) (id : Nat) (o : Obj)
    (ho : s.objs id = some o) (hc : o.copyable = false) : o.used = false ↔ o.uses = 0 := by
  have := (inv_run inv_empty ops h).once id o ho hc
  rcases this with ⟨hle, hiff⟩
  constructor
  · intro hu
    rcases Nat.lt_or_ge o.uses 1 with hlt | hge
    · omega
    · have h1 : o.uses = 1 := by omega
      rw [hiff.mpr h1] at hu; cases hu
  · intro h0
    cases hu : o.used
    · rfl
    · have := hiff.mp hu; omega

/-- conversely a successful trace without such an object passes the final check -/
theorem no_leak_accepted (ops : List Op) (s : State) (h : run State.empty ops = .ok s)
    (hl : ¬ ∃ id, Leaky s id) : trace ops = .ok () := by
  have inv := inv_run inv_empty ops h
  have : (List.range s.next).any s.unused = false := by
    rw [Bool.eq_false_iff]; intro hany
    obtain ⟨id, _, hun⟩ := List.any_eq_true.mp hany
    exact hl ⟨id, (inv.dict id).mp hun⟩
  simp [trace, h, finish, this]

/-- **C22 (frozen)**: a trace containing an in-place mutation of a value derived from an owned argument
    never succeeds. -/
theorem frozen_mutation_rejected (ops : List Op) (hm : Op.mutate true ∈ ops) : ∀ s, ∀ s', run s ops ≠ .ok s' := by
  induction ops with
  | nil => cases hm
  | cons op ops ih =>
    intro s s' hr
    simp only [run] at hr
    split at hr
    · rename_i s1 h1
      rcases List.mem_cons.mp hm with e | e
      · subst e; simp [step] at h1
      · exact ih e s1 s' hr
    · cases hr

/-- **C22 (frozen, any depth)**: frozen-ness is inherited by every object derived from an argument, at
    every nesting depth and through tuples, structs and arrays: whatever mutable container a path reaches
    inside the unpacked argument carries exactly the argument's flag. -/
theorem frozen_inherited_at_any_depth (f : Bool) (s : Shape) (path : List Step) (b : Bool)
    (h : ((unpack f s).at path).bind Val.containerFlag = some b) : b = f := by
  induction s generalizing path with
  | leaf =>
    cases path with
    | nil => simp [unpack, Val.at, Val.containerFlag] at h
    | cons st p => cases st <;> simp [unpack, Val.at, Val.get] at h
  | arr e ih =>
    cases path with
    | nil => simp [unpack, Val.at, Val.containerFlag] at h; exact h.symm
    | cons st p =>
      cases st <;> simp only [unpack, Val.at, Val.get] at h
      · exact ih p h
      · simp at h
      · simp at h
  | struct a c iha ihc =>
    cases path with
    | nil => simp [unpack, Val.at, Val.containerFlag] at h; exact h.symm
    | cons st p =>
      cases st <;> simp only [unpack, Val.at, Val.get] at h
      · simp at h
      · exact iha p h
      · exact ihc p h
  | tuple a c iha ihc =>
    cases path with
    | nil => simp [unpack, Val.at, Val.containerFlag] at h
    | cons st p =>
      cases st <;> simp only [unpack, Val.at, Val.get] at h
      · simp at h
      · exact iha p h
      · exact ihc p h

/-- …so every in-place mutation of anything derived from an owned (non-borrowed) argument is rejected, and
    none derived from a borrowed argument is. -/
theorem nested_mutation_of_owned_rejected (s : Shape) (path : List Step) (b : Bool)
    (h : ((unpack true s).at path).bind Val.containerFlag = some b) :
    mutateAt (unpack true s) path = .error .frozen := by
  have := frozen_inherited_at_any_depth true s path b h
  subst this
  simp [mutateAt, h]

theorem nested_mutation_of_borrowed_accepted (s : Shape) (path : List Step) (b : Bool)
    (h : ((unpack false s).at path).bind Val.containerFlag = some b) :
    mutateAt (unpack false s) path = .ok () := by
  have := frozen_inherited_at_any_depth false s path b h
  subst this
  simp [mutateAt, h]

/-- **C22 (which arguments are frozen)** — table `decide` over the rule regenerated from `trace_function`'s source:
    an argument is handed to the traced body mutable iff it is borrowed; owned arguments *and arguments passed by
    value* (copyable types: neither flag) are frozen. -/
theorem only_borrowed_is_mutable :
    frozenRule .owned = some true ∧ frozenRule .byValue = some true ∧ frozenRule .borrowed = some false := by
  decide

/-- …so, with `frozen_inherited_at_any_depth`: every in-place mutation, at any depth, of anything derived from an
    argument that is not borrowed is rejected (structural; the rule enters through `only_borrowed_is_mutable`). -/
theorem mutation_of_non_borrowed_rejected (m : ArgMode) (hm : m ≠ .borrowed) (s : Shape) (path : List Step) (b : Bool)
    (h : ((unpack ((frozenRule m).getD false) s).at path).bind Val.containerFlag = some b) :
    mutateAt (unpack ((frozenRule m).getD false) s) path = .error .frozen := by
  have hr : (frozenRule m).getD false = true := by
    cases m with
    | owned => simp [only_borrowed_is_mutable.1]
    | byValue => simp [only_borrowed_is_mutable.2.1]
    | borrowed => exact absurd rfl hm
  rw [hr] at h ⊢
  exact nested_mutation_of_owned_rejected s path b h

/-- **C22 (frozenlist)**: `frozenlist` derives from `list` and overrides every mutating method of
    CPython 3.12's `list`, and each override, called on a real instance, raises `GuppyComptimeError` and leaves the list unchanged (`decide` over the table
    regenerated from tracing/frozenlist.py — names from the AST, the flag from behaviour; the domain is this finite table). -/
theorem frozen_rejects_all :
    frozenBases = ["list"] ∧ ∀ m ∈ mutatingListMethods, (m, true) ∈ frozenOverrides := by
  decide

/-- A copyable object may be used any number of times (after fix 76eef44 also when it is not droppable:
    the corpus keeps the witness `create copyable non-droppable; use; use`, which raised `KeyError`). -/
theorem copyable_reuse_accepted (s : State) (id : Nat) (o : Obj) (ho : s.objs id = some o)
    (hc : o.copyable = true) : ∃ s', useObj s id = .ok s' := by
  unfold useObj
  simp only [ho, hc, Bool.not_true, Bool.false_eq_true, and_false, ↓reduceIte]
  split <;> exact ⟨_, rfl⟩

/-! Non-vacuity: concrete traces for every verdict, and hypotheses that are satisfiable. -/
example : trace [.create false false, .borrow 0, .borrow 0, .use 0] = .ok () := rfl
example : trace [.create false false, .use 0, .use 0] = .error .alreadyUsed := rfl
example : trace [.create false false, .use 0, .borrow 0] = .error .alreadyUsed := rfl
example : trace [.create false false, .create true true, .use 1, .use 1] = .error .leaked := rfl
example : trace [.create false false, .mutate true, .use 0] = .error .frozen := rfl
example : trace [.create true false, .use 0, .use 0] = .ok () := rfl
-- array of structs of arrays, mutation three levels down (`xs[0].b[1] = …`)
example : mutateAt (unpack true (.arr (.struct .leaf (.arr .leaf)))) [.elem, .snd] = .error .frozen := rfl
example : mutateAt (unpack false (.arr (.tuple (.arr .leaf) .leaf))) [.elem, .fst] = .ok () := rfl
example : ∃ s, run State.empty [.create false false, .borrow 0] = .ok s ∧ ∃ id, Leaky s id :=
  ⟨_, rfl, 0, _, rfl, rfl, rfl⟩

end GuppyVerif.TraceOwn
