import GuppyVerif.Lemmas.C18
/-! # C18 — range() yields Python's sequence

Property theorems only (helpers in `Lemmas/C18.lean`, vocabulary in `Spec/C18.lean`, model of
`guppylang/std/iter.py` in `Model/Range.lean`).

Full statement of the property (FALSE of the code, see `range_overflow_counterexample` and
`range_wrong_on_overflow`, defect D12):

    ∀ start stop step, I64 start → I64 stop → I64 step → step ≠ 0 →
      ∀ fuel ≥ pyLen start stop step,
        (run fuel (range3 start stop step)).1 = pyRange start stop step ∧ terminated

What holds, and is proved here, is the statement under the hypothesis `NoOverflow`
(`start + len*step`, the value `__next__` computes after the last element, fits in 64 bits);
`range_wrong_on_overflow` shows the hypothesis is also necessary: whenever it fails the
iteration yields an extra, wrapped value.  For `step = 1` (one- and two-argument forms, and
the comptime form for `n < 2^63`) the hypothesis always holds and is not assumed. -/
namespace GuppyVerif.Range

/-- **C18 (the specification is Python's range)**: independent reading of `pyRange`, in the words
    of the docstring of `range` in iter.py: the yielded numbers are exactly the `start + i*step`
    that are `< stop` (ascending) resp. `> stop` (descending). -/
theorem pyRange_mem_iff (start stop step x : Int) (hne : step ≠ 0) :
    x ∈ pyRange start stop step ↔
      ∃ i : Nat, x = start + (i : Int) * step ∧ (0 < step → x < stop) ∧ (step < 0 → stop < x) := by
  unfold pyRange
  simp only [List.mem_map, List.mem_range]
  rcases Int.lt_or_gt_of_ne hne with hs | hs
  · have hns : ¬ (0 < step) := by omega
    constructor
    · rintro ⟨i, hi, rfl⟩
      refine ⟨i, rfl, fun h => absurd h hns, fun _ => ?_⟩
      by_cases he : stop < start
      · obtain ⟨m, hm, hlast, _⟩ := pyLen_down hs he
        have : (m : Int) * step ≤ (i : Int) * step :=
          Int.mul_le_mul_of_nonpos_right (by omega) (Int.le_of_lt hs)
        omega
      · rw [pyLen_down_empty hs (Int.not_lt.mp he)] at hi; omega
    · rintro ⟨i, rfl, _, h⟩
      have hx := h hs
      have hi0 : (i : Int) * step ≤ 0 :=
        Int.mul_nonpos_of_nonneg_of_nonpos (Int.natCast_nonneg i) (Int.le_of_lt hs)
      obtain ⟨m, hm, _, hend⟩ := pyLen_down hs (by omega : stop < start)
      refine ⟨i, ?_, rfl⟩
      rw [hm]
      apply Classical.byContradiction
      intro hc
      have : (i : Int) * step ≤ ((m : Int) + 1) * step :=
        Int.mul_le_mul_of_nonpos_right (by omega) (Int.le_of_lt hs)
      omega
  · have hns : ¬ (step < 0) := by omega
    constructor
    · rintro ⟨i, hi, rfl⟩
      refine ⟨i, rfl, fun _ => ?_, fun h => absurd h hns⟩
      by_cases he : start < stop
      · obtain ⟨m, hm, hlast, _⟩ := pyLen_up hs he
        have : (i : Int) * step ≤ (m : Int) * step :=
          Int.mul_le_mul_of_nonneg_right (by omega) (Int.le_of_lt hs)
        omega
      · rw [pyLen_up_empty hs (Int.not_lt.mp he)] at hi; omega
    · rintro ⟨i, rfl, h, _⟩
      have hx := h hs
      have hi0 : 0 ≤ (i : Int) * step :=
        Int.mul_nonneg (Int.natCast_nonneg i) (Int.le_of_lt hs)
      obtain ⟨m, hm, _, hend⟩ := pyLen_up hs (by omega : start < stop)
      refine ⟨i, ?_, rfl⟩
      rw [hm]
      apply Classical.byContradiction
      intro hc
      have : ((m : Int) + 1) * step ≤ (i : Int) * step :=
        Int.mul_le_mul_of_nonneg_right (by omega) (Int.le_of_lt hs)
      omega

example : (7 : Int) ∈ pyRange 1 9 3 ∧ (3 : Int) ≠ 0 ∧ ¬ ((10 : Int) ∈ pyRange 1 9 3) := by decide

/-- … and they come in order: the `i`-th element is `start + i*step`. -/
theorem pyRange_getElem (start stop step : Int) (i : Nat) (h : i < (pyRange start stop step).length) :
    (pyRange start stop step)[i] = start + (i : Int) * step := by
  simp [pyRange]

example : (pyRange 1 9 3).length = 3 ∧ (pyRange 1 9 3)[2]! = 7 := by decide

/-- **C18 (three-argument form), partial**: for all 64-bit `start`, `stop`, `step ≠ 0` such
    that `start + len*step` does not overflow, driving `range(start, stop, step)` with any
    fuel `≥ len` yields exactly Python's `list(range(start, stop, step))`, and the iterator has
    terminated (`__next__` returns `nothing()` in the final state). -/
theorem range_correct_partial (start stop step : Int) (h1 : I64 start) (h2 : I64 stop)
    (_h3 : I64 step) (hne : step ≠ 0) (hno : NoOverflow start stop step)
    (fuel : Nat) (hf : pyLen start stop step ≤ fuel) :
    (run fuel (range3 start stop step)).1 = pyRange start stop step ∧
      (run fuel (range3 start stop step)).2.next? = none := by
  unfold I64 at h1 h2
  unfold range3 pyRange
  rcases Int.lt_or_gt_of_ne hne with hs | hs
  · -- descending
    by_cases he : stop < start
    · obtain ⟨m, hm, hlast, hend⟩ := pyLen_down hs he
      have hov : I64 (start + ((m : Int) + 1) * step) := by
        rcases hno with h0 | h0
        · omega
        · rw [hm] at h0; simpa using h0
      obtain ⟨f, rfl⟩ : ∃ f, fuel = m + 1 + f := ⟨fuel - (m + 1), by omega⟩
      rw [run_yield_down stop step hs (by omega) m start f (by omega) hlast, wrap_id hov,
        run_of_none (next_down_none hs hend), hm, ← arith_eq_map]
      exact ⟨by simp, next_down_none hs hend⟩
    · have hn := next_down_none (cur := start) hs (Int.not_lt.mp he)
      rw [run_of_none hn, pyLen_down_empty hs (Int.not_lt.mp he)]
      exact ⟨rfl, hn⟩
  · -- ascending
    by_cases he : start < stop
    · obtain ⟨m, hm, hlast, hend⟩ := pyLen_up hs he
      have hov : I64 (start + ((m : Int) + 1) * step) := by
        rcases hno with h0 | h0
        · omega
        · rw [hm] at h0; simpa using h0
      obtain ⟨f, rfl⟩ : ∃ f, fuel = m + 1 + f := ⟨fuel - (m + 1), by omega⟩
      rw [run_yield_up stop step hs (by omega) m start f (by omega) hlast, wrap_id hov,
        run_of_none (next_up_none (Int.le_of_lt hs) hend), hm, ← arith_eq_map]
      exact ⟨by simp, next_up_none (Int.le_of_lt hs) hend⟩
    · have hn := next_up_none (cur := start) (Int.le_of_lt hs) (Int.not_lt.mp he)
      rw [run_of_none hn, pyLen_up_empty hs (Int.not_lt.mp he)]
      exact ⟨rfl, hn⟩

/-- non-vacuity: `range(-3, 10, 4)` satisfies every hypothesis; and the conclusion computes. -/
example : I64 (-3) ∧ I64 10 ∧ I64 4 ∧ (4 : Int) ≠ 0 ∧ NoOverflow (-3) 10 4 ∧ pyLen (-3) 10 4 ≤ 5 := by
  decide
example : (run 5 (range3 (-3) 10 4)).1 = [-3, 1, 5, 9] ∧ pyRange (-3) 10 4 = [-3, 1, 5, 9] := by decide
example : (run 9 (range3 7 (-2) (-3))).1 = [7, 4, 1] ∧ pyRange 7 (-2) (-3) = [7, 4, 1] := by decide
/-- the hypothesis can hold right at the boundary: `range(2^63-3, 2^63-1, 2)`, `last+step = 2^63-1` -/
example : NoOverflow 9223372036854775805 9223372036854775807 2 := by decide

/-- **C18, D12 (concrete witness)**: `range(2^63-2, 2^63-1, 2)` is `[2^63-2]` in Python, but
    `__next__` computes `2^63-2 + 2`, which wraps to `-2^63 < stop`: the iteration goes on. -/
theorem range_overflow_counterexample :
    pyRange 9223372036854775806 9223372036854775807 2 = [9223372036854775806] ∧
    (run 3 (range3 9223372036854775806 9223372036854775807 2)).1 =
      [9223372036854775806, -9223372036854775808, -9223372036854775806] ∧
    ¬ NoOverflow 9223372036854775806 9223372036854775807 2 := by
  decide

/-- non-vacuity of the witness: its arguments are legal 64-bit ints and the step is non-zero -/
example : I64 9223372036854775806 ∧ I64 9223372036854775807 ∧ I64 2 ∧ (2 : Int) ≠ 0 := by
  decide

/-- **C18, D12 (the hypothesis is necessary)**: for all 64-bit `start`, `stop`, `step ≠ 0`
    for which `start + len*step` overflows, one more call of `__next__` after Python's `len`
    elements yields an extra value, the wrapped `start + len*step`.  So the iteration never
    equals Python's sequence in exactly these cases. -/
theorem range_wrong_on_overflow (start stop step : Int) (h1 : I64 start) (h2 : I64 stop)
    (h3 : I64 step) (hne : step ≠ 0) (hov : ¬ NoOverflow start stop step) :
    (run (pyLen start stop step + 1) (range3 start stop step)).1 =
      pyRange start stop step ++ [wrap (start + (pyLen start stop step : Int) * step)] := by
  unfold I64 at h1 h2 h3
  unfold NoOverflow at hov
  unfold range3 pyRange
  rcases Int.lt_or_gt_of_ne hne with hs | hs
  · by_cases he : stop < start
    · obtain ⟨m, hm, hlast, hend⟩ := pyLen_down hs he
      rw [hm] at hov ⊢
      have hc : ((m + 1 : Nat) : Int) = (m : Int) + 1 := by simp
      rw [hc] at hov ⊢
      unfold I64 at hov
      have hm0 : (m : Int) * step ≤ 0 :=
        Int.mul_nonpos_of_nonneg_of_nonpos (Int.natCast_nonneg m) (Int.le_of_lt hs)
      have e : ((m : Int) + 1) * step = (m : Int) * step + step := by
        rw [Int.add_mul, Int.one_mul]
      rw [e] at hov hend ⊢
      have hw : wrap (start + ((m : Int) * step + step)) =
          start + ((m : Int) * step + step) + 18446744073709551616 := by unfold wrap; omega
      have hn := next_down_some (cur := wrap (start + ((m : Int) * step + step))) (stop := stop) hs
        (by omega)
      have := run_yield_down stop step hs (by omega) m start 1 (by omega) hlast
      rw [e, run_succ_of_some hn 0] at this
      rw [this, ← arith_eq_map]
      simp [run]
    · exact absurd (Or.inl (pyLen_down_empty hs (Int.not_lt.mp he))) hov
  · by_cases he : start < stop
    · obtain ⟨m, hm, hlast, hend⟩ := pyLen_up hs he
      rw [hm] at hov ⊢
      have hc : ((m + 1 : Nat) : Int) = (m : Int) + 1 := by simp
      rw [hc] at hov ⊢
      unfold I64 at hov
      have hm0 : 0 ≤ (m : Int) * step :=
        Int.mul_nonneg (Int.natCast_nonneg m) (Int.le_of_lt hs)
      have e : ((m : Int) + 1) * step = (m : Int) * step + step := by
        rw [Int.add_mul, Int.one_mul]
      rw [e] at hov hend ⊢
      have hw : wrap (start + ((m : Int) * step + step)) =
          start + ((m : Int) * step + step) - 18446744073709551616 := by unfold wrap; omega
      have hn := next_up_some (cur := wrap (start + ((m : Int) * step + step))) (stop := stop) hs
        (by omega)
      have := run_yield_up stop step hs (by omega) m start 1 (by omega) hlast
      rw [e, run_succ_of_some hn 0] at this
      rw [this, ← arith_eq_map]
      simp [run]
    · exact absurd (Or.inl (pyLen_up_empty hs (Int.not_lt.mp he))) hov

/-- non-vacuity: the D12 witness satisfies the hypotheses, in both directions -/
example : ¬ NoOverflow 9223372036854775806 9223372036854775807 2 ∧
    ¬ NoOverflow (-9223372036854775807) (-9223372036854775808) (-2) := by
  decide

/-- **C18 (two-argument form)**: `range(start, stop)` yields Python's sequence for ALL 64-bit
    `start`, `stop` (no overflow hypothesis: `last + 1 ≤ stop < 2^63`). -/
theorem range2_correct (start stop : Int) (h1 : I64 start) (h2 : I64 stop)
    (fuel : Nat) (hf : pyLen start stop 1 ≤ fuel) :
    (run fuel (range2 start stop)).1 = pyRange start stop 1 ∧
      (run fuel (range2 start stop)).2.next? = none := by
  have hno : NoOverflow start stop 1 := by
    unfold NoOverflow
    by_cases he : start < stop
    · right
      have : pyLen start stop 1 = (stop - start).toNat := by
        simp [pyLen, he]
      rw [this]
      unfold I64 at *
      omega
    · left; exact pyLen_up_empty (by decide) (Int.not_lt.mp he)
  exact range_correct_partial start stop 1 h1 h2 (by unfold I64; decide) (by decide) hno fuel hf

example : I64 (-2) ∧ I64 3 ∧ pyLen (-2) 3 1 ≤ 5 ∧ (run 5 (range2 (-2) 3)).1 = [-2, -1, 0, 1, 2] := by
  decide
/-- boundary: `range(2^63-2, 2^63-1)` -/
example : (run 2 (range2 9223372036854775806 9223372036854775807)).1 = [9223372036854775806] := by
  decide

/-- **C18 (one-argument form)**: `range(stop)` yields `0, 1, …, stop-1` (Python's sequence)
    for ALL 64-bit `stop`. -/
theorem range1_correct (stop : Int) (h : I64 stop) (fuel : Nat) (hf : pyLen 0 stop 1 ≤ fuel) :
    (run fuel (range1 stop)).1 = pyRange 0 stop 1 ∧ (run fuel (range1 stop)).2.next? = none :=
  range2_correct 0 stop (by unfold I64; decide) h fuel hf

example : I64 4 ∧ pyLen 0 4 1 ≤ 4 ∧ (run 4 (range1 4)).1 = [0, 1, 2, 3] ∧ pyRange 0 4 1 = [0, 1, 2, 3] := by
  decide
example : (run 4 (range1 (-4))).1 = [] ∧ pyRange 0 (-4) 1 = [] := by decide

/-- **C18 (comptime form, static size)**: for every comptime `n < 2^63`, `range(n)` carries the
    size annotation `n` and yields exactly the `n` values `0, …, n-1`, then terminates. -/
theorem range_comptime_size (n : Nat) (hn : (n : Int) < 9223372036854775808)
    (fuel : Nat) (hf : n ≤ fuel) :
    (rangeComptime n).size = n ∧
    (run fuel (rangeComptime n).iter).1 = (List.range n).map (fun (i : Nat) => (i : Int)) ∧
    (run fuel (rangeComptime n).iter).1.length = (rangeComptime n).size ∧
    (run fuel (rangeComptime n).iter).2.next? = none := by
  have hI : I64 (n : Int) := ⟨by omega, hn⟩
  have hlen : pyLen 0 (n : Int) 1 = n := by
    by_cases h0 : (0 : Int) < (n : Int)
    · have h0' : 0 < n := by omega
      simp [pyLen, h0']
    · have : n = 0 := by omega
      subst this; decide
  have key := range1_correct (n : Int) hI fuel (by omega)
  have hit : (rangeComptime n).iter = range1 (n : Int) := by
    unfold rangeComptime range1; rw [wrap_id hI]
  rw [hit]
  have hpy : pyRange 0 (n : Int) 1 = (List.range n).map (fun (i : Nat) => (i : Int)) := by
    unfold pyRange; rw [hlen]; apply List.map_congr_left; intro i _; omega
  refine ⟨rfl, by rw [key.1, hpy], ?_, key.2⟩
  rw [key.1, hpy]; simp [rangeComptime]

example : ((5 : Nat) : Int) < 9223372036854775808 ∧ (run 5 (rangeComptime 5).iter).1 = [0, 1, 2, 3, 4] ∧
    (rangeComptime 5).size = 5 := by decide

/-- **C18 (comptime form, sizes ≥ 2^63)**: FALSE of the code.  `stop: nat` is coerced to `int`
    by the no-op `nat.__int__`, so a comptime `n` with `2^63 ≤ n < 2^64` becomes the negative
    stop `n - 2^64`: the iterator is annotated with size `n` but yields nothing. -/
theorem range_comptime_large_empty (n : Nat) (h1 : 9223372036854775808 ≤ (n : Int))
    (h2 : (n : Int) < 18446744073709551616) (fuel : Nat) :
    (rangeComptime n).size = n ∧ (run fuel (rangeComptime n).iter).1 = [] := by
  refine ⟨rfl, ?_⟩
  have hw : wrap (n : Int) = (n : Int) - 18446744073709551616 := by unfold wrap; omega
  unfold rangeComptime
  rw [hw, run_of_none (next_up_none (by decide) (by omega))]

example : (9223372036854775808 : Int) ≤ ((9223372036854775808 : Nat) : Int) ∧
    ((9223372036854775808 : Nat) : Int) < 18446744073709551616 ∧
    (run 3 (rangeComptime 9223372036854775808).iter).1 = [] := by decide

end GuppyVerif.Range
