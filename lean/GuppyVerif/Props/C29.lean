import GuppyVerif.Lemmas.C29Snippet
/-! # C29 — Diagnostic rendering is total and faithful

Property theorems only.  The model (`Model/Render.lean`) mirrors `diagnostic.py` *after* the fix
commits (wrap only at whitespace; empty / blank texts; sub-diagnostic span truthiness).  The
specification vocabulary (`Spec/C29.lean`) reads rendered text back with its own functions
(`parseLine`, `numbered`, `words`, `vis`, `MarkerUnder`), independent of the rendering code.

Coordinates: a rendered row body shows the source line minus `r` columns of pure indentation, so
body index `j` is source column `j + r`. -/
namespace GuppyVerif.Render

/-! ## totality -/

/-- **C29 (total, wrap)**: `diagnostic.wrap` never raises and returns at least one line
    (after the fix; before it, empty and whitespace-only texts raised `ValueError`). -/
theorem wrap_total (text : Str) (w : Nat) (ii si : Str) :
    ∃ first rest, wrap text w ii si = .ok (first :: rest) := by
  obtain ⟨f, r, _, h⟩ := wrap_ok text w ii si
  exact ⟨_, _, h⟩

/-- **C29 (total, snippet)**: for a span inside the registered source that satisfies the explicit
    precondition `ShiftSafe` (what `Loc.shift_left` asserts), `render_snippet` terminates
    without error — for every source, label, line-number width, highlight kind and context size. -/
theorem render_total (src : List Str) (s : Span) (label : Option Str) (maxLn : Nat) (prim : Bool)
    (pfx : Nat) (hin : InSource src s) (hv : s.Valid) (hsafe : ShiftSafe src s pfx) :
    ∃ out, renderSnippet src s label maxLn prim pfx = .ok out := by
  obtain ⟨tail, rest, h, _⟩ := renderSnippet_shape src s label maxLn prim pfx hin hv hsafe
  exact ⟨_, h⟩

/-- the precondition is necessary: at every excluded point inside the source the code raises
    `AssertionError` (classification of the points excluded by `ShiftSafe`) -/
theorem shift_unsafe_raises (src : List Str) (s : Span) (label : Option Str) (maxLn : Nat) (prim : Bool)
    (pfx : Nat) (hin : InSource src s) (hv : s.Valid) (hsafe : ¬ ShiftSafe src s pfx) :
    renderSnippet src s label maxLn prim pfx = .error .assertion :=
  renderSnippet_unsafe src s label maxLn prim pfx hin hv hsafe

/-- spans whose endpoints are not inside the indentation of their lines (all token-based spans)
    satisfy the precondition -/
theorem token_spans_shift_safe (src : List Str) (s : Span) (pfx : Nat) (hin : InSource src s) (hv : s.Valid)
    (ht : TokenBased src s) : ShiftSafe src s pfx := by
  have hle := hv.le
  have hc := ctxLines_lt s pfx hin.1
  unfold ShiftSafe removed
  cases hm : minList ((block src s pfx).map leadingWs) with
  | none => simp
  | some lw =>
    have hmin := minList_le _ _ hm
    have hb := block_eq src s pfx hin hle
    have m1 : leadingWs (srcLine src s.start.line) ∈ (block src s pfx).map leadingWs := by
      rw [hb]
      simp only [List.map_map, List.mem_map, List.mem_range, Function.comp_apply]
      exact ⟨ctxLines s pfx, by omega, by congr 2; omega⟩
    have m2 : leadingWs (srcLine src s.stop.line) ∈ (block src s pfx).map leadingWs := by
      rw [hb]
      simp only [List.map_map, List.mem_map, List.mem_range, Function.comp_apply]
      exact ⟨ctxLines s pfx + (s.stop.line - s.start.line), by omega, by congr 2; omega⟩
    have := hmin _ m1
    have := hmin _ m2
    have := ht.1
    have := ht.2
    simp only
    split <;> omega

example : let src := ["def f():".toList, "                x = 1".toList]
    let s : Span := ⟨⟨2, 16⟩, ⟨2, 17⟩⟩
    InSource src s ∧ s.Valid ∧ TokenBased src s ∧ removed src s 0 = 12 := by
  refine ⟨by decide, by decide, by decide, by decide⟩

/-! ## line numbers -/

/-- **C29 (true line numbers)**: the numbered rows of a rendered snippet are exactly the context
    lines, the first and (if different) the last line of the span, in order; the row numbered `k`
    shows source line `k` minus `r` leading columns, where `r` is the same for all rows and every
    removed column is indentation (`r ≤` the leading whitespace of every shown line). -/
theorem line_numbers_true (src : List Str) (s : Span) (label : Option Str) (maxLn : Nat) (prim : Bool)
    (pfx : Nat) (out : List Str) (hin : InSource src s) (hv : s.Valid)
    (h : renderSnippet src s label maxLn prim pfx = .ok out) :
    ∃ r, (∀ k ∈ shown s pfx, r ≤ leadingWs (srcLine src k)) ∧
      numbered out = (shown s pfx).map (fun k => (k, (srcLine src k).drop r)) := by
  by_cases hsafe : ShiftSafe src s pfx
  · obtain ⟨tail, rest, h', _⟩ := renderSnippet_shape src s label maxLn prim pfx hin hv hsafe
    rw [h'] at h
    injection h with h
    refine ⟨removed src s pfx, ?_, ?_⟩
    · intro k hk
      have hle := hv.le
      have hc := ctxLines_lt s pfx hin.1
      unfold removed
      cases hm : minList ((block src s pfx).map leadingWs) with
      | none => simp
      | some lw =>
        have hmin := minList_le _ _ hm
        have hb := block_eq src s pfx hin hle
        have mk : leadingWs (srcLine src k) ∈ (block src s pfx).map leadingWs := by
          rw [hb]
          simp only [List.map_map, List.mem_map, List.mem_range, Function.comp_apply]
          unfold shown at hk
          simp only [List.mem_append, List.mem_map, List.mem_range] at hk
          rcases hk with ⟨i, hi, rfl⟩ | hk
          · exact ⟨i, by omega, rfl⟩
          · split at hk
            · simp at hk
            · simp only [List.mem_singleton] at hk
              subst hk
              exact ⟨ctxLines s pfx + (s.stop.line - s.start.line), by omega, by congr 2; omega⟩
        have := hmin _ mk
        simp only
        split <;> omega
    · rw [← h, numbered_snippetRows _ _ _ _ _ _ _ _ hin.1]
      rfl
  · rw [renderSnippet_unsafe src s label maxLn prim pfx hin hv hsafe] at h
    cases h

/-! ## markers -/

/-- **C29 (markers under the spanned columns)**: with `r` the number of trimmed indentation
    columns (`r ≤` both span columns), the row right after the last span line carries exactly
    `start.col - r` blanks and then `stop.col - start.col` highlight characters (single-line span:
    body indices `[start.col - r, stop.col - r)`, i.e. source columns `[start.col, stop.col)`), followed
    by nothing or by a blank and the label.  For a multi-line span the first line is marked from
    `start.col` to its end and the last line from its (trimmed) beginning to `stop.col`.
    The highlight character is `^` for the primary span and `-` otherwise. -/
theorem markers_under_columns (src : List Str) (s : Span) (label : Option Str) (maxLn : Nat) (prim : Bool)
    (pfx : Nat) (out : List Str) (hin : InSource src s) (hv : s.Valid)
    (h : renderSnippet src s label maxLn prim pfx = .ok out) :
    ∃ r tail, r ≤ s.start.col ∧ r ≤ s.stop.col ∧ (tail = [] ∨ ∃ t, tail = ' ' :: t) ∧
      (s.start.line = s.stop.line →
        MarkerUnder out s.stop.line ((srcLine src s.stop.line).drop r)
          (s.start.col - r) (s.stop.col - s.start.col) (if prim then '^' else '-') tail) ∧
      (s.start.line ≠ s.stop.line →
        MarkerUnder out s.start.line ((srcLine src s.start.line).drop r)
          (s.start.col - r) ((srcLine src s.start.line).length - s.start.col) (if prim then '^' else '-') [] ∧
        MarkerUnder out s.stop.line ((srcLine src s.stop.line).drop r)
          0 (s.stop.col - r) (if prim then '^' else '-') tail) := by
  by_cases hsafe : ShiftSafe src s pfx
  · obtain ⟨tail, rest, h', hspec⟩ := renderSnippet_shape src s label maxLn prim pfx hin hv hsafe
    rw [h'] at h
    injection h with h
    subst h
    have hs1 : removed src s pfx ≤ s.start.col := hsafe.1
    have hs2 : removed src s pfx ≤ s.stop.col := hsafe.2
    generalize hr : removed src s pfx = r at *
    generalize hhl : (if prim then '^' else '-') = hl at *
    generalize hll : (digits maxLn).length = ll at *
    let P : List Str := [renderLine ll [] none] ++
      (List.range' 0 (ctxLines s pfx)).map (fun i => renderLine ll (tline src r (s.start.line - ctxLines s pfx + i))
        (some (s.start.line - ctxLines s pfx + i)))
    let R : List Str := rest.map (renderLine ll · none)
    refine ⟨r, tail, hs1, hs2, hspec.tail_shape, ?_, ?_⟩
    · intro hsingle
      have hcols : s.start.col ≤ s.stop.col := by
        rcases hv with hv | hv <;> omega
      have hb : s.stop.col - r - (s.start.col - r) = s.stop.col - s.start.col := by
        omega
      refine ⟨P, renderLine ll (tline src r s.stop.line) (some s.stop.line),
        renderLine ll (List.replicate (s.start.col - r) ' ' ++ List.replicate (s.stop.col - s.start.col) hl ++ tail) none,
        R, ?_, parseLine_renderLine_some _ _ _, parseLine_renderLine_none _ _⟩
      simp only [snippetRows, hsingle, ↓reduceIte, highlight_eq, hb, P, R]
      simp only [List.append_assoc, List.cons_append, List.nil_append]
    · intro hmulti
      have hb : (tline src r s.start.line).length - (s.start.col - r)
          = (srcLine src s.start.line).length - s.start.col := by
        simp only [tline, List.length_drop]; omega
      let D : List Str := if s.stop.line = s.start.line + 1 then [] else [renderLine ll ['.', '.', '.'] none]
      let l1 := renderLine ll (tline src r s.start.line) (some s.start.line)
      let m1 := renderLine ll (List.replicate (s.start.col - r) ' ' ++
        List.replicate ((srcLine src s.start.line).length - s.start.col) hl ++ []) none
      let l2 := renderLine ll (tline src r s.stop.line) (some s.stop.line)
      let m2 := renderLine ll (List.replicate 0 ' ' ++ List.replicate (s.stop.col - r) hl ++ tail) none
      have hrows : snippetRows src s ll hl pfx r tail rest = P ++ l1 :: m1 :: (D ++ l2 :: m2 :: R) := by
        simp only [snippetRows, hmulti, ↓reduceIte, highlight_eq, hb, P, R, D, l1, m1, l2, m2, Nat.sub_zero,
          List.append_nil]
        simp only [List.append_assoc, List.cons_append, List.nil_append]
      constructor
      · exact ⟨P, l1, m1, D ++ l2 :: m2 :: R, hrows, parseLine_renderLine_some _ _ _, parseLine_renderLine_none _ _⟩
      · refine ⟨P ++ l1 :: m1 :: D, l2, m2, R, ?_, parseLine_renderLine_some _ _ _, parseLine_renderLine_none _ _⟩
        rw [hrows]; simp
  · rw [renderSnippet_unsafe src s label maxLn prim pfx hin hv hsafe] at h
    cases h

example : let src := ["def f():".toList, "                x = 1".toList]
    MarkerUnder
      [" | ".toList, "2 |     x = 1".toList, "  |     ^ no".toList]
      2 ((srcLine src 2).drop 12) (16 - 12) (17 - 16) '^' " no".toList :=
  ⟨[" | ".toList], "2 |     x = 1".toList, "  |     ^ no".toList, [], by decide, by decide, by decide⟩

/-! ## whole diagnostics: totality and content -/

/-- **C29 (total, diagnostic)**: if every span of the diagnostic (main span with its two context
    lines, and the span of every sub-diagnostic) lies inside the registered source and is
    shift-safe, `render_diagnostic` terminates without error — for all titles, labels, messages and
    any number of sub-diagnostics with or without spans, labels, messages. -/
theorem render_total_diag (file : Str) (src : List Str) (d : Diag) (hd : DiagOK src d) :
    ∃ out, renderDiagnostic file src d = .ok out := by
  obtain ⟨out, h, _⟩ := renderDiagnostic_ok file src d hd
  exact ⟨out, h⟩

/-- **C29 (content preserved)**: the visible (non-whitespace) characters of the title, of every
    label and of every message of the diagnostic and its sub-diagnostics appear, in order, in the
    rendered output. -/
theorem content_preserved (file : Str) (src : List Str) (d : Diag) (out : List Str) (hd : DiagOK src d)
    (h : renderDiagnostic file src d = .ok out) :
    ∀ t ∈ diagTexts d, (vis t).Sublist out.flatten := by
  obtain ⟨out', h', hc⟩ := renderDiagnostic_ok file src d hd
  rw [h'] at h
  injection h with h
  subst h
  exact hc

example : diagTexts ⟨.error, some ⟨⟨1, 0⟩, ⟨1, 1⟩⟩, "T".toList, some "lab".toList, none,
    [⟨.note, none, none, some "msg".toList⟩]⟩ = ["T".toList, "lab".toList, "msg".toList] := by decide

/-- wrapping neither drops nor reorders nor invents visible characters -/
theorem content_preserved_wrap (text : Str) (w : Nat) :
    vis (wrapLines text w).flatten = vis text :=
  vis_wrapLines text w

/-! ## wrapping -/

/-- **C29 (width respected)**: every line produced by `wrap` is its indent followed by a body that
    is at most `w` characters long, or else contains no whitespace at all (a single word longer than
    the width, which is deliberately not broken). -/
theorem width_respected (text : Str) (w : Nat) (ii si : Str) (out : List Str)
    (h : wrap text w ii si = .ok out) :
    ∀ l ∈ out, ∃ ind body, l = ind ++ body ∧ (ind = ii ∨ ind = si) ∧
      (body.length ≤ w ∨ ∀ c ∈ body, isWs c = false) := by
  obtain ⟨f, r, hw, hok⟩ := wrap_ok text w ii si
  rw [hok] at h
  injection h with h
  subst h
  have hwd := wrapLines_width text w
  rw [hw] at hwd
  intro l hl
  simp only [List.mem_cons, List.mem_map] at hl
  rcases hl with rfl | ⟨b, hb, rfl⟩
  · exact ⟨ii, f, rfl, Or.inl rfl, hwd f (by simp)⟩
  · exact ⟨si, b, rfl, Or.inr rfl, hwd b (by simp [hb])⟩

/-- **C29 (wrapped only at whitespace)**: the whitespace-delimited words of the wrapped lines, read
    line by line, are exactly the words of the text, in order — no word is ever split across lines
    (not at hyphens, not when longer than the width), none is lost, none is merged with a neighbour.
    Holds at full strength after fix commit 55bf698; before it `textwrap`'s defaults
    `break_long_words` / `break_on_hyphens` made it false (D13). -/
theorem wrap_at_whitespace (text : Str) (w : Nat) :
    (wrapLines text w).flatMap words = words text :=
  words_wrapLines text w

example : words "the value is non-copyable".toList
    = ["the".toList, "value".toList, "is".toList, "non-copyable".toList] := by decide

/-! ## spans made from AST nodes (`to_span`, after fix d720416) -/

/-- **C29 (byte offsets → columns)**: for every line and every byte offset that lies on a character
    boundary (`byteLen pre` for a split `pre ++ post` of the line — all offsets `ast` reports), the
    converted column is the number of characters before it.  Before the fix `to_span` used the byte
    offset itself, which is wrong as soon as `pre` contains a non-ASCII character. -/
theorem char_column_on_boundary (pre post : Str) :
    charColumn (pre ++ post) (byteLen pre) = pre.length := by
  rw [← utf8Bytes_eq]; exact charColumn_boundary pre post

/-- `to_span` of a single-line node covering the token `tok` (non-empty) on line `k`, whose AST offsets
    are the byte lengths of what precedes its start and its end: the span's columns are the
    character positions of the token. -/
theorem to_span_token (lines : List Str) (k : Nat) (pre tok post : Str) (htok : tok ≠ [])
    (hline : lines.getD (k - 1) [] = pre ++ tok ++ post) :
    toSpan lines k (byteLen pre) k (byteLen (pre ++ tok))
      = ⟨⟨k, pre.length⟩, ⟨k, pre.length + tok.length⟩⟩ := by
  have hb : byteLen (pre ++ tok) ≠ 0 := by
    cases tok with
    | nil => exact absurd rfl htok
    | cons c cs =>
      have := utf8Len_pos c
      rw [← utf8Bytes_eq, utf8Bytes_append]
      simp only [utf8Bytes]; omega
  unfold toSpan
  simp only [hb, ↓reduceIte]
  split
  · rename_i h0
    subst h0
    have h1 := char_column_on_boundary pre (tok ++ post)
    have h2 := char_column_on_boundary (pre ++ tok) post
    simp only [hline, List.append_assoc] at h1 h2 ⊢
    rw [h1, h2]; simp
  · have h1 := char_column_on_boundary pre (tok ++ post)
    have h2 := char_column_on_boundary (pre ++ tok) post
    simp only [hline, List.append_assoc] at h1 h2 ⊢
    rw [h1, h2]; simp

/-- **C29 (markers under the token, end to end)**: if the span comes from `to_span` of a node covering
    token `tok` on line `k` (linecache line `pre ++ tok ++ post`, displayed line `pre ++ tok ++ post'`),
    the marker row has `|pre| − r` blanks and exactly `|tok|` markers: in source coordinates (body index
    + `r`) the markers cover exactly the characters of `tok`, whatever non-ASCII text precedes it. -/
theorem markers_under_token (src lines : List Str) (k : Nat) (pre tok post post' : Str) (htok : tok ≠ [])
    (hline : lines.getD (k - 1) [] = pre ++ tok ++ post) (hsrc : srcLine src k = pre ++ tok ++ post')
    (hk : 1 ≤ k ∧ k ≤ src.length) (label : Option Str) (maxLn : Nat) (prim : Bool) (pfx : Nat) (out : List Str)
    (h : renderSnippet src (toSpan lines k (byteLen pre) k (byteLen (pre ++ tok))) label maxLn prim pfx = .ok out) :
    ∃ r tail, r ≤ pre.length ∧
      MarkerUnder out k ((srcLine src k).drop r) (pre.length - r) tok.length (if prim then '^' else '-') tail := by
  rw [to_span_token lines k pre tok post htok hline] at h
  have hin : InSource src ⟨⟨k, pre.length⟩, ⟨k, pre.length + tok.length⟩⟩ := by
    refine ⟨hk.1, hk.2, ?_, ?_⟩ <;> simp [hsrc] <;> omega
  have hv : Span.Valid ⟨⟨k, pre.length⟩, ⟨k, pre.length + tok.length⟩⟩ := Or.inr ⟨rfl, by simp⟩
  obtain ⟨r, tail, h1, _, _, hs, _⟩ := markers_under_columns src _ label maxLn prim pfx out hin hv h
  refine ⟨r, tail, h1, ?_⟩
  have := hs rfl
  simpa using this

example : charColumn "s = \"é字\"; x = y".toList (byteLen "s = \"é字\"; x = ".toList) = 14
    ∧ byteLen "s = \"é字\"; x = ".toList = 17 := by decide

/-! ## registrations over time -/

/-- **C29 (latest registration wins)**: after any history of `add_file` calls (with or without
    explicit content, file names repeated at will) on top of any map, looking a file up yields the
    lines stored by the last call for that name; other names are unaffected. -/
theorem latest_registration_wins (m : SourceMap) (ops : List SrcOp) (file : Str) :
    (m.applyOps ops).lookup file = (match latest ops file with
      | some ls => some ls
      | none => m.lookup file) := by
  induction ops generalizing m with
  | nil => simp [SourceMap.applyOps, latest]
  | cons op ops ih =>
    have h := ih (m.addFile op)
    unfold SourceMap.applyOps at h ⊢
    rw [List.foldl_cons, h]
    have hl : latest (op :: ops) file = (match latest ops file with
        | some ls => some ls
        | none => if op.file = file then some op.stored else none) := rfl
    rw [hl]
    cases latest ops file with
    | some ls => rfl
    | none =>
      simp only [SourceMap.addFile, SourceMap.lookup]
      split <;> rfl

/-- a snippet is rendered from the latest registered text of its file (so all theorems above
    apply to that text), and rendering a span of a never-registered file raises `KeyError` -/
theorem render_shows_latest (ops : List SrcOp) (file : Str) (s : Span) (label : Option Str) (maxLn : Nat)
    (prim : Bool) (pfx : Nat) :
    renderIn ops file s label maxLn prim pfx = (match latest ops file with
      | some src => renderSnippet src s label maxLn prim pfx
      | none => .error .key) := by
  unfold renderIn
  rw [latest_registration_wins]
  cases latest ops file <;> rfl

example : latest [.content "f".toList "old".toList, .content "g".toList "x".toList,
    .cache "f".toList ["new  \n".toList]] "f".toList = some ["new".toList] := by decide

end GuppyVerif.Render
