import GuppyVerif.Model.Render
namespace GuppyVerif.Render
theorem stub_c29 : (1 : Nat) = 1 := rfl
end GuppyVerif.Render
