import GuppyVerif.Lemmas.C25
/-! # C25 — Modifier blocks lower to the matching modifier operations (partial)

Model: `Model/Modifier.lean` (`compile_modified_block` on the three lists kept by
`ModifiedBlock`).  The code emits one `DaggerModifier` iff the number of daggers is odd, then the
`PowerModifier`s in source order, then the `ControlModifier`s in source order — *not* one
operation per modifier in cross-kind source order as the statement literally says.  Both
differences are semantics-preserving (dagger is an involution; modifiers of different kinds
commute), so the statement is read modulo the congruence `Equiv` of `Spec/C25.lean`, which is
defined inductively from exactly those two laws and never reorders modifiers of one kind. -/
namespace GuppyVerif.Modifier

/-- **C25 (operations match the source, modulo the congruence)**: for every modifier list
    (any length, any repetition), the emitted operation list is congruent to the source list. -/
theorem ops_equiv_source (ms : List Mod) : Equiv ms (emit ms) := by
  have h := emit_foldl ms ⟨0, [], []⟩
  have h0 : emitPushed ⟨0, [], []⟩ = [] := rfl
  rw [h0, List.nil_append] at h
  exact h

/-- **C25 (per-kind order, arities and exponents preserved; dagger parity)**: the emitted
    powers are the source powers in source order with the same exponent expressions, the
    emitted controls are the source controls in source order with the same arities, and a
    dagger is emitted iff the source has an odd number of daggers. -/
theorem emit_projections (ms : List Mod) :
    powers (emit ms) = powers ms ∧ controls (emit ms) = controls ms ∧
      daggered (emit ms) = daggered ms :=
  let h := (ops_equiv_source ms).invariants
  ⟨h.2.1.symm, h.2.2.symm, h.1.symm⟩

/-- **C25 (the congruence is exactly "same projections")**: two stacks are congruent iff they
    agree on dagger parity, on the sequence of powers and on the sequence of controls.  So the
    reading modulo `Equiv` loses nothing but cross-kind order and cancelled dagger pairs. -/
theorem equiv_iff_projections (a b : List Mod) :
    Equiv a b ↔ (daggered a = daggered b ∧ powers a = powers b ∧ controls a = controls b) := by
  constructor
  · exact Equiv.invariants
  · rintro ⟨hd, hp, hc⟩
    have he : emit a = emit b := by
      simp only [emit, pushAll_eq, emitPushed, hp, hc]
      have : (List.count Mod.dagger a % 2 = 1) ↔ (List.count Mod.dagger b % 2 = 1) := by
        simp only [daggered] at hd
        constructor <;> intro h <;> simp_all
      by_cases h : List.count Mod.dagger a % 2 = 1
      · simp [h, this.mp h]
      · have h' : ¬ List.count Mod.dagger b % 2 = 1 := fun hb => h (this.mpr hb)
        simp [h, h']
    exact .trans (ops_equiv_source a) (he ▸ .symm (ops_equiv_source b))

/-- **C25 (normal form)**: the emitted list is a canonical representative: congruent stacks
    emit the same operations, and emitting is idempotent. -/
theorem equiv_iff_emit_eq (a b : List Mod) : Equiv a b ↔ emit a = emit b := by
  constructor
  · intro h
    have ⟨hd, hp, hc⟩ := h.invariants
    simp only [emit, pushAll_eq, emitPushed, hp, hc]
    simp only [daggered] at hd
    by_cases h1 : List.count Mod.dagger a % 2 = 1 <;> by_cases h2 : List.count Mod.dagger b % 2 = 1 <;>
      simp_all
  · intro h
    exact .trans (ops_equiv_source a) (h ▸ .symm (ops_equiv_source b))

/-- **C25 (captures threaded, controls handed back)**: for every list of controls (any
    arities) and captured variables as the checker records them (`capture`, which stores the
    in-out flag on each variable): (1) the values wired into the indirect call are, position by
    position, what the modified function's type expects — this is about the control arrays (the
    captured halves of both sides are the same expression, audit F4); (2) the outputs the compiler
    stores back, which it selects by the stored *flag*, are exactly the outputs the signature
    declares, which it selects by the *type* — three code sites (`_set_inout_if_non_copyable`,
    `check_modified_block_signature`, `compile_modified_block`) that must agree, and do because the
    flag is set from copyability (setting it from linearity instead breaks (2), see
    `handBack_needs_flag_from_copyability`); (3) the reordering is a stable partition. -/
theorem captures_threaded (cs : List (Nat × Nat)) (vs : List Var) :
    callArgs cs (capture vs) = fnInputs cs (capture vs) ∧
      handBack cs (capture vs) = fnOutputs cs (capture vs) ∧
      (order vs).Perm vs ∧
      (order vs).filter (fun v => !v.copyable) = vs.filter (fun v => !v.copyable) ∧
      (order vs).filter (·.copyable) = vs.filter (·.copyable) := by
  have key : ∀ (cs : List (Nat × Nat)) (base : List Slot),
      cs.foldl (fun acc c => Slot.ctrl c.1 c.2 :: acc) base =
        cs.reverse.map (fun c => Slot.ctrl c.1 c.2) ++ base := by
    intro cs
    induction cs with
    | nil => intro base; rfl
    | cons c cs ih => intro base; simp [List.foldl_cons, ih]
  have hflag : ∀ l : List Var, (∀ v, v ∈ l → v.inout = !v.copyable) →
      l.filter (·.inout) = l.filter (fun v => !v.copyable) := by
    intro l h
    apply List.filter_congr
    intro v hv; rw [h v hv]
  have hcap : ∀ v, v ∈ order (capture vs) → v.inout = !v.copyable := by
    intro v hv
    have : v ∈ capture vs := by
      simp only [order, List.mem_append, List.mem_filter] at hv
      rcases hv with h | h <;> exact h.1
    simp only [capture, List.mem_map] at this
    rcases this with ⟨w, _, rfl⟩
    rfl
  refine ⟨?_, ?_, ?_, ?_, ?_⟩
  · simp [callArgs, fnInputs, key]
  · simp [handBack, fnOutputs, key, hflag _ hcap]
  · unfold order
    have := List.filter_append_perm (fun v : Var => !v.copyable) vs
    refine List.Perm.trans ?_ this
    apply List.Perm.append_left
    have : (fun v : Var => !(!v.copyable)) = (fun v : Var => v.copyable) := by
      funext v; simp
    rw [this]
  · simp [order, List.filter_append, List.filter_filter]
  · simp [order, List.filter_append, List.filter_filter]

/-- the agreement in `captures_threaded` (2) is not automatic: with the flag taken from another
    predicate (here: never set, as for a droppable non-copyable array under the seeded change
    C25/m3) the compiler hands back fewer values than the signature declares -/
theorem handBack_needs_flag_from_copyability :
    handBack [] [⟨0, false, false⟩] ≠ fnOutputs [] [⟨0, false, false⟩] := by decide

/-- **C25 (control qubits handed back, element level)**: take any block with any control items
    over individual qubits, and let `ret` be *whatever* the modified function returns for a control
    array (length-preserving, otherwise arbitrary).  Then after the block every control variable
    names the wire that was taken from it **iff** the function returns each control array
    element-wise in place.  So the compiler's pack → call → unpack adds no permutation of its own:
    the only way a control variable can end up on another wire is the callee's doing — and with
    the in-place semantics of `ControlModifier` (assumed, outside the repository) nothing moves
    (`control_qubits_returned_in_place`). -/
theorem control_qubits_returned (ret : List Nat → List Nat) (controls : List (List Nat))
    (hlen : ∀ vars, vars ∈ controls → (ret (packCtrl vars)).length = vars.length) :
    (∀ ps, ps ∈ blockHandBack ret controls → ∀ p, p ∈ ps → p.1 = p.2) ↔
      ∀ vars, vars ∈ controls → ret (packCtrl vars) = vars := by
  have hzip : ∀ (a b : List Nat), b.length = a.length → ((∀ p, p ∈ a.zip b → p.1 = p.2) ↔ b = a) := by
    intro a
    induction a with
    | nil => intro b hb; cases b <;> simp_all
    | cons x xs ih =>
      intro b hb
      cases b with
      | nil => simp at hb
      | cons y ys =>
        have hl : ys.length = xs.length := by simpa using hb
        simp only [List.zip_cons_cons, List.mem_cons, forall_eq_or_imp, List.cons.injEq]
        rw [ih ys hl]
        constructor
        · rintro ⟨h1, h2⟩; exact ⟨h1.symm, h2⟩
        · rintro ⟨h1, h2⟩; exact ⟨h1.symm, h2⟩
  unfold blockHandBack unpackAssign
  constructor
  · intro h vars hv
    refine (hzip vars (ret (packCtrl vars)) (hlen vars hv)).mp ?_
    exact h _ (List.mem_map.mpr ⟨vars, List.mem_reverse.mpr hv, rfl⟩)
  · intro h ps hps
    simp only [List.mem_map, List.mem_reverse] at hps
    rcases hps with ⟨vars, hv, rfl⟩
    exact (hzip vars (ret (packCtrl vars)) (hlen vars hv)).mpr (h vars hv)

/-- the instance for the assumed in-place semantics, in the form the driver evaluates -/
theorem control_qubits_returned_in_place (controls : List (List Nat)) :
    handBackElems controls = blockHandBack id controls ∧
      ∀ ps, ps ∈ handBackElems controls → ∀ p, p ∈ ps → p.1 = p.2 := by
  refine ⟨rfl, ?_⟩
  exact (control_qubits_returned id controls (fun _ _ => rfl)).mpr (fun _ _ => rfl)

/-- non-vacuity: a callee that swaps the two qubits of `control(c, d)` is detected by the iff -/
example : ¬ ∀ ps, ps ∈ blockHandBack List.reverse [[3, 5]] → ∀ p, p ∈ ps → p.1 = p.2 := by
  intro h
  have := (control_qubits_returned List.reverse [[3, 5]] (by intro v hv; simp [packCtrl])).mp h [3, 5] (by simp)
  simp [packCtrl] at this
example : blockHandBack id [[3, 5], [7]] = [[(7, 7)], [(3, 3), (5, 5)]] := by decide

/-- handing the unpacked qubits back from the END of the list (seeded change C25/m6) swaps the
    variables as soon as a control lists two distinct qubits: the first variable ends up naming
    the last qubit's wire.  For all lists of at least two pairwise distinct variables. -/
theorem pop_order_permutes (v w : Nat) (rest : List Nat) (hnd : (v :: w :: rest).Nodup) :
    unpackAssignPop (v :: w :: rest) (packCtrl (v :: w :: rest)) ≠ (v :: w :: rest).map (fun x => (x, x)) := by
  intro h
  unfold unpackAssignPop packCtrl at h
  -- the head pair is (v, last element), and the last element is not v
  have hne : (w :: rest) ≠ [] := by simp
  have hlast : (v :: w :: rest).reverse.head? = some ((w :: rest).getLast hne) := by
    rw [List.head?_reverse]
    simp [List.getLast?_cons_cons, List.getLast?_eq_some_getLast hne]
  cases hr : (v :: w :: rest).reverse with
  | nil => simp at hr
  | cons x xs =>
    rw [hr] at h hlast
    simp only [List.head?_cons, Option.some.injEq] at hlast
    simp only [List.zip_cons_cons, List.map_cons, List.cons.injEq, Prod.mk.injEq, true_and] at h
    have hx : x = v := h.1
    have hmem : (w :: rest).getLast hne ∈ (w :: rest) := List.getLast_mem hne
    rw [← hlast, hx] at hmem
    exact (List.nodup_cons.mp hnd).1 hmem

/-- **D17 (the defect, on the pre-fix wiring)**: passing the control arrays in source order
    does not match the function type as soon as two controls differ in arity
    (`with control(a), control(b, c):`). -/
theorem d17_old_order_mismatch :
    callArgsOld [(0, 1), (1, 2)] [⟨0, false, true⟩] ≠ fnInputs [(0, 1), (1, 2)] [⟨0, false, true⟩] ∧
      callArgs [(0, 1), (1, 2)] [⟨0, false, true⟩] = fnInputs [(0, 1), (1, 2)] [⟨0, false, true⟩] := by
  decide

/-! ### Non-vacuity -/

/-- `with control(c0), power(n), dagger, control(c1, c2), power(m), dagger, dagger:` -/
example : emit [.control 0 1, .power 0, .dagger, .control 1 2, .power 1, .dagger, .dagger] =
    [.dagger, .power 0, .power 1, .control 0 1, .control 1 2] := by decide

/-- the congruence does not identify stacks that differ in arity, exponent or order within a kind -/
example : ¬ Equiv [.control 0 1] [.control 0 2] := by
  intro h; have := h.invariants.2.2; simp [controls] at this
example : ¬ Equiv [.power 0, .power 1] [.power 1, .power 0] := by
  intro h; have := h.invariants.2.1; simp [powers] at this
example : ¬ Equiv [.dagger] [] := by
  intro h; have := h.invariants.1; simp [daggered] at this

end GuppyVerif.Modifier
