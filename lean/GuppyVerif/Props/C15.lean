import GuppyVerif.Lemmas.C15
/-! # C15 — Overloaded calls pick the first applicable variant

Model: `Model/Overload.lean` (the repaired resolution loop, each attempt on a fresh copy of
the arguments, over a model of how a variant accepts a call: arity, left-to-right argument
checking with numeric widening nat→int→float, tuple literals element-wise, quantified
parameters, result-type match in checking position).  `exp = none` is synthesis position,
`exp = some ty` checking position. -/
namespace GuppyVerif.Overload

/-! Reading guide (audit F4).  `first_match`, `reject_iff_none`, `same_as_direct`, `invalid_iff`,
`resolveR_of_valid`, `nested_accepts_iff` and `shared_eq_fresh_of_no_mutation` are statements about the
*resolution loop* only: they hold for any per-variant acceptance test and use the model's `attempt`
as an opaque function (`accepts`/`direct` are defined from it).  They establish: order of trial,
stop at the first success, no skipping of ill-formed variants, independence of attempts (fresh
arguments).  They do NOT establish that `attempt` is the right acceptance test; for that there is
`accepts_scalar_iff` (scalar fragment, against an independent widening relation) and, beyond that
fragment, only the tie (direct calls of each variant through the real checker). -/

/-- **C15 (first match)**: the call resolves to variant `i` with outcome `o` (result type and
    checked argument types) **iff** `i` is the position of the first listed variant that
    accepts the arguments (and the expected result type), and `o` is what that variant's own
    check of the original arguments produces.  For all variant lists, argument lists and both
    positions. -/
theorem first_match (vs : List Variant) (args : List Arg) (exp : Option Ty)
    (i : Nat) (o : Outcome) :
    resolve vs args exp = some (i, o) ↔
      FirstAccepting (accepts · args exp) vs i ∧
        ∃ v, vs[i]? = some v ∧ direct v args exp = some o := by
  unfold resolve FirstAccepting accepts direct
  rw [go_some_iff]
  constructor
  · rintro ⟨j, v, hi, hv, hat, hprev⟩
    have hij : i = j := by omega
    subst hij
    refine ⟨⟨⟨v, hv, by show (attempt v args exp).1.isSome = true; rw [hat]; rfl⟩, ?_⟩, v, hv, hat⟩
    intro j' hj' w hw
    show (attempt w args exp).1.isSome = false
    rw [hprev j' hj' w hw]; rfl
  · rintro ⟨⟨_, hprev⟩, v, hv, hat⟩
    refine ⟨i, v, by omega, hv, hat, ?_⟩
    intro j' hj' w hw
    have : (attempt w args exp).1.isSome = false := hprev j' hj' w hw
    cases h : (attempt w args exp).1 with
    | none => rfl
    | some x => rw [h] at this; cases this

/-- **C15 (rejected only when no variant accepts)**. -/
theorem reject_iff_none (vs : List Variant) (args : List Arg) (exp : Option Ty) :
    resolve vs args exp = none ↔ ∀ v, v ∈ vs → accepts v args exp = false := by
  unfold resolve accepts
  rw [go_none_iff]
  constructor
  · intro h v hv; rw [h v hv]; rfl
  · intro h v hv
    have := h v hv
    cases h' : (attempt v args exp).1 with
    | none => rfl
    | some x => rw [h'] at this; cases this

/-- **C15 (same as a direct call)**: whatever the overloaded call resolves to is literally
    the outcome of calling the chosen variant directly on the original arguments. -/
theorem same_as_direct (vs : List Variant) (args : List Arg) (exp : Option Ty)
    (i : Nat) (o : Outcome) (h : resolve vs args exp = some (i, o)) :
    ∃ v, vs[i]? = some v ∧ direct v args exp = some o :=
  ((first_match vs args exp i o).mp h).2

/-- **C15 (why the copy is needed, and that it suffices)**: the loop that reuses the argument
    objects agrees with the repaired loop whenever failed attempts leave the arguments as
    they were; mutation by failed attempts is the only way the two can differ. -/
theorem shared_eq_fresh_of_no_mutation (vs : List Variant) (args : List Arg) (exp : Option Ty)
    (h : ∀ v, v ∈ vs → (attempt v args exp).1 = none → (attempt v args exp).2 = args) :
    resolveShared vs args exp = resolve vs args exp := by
  unfold resolveShared resolve
  suffices ∀ k, resolveShared.go exp vs args k = resolve.go args exp vs k from this 0
  induction vs with
  | nil => intro k; rfl
  | cons v rest ih =>
    intro k
    unfold resolveShared.go resolve.go
    rcases hv : attempt v args exp with ⟨r, a⟩
    cases r with
    | some t => rfl
    | none =>
      have ha : a = args := by
        have := h v (List.mem_cons_self) (by rw [hv])
        rw [hv] at this; exact this
      subst ha
      exact ih (fun w hw => h w (List.mem_cons_of_mem _ hw)) (k + 1)

/-- the D8 witness: variants `(tuple[float, bool]) -> int` and `(tuple[int, int]) -> int`,
    call `ov((a, 2))` with `a : int` -/
def d8Variants : List Variant :=
  [.plain { params := [.tup [.float, .bool]], ret := .int }, .plain { params := [.tup [.int, .int]], ret := .int }]
def d8Args : List Arg := [.tup [.typed .int, .intLit false]]

/-- **D8 (the defect, on the pre-fix loop)**: reusing the argument objects violates the
    property — the second variant accepts the call directly, yet the shared loop rejects it
    (the failed first attempt has replaced the first tuple element by its `float` form).
    The repaired loop resolves it to variant 1. -/
theorem d8_shared_violates_first_match :
    resolveShared d8Variants d8Args none = none ∧
      accepts (.plain { params := [.tup [.int, .int]], ret := .int }) d8Args none = true ∧
        (resolve d8Variants d8Args none).map (·.1) = some 1 := by
  refine ⟨?_, ?_, ?_⟩ <;> decide

/-- **C15 ("whose signature accepts the arguments", scalar fragment)**: for variants and arguments
    of scalar type the model's acceptance test is the language's rule, stated independently in
    `Spec/C15.lean`: same number of arguments, every argument type widens to its parameter type
    along nat → int → float (never narrowing, bool and qubit only to themselves), and in checking
    position the result type is exactly the expected one.  For all lists, no size bound.
    (Tuples, literals, quantified and `@comptime` parameters are covered by the tie only.) -/
theorem accepts_scalar_iff (ps as : List Scalar) (ret : Scalar) (exp : Option Scalar) :
    accepts (.plain { params := ps.map Scalar.toTy, ret := ret.toTy })
        (as.map (fun a => Arg.typed a.toTy)) (exp.map Scalar.toTy) = true ↔
      AcceptsScalar ps ret as exp := by
  unfold accepts attempt attemptSig AcceptsScalar
  simp only [List.length_map]
  by_cases hlen : ps.length = as.length
  · have hca := checkArgs_scalar ps as hlen
    simp only [hlen, bne_self_eq_false, Bool.false_eq_true, ↓reduceIte]
    rcases hres : checkArgs [] (ps.map Scalar.toTy) [] (as.map (fun a => Arg.typed a.toTy)) with ⟨r, a'⟩
    rw [hres] at hca
    rw [hres]
    rcases hca.2 with h | h
    · simp only at h
      subst h
      simp only [subst_scalar, closed_scalar, Bool.not_true, Bool.false_eq_true, ↓reduceIte]
      have hall : AllWiden as ps := hca.1.mp rfl
      cases exp with
      | none => simp [hall]
      | some e =>
        simp only [Option.map_some, beq_scalar, Option.some.injEq, forall_eq', hall, true_and]
        by_cases he : e = ret <;> simp [he]
    · simp only at h
      subst h
      have hnot : ¬ AllWiden as ps := fun hw => by
        have := hca.1.mpr hw
        cases this
      simp [hnot]
  · have hne : (ps.length != as.length) = true := by simpa using hlen
    simp only [hne, ↓reduceIte, Option.isSome_none, Bool.false_eq_true, false_iff]
    rintro ⟨hw, _⟩
    have : ∀ (as ps : List Scalar), AllWiden as ps → ps.length = as.length := by
      intro as ps h
      induction h with
      | nil => rfl
      | cons _ _ ih => simp [ih]
    exact hlen (this as ps hw)

/-- **C15 (an overloaded function as a variant)**: it accepts exactly when one of its own
    variants accepts. -/
theorem nested_accepts_iff (ss : List Sig) (args : List Arg) (exp : Option Ty) :
    accepts (.nested ss) args exp = ss.any (fun s => accepts (.plain s) args exp) := by
  unfold accepts attempt resolveSigs
  suffices ∀ k, ((match resolveSigs.go args exp ss k with
      | some (j, o) => ((some { o with inner := some j } : Option Outcome), args)
      | none => (none, args)).1.isSome) = ss.any (fun s => (attemptSig s args exp).1.isSome) from this 0
  induction ss with
  | nil => intro k; rfl
  | cons s rest ih =>
    intro k
    unfold resolveSigs.go
    rcases hs : attemptSig s args exp with ⟨r, a⟩
    cases r with
    | some o => simp [hs]
    | none => simp [hs, ih (k + 1)]

/-- **C15 (ill-formed variants are never skipped)**: the call fails with the signature
    diagnostic of variant `i` iff `i` is ill-formed and every variant listed before it is
    well-formed and does not accept — i.e. exactly when the first-match search reaches it, as
    a direct call of that variant would fail. -/
theorem invalid_iff (vs : List Variant) (args : List Arg) (exp : Option Ty) (i : Nat) :
    resolveR vs args exp = .invalid i ↔
      (∃ v, vs[i]? = some v ∧ v.isInvalid = true) ∧
        ∀ j, j < i → ∀ w, vs[j]? = some w → w.isInvalid = false ∧ accepts w args exp = false := by
  unfold resolveR accepts
  rw [goR_invalid_iff]
  constructor
  · rintro ⟨j, hi, hv, hprev⟩
    have : i = j := by omega
    subst this
    refine ⟨hv, fun j' hj' w hw => ?_⟩
    have := hprev j' hj' w hw
    exact ⟨this.1, by rw [this.2]; rfl⟩
  · rintro ⟨hv, hprev⟩
    refine ⟨i, by omega, hv, fun j' hj' w hw => ?_⟩
    have := hprev j' hj' w hw
    refine ⟨this.1, ?_⟩
    cases h : (attempt w args exp).1 with
    | none => rfl
    | some x => rw [h] at this; cases this.2

/-- **C15 (well-formed sets)**: without ill-formed variants the full loop is the loop of
    `first_match` / `reject_iff_none`. -/
theorem resolveR_of_valid (vs : List Variant) (args : List Arg) (exp : Option Ty)
    (h : ∀ v, v ∈ vs → v.isInvalid = false) :
    resolveR vs args exp =
      match resolve vs args exp with
      | some (i, o) => .chosen i o
      | none => .noMatch :=
  goR_valid args exp vs 0 h

/-! ### Non-vacuity -/

/-- `(float, int) -> int` accepts `(nat, int)`; `(nat) -> int` does not accept an `int`; a wrong
    expected type rejects -/
example : AcceptsScalar [.float, .int] .int [.nat, .int] none := ⟨.cons .natFloat (.cons (.refl _) .nil), by simp⟩
example : ¬ AcceptsScalar [.nat] .int [.int] none := by
  rintro ⟨h, _⟩; cases h with | cons h _ => cases h
example : ¬ AcceptsScalar [.int] .int [.int] (some .float) := by
  rintro ⟨_, h⟩; have := h .float rfl; cases this


/-- an ill-formed variant listed first is not skipped; listed after the accepting one it is never looked up -/
example : (match resolveR [.invalid, .plain { params := [.int], ret := .int }] [.typed .int] none with
    | .invalid 0 => true | _ => false) = true ∧
  (match resolveR [.plain { params := [.int], ret := .int }, .invalid] [.typed .int] none with
    | .chosen 0 _ => true | _ => false) = true := by decide


/-- checking position, first variant wants a compile-time `nat` and gets a runtime value
    (`ComptimeUnknownError`, not a type error): the second variant is chosen -/
example : (resolve [.plain { params := [.nat], comptime := [true], ret := .int },
                    .plain { params := [.nat], ret := .int }] [.typed .nat] (some .int)).map (·.1) = some 1 := by decide

/-- the same set with a literal: the comptime variant accepts -/
example : (resolve [.plain { params := [.nat], comptime := [true], ret := .int },
                    .plain { params := [.nat], ret := .int }] [.intLit false] (some .int)).map (·.1) = some 0 := by decide

/-- an inner overloaded function without a match, then a plain variant -/
example : (resolve [.nested [{ params := [.int], ret := .int }, { params := [.int, .int], ret := .int }],
                    .plain { params := [.int, .int, .int], ret := .int }]
            [.intLit false, .intLit false, .intLit false] (some .int)).map (·.1) = some 1 := by decide

/-- a variadic custom function listed first takes two `int`s -/
example : (resolve [.allInts, .plain { params := [.float, .float], ret := .int }]
            [.intLit false, .typed .int] none).map (·.1) = some 0 := by decide



/-- first variant fails on the second argument only (after a successful coercion of the
    first), second variant is chosen; synthesis position -/
example : (resolve [.plain { params := [.float, .bool], ret := .int }, .plain { params := [.int, .int], ret := .float }] [.typed .nat, .intLit false] none).map
    (fun r => (r.1, r.2.ret.beq .float)) = some (1, true) := by decide

/-- checking position: the first variant accepts the arguments but returns the wrong type -/
example : (resolve [.plain { params := [.int], ret := .int }, .plain { params := [.float], ret := .float }] [.intLit false] (some .float)).map (·.1) = some 1 := by
  decide

/-- generic variant `(T, T) -> T`: `(float, int)` is accepted (second argument widened), `(int, float)` is not -/
example : accepts (.plain { params := [.var 0, .var 0], ret := .var 0 }) [.typed .float, .typed .int] none = true ∧
    accepts (.plain { params := [.var 0, .var 0], ret := .var 0 }) [.typed .int, .typed .float] none = false := by decide

/-- no variant accepts -/
example : resolve [.plain { params := [.bool], ret := .int }, .plain { params := [.int, .int], ret := .int }] [.floatLit] none = none := by decide

end GuppyVerif.Overload
