import GuppyVerif.Lemmas.C33
/-! # C33 — Experimental features are gated and the gate state is restored

Property theorems only.  `exec` (Model/FeatureGate.lean) mirrors the two context-manager classes and
the four `check_*_enabled` functions; programs are arbitrary trees of bare calls, `with`
blocks on fresh or kept manager objects, gated checks, `raise` and `try/except`.
The specification side (`Spec/C33.lean`) has no manager objects: `Spec.run` is a scoping
interpreter that *discards* whatever a block's body did to the flag, `Spec.lex` is a
state-free lexical reading for programs made of `with <new object>:` blocks. -/
namespace GuppyVerif.FeatureGate

open Spec

/-- **C33 (restoration)**: after `with enable/disable_experimental_features(): body` the flag
    equals its value before the block — for every body (arbitrary nesting, bare calls inside,
    kept objects) and on both normal and exceptional exit; and the block raises exactly when
    its body (run under the block's setting) raises: `__exit__` never swallows. -/
theorem with_restores (k : Kind) (body : Prog) (s : State) :
    (exec (.withNew k body) s).state.flag = s.flag ∧
    (exec (.withNew k body) s).raised = (exec body ⟨k.target, s.env⟩).raised := by
  simp [exec, construct, withObj, enter, exitSwallows, exit_flag]

/-- **C33 (restoration, kept object)**: `x = enable…()` writes the flag *at construction* and
    captures the value it saw; a later `with x: body` restores that captured value (and does
    not set the flag on entry). -/
theorem withVar_restores_captured (x : Nat) (body : Prog) (s : State) (o : Obj)
    (h : lookup x s.env = some o) :
    (exec (.withVar x body) s).state.flag = o.original ∧
    (exec (.withVar x body) s).raised = (exec body s).raised := by
  simp [exec, h, withObj, enter, exitSwallows, exit_flag]

theorem bind_captures (x : Nat) (k : Kind) (s : State) :
    (exec (.bind x k) s).state.flag = k.target ∧
    lookup x (exec (.bind x k) s).state.env = some ⟨k, s.flag⟩ := by
  simp [exec, construct, lookup]

/-- The statement's "restore the previous setting" is **false** for a kept object if "previous"
    is read as "before the `with` block": with the flag on, `e = enable(); disable(); with e: pass`
    starts the block with the flag off and leaves it on (the value captured when `e` was built).  (Quirk of
    setting the flag in `__init__`; recorded in notes/C33.md, idiomatic use is unaffected.) -/
theorem withVar_need_not_restore_block_entry_value :
    ∃ (p : Prog) (s : State),
      let s₁ := (exec p s).state
      (exec (.withVar 0 .skip) s₁).state.flag ≠ s₁.flag :=
  ⟨.seq (.bind 0 .enable) (.call .disable), ⟨true, []⟩, by decide⟩

/-- **C33 (gating)**: a program using lists / function tensors / capturing closures / modifiers
    is rejected iff the flag is false when it is checked, accepted iff it is true; checking
    changes neither the flag nor control flow.  The diagnostic class is `errClass f`. -/
theorem gated_iff_flag (f : Feature) (s : State) :
    ((exec (.check f) s).trace = [.reject f (errClass f), .flag s.flag] ↔ s.flag = false) ∧
    ((exec (.check f) s).trace = [.accept f, .flag s.flag] ↔ s.flag = true) ∧
    (exec (.check f) s).state.flag = s.flag ∧ (exec (.check f) s).raised = false := by
  cases hf : s.flag <;> simp [exec, gate, hf]

/-- **C33 (trace refinement)**: for every program and start state the model's observations
    (accept/reject of every check, flag after every statement), final flag, captured values
    and exception outcome are those of the object-free scoping interpreter. -/
theorem trace_refines_spec (p : Prog) (s : State) :
    (exec p s).trace = (run p s.flag (savedOf s.env)).trace ∧
    (exec p s).state.flag = (run p s.flag (savedOf s.env)).flag ∧
    savedOf (exec p s).state.env = (run p s.flag (savedOf s.env)).saved ∧
    (exec p s).raised = (run p s.flag (savedOf s.env)).raised :=
  exec_sim p s

/-- **C33 (lexical scoping)**: a program built only from `with <new object>:` blocks, checks,
    `raise` and `try/except` (any nesting) observes exactly what the state-free lexical reading
    predicts — every check is decided by its innermost enclosing block, or by the initial
    setting — and leaves the flag as it found it, whatever was raised and caught. -/
theorem inline_lexical (p : Prog) (s : State) (h : isInline p = true) :
    (exec p s).trace = (lex s.flag p).1 ∧ (exec p s).raised = (lex s.flag p).2 ∧
    (exec p s).state.flag = s.flag := by
  obtain ⟨h1, h2, _, h4⟩ := exec_sim p s
  obtain ⟨g1, g2, g3, _⟩ := run_lex p s.flag (savedOf s.env) h
  exact ⟨h1.trans g1, h4.trans g2, h2.trans g3⟩

/-! Non-vacuity / concrete instances. -/

/-- nested blocks with an exception caught in between: inner check accepted, outer rejected,
    final flag restored -/
example :
    (exec (.withNew .disable
            (.seq (.tryCatch (.withNew .enable (.seq (.check .lists) .raise)))
                  (.check .closures))) ⟨true, []⟩).trace =
      [.accept .lists, .flag true, .flag true, .flag false, .flag false,
       .reject .closures .unsupported, .flag false, .flag true] := by decide

example : isInline (.withNew .disable
            (.seq (.tryCatch (.withNew .enable (.seq (.check .lists) .raise)))
                  (.check .closures))) = true := by decide

/-- a bare call inside a block is undone by the block's exit -/
example : (exec (.withNew .disable (.call .enable)) ⟨false, []⟩).state.flag = false ∧
    (exec (.seq (.bind 3 .enable) (.withVar 3 .raise)) ⟨false, []⟩).raised = true := by decide

end GuppyVerif.FeatureGate
